(** S10 / Task A — OCSP staples between stapling (C14, [Ocsp.Model]) and storage cleaning
    (C18, [Clean.Model]).

    Both models look at the same file, [ocsp/<name>-<hash>]:
    - C14 ([staple] = stapleOCSP) Loads it, parses it AGAINST THE ISSUER ([parse_issuer]), and reuses
      it iff [fresh now r && valid_for c now r] ([reusable]); an unparseable one it Deletes; what it
      fetched and stapled (Good) it Stores.
    - C18 ([delete_old_staples] = deleteOldOCSPStaples) Lists [ocsp], Loads each key, parses it
      WITHOUT issuer and Deletes it iff that fails or [now > NextUpdate] ([stale_staple]).

    The vocabularies: C14's persisted staple is a [blob] (identity + [b_parse : option resp], the
    reading of ocsp.ParseResponse(bytes, nil)); C18's value is a [cls] whose [as_staple : option Z] is
    the NextUpdate read by the same ocsp.ParseResponse(bytes, nil).  The translation is [reads]:
    the two readings are of the same bytes.

    (i)   [reusable_not_stale], [reusable_survives_clean]: what C14 would still reuse at an instant t
          is not deleted by any cleaning all of whose clock readings are <= t.
          The converse fails ([not_stale_not_reusable_refuted]): C14 refreshes halfway through the
          validity, and at the instant now = NextUpdate C14 calls the response expired while C18
          (strict [After]) keeps it.
    (ii)  [stale_not_reusable], [cleaned_staple_not_missed]: what a cleaning deleted, a stapleOCSP call at any
          later instant would not have reused; the call staples, reports and contacts the responder
          exactly as if the file were still there (only the persisted file itself differs).
    (iii) [ocsp_key_is_child], [staple_key_listed]: the key C14 writes ([Safe.Model.ocsp_staple], built on
          [prefix_ocsp]) is a terminal key directly below the prefix C18 lists ([prefix_ocsp] too), so
          the List of the cleaning shows it.
    Also [expired_cert_staple_ignored]: a reusable persisted staple of an EXPIRED certificate is not attached
    (C06's [load_managed]: "a staple outliving the certificate is ignored"). *)
From Coq Require Import List ZArith NArith Bool Lia.
From CM Require Import Lib.Str Lib.CleanSyntax Gen.Consts Safe.Model Safe.KeysProofs.
From CM Require Ocsp.Model Clean.Model Clean.Proofs Clean.Effective.
Import ListNotations.

Module O := CM.Ocsp.Model.
Module C := CM.Clean.Model.
Module CP := CM.Clean.Proofs.
Module CE := CM.Clean.Effective.

Local Open Scope Z_scope.

(** * The translation: the two models read the same bytes with ocsp.ParseResponse(bytes, nil) *)
Definition reads (b : O.blob) (cl : C.cls) : Prop :=
  C.as_staple cl = option_map O.r_next (O.b_parse b).
(** the value C18 sees for a file holding the bytes [b] (an OCSP response is neither a PEM
    certificate nor the JSON of last_clean.json) *)
Definition cls_of (b : O.blob) : C.cls := C.Cls None (option_map O.r_next (O.b_parse b)) None.
Lemma reads_cls_of b : reads b (cls_of b).
Proof. reflexivity. Qed.

(** * freshOCSP implies "not past NextUpdate" *)
Lemma half_bounds d : (0 <= d -> 0 <= O.half d <= d) /\ (d <= 0 -> O.half d <= 0).
Proof.
  unfold O.half. replace ocsp_fresh_divisor with 2 by reflexivity.
  pose proof (Z.quot_rem' d 2) as E.
  split; intros H.
  - pose proof (Z.rem_bound_pos d 2 H ltac:(lia)). lia.
  - pose proof (Z.quot_opp_l d 2 ltac:(lia)) as Ho.
    pose proof (Z.quot_pos (- d) 2 ltac:(lia) ltac:(lia)). lia.
Qed.

(** a response that is not from the future and still "fresh" has a NextUpdate, in the future *)
Lemma fresh_before_next now r :
  O.r_this r <= now -> O.fresh now r = true -> now < O.r_next r.
Proof.
  intros Ht Hf. unfold O.fresh, O.refresh_time in Hf. apply Z.ltb_lt in Hf.
  set (nu := match O.r_rcna r with
             | Some na => if na <? O.r_next r then na else O.r_next r
             | None => O.r_next r end) in *.
  assert (Hnu : nu <= O.r_next r).
  { unfold nu. destruct (O.r_rcna r) as [na|]; [|lia]. destruct (na <? O.r_next r) eqn:E; [apply Z.ltb_lt in E|]; lia. }
  set (d := O.sub_sat nu (O.r_this r)) in *.
  destruct (half_bounds d) as [Hp Hn].
  assert (Hd : d <= nu - O.r_this r \/ d <= 0).
  { unfold d, O.sub_sat, O.min_dur, O.max_dur. lia. }
  destruct (Z_le_gt_dec d 0) as [L|G]; [specialize (Hn L); lia|].
  specialize (Hp ltac:(lia)). destruct Hd; lia.
Qed.

Lemma reusable_inv c now b : O.reusable c now (Some b) = true ->
  exists r, O.b_parse b = Some r /\ O.r_sig r = true /\ O.c_chain c = true /\
            O.fresh now r = true /\ O.valid_for c now r = true.
Proof.
  unfold O.reusable, O.stored_parse, O.parse_issuer. intros H.
  destruct (O.c_chain c); [|discriminate].
  destruct (O.b_parse b) as [r|]; [|discriminate]. destruct (O.r_sig r) eqn:S; [|discriminate].
  apply andb_true_iff in H. destruct H as [F V]. exists r. auto.
Qed.
Lemma valid_for_this c now r : O.valid_for c now r = true -> O.r_this r <= now.
Proof.
  unfold O.valid_for, O.current. rewrite !andb_true_iff. intros [[_ [H _]] _]. apply Z.leb_le. exact H.
Qed.

(** * (i) safety of cleaning w.r.t. stapling *)

(** pointwise: C14 reuses at [t]  ==>  C18's test does not fire at any instant [now <= t] *)
Theorem reusable_not_stale c t now b cl :
  O.reusable c t (Some b) = true -> reads b cl -> now <= t ->
  C.stale_staple now cl = false /\ C.spec_stale now cl = false.
Proof.
  intros Hr Hrd Hle. destruct (reusable_inv _ _ _ Hr) as (r & Hp & _ & _ & Hf & Hv).
  pose proof (fresh_before_next t r (valid_for_this _ _ _ Hv) Hf) as Hlt.
  unfold reads in Hrd. rewrite Hp in Hrd. cbn [option_map] in Hrd.
  unfold C.stale_staple, C.spec_stale. rewrite Hrd.
  replace clean_staple_cmp with CmpGt by reflexivity. cbn [cmp_holds].
  split; apply Z.ltb_ge; lia.
Qed.

(** the whole cleaning, for every storage content, fault plan, cancellation point, option set and
    clock: a staple file that stapleOCSP would still reuse at an instant [t] no earlier than every
    clock reading of the cleaning keeps its value *)
Theorem reusable_survives_clean e o clk s0 k v cl c b t :
  CP.child C.spec_ocsp k -> C.file s0 k = Some (v, cl) -> reads b cl ->
  O.reusable c t (Some b) = true -> (forall i, clk i <= t) ->
  C.file (C.sto (snd (C.clean e o clk s0))) k = C.file s0 k.
Proof.
  intros Hk Hf Hrd Hr Hclk. apply (CP.fresh_staple_untouched e o clk s0 k v cl Hk Hf).
  intros i. exact (proj2 (reusable_not_stale c t (clk i) b cl Hr Hrd (Hclk i))).
Qed.

(** the converse fails, in two ways (both harmless: C14 is the stricter one).
    (a) a Good response halfway through its validity is no longer reused (C14 asks the responder
        again) but is far from deletable;
    (b) at the instant now = NextUpdate C14's checkOCSPResponse calls it expired
        ([!now.Before(NextUpdate)]) while deleteOldOCSPStaples keeps it ([now.After(NextUpdate)]). *)
Definition ex_cert : O.cert := O.Cert 1 1 7 1000 900 true true.
Definition ex_resp (this next : Z) : O.resp := O.Resp O.Good 7 this next None true.
Definition ex_blob (this next : Z) : O.blob := O.Blob 5 (Some (ex_resp this next)).

Theorem not_stale_not_reusable_refuted :
  (exists c b cl now, reads b cl /\ C.stale_staple now cl = false /\ O.reusable c now (Some b) = false /\
                      O.attach_ok c now true b = true) /\
  (exists b cl now r, reads b cl /\ O.b_parse b = Some r /\ now = O.r_next r /\
                        C.stale_staple now cl = false /\ O.current now r = false).
Proof.
  split.
  - exists ex_cert, (ex_blob 0 100), (cls_of (ex_blob 0 100)), 60. vm_compute. repeat split; reflexivity.
  - exists (ex_blob 0 100), (cls_of (ex_blob 0 100)), 100, (ex_resp 0 100). vm_compute. repeat split; reflexivity.
Qed.

(** * (ii) what the cleaning deletes, stapling would not have used *)

(** pointwise: C18's test fires at [t0]  ==>  C14 does not reuse at any instant [now >= t0].
    Covers all three ways: unparseable; NextUpdate passed; NextUpdate absent (Go's zero time is
    "before" every clock reading, so C18 deletes such a response at once; C14 never reuses it
    either, because freshOCSP computes its middle of validity 146 years before ThisUpdate). *)
Theorem stale_not_reusable c t0 now b cl :
  C.stale_staple t0 cl = true -> reads b cl -> t0 <= now -> O.reusable c now (Some b) = false.
Proof.
  intros Hs Hrd Hle. destruct (O.reusable c now (Some b)) eqn:Hr; [exfalso|reflexivity].
  destruct (reusable_not_stale c now t0 b cl Hr Hrd Hle) as [H _]. congruence.
Qed.

(** what a stapleOCSP call shows to the rest of the program *)
Definition same_outcome (r1 r2 : O.result) : Prop :=
  O.res_cs r1 = O.res_cs r2 /\ O.res_err r1 = O.res_err r2 /\ O.res_contact r1 = O.res_contact r2 /\
  O.res_seen r1 = O.res_seen r2 /\ O.res_attached r1 = O.res_attached r2.

Lemma ask_frame c cs st ops st' ops' e now :
  let r := O.ask c cs st ops e now in let r' := O.ask c cs st' ops' e now in
  same_outcome r r' /\ (O.res_store r = O.res_store r' \/ (O.res_store r = st /\ O.res_store r' = st')).
Proof.
  unfold O.ask, O.no_answer, O.finish, same_outcome.
  destruct (negb (O.c_url c)); cbn; [tauto|].
  destruct (O.e_ans e) as [| |b']; cbn; try tauto.
  destruct (O.parse_issuer b') as [r'|]; cbn; [|tauto].
  destruct (negb (O.valid_for c now r')); cbn; [tauto|].
  destruct (O.c_expiry c <? O.r_next r'); cbn; [tauto|].
  destruct (O.r_status r'); cbn; try tauto.
  destruct (O.e_store_err e); cbn; tauto.
Qed.

(** a persisted staple that is not reusable makes no difference to the call, except that the file
    may survive it *)
Theorem unusable_staple_is_as_absent disabled c cs b e now :
  O.reusable c now (Some b) = false ->
  let r1 := O.staple disabled c cs (Some b) e now in
  let r0 := O.staple disabled c cs None e now in
  same_outcome r1 r0 /\
  (O.res_store r1 = O.res_store r0 \/ (O.res_store r0 = None /\ O.res_store r1 = Some b)).
Proof.
  intros Hr. unfold O.staple. destruct disabled; cbn zeta.
  { unfold same_outcome; cbn. tauto. }
  assert (Hnone : (if O.e_load_err e || negb (O.c_chain c) then None else @None O.blob) = None)
    by (destruct (O.e_load_err e || negb (O.c_chain c)); reflexivity).
  rewrite Hnone. clear Hnone.
  destruct (O.e_load_err e || negb (O.c_chain c)).
  - destruct (ask_frame c cs (Some b) [O.SLoad] None [O.SLoad] e now) as [A [B|[B1 B2]]]; (split; [exact A|]); first [left; congruence | right; split; congruence].
  - unfold O.reusable in Hr. destruct (O.stored_parse c b) as [r|].
    + rewrite Hr. destruct (ask_frame c cs (Some b) [O.SLoad] None [O.SLoad] e now) as [A [B|[B1 B2]]]; (split; [exact A|]); first [left; congruence | right; split; congruence].
    + destruct (O.e_del_err e).
      * destruct (ask_frame c cs (Some b) [O.SLoad; O.SDelete] None [O.SLoad] e now) as [A [B|[B1 B2]]]; (split; [exact A|]); first [left; congruence | right; split; congruence].
      * destruct (ask_frame c cs None [O.SLoad; O.SDelete] None [O.SLoad] e now) as [A [B|[B1 B2]]]; (split; [exact A|]); first [left; congruence | right; split; congruence].
Qed.

(** a staple file that a cleaning removed was stale at one of its clock readings *)
Lemma removed_staple_was_stale e o clk s0 k v cl :
  CP.child C.spec_ocsp k -> C.file s0 k = Some (v, cl) ->
  C.file (C.sto (snd (C.clean e o clk s0))) k = None ->
  exists i, C.spec_stale (clk i) cl = true.
Proof.
  intros Hk Hf Hgone.
  assert (Hp : has_prefix CP.ocsp_pfx k = true).
  { destruct Hk as [x [-> _]]. apply CP.has_prefix_spec. exists x. unfold CP.ocsp_pfx. rewrite <- app_assoc. reflexivity. }
  destruct (CP.clean_post e o clk s0 k) as [[E|[_ [i J]]]|[E _]].
  - congruence.
  - exists i. apply CP.justified_inv in J. destruct J as [[_ J]|[_ J]].
    + unfold C.j_staple in J. apply existsb_exists in J. destruct J as [a [_ Ja]].
      unfold C.j_staple_by in Ja. destruct (C.childb C.spec_ocsp a) eqn:Ch; [|discriminate].
      destruct (C.covers a k) eqn:Cv; [|discriminate].
      apply CP.childb_child in Ch. destruct Ch as [ca [Ea Hca]]. destruct Hk as [ck [Ek Hck]].
      apply CP.covers_nsep in Cv.
      * subst a. rewrite <- Cv, Hf in Ja. exact Ja.
      * subst a k. rewrite !CP.nsep_app. cbn [CP.nsep]. rewrite (CP.nsep_nomem _ Hca), (CP.nsep_nomem _ Hck). reflexivity.
    + exfalso. exact (CP.pfx_disjoint _ Hp (CP.j_cert_prefix _ _ _ _ J)).
  - exfalso. rewrite E in Hp. vm_compute in Hp. discriminate.
Qed.

Lemma spec_stale_is_stale now cl : C.spec_stale now cl = C.stale_staple now cl.
Proof. reflexivity. Qed.

(** the composition: whatever the cleaning removed from ocsp/, a stapleOCSP call at any instant
    [now] after the cleaning's clock readings staples, fails and contacts the responder exactly as
    it would have with the file still in place.  All staple contents, all certificates, all
    environments of the call, all cleanings. *)
Theorem cleaned_staple_not_missed e o clk s0 k v cl b now disabled c cs en :
  CP.child C.spec_ocsp k -> C.file s0 k = Some (v, cl) -> reads b cl ->
  C.file (C.sto (snd (C.clean e o clk s0))) k = None -> (forall i, clk i <= now) ->
  O.reusable c now (Some b) = false /\
  same_outcome (O.staple disabled c cs (Some b) en now) (O.staple disabled c cs None en now).
Proof.
  intros Hk Hf Hrd Hgone Hclk.
  destruct (removed_staple_was_stale e o clk s0 k v cl Hk Hf Hgone) as [i Hs].
  rewrite spec_stale_is_stale in Hs.
  pose proof (stale_not_reusable c (clk i) now b cl Hs Hrd (Hclk i)) as Hr.
  split; [exact Hr|]. exact (proj1 (unusable_staple_is_as_absent disabled c cs b en now Hr)).
Qed.

(** * (iii) the key: what C14 writes is what C18 lists *)

Lemma path_join2 a f : noslash a -> noslash f -> has_nondot a = true -> has_nondot f = true ->
  path_join [a; f] = a ++ c_slash :: f.
Proof.
  intros Na Nf Da Df.
  destruct (nondot_not_special a Da) as (Ea & Ha1 & Ha2).
  destruct (nondot_not_special f Df) as (Ef & Hf1 & Hf2).
  unfold path_join, join_comps. cbn [filter]. rewrite Ea, Ef. cbn [negb fst snd].
  assert (Hr : is_rooted a = false).
  { destruct a as [|x a']; [reflexivity|]. cbn [is_rooted]. apply N.eqb_neq. intros ->. apply Na. left; reflexivity. }
  rewrite Hr. cbn [flat_map]. rewrite (split_noslash a Na), (split_noslash f Nf). cbn [app].
  rewrite clean_comps_nodd.
  2:{ cbn [forallb]. unfold notdd. rewrite Ha2, Hf2. reflexivity. }
  cbn [filter]. unfold keepc. rewrite Ea, Ha1, Ef, Hf1. cbn [orb negb].
  unfold render. cbn [join_with]. reflexivity.
Qed.

Section Keys.
  Variables (lower : N -> N) (is_space : N -> bool).
  Hypothesis H2 : forall c, is_upper_ascii (lower c) = false.
  Notation sf := (safe lower is_space).

  (** the file name part of the staple key: <safe first name>-<hash> or <hash> *)
  Definition staple_file (first : option str) (hash : str) : str :=
    match first with Some n => sf n ++ [45%N] | None => [] end ++ hash.

  Lemma staple_file_ok first hash : noslash hash -> has_nondot hash = true ->
    noslash (staple_file first hash) /\ has_nondot (staple_file first hash) = true.
  Proof.
    intros Hh Hd. unfold staple_file. split.
    - destruct first; [|exact Hh]. repeat apply noslash_app; try assumption; [apply (sf_noslash lower is_space H2)|].
      intros [Hx|[]]. discriminate.
    - apply has_nondot_app_r. exact Hd.
  Qed.

  (** C14's key builder (StorageKeys.OCSPStaple) spelled as a string: prefixOCSP / file *)
  Theorem ocsp_key_string first hash : noslash hash -> has_nondot hash = true ->
    ocsp_staple lower is_space first hash = prefix_ocsp ++ c_slash :: staple_file first hash.
  Proof.
    intros Hh Hd. destruct (staple_file_ok first hash Hh Hd) as [Nf Df].
    assert (Hc : noslash prefix_ocsp /\ has_nondot prefix_ocsp = true) by (apply const_facts; cbn; tauto).
    destruct Hc as [Nc Dc]. unfold ocsp_staple. exact (path_join2 _ _ Nc Nf Dc Df).
  Qed.

  Lemma noslash_mem s : noslash s -> C.mem C.c_sl s = false.
  Proof.
    intros Hn. unfold C.mem. destruct (existsb (N.eqb C.c_sl) s) eqn:E; [|reflexivity].
    apply existsb_exists in E. destruct E as [x [Hin Hx]]. apply N.eqb_eq in Hx. subst x. exfalso. exact (Hn Hin).
  Qed.

  (** ... is a terminal key directly below the prefix that C18's deleteOldOCSPStaples Lists
      ([prefix_ocsp] in both models, [C18_source_text_is_modelled]: [prefix_ocsp = spec_ocsp]) *)
  Theorem ocsp_key_is_child first hash : noslash hash -> has_nondot hash = true ->
    CP.child C.spec_ocsp (ocsp_staple lower is_space first hash) /\
    CP.child prefix_ocsp (ocsp_staple lower is_space first hash).
  Proof.
    intros Hh Hd. rewrite (ocsp_key_string first hash Hh Hd).
    destruct (staple_file_ok first hash Hh Hd) as [Nf _].
    split; exists (staple_file first hash); (split; [reflexivity | exact (noslash_mem _ Nf)]).
  Qed.

  (** so a stored staple is among the keys the cleaning's List(prefixOCSP) returns (both List
      flavours), provided "ocsp" itself is not a file *)
  Theorem staple_key_listed l s0 first hash n : noslash hash -> has_nondot hash = true ->
    C.lookup s0 (ocsp_staple lower is_space first hash) = Some n ->
    (forall v cl, C.lookup s0 prefix_ocsp <> Some (C.File v cl)) ->
    exists ks, C.list_pure l s0 prefix_ocsp = Some ks /\ In (ocsp_staple lower is_space first hash) ks.
  Proof.
    intros Hh Hd Hl Hnf.
    exact (CE.list_pure_complete l s0 prefix_ocsp _ n Hl (proj2 (ocsp_key_is_child first hash Hh Hd)) Hnf).
  Qed.

  (** (i) and (ii) for the key C14 really uses *)
  Corollary c14_key_reusable_survives e o clk s0 first hash v cl c b t :
    noslash hash -> has_nondot hash = true ->
    let k := ocsp_staple lower is_space first hash in
    C.file s0 k = Some (v, cl) -> reads b cl -> O.reusable c t (Some b) = true -> (forall i, clk i <= t) ->
    C.file (C.sto (snd (C.clean e o clk s0))) k = C.file s0 k.
  Proof.
    intros Hh Hd k. apply reusable_survives_clean. exact (proj1 (ocsp_key_is_child first hash Hh Hd)).
  Qed.
  Corollary c14_key_cleaned_not_missed e o clk s0 first hash v cl b now disabled c cs en :
    noslash hash -> has_nondot hash = true ->
    let k := ocsp_staple lower is_space first hash in
    C.file s0 k = Some (v, cl) -> reads b cl ->
    C.file (C.sto (snd (C.clean e o clk s0))) k = None -> (forall i, clk i <= now) ->
    O.reusable c now (Some b) = false /\
    same_outcome (O.staple disabled c cs (Some b) en now) (O.staple disabled c cs None en now).
  Proof.
    intros Hh Hd k. apply cleaned_staple_not_missed. exact (proj1 (ocsp_key_is_child first hash Hh Hd)).
  Qed.
End Keys.

(** * A staple outliving the certificate (C06 [load_managed]: "if is_expired c then None") *)

(** in C14's terms: when the certificate has expired, a persisted staple that passes every reuse
    test is still not attached -- its NextUpdate lies after the certificate's expiry -- and the
    call reports an error without asking the responder *)
Theorem expired_cert_staple_ignored c cs b e now :
  O.c_expiry c < now -> O.reusable c now (Some b) = true -> O.e_load_err e = false ->
  let r := O.staple false c cs (Some b) e now in
  O.res_cs r = cs /\ O.res_attached r = false /\ O.res_err r = true /\ O.res_contact r = false.
Proof.
  intros Hx Hr Hl. destruct (reusable_inv _ _ _ Hr) as (r & Hp & Hs & Hc & Hf & Hv).
  pose proof (fresh_before_next now r (valid_for_this _ _ _ Hv) Hf) as Hlt.
  unfold O.staple. rewrite Hl, Hc. cbn [orb negb].
  unfold O.stored_parse, O.parse_issuer. rewrite Hc, Hp, Hs, Hf, Hv. cbn [andb].
  unfold O.finish. rewrite Hv. cbn [negb].
  assert (Hov : (O.c_expiry c <? O.r_next r) = true) by (apply Z.ltb_lt; lia).
  rewrite Hov. cbn. auto.
Qed.

(** conversely, what C14 itself persists ([step_persist], S6: only responses satisfying [attach_ok],
    whose NextUpdate is no later than the certificate's expiry) is deletable by C18 as soon as the
    certificate has expired: staples do not outlive their certificate in storage past a cleaning *)
Theorem persisted_staple_stale_after_expiry c t0 sg b cl now :
  O.attach_ok c t0 sg b = true -> reads b cl -> O.c_expiry c < now -> C.stale_staple now cl = true.
Proof.
  unfold O.attach_ok, reads. intros Ha Hrd Hx. destruct (O.b_parse b) as [r|]; [|discriminate].
  cbn [option_map] in Hrd. unfold C.stale_staple. rewrite Hrd.
  replace clean_staple_cmp with CmpGt by reflexivity. cbn [cmp_holds].
  repeat (apply andb_true_iff in Ha; destruct Ha as [Ha ?]).
  match goal with H : (O.r_next r <=? O.c_expiry c) = true |- _ => apply Z.leb_le in H end.
  apply Z.ltb_lt. lia.
Qed.

(** * Examples: the hypotheses are satisfiable *)
(* "ocsp/a-1f" *)
Definition ex_hash : str := [49; 102]%N.
Definition ex_first : option str := Some [97]%N.
Definition ex_key : str := ocsp_staple ascii_lower ascii_space ex_first ex_hash.
Definition T0 : Z := 1000000.
Definition ex_fresh_blob : O.blob := ex_blob (T0 - 100) (T0 + 900).   (* refresh time T0 + 400 *)
Definition ex_old_blob : O.blob := ex_blob (T0 - 900) (T0 - 100).
Definition ex_cert2 : O.cert := O.Cert 1 1 7 (T0 + 5000) 10000 true true.
(** the environment without faults, cancellation or kill, and the options "no interval, clean
    staples and certificates, no grace": built field by field from the field TYPES (every list
    empty, every option None, every flag true, every number 0), so that the definitions survive new
    fields of [C.env] / [C.opts] *)
Definition ex_env : C.env :=
  ltac:(constructor; first [exact (@nil _) | exact (@None _) | exact true]).
Definition ex_opts : C.opts :=
  ltac:(constructor; first [exact 0%Z | exact true | exact (@nil _)]).
Example ex_env_no_faults : CE.no_faults ex_env /\ C.do_ocsp ex_opts = true /\ (C.interval ex_opts <= 0)%Z.
Proof. unfold CE.no_faults. repeat split; first [reflexivity | discriminate | lia]. Qed.
Definition ex_store (b : O.blob) : C.store := [(ex_key, C.File 1 (cls_of b))].

Example ex_key_string : ex_key = [111; 99; 115; 112; 47; 97; 45; 49; 102]%N.
Proof. vm_compute. reflexivity. Qed.

(** hypotheses of [reusable_survives_clean] / [c14_key_reusable_survives], and its conclusion on a run *)
Example ex_reusable_hyps :
  noslash ex_hash /\ has_nondot ex_hash = true /\
  C.file (ex_store ex_fresh_blob) ex_key = Some (1, cls_of ex_fresh_blob) /\
  O.reusable ex_cert2 T0 (Some ex_fresh_blob) = true /\
  C.file (C.sto (snd (C.clean ex_env ex_opts (fun _ => T0) (ex_store ex_fresh_blob)))) ex_key =
    Some (1, cls_of ex_fresh_blob).
Proof.
  split; [intros [H|[H|[]]]; discriminate|]. vm_compute. repeat split; reflexivity.
Qed.

(** the same for EVERY environment (the theorem, not a computation) *)
Example ex_reusable_any_env : forall e o clk, (forall i, clk i <= T0) ->
  C.file (C.sto (snd (C.clean e o clk (ex_store ex_fresh_blob)))) ex_key = Some (1, cls_of ex_fresh_blob).
Proof.
  intros e o clk Hclk.
  rewrite (reusable_survives_clean e o clk (ex_store ex_fresh_blob) ex_key 1 (cls_of ex_fresh_blob) ex_cert2 ex_fresh_blob T0).
  - reflexivity.
  - exists [97; 45; 49; 102]%N. split; vm_compute; reflexivity.
  - reflexivity.
  - apply reads_cls_of.
  - vm_compute. reflexivity.
  - exact Hclk.
Qed.

(** hypotheses of [cleaned_staple_not_missed]: the old staple is removed by the run *)
Example ex_cleaned_hyps :
  C.file (ex_store ex_old_blob) ex_key = Some (1, cls_of ex_old_blob) /\
  C.file (C.sto (snd (C.clean ex_env ex_opts (fun _ => T0) (ex_store ex_old_blob)))) ex_key = None /\
  O.reusable ex_cert2 T0 (Some ex_old_blob) = false.
Proof. vm_compute. repeat split; reflexivity. Qed.

(** the same for every fault-free environment and every clock at or after T0 (C18's effectiveness theorem) *)
Example ex_cleaned_any_env : forall e clk, CE.no_faults e -> (forall i, T0 <= clk i) ->
  C.lookup (C.sto (snd (C.clean e ex_opts clk (ex_store ex_old_blob)))) ex_key = None.
Proof.
  intros e clk Hnf Hclk.
  apply (CE.stale_staples_removed e ex_opts clk (ex_store ex_old_blob) ex_key 1 (cls_of ex_old_blob) Hnf).
  - reflexivity.
  - vm_compute. discriminate.
  - intros v' c'. vm_compute. discriminate.
  - exists [97; 45; 49; 102]%N. split; vm_compute; reflexivity.
  - reflexivity.
  - intros i. unfold C.spec_stale. cbn. apply Z.ltb_lt. specialize (Hclk i). unfold T0 in *. lia.
  - vm_compute. reflexivity.
Qed.

(** hypotheses of [expired_cert_staple_ignored]: certificate expired at T0 - 1, staple fresh and current *)
Example ex_expired_cert_hyps :
  let c := O.Cert 1 1 7 (T0 - 1) 10000 true true in
  O.c_expiry c < T0 /\ O.reusable c T0 (Some ex_fresh_blob) = true.
Proof. vm_compute. split; reflexivity. Qed.

Example ex_persisted_hyps :
  O.attach_ok ex_cert2 T0 true ex_fresh_blob = true /\ O.c_expiry ex_cert2 < T0 + 6000 /\
  C.stale_staple (T0 + 6000) (cls_of ex_fresh_blob) = true.
Proof. vm_compute. repeat split; reflexivity. Qed.

