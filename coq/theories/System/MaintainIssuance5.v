(** System / S9 (part 5) -- what the lock does NOT make atomic, and where the two models part.
    Witnesses ([vm_compute] on concrete runs of the actual models). *)
From Coq Require Import List Bool Arith Lia.
From CM Require Issuance.Model Maintain.Model.
From CM Require Import Issuance.Base System.MaintainIssuance System.MaintainIssuance2 System.MaintainIssuance3.
Import ListNotations.
Open Scope nat_scope.

(** thread 0: RenewCertSync of name class 3 under the issuance lock 7;
    thread 1: updateARI for the cached (old) certificate of the same name, under ITS lock 20
    ("ari_<unique id>", maintain.go:476) *)
Definition w_cs : list I.tcfg :=
  [I.TCfg (I.PRenew false) 7 3 3 3 false false false false; I.TCfg (I.PAri true) 20 3 3 3 false false false false].
Definition w_sto : I.skey -> option I.value :=
  I.sto_of_list [(I.SK 3 I.KKey, I.VKey 1); (I.SK 3 I.KCrt, I.VCrt (I.Cert 5 1 true)); (I.SK 3 I.KMeta, I.VMeta 5)].
Definition L (t : nat) : I.label := I.Label t I.FNone false.
(** renewer: Lock, LockAcquired, Load x3, cert_obtaining, IssueStart, IssueEnd, Store key, Store crt *)
Definition w_r10 : list I.label := repeat (L 0) 10.

(** (R1) the ARI updater's Store of the metadata file falls BETWEEN the renewer's Store of the
    certificate and its Store of the metadata, while the trace says the renewer owns lock 7:
    [locked_region_atomic] without its "same lock key" hypothesis is false, and so is
    [locked_window_frame] for the metadata file. *)
Definition w_labels1 : list I.label := w_r10 ++ repeat (L 1) 6 ++ repeat (L 0) 3.
Theorem ari_store_inside_save_refuted :
  exists s' es,
    I.run (I.init_state w_cs w_sto) w_labels1 = Some (s', es) /\
    let es1 := firstn 15 es in let e := nth 15 es (I.Ev 0 I.OOther 0) in let es2 := skipn 16 es in
    es = es1 ++ e :: es2 /\
    owner_tr 7 es1 None = Some 0 /\ I.e_tid e = 1 /\
    I.e_op e = I.OStore (I.SK 3 I.KMeta) /\ I.e_out e = 0 /\ guarded_op (I.e_op e) = true /\
    (* the renewer's Store crt is before it, its Store meta after it *)
    In (I.Ev 0 (I.OStore (I.SK 3 I.KCrt)) 0) es1 /\ In (I.Ev 0 (I.OStore (I.SK 3 I.KMeta)) 0) es2 /\
    (* and the hypothesis that fails: a possible writer of the file with another lock *)
    may_write (I.TCfg (I.PAri true) 20 3 3 3 false false false false) 3 I.KMeta = true.
Proof.
  eexists. eexists. split; [vm_compute; reflexivity|]. vm_compute. repeat split; auto 20.
Qed.

(** (R2) the updater loads the metadata (old certificate 5) BEFORE the renewer stores the new
    one and stores AFTER it.  In the Issuance model the result is [VMetaA 0]: the NEW identity
    (0) carrying the renewal information fetched for the OLD certificate -- [PAStore] computes
    the value from the storage content at Store time.  In the Go code the value stored is built
    from what [loadStoredACMECertificateMetadata] returned earlier (maintain.go:585-605), so the
    OLD certificate's ACME data (URL, RenewalInfo) overwrite the new .json: a lost update that
    the Issuance model cannot express and the Maintain model (ARI inert) does not contain. *)
Definition w_labels2 : list I.label :=
  w_r10 ++ repeat (L 1) 5 ++ [L 0] ++ repeat (L 1) 2 ++ repeat (L 0) 2.
Theorem ari_marks_new_metadata_refuted :
  exists s' es,
    I.run (I.init_state w_cs w_sto) w_labels2 = Some (s', es) /\
    I.sto (I.sh s') (I.SK 3 I.KCrt) = Some (I.VCrt (I.Cert 0 0 false)) /\
    I.sto (I.sh s') (I.SK 3 I.KMeta) = Some (I.VMetaA 0) /\
    map I.tpc (I.thr s') = [I.PDone I.ROk; I.PDone I.ROk].
Proof. eexists. eexists. split; [vm_compute; reflexivity|]. vm_compute. auto. Qed.

(** what IS protected even then: an ARI updater is no possible writer of the key and the
    certificate file, so [locked_window_frame] applies to them with updaters around *)
Lemma ari_never_writes_key_or_cert c n newer :
  I.c_prog c = I.PAri newer -> may_write c n I.KKey = false /\ may_write c n I.KCrt = false.
Proof. intros H. unfold may_write. rewrite H. cbn. rewrite !andb_false_r. auto. Qed.

(** (R3) readers are not excluded: ManageSync loads the key file without the lock while the
    renewer is between Store key and Store crt (C01's known finding (b)): the event is a Load of
    a bundle file by another thread with the SAME lock key inside the window -- [guarded_op]
    deliberately does not contain Loads. *)
Definition r_cs : list I.tcfg :=
  [I.TCfg (I.PRenew false) 7 3 3 3 false false false false; I.TCfg I.PManage 7 3 3 3 false false false false].
Theorem unlocked_reader_inside_save_refuted :
  exists s' es, I.run (I.init_state r_cs w_sto) (repeat (L 0) 9 ++ repeat (L 1) 3) = Some (s', es) /\
    owner_tr 7 (firstn 9 es) None = Some 0 /\
    map I.e_op (skipn 9 es) = [I.OLoad (I.SK 3 I.KKey); I.OLoad (I.SK 3 I.KCrt); I.OLoad (I.SK 3 I.KMeta)] /\
    (* it read the NEW key with the OLD certificate: "private key does not match" *)
    map I.tpc (I.thr s') = [I.PSave I.KCrt; I.PDone I.RErr].
Proof. eexists. eexists. split; [vm_compute; reflexivity|]. vm_compute. auto. Qed.

(** (R4) Maintain: "a synchronous manage that would have to wait for the lock is modelled as not
    taking place" ([Maintain.Model.manage] returns the state unchanged).  Issuance (and the Go
    code, config.go manageOne: CacheManagedCertificate BEFORE renewCert) has already loaded and
    cached the stored certificate when the caller blocks at the lock: [seen = Some old], no step
    possible.  Maintain's cache is still empty. *)
Definition b_i : list I.tcfg := r_cs.
Definition b_m : M.state :=
  M.State [(3, M.Cert 5 3 [] true true)] [] [M.Job 3 M.JRenew None M.Locked] [] [] [] [] 6 false.
Theorem manage_blocked_state_refuted :
  exists s' es,
    I.run (I.init_state b_i w_sto) (repeat (L 0) 3 ++ repeat (L 1) 6) = Some (s', es) /\
    I.lks (I.sh s') 7 = Some 0 /\
    map I.tpc (I.thr s') = [I.PLd I.KCrt; I.PLockWait] /\
    map I.seen (I.thr s') = [None; Some (I.Cert 5 1 true)] /\
    (forall f b, f <> I.FCancel -> I.step s' (I.Label 1 f b) = None) /\
    M.lock_held (M.jobs b_m) 3 = true /\
    M.manage (fun _ => false) false b_m 3 false = b_m /\ M.cache b_m = [].
Proof.
  eexists. eexists. split; [vm_compute; reflexivity|]. vm_compute. repeat split; auto.
  intros f b Hf. destruct f; try reflexivity. congruence.
Qed.
