(** System / S6, part 3 -- manageOne (the ManageSync path: load; if absent obtain and load; if due
    renew and reload): Issuance.Model [PManage] vs Bundle.Model [manage].
    Vocabulary, translation and [agree] are in [System.IssBundle].

    manageOne is the one place where both models compare two stored identifiers (the private key
    against the key the certificate certifies: tls.X509KeyPair in makeCertificate).  Both are run
    by computation, and a comparison of two universally quantified numbers does not compute, so
      - [manage_agrees_ids] is for ARBITRARY key numbers, on the storages where the comparison
        is only ever made on the freshly generated key (bundle incomplete, and not (ReusePrivateKeys
        with a stored key));
      - [manage_agrees] covers EVERY shape (present/absent x key matches or not x due or not) with
        representative key numbers (stored key 1, certificate for key 1 or 2; fresh keys are
        numbered from 0); certificate and metadata numbers stay arbitrary. *)
From Coq Require Import List Bool Arith NArith ZArith Lia.
From CM Require Issuance.Model Bundle.Model.
From CM Require Import System.IssBundle.
Import ListNotations.

(** [pk]: a key file is stored; [pc = Some (ci, m, due)]: a certificate number [ci] is stored, it
    certifies the stored key ([m]) or another one, it is due or not; [hm]: metadata *)
Definition rep_shape (pk : bool) (pc : option (nat * bool * bool)) (hm : option nat) : shape :=
  Shape (if pk then Some 1 else None)
        (match pc with Some (ci, m, due) => Some (I.Cert ci (if m then 1 else 2) due) | None => None end)
        hm.

Theorem manage_agrees : forall k x idn reuse force issdue pk pc hm rest,
  agree k x (mk_cfg I.PManage idn reuse force issdue) (sto_of (rep_shape pk pc hm) rest).
Proof.
  intros k x idn reuse force issdue pk pc hm rest.
  (* Bundle's due / expired distinction only matters when a stored certificate is due *)
  destruct pc as [[[ci [|]] [|]]|]; [> destruct x | | destruct x | | ];
    destruct pk, hm as [hm|], reuse; each_k 24 k agree_compute.
Qed.

Theorem manage_agrees_ids : forall k x idn reuse force issdue h rest,
  (h_key h = None \/ h_crt h = None \/ h_meta h = None) -> (reuse = false \/ h_key h = None) ->
  agree k x (mk_cfg I.PManage idn reuse force issdue) (sto_of h rest).
Proof.
  intros k x idn reuse force issdue [[hk|] [[ci ck cd]|] [hm|]] rest Hinc Hre; cbn in Hinc, Hre;
    try (exfalso; clear - Hinc; intuition discriminate);
    destruct reuse; try (exfalso; clear - Hre; intuition discriminate);
    each_k 24 k agree_compute.
Qed.
