(** S8 / Task A — the job manager of async.go (C19, [Retry.Model]: queue, names set, workers) refines
    the job list that the maintenance model (C05, [Maintain.Model]: [jobs], [submit_renew], [JobStep],
    a job ends by being removed) assumes; and the retry decision of [doWithRetry] (C19) agrees with
    Maintain's "one model step per attempt" and with Issuance's [after_attempt] / [PWait] (C01/C09).

    Abstraction.  Maintain identifies a job by (kind, name); async.go by the string it was submitted
    under: ["renew_"+name] for renewal jobs (maintain.go:249, config.go:487), [""] for the obtain job of
    manageOne (config.go:441).  [rn : nat -> str] is that naming (any injective, never-empty function),
    [mname] the string of a Maintain job, and

        view s  = the names of queue s ++ running s ++ finishing s      (Retry side)
        mview js = map mname js                                          (Maintain side)
        absR s js := Permutation (view s) (mview js)

    (a multiset: Maintain keeps submission order, the job manager moves jobs between three lists).
    [finishing] = the job function has returned, [delete(jm.names, name)] has not run yet: such a job
    still blocks its name, so it is live for Maintain (whose last job step removes job and name at
    once): see [view_without_finishing_refuted]. *)
From Coq Require Import List Arith Bool Lia NArith ZArith Permutation.
From CM Require Import Lib.Str.
From CM Require Retry.Model Retry.Proofs Maintain.Model Issuance.Model.
Import ListNotations.
Local Open Scope nat_scope.

Module R := CM.Retry.Model.
Module RP := CM.Retry.Proofs.
Module M := CM.Maintain.Model.
Module I := CM.Issuance.Model.

(** * Small list facts *)

Lemma take_job_perm : forall id l j r, R.take_job id l = Some (j, r) -> Permutation l (j :: r).
Proof.
  intros id l. induction l as [|x l IH]; intros j r H; [discriminate|].
  cbn [R.take_job] in H. destruct (R.j_id x =? id).
  - injection H as <- <-. apply Permutation_refl.
  - destruct (R.take_job id l) as [[y r']|] eqn:T; [|discriminate]. injection H as <- <-.
    eapply perm_trans; [apply perm_skip; apply (IH _ _ eq_refl)|apply perm_swap].
Qed.

Lemma perm_move : forall A (q r f : list A) j, Permutation (j :: q ++ r ++ f) (q ++ r ++ j :: f).
Proof. intros. rewrite !app_assoc. apply Permutation_middle. Qed.

Lemma str_eqb_refl : forall a : str, str_eqb a a = true.
Proof. intros a. apply str_eqb_eq. reflexivity. Qed.

Lemma str_eqb_neq : forall a b : str, a <> b -> str_eqb a b = false.
Proof. intros a b H. destruct (str_eqb a b) eqn:E; [apply str_eqb_eq in E; contradiction|reflexivity]. Qed.

Lemma has_name_In : forall n l, R.has_name n l = true <-> In n l.
Proof.
  intros n l. unfold R.has_name. rewrite existsb_exists. split.
  - intros (x & Hx & E). apply str_eqb_eq in E. subst x. exact Hx.
  - intros H. exists n. split; [exact H|apply str_eqb_refl].
Qed.

Section Naming.
  (** the name under which the renewal job of [n] is submitted: "renew_" ++ n *)
  Variable rn : nat -> str.
  Hypothesis rn_inj : forall a b, rn a = rn b -> a = b.
  Hypothesis rn_ne : forall a, rn a <> [].

  Definition mname (j : M.job) : str :=
    match M.jkd j with M.JRenew => rn (M.jname j) | M.JObtain => [] end.

  (** the abstraction function (Retry state |-> multiset of live job names) and Maintain's side of it *)
  Definition view (s : R.jm) : list str := map R.j_name (R.held s).
  Definition mview (js : list M.job) : list str := map mname js.
  Definition absR (s : R.jm) (js : list M.job) : Prop := Permutation (view s) (mview js).

  Lemma mname_set_pc : forall j p, mname (M.set_pc j p) = mname j.
  Proof. reflexivity. Qed.

  Lemma mview_app : forall a b, mview (a ++ b) = mview a ++ mview b.
  Proof. intros. apply map_app. Qed.

  (** Maintain's dedup test [existsb (is_renew_for n)] in the vocabulary of names *)
  Lemma renew_for_iff : forall n js, existsb (M.is_renew_for n) js = true <-> In (rn n) (mview js).
  Proof.
    intros n js. rewrite existsb_exists. unfold mview. rewrite in_map_iff. split.
    - intros (x & Hx & E). exists x. split; [|exact Hx]. unfold M.is_renew_for in E. unfold mname.
      destruct (M.jkd x); [discriminate|]. apply Nat.eqb_eq in E. rewrite E. reflexivity.
    - intros (x & E & Hx). exists x. split; [exact Hx|]. unfold M.is_renew_for. unfold mname in E.
      destruct (M.jkd x).
      + exfalso. apply (rn_ne n). symmetry. exact E.
      + apply Nat.eqb_eq. apply rn_inj. exact E.
  Qed.

  Lemma cnt_held : forall n s,
    RP.cnt n (R.held s) = RP.cnt n (R.queue s) + RP.cnt n (R.running s) + RP.cnt n (R.finishing s).
  Proof. intros n s. unfold R.held. rewrite !RP.cnt_app. lia. Qed.

  Lemma cnt_view : forall n s, RP.cnt n (R.held s) = count_occ RP.str_dec (view s) n.
  Proof. reflexivity. Qed.

  (** (i) the names set of the job manager decides exactly like Maintain's [existsb (is_renew_for n)]:
      this is where C19's invariant [names = names of queue ++ running ++ finishing] is used *)
  Theorem dedup_agrees : forall s js n, RP.jinv s -> absR s js ->
    R.has_name (rn n) (R.names s) = existsb (M.is_renew_for n) js.
  Proof.
    intros s js n Hi Ha. destruct Hi as [I1 I2 _ _ _ _].
    specialize (I1 (rn n) (rn_ne n)). specialize (I2 (rn n) (rn_ne n)).
    rewrite <- cnt_held in I1, I2. rewrite cnt_view in I1, I2.
    unfold absR in Ha. rewrite (Permutation_count_occ RP.str_dec) in Ha. rewrite (Ha (rn n)) in I1, I2.
    destruct (existsb (M.is_renew_for n) js) eqn:E.
    - apply I2. apply renew_for_iff in E. apply (count_occ_In RP.str_dec) in E. lia.
    - destruct (R.has_name (rn n) (R.names s)) eqn:E2; [|reflexivity].
      assert (Hc : count_occ RP.str_dec (mview js) (rn n) = 1) by (apply I2; reflexivity).
      assert (Hin : In (rn n) (mview js)) by (apply (count_occ_In RP.str_dec); lia).
      apply renew_for_iff in Hin. congruence.
  Qed.

  Lemma view_submit : forall q j r f,
    Permutation (map R.j_name ((q ++ [j]) ++ r ++ f)) (map R.j_name (q ++ r ++ f) ++ [R.j_name j]).
  Proof.
    intros q j r f. rewrite <- app_assoc. rewrite !map_app. cbn [map app].
    rewrite <- app_assoc. apply Permutation_app_head.
    eapply perm_trans; [apply Permutation_cons_append|]. rewrite <- app_assoc. apply Permutation_refl.
  Qed.

  (** (i) [jm.Submit("renew_"+n, ...)] is Maintain's [submit_renew] under the abstraction *)
  Theorem submit_renew_refines : forall maxw s js id n old s', RP.jinv s -> absR s js ->
    R.jstep maxw s (R.Submit (R.Job id (rn n))) = Some s' ->
    absR s' (M.submit_renew js n old).
  Proof.
    intros maxw s js id n old s' Hi Ha H. unfold R.jstep, R.jstep_gen in H. cbn [R.j_id R.j_name] in H.
    destruct (existsb _ _) in H; [discriminate|].
    rewrite (dedup_agrees s js n Hi Ha) in H. unfold M.submit_renew.
    assert (Hne : R.is_empty_name (rn n) = false).
    { destruct (rn n) eqn:E; [exfalso; apply (rn_ne n E)|reflexivity]. }
    rewrite Hne in H. cbn [negb andb] in H.
    destruct (existsb (M.is_renew_for n) js).
    - injection H as <-. exact Ha.
    - assert (Hv : Permutation (view s ++ [rn n]) (mview (js ++ [M.Job n M.JRenew (Some old) M.Queued]))).
      { rewrite mview_app. cbn [mview map mname M.jkd M.jname]. apply Permutation_app_tail. exact Ha. }
      destruct (R.active s <? maxw); injection H as <-; unfold absR, view, R.held; cbn [R.queue R.running R.finishing];
        (eapply perm_trans; [apply view_submit|exact Hv]).
  Qed.

  (** (i) unnamed jobs (manageOne's async obtain) are never de-duplicated: always appended *)
  Theorem submit_unnamed_refines : forall maxw s js id n s', absR s js ->
    R.jstep maxw s (R.Submit (R.Job id [])) = Some s' ->
    absR s' (js ++ [M.Job n M.JObtain None M.Queued]).
  Proof.
    intros maxw s js id n s' Ha H. unfold R.jstep, R.jstep_gen in H. cbn [R.j_id R.j_name R.is_empty_name negb andb] in H.
    destruct (existsb _ _) in H; [discriminate|].
    assert (Hv : Permutation (view s ++ [[]]) (mview (js ++ [M.Job n M.JObtain None M.Queued]))).
    { rewrite mview_app. cbn [mview map mname M.jkd M.jname]. apply Permutation_app_tail. exact Ha. }
    destruct (R.active s <? maxw); injection H as <-; unfold absR, view, R.held; cbn [R.queue R.running R.finishing];
      (eapply perm_trans; [apply view_submit|exact Hv]).
  Qed.

  (** (ii) a worker taking a job (or exiting on an empty queue) and a job function returning
      - normally, with an error, or by a recovered panic - do not change the set of live jobs *)
  Theorem take_stutters : forall maxw s s', R.jstep maxw s R.Take = Some s' -> Permutation (view s') (view s).
  Proof.
    intros maxw s s' H. unfold R.jstep, R.jstep_gen in H. destruct (R.idle s); [discriminate|].
    unfold view, R.held. destruct (R.queue s) as [|j q] eqn:Eq; injection H as <-; cbn [R.queue R.running R.finishing].
    - apply Permutation_refl.
    - apply Permutation_map. rewrite <- app_assoc. cbn [app]. apply Permutation_sym. apply perm_move.
  Qed.

  Theorem return_stutters : forall maxw s id k s', R.jstep maxw s (R.Return id k) = Some s' ->
    Permutation (view s') (view s).
  Proof.
    intros maxw s id k s' H. unfold R.jstep, R.jstep_gen in H.
    destruct (R.take_job id (R.running s)) as [[j r]|] eqn:T; [|discriminate].
    assert (H' : Some (R.JM (R.queue s) (R.names s) (R.active s) (R.idle s) r (R.finishing s ++ [j])) = Some s')
      by (destruct k; exact H).
    injection H' as <-. unfold view, R.held. cbn [R.queue R.running R.finishing].
    apply Permutation_map. apply Permutation_app_head.
    apply take_job_perm in T. apply Permutation_sym.
    eapply perm_trans; [apply Permutation_app_tail; exact T|]. cbn [app].
    rewrite app_assoc. apply Permutation_cons_append.
  Qed.

  (** (ii) the worker releasing the name = the job ends for Maintain: it is removed from the list *)
  Theorem release_view : forall maxw s id s' j r, R.take_job id (R.finishing s) = Some (j, r) ->
    R.jstep maxw s (R.Release id) = Some s' -> Permutation (view s) (R.j_name j :: view s').
  Proof.
    intros maxw s id s' j r T H. unfold R.jstep, R.jstep_gen in H. rewrite T in H. injection H as <-.
    unfold view, R.held. cbn [R.queue R.running R.finishing].
    change (R.j_name j :: map R.j_name (R.queue s ++ R.running s ++ r))
      with (map R.j_name (j :: R.queue s ++ R.running s ++ r)).
    apply Permutation_map. apply take_job_perm in T. rewrite !app_assoc.
    eapply perm_trans; [apply Permutation_app_head; exact T|]. apply Permutation_sym. apply Permutation_middle.
  Qed.

  Theorem release_refines : forall maxw s js id s' j r pre x post,
    absR s js -> R.take_job id (R.finishing s) = Some (j, r) ->
    R.jstep maxw s (R.Release id) = Some s' ->
    js = pre ++ x :: post -> mname x = R.j_name j ->
    absR s' (pre ++ post).
  Proof.
    intros maxw s js id s' j r pre x post Ha T H -> Hx. unfold absR in *.
    pose proof (release_view maxw s id s' j r T H) as Hv.
    rewrite mview_app in Ha. cbn [mview map] in Ha. rewrite Hx in Ha. rewrite mview_app.
    apply Permutation_cons_app_inv with (a := R.j_name j).
    eapply perm_trans; [apply Permutation_sym; exact Hv|exact Ha].
  Qed.

  (** ... and Maintain does have such a job: nothing the job manager holds is unknown to Maintain *)
  Lemma release_has_job : forall s js j, absR s js -> In j (R.held s) ->
    exists pre x post, js = pre ++ x :: post /\ mname x = R.j_name j.
  Proof.
    intros s js j Ha Hin.
    assert (Hv : In (R.j_name j) (mview js)).
    { eapply Permutation_in; [exact Ha|]. unfold view. apply in_map. exact Hin. }
    unfold mview in Hv. apply in_map_iff in Hv. destruct Hv as (x & Hx & Hin').
    destruct (in_split _ _ Hin') as (pre & post & ->). exists pre, x, post. split; [reflexivity|exact Hx].
  Qed.

  (** * Maintain's operations on its job list, and the run-level refinement *)

  (** [jobs_ops js js']: [js'] is obtained from [js] by operations of the kind Maintain performs on its
      job list: [submit_renew], appending an unnamed obtain job, advancing a job's pc, ending a job *)
  Inductive jobs_ops : list M.job -> list M.job -> Prop :=
  | JO_refl : forall js, jobs_ops js js
  | JO_submit : forall js n old js', jobs_ops (M.submit_renew js n old) js' -> jobs_ops js js'
  | JO_obtain : forall js n js', jobs_ops (js ++ [M.Job n M.JObtain None M.Queued]) js' -> jobs_ops js js'
  | JO_setpc : forall pre j p post js', jobs_ops (pre ++ M.set_pc j p :: post) js' -> jobs_ops (pre ++ j :: post) js'
  | JO_done : forall pre j post js', jobs_ops (pre ++ post) js' -> jobs_ops (pre ++ j :: post) js'.

  Lemma jobs_ops_trans : forall a b c, jobs_ops a b -> jobs_ops b c -> jobs_ops a c.
  Proof.
    intros a b c H. induction H; intros Hc; auto.
    - eapply JO_submit; eauto.
    - eapply JO_obtain; eauto.
    - eapply JO_setpc; eauto.
    - eapply JO_done; eauto.
  Qed.

  (** labels whose submitted name is one of the two forms certmagic uses *)
  Definition label_ok (l : R.jlabel) : Prop :=
    match l with R.Submit j => R.j_name j = [] \/ exists n, R.j_name j = rn n | _ => True end.

  Definition cert0 (n : nat) : M.cert := {| M.cid := 0; M.chead := n; M.crest := []; M.cdue := true; M.cman := true |}.

  (** one step of the job manager = zero or one job-list operation of Maintain *)
  Theorem jstep_refines : forall maxw s js l s', RP.jinv s -> absR s js -> label_ok l ->
    R.jstep maxw s l = Some s' ->
    exists js', absR s' js' /\
      match l with
      | R.Submit j => (R.j_name j = [] /\ exists n, js' = js ++ [M.Job n M.JObtain None M.Queued]) \/
                      (exists n old, R.j_name j = rn n /\ js' = M.submit_renew js n old)
      | R.Take | R.Return _ _ => js' = js
      | R.Release id => exists pre x post, js = pre ++ x :: post /\ js' = pre ++ post
      end.
  Proof.
    intros maxw s js l s' Hi Ha Hl H. destruct l as [j| |id k|id].
    - destruct j as [jid nm]. cbn [label_ok R.j_name] in Hl. destruct Hl as [->|[n ->]].
      + exists (js ++ [M.Job 0 M.JObtain None M.Queued]). split.
        * eapply submit_unnamed_refines; eauto.
        * left. split; [reflexivity|]. exists 0. reflexivity.
      + exists (M.submit_renew js n (cert0 n)). split.
        * eapply submit_renew_refines; eauto.
        * right. exists n, (cert0 n). split; reflexivity.
    - exists js. split; [|reflexivity]. unfold absR. eapply perm_trans; [apply (take_stutters _ _ _ H)|exact Ha].
    - exists js. split; [|reflexivity]. unfold absR. eapply perm_trans; [apply (return_stutters _ _ _ _ _ H)|exact Ha].
    - pose proof H as H0. unfold R.jstep, R.jstep_gen in H0.
      destruct (R.take_job id (R.finishing s)) as [[j r]|] eqn:T; [|discriminate]. clear H0.
      assert (Hin : In j (R.held s)).
      { unfold R.held. apply in_or_app. right. apply in_or_app. right.
        eapply Permutation_in; [apply Permutation_sym; apply (take_job_perm _ _ _ _ T)|left; reflexivity]. }
      destruct (release_has_job s js j Ha Hin) as (pre & x & post & E & Hx).
      exists (pre ++ post). split.
      + eapply release_refines; eauto.
      + exists pre, x, post. split; [exact E|reflexivity].
  Qed.

  Lemma jstep_jobs_ops : forall maxw s js l s', RP.jinv s -> absR s js -> label_ok l ->
    R.jstep maxw s l = Some s' -> exists js', absR s' js' /\ jobs_ops js js'.
  Proof.
    intros maxw s js l s' Hi Ha Hl H. destruct (jstep_refines maxw s js l s' Hi Ha Hl H) as (js' & Ha' & Hm).
    exists js'. split; [exact Ha'|]. destruct l as [j| |id k|id].
    - destruct Hm as [[_ [n ->]]|(n & old & _ & ->)].
      + eapply JO_obtain. apply JO_refl.
      + eapply JO_submit. apply JO_refl.
    - subst js'. apply JO_refl.
    - subst js'. apply JO_refl.
    - destruct Hm as (pre & x & post & -> & ->). apply JO_done. apply JO_refl.
  Qed.

  (** THE REFINEMENT (every run): along every history of the job manager (any number of workers, any
      interleaving of submissions, takes, returns - also by panic -, releases) there is a Maintain job
      list, reached from the previous one by Maintain's own operations, whose names are exactly the
      names the job manager holds. *)
  Theorem jm_refines_joblist : forall maxw ls s js s', 1 <= maxw -> RP.jinv s -> absR s js ->
    Forall label_ok ls -> R.jrun maxw s ls = Some s' ->
    exists js', absR s' js' /\ jobs_ops js js' /\ RP.jinv s'.
  Proof.
    intros maxw ls. induction ls as [|l ls IH]; intros s js s' Hm Hi Ha Hl H.
    - cbn in H. injection H as <-. exists js. split; [exact Ha|split; [apply JO_refl|exact Hi]].
    - unfold R.jrun in *. cbn [R.jrun_gen] in H.
      destruct (R.jstep_gen true maxw s l) as [s1|] eqn:E; [|discriminate].
      inversion Hl as [|? ? Hl1 Hl2]; subst.
      destruct (jstep_jobs_ops maxw s js l s1 Hi Ha Hl1 E) as (js1 & Ha1 & Ho1).
      pose proof (RP.jstep_inv maxw s l s1 Hm Hi E) as Hi1.
      destruct (IH s1 js1 s' Hm Hi1 Ha1 Hl2 H) as (js' & Ha' & Ho' & Hi').
      exists js'. split; [exact Ha'|split; [eapply jobs_ops_trans; eauto|exact Hi']].
  Qed.

  Lemma absR_init : absR R.jinit [].
  Proof. unfold absR, view, mview. cbn. apply Permutation_refl. Qed.

  Corollary jm_reachable_refines_joblist : forall maxw ls s, 1 <= maxw -> Forall label_ok ls ->
    R.jrun maxw R.jinit ls = Some s -> exists js, absR s js /\ jobs_ops [] js.
  Proof.
    intros maxw ls s Hm Hl H.
    destruct (jm_refines_joblist maxw ls R.jinit [] s Hm RP.jinv_init absR_init Hl H) as (js & Ha & Ho & _).
    exists js. split; assumption.
  Qed.

  (** ... and [jobs_ops] is not an invention: every event of the ACTUAL Maintain model changes its job
      list by such operations only *)
  Lemma split_job_spec : forall n k js pre j post, M.split_job n k js = Some (pre, j, post) ->
    js = pre ++ j :: post /\ M.jname j = n.
  Proof.
    intros n k js. revert k. induction js as [|x js IH]; intros k pre j post H; [discriminate|].
    cbn [M.split_job] in H. destruct (M.jname x =? n) eqn:E.
    - destruct k as [|k].
      + injection H as <- <- <-. split; [reflexivity|apply Nat.eqb_eq; exact E].
      + destruct (M.split_job n k js) as [[[a y] b]|] eqn:S; [|discriminate]. injection H as <- <- <-.
        destruct (IH _ _ _ _ S) as [-> Hn]. split; [reflexivity|exact Hn].
    - destruct (M.split_job n k js) as [[[a y] b]|] eqn:S; [|discriminate]. injection H as <- <- <-.
      destruct (IH _ _ _ _ S) as [-> Hn]. split; [reflexivity|exact Hn].
  Qed.

  Lemma fold_submit_ops : forall l js,
    jobs_ops js (fold_left (fun js old => M.submit_renew js (M.chead old) old) l js).
  Proof.
    intros l. induction l as [|c l IH]; intros js; cbn [fold_left]; [apply JO_refl|].
    eapply JO_submit. apply IH.
  Qed.

  Theorem maintain_step_is_jobs_ops : forall od idue s e,
    jobs_ops (M.jobs s) (M.jobs (M.step od idue s e)).
  Proof.
    intros od idue s e. unfold M.step. destruct e as [p|p|n rest|n f|n k|n a].
    - unfold M.pass_scan, M.with_passes, M.with_err. cbn [M.jobs]. apply JO_refl.
    - unfold M.pass_act. cbn [M.passes M.with_err].
      destruct (M.take_pass p (M.passes s)) as [[q rest]|]; [|apply JO_refl].
      cbn [M.jobs M.with_err]. apply fold_submit_ops.
    - unfold M.ext_renew, M.with_err. cbn [M.jobs]. apply JO_refl.
    - unfold M.set_issuer, M.with_failing, M.with_err. cbn [M.jobs]. apply JO_refl.
    - unfold M.job_step. cbn [M.jobs M.with_err].
      destruct (M.split_job n k (M.jobs s)) as [[[pre j] post]|] eqn:S; [|apply JO_refl].
      destruct (split_job_spec _ _ _ _ _ _ S) as [E _]. rewrite E.
      destruct (M.jkd j), (M.jpc_ j);
        repeat match goal with
               | |- context [match ?x with _ => _ end] => destruct x
               end;
        cbn [M.jobs M.with_jobs M.with_failed M.with_cache M.with_err M.issue]; rewrite ?E;
        first [apply JO_refl | apply JO_done; apply JO_refl | eapply JO_setpc; apply JO_refl].
    - unfold M.manage.
      repeat match goal with
             | |- context [match ?x with _ => _ end] => destruct x
             end;
        cbn [M.jobs M.with_jobs M.with_failed M.with_cache M.with_err M.issue M.store];
        first [apply JO_refl | eapply JO_obtain; apply JO_refl | eapply JO_submit; apply JO_refl].
  Qed.
End Naming.

(** * (iii) no job is lost; every live job can be scheduled *)

Section NoJobLost.
  Variable rn : nat -> str.

  (** every job Maintain considers live is held by the job manager (queued, running or finishing) *)
  Theorem live_job_is_held : forall s js x, absR rn s js -> In x js ->
    exists j, In j (R.held s) /\ R.j_name j = mname rn x.
  Proof.
    intros s js x Ha Hin.
    assert (Hv : In (mname rn x) (view s)).
    { eapply Permutation_in; [apply Permutation_sym; exact Ha|]. unfold mview. apply in_map. exact Hin. }
    unfold view in Hv. apply in_map_iff in Hv. destruct Hv as (j & E & Hj). exists j. split; assumption.
  Qed.

  (** with C19's invariant: as long as something is queued a worker is alive and a worker step is
      enabled; worker steps alone drain the manager in at most [measure s] steps (C19_every_job_runs) *)
  Theorem queued_job_has_worker : forall maxw s js x, 1 <= maxw -> RP.reachable maxw s -> absR rn s js ->
    In x js ->
    (exists j, In j (R.held s) /\ R.j_name j = mname rn x) /\
    (R.queue s <> [] -> 1 <= R.live s /\ exists l s', R.is_worker_step l = true /\ R.jstep maxw s l = Some s').
  Proof.
    intros maxw s js x Hm Hr Ha Hin. split; [eapply live_job_is_held; eauto|].
    intros Hq. split.
    - destruct (RP.reachable_inv maxw s Hm Hr) as [_ _ _ _ _ I6]. apply I6. exact Hq.
    - destruct (RP.every_job_runs maxw s Hm Hr) as (_ & H2 & _). apply H2. exact Hq.
  Qed.
End NoJobLost.

(** the worker-pool invariant behind "JobStep is always schedulable": there are at most [maxw]
    workers, and either every queued job has an idle worker waiting for it or the pool is full *)
Definition pool_inv (maxw : nat) (s : R.jm) : Prop :=
  R.active s <= maxw /\ (length (R.queue s) <= R.idle s \/ R.active s = maxw).

Lemma pool_inv_init : forall maxw, pool_inv maxw R.jinit.
Proof. intros maxw. unfold pool_inv. cbn. lia. Qed.

Lemma pool_inv_step : forall maxw s l s', pool_inv maxw s -> R.jstep maxw s l = Some s' -> pool_inv maxw s'.
Proof.
  intros maxw s l s' [P1 P2] H. unfold R.jstep, R.jstep_gen in H. destruct l as [j| |id k|id].
  - destruct (existsb _ _) in H; [discriminate|]. destruct (negb _ && _) in H; [injection H as <-; split; assumption|].
    destruct (R.active s <? maxw) eqn:Ea; injection H as <-; unfold pool_inv; cbn [R.active R.queue R.idle];
      rewrite app_length; cbn [length].
    + apply Nat.ltb_lt in Ea. split; [lia|]. left. lia.
    + apply Nat.ltb_ge in Ea. split; [lia|]. right. lia.
  - destruct (R.idle s) as [|i] eqn:Ei; [discriminate|].
    destruct (R.queue s) as [|j q] eqn:Eq; injection H as <-; unfold pool_inv; cbn [R.active R.queue R.idle length] in *.
    + split; [lia|]. left. lia.
    + split; [lia|]. destruct P2 as [P2|P2]; [left; lia|right; exact P2].
  - destruct (R.take_job id (R.running s)) as [[j r]|]; [|discriminate].
    assert (H' : Some (R.JM (R.queue s) (R.names s) (R.active s) (R.idle s) r (R.finishing s ++ [j])) = Some s')
      by (destruct k; exact H).
    injection H' as <-. split; assumption.
  - destruct (R.take_job id (R.finishing s)) as [[j r]|]; [|discriminate]. injection H as <-.
    unfold pool_inv; cbn [R.active R.queue R.idle]. split; [lia|]. destruct P2 as [P2|P2]; [left; lia|right; exact P2].
Qed.

Lemma pool_inv_run : forall maxw ls s s', pool_inv maxw s -> R.jrun maxw s ls = Some s' -> pool_inv maxw s'.
Proof.
  intros maxw ls. induction ls as [|l ls IH]; intros s s' Hp H.
  - cbn in H. injection H as <-. exact Hp.
  - unfold R.jrun in *. cbn [R.jrun_gen] in H. destruct (R.jstep_gen true maxw s l) as [s1|] eqn:E; [|discriminate].
    apply (IH s1 s' (pool_inv_step maxw s l s1 Hp E) H).
Qed.

Lemma takes_all : forall maxw q nm a i r f, length q <= i ->
  R.jrun maxw (R.JM q nm a i r f) (repeat R.Take (length q)) = Some (R.JM [] nm a (i - length q) (r ++ q) f).
Proof.
  intros maxw q. induction q as [|j q IH]; intros nm a i r f Hl.
  - cbn. rewrite Nat.sub_0_r, app_nil_r. reflexivity.
  - cbn [length] in *. destruct i as [|i]; [lia|]. cbn [repeat]. unfold R.jrun in *. cbn [R.jrun_gen R.jstep_gen R.idle R.queue R.names R.active R.running R.finishing].
    rewrite IH by lia. rewrite <- app_assoc. reflexivity.
Qed.

(** While no more than [maxw] (= maxConcurrentJobs = 1000 for the package-level [jm]) jobs are live,
    every queued job has an idle worker: [length (queue s)] Take steps put ALL live jobs into
    execution without ending any of them - so Maintain's [JobStep n k] ("the k-th live job for n
    advances") is schedulable for every live job at every moment. *)
Theorem all_live_jobs_schedulable : forall maxw s, 1 <= maxw -> RP.reachable maxw s ->
  length (R.held s) <= maxw ->
  exists s', R.jrun maxw s (repeat R.Take (length (R.queue s))) = Some s' /\
    R.queue s' = [] /\ R.running s' = R.running s ++ R.queue s /\ R.finishing s' = R.finishing s /\
    R.names s' = R.names s /\ Permutation (map R.j_name (R.held s')) (map R.j_name (R.held s)).
Proof.
  intros maxw s Hm Hr Hl. pose proof (RP.reachable_inv maxw s Hm Hr) as Hi.
  assert (Hp : pool_inv maxw s).
  { destruct Hr as [ls Hr]. exact (pool_inv_run maxw ls R.jinit s (pool_inv_init maxw) Hr). }
  destruct Hi as [_ _ _ _ I5 _]. destruct Hp as [P1 P2]. unfold R.live in I5. unfold R.held in Hl.
  rewrite !app_length in Hl.
  assert (Hq : length (R.queue s) <= R.idle s) by (destruct P2 as [P2|P2]; lia).
  destruct s as [q nm a i r f]. cbn [R.queue R.idle R.running R.finishing R.names] in *.
  eexists. split; [apply takes_all; exact Hq|]. cbn [R.queue R.running R.finishing R.names].
  repeat split. unfold R.held. cbn [R.queue R.running R.finishing app]. apply Permutation_map.
  rewrite app_assoc. apply Permutation_app_tail. apply Permutation_app_comm.
Qed.

(** * A concrete naming: "renew_" followed by the name (one code unit per model name) *)
Definition rn0 (n : nat) : str := ([114; 101; 110; 101; 119; 95] ++ [N.of_nat n])%N.
Lemma rn0_inj : forall a b, rn0 a = rn0 b -> a = b.
Proof. intros a b H. unfold rn0 in H. apply app_inv_head in H. injection H as H. apply Nat2N.inj. exact H. Qed.
Lemma rn0_ne : forall a, rn0 a <> [].
Proof. intros a. unfold rn0. discriminate. Qed.

(** beyond the worker limit Maintain's scheduler is more liberal than the job manager (a safe
    over-approximation: Maintain's theorems quantify over all schedules): with one worker, a queued
    job cannot advance before the running one returns *)
Example worker_limit_blocks_queued_job :
  exists s, R.jrun 1 R.jinit [R.Submit (R.Job 1 (rn0 1)); R.Take; R.Submit (R.Job 2 (rn0 2))] = Some s /\
    R.queue s = [R.Job 2 (rn0 2)] /\ R.running s = [R.Job 1 (rn0 1)] /\ length (R.held s) = 2 /\
    forall l s', R.is_worker_step l = true -> R.jstep 1 s l = Some s' -> exists k, l = R.Return 1 k.
Proof.
  eexists. split; [vm_compute; reflexivity|]. repeat split.
  intros l s' Hw H. destruct l as [j| |id k|id]; try discriminate.
  destruct id as [|[|id]]; try discriminate. exists k. reflexivity.
Qed.

(** * Findings / side conditions *)

(** the window between the job function's return and [delete(jm.names, name)] (async.go:79-83): the
    job is over for its author but its name still blocks.  If the abstraction forgot [finishing]
    (live = queued ++ running, as Maintain's "a job ends by being removed" suggests) the Submit
    refinement would be false: *)
Theorem view_without_finishing_refuted :
  exists s js n, RP.reachable 1 s /\ RP.jinv s /\
    Permutation (map R.j_name (R.queue s ++ R.running s)) (mview rn0 js) /\
    R.jstep 1 s (R.Submit (R.Job 2 (rn0 n))) = Some s /\
    forall old, ~ Permutation (map R.j_name (R.queue s ++ R.running s)) (mview rn0 (M.submit_renew js n old)).
Proof.
  destruct (R.jrun 1 R.jinit [R.Submit (R.Job 1 (rn0 7)); R.Take; R.Return 1 R.KOk]) as [s|] eqn:Hr;
    [|vm_compute in Hr; discriminate].
  exists s, [], 7.
  assert (Hre : RP.reachable 1 s) by (eexists; exact Hr).
  vm_compute in Hr. injection Hr as <-.
  split; [exact Hre|]. split; [apply (RP.reachable_inv 1 _ (le_n 1) Hre)|].
  split; [apply Permutation_refl|]. split; [vm_compute; reflexivity|].
  intros old Hp. cbn in Hp. apply Permutation_nil in Hp. discriminate.
Qed.

(** the job manager as it was before 393ac3e ([jstep_orig]: a panicking job kills its worker, the name
    is never deleted): the job is gone (nothing is held, so for Maintain no job is live) but every
    later [Submit("renew_"+n)] is dropped, while Maintain's [submit_renew] queues a job: Maintain's
    de-duplication assumption ("the name is forgotten when the job ends") is FALSE for that variant -
    the certificate would never be renewed by maintenance again. *)
Theorem panic_orig_breaks_maintain_dedup_refuted :
  exists s, R.jrun_gen false 1 R.jinit [R.Submit (R.Job 1 (rn0 7)); R.Take; R.Return 1 R.KPanic] = Some s /\
    R.held s = [] /\ (forall js, absR rn0 s js -> js = []) /\
    (forall id, R.jstep_orig 1 s (R.Submit (R.Job (S (S id)) (rn0 7))) = Some s) /\
    forall old, ~ absR rn0 s (M.submit_renew [] 7 old).
Proof.
  eexists. split; [vm_compute; reflexivity|]. split; [reflexivity|]. split; [|split].
  - intros js Ha. unfold absR, view in Ha. cbn in Ha. apply Permutation_nil in Ha.
    destruct js; [reflexivity|discriminate].
  - intros id. vm_compute. reflexivity.
  - intros old Ha. unfold absR, view in Ha. cbn in Ha. apply Permutation_nil in Ha. discriminate.
Qed.

(** the code as it is now: whatever way the job function ends ([k] = ok, error, recovered panic), the
    return is invisible to Maintain, and after the release Maintain's list is the old one minus that
    job and a new [submit_renew] of the name is queued *)
Theorem job_end_any_outcome_refines : forall rn, (forall a b, rn a = rn b -> a = b) -> (forall a, rn a <> []) ->
  forall maxw s js id j r k, 1 <= maxw -> RP.reachable maxw s -> absR rn s js ->
  R.take_job id (R.running s) = Some (j, r) ->
  exists s1 s2 pre x post,
    R.jstep maxw s (R.Return id k) = Some s1 /\ absR rn s1 js /\
    R.jstep maxw s1 (R.Release id) = Some s2 /\ js = pre ++ x :: post /\ mname rn x = R.j_name j /\
    absR rn s2 (pre ++ post) /\ R.has_name (R.j_name j) (R.names s2) = false /\
    (forall n, R.j_name j = rn n -> existsb (M.is_renew_for n) (pre ++ post) = false).
Proof.
  intros rn rn_inj rn_ne maxw s js id j r k Hm Hr Ha T.
  destruct (RP.failure_does_not_block_name maxw s id j r k Hm Hr T) as (s1 & s2 & H1 & H2 & Hfree & _).
  pose proof (RP.reachable_inv maxw s Hm Hr) as Hi.
  pose proof (RP.jstep_inv maxw s _ s1 Hm Hi H1) as Hi1.
  pose proof (RP.jstep_inv maxw s1 _ s2 Hm Hi1 H2) as Hi2.
  assert (Ha1 : absR rn s1 js).
  { unfold absR. eapply perm_trans; [apply (return_stutters _ _ _ _ _ H1)|exact Ha]. }
  pose proof H2 as H2'. unfold R.jstep, R.jstep_gen in H2'.
  destruct (R.take_job id (R.finishing s1)) as [[j' r']|] eqn:T'; [|discriminate]. clear H2'.
  assert (Ej : j' = j).
  { pose proof H1 as H1'. unfold R.jstep, R.jstep_gen in H1'. rewrite T in H1'.
    assert (Es1 : s1 = R.JM (R.queue s) (R.names s) (R.active s) (R.idle s) r (R.finishing s ++ [j]))
      by (destruct k; injection H1' as <-; reflexivity).
    rewrite Es1 in T'. cbn [R.finishing] in T'.
    destruct (RP.take_job_spec _ _ _ _ T) as (Tid & _ & _ & T4 & _).
    destruct Hi as [_ _ _ I4 _ _]. specialize (I4 id). rewrite T4 in I4.
    destruct (Nat.eq_dec (R.j_id j) id) as [_|Q]; [|contradiction].
    rewrite RP.take_job_last in T' by (try exact Tid; lia). injection T' as <- _. reflexivity. }
  subst j'.
  assert (Hin : In j (R.held s1)).
  { unfold R.held. apply in_or_app. right. apply in_or_app. right.
    eapply Permutation_in; [apply Permutation_sym; apply (take_job_perm _ _ _ _ T')|left; reflexivity]. }
  destruct (release_has_job rn s1 js j Ha1 Hin) as (pre & x & post & E & Hx).
  assert (Ha2 : absR rn s2 (pre ++ post)) by (eapply release_refines; eauto).
  exists s1, s2, pre, x, post. repeat split; auto.
  intros n En. rewrite <- (dedup_agrees rn rn_inj rn_ne s2 (pre ++ post) n Hi2 Ha2). rewrite <- En. exact Hfree.
Qed.

(** * doWithRetry (C19) vs. Maintain's attempts (C05) vs. Issuance's [after_attempt] / [PWait] *)

(** the three-way case split of doWithRetry: retry exactly on a plain error *)
Definition retries (o : R.outcome) : bool := match o with R.OPlain => true | _ => false end.
Definition stop_result (o : R.outcome) : R.result :=
  match o with R.OOk => R.RNil | R.OCanceled => R.RErrCanceled | R.ONoRetry => R.RErrNoRetry | R.OPlain => R.RPending end.

(** [retries] / [stop_result] ARE the decision of C19's loop: one iteration, no cancellation *)
Theorem retry_loop_decision : forall iv maxd pick0 c rest t idx k, (t < maxd)%Z ->
  R.retry_loop iv maxd None pick0 (c :: rest) t idx k =
    (let fire := (t + R.wait_of iv idx + R.c_late c)%Z in
     let t' := (fire + R.c_dur c)%Z in
     let a := R.Att k fire t' (R.c_out c) in
     if retries (R.c_out c) then
       if (t' <? maxd)%Z then
         let '(l, r, te) := R.retry_loop iv maxd None pick0 rest t' (R.next_idx iv idx) (k + 1)%Z in (a :: l, r, te)
       else ([a], R.RGiveUp, t')
     else ([a], stop_result (R.c_out c), t')).
Proof.
  intros iv maxd pick0 c rest t idx k Ht. cbn [R.retry_loop].
  replace (t <? maxd)%Z with true by (symmetry; apply Z.ltb_lt; exact Ht). cbn [negb].
  destruct (R.c_out c); reflexivity.
Qed.

(** Issuance's attempt outcomes.  Issuance has no separate ErrNoRetry (its issuer double fails with
    plain errors only; ErrNoRetry comes from ACMEIssuer.Issue, acmeissuer.go:431, and maintain.go:271):
    it has the continuation of [ECanc] - stop, return the error. *)
Definition aerr_of (o : R.outcome) : I.aerr :=
  match o with R.OOk => I.EOk | R.OPlain => I.EPlain | R.OCanceled | R.ONoRetry => I.ECanc end.
(** the caller of doWithRetry sees nil ([R.returns_nil]: after 9155753 only for [RNil]) or an error *)
Definition res_of_result (r : R.result) : I.result := if R.returns_nil r then I.ROk else I.RErr.

(** (b) same case split: an async obtain/renew thread goes to [PWait] (another attempt) exactly when
    doWithRetry retries, and otherwise leaves through the deferred Unlock with doWithRetry's result *)
Theorem retry_decision_agrees_issuance : forall th o, I.is_async (I.cfg th) = true ->
  I.tpc (I.after_attempt th (aerr_of o)) =
    if retries o then I.PWait else I.PUnlock (res_of_result (stop_result o)).
Proof. intros th o Ha. unfold I.after_attempt. rewrite Ha. destruct o; reflexivity. Qed.

(** the interactive (synchronous) callers do not use doWithRetry: one attempt, never [PWait] *)
Theorem sync_never_waits : forall th e, I.is_async (I.cfg th) = false ->
  I.tpc (I.after_attempt th e) = I.PUnlock (I.res_of e).
Proof. intros th e Ha. unfold I.after_attempt. rewrite Ha. reflexivity. Qed.

(** the pause: [PWait] is left either by the next attempt, or - only if the context was cancelled -
    by returning an error (doWithRetry's [case <-ctx.Done()]); an uncancelled loop cannot end there
    (C19: [cancel = None -> r <> RCtxCanceled]) *)
Theorem wait_exit_agrees : forall th b p, I.tpc th = I.PWait -> I.norm_pc th b = Some p ->
  (b = true /\ p = I.body_start th) \/ (b = false /\ I.canc th = true /\ p = I.PUnlock I.RErr).
Proof.
  intros th b p Hpc H. unfold I.norm_pc in H. rewrite Hpc in H. destruct b.
  - injection H as <-. left. split; reflexivity.
  - destruct (I.canc th) eqn:Ec; [|discriminate]. injection H as <-. right. repeat split.
Qed.
Theorem wait_blocks_without_cancel : forall th, I.tpc th = I.PWait -> I.canc th = false -> I.norm_pc th false = None.
Proof. intros th Hpc Hc. unfold I.norm_pc. rewrite Hpc, Hc. reflexivity. Qed.

(** NOT refined: doWithRetry's 30-day horizon ("final attempt; giving up": since 9155753 it returns the
    last error, before it returned nil - C19's giving_up_returned_nil_orig_refuted) has no counterpart
    in Issuance, where a plain error of an async thread always leads to another round.  The exit that
    is missing would be [PUnlock RErr] (an error return), no longer a spurious success. *)
Theorem horizon_only_in_retry_partial :
  (forall th, I.is_async (I.cfg th) = true -> I.tpc (I.after_attempt th I.EPlain) = I.PWait) /\
  (exists iv maxd calls atts te, iv <> [] /\ R.all_positive iv = true /\
     R.do_with_retry iv maxd None false calls = (atts, R.RGiveUp, te) /\
     res_of_result R.RGiveUp = I.RErr /\ Forall RP.plain atts /\ atts <> []).
Proof.
  split; [intros th Ha; unfold I.after_attempt; rewrite Ha; reflexivity|].
  exists [10%Z], 25%Z, [R.Call R.OPlain 1 0; R.Call R.OPlain 1 0; R.Call R.OPlain 20 0].
  eexists. eexists. split; [discriminate|]. split; [reflexivity|]. split; [vm_compute; reflexivity|].
  split; [reflexivity|]. split; [repeat constructor|discriminate].
Qed.

(** (a) Maintain: one model step = one attempt of renewCert's retried closure under the lock.  With
    the issuer's verdict as doWithRetry's outcome (failing = plain error, else nil): the job stays
    [Locked] (keeps "issue_cert_<n>" through its retries, as renewCert locks outside doWithRetry)
    exactly when doWithRetry retries; otherwise it leaves the locked region. *)
Definition m_outcome (failing : bool) : R.outcome := if failing then R.OPlain else R.OOk.

Lemma lock_held_mid : forall pre j post n, M.jname j = n -> M.jpc_ j = M.Locked ->
  M.lock_held (pre ++ j :: post) n = true.
Proof.
  intros pre j post n Hn Hp. unfold M.lock_held. rewrite existsb_app. cbn [existsb].
  rewrite Hn, Hp, Nat.eqb_refl. cbn. rewrite orb_true_r. reflexivity.
Qed.

Theorem maintain_attempt_matches_retry : forall idue s n k pre j post st,
  M.split_job n k (M.jobs s) = Some (pre, j, post) -> M.jkd j = M.JRenew -> M.jpc_ j = M.Locked ->
  M.stored (M.store s) n = Some st -> M.cdue st = true ->
  let s' := M.job_step idue s n k in
  if retries (m_outcome (M.is_failing s n))
  then M.jobs s' = M.jobs s /\ M.lock_held (M.jobs s') n = true /\
       M.failed s' = n :: M.failed s /\ M.issued s' = M.issued s /\ M.store s' = M.store s
  else M.jobs s' = pre ++ M.set_pc j M.Reload :: post /\ M.issued s' = n :: M.issued s /\ M.failed s' = M.failed s.
Proof.
  intros idue s n k pre j post st S Hk Hp Hst Hdue. cbn zeta. unfold M.job_step. rewrite S, Hk, Hp, Hst, Hdue.
  assert (E : M.jobs s = pre ++ j :: post /\ M.jname j = n).
  { clear - S. revert k pre j post S. induction (M.jobs s) as [|x js IH]; intros k pre j post S; [discriminate|].
    cbn [M.split_job] in S. destruct (M.jname x =? n) eqn:E.
    - destruct k as [|k].
      + injection S as <- <- <-. split; [reflexivity|apply Nat.eqb_eq; exact E].
      + destruct (M.split_job n k js) as [[[a y] b]|] eqn:S'; [|discriminate]. injection S as <- <- <-.
        destruct (IH _ _ _ _ S') as [-> Hn]. split; [reflexivity|exact Hn].
    - destruct (M.split_job n k js) as [[[a y] b]|] eqn:S'; [|discriminate]. injection S as <- <- <-.
      destruct (IH _ _ _ _ S') as [-> Hn]. split; [reflexivity|exact Hn]. }
  destruct E as [E Hn].
  destruct (M.is_failing s n); cbn [m_outcome retries M.with_failed M.jobs M.failed M.issued M.store M.with_jobs M.issue].
  - rewrite E. repeat split. apply lock_held_mid; assumption.
  - repeat split.
Qed.

(** * Examples: the hypotheses are satisfiable on non-trivial runs *)

Example ex_refinement_run :
  let ls := [R.Submit (R.Job 1 (rn0 3)); R.Submit (R.Job 2 (rn0 3)); R.Submit (R.Job 3 []); R.Take;
             R.Submit (R.Job 4 []); R.Return 1 R.KPanic; R.Submit (R.Job 5 (rn0 3)); R.Release 1;
             R.Submit (R.Job 6 (rn0 3))] in
  Forall (label_ok rn0) ls /\
  exists s, R.jrun 2 R.jinit ls = Some s /\ view s = [[]; []; rn0 3] /\
    exists js, absR rn0 s js /\ jobs_ops js js /\ length js = 3.
Proof.
  cbn zeta. split.
  - repeat (apply Forall_cons; [cbn [label_ok R.j_name]; first [exact I | left; reflexivity | right; exists 3; reflexivity]|]).
    apply Forall_nil.
  - eexists. split; [vm_compute; reflexivity|]. split; [vm_compute; reflexivity|].
    exists [M.Job 9 M.JObtain None M.Queued; M.Job 8 M.JObtain None M.Locked; M.Job 3 M.JRenew (Some (cert0 3)) M.Queued].
    split; [unfold absR; vm_compute; apply Permutation_refl|]. split; [apply JO_refl|reflexivity].
Qed.

Example ex_schedulable :
  exists s, R.jrun 3 R.jinit [R.Submit (R.Job 1 (rn0 1)); R.Submit (R.Job 2 (rn0 2)); R.Take; R.Submit (R.Job 3 [])] = Some s /\
    length (R.held s) <= 3 /\ R.queue s = [R.Job 2 (rn0 2); R.Job 3 []] /\ 2 <= R.idle s.
Proof. eexists. split; [vm_compute; reflexivity|]. cbn. repeat split; lia. Qed.

Example ex_maintain_attempt :
  let c := {| M.cid := 5; M.chead := 1; M.crest := []; M.cdue := true; M.cman := true |} in
  let s := {| M.store := [(1, c)]; M.cache := [c]; M.jobs := [M.Job 1 M.JRenew (Some c) M.Locked]; M.passes := [];
              M.failing := [1]; M.issued := []; M.failed := []; M.next := 6; M.lasterr := false |} in
  M.split_job 1 0 (M.jobs s) = Some ([], M.Job 1 M.JRenew (Some c) M.Locked, []) /\
  M.stored (M.store s) 1 = Some c /\ M.is_failing s 1 = true /\
  M.failed (M.job_step false s 1 0) = [1].
Proof. cbn zeta. repeat split. Qed.
