(** System / CrashRecoverLock — the FileLock half (C08) of the crash-recovery composition.

    The Bundle model (C07) recovers from a crash by [break_lock] ("the Locker's staleness rule")
    followed by a fault-free manage whose [lock] primitive then succeeds.  In the FileLock LTS the
    same thing is ONE Lock call of the recovering instance:

        [LTryCreate w; LOpenRead w; LRemove w]      = break_lock   (the name is free afterwards)
        [LTryCreate w; LWriteMeta w]                = Bundle's [lock] primitive succeeding

    This file proves the first line for both ways a dead owner can leave the lock file (metadata
    in it / empty), gives the abstraction FileLock state -> lock status, the time bound, and the
    witness for the one thing that does NOT carry over: two recovering waiters. *)
From Coq Require Import List ZArith Bool Lia.
From CM Require Import Gen.Consts FileLock.Model FileLock.Check FileLock.Proofs FileLock.Refuted.
From CM Require Props.C08.
Import ListNotations.
Open Scope Z_scope.

(** * the abstraction: what a Lock call sees of the lock file *)
Definition fl_locked (s : state) : bool := match file s with Some _ => true | None => false end.

(** finer: who, if anybody, stands behind the lock file *)
Inductive lstatus := LFree | LLive (t : tid) | LAbandoned.
Inductive fl_status (s : state) : lstatus -> Prop :=
| st_free : file s = None -> fl_status s LFree
| st_live t i : file s = Some i -> owner s t i -> fl_status s (LLive t)
| st_abandoned i : abandoned s i -> fl_status s LAbandoned.
Lemma fl_status_locked s x : fl_status s x -> fl_locked s = match x with LFree => false | _ => true end.
Proof. intros H. destruct H as [H|t i H _|i (H & _)]; unfold fl_locked; rewrite H; reflexivity. Qed.

(** a thread that holds (or has just created) the lock file in place *)
Definition held_by (s : state) (t : tid) : Prop := exists i, owner s t i /\ file s = Some i.

(** what a step sequence of waiter [w] leaves alone *)
Definition same_but (w : tid) (s s' : state) : Prop :=
  now s' = now s /\ content s' = content s /\ nexti s' = nexti s /\ cproc s' = cproc s /\ tids s' = tids s /\
  hb s' = hb s /\ lastcreate s' = lastcreate s /\ mtime s' = mtime s /\ forall t, t <> w -> cs s' t = cs s t.

Section Generic.
Variable c : config.

(** ** breaking a lock file whose metadata is stale: three steps of the waiter, no time *)
Lemma stale_break s i cr u w ec :
  file s = Some i -> content s i = FMeta cr u -> is_stale c (now s) cr u = true -> cs s w = CTry ec ->
  exists s3 ec', run c s [LTryCreate w; LOpenRead w; LRemove w] = Some s3 /\
                 file s3 = None /\ cs s3 w = CTry ec' /\ same_but w s s3.
Proof.
  intros Hf Hc Hst Hw.
  set (s1 := set_cs s w (CExists ec)).
  assert (E1 : step c s (LTryCreate w) = Some s1) by (cbn [step]; rewrite Hw, Hf; reflexivity).
  set (ec' := if resets c then 0%nat else ec).
  set (s2 := set_cs s1 w (CStale ec')).
  assert (E2 : step c s1 (LOpenRead w) = Some s2).
  { cbn [step]. unfold s1. cbn [cs set_cs file content now]. rewrite upd_eq, Hf, Hc, Hst. reflexivity. }
  set (s3 := State (now s2) None (content s2) (nexti s2) (upd (cs s2) w (CTry ec')) (cproc s2) (tids s2) (hb s2) (lastcreate s2) (mtime s2)).
  assert (E3 : step c s2 (LRemove w) = Some s3).
  { cbn [step]. unfold s2 at 1. cbn [cs set_cs]. rewrite upd_eq. reflexivity. }
  exists s3, ec'. cbn [run]. rewrite E1, E2, E3. split; [reflexivity|]. split; [reflexivity|].
  split; [cbn; apply upd_eq|].
  unfold same_but. cbn. repeat split; auto. intros t Ht. rewrite !upd_neq by assumption. reflexivity.
Qed.

(** ** ... and one that is empty (its owner died between create and write, or in a truncate gap) *)
Lemma empty_break s i w ec :
  file s = Some i -> content s i = FEmpty -> cs s w = CExists ec ->
  (S ec <? retries c)%nat = false -> factor c * interval c < now s - mtime s i ->
  exists s2, run c s [LOpenRead w; LRemove w] = Some s2 /\
             file s2 = None /\ cs s2 w = CTry (S ec) /\ same_but w s s2.
Proof.
  intros Hf Hc Hw Hr Hlate.
  set (s1 := set_cs s w (CStale (S ec))).
  assert (E1 : step c s (LOpenRead w) = Some s1).
  { cbn [step]. rewrite Hw, Hf, Hc, Hr. apply Z.ltb_lt in Hlate. rewrite Hlate.
    cbn [negb andb orb]. rewrite andb_false_r. reflexivity. }
  set (s2 := State (now s1) None (content s1) (nexti s1) (upd (cs s1) w (CTry (S ec))) (cproc s1) (tids s1) (hb s1) (lastcreate s1) (mtime s1)).
  assert (E2 : step c s1 (LRemove w) = Some s2).
  { cbn [step]. unfold s1 at 1. cbn [cs set_cs]. rewrite upd_eq. reflexivity. }
  exists s2. cbn [run]. rewrite E1, E2. split; [reflexivity|]. split; [reflexivity|].
  split; [cbn; apply upd_eq|].
  unfold same_but. cbn. repeat split; auto. intros t Ht. rewrite !upd_neq by assumption. reflexivity.
Qed.

(** ** once the name is free the waiter's create succeeds; with a fresh clock reading it holds *)
Lemma free_create s w ec :
  file s = None -> cs s w = CTry ec ->
  exists s1, step c s (LTryCreate w) = Some s1 /\ cs s1 w = CCreated ec (nexti s) /\
             file s1 = Some (nexti s) /\ now s1 = now s /\ lastcreate s1 = lastcreate s /\
             (forall t, t <> w -> cs s1 t = cs s t).
Proof.
  intros Hf Hw. cbn [step]. rewrite Hw, Hf. eexists. split; [reflexivity|]. cbn.
  rewrite upd_eq. repeat split; auto. intros t Ht. apply upd_neq, Ht.
Qed.
Lemma created_holds s w ec i :
  cs s w = CCreated ec i -> lastcreate s < now s ->
  exists s1, step c s (LWriteMeta w) = Some s1 /\ cs s1 w = CHolding i /\ file s1 = file s /\ now s1 = now s.
Proof.
  intros Hw Hl. cbn [step]. rewrite Hw. apply Z.ltb_lt in Hl. rewrite Hl. eexists. split; [reflexivity|].
  cbn. rewrite upd_eq. auto.
Qed.

(** a sleeping waiter whose timer has fired is at the top of its loop after one step *)
Lemma wake_top s w ec u :
  cs s w = CSleep ec u -> u <= now s ->
  exists s1, step c s (LWake w) = Some s1 /\ cs s1 w = CTry ec /\ file s1 = file s /\ content s1 = content s /\
             now s1 = now s /\ nexti s1 = nexti s /\ mtime s1 = mtime s.
Proof.
  intros Hw Hu. cbn [step]. rewrite Hw. apply Z.leb_le in Hu. rewrite Hu. eexists. split; [reflexivity|].
  cbn. rewrite upd_eq. auto 10.
Qed.

Lemma run_app (s : state) l1 l2 s1 : run c s l1 = Some s1 -> run c s (l1 ++ l2) = run c s1 l2.
Proof.
  revert s. induction l1 as [|l r IH]; intros s; cbn [run app].
  - intros E; injection E as <-; reflexivity.
  - destruct (step c s l) as [s'|]; [apply IH | discriminate].
Qed.

Lemma reach_by_run s0 s ls s' :
  reach c any_label s0 s -> run c s ls = Some s' -> reach c any_label s0 s'.
Proof.
  revert s. induction ls as [|l r IH]; intros s R; cbn [run].
  - intros E; injection E as <-; exact R.
  - destruct (step c s l) as [s1|] eqn:E; [|discriminate]. apply IH. econstructor; eauto. exact I.
Qed.
End Generic.

(** * the recovery run of ONE waiter, repository configuration *)
Import Props.C08.

Definition stale_after : Z := lock_stale_factor * lock_freshness_interval.

(** the dead owner's file has metadata in it (the usual case: it died while holding).  In every later
    state in which that file is still in place and more than factor * interval has passed since the
    kill, a waiter at the top of its loop breaks the lock by three steps of its own and then creates
    its own lock file: it is the owner, in no time. *)
Theorem fl_recovery_meta : forall d, H_live d -> forall s0 t i cr u s ls s' w ec,
  reach (cfg_repo d) any_label init s0 ->
  cs s0 t = CHolding i -> file s0 = Some i -> content s0 i = FMeta cr (Some u) ->
  step (cfg_repo d) s0 (LKill (cproc s0 t)) = Some s ->
  run (cfg_repo d) s ls = Some s' -> file s' = Some i ->
  stale_after < now s' - now s0 -> cs s' w = CTry ec ->
  exists s3 s4 ec',
    run (cfg_repo d) s' [LTryCreate w; LOpenRead w; LRemove w] = Some s3 /\
    fl_locked s3 = false /\ cs s3 w = CTry ec' /\ same_but w s' s3 /\
    step (cfg_repo d) s3 (LTryCreate w) = Some s4 /\
    held_by s4 w /\ file s4 = Some (nexti s') /\ now s4 = now s' /\
    (forall t', t' <> w -> cs s4 t' = cs s' t').
Proof.
  intros d Hd s0 t i cr u s ls s' w ec R Hh Hf Hc Hk Hr Hf' Hlate Hw.
  destruct (C08_stale_recovers d Hd s0 t i cr u s ls s' w ec R Hh Hf Hc Hk Hr Hf' Hlate Hw) as [Hc' _].
  assert (Hst : is_stale (cfg_repo d) (now s') cr (Some u) = true).
  { pose proof (HB_time _ _ (HBInv_reach (cfg_repo d) (repo_checks d) (repo_good d Hd) any_label s0 R) i cr u Hc) as Hu.
    assert (Hn : now s = now s0) by (cbn [step] in Hk; injection Hk as <-; reflexivity).
    unfold is_stale. apply Z.ltb_lt. unfold stale_after in Hlate.
    change (factor (cfg_repo d)) with lock_stale_factor. change (interval (cfg_repo d)) with lock_freshness_interval. lia. }
  destruct (stale_break (cfg_repo d) s' i cr (Some u) w ec Hf' Hc' Hst Hw) as (s3 & ec' & E3 & F3 & W3 & SB).
  destruct (free_create (cfg_repo d) s3 w ec' F3 W3) as (s4 & E4 & W4 & F4 & N4 & _ & O4).
  pose proof SB as (Bn & _ & Bi & _ & _ & _ & _ & _ & Bo).
  exists s3, s4, ec'. split; [exact E3|]. split; [unfold fl_locked; rewrite F3; reflexivity|].
  split; [exact W3|]. split; [exact SB|]. split; [exact E4|].
  split; [exists (nexti s3); split; [left; exists ec'; exact W4 | exact F4]|].
  split; [congruence|]. split; [congruence|].
  intros t' Ht. rewrite O4, Bo by assumption. reflexivity.
Qed.

(** the dead owner's file is empty (it died between the O_EXCL create and the metadata write - a crash
    AT the Bundle model's lock call - or in a heartbeat's truncate gap): the file stays empty, its
    modification time frozen; a waiter that has counted its empty reads to the limit breaks the lock
    by two steps of its own once more than factor * interval has passed since that modification *)
Theorem fl_recovery_empty : forall d, H_live d -> forall s0 t i s ls s' w ec,
  reach (cfg_repo d) any_label init s0 ->
  owner s0 t i -> file s0 = Some i -> content s0 i = FEmpty ->
  step (cfg_repo d) s0 (LKill (cproc s0 t)) = Some s ->
  run (cfg_repo d) s ls = Some s' -> file s' = Some i ->
  stale_after < now s' - mtime s0 i -> cs s' w = CExists ec -> (lock_empty_retries <= Z.of_nat (S ec)) ->
  exists s3 s4,
    run (cfg_repo d) s' [LOpenRead w; LRemove w] = Some s3 /\
    fl_locked s3 = false /\ cs s3 w = CTry (S ec) /\ same_but w s' s3 /\
    step (cfg_repo d) s3 (LTryCreate w) = Some s4 /\
    held_by s4 w /\ file s4 = Some (nexti s') /\ now s4 = now s' /\
    (forall t', t' <> w -> cs s4 t' = cs s' t').
Proof.
  intros d Hd s0 t i s ls s' w ec R Ho Hf Hc Hk Hr Hf' Hlate Hw Hec.
  destruct (C08_empty_recovers d Hd s0 t i s ls s' R Ho Hf Hc Hk Hr Hf') as (Hc' & Hm' & _).
  assert (Hret : (S ec <? retries (cfg_repo d))%nat = false).
  { apply Nat.ltb_ge. change (retries (cfg_repo d)) with (Z.to_nat lock_empty_retries).
    unfold lock_empty_retries in *. lia. }
  assert (Hl : factor (cfg_repo d) * interval (cfg_repo d) < now s' - mtime s' i).
  { rewrite Hm'. exact Hlate. }
  destruct (empty_break (cfg_repo d) s' i w ec Hf' Hc' Hw Hret Hl) as (s3 & E3 & F3 & W3 & SB).
  destruct (free_create (cfg_repo d) s3 w (S ec) F3 W3) as (s4 & E4 & W4 & F4 & N4 & _ & O4).
  pose proof SB as (Bn & _ & Bi & _ & _ & _ & _ & _ & Bo).
  exists s3, s4. split; [exact E3|]. split; [unfold fl_locked; rewrite F3; reflexivity|].
  split; [exact W3|]. split; [exact SB|]. split; [exact E4|].
  split; [exists (nexti s3); split; [left; exists (S ec); exact W4 | exact F4]|].
  split; [congruence|]. split; [congruence|].
  intros t' Ht. rewrite O4, Bo by assumption. reflexivity.
Qed.

(** the new owner returns from Lock as soon as its clock reading differs from the previous creation's *)
Theorem fl_owner_returns : forall d s w ec i,
  cs s w = CCreated ec i -> lastcreate s < now s ->
  exists s1, step (cfg_repo d) s (LWriteMeta w) = Some s1 /\ cs s1 w = CHolding i /\ file s1 = file s /\ now s1 = now s.
Proof. intros d. apply created_holds. Qed.

(** ** the time bound.  A waiter that sleeps is due within one poll interval (every reachable state,
    kills included); once its timer has fired and the dead file is stale, its own five steps make it
    the owner.  So: no later than factor * interval + poll after the crash the lock can be had. *)
Theorem fl_recovery_within_poll : forall d, H_live d -> forall s0 t i cr u s ls s' w ec due,
  reach (cfg_repo d) any_label init s0 ->
  cs s0 t = CHolding i -> file s0 = Some i -> content s0 i = FMeta cr (Some u) ->
  step (cfg_repo d) s0 (LKill (cproc s0 t)) = Some s ->
  run (cfg_repo d) s ls = Some s' -> file s' = Some i ->
  cs s' w = CSleep ec due ->
  due <= now s' + file_lock_poll_interval /\
  (due <= now s' -> stale_after < now s' - now s0 ->
   exists s5, run (cfg_repo d) s' [LWake w; LTryCreate w; LOpenRead w; LRemove w; LTryCreate w] = Some s5 /\
              held_by s5 w /\ now s5 = now s').
Proof.
  intros d Hd s0 t i cr u s ls s' w ec due R Hh Hf Hc Hk Hr Hf' Hw.
  assert (R' : reach (cfg_repo d) any_label init s').
  { apply (reach_by_run (cfg_repo d) init s ls s'); [|exact Hr]. econstructor; [exact R | exact I | exact Hk]. }
  split; [exact (C08_waiter_looks_again_within_poll d s' w ec due R' Hw)|].
  intros Hdue Hlate.
  destruct (wake_top (cfg_repo d) s' w ec due Hw Hdue) as (s1 & E1 & W1 & F1 & C1 & N1 & _).
  assert (Hr1 : run (cfg_repo d) s (ls ++ [LWake w]) = Some s1).
  { rewrite (run_app (cfg_repo d) s ls [LWake w] s' Hr). cbn [run]. rewrite E1. reflexivity. }
  destruct (fl_recovery_meta d Hd s0 t i cr u s (ls ++ [LWake w]) s1 w ec R Hh Hf Hc Hk Hr1 ltac:(congruence) ltac:(congruence) W1)
    as (s3 & s4 & ec' & E3 & _ & _ & _ & E4 & H4 & _ & N4 & _).
  exists s4. split; [|split; [exact H4 | congruence]].
  change [LWake w; LTryCreate w; LOpenRead w; LRemove w; LTryCreate w]
    with ([LWake w] ++ ([LTryCreate w; LOpenRead w; LRemove w] ++ [LTryCreate w])).
  rewrite (run_app (cfg_repo d) s' [LWake w] _ s1) by (cbn [run]; rewrite E1; reflexivity).
  rewrite (run_app (cfg_repo d) s1 _ _ s3 E3). cbn [run]. rewrite E4. reflexivity.
Qed.

(** * the side condition made precise: ONE recoverer keeps mutual exclusion
    If, when the waiter has broken the dead lock, nobody else owns a lock file and nobody else has judged
    the dead file stale (no thread sits between its read and its os.Remove), then the invariants behind
    [C08_mutex_no_crash] hold again from the waiter's create on: along every continuation in which no
    owner is killed at most one thread holds. *)
Section OneRecoverer.
Variable c : config.
Hypothesis Hchk : checks c = true.
Hypothesis Hgrd : guard c = true.
Hypothesis Hcfg : good_cfg c.

Lemma invs_after_create s3 s4 w ec :
  file s3 = None -> cs s3 w = CTry ec ->
  (forall t j, ~ owner s3 t j) -> (forall t e, cs s3 t <> CStale e) ->
  HBInv c s3 -> step c s3 (LTryCreate w) = Some s4 -> MInv c s4 /\ GapInv c s4.
Proof.
  intros Hf Hw Hno Hns HB E. cbn [step] in E. rewrite Hw, Hf in E. injection E as <-.
  assert (Hown : forall t j, owner (State (now s3) (Some (nexti s3)) (upd (content s3) (nexti s3) FEmpty) (S (nexti s3))
                      (upd (cs s3) w (CCreated ec (nexti s3))) (cproc s3) (tids s3) (upd (hb s3) (nexti s3) HNone)
                      (lastcreate s3) (upd (mtime s3) (nexti s3) (now s3))) t j -> t = w /\ j = nexti s3).
  { intros t j Ho. destruct (Nat.eq_dec t w) as [->|Hne].
    - split; [reflexivity|]. destruct Ho as [[e Ho]|Ho]; cbn [cs] in Ho; rewrite upd_eq in Ho; congruence.
    - exfalso. apply (Hno t j). destruct Ho as [[e Ho]|Ho]; cbn [cs] in Ho; rewrite upd_neq in Ho by assumption;
        [left; eauto | right; exact Ho]. }
  split.
  - constructor.
    + intros t j Ho. destruct (Hown t j Ho) as [_ ->]. reflexivity.
    + intros t1 t2 i1 i2 H1 H2. destruct (Hown _ _ H1) as [-> _]. destruct (Hown _ _ H2) as [-> _]. reflexivity.
    + intros j Hj. cbn [file] in Hj. injection Hj as <-. exists w. left. exists ec. cbn [cs]. apply upd_eq.
    + intros t e. cbn [cs]. destruct (Nat.eq_dec t w) as [->|Hne]; [rewrite upd_eq; discriminate|].
      rewrite upd_neq by assumption. apply Hns.
    + intros t j Hh. exfalso. destruct (Hown t j (or_intror Hh)) as [-> _]. cbn [cs] in Hh. rewrite upd_eq in Hh. discriminate.
  - intros j Hj _. cbn [file now mtime] in *. injection Hj as <-. rewrite upd_eq.
    destruct Hcfg as (_ & Hd & _). unfold gapb. lia.
Qed.

Lemma mutex_from s4 s5 t1 t2 i1 i2 :
  HBInv c s4 -> MInv c s4 -> GapInv c s4 -> reach c (live_ok c) s4 s5 ->
  cs s5 t1 = CHolding i1 -> cs s5 t2 = CHolding i2 -> t1 = t2.
Proof.
  intros HB HM HG R H1 H2.
  assert (B : BothInv c s5).
  { apply (reach_invariant c (live_ok c) (BothInv c) s4 s5); [|split; [|split]; assumption | exact R].
    intros x l y (A1 & A2 & A3) Hok Hs. split; [|split].
    - exact (HBInv_step c Hchk Hcfg x l y A1 Hs).
    - exact (MInv_step c Hchk Hgrd Hcfg x l y A1 A2 A3 Hok Hs).
    - exact (GapInv_step c Hcfg x l y A1 A2 A3 Hs). }
  destruct B as (_ & M & _). exact (M_one c s5 M t1 t2 i1 i2 (or_intror H1) (or_intror H2)).
Qed.
End OneRecoverer.

Theorem fl_single_recoverer_mutex : forall d, H_live d -> forall s' brk s3 s4 w ec,
  reach (cfg_repo d) any_label init s' ->
  run (cfg_repo d) s' brk = Some s3 -> same_but w s' s3 -> file s3 = None -> cs s3 w = CTry ec ->
  step (cfg_repo d) s3 (LTryCreate w) = Some s4 ->
  (* the side condition: no other owner, no other thread about to remove the file *)
  (forall t j, t <> w -> ~ owner s' t j) -> (forall t e, t <> w -> cs s' t <> CStale e) ->
  forall s5 t1 t2 i1 i2, reach (cfg_repo d) (live_ok (cfg_repo d)) s4 s5 ->
    cs s5 t1 = CHolding i1 -> cs s5 t2 = CHolding i2 -> t1 = t2.
Proof.
  intros d Hd s' brk s3 s4 w ec R Hb SB Hf Hw E Hno Hns s5 t1 t2 i1 i2 R5.
  assert (R3 : reach (cfg_repo d) any_label init s3) by (apply (reach_by_run (cfg_repo d) init s' brk s3); assumption).
  assert (R4 : reach (cfg_repo d) any_label init s4) by (econstructor; [exact R3 | exact I | exact E]).
  pose proof (HBInv_reach (cfg_repo d) (repo_checks d) (repo_good d Hd) any_label s3 R3) as HB3.
  pose proof (HBInv_reach (cfg_repo d) (repo_checks d) (repo_good d Hd) any_label s4 R4) as HB4.
  destruct SB as (_ & _ & _ & _ & _ & _ & _ & _ & Bo).
  assert (Hno3 : forall t j, ~ owner s3 t j).
  { intros t j Ho. destruct (Nat.eq_dec t w) as [->|Hne].
    - destruct Ho as [[e Ho]|Ho]; congruence.
    - apply (Hno t j Hne). destruct Ho as [[e Ho]|Ho]; rewrite Bo in Ho by assumption; [left; eauto | right; exact Ho]. }
  assert (Hns3 : forall t e, cs s3 t <> CStale e).
  { intros t e. destruct (Nat.eq_dec t w) as [->|Hne]; [congruence|]. rewrite Bo by assumption. apply Hns, Hne. }
  destruct (invs_after_create (cfg_repo d) (repo_good d Hd) s3 s4 w ec Hf Hw Hno3 Hns3 HB3 E) as [HM HG].
  exact (mutex_from (cfg_repo d) (repo_checks d) (repo_guard d) (repo_good d Hd) s4 s5 t1 t2 i1 i2 HB4 HM HG R5).
Qed.

(** * what does NOT carry over: two recovering waiters (the stale race), repository configuration *)
Definition d2 : Z := 2000000000.
Lemma H_live_d2 : H_live d2.
Proof. unfold H_live, d2, lock_stale_factor, lock_freshness_interval. lia. Qed.

Definition race_prefix : list label :=
  [LStart 0 0; LTryCreate 0; LWriteMeta 0]%nat.
Definition race_after_kill : list label :=
  [LStart 1 1; LStart 2 2; LTick (10 * sec + 1)]%nat.
Definition race_tail : list label :=
  [LTryCreate 1; LOpenRead 1; LTryCreate 2; LOpenRead 2;
   LRemove 1; LTryCreate 1; LWriteMeta 1;
   LRemove 2; LTryCreate 2; LTick 1; LWriteMeta 2]%nat.

Lemma race_proj :
  match run (cfg_repo d2) init race_prefix with
  | Some s0 =>
      cs s0 0%nat = CHolding 0%nat /\ file s0 = Some 0%nat /\ content s0 0%nat = FMeta (Some 0) (Some 0) /\
      match step (cfg_repo d2) s0 (LKill (cproc s0 0%nat)) with
      | Some s =>
          match run (cfg_repo d2) s race_after_kill with
          | Some s' =>
              file s' = Some 0%nat /\ stale_after < now s' - now s0 /\ cs s' 1%nat = CTry 0 /\ cs s' 2%nat = CTry 0 /\
              match run (cfg_repo d2) s' race_tail with
              | Some s9 => cs s9 0%nat = CDead /\ cs s9 1%nat = CHolding 1%nat /\ cs s9 2%nat = CHolding 2%nat
              | None => False
              end
          | None => False
          end
      | None => False
      end
  | None => False
  end.
Proof. vm_compute. repeat split; reflexivity. Qed.

(** Both waiters meet the hypotheses of [fl_recovery_meta] in the SAME state [s'] - each of them can
    obtain the lock "by its own steps" - and a schedule that interleaves their steps ends with both of
    them holding, the first holder alive and never having unlocked. *)
Theorem fl_two_recoverers_refuted :
  exists s0 s s' s9,
    reach (cfg_repo d2) any_label init s0 /\
    cs s0 0%nat = CHolding 0%nat /\ file s0 = Some 0%nat /\ content s0 0%nat = FMeta (Some 0) (Some 0) /\
    step (cfg_repo d2) s0 (LKill (cproc s0 0%nat)) = Some s /\
    run (cfg_repo d2) s race_after_kill = Some s' /\ file s' = Some 0%nat /\
    stale_after < now s' - now s0 /\ cs s' 1%nat = CTry 0 /\ cs s' 2%nat = CTry 0 /\
    run (cfg_repo d2) s' race_tail = Some s9 /\
    (forall p, ~ In (LKill p) race_tail) /\ ~ In (LUnlock 1%nat) race_tail /\
    cs s9 1%nat = CHolding 1%nat /\ cs s9 2%nat = CHolding 2%nat.
Proof.
  pose proof race_proj as P.
  destruct (run (cfg_repo d2) init race_prefix) as [s0|] eqn:E0; [|contradiction].
  destruct P as (P1 & P2 & P3 & P).
  destruct (step (cfg_repo d2) s0 (LKill (cproc s0 0%nat))) as [s|] eqn:Ek; [|contradiction].
  destruct (run (cfg_repo d2) s race_after_kill) as [s'|] eqn:Ea; [|contradiction].
  destruct P as (Q1 & Q2 & Q3 & Q4 & P).
  destruct (run (cfg_repo d2) s' race_tail) as [s9|] eqn:Et; [|contradiction].
  destruct P as (_ & T1 & T2).
  exists s0, s, s', s9.
  split; [apply (reach_by_run (cfg_repo d2) init init race_prefix s0); [constructor | exact E0]|].
  repeat (split; [assumption|]).
  split; [intros p H; cbn in H; repeat (destruct H as [H|H]; [discriminate|]); exact H|].
  split; [intros H; cbn in H; repeat (destruct H as [H|H]; [discriminate|]); exact H|].
  auto.
Qed.

(** consequently the FileLock state after a crash cannot be abstracted to a Locker with ONE owner per
    key (the lock table [lks : key -> option owner] of the Issuance model): in the final state of
    the race no [lk : option tid] records exactly the threads whose Lock has returned *)
Theorem fl_single_owner_abstraction_refuted :
  exists s, reach (cfg_repo d2) any_label init s /\
    ~ exists lk : option tid, forall t, (exists i, cs s t = CHolding i) <-> lk = Some t.
Proof.
  destruct fl_two_recoverers_refuted as (s0 & s & s' & s9 & R0 & _ & _ & _ & Ek & Ea & _ & _ & _ & _ & Et & _ & _ & T1 & T2).
  exists s9. split.
  - apply (reach_by_run (cfg_repo d2) init s' race_tail s9); [|exact Et].
    apply (reach_by_run (cfg_repo d2) init s race_after_kill s'); [|exact Ea].
    econstructor; [exact R0 | exact I | exact Ek].
  - intros (lk & H).
    assert (H1 : lk = Some 1%nat) by (apply H; eauto).
    assert (H2 : lk = Some 2%nat) by (apply H; eauto).
    congruence.
Qed.

(** non-vacuity of [fl_single_recoverer_mutex] (and of the two recovery theorems): C08's demo - the
    holder, refreshed once, is killed; 10 s and a bit later thread 1 is the only waiter *)
Definition demo_single : list label :=
  demo_before_kill ++ [LKill 0%nat] ++ demo_after_kill.
Definition quiet_cs (x : cstate) : bool := match x with CDead | CIdle => true | _ => false end.
Lemma demo_single_proj :
  match run (cfg_repo d2) init demo_single with
  | Some s' =>
      file s' = Some 0%nat /\ content s' 0%nat = FMeta (Some 0) (Some lock_freshness_interval) /\
      is_stale (cfg_repo d2) (now s') (Some 0) (Some lock_freshness_interval) = true /\ cs s' 1%nat = CTry 0 /\
      nexti s' = 1%nat /\ forallb (fun t => Nat.eqb t 1 || quiet_cs (cs s' t)) (tids s') = true
  | None => False
  end.
Proof. vm_compute. repeat split; reflexivity. Qed.

Example fl_single_recoverer_hypotheses_satisfiable :
  exists s' s3 s4,
    reach (cfg_repo d2) any_label init s' /\
    run (cfg_repo d2) s' [LTryCreate 1; LOpenRead 1; LRemove 1]%nat = Some s3 /\ same_but 1%nat s' s3 /\
    file s3 = None /\ (exists ec, cs s3 1%nat = CTry ec /\ cs s4 1%nat = CCreated ec 1%nat) /\
    step (cfg_repo d2) s3 (LTryCreate 1%nat) = Some s4 /\
    (forall t j, t <> 1%nat -> ~ owner s' t j) /\ (forall t e, t <> 1%nat -> cs s' t <> CStale e).
Proof.
  pose proof demo_single_proj as P.
  destruct (run (cfg_repo d2) init demo_single) as [s'|] eqn:E; [|contradiction].
  assert (R : reach (cfg_repo d2) any_label init s') by (apply (reach_by_run (cfg_repo d2) init init demo_single s'); [constructor | exact E]).
  destruct P as (F1 & F2 & F3 & F4 & F5 & F6).
  assert (F7 : forall t, t <> 1%nat -> quiet_cs (cs s' t) = true).
  { intros t Ht. destruct (cs s' t) eqn:Ec; try reflexivity;
      (assert (Hin : In t (tids s')) by (apply (HB_tids _ _ (HBInv_reach (cfg_repo d2) (repo_checks d2) (repo_good d2 H_live_d2) any_label s' R)); congruence));
      rewrite forallb_forall in F6; specialize (F6 t Hin); rewrite Ec in F6;
      (destruct (Nat.eqb_spec t 1); [contradiction | discriminate]). }
  destruct (stale_break (cfg_repo d2) s' 0%nat _ _ 1%nat 0%nat F1 F2 F3 F4) as (s3 & ec' & E3 & G1 & G2 & SB).
  destruct (free_create (cfg_repo d2) s3 1%nat ec' G1 G2) as (s4 & E4 & W4 & _).
  exists s', s3, s4. split; [exact R|]. split; [exact E3|]. split; [exact SB|]. split; [exact G1|].
  split; [exists ec'; split; [exact G2|]; destruct SB as (_ & _ & Bi & _); rewrite W4, Bi, F5; reflexivity|].
  split; [exact E4|]. split.
  - intros t j Ht [[e Ho]|Ho]; specialize (F7 t Ht); rewrite Ho in F7; discriminate.
  - intros t e Ht Hc. specialize (F7 t Ht). rewrite Hc in F7. discriminate.
Qed.

(** non-vacuity of [fl_recovery_within_poll]: in the same demo the waiter sleeps when the holder is killed;
    10 s and a bit later its timer has long fired *)
Example fl_recovery_within_poll_hypotheses_satisfiable :
  exists s0 s s' ec due,
    run (cfg_repo d2) init demo_before_kill = Some s0 /\
    cs s0 0%nat = CHolding 0%nat /\ file s0 = Some 0%nat /\
    content s0 0%nat = FMeta (Some 0) (Some lock_freshness_interval) /\
    step (cfg_repo d2) s0 (LKill (cproc s0 0%nat)) = Some s /\
    run (cfg_repo d2) s [LTick (stale_after + 1)] = Some s' /\ file s' = Some 0%nat /\
    cs s' 1%nat = CSleep ec due /\ due <= now s' /\ stale_after < now s' - now s0.
Proof.
  do 5 eexists.
  split; [vm_compute; reflexivity|]. split; [vm_compute; reflexivity|]. split; [vm_compute; reflexivity|].
  split; [vm_compute; reflexivity|]. split; [vm_compute; reflexivity|]. split; [vm_compute; reflexivity|].
  split; [vm_compute; reflexivity|]. split; [vm_compute; reflexivity|].
  split; vm_compute; congruence.
Qed.
