(** System / LockInst — the composition of [LockCompose] instantiated with the
    repository's lock configuration ([FileLock.Check.cfg_repo d]: every constant and code-shape
    flag read from filestorage.go by the translator, [d] = the latency bound of H-live), and a
    concrete run of the implementation showing that the hypotheses are met by a non-trivial
    state: one request inside Issuer.Issue holding the lock file, a second request of another
    process polling the same lock file. *)
From Coq Require Import List ZArith Bool Arith Lia.
From CM Require Import Gen.Consts.
From CM Require FileLock.Model FileLock.Proofs FileLock.Check.
From CM Require Import System.LockRefine System.LockEvent System.LockCompose System.LockCrash.
From CM Require Import Issuance.Model Issuance.Proofs Issuance.Invariants.
Import ListNotations.
Close Scope N_scope.
Open Scope nat_scope.

Module FLC := CM.FileLock.Check.

(** H-live(d): a live process runs each heartbeat within [d] of its due time and writes its
    metadata within [d] of the O_EXCL create; [d] leaves the staleness threshold intact *)
Definition H_live (d : Z) : Prop :=
  (0 <= d /\ d <= (lock_stale_factor - 1) * lock_freshness_interval)%Z.

Lemma repo_checks d : FL.checks (FLC.cfg_repo d) = true.
Proof. reflexivity. Qed.
Lemma repo_guard d : FL.guard (FLC.cfg_repo d) = true.
Proof. reflexivity. Qed.
Lemma repo_good d : H_live d -> FLP.good_cfg (FLC.cfg_repo d).
Proof.
  unfold H_live, FLP.good_cfg, FLC.cfg_repo, FLC.cfg_repo_eps. cbn [FL.interval FL.delta FL.factor FL.eps].
  unfold lock_stale_factor, lock_freshness_interval. lia.
Qed.

Section Repo.
Variable d : Z.
Hypothesis Hd : H_live d.
Let c := FLC.cfg_repo d.

Theorem repo_filelock_refines_locker ls s : LockRefine.runs c (FLP.live_ok c) FL.init ls s ->
  lk_run None (project ls) = Some (holder s).
Proof. exact (filelock_refines_locker c (repo_checks d) (repo_guard d) (repo_good d Hd) ls s). Qed.

Theorem repo_filelocks_refine_lock_table fls F : fruns c finit fls F ->
  tbl_run (fun _ => None) (fproject fls) (holders F) /\ FInv c F.
Proof. exact (filelocks_refine_lock_table c (repo_checks d) (repo_guard d) (repo_good d Hd) fls F). Qed.

Theorem repo_impl_refines_issuance cs st ls s F : iruns c (iinit cs st) ls (s, F) ->
  reachable cs st s /\ Coupled s F /\ FInv c F.
Proof. exact (impl_refines_issuance c (repo_checks d) (repo_guard d) (repo_good d Hd) cs st ls s F). Qed.

Theorem repo_grant_never_refused s F t th x b :
  Coupled s F -> FInv c F -> thread_at s t th -> tpc th = PLockWait ->
  FL.step c (F (c_lk (cfg th))) (FL.LWriteMeta t) = Some x ->
  exists s1, step s (Label t FNone b) = Some (s1, Ev t (OAcq (c_lk (cfg th))) 0) /\
             forall p, sync_of (Ev t (OAcq (c_lk (cfg th))) 0) p = Some (c_lk (cfg th), FL.LWriteMeta t).
Proof. exact (grant_never_refused c (repo_checks d) (repo_guard d) (repo_good d Hd) s F t th x b). Qed.

Theorem repo_impl_issue_spans_disjoint cs st ls s F t1 t2 th1 th2 :
  agree_on_lock cs -> iruns c (iinit cs st) ls (s, F) ->
  thread_at s t1 th1 -> thread_at s t2 th2 ->
  in_span th1 = true -> in_span th2 = true -> c_idn (cfg th1) = c_idn (cfg th2) -> t1 = t2.
Proof. exact (impl_issue_spans_disjoint c (repo_checks d) (repo_guard d) (repo_good d Hd) cs st ls s F t1 t2 th1 th2). Qed.

Theorem repo_locked_region_holds_lock_file cs st ls s F t th :
  iruns c (iinit cs st) ls (s, F) -> thread_at s t th -> locked (tpc th) = true ->
  exists i, FL.cs (F (c_lk (cfg th))) t = FL.CHolding i /\ FL.file (F (c_lk (cfg th))) = Some i /\
            FL.hb (F (c_lk (cfg th))) i <> FL.HNone.
Proof. exact (locked_region_holds_lock_file c (repo_checks d) (repo_guard d) (repo_good d Hd) cs st ls s F t th). Qed.

Theorem repo_release_never_refused cs st s F t th r b :
  reachable cs st s -> Coupled s F -> FInv c F -> thread_at s t th -> tpc th = PUnlock r ->
  exists s1 x, step s (Label t FNone b) = Some (s1, Ev t (OUnlock (c_lk (cfg th))) 0) /\
               FL.step c (F (c_lk (cfg th))) (FL.LUnlock t) = Some x.
Proof. exact (release_never_refused c cs st s F t th r b). Qed.

Theorem repo_lock_file_holder_is_owner cs st ls s F k t i :
  iruns c (iinit cs st) ls (s, F) -> FL.cs (F k) t = FL.CHolding i ->
  lks (sh s) k = Some t /\
  forall t' th', thread_at s t' th' -> c_lk (cfg th') = k -> locked (tpc th') = true -> t' = t.
Proof. exact (lock_file_holder_is_owner c (repo_checks d) (repo_guard d) (repo_good d Hd) cs st ls s F k t i). Qed.

Theorem repo_impl_locks_released cs st ls s F t th :
  iruns_ok c (unlock_ok_for t) (iinit cs st) ls (s, F) ->
  thread_at s t th -> final_pc (tpc th) = true ->
  recd th = false /\ forall k i, FL.cs (F k) t <> FL.CHolding i.
Proof. exact (impl_locks_released c (repo_checks d) (repo_guard d) (repo_good d Hd) cs st ls s F t th). Qed.

Theorem repo_crash_refines_locker ls es s : cruns c FL.init ls es s -> lk3_run KFree es = Some (abs3 s).
Proof. exact (crash_refines_locker c (repo_checks d) (repo_good d Hd) ls es s). Qed.

Theorem repo_mutex_with_crashes ls es s t1 t2 i1 i2 : cruns c FL.init ls es s ->
  FL.cs s t1 = FL.CHolding i1 -> FL.cs s t2 = FL.CHolding i2 -> t1 = t2.
Proof. exact (mutex_with_crashes c (repo_checks d) (repo_good d Hd) ls es s t1 t2 i1 i2). Qed.

Theorem repo_crash_is_release_for_issuance s l s' : XInv c s -> remove_ok s l -> FL.step c s l = Some s' ->
  match vis3 s l with
  | Some (EAcq t) => lk_step (collapse (abs3 s)) (LAcq t) = Some (collapse (abs3 s'))
  | Some (ERel t) | Some (ECrash t) => lk_step (collapse (abs3 s)) (LRel t) = Some (collapse (abs3 s'))
  | Some EStale | None => collapse (abs3 s') = collapse (abs3 s)
  end.
Proof. exact (crash_sim_step_collapsed c (repo_checks d) (repo_good d Hd) s l s'). Qed.
End Repo.

(** * A concrete run *)
Definition d2 : Z := 2000000000.
Lemma H_live_d2 : H_live d2.
Proof. unfold H_live, d2, lock_stale_factor, lock_freshness_interval. lia. Qed.

(** two ObtainCertSync requests for one name (lock key 7, identifier 3), storage check off *)
Definition demo_cfg : tcfg := TCfg (PObtain false) 7 5 5 3 false false false false.
Definition demo_cs : list tcfg := [demo_cfg; demo_cfg].
Definition demo_st : skey -> option value := fun _ => None.

Definition T (t : nat) : ilabel := IThr (Label t FNone false) t.   (* thread t runs in process t *)
Definition demo_labels : list ilabel :=
  [ T 0;                              (* pre-check: Exists crt -> absent *)
    T 0;                              (* Lock called: contender 0 appears at lock file 7 *)
    IEnv (FOne 7 (FL.LTryCreate 0));  (* O_EXCL create succeeds *)
    T 0;                              (* metadata written, Lock returns nil = acquisition *)
    T 0;                              (* re-check under the lock *)
    T 0;                              (* cert_obtaining *)
    T 0;                              (* Issuer.Issue entered *)
    T 1; T 1;                         (* second request: pre-check, Lock called *)
    IEnv (FOne 7 (FL.LTryCreate 1));  (* EEXIST *)
    IEnv (FOne 7 (FL.LOpenRead 1)) ]. (* reads fresh metadata: sleeps one poll interval *)

Ltac thr_step := eapply iruns_cons; [eapply is_thread; [vm_compute; reflexivity | reflexivity]|].
Ltac sync_step := eapply iruns_cons; [eapply is_sync; [vm_compute; reflexivity | reflexivity | vm_compute; reflexivity]|].
Ltac env_step := eapply iruns_cons;
  [eapply is_env; [reflexivity | apply live_ok_nonkill; discriminate | eapply fs_one; [reflexivity | vm_compute; reflexivity]]|].

Example impl_run_nontrivial :
  agree_on_lock demo_cs /\
  exists s F, iruns (FLC.cfg_repo d2) (iinit demo_cs demo_st) demo_labels (s, F) /\
    (exists th0, thread_at s 0 th0 /\ in_span th0 = true) /\
    (exists th1, thread_at s 1 th1 /\ tpc th1 = PLockWait) /\
    lks (sh s) 7 = Some 0 /\
    FL.cs (F 7) 0 = FL.CHolding 0 /\ FL.file (F 7) = Some 0 /\
    (exists ec u, FL.cs (F 7) 1 = FL.CSleep ec u).
Proof.
  split.
  { intros c1 c2 [<-|[<-|[]]] [<-|[<-|[]]] _; reflexivity. }
  eexists. eexists. split.
  { unfold demo_labels, T.
    thr_step. sync_step. env_step. sync_step. thr_step. thr_step. thr_step.
    thr_step. sync_step. env_step. env_step. apply iruns_nil. }
  split; [eexists; split; [reflexivity|]; vm_compute; reflexivity|].
  split; [eexists; split; [reflexivity|]; vm_compute; reflexivity|].
  split; [vm_compute; reflexivity|].
  split; [vm_compute; reflexivity|].
  split; [vm_compute; reflexivity|].
  eexists. eexists. vm_compute. reflexivity.
Qed.

(** the hypotheses of [grant_never_refused] are met: in the state before step 4 of the run
    above the lock file lets thread 0's Lock call return *)
Example grant_hypotheses_met :
  exists s F th x, iruns (FLC.cfg_repo d2) (iinit demo_cs demo_st) (firstn 3 demo_labels) (s, F) /\
    thread_at s 0 th /\ tpc th = PLockWait /\
    FL.step (FLC.cfg_repo d2) (F (c_lk (cfg th))) (FL.LWriteMeta 0) = Some x.
Proof.
  eexists. eexists. eexists. eexists. split.
  { unfold demo_labels, T. cbn [firstn]. thr_step. sync_step. env_step. apply iruns_nil. }
  split; [reflexivity|]. split; [vm_compute; reflexivity|]. vm_compute. reflexivity.
Qed.
