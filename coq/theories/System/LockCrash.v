(** System / LockCrash — the file lock refines the abstract Locker also when HOLDERS die,
    under one explicit side condition on the schedule, and not without it.

    DESIGN A.3 describes the Locker that the Issuance level relies on after a crash as "the
    crashed holder keeps its lock-table entry until the environment's Stale step frees it".
    As a transition system on one lock:
        Free --Acq t--> Held t --Rel t--> Free,   Held t --Crash t--> Orphan --Stale--> Free.
    ([collapse] maps it onto the two-state Locker of [Issuance.Model], where a dead holder's lock
    counts as free: that is how C01 / C09's harness presents a leader crash to the model.)

    Refinement mapping from [FileLock.Model]: [Held t] = thread t is in [CHolding];
    [Orphan] = nobody holds, the lock file is in place and its heartbeat goroutine has been
    started once (so its creator did return from Lock) - the file of a dead holder;
    otherwise [Free] (no file, or the file of a creator that has not returned yet).
    Events: [LWriteMeta t] = Acq, [LUnlock t] = Rel, [LKill p] of the holder's process =
    Crash, [LRemove w] of an orphaned file = Stale.

    Side condition [remove_ok]: a waiter's os.Remove of a lock file it judged stale is not
    taken while some LIVE thread owns the file that is in place at that instant.  This is
    exactly the race documented above FileStorage.Lock in filestorage.go ("imperfect mutual
    exclusion if locks become stale"): waiter B reads the dead file, waiter A removes it
    and creates its own, B's os.Remove(filename) then deletes A's live file.

    [crash_refines_locker]: along every run - any kills, H-live not even needed - whose
    removals satisfy [remove_ok], the projected events form a run of the abstract
    Locker-with-crash; in particular ([mutex_with_crashes]) at most one live thread owns
    the lock.  [crash_refinement_refuted_stale_race]: C08's witness run (all fixes, all
    heartbeats on time) violates [remove_ok] at its second removal and then performs an Acq
    while the abstract state is [Held]: without the side condition the Locker assumed at
    the Issuance level is NOT what FileStorage implements after a holder's death. *)
From Coq Require Import List ZArith Bool Arith Lia.
From CM Require Import FileLock.Model FileLock.Proofs FileLock.Refuted System.LockRefine.
Import ListNotations.
Open Scope nat_scope.

(** * The abstract Locker with crash and staleness *)
Inductive lk3 := KFree | KHeld (t : tid) | KOrphan.
Inductive lev3 := EAcq (t : tid) | ERel (t : tid) | ECrash (t : tid) | EStale.

Definition lk3_step (h : lk3) (e : lev3) : option lk3 :=
  match e, h with
  | EAcq t, KFree => Some (KHeld t)
  | ERel t, KHeld u => if Nat.eqb u t then Some KFree else None
  | ECrash t, KHeld u => if Nat.eqb u t then Some KOrphan else None
  | EStale, KOrphan => Some KFree
  | _, _ => None
  end.

Fixpoint lk3_run (h : lk3) (es : list lev3) : option lk3 :=
  match es with
  | [] => Some h
  | e :: r => match lk3_step h e with Some h' => lk3_run h' r | None => None end
  end.

(** the Issuance model's two-state view: a dead holder's lock is a free lock; a crash of
    the holder is a release, the staleness step is invisible *)
Definition collapse (h : lk3) : option tid := match h with KHeld t => Some t | _ => None end.
Lemma lk3_collapse h e h' : lk3_step h e = Some h' ->
  match e with
  | EAcq t => lk_step (collapse h) (LAcq t) = Some (collapse h')
  | ERel t | ECrash t => lk_step (collapse h) (LRel t) = Some (collapse h')
  | EStale => collapse h' = collapse h
  end.
Proof.
  destruct e, h; cbn; try discriminate.
  - intros H; injection H as <-. reflexivity.
  - destruct (Nat.eqb t0 t); [|discriminate]. intros H; injection H as <-. reflexivity.
  - destruct (Nat.eqb t0 t); [|discriminate]. intros H; injection H as <-. reflexivity.
  - intros H; injection H as <-. reflexivity.
Qed.

(** * Refinement mapping *)
Definition orphaned (s : state) : bool :=
  match file s with
  | Some i => match hb s i with HNone => false | _ => true end
  | None => false
  end.
Definition abs3 (s : state) : lk3 :=
  match holder s with
  | Some t => KHeld t
  | None => if orphaned s then KOrphan else KFree
  end.

Definition vis3 (s : state) (l : label) : option lev3 :=
  match l with
  | LWriteMeta t => Some (EAcq t)
  | LUnlock t => Some (ERel t)
  | LKill p => match holder s with
               | Some t => if Nat.eqb (cproc s t) p then Some (ECrash t) else None
               | None => None
               end
  | LRemove _ => if orphaned s then Some EStale else None
  | _ => None
  end.

(** the side condition: no os.Remove of a "stale" lock file while a live thread owns the
    lock file that is in place *)
Definition remove_ok (s : state) (l : label) : Prop :=
  forall w, l = LRemove w -> forall t i, ~ owner s t i.

(** * Invariant of runs with kills: live owners own the file in place, and there is one *)
Record CInv (s : state) : Prop := {
  C_file : forall t i, owner s t i -> file s = Some i;
  C_one : forall t1 t2 i1 i2, owner s t1 i1 -> owner s t2 i2 -> t1 = t2
}.

Lemma CInv_init : CInv init.
Proof. constructor; intros t; intros; match goal with H : owner init _ _ |- _ => destruct H as [[ec H]|H]; discriminate end. Qed.

(** owners only come from a successful O_EXCL create *)
Lemma owner_origin c s l s' t i : step c s l = Some s' -> owner s' t i ->
  owner s t i \/ (l = LTryCreate t /\ file s = None /\ file s' = Some i).
Proof.
  intros Hs Ho. unfold owner in *.
  inv_step Hs; cbn [cs file set_cs] in *; auto.
  all: try (destruct (Nat.eq_dec t t0) as [->|Hne];
            [rewrite upd_eq in Ho; try (destruct Ho as [[e Ho]|Ho]; discriminate)
            | rewrite upd_neq in Ho by assumption; left; exact Ho]).
  - (* create *) right. destruct Ho as [[e Ho]|Ho]; [|discriminate]. injection Ho as <- <-. auto.
  - (* write meta *) left. destruct Ho as [[e Ho]|Ho]; [discriminate|]. injection Ho as <-. left. eauto.
  - (* kill *) left. destruct (kill_cs_cases p (cproc s) (cs s) t) as [E|[E _]]; rewrite E in Ho; [exact Ho|].
    destruct Ho as [[e Ho]|Ho]; discriminate.
Qed.

Lemma file_change c s l s' : step c s l = Some s' ->
  file s' = file s \/ (exists t, l = LTryCreate t /\ file s = None) \/
  (exists t, l = LRemove t /\ file s' = None) \/ (exists t i, l = LUnlock t /\ cs s t = CHolding i /\ file s' = None).
Proof. intros Hs. inv_step Hs; cbn [file set_cs]; eauto 8. Qed.

Lemma CInv_step c s l s' : CInv s -> remove_ok s l -> step c s l = Some s' -> CInv s'.
Proof.
  intros [Cf Co] Hrm Hs.
  assert (Horig := fun t i => owner_origin c s l s' t i Hs).
  constructor.
  - intros t i Ho. destruct (Horig t i Ho) as [Ho'|(-> & Hf & Hf')]; [|exact Hf'].
    pose proof (Cf t i Ho') as Hfi.
    destruct (file_change c s l s' Hs) as [E|[(w & -> & Hn)|[(w & -> & _)|(w & j & -> & Hw & _)]]].
    + congruence.
    + congruence.
    + exfalso. exact (Hrm w eq_refl t i Ho').
    + (* Unlock by w: w was the only owner, and is none any more *)
      exfalso. assert (t = w) by (apply (Co t w i j); [exact Ho' | right; exact Hw]). subst t.
      cbn [step] in Hs. rewrite Hw in Hs. injection Hs as <-. unfold owner in Ho. cbn [cs] in Ho. rewrite upd_eq in Ho.
      destruct Ho as [[e Ho]|Ho]; discriminate.
  - intros t1 t2 i1 i2 H1 H2.
    destruct (Horig t1 i1 H1) as [H1'|(-> & Hf1 & _)]; destruct (Horig t2 i2 H2) as [H2'|(E2 & Hf2 & _)].
    + exact (Co _ _ _ _ H1' H2').
    + pose proof (Cf _ _ H1'). congruence.
    + pose proof (Cf _ _ H2'). congruence.
    + injection E2 as <-. reflexivity.
Qed.

(** [holder] under [CInv] *)
Lemma holder_some3 c s t : HBInv c s -> CInv s -> (holder s = Some t <-> exists i, cs s t = CHolding i).
Proof.
  intros HB HC. unfold holder. split.
  - intros H. apply find_some in H. destruct H as [_ H]. apply is_holding_true. exact H.
  - intros [i Hi]. destruct (find (fun t0 => is_holding (cs s t0)) (tids s)) as [t0|] eqn:E.
    + apply find_some in E. destruct E as [_ E]. apply is_holding_true in E. destruct E as [j Hj].
      f_equal. apply (C_one s HC t0 t j i); right; assumption.
    + exfalso. assert (Hin : In t (tids s)) by (apply (HB_tids c s HB); congruence).
      pose proof (find_none _ _ E t Hin) as Hn. cbn in Hn. rewrite Hi in Hn. discriminate.
Qed.
Lemma holder_none3 c s : HBInv c s -> CInv s -> (holder s = None <-> forall t i, cs s t <> CHolding i).
Proof.
  intros HB HC. split.
  - intros H t i Hi. assert (E : holder s = Some t) by (apply (holder_some3 c s t HB HC); eauto). congruence.
  - intros H. destruct (holder s) as [t|] eqn:E; [|reflexivity].
    apply (holder_some3 c s t HB HC) in E. destruct E as [i Hi]. destruct (H t i Hi).
Qed.
Lemma holder_ext3 c s s' : HBInv c s -> CInv s -> HBInv c s' -> CInv s' ->
  (forall t, (exists i, cs s' t = CHolding i) <-> (exists i, cs s t = CHolding i)) -> holder s' = holder s.
Proof.
  intros HB HC HB' HC' Hiff. destruct (holder s) as [t|] eqn:E.
  - apply (holder_some3 c s t HB HC) in E. apply (holder_some3 c s' t HB' HC'). apply Hiff. exact E.
  - apply (holder_none3 c s' HB' HC'). intros t i Hi.
    assert (Hx : exists j, cs s t = CHolding j) by (apply Hiff; eauto). destruct Hx as [j Hj].
    pose proof (proj1 (holder_none3 c s HB HC) E t j). contradiction.
Qed.

(** the heartbeat slot of the inode in place changes between "never started" and "started"
    only by a new creation *)
Lemma orphaned_keeps c s l s' : HBInv c s -> step c s l = Some s' ->
  (forall t, l <> LRemove t) -> (forall t, l <> LUnlock t) -> (forall t, l <> LWriteMeta t) ->
  orphaned s' = orphaned s.
Proof.
  intros HB Hs H1 H2 H3. pose proof (HB_file c s HB) as Hfl. pose proof (HB_trunc c s HB) as Htr.
  unfold orphaned.
  inv_step Hs; cbn [file hb set_cs]; try reflexivity.
  all: try solve [exfalso; eapply H1; reflexivity | exfalso; eapply H2; reflexivity | exfalso; eapply H3; reflexivity].
  all: try rewrite upd_eq; try reflexivity.
  all: repeat match goal with E : file _ = _ |- _ => rewrite E end; try reflexivity.
  all: try (destruct (file s) as [j|]; [|reflexivity]).
  all: repeat match goal with
       | |- context [upd ?f ?a ?x ?b] => destruct (Nat.eq_dec b a) as [->|?]; [rewrite upd_eq | rewrite upd_neq by assumption]
       end; try reflexivity.
  all: repeat match goal with E : hb _ _ = _ |- _ => rewrite E end; try reflexivity.
  (* kill: a heartbeat that dies had been started *)
  destruct (kill_hb_cases p (hb s) j) as [E|[E E2]]; rewrite E; [reflexivity|].
  destruct (hb s j); cbn in E2; try discriminate; reflexivity.
Qed.

Section Crash.
Variable c : config.
Hypothesis Hchk : checks c = true.
Hypothesis Hcfg : good_cfg c.

Definition XInv (s : state) : Prop := HBInv c s /\ CInv s.

Lemma XInv_step s l s' : XInv s -> remove_ok s l -> step c s l = Some s' -> XInv s'.
Proof.
  intros [HB HC] Hrm Hs. split; [exact (HBInv_step c Hchk Hcfg s l s' HB Hs) | exact (CInv_step c s l s' HC Hrm Hs)].
Qed.

Lemma holders_keep_nonkill s l s' : vis l = None -> (forall p, l <> LKill p) -> step c s l = Some s' ->
  forall t, (exists i, cs s' t = CHolding i) <-> (exists i, cs s t = CHolding i).
Proof.
  intros Hv Hnk Hs t.
  assert (Hok : live_ok c s l) by (intros (p & _ & _ & E & _); exact (Hnk p E)).
  split; intros [i Hi]; exists i; apply (invisible_keeps_holders c s l s' Hv Hok Hs t i); exact Hi.
Qed.

(** ** Forward simulation, one step, kills of anybody allowed *)
Theorem crash_sim_step s l s' : XInv s -> remove_ok s l -> step c s l = Some s' ->
  match vis3 s l with
  | Some e => lk3_step (abs3 s) e = Some (abs3 s')
  | None => abs3 s' = abs3 s
  end.
Proof.
  intros HX Hrm Hs. pose proof (XInv_step s l s' HX Hrm Hs) as HX'.
  destruct HX as [HB HC]. destruct HX' as [HB' HC'].
  destruct l; cbn [vis3].
  - (* tick *) unfold abs3. rewrite (orphaned_keeps c s _ s' HB Hs) by discriminate.
    rewrite (holder_ext3 c s s' HB HC HB' HC'); [reflexivity|]. apply holders_keep_nonkill with (l := LTick d); auto; discriminate.
  - unfold abs3. rewrite (orphaned_keeps c s _ s' HB Hs) by discriminate.
    rewrite (holder_ext3 c s s' HB HC HB' HC'); [reflexivity|]. apply holders_keep_nonkill with (l := LStart t p); auto; discriminate.
  - unfold abs3. rewrite (orphaned_keeps c s _ s' HB Hs) by discriminate.
    rewrite (holder_ext3 c s s' HB HC HB' HC'); [reflexivity|]. apply holders_keep_nonkill with (l := LTryCreate t); auto; discriminate.
  - (* Lock returns nil *)
    cbn [step] in Hs. destruct (cs s t) eqn:Ecs; try discriminate. destruct (lastcreate s <? now s)%Z; [|discriminate].
    assert (Hn : holder s = None).
    { apply (holder_none3 c s HB HC). intros t' j Hj.
      assert (t' = t) by (apply (C_one s HC t' t j i); [right; assumption | left; eauto]). subst t'. congruence. }
    assert (Hno : orphaned s = false).
    { unfold orphaned. rewrite (C_file s HC t i) by (left; eauto).
      destruct (HB_created c s HB t ec i Ecs) as (_ & E & _). rewrite E. reflexivity. }
    assert (Hh : holder s' = Some t).
    { apply (holder_some3 c s' t HB' HC'). injection Hs as <-. cbn [cs]. rewrite upd_eq. eauto. }
    unfold abs3. rewrite Hn, Hno, Hh. reflexivity.
  - unfold abs3. rewrite (orphaned_keeps c s _ s' HB Hs) by discriminate.
    rewrite (holder_ext3 c s s' HB HC HB' HC'); [reflexivity|]. apply holders_keep_nonkill with (l := LOpenRead t); auto; discriminate.
  - (* os.Remove of a file judged stale *)
    assert (Hn : holder s = None).
    { apply (holder_none3 c s HB HC). intros t' j Hj. exact (Hrm t eq_refl t' j (or_intror Hj)). }
    assert (Hn' : holder s' = None).
    { rewrite (holder_ext3 c s s' HB HC HB' HC'); [exact Hn|]. apply holders_keep_nonkill with (l := LRemove t); auto; discriminate. }
    assert (Ho' : orphaned s' = false).
    { cbn [step] in Hs. destruct (cs s t); try discriminate. injection Hs as <-. reflexivity. }
    unfold abs3. rewrite Hn, Hn', Ho'. destruct (orphaned s); reflexivity.
  - unfold abs3. rewrite (orphaned_keeps c s _ s' HB Hs) by discriminate.
    rewrite (holder_ext3 c s s' HB HC HB' HC'); [reflexivity|]. apply holders_keep_nonkill with (l := LWake t); auto; discriminate.
  - unfold abs3. rewrite (orphaned_keeps c s _ s' HB Hs) by discriminate.
    rewrite (holder_ext3 c s s' HB HC HB' HC'); [reflexivity|]. apply holders_keep_nonkill with (l := LCancel t); auto; discriminate.
  - (* Unlock *)
    cbn [step] in Hs. destruct (cs s t) eqn:Ecs; try discriminate.
    assert (Hh : holder s = Some t) by (apply (holder_some3 c s t HB HC); eauto).
    assert (Hn : holder s' = None).
    { apply (holder_none3 c s' HB' HC'). injection Hs as <-. cbn [cs]. intros t' j Hj.
      destruct (Nat.eq_dec t' t) as [->|Hne]; [rewrite upd_eq in Hj; discriminate|].
      rewrite upd_neq in Hj by assumption. apply Hne. apply (C_one s HC t' t j i); right; assumption. }
    assert (Ho' : orphaned s' = false) by (injection Hs as <-; reflexivity).
    unfold abs3. rewrite Hh, Hn, Ho'. cbn. rewrite Nat.eqb_refl. reflexivity.
  - unfold abs3. rewrite (orphaned_keeps c s _ s' HB Hs) by discriminate.
    rewrite (holder_ext3 c s s' HB HC HB' HC'); [reflexivity|]. apply holders_keep_nonkill with (l := LHbWake i); auto; discriminate.
  - unfold abs3. rewrite (orphaned_keeps c s _ s' HB Hs) by discriminate.
    rewrite (holder_ext3 c s s' HB HC HB' HC'); [reflexivity|]. apply holders_keep_nonkill with (l := LHbWrite i); auto; discriminate.
  - (* SIGKILL *)
    pose proof (orphaned_keeps c s _ s' HB Hs ltac:(discriminate) ltac:(discriminate) ltac:(discriminate)) as Hor.
    assert (Hcs : cs s' = kill_cs p (cproc s) (cs s)) by (cbn [step] in Hs; injection Hs as <-; reflexivity).
    destruct (holder s) as [t|] eqn:Eh.
    + apply (holder_some3 c s t HB HC) in Eh. destruct Eh as [i Hi].
      destruct (Nat.eqb_spec (cproc s t) p) as [Ep|Ep].
      * (* the holder's process dies *)
        assert (Hn' : holder s' = None).
        { apply (holder_none3 c s' HB' HC'). intros t' j Hj. rewrite Hcs in Hj.
          destruct (kill_cs_cases p (cproc s) (cs s) t') as [E|[E _]]; rewrite E in Hj; [|discriminate].
          assert (t' = t) by (apply (C_one s HC t' t j i); right; assumption). subst t'.
          rewrite kill_cs_dead in E by (auto; congruence). congruence. }
        assert (Ho' : orphaned s' = true).
        { rewrite Hor. unfold orphaned. rewrite (C_file s HC t i (or_intror Hi)).
          pose proof (HB_held c s HB t i Hi). destruct (hb s i); [contradiction | reflexivity..]. }
        unfold abs3 at 2. rewrite Hn', Ho'. unfold abs3. rewrite (proj2 (holder_some3 c s t HB HC) (ex_intro _ i Hi)).
        cbn. rewrite Nat.eqb_refl. reflexivity.
      * (* somebody else's process dies *)
        assert (Hh : holder s = Some t) by (apply (holder_some3 c s t HB HC); eauto).
        assert (Hh' : holder s' = Some t).
        { apply (holder_some3 c s' t HB' HC'). exists i. rewrite Hcs. rewrite kill_cs_other by assumption. exact Hi. }
        unfold abs3. rewrite Hh, Hh'. reflexivity.
    + assert (Hn' : holder s' = None).
      { apply (holder_none3 c s' HB' HC'). intros t' j Hj. rewrite Hcs in Hj.
        destruct (kill_cs_cases p (cproc s) (cs s) t') as [E|[E _]]; rewrite E in Hj; [|discriminate].
        exact (proj1 (holder_none3 c s HB HC) Eh t' j Hj). }
      unfold abs3. rewrite Hn', Hor, Eh. reflexivity.
Qed.

(** ** Runs *)
Inductive cruns : state -> list label -> list lev3 -> state -> Prop :=
| cruns_nil s : cruns s [] [] s
| cruns_cons s l s1 ls es s2 : remove_ok s l -> step c s l = Some s1 -> cruns s1 ls es s2 ->
    cruns s (l :: ls) (match vis3 s l with Some e => e :: es | None => es end) s2.

Theorem crash_sim_runs s ls es s' : XInv s -> cruns s ls es s' ->
  lk3_run (abs3 s) es = Some (abs3 s') /\ XInv s'.
Proof.
  intros HX R. induction R as [s|s l s1 ls es s2 Hrm Hs R IH].
  - split; [reflexivity | exact HX].
  - pose proof (crash_sim_step s l s1 HX Hrm Hs) as Hsim.
    destruct (IH (XInv_step s l s1 HX Hrm Hs)) as [Hrun HX2]. split; [|exact HX2].
    destruct (vis3 s l) as [e|]; [cbn [lk3_run]; rewrite Hsim; exact Hrun | rewrite <- Hsim; exact Hrun].
Qed.

Lemma XInv_init : XInv init.
Proof. split; [apply HBInv_init | apply CInv_init]. Qed.

(** Refinement with crashes: every run from "no lock file" - threads, heartbeats, time,
    SIGKILL of ANY process at any step, no timing hypothesis - whose stale-removals satisfy
    [remove_ok] projects to a run of the abstract Locker with Crash and Stale. *)
Theorem crash_refines_locker ls es s : cruns init ls es s -> lk3_run KFree es = Some (abs3 s).
Proof. intros R. exact (proj1 (crash_sim_runs init ls es s XInv_init R)). Qed.

(** ... hence mutual exclusion among live threads survives holders' deaths, as long as no
    removal hits a live owner's file *)
Corollary mutex_with_crashes ls es s t1 t2 i1 i2 : cruns init ls es s ->
  cs s t1 = CHolding i1 -> cs s t2 = CHolding i2 -> t1 = t2.
Proof.
  intros R H1 H2. destruct (proj2 (crash_sim_runs init ls es s XInv_init R)) as [_ HC].
  apply (C_one s HC t1 t2 i1 i2); right; assumption.
Qed.

(** and the two-state Locker of the Issuance model is refined with "crash = release" *)
Corollary crash_sim_step_collapsed s l s' : XInv s -> remove_ok s l -> step c s l = Some s' ->
  match vis3 s l with
  | Some (EAcq t) => lk_step (collapse (abs3 s)) (LAcq t) = Some (collapse (abs3 s'))
  | Some (ERel t) | Some (ECrash t) => lk_step (collapse (abs3 s)) (LRel t) = Some (collapse (abs3 s'))
  | Some EStale | None => collapse (abs3 s') = collapse (abs3 s)
  end.
Proof.
  intros HX Hrm Hs. pose proof (crash_sim_step s l s' HX Hrm Hs) as H.
  destruct (vis3 s l) as [e|]; [|rewrite H; reflexivity].
  pose proof (lk3_collapse _ _ _ H) as H2. destruct e; exact H2.
Qed.
(** an executable form of [cruns] (for examples) *)
Definition is_ownerb (x : cstate) : bool := match x with CCreated _ _ | CHolding _ => true | _ => false end.
Definition remove_okb (s : state) (l : label) : bool :=
  match l with LRemove _ => forallb (fun t => negb (is_ownerb (cs s t))) (tids s) | _ => true end.
Fixpoint crun_exec (s : state) (ls : list label) : option (list lev3 * state) :=
  match ls with
  | [] => Some ([], s)
  | l :: r =>
      if remove_okb s l then
        match step c s l with
        | Some s1 => match crun_exec s1 r with
                     | Some (es, s2) => Some (match vis3 s l with Some e => e :: es | None => es end, s2)
                     | None => None
                     end
        | None => None
        end
      else None
  end.

Lemma remove_okb_sound s l : HBInv c s -> remove_okb s l = true -> remove_ok s l.
Proof.
  intros HB Hb w -> t i Ho. cbn [remove_okb] in Hb. rewrite forallb_forall in Hb.
  assert (Hin : In t (tids s)) by (apply (HB_tids c s HB); destruct Ho as [[ec Ho]|Ho]; congruence).
  specialize (Hb t Hin). destruct Ho as [[ec Ho]|Ho]; rewrite Ho in Hb; discriminate.
Qed.

Lemma crun_exec_sound ls : forall s es s', HBInv c s -> crun_exec s ls = Some (es, s') -> cruns s ls es s'.
Proof.
  induction ls as [|l r IH]; intros s es s' HB; cbn [crun_exec].
  - intros E; injection E as <- <-. constructor.
  - destruct (remove_okb s l) eqn:Eo; [|discriminate]. destruct (step c s l) as [s1|] eqn:Es; [|discriminate].
    destruct (crun_exec s1 r) as [[es1 s2]|] eqn:Er; [|discriminate]. intros E; injection E as <- <-.
    econstructor; [exact (remove_okb_sound s l HB Eo) | exact Es |].
    apply IH; [exact (HBInv_step c Hchk Hcfg s l s1 HB Es) | exact Er].
Qed.
End Crash.

(** * Without the side condition the refinement is false *)

(** C08's witness (code with all fixes [cfg_resets], every heartbeat on time): the holder is
    killed; waiters 1 and 2 both judge the file stale; 1 removes it, creates its own and
    returns from Lock; 2's os.Remove then violates [remove_ok] (thread 1 owns the file in
    place), and when 2's Lock call returns the abstract state is [KHeld 1]: the step is an
    Acq that the abstract Locker does not have. *)
Definition race_before_remove : list label := firstn 14 stale_race_run.
Definition race_before_grant : list label := firstn 17 stale_race_run.

Theorem crash_refinement_refuted_stale_race :
  (exists s, run cfg_resets init race_before_remove = Some s /\ ~ remove_ok s (LRemove 2)) /\
  (exists s s', run cfg_resets init race_before_grant = Some s /\
     step cfg_resets s (LWriteMeta 2) = Some s' /\
     abs3 s = KHeld 1 /\ vis3 s (LWriteMeta 2) = Some (EAcq 2) /\
     lk3_step (abs3 s) (EAcq 2) = None /\
     lk_step (collapse (abs3 s)) (LAcq 2) = None /\
     (exists i1 i2, cs s' 1 = CHolding i1 /\ cs s' 2 = CHolding i2 /\ i1 <> i2)).
Proof.
  split.
  - destruct (run cfg_resets init race_before_remove) as [s|] eqn:E; [|vm_compute in E; discriminate].
    exists s. split; [reflexivity|]. intros H. apply (H 2 eq_refl 1 1). right.
    revert E. vm_compute. intros E; injection E as <-. reflexivity.
  - destruct (run cfg_resets init race_before_grant) as [s|] eqn:E; [|vm_compute in E; discriminate].
    destruct (step cfg_resets s (LWriteMeta 2)) as [s'|] eqn:E2.
    2:{ revert E E2. vm_compute. intros E; injection E as <-. discriminate. }
    exists s, s'. split; [reflexivity|]. split; [exact E2|].
    revert E E2. vm_compute. intros E; injection E as <-. intros E2; injection E2 as <-.
    repeat split; try reflexivity. exists 1, 2. repeat split; discriminate.
Qed.

(** * The hypotheses are met by a run with a crash and a recovery *)
Definition recovery_run : list label :=
  [LStart 0 0; LTryCreate 0; LWriteMeta 0; LKill 0; LStart 1 1; LTick (10 * sec + 1);
   LTryCreate 1; LOpenRead 1; LRemove 1; LTryCreate 1; LWriteMeta 1].

Lemma good_cfg_resets : good_cfg cfg_resets.
Proof. unfold good_cfg, cfg_resets, sec. cbn. lia. Qed.

Example crash_run_nontrivial :
  exists s, cruns cfg_resets init recovery_run [EAcq 0; ECrash 0; EStale; EAcq 1] s /\
            abs3 s = KHeld 1 /\ cs s 0 = CDead /\ lk3_run KFree [EAcq 0; ECrash 0; EStale; EAcq 1] = Some (KHeld 1).
Proof.
  destruct (crun_exec cfg_resets init recovery_run) as [[es s]|] eqn:E; [|vm_compute in E; discriminate].
  assert (Hes : es = [EAcq 0; ECrash 0; EStale; EAcq 1] /\ abs3 s = KHeld 1 /\ cs s 0 = CDead).
  { revert E. vm_compute. intros E; injection E as <- <-. repeat split. }
  destruct Hes as (-> & H1 & H2). exists s. split; [|auto].
  apply (crun_exec_sound cfg_resets eq_refl good_cfg_resets); [apply HBInv_init | exact E].
Qed.
