(** System: C04 (renewal decision) underneath C01 (issuance).

    C01's model ([Issuance.Model]) has the bit [c_due] in every certificate ("whether an issued
    certificate is due is the issuer's" -- [c_issdue] in the request configuration) and its
    no-reissue theorems speak of "a certificate that is not due".  The decision points are
    obtainCert's and renewCert's re-checks under the lock and manageOne's NeedsRenewal, i.e.
    C04's [managed_decide] / [decide_leaf], both [decide] for a parsable bundle
    ([RenewMaintain.decide_paths_agree]).  Instantiating the bit by [decide .. = Renew]:
    - a stored certificate for which C04 says nothing is due (hypotheses of
      C04_wait_when_nothing_due) is "not due" in C01's sense, so no request touching its name
      ever enters the issuer (C01_no_issue_on_fresh_storage_partial);
    - an issuer whose certificates satisfy the explicit freshness condition [fresh_inputs] at the
      instant of the run has [c_issdue = false], the hypothesis of C01_no_reissue_after_save_partial.
    The C01 hypotheses (canonical spellings, truthful existence checks) stay as they are. *)
From Coq Require Import ZArith List Bool Lia Arith.
From CM Require Import Gen.Consts Renewal.Model Renewal.Proofs Renewal.F64 Renewal.F64Proofs System.RenewMaintain.
From CM Require Import Issuance.Model Issuance.Proofs Issuance.Invariants Issuance.NoReissueTL Issuance.NoReissue.
Import ListNotations.
Open Scope nat_scope.

Section RenewIssuance.
  Variable scale : Z -> ratio -> Z.
  Hypothesis Hscale : scale_spec scale.

  Theorem nothing_due_not_due_C01 (ce : cert) i rnd now :
    c_due ce = due_b scale i rnd now -> nothing_due i rnd now -> c_due ce = false.
  Proof. intros E H. rewrite E. apply due_b_false, (nothing_due_wait scale Hscale), H. Qed.

  Theorem due_reason_due_C01 (ce : cert) i rnd now :
    c_due ce = due_b scale i rnd now -> due_reason i rnd now -> due_of (Some ce) = true.
  Proof. intros E H. cbn. rewrite E. apply due_b_true, (due_reason_renew scale Hscale), H. Qed.

  (** storage holds a complete bundle whose certificate C04 does not find due: no request that
      touches the name ever enters the issuer, on any schedule, under any faults other than on
      Exists calls *)
  Theorem no_issue_on_storage_not_due_by_C04 : forall cs st n L ce es s i rnd now,
    canon0 n L cs ->
    st (SK n KKey) <> None -> st (SK n KCrt) = Some (VCrt ce) -> st (SK n KMeta) <> None ->
    c_due ce = due_b scale i rnd now -> nothing_due i rnd now ->
    runs (truthful n) (init_state cs st) es s ->
    sto (sh s) (SK n KCrt) = Some (VCrt ce) /\
    Forall (fun e => forall j, e_op e = OIssS j -> forall c, nth_error cs (e_tid e) = Some c -> ~ touches n c) es.
  Proof.
    intros cs st n L ce es s i rnd now Hc Hk Hcrt Hm Hdue Hnd Hruns.
    eapply no_issue_on_fresh_storage; eauto. eapply nothing_due_not_due_C01; eauto.
  Qed.

  (** after a completed save by a request whose issuer hands out certificates that are fresh in
      C04's sense, no request touching the name enters the issuer again *)
  Theorem no_reissue_after_save_of_fresh_by_C04 : forall cs st n L s l s1 t th es s2 i rnd now,
    canon0 n L cs -> reachable cs st s ->
    step s l = Some (s1, Ev t (OStore (SK n KMeta)) 0) ->
    thread_at s t th -> cert_prog (cfg th) ->
    c_issdue (cfg th) = due_b scale i rnd now -> fresh_inputs i now -> admissible i rnd ->
    runs (truthful n) s1 es s2 ->
    exists ce, nc th = Some ce /\ c_due ce = false /\
      sto (sh s2) (SK n KCrt) = Some (VCrt ce) /\ sto (sh s2) (SK n KKey) <> None /\ sto (sh s2) (SK n KMeta) <> None /\
      Forall (fun e => forall j, e_op e = OIssS j -> forall c, nth_error cs (e_tid e) = Some c -> ~ touches n c) es.
  Proof.
    intros cs st n L s l s1 t th es s2 i rnd now Hc Hr Hst Hth Hp Hiss Hf Ha Hruns.
    eapply no_reissue_after_save; eauto. rewrite Hiss.
    apply due_b_false, (fresh_not_due scale Hscale); assumption.
  Qed.
End RenewIssuance.

Definition no_issue_on_storage_not_due_by_C04_f64 := no_issue_on_storage_not_due_by_C04 scale_f64 scale_f64_ok.
Definition no_reissue_after_save_of_fresh_by_C04_f64 := no_reissue_after_save_of_fresh_by_C04 scale_f64 scale_f64_ok.

(** non-vacuity of the C04-side hypotheses: a 90-day certificate on day 11 is not due; one issued
    at the instant of the run is fresh (the C01-side hypotheses are exercised in Props/C01.v) *)
Example issuance_hypotheses_satisfiable :
  let ce := {| c_id := 7; c_kid := 1; c_due := due_b scale_f64 (i90 (50 * day)) 0 t61 |} in
  c_due ce = false /\ nothing_due (i90 (50 * day)) 0 t61 /\
  fresh_inputs (i90 t61) t61 /\ admissible (i90 t61) 0 /\
  due_b scale_f64 (i90 t61) 0 t61 = false /\ due_b scale_f64 (i90 0) 0 t61 = true.
Proof.
  cbv zeta. split; [vm_compute; reflexivity|]. split; [exact x_nothing_due_1|].
  destruct (x_fresh 5 ltac:(lia)) as [Hf Ha]. split; [exact Hf|]. split; [exact Ha|].
  split; vm_compute; reflexivity.
Qed.
