(** System: C12 (certificate cache) ==> the precondition of C03 (handshake lookup).

    C03's theorems (Lookup.Proofs, Props/C03.v) are stated for a cache state satisfying C12's
    invariant [Inv names_of cap s].  C12 (Cache.Proofs, Cache.Sched) proves [Inv] of every state
    reached by a sequential history of well-formed operations and of every state reached by any
    schedule of any pool of well-formed thread programs.  Here the two are composed: every C03
    guarantee holds of the cache state after every schedule (and at every instant of it = after
    every prefix), and after every sequential history (and at every point of it).

    Second part: the handshake's lookup is itself NOT one critical section -- every selectCert
    is one getAllMatchingCerts under its own RLock (handshake.go L121/130/137/148/163, cache.go
    L335) -- so between the reads for "a.b.c", "*.b.c", ... other threads may run.  [na_from_cache]
    is getCertificateFromCache with one cache state per read; with all reads on one state it is
    C03's [from_cache]; it is the result of the thread program [prog_from_cache]; its answer is
    sound with respect to the state of the read that produced it. *)
From CM Require Import Lib.Str Cache.Model Cache.AMapFacts Cache.Proofs Cache.Sched
  Lookup.Model Lookup.Proofs.
From Coq Require Import Arith Lia.
Open Scope nat_scope.

(** ---- vocabulary ----
    C12's schedules run over [dstate] = the two maps together with the capacity configured at
    that moment (Cache.SetOptions is one of the steps a thread can take). *)
(** the cache (with its current capacity) after the scheduler has run [sched] on the threads
    [pool], from the empty cache with initial capacity [cap0] *)
Definition dstate_after (cap0 : nat) (pool : list prog) (sched : list nat) : dstate :=
  fst (run_sched sched (dinit cap0, pool)).
(** ... and after the first [k] scheduling decisions only *)
Definition dstate_at (cap0 : nat) (pool : list prog) (sched : list nat) (k : nat) : dstate :=
  dstate_after cap0 pool (firstn k sched).
Definition state_after cap0 pool sched : state := d_st (dstate_after cap0 pool sched).
Definition state_at cap0 pool sched k : state := d_st (dstate_at cap0 pool sched k).
Definition wf_pool (names_of : hash -> list name) (pool : list prog) : Prop :=
  Forall (wf_prog names_of) pool.

(** ---- the conclusions of C03's theorems about one cache state, as one record ---- *)
Record HandshakeGuarantees (names_of : hash -> list name) (cap : nat) (s : state) : Prop := {
  (* C03_lookup_sound *)
  hg_sound : forall lower is_space sup valid cfg sni ip e c,
    lookup lower is_space sup valid s cap cfg sni ip e = ROk c ->
    let n := normalize lower is_space sni in
    (alookup (c_hash c) (cache s) = Some c /\
     ((n <> [] /\ exists san, In san (c_names c) /\ covers san n) \/
      (n = [] /\ In ip (c_names c)) \/
      (n = [] /\ default_name cfg <> [] /\ In (normalize lower is_space (default_name cfg)) (c_names c)) \/
      (fallback_name cfg <> [] /\ In (normalize lower is_space (fallback_name cfg)) (c_names c)))) \/
    (almost_full cap (length (cache s)) = true /\ loaded e = Some c /\
     name_err e = false /\ qualifies e = true);
  (* C03_answer_complete *)
  hg_complete : forall (complete : cert -> Prop) lower is_space sup valid cfg sni ip e c,
    (forall h x, alookup h (cache s) = Some x -> complete x) ->
    (forall x, loaded e = Some x -> complete x) ->
    lookup lower is_space sup valid s cap cfg sni ip e = ROk c -> complete c;
  (* C03_exact_preferred *)
  hg_exact : forall lower is_space sup valid cfg sni ip e,
    let n := normalize lower is_space sni in
    n <> [] -> idx s n <> [] ->
    exists c, lookup lower is_space sup valid s cap cfg sni ip e = ROk c /\ In n (c_names c) /\
              In c (get_all_matching_certs s n);
  (* C03_first_listed_wins *)
  hg_first_listed : forall lower is_space sup valid cfg sni ip e (pre : list name) (m : name) (post : list name),
    let n := normalize lower is_space sni in
    n <> [] -> n :: wildcard_candidates n = pre ++ m :: post ->
    Forall (fun m' => idx s m' = []) pre -> idx s m <> [] ->
    exists c, lookup lower is_space sup valid s cap cfg sni ip e = ROk c /\
              In c (get_all_matching_certs s m) /\ In m (c_names c) /\
              ((exists c', In c' (get_all_matching_certs s m) /\ good sup valid c') -> good sup valid c);
  (* C03_ip_preferred_without_sni *)
  hg_ip : forall lower is_space sup valid cfg sni ip e,
    normalize lower is_space sni = [] -> idx s ip <> [] ->
    exists c, lookup lower is_space sup valid s cap cfg sni ip e = ROk c /\ In ip (c_names c) /\
              In c (get_all_matching_certs s ip) /\
              ((exists c', In c' (get_all_matching_certs s ip) /\ good sup valid c') -> good sup valid c);
  (* C03_unexpired_supported_preferred *)
  hg_unexpired : forall lower is_space sup valid cfg sni ip c b v,
    from_cache lower is_space sup valid s cfg sni ip = Some (c, b, v) ->
    In c (get_all_matching_certs s v) /\
    ((exists c', In c' (get_all_matching_certs s v) /\ good sup valid c') -> good sup valid c);
  (* C03_error_only_if_unlisted *)
  hg_error : forall lower is_space sup valid cfg sni ip e,
    lookup lower is_space sup valid s cap cfg sni ip e = RErr ->
    let n := normalize lower is_space sni in
    if is_nil n then idx s ip = []
    else Forall (fun m' => idx s m' = []) (n :: wildcard_candidates n);
  (* what C12 itself says of this state and C03 uses: getAllMatchingCerts is exact *)
  hg_matching_exact : forall n c,
    In c (get_all_matching_certs s n) <-> (alookup (c_hash c) (cache s) = Some c /\ In n (c_names c))
}.
(** the guarantees for a cache with its run-time capacity *)
Definition DGuarantees (names_of : hash -> list name) (d : dstate) : Prop :=
  HandshakeGuarantees names_of (d_cap d) (d_st d).

(** C12's invariant is all that C03 needs *)
Theorem guarantees_of_inv names_of cap s : Inv names_of cap s -> HandshakeGuarantees names_of cap s.
Proof.
  intros HI. constructor.
  - intros. eapply lookup_sound; eauto.
  - intros complete lower is_space sup valid cfg sni ip e c Hc Hl H.
    destruct (lookup_sound lower is_space sup valid names_of cap s cfg sni ip e c HI H) as [[Hx _]|(_ & Hx & _)]; eauto.
  - intros. eapply exact_preferred; eauto.
  - intros. eapply first_listed_wins; eauto.
  - intros. eapply ip_preferred_without_sni; eauto.
  - intros. eapply unexpired_supported_preferred; eauto.
  - intros. eapply error_only_if_unlisted; eauto.
  - intros n c. apply (lookup_exact names_of cap s HI).
Qed.

(** ---- C12 supplies the invariant ---- *)
Lemma dstate_after_inv names_of cap0 pool sched :
  wf_pool names_of pool -> DInv names_of (dstate_after cap0 pool sched).
Proof. intros Hwf. unfold dstate_after. apply sched_inv; [apply dinv_init | exact Hwf]. Qed.
Lemma state_after_inv names_of cap0 pool sched :
  wf_pool names_of pool ->
  Inv names_of (d_cap (dstate_after cap0 pool sched)) (state_after cap0 pool sched).
Proof. apply dstate_after_inv. Qed.

(** every schedule of every pool (threads may change the capacity on the way: the guarantees
    hold with the capacity configured at that moment) *)
Theorem guarantees_every_schedule names_of cap0 pool sched :
  wf_pool names_of pool -> DGuarantees names_of (dstate_after cap0 pool sched).
Proof. intros Hwf. apply guarantees_of_inv, dstate_after_inv, Hwf. Qed.

(** ... at every instant of it *)
Theorem guarantees_every_instant names_of cap0 pool sched k :
  wf_pool names_of pool -> DGuarantees names_of (dstate_at cap0 pool sched k).
Proof. intros Hwf. apply guarantees_every_schedule, Hwf. Qed.

(** the instants of a schedule are the prefixes: running on from [dstate_at .. k] with the
    threads as they are then gives [dstate_after] *)
Lemma run_sched_app a b cfg : run_sched (a ++ b) cfg = run_sched b (run_sched a cfg).
Proof. unfold run_sched. apply fold_left_app. Qed.
Lemma dstate_at_is_intermediate cap0 pool sched k :
  dstate_after cap0 pool sched =
  fst (run_sched (skipn k sched) (run_sched (firstn k sched) (dinit cap0, pool))) /\
  dstate_at cap0 pool sched k = fst (run_sched (firstn k sched) (dinit cap0, pool)).
Proof.
  split; [|reflexivity]. unfold dstate_after. rewrite <- run_sched_app, firstn_skipn. reflexivity.
Qed.

(** every sequential history with a fixed capacity, and every point of it *)
Theorem guarantees_every_history names_of cap ops :
  Forall (wf_op names_of) ops -> HandshakeGuarantees names_of cap (run cap init ops).
Proof. intros Hwf. apply guarantees_of_inv, run_inv; [apply inv_init | exact Hwf]. Qed.
Theorem guarantees_every_point_of_history names_of cap ops :
  Forall (wf_op names_of) ops -> Forall (HandshakeGuarantees names_of cap) (trace cap init ops).
Proof.
  intros Hwf. eapply Forall_impl; [|apply (trace_inv names_of cap ops init (inv_init _ _) Hwf)].
  intros s. apply guarantees_of_inv.
Qed.
(** every sequential history that may also change the capacity (SetOptions), query, scan, stop *)
Theorem guarantees_every_dhistory names_of cap0 ops :
  Forall (wf_dop names_of) ops -> DGuarantees names_of (drun (dinit cap0) ops).
Proof. intros Hwf. apply guarantees_of_inv, (drun_inv names_of); [apply dinv_init | exact Hwf]. Qed.

(** a schedule from any state satisfying the invariant (e.g. the state an earlier schedule or
    history left behind) *)
Theorem guarantees_schedule_from names_of d pool sched :
  DInv names_of d -> wf_pool names_of pool ->
  DGuarantees names_of (fst (run_sched sched (d, pool))).
Proof. intros HI Hwf. apply guarantees_of_inv, sched_inv; assumption. Qed.

(** ================= the lookup is not atomic: one cache state per read ================= *)
Section NonAtomic.
  Variable lower : N -> N.
  Variable is_space : N -> bool.
  Variable sup valid : hash -> bool.
  Notation normalize := (normalize lower is_space).
  Notation select_cert := (select_cert sup valid).
  Notation good := (good sup valid).

  (** [st j] = the cache at the instant of the thread's j-th read (j = 0, 1, ...) *)
  Fixpoint na_first_select (st : nat -> state) (j : nat) (cands : list name) : option (name * cert) :=
    match cands with
    | [] => None
    | m :: r => match select_cert (st j) m with
                | Some c => Some (m, c)
                | None => na_first_select st (S j) r
                end
    end.
  Definition na_try_fallback (st : nat -> state) (j : nat) (cfg : config) : option (cert * bool * name) :=
    if is_nil (fallback_name cfg) then None
    else let f := normalize (fallback_name cfg) in
         match select_cert (st j) f with Some c => Some (c, false, f) | None => None end.
  (** getCertificateFromCache, reading the cache afresh for every selectCert *)
  Definition na_from_cache (st : nat -> state) (cfg : config) (sni localip : str) : option (cert * bool * name) :=
    let n := normalize sni in
    if is_nil n then
      match select_cert (st 0) localip with
      | Some c => Some (c, true, localip)
      | None =>
          if is_nil (default_name cfg) then na_try_fallback st 1 cfg
          else let d := normalize (default_name cfg) in
               match select_cert (st 1) d with
               | Some c => Some (c, false, d)
               | None => na_try_fallback st 2 cfg
               end
      end
    else
      match na_first_select st 0 (n :: wildcard_candidates n) with
      | Some (m, c) => Some (c, true, m)
      | None => na_try_fallback st (S (length (wildcard_candidates n))) cfg
      end.

  (** with every read on the same state it is C03's getCertificateFromCache *)
  Lemma na_first_select_const s cands : forall j,
    na_first_select (fun _ => s) j cands = first_select sup valid s cands.
  Proof.
    induction cands as [|m r IH]; intros j; cbn [na_first_select first_select]; [reflexivity|].
    destruct (select_cert s m); [reflexivity | apply IH].
  Qed.
  Theorem na_from_cache_atomic s cfg sni ip :
    na_from_cache (fun _ => s) cfg sni ip = from_cache lower is_space sup valid s cfg sni ip.
  Proof.
    unfold na_from_cache, from_cache, na_try_fallback, try_fallback.
    rewrite na_first_select_const.
    destruct (is_nil (normalize sni)); [|reflexivity].
    destruct (select_cert s ip); [reflexivity|].
    destruct (is_nil (default_name cfg)); [reflexivity|].
    destruct (select_cert s (normalize (default_name cfg))); reflexivity.
  Qed.

  (** soundness of the non-atomic lookup: if the cache satisfied the invariant at each read
      (C12: it does, at every instant of every schedule) then the answer was really in the
      cache, and listed under the name [v] it was found under, AT THE INSTANT OF THE READ THAT
      FOUND IT; [v] is a name covering the SNI, resp. the local IP / default / fallback name;
      among the certificates listed under [v] at that instant a supported unexpired one is
      preferred.  (It may have been removed or evicted since: the handshake serves it anyway.) *)
  Section Sound.
    Variable names_of : hash -> list name.
    Variable cap : nat.
    Variable st : nat -> state.
    Hypothesis st_inv : forall j, Inv names_of cap (st j).

    Definition found_at (j : nat) (c : cert) (v : name) : Prop :=
      alookup (c_hash c) (cache (st j)) = Some c /\ In v (c_names c) /\
      In c (get_all_matching_certs (st j) v) /\
      ((exists c', In c' (get_all_matching_certs (st j) v) /\ good c') -> good c).

    Lemma select_found j m c : select_cert (st j) m = Some c -> found_at j c m.
    Proof. intros H. exact (select_some sup valid names_of cap (st j) m c (st_inv j) H). Qed.

    Lemma na_first_select_sound cands : forall j m c,
      na_first_select st j cands = Some (m, c) ->
      exists i, i < length cands /\ nth_error cands i = Some m /\ found_at (j + i) c m /\
                forall i', i' < i -> forall m', nth_error cands i' = Some m' -> idx (st (j + i')) m' = [].
    Proof.
      induction cands as [|a r IH]; intros j m c; cbn [na_first_select]; [discriminate|].
      destruct (select_cert (st j) a) as [c0|] eqn:E.
      - intros H; injection H as <- <-. exists 0. rewrite Nat.add_0_r. cbn [length nth_error].
        split; [lia|]. split; [reflexivity|]. split; [apply select_found; exact E|]. intros i' Hi'; lia.
      - intros H. destruct (IH _ _ _ H) as (i & Hi & Hn & Hf & Hpre). exists (S i). cbn [length nth_error].
        split; [lia|]. split; [exact Hn|]. split; [replace (j + S i) with (S j + i) by lia; exact Hf|].
        intros [|i'] Hi' m' Hm'; cbn [nth_error] in Hm'.
        + injection Hm' as <-. rewrite Nat.add_0_r. apply (select_none sup valid); exact E.
        + replace (j + S i') with (S j + i') by lia. apply (Hpre i'); [lia | exact Hm'].
    Qed.

    Lemma na_try_fallback_sound j cfg c b v :
      na_try_fallback st j cfg = Some (c, b, v) ->
      b = false /\ v = normalize (fallback_name cfg) /\ fallback_name cfg <> [] /\ found_at j c v.
    Proof.
      unfold na_try_fallback. destruct (is_nil (fallback_name cfg)) eqn:E; [discriminate|].
      apply (is_nil_false (fallback_name cfg)) in E.
      destruct (select_cert (st j) (normalize (fallback_name cfg))) as [c0|] eqn:Es; [|discriminate].
      intros H; injection H as <- <- <-.
      split; [reflexivity|]. split; [reflexivity|]. split; [exact E | apply (select_found j _ _ Es)].
    Qed.

    Theorem na_lookup_sound cfg sni ip c b v :
      na_from_cache st cfg sni ip = Some (c, b, v) ->
      let n := normalize sni in
      exists j, found_at j c v /\
        ((b = true /\ n <> [] /\ covers v n) \/
         (b = true /\ n = [] /\ v = ip) \/
         (b = false /\ n = [] /\ default_name cfg <> [] /\ v = normalize (default_name cfg)) \/
         (b = false /\ fallback_name cfg <> [] /\ v = normalize (fallback_name cfg))).
    Proof.
      intros H n. unfold na_from_cache in H. fold n in H.
      destruct (is_nil n) eqn:En.
      - apply is_nil_true in En.
        destruct (select_cert (st 0) ip) as [c0|] eqn:Eip.
        + injection H as <- <- <-. exists 0. split; [apply select_found; exact Eip|]. right; left; auto.
        + destruct (is_nil (default_name cfg)) eqn:Ed.
          * apply na_try_fallback_sound in H. destruct H as (-> & -> & Hf & Hfound).
            exists 1. split; [exact Hfound|]. right; right; right; auto.
          * apply (is_nil_false (default_name cfg)) in Ed.
            destruct (select_cert (st 1) (normalize (default_name cfg))) as [c0|] eqn:Esd.
            -- injection H as <- <- <-. exists 1. split; [apply select_found; exact Esd|].
               right; right; left; auto.
            -- apply na_try_fallback_sound in H. destruct H as (-> & -> & Hf & Hfound).
               exists 2. split; [exact Hfound|]. right; right; right; auto.
      - apply (is_nil_false n) in En.
        destruct (na_first_select st 0 (n :: wildcard_candidates n)) as [[m c0]|] eqn:Ef.
        + injection H as <- <- <-.
          destruct (na_first_select_sound _ _ _ _ Ef) as (i & Hi & Hn & Hfound & _).
          exists (0 + i). split; [exact Hfound|]. left. split; [reflexivity|]. split; [exact En|].
          apply candidates_cover. eapply nth_error_In; exact Hn.
        + apply na_try_fallback_sound in H. destruct H as (-> & -> & Hf & Hfound).
          eexists. split; [exact Hfound|]. right; right; right; auto.
    Qed.

    (** exact_preferred survives the interleaving in this form: if the exact name is listed at
        the instant of the FIRST read, the answer is a certificate listed under it then *)
    Theorem na_exact_preferred cfg sni ip :
      normalize sni <> [] -> idx (st 0) (normalize sni) <> [] ->
      exists c, na_from_cache st cfg sni ip = Some (c, true, normalize sni) /\ found_at 0 c (normalize sni).
    Proof.
      intros Hn Hm. unfold na_from_cache. apply (is_nil_false (normalize sni)) in Hn. rewrite Hn.
      cbn [na_first_select].
      destruct (select_cert (st 0) (normalize sni)) as [c|] eqn:E.
      - exists c. split; [reflexivity | apply select_found; exact E].
      - apply (select_none sup valid) in E. congruence.
    Qed.
  End Sound.

  (** ---- the same as a thread program of C12's scheduler: one [PReadName] per selectCert;
      the answer is handed to the continuation [K] (the rest of the handshake) ---- *)
  Definition lk_answer := option (cert * bool * name).
  Fixpoint prog_first_select (cands : list name) (K : option (name * cert) -> prog) : prog :=
    match cands with
    | [] => K None
    | m :: r => PReadName m (fun l => match default_select sup valid l with
                                      | Some c => K (Some (m, c))
                                      | None => prog_first_select r K
                                      end)
    end.
  Definition prog_try_fallback (cfg : config) (K : lk_answer -> prog) : prog :=
    if is_nil (fallback_name cfg) then K None
    else let f := normalize (fallback_name cfg) in
         PReadName f (fun l => match default_select sup valid l with
                               | Some c => K (Some (c, false, f)) | None => K None end).
  Definition prog_from_cache (cfg : config) (sni localip : str) (K : lk_answer -> prog) : prog :=
    let n := normalize sni in
    if is_nil n then
      PReadName localip (fun l =>
        match default_select sup valid l with
        | Some c => K (Some (c, true, localip))
        | None =>
            if is_nil (default_name cfg) then prog_try_fallback cfg K
            else let d := normalize (default_name cfg) in
                 PReadName d (fun l => match default_select sup valid l with
                                       | Some c => K (Some (c, false, d))
                                       | None => prog_try_fallback cfg K
                                       end)
        end)
    else prog_first_select (n :: wildcard_candidates n)
           (fun r => match r with
                     | Some (m, c) => K (Some (c, true, m))
                     | None => prog_try_fallback cfg K
                     end).

  (** it is a well-formed program whatever it answers, so C12's schedule theorems cover pools
      containing handshakes *)
  Lemma prog_first_select_wf names_of cands K :
    (forall r, wf_prog names_of (K r)) -> wf_prog names_of (prog_first_select cands K).
  Proof.
    intros HK. induction cands as [|m r IH]; cbn [prog_first_select]; [apply HK|].
    constructor. intros l _. destruct (default_select sup valid l); [apply HK | exact IH].
  Qed.
  Lemma prog_try_fallback_wf names_of cfg K :
    (forall r, wf_prog names_of (K r)) -> wf_prog names_of (prog_try_fallback cfg K).
  Proof.
    intros HK. unfold prog_try_fallback. destruct (is_nil (fallback_name cfg)); [apply HK|].
    constructor. intros l _. destruct (default_select sup valid l); apply HK.
  Qed.
  Theorem prog_from_cache_wf names_of cfg sni ip K :
    (forall r, wf_prog names_of (K r)) -> wf_prog names_of (prog_from_cache cfg sni ip K).
  Proof.
    intros HK. unfold prog_from_cache. destruct (is_nil (normalize sni)).
    - constructor. intros l _. destruct (default_select sup valid l); [apply HK|].
      destruct (is_nil (default_name cfg)); [apply prog_try_fallback_wf, HK|].
      constructor. intros l' _. destruct (default_select sup valid l'); [apply HK | apply prog_try_fallback_wf, HK].
    - apply prog_first_select_wf. intros [[m c]|]; [apply HK | apply prog_try_fallback_wf, HK].
  Qed.

  (** the thread's own view: its j-th step runs on the cache (and capacity) [dst j] the scheduler
      shows it then (whatever the other threads did in between) *)
  Fixpoint feed (dst : nat -> dstate) (j fuel : nat) (p : prog) : prog :=
    match fuel with
    | 0 => p
    | S f => feed dst (S j) f (snd (thread_step (dst j) p))
    end.
  Lemma feed_add dst a : forall j b p, feed dst j (a + b) p = feed dst (j + a) b (feed dst j a p).
  Proof.
    induction a as [|a IH]; intros j b p; cbn [feed Nat.add]; [rewrite Nat.add_0_r; reflexivity|].
    rewrite IH. replace (S j + a) with (j + S a) by lia. reflexivity.
  Qed.
  Notation st_of dst := (fun j => d_st (dst j)).

  Lemma feed_first_select dst cands K : forall j,
    match na_first_select (st_of dst) j cands with
    | Some r => exists fuel, fuel <= length cands /\ feed dst j fuel (prog_first_select cands K) = K (Some r)
    | None => feed dst j (length cands) (prog_first_select cands K) = K None
    end.
  Proof.
    induction cands as [|m r IH]; intros j; cbn [na_first_select prog_first_select length]; [reflexivity|].
    unfold Model.select_cert. destruct (default_select sup valid (get_all_matching_certs (d_st (dst j)) m)) as [c|] eqn:E.
    - exists 1. split; [lia|]. cbn [feed thread_step snd]. rewrite E. reflexivity.
    - specialize (IH (S j)).
      destruct (na_first_select (st_of dst) (S j) r) as [x|].
      + destruct IH as (fuel & Hle & Hf). exists (S fuel). split; [lia|].
        cbn [feed thread_step snd]. rewrite E. exact Hf.
      + cbn [feed thread_step snd]. rewrite E. exact IH.
  Qed.
  Lemma feed_try_fallback dst cfg K j :
    exists fuel, feed dst j fuel (prog_try_fallback cfg K) = K (na_try_fallback (st_of dst) j cfg).
  Proof.
    unfold prog_try_fallback, na_try_fallback. destruct (is_nil (fallback_name cfg)).
    - exists 0. reflexivity.
    - exists 1. cbn [feed thread_step snd]. unfold Model.select_cert.
      destruct (default_select sup valid _); reflexivity.
  Qed.

  (** the program hands [na_from_cache] (of the states it was shown) to its continuation: the
      function above IS what the thread computes under arbitrary interference *)
  Theorem prog_from_cache_computes dst cfg sni ip K :
    exists fuel, feed dst 0 fuel (prog_from_cache cfg sni ip K) = K (na_from_cache (st_of dst) cfg sni ip).
  Proof.
    unfold prog_from_cache, na_from_cache. destruct (is_nil (normalize sni)).
    - unfold Model.select_cert.
      destruct (default_select sup valid (get_all_matching_certs (d_st (dst 0)) ip)) as [c|] eqn:E.
      + exists 1. cbn [feed thread_step snd]. rewrite E. reflexivity.
      + destruct (is_nil (default_name cfg)).
        * destruct (feed_try_fallback dst cfg K 1) as [fuel Hf]. exists (S fuel).
          cbn [feed thread_step snd]. rewrite E. exact Hf.
        * destruct (default_select sup valid (get_all_matching_certs (d_st (dst 1)) (normalize (default_name cfg)))) as [c|] eqn:Ed.
          -- exists 2. cbn [feed thread_step snd]. rewrite E. cbn [thread_step snd]. rewrite Ed. reflexivity.
          -- destruct (feed_try_fallback dst cfg K 2) as [fuel Hf]. exists (S (S fuel)).
             cbn [feed thread_step snd]. rewrite E. cbn [thread_step snd]. rewrite Ed. exact Hf.
    - set (cands := normalize sni :: wildcard_candidates (normalize sni)).
      set (K' := fun r : option (name * cert) => match r with
                   | Some (m, c) => K (Some (c, true, m)) | None => prog_try_fallback cfg K end).
      pose proof (feed_first_select dst cands K' 0) as H.
      destruct (na_first_select (st_of dst) 0 cands) as [[m c]|].
      + destruct H as (fuel & _ & Hf). exists fuel. exact Hf.
      + destruct (feed_try_fallback dst cfg K (length cands)) as [fuel Hf].
        exists (length cands + fuel). rewrite feed_add.
        exact (eq_trans (f_equal (feed dst (length cands) fuel) H) Hf).
  Qed.
End NonAtomic.

(** in a schedule the cache a thread's step runs on is the cache at that instant of the
    schedule (by definition of [sched_step]); C12 gives [Inv] there, which is the hypothesis
    [st_inv] of [na_lookup_sound] -- the capacity may differ from read to read, which the
    soundness of the answer does not depend on *)
Lemma sched_step_runs_on_current d pool i p :
  nth_error pool i = Some p ->
  sched_step (d, pool) i = (fst (thread_step d p), set_nth i (snd (thread_step d p)) pool).
Proof. intros H. unfold sched_step. cbn [fst snd]. rewrite H. reflexivity. Qed.

Theorem na_lookup_sound_in_schedule lower is_space sup valid names_of cap0 pool sched (t : nat -> nat) cfg sni ip c b v :
  wf_pool names_of pool ->
  na_from_cache lower is_space sup valid (fun j => state_at cap0 pool sched (t j)) cfg sni ip = Some (c, b, v) ->
  let n := normalize lower is_space sni in
  exists j, found_at sup valid (fun j => state_at cap0 pool sched (t j)) j c v /\
    ((b = true /\ n <> [] /\ covers v n) \/
     (b = true /\ n = [] /\ v = ip) \/
     (b = false /\ n = [] /\ default_name cfg <> [] /\ v = normalize lower is_space (default_name cfg)) \/
     (b = false /\ fallback_name cfg <> [] /\ v = normalize lower is_space (fallback_name cfg))).
Proof.
  intros Hwf H.
  eapply (na_lookup_sound lower is_space sup valid names_of 0); [|exact H].
  intros j. apply (inv_weaken names_of (d_cap (dstate_at cap0 pool sched (t j)))).
  apply (dstate_after_inv names_of cap0 pool (firstn (t j) sched) Hwf).
Qed.

(** ================= non-vacuity: a pool of five threads under one schedule ================= *)
Definition x_ax : name := [97; 46; 120]%N.           (* a.x *)
Definition x_wx : name := [42; 46; 120]%N.           (* *.x *)
Definition x_ip : name := [49; 46; 50]%N.            (* "1.2" stands for an IP literal *)
Definition x_fb : name := [102; 46; 121]%N.          (* f.y *)
Definition x_e1 : cert := {| c_hash := [101; 49]%N; c_names := [x_ax]; c_managed := true; c_issuer := []; c_tags := []; c_ocsp := 0%Z; c_ari := [] |}.           (* e1: a.x, expired *)
Definition x_e2 : cert := {| c_hash := [101; 50]%N; c_names := [x_ax]; c_managed := true; c_issuer := []; c_tags := []; c_ocsp := 0%Z; c_ari := [] |}.           (* e2: a.x, its renewal *)
Definition x_w : cert := {| c_hash := [119]%N; c_names := [x_wx; x_ip]; c_managed := false; c_issuer := []; c_tags := []; c_ocsp := 0%Z; c_ari := [] |}.         (* w: *.x and the IP *)
Definition x_f : cert := {| c_hash := [102]%N; c_names := [x_fb]; c_managed := false; c_issuer := []; c_tags := []; c_ocsp := 0%Z; c_ari := [] |}.               (* f: f.y *)
Definition x_names_of (h : hash) : list name :=
  if str_eqb h [101; 49]%N then [x_ax] else if str_eqb h [101; 50]%N then [x_ax]
  else if str_eqb h [119]%N then [x_wx; x_ip] else if str_eqb h [102]%N then [x_fb] else [].
(** threads: cache e1; cache w; cache f; reload e1 -> e2 (read, then replace); handshake refresh of w;
    and a handshake lookup for "a.x" (its answer is dropped: [K] = done) *)
Definition x_pool : list prog :=
  [prog_cache x_e1 None; prog_cache x_w None; prog_cache x_f None;
   prog_reload [101; 49]%N x_e2 None; prog_handshake_refresh [119]%N 7%Z;
   prog_from_cache ascii_lower ascii_space (fun _ => true) (fun _ => true) {| default_name := []; fallback_name := x_fb |} x_ax x_ip (fun _ => PDone)].
(** e1 cached; the reload reads it; the handshake reads "a.x"; w cached; refresh reads w; the reload
    replaces e1 by e2; f cached; refresh writes back *)
Definition x_sched : list nat := [0; 3; 5; 1; 4; 3; 2; 4].
Definition x_valid (h : hash) : bool := negb (str_eqb h [101; 49]%N).
Definition x_cfg (d f : str) : config := {| default_name := d; fallback_name := f |}.
Definition x_lookup k cfg sni :=
  lookup ascii_lower ascii_space (fun _ => true) x_valid (state_at 0 x_pool x_sched k) 0 cfg sni x_ip {| name_err := false; qualifies := true; loaded := None |}.

Example system_hypotheses_satisfiable :
  wf_pool x_names_of x_pool /\
  (* the cache at the instants 0..8 of the schedule *)
  map (fun k => akeys (cache (state_at 0 x_pool x_sched k))) (seq 0 9) =
    [[]; [[101; 49]]; [[101; 49]]; [[101; 49]]; [[101; 49]; [119]]; [[101; 49]; [119]];
     [[119]; [101; 50]]; [[119]; [101; 50]; [102]]; [[119]; [101; 50]; [102]]]%N /\
  (* the handshake's refreshed staple arrived *)
  map c_ocsp (map snd (cache (state_after 0 x_pool x_sched))) = [7; 0; 0]%Z /\
  (* atomic lookups at instants of the schedule: " A.x " at instant 3 -> e1 (all there is), at the end -> e2;
     "q.x" at instant 3 -> error, at instant 4 -> w; no SNI at the end -> the IP's certificate, not the fallback *)
  x_lookup 3 (x_cfg [] []) [32; 65; 46; 120; 32]%N = ROk x_e1 /\
  x_lookup 8 (x_cfg [] []) [32; 65; 46; 120; 32]%N = ROk x_e2 /\
  x_lookup 3 (x_cfg [] []) [113; 46; 120]%N = RErr /\
  x_lookup 4 (x_cfg [] []) [113; 46; 120]%N = ROk x_w /\
  x_lookup 8 (x_cfg [] x_fb) [] = ROk (set_ocsp x_w 7) /\
  (* a NON-atomic lookup of "a.x": first read at instant 0 (empty cache), second at instant 6: it
     answers the wildcard certificate although the exact e2 is cached at instant 6 -- sound
     (w was cached and covers a.x), but the preference for the exact name is not an invariant of
     the interleaved lookup *)
  na_from_cache ascii_lower ascii_space (fun _ => true) x_valid
    (fun j => state_at 0 x_pool x_sched (match j with 0 => 0 | _ => 6 end)) (x_cfg [] []) x_ax x_ip
    = Some (x_w, true, x_wx) /\
  from_cache ascii_lower ascii_space (fun _ => true) x_valid (state_at 0 x_pool x_sched 6) (x_cfg [] []) x_ax x_ip
    = Some (x_e2, true, x_ax).
Proof.
  split; [|vm_compute; repeat split].
  assert (Hw1 : wf_cert x_names_of x_e1) by (split; [reflexivity | discriminate]).
  assert (Hw2 : wf_cert x_names_of x_e2) by (split; [reflexivity | discriminate]).
  assert (Hw3 : wf_cert x_names_of x_w) by (split; [reflexivity | discriminate]).
  assert (Hw4 : wf_cert x_names_of x_f) by (split; [reflexivity | discriminate]).
  pose proof (code_paths_wf x_names_of) as HP. decompose [and] HP. clear HP.
  unfold wf_pool, x_pool. repeat apply Forall_cons; try apply Forall_nil; eauto.
  apply prog_from_cache_wf. intros r. constructor.
Qed.
