(** System / S9 (part 3) -- Maintain (C05) and Issuance (C01) agree on ONE background renewal job.

    Both model [Config.renewCert] (config.go:771) called through [RenewCertAsync] from the job
    submitted by [Cache.queueRenewalTask] (maintain.go):

      (M) [Maintain.Model.job_step], job kind [JRenew]:  Queued --lock--> Locked
          --(ONE STEP per attempt of the retried closure: load; not due => unlock; due => Issue:
             error => stay, ok => save, unlock)--> Reload --reloadManagedCertificate--> gone;
      (I) [Issuance.Model], program [PRenew true] (async, not forced): one transition per visible
          operation: [checkStorage x3] Lock LockAcquired ( Load key,crt,meta [due?] cert_obtaining
          IssueStart IssueEnd Store key,crt,meta cert_obtained | cert_failed, retry )* Unlock.

    The job is run ALONE between its lock and its unlock (MaintainIssuance.v / 2.v justify that
    nothing a lock-respecting thread does in between matters) inside an ARBITRARY Issuance state
    (any number of other threads, any position [t]) and an ARBITRARY Maintain state (any other
    jobs, passes, cache).  Universally quantified: name / lock / spelling classes, stored key,
    stored certificate (identity, key, due or not), stored metadata, every other storage key,
    ReusePrivateKeys, DisableStorageCheck, what the issuer hands out, and the NUMBER [m] of
    failed attempts before the successful one.

    TRANSLATION (everything the statement of [renew_job_agree] uses):
      name n (Maintain)            ~  storage class [c_vk] = n, lock class [c_lk], identifier [c_idn]
      [stored (store s) n = Some mc]  ~  the three files [SK n KKey/KCrt/KMeta] present with
                                      [VKey kk], [VCrt ic], [vm]  and  [cert_rel mc ic]
      [cert_rel mc ic]             :=  cid mc = c_id ic /\ cdue mc = c_due ic      (fields both have)
      [idue] (Maintain model argument)~  [c_issdue] of the request
      [next s] (fresh serial)      ~  [ncid] (fresh certificate identity): assumed equal at the start
      [is_failing s n] during an attempt  ~  fault [FErr] injected at that attempt's [PIssS]
      [n :: issued]                ~  event [OIssS idn] with outcome 0 (followed by [OIssE idn] 0)
      [n :: failed]                ~  event [OIssS idn] with outcome 2
      [lock_held (jobs s) n]       ~  [lks (c_lk)] is [Some t]
      a retry (job stays [Locked]) ~  pc [PWait] and the choice bit [true] on the next label *)
From Coq Require Import List Bool Arith Lia.
From CM Require Issuance.Model Maintain.Model.
From CM Require Import Issuance.Base Maintain.Base.
Import ListNotations.
Open Scope nat_scope.

Module I := CM.Issuance.Model.
Module M := CM.Maintain.Model.

#[local] Arguments I.sput : simpl never.
#[local] Arguments I.lput : simpl never.

(** * 1. Running one thread of the Issuance LTS on its own labels *)
Fixpoint trun (t : nat) (th : I.thread) (sh : I.shared) (fbs : list (I.fault * bool))
  : option (I.thread * I.shared * list I.ev) :=
  match fbs with
  | [] => Some (th, sh, [])
  | (f, b) :: r =>
      match I.tstep t th sh f b with
      | None => None
      | Some (th1, sh1, e) =>
          match trun t th1 sh1 r with
          | None => None
          | Some (th2, sh2, es) => Some (th2, sh2, e :: es)
          end
      end
  end.

Definition labels_of (t : nat) (fbs : list (I.fault * bool)) : list I.label :=
  map (fun fb => I.Label t (fst fb) (snd fb)) fbs.

Lemma trun_app t th sh a b th1 sh1 es1 th2 sh2 es2 :
  trun t th sh a = Some (th1, sh1, es1) -> trun t th1 sh1 b = Some (th2, sh2, es2) ->
  trun t th sh (a ++ b) = Some (th2, sh2, es1 ++ es2).
Proof.
  revert th sh es1. induction a as [|[f bb] a IH]; intros th sh es1 Ha Hb; cbn [trun app] in *.
  - inversion Ha; subst. exact Hb.
  - destruct (I.tstep t th sh f bb) as [[[th' sh'] e]|]; [|discriminate].
    destruct (trun t th' sh' a) as [[[th'' sh''] es']|] eqn:E; [|discriminate].
    inversion Ha; subst. rewrite (IH _ _ _ E Hb). reflexivity.
Qed.

Lemma trun_cons t th sh f b r th1 sh1 e th2 sh2 es :
  I.tstep t th sh f b = Some (th1, sh1, e) -> trun t th1 sh1 r = Some (th2, sh2, es) ->
  trun t th sh ((f, b) :: r) = Some (th2, sh2, e :: es).
Proof. intros H1 H2. cbn [trun]. rewrite H1, H2. reflexivity. Qed.

Lemma upd_upd {A} (l : list A) n x y : I.upd (I.upd l n x) n y = I.upd l n y.
Proof. revert n; induction l as [|a l IH]; intros [|n]; cbn; auto. rewrite IH; auto. Qed.
Lemma upd_same {A} (l : list A) n x : nth_error l n = Some x -> I.upd l n x = l.
Proof. revert n; induction l as [|a l IH]; intros [|n] H; cbn in *; try discriminate; [inversion H; auto|rewrite IH; auto]. Qed.

(** a thread-local run IS a run of the LTS in which only thread [t] moves; the other threads and
    their number are arbitrary *)
Lemma trun_run t fbs : forall s th th' sh' es,
  nth_error (I.thr s) t = Some th ->
  trun t th (I.sh s) fbs = Some (th', sh', es) ->
  I.run s (labels_of t fbs) = Some (I.State (I.upd (I.thr s) t th') sh', es).
Proof.
  induction fbs as [|[f b] r IH]; intros s th th' sh' es Hn H; cbn [trun labels_of map I.run] in *.
  - inversion H; subst. rewrite (upd_same _ _ _ Hn). destruct s; reflexivity.
  - unfold I.step. cbn [I.l_tid I.l_fault I.l_bit fst snd]. rewrite Hn.
    destruct (I.tstep t th (I.sh s) f b) as [[[th1 sh1] e]|]; [|discriminate].
    destruct (trun t th1 sh1 r) as [[[th2 sh2] es2]|] eqn:E; [|discriminate]. inversion H; subst.
    assert (Hlt : t < length (I.thr s)) by (apply nth_error_Some; congruence).
    pose proof (IH (I.State (I.upd (I.thr s) t th1) sh1) th1 th' sh' es2) as IH'.
    cbn [I.thr I.sh] in IH'. fold (labels_of t r). rewrite IH'; auto using nth_upd_eq.
    rewrite upd_upd. reflexivity.
Qed.

(** * 2. The Issuance side: a renewal request, segment by segment *)
Section IssuanceSide.
  Variables (t lk pk vk idn : nat) (reuse chk issdue : bool).

  Definition rcfg : I.tcfg := I.TCfg (I.PRenew true) lk pk vk idn reuse chk false issdue.
  (** a thread of that request: not cancelled *)
  Definition TH (p : I.pc) (lkey : option nat) (lcrt : option I.cert) (nk : nat) (nc sn : option I.cert)
             (rc fl : bool) : I.thread :=
    I.Thread rcfg p I.OpRenew false fl lkey lcrt nk nc sn rc.

  Definition N : I.fault * bool := (I.FNone, false).
  Definition lbl_A : list (I.fault * bool) := (if chk then [N; N; N] else []) ++ [N; N].
  Definition lbl_fail : list (I.fault * bool) := [(I.FNone, true); N; N; N; (I.FErr, false); N].
  Definition lbl_ok : list (I.fault * bool) := [(I.FNone, true); N; N; N; N; N; N; N; N; N; N].
  Definition lbl_fresh : list (I.fault * bool) := [(I.FNone, true); N; N; N].

  Definition E (o : I.op) (n : nat) : I.ev := I.Ev t o n.
  Definition ev_A : list I.ev :=
    (if chk then [E (I.OStore (I.RW t)) 0; E (I.OLoad (I.RW t)) 0; E (I.ODelete (I.RW t)) 0] else [])
    ++ [E (I.OLock lk) 0; E (I.OAcq lk) 0].
  Definition ev_loads : list I.ev :=
    [E (I.OLoad (I.SK vk I.KKey)) 0; E (I.OLoad (I.SK vk I.KCrt)) 0; E (I.OLoad (I.SK vk I.KMeta)) 0].
  Definition ev_fail : list I.ev := ev_loads ++ [E (I.OEmit 0) 0; E (I.OIssS idn) 2; E (I.OEmit 2) 0].
  Definition ev_ok : list I.ev :=
    ev_loads ++ [E (I.OEmit 0) 0; E (I.OIssS idn) 0; E (I.OIssE idn) 0;
                 E (I.OStore (I.SK vk I.KKey)) 0; E (I.OStore (I.SK vk I.KCrt)) 0; E (I.OStore (I.SK vk I.KMeta)) 0;
                 E (I.OEmit 1) 0; E (I.OUnlock lk) 0].
  Definition ev_fresh : list I.ev := ev_loads ++ [E (I.OUnlock lk) 0].

  (** storage after checkStorage: the scratch key written and deleted again *)
  Definition sto_A (sto : I.skey -> option I.value) : I.skey -> option I.value :=
    if chk then I.sput (I.sput sto (I.RW t) (Some I.VRaw)) (I.RW t) None else sto.
  Lemma sto_A_SK sto n j : sto_A sto (I.SK n j) = sto (I.SK n j).
  Proof. unfold sto_A. destruct chk; reflexivity. Qed.
  Lemma sto_A_other sto k : k <> I.RW t -> sto_A sto k = sto k.
  Proof. intros H. unfold sto_A. destruct chk; auto. rewrite !sput_neq by congruence. reflexivity. Qed.

  (** one label: compute the (single, concrete-pc) thread step, using [tac] for the look-ups *)
  Ltac one tac :=
    eapply trun_cons;
    [unfold I.tstep, I.norm_pc, I.mark; cbn; rewrite ?orb_false_r, ?orb_true_r; tac; cbn;
     rewrite ?orb_false_r, ?orb_true_r; reflexivity|].
  Ltac go tac := unfold N; repeat (one tac); reflexivity.

  (** Queued -> Locked: [checkStorage], Lock, LockAcquired (the lock is free) *)
  Lemma seg_A sto lks ncid nkid lkey lcrt nk nc sn rc fl :
    lks lk = None ->
    trun t (TH (I.after_pre rcfg) lkey lcrt nk nc sn rc fl) (I.Shared sto lks ncid nkid) lbl_A =
    Some (TH (I.PLd I.KKey) lkey lcrt nk nc sn true fl,
          I.Shared (sto_A sto) (I.lput lks lk (Some t)) ncid nkid, ev_A).
  Proof.
    intros Hl. unfold lbl_A, ev_A, sto_A, TH, rcfg, I.after_pre. cbn [I.c_chk]. destruct chk; cbn [app].
    - go ltac:(rewrite ?sput_eq, ?Hl).
    - go ltac:(rewrite ?Hl).
  Qed.

  Section Attempt.
    Variables (sto : I.skey -> option I.value) (lks : nat -> option nat).
    Variables (kk id kid : nat) (due : bool) (vm : I.value).
    Hypothesis Hk : sto (I.SK vk I.KKey) = Some (I.VKey kk).
    Hypothesis Hc : sto (I.SK vk I.KCrt) = Some (I.VCrt (I.Cert id kid due)).
    Hypothesis Hm : sto (I.SK vk I.KMeta) = Some vm.

    Definition lks1 : nat -> option nat := I.lput lks lk (Some t).
    Definition at_attempt (p : I.pc) : Prop := p = I.PLd I.KKey \/ p = I.PWait.
    (** key of an attempt: the stored one (ReusePrivateKeys) or a fresh one *)
    Definition key_at (nkid : nat) : nat := if reuse then kk else nkid.
    Definition nkid_after (nkid : nat) : nat := if reuse then nkid else S nkid.

    (** one FAILING attempt (stored certificate due; Issuer.Issue returns an error): the thread is
        back in doWithRetry, storage / lock / certificate counter untouched *)
    Lemma seg_fail p lkey lcrt nk nc sn fl ncid nkid :
      at_attempt p -> due = true ->
      trun t (TH p lkey lcrt nk nc sn true fl) (I.Shared sto lks1 ncid nkid) lbl_fail =
      Some (TH I.PWait (Some kk) (Some (I.Cert id kid due)) (key_at nkid) nc sn true true,
            I.Shared sto lks1 ncid (nkid_after nkid), ev_fail).
    Proof.
      intros Hp ->. unfold lbl_fail, ev_fail, ev_loads, TH, rcfg, key_at, nkid_after, N.
      destruct Hp as [-> | ->].
      all: destruct reuse; go ltac:(rewrite ?Hk, ?Hc, ?Hm).
    Qed.

    (** the attempt that finds the stored certificate NOT due ("renewed already"): unlock *)
    Lemma seg_fresh p lkey lcrt nk nc sn fl ncid nkid :
      at_attempt p -> due = false ->
      trun t (TH p lkey lcrt nk nc sn true fl) (I.Shared sto lks1 ncid nkid) lbl_fresh =
      Some (TH (I.PDone I.ROk) (Some kk) (Some (I.Cert id kid due)) nk nc sn false fl,
            I.Shared sto (I.lput lks1 lk None) ncid nkid, ev_fresh).
    Proof.
      intros Hp ->. unfold lbl_fresh, ev_fresh, ev_loads, TH, rcfg, N, lks1.
      destruct Hp as [-> | ->].
      all: go ltac:(rewrite ?Hk, ?Hc, ?Hm, ?lput_eq, ?Nat.eqb_refl).
    Qed.

    (** the SUCCESSFUL attempt (stored certificate due, the issuer answers) *)
    Definition new_cert (ncid nkid : nat) : I.cert := I.Cert ncid (key_at nkid) issdue.
    Definition sto_ok (ncid nkid : nat) : I.skey -> option I.value :=
      I.sput (I.sput (I.sput sto (I.SK vk I.KKey) (Some (I.VKey (key_at nkid))))
                     (I.SK vk I.KCrt) (Some (I.VCrt (new_cert ncid nkid))))
             (I.SK vk I.KMeta) (Some (I.VMeta ncid)).
    Lemma seg_ok p lkey lcrt nk nc sn fl ncid nkid :
      at_attempt p -> due = true ->
      trun t (TH p lkey lcrt nk nc sn true fl) (I.Shared sto lks1 ncid nkid) lbl_ok =
      Some (TH (I.PDone I.ROk) (Some kk) (Some (I.Cert id kid due)) (key_at nkid) (Some (new_cert ncid nkid)) sn false fl,
            I.Shared (sto_ok ncid nkid) (I.lput lks1 lk None) (S ncid) (nkid_after nkid), ev_ok).
    Proof.
      intros Hp ->. unfold lbl_ok, ev_ok, ev_loads, TH, rcfg, N, lks1, sto_ok, new_cert, key_at, nkid_after.
      destruct Hp as [-> | ->].
      all: destruct reuse; go ltac:(rewrite ?Hk, ?Hc, ?Hm, ?lput_eq, ?Nat.eqb_refl).
    Qed.

    (** [m] failing attempts in a row (induction on [m]) *)
    Fixpoint nkid_iter (m nkid : nat) : nat :=
      match m with 0 => nkid | S m' => nkid_iter m' (nkid_after nkid) end.
    Lemma nkid_iter_eq m nkid : nkid_iter m nkid = if reuse then nkid else nkid + m.
    Proof.
      revert nkid; induction m as [|m IH]; intros nkid; cbn [nkid_iter].
      - destruct reuse; lia.
      - rewrite IH. unfold nkid_after. destruct reuse; lia.
    Qed.

    Lemma seg_fails m : forall p lkey lcrt nk nc sn fl ncid nkid,
      at_attempt p -> due = true ->
      exists p' lkey' lcrt' nk' fl',
        at_attempt p' /\
        trun t (TH p lkey lcrt nk nc sn true fl) (I.Shared sto lks1 ncid nkid) (concat (repeat lbl_fail m)) =
        Some (TH p' lkey' lcrt' nk' nc sn true fl',
              I.Shared sto lks1 ncid (nkid_iter m nkid), concat (repeat ev_fail m)).
    Proof.
      induction m as [|m IH]; intros p lkey lcrt nk nc sn fl ncid nkid Hp Hd.
      - exists p, lkey, lcrt, nk, fl. split; [exact Hp|reflexivity].
      - cbn [repeat concat nkid_iter].
        destruct (IH I.PWait (Some kk) (Some (I.Cert id kid due)) (key_at nkid) nc sn true ncid (nkid_after nkid))
          as (p' & lkey' & lcrt' & nk' & fl' & Hp' & Hrun); [right; reflexivity|exact Hd|].
        exists p', lkey', lcrt', nk', fl'. split; [exact Hp'|].
        eapply trun_app; [apply seg_fail; assumption|exact Hrun].
    Qed.
  End Attempt.

  (** the schedule of the whole request and the events it must produce *)
  Definition lbl_renew (due : bool) (m : nat) : list (I.fault * bool) :=
    lbl_A ++ (if due then concat (repeat lbl_fail m) ++ lbl_ok else lbl_fresh).
  Definition ev_renew (due : bool) (m : nat) : list I.ev :=
    ev_A ++ (if due then concat (repeat ev_fail m) ++ ev_ok else ev_fresh).

  (** final shared state of the whole request *)
  Definition sto_renew (sto : I.skey -> option I.value) (kk : nat) (due : bool) (m ncid nkid : nat) :=
    if due then sto_ok (sto_A sto) kk ncid (nkid_iter m nkid) else sto_A sto.
  Definition lks_renew (lks : nat -> option nat) : nat -> option nat :=
    I.lput (I.lput lks lk (Some t)) lk None.

  (** THE ISSUANCE SIDE, thread level.  From the request's entry, lock free, the bundle of [vk]
      stored: the schedule [lbl_renew due m] runs to completion; the events are exactly
      [ev_renew due m]; the request returns nil; the final shared state is explicit. *)
  Lemma renew_thread_run sto lks ncid nkid kk id kid due vm m lkey lcrt nk nc sn rc fl :
    lks lk = None ->
    sto (I.SK vk I.KKey) = Some (I.VKey kk) ->
    sto (I.SK vk I.KCrt) = Some (I.VCrt (I.Cert id kid due)) ->
    sto (I.SK vk I.KMeta) = Some vm ->
    exists th',
      trun t (TH (I.after_pre rcfg) lkey lcrt nk nc sn rc fl) (I.Shared sto lks ncid nkid) (lbl_renew due m) =
      Some (th', I.Shared (sto_renew sto kk due m ncid nkid) (lks_renew lks)
                          (if due then S ncid else ncid)
                          (if due then nkid_after (nkid_iter m nkid) else nkid),
            ev_renew due m) /\
      I.tpc th' = I.PDone I.ROk /\ I.cfg th' = rcfg /\ I.recd th' = false /\ I.seen th' = sn.
  Proof.
    intros Hl Hk Hc Hm.
    pose proof (seg_A sto lks ncid nkid lkey lcrt nk nc sn rc fl Hl) as HA.
    assert (Hk' : sto_A sto (I.SK vk I.KKey) = Some (I.VKey kk)) by (rewrite sto_A_SK; exact Hk).
    assert (Hc' : sto_A sto (I.SK vk I.KCrt) = Some (I.VCrt (I.Cert id kid due))) by (rewrite sto_A_SK; exact Hc).
    assert (Hm' : sto_A sto (I.SK vk I.KMeta) = Some vm) by (rewrite sto_A_SK; exact Hm).
    unfold lbl_renew, ev_renew, sto_renew, lks_renew. destruct due.
    - destruct (seg_fails (sto_A sto) lks kk id kid true vm Hk' Hc' Hm' m (I.PLd I.KKey) lkey lcrt nk nc sn fl ncid nkid)
        as (p' & lkey' & lcrt' & nk' & fl' & Hp' & Hrun); [left; reflexivity|reflexivity|].
      pose proof (seg_ok (sto_A sto) lks kk id kid true vm Hk' Hc' Hm' p' lkey' lcrt' nk' nc sn fl' ncid (nkid_iter m nkid) Hp' eq_refl) as Hok.
      eexists. split.
      + eapply trun_app; [exact HA|]. eapply trun_app; [exact Hrun|exact Hok].
      + repeat split.
    - pose proof (seg_fresh (sto_A sto) lks kk id kid false vm Hk' Hc' Hm' (I.PLd I.KKey) lkey lcrt nk nc sn fl ncid nkid
                    (or_introl eq_refl) eq_refl) as Hfr.
      eexists. split.
      + eapply trun_app; [exact HA|exact Hfr].
      + repeat split.
  Qed.
End IssuanceSide.

(** * 3. The Maintain side: the same job, event by event *)
Section MaintainSide.
  Variables (od : M.name -> bool) (idue : bool).
  Variables (n k : nat) (old : option M.cert) (pre post : list M.job).

  Definition J (p : M.jpc) : M.job := M.Job n M.JRenew old p.

  Lemma split_job_replace js : forall k' pre' j post' j',
    M.split_job n k' js = Some (pre', j, post') -> M.jname j' = n ->
    M.split_job n k' (pre' ++ j' :: post') = Some (pre', j', post').
  Proof.
    induction js as [|x r IH]; cbn [M.split_job]; intros k' pre' j post' j' H Hj; [discriminate|].
    destruct (M.jname x =? n) eqn:Ex.
    - destruct k' as [|k''].
      + injection H as <- <- <-. cbn [app M.split_job]. rewrite Hj, Nat.eqb_refl. reflexivity.
      + destruct (M.split_job n k'' r) as [[[a y] b]|] eqn:S; [|discriminate]. injection H as <- <- <-.
        cbn [app M.split_job]. rewrite Ex, (IH _ _ _ _ _ S Hj). reflexivity.
    - destruct (M.split_job n k' r) as [[[a y] b]|] eqn:S; [|discriminate]. injection H as <- <- <-.
      cbn [app M.split_job]. rewrite Ex, (IH _ _ _ _ _ S Hj). reflexivity.
  Qed.

  Lemma lock_held_mid a j b : M.lock_held (a ++ j :: b) n =
    M.lock_held a n || ((M.jname j =? n) && M.is_locked (M.jpc_ j)) || M.lock_held b n.
  Proof. unfold M.lock_held. rewrite existsb_app. cbn [existsb]. rewrite orb_assoc. reflexivity. Qed.

  Lemma not_failing_after_reset l : existsb (Nat.eqb n) (filter (fun m => negb (m =? n)) l) = false.
  Proof.
    induction l as [|x l IH]; cbn; auto. destruct (Nat.eqb_spec x n) as [E|E]; cbn; auto.
    rewrite IH. destruct (Nat.eqb_spec n x); [congruence|reflexivity].
  Qed.

  (** the Maintain state while the job is [Locked]: [i] failed attempts so far, issuer status [fl] *)
  Definition S_locked (s0 : M.state) (fl : list M.name) (i : nat) : M.state :=
    M.State (M.store s0) (M.cache s0) (pre ++ J M.Locked :: post) (M.passes s0) fl
            (M.issued s0) (repeat n i ++ M.failed s0) (M.next s0) false.
  (** ... and when it has released the lock ([Reload]): after a successful Issue / without one *)
  Definition S_renewed (s0 : M.state) (fl : list M.name) (i : nat) : M.state :=
    M.State ((n, M.Cert (M.next s0) n [] idue true) :: M.store s0) (M.cache s0) (pre ++ J M.Reload :: post)
            (M.passes s0) fl (n :: M.issued s0) (repeat n i ++ M.failed s0) (S (M.next s0)) false.
  Definition S_fresh (s0 : M.state) : M.state :=
    M.State (M.store s0) (M.cache s0) (pre ++ J M.Reload :: post) (M.passes s0) (M.failing s0)
            (M.issued s0) (M.failed s0) (M.next s0) false.

  Variable s0 : M.state.
  Variable mc : M.cert.
  Hypothesis Hsplit : M.split_job n k (M.jobs s0) = Some (pre, J M.Queued, post).
  Hypothesis Hfree : M.lock_held (M.jobs s0) n = false.
  Hypothesis Hst : M.stored (M.store s0) n = Some mc.

  Lemma split_at (p : M.jpc) : M.split_job n k (pre ++ J p :: post) = Some (pre, J p, post).
  Proof. eapply split_job_replace; [exact Hsplit|reflexivity]. Qed.

  Lemma m_take_lock : M.step od idue s0 (M.JobStep n k) = S_locked s0 (M.failing s0) 0.
  Proof.
    unfold M.step, M.job_step. cbn [M.jobs M.with_err]. rewrite Hsplit. cbn [M.jkd M.jpc_ J]. rewrite Hfree.
    reflexivity.
  Qed.

  Lemma m_fail fl i : M.cdue mc = true ->
    M.step od idue (S_locked s0 (n :: fl) i) (M.JobStep n k) = S_locked s0 (n :: fl) (S i).
  Proof.
    intros Hd. unfold M.step, M.job_step, S_locked, M.with_err. cbn [M.jobs]. rewrite (split_at M.Locked).
    cbn -[M.stored M.is_failing M.issue]. rewrite Hst, Hd. unfold M.is_failing, M.with_failed. cbn [M.failing existsb M.store M.cache M.jobs M.passes M.issued M.failed M.next M.lasterr].
    rewrite Nat.eqb_refl. reflexivity.
  Qed.

  Lemma m_fails fl i : M.cdue mc = true -> forall j,
    M.run od idue (S_locked s0 (n :: fl) j) (repeat (M.JobStep n k) i) = S_locked s0 (n :: fl) (i + j).
  Proof.
    intros Hd. induction i as [|i IH]; intros j; [reflexivity|].
    cbn [repeat]. unfold M.run in *. cbn [fold_left]. rewrite (m_fail fl j Hd), IH. f_equal. lia.
  Qed.

  Lemma m_set_issuer fl i b :
    M.step od idue (S_locked s0 fl i) (M.SetIssuer n b) =
    S_locked s0 (if b then n :: fl else filter (fun m => negb (m =? n)) fl) i.
  Proof. reflexivity. Qed.

  Lemma m_ok fl i : M.cdue mc = true -> existsb (Nat.eqb n) fl = false ->
    M.step od idue (S_locked s0 fl i) (M.JobStep n k) = S_renewed s0 fl i.
  Proof.
    intros Hd Hf. unfold M.step, M.job_step, S_locked, M.with_err. cbn [M.jobs]. rewrite (split_at M.Locked).
    cbn -[M.stored M.is_failing M.issue]. rewrite Hst, Hd. unfold M.is_failing. cbn [M.failing]. rewrite Hf.
    reflexivity.
  Qed.

  Lemma m_fresh : M.cdue mc = false ->
    M.step od idue (S_locked s0 (M.failing s0) 0) (M.JobStep n k) = S_fresh s0.
  Proof.
    intros Hd. unfold M.step, M.job_step, S_locked, M.with_err. cbn [M.jobs]. rewrite (split_at M.Locked).
    cbn -[M.stored M.is_failing M.issue]. rewrite Hst, Hd. reflexivity.
  Qed.

  (** Maintain's history of the job: lock; the issuer fails for the name during [m] attempts;
      it recovers; the successful attempt.  (Not due: lock; the attempt.) *)
  Definition mh_renew (due : bool) (m : nat) : list M.event :=
    M.JobStep n k ::
    (if due then M.SetIssuer n true :: repeat (M.JobStep n k) m ++ [M.SetIssuer n false; M.JobStep n k]
     else [M.JobStep n k]).

  Definition fl_end : list M.name := filter (fun m => negb (m =? n)) (n :: M.failing s0).

  Lemma m_renew_run m :
    M.run od idue s0 (mh_renew (M.cdue mc) m) =
    if M.cdue mc then S_renewed s0 fl_end m else S_fresh s0.
  Proof.
    unfold mh_renew, M.run. cbn [fold_left]. rewrite m_take_lock. destruct (M.cdue mc) eqn:Hd.
    - cbn [fold_left]. rewrite (m_set_issuer (M.failing s0) 0 true). rewrite fold_left_app.
      pose proof (m_fails (M.failing s0) m Hd 0) as F. unfold M.run in F. rewrite F. rewrite Nat.add_0_r.
      cbn [fold_left]. rewrite (m_set_issuer (n :: M.failing s0) m false).
      apply m_ok; [exact Hd|apply not_failing_after_reset].
    - cbn [fold_left]. apply m_fresh. exact Hd.
  Qed.

  (** the lock as Maintain sees it: held after the first step and after every failed attempt,
      free at the end *)
  Lemma pre_post_free : M.lock_held pre n = false /\ M.lock_held post n = false.
  Proof.
    destruct (split_job_spec _ _ _ _ _ _ Hsplit) as [Ej _]. rewrite Ej, lock_held_mid in Hfree.
    apply orb_false_iff in Hfree. destruct Hfree as [H1 H2]. apply orb_false_iff in H1. tauto.
  Qed.
  Lemma m_locked_holds fl i : M.lock_held (M.jobs (S_locked s0 fl i)) n = true.
  Proof. cbn [M.jobs S_locked]. rewrite lock_held_mid. cbn. rewrite Nat.eqb_refl. cbn. rewrite orb_true_r. reflexivity. Qed.
  Lemma m_lock_profile m i : M.cdue mc = true -> i <= m ->
    M.lock_held (M.jobs (M.run od idue s0 (M.JobStep n k :: M.SetIssuer n true :: repeat (M.JobStep n k) i))) n = true.
  Proof.
    intros Hd _. unfold M.run. cbn [fold_left]. rewrite m_take_lock, (m_set_issuer (M.failing s0) 0 true).
    pose proof (m_fails (M.failing s0) i Hd 0) as F. unfold M.run in F. rewrite F. apply m_locked_holds.
  Qed.
  Lemma m_end_free fl i : M.lock_held (M.jobs (S_renewed s0 fl i)) n = false /\ M.lock_held (M.jobs (S_fresh s0)) n = false.
  Proof.
    destruct pre_post_free as [H1 H2]. cbn [M.jobs S_renewed S_fresh]. rewrite !lock_held_mid, H1, H2. cbn.
    rewrite andb_false_r. auto.
  Qed.
End MaintainSide.
