(** System / S2 (B) — the concurrent FileSys LTS ==> the atomic Storage map.

    [FileSys.Lts] runs Store through a temp file and rename(2), Load through open(2) + read(2)s,
    Delete as unlink(2), any number of threads, any schedule, SIGKILL anywhere; its ghost log
    records the rename / unlink / open instants.  [FileSys.LtsProofs] proves [load_linearizable]
    and [crash_old_or_new] in the vocabulary of that log ([installed]).

    Here the same facts are stated in the vocabulary of the ATOMIC MAP of [System.StorageRefine]
    ([amap], [astep], [arun]) that Issuance / Bundle / Account assume:
      - [lin]: the abstract history of a log (rename = AStore of the whole value, unlink = ADelete);
      - [lts_state_is_amap]: in every reachable state, what the names hold is the atomic map obtained
        by running that history;
      - [lts_step_refines_amap]: every LTS step is a stutter or exactly ONE abstract step (forward
        simulation; the linearization points are rename(2) and unlink(2));
      - [load_is_atomic]: every completed Load returns the abstract Load on the map at its open(2);
      - [store_outcome]: a Store that returned nil took effect exactly once, with the whole value it
        was called with; a Store that returned an error took no effect; a killed Store took effect
        once (whole) or not at all;
      - what a killed Store leaves behind: an orphan temp name that no step ever removes
        ([orphan_temp_forever]).
    With the ghost log in place these are thin corollaries of [Inv]; the new proof content is the
    projection [lin], the per-step simulation and the invariant [J] (renames per thread). *)
From CM Require Import Lib.Str FileSys.Model FileSys.Lts FileSys.LtsProofs System.StorageRefine.
From CM Require Gen.Consts Clean.Model.
Open Scope nat_scope.

(** * the abstract history *)
(** the log is newest first; the history is chronological *)
Fixpoint lin (lg : list event) : list (aop key value) :=
  match lg with
  | [] => []
  | EvRename _ k v :: r => lin r ++ [AStore k v]
  | EvUnlink _ k :: r => lin r ++ [ADelete k]
  | _ :: r => lin r
  end.
Definition amap_of (v0 : amap key value) (lg : list event) : amap key value :=
  fst (arun Nat.eqb v0 (lin lg)).
Definition load_res (r : option value) : ares value :=
  match r with Some v => AVal v | None => ANotExist end.

Lemma arun_app {K V} (keqb : K -> K -> bool) (a : list (aop K V)) : forall m b,
  fst (arun keqb m (a ++ b)) = fst (arun keqb (fst (arun keqb m a)) b).
Proof.
  induction a as [|o a IH]; intros m b; cbn [app arun]; [reflexivity|].
  destruct (astep keqb m o) as [m1 r]. specialize (IH m1 b).
  destruct (arun keqb m1 (a ++ b)) as [m2 rs]. destruct (arun keqb m1 a) as [m3 rs3].
  cbn [fst] in *. exact IH.
Qed.

(** [installed] (the LTS's own reading of its log) is the atomic map run over the history *)
Lemma installed_is_arun v0 lg k : installed v0 lg k = amap_of v0 lg k.
Proof.
  unfold amap_of. induction lg as [|e lg IH]; cbn [installed lin]; [reflexivity|].
  destruct e; try exact IH.
  - rewrite arun_app. cbn [arun astep fst]. unfold aput. rewrite IH. reflexivity.
  - rewrite arun_app. cbn [arun astep fst]. unfold aput. rewrite IH. reflexivity.
Qed.

Lemma in_lin_store lg k v : In (AStore k v) (lin lg) <-> exists t, In (EvRename t k v) lg.
Proof.
  induction lg as [|e lg IH]; cbn [lin]; [split; [contradiction | intros [t []]]|].
  assert (Hskip : (forall t, e <> EvRename t k v) ->
                  (In (AStore k v) (lin lg) <-> exists t, In (EvRename t k v) (e :: lg))).
  { intros Hne. rewrite IH. split; intros [t H]; exists t; [right; assumption|].
    destruct H as [H|H]; [exfalso; exact (Hne t H) | assumption]. }
  destruct e; try (apply Hskip; intros t' E; discriminate).
  - rewrite in_app_iff, IH. cbn [In]. split.
    + intros [[t' H]|[H|[]]]; [exists t'; right; assumption|]. injection H as <- <-. exists t. left; reflexivity.
    + intros [t' [H|H]]; [injection H as _ <- <-; right; left; reflexivity | left; exists t'; assumption].
  - rewrite in_app_iff. cbn [In]. rewrite IH. split.
    + intros [[t' H]|[H|[]]]; [exists t'; right; assumption | discriminate].
    + intros [t' [H|H]]; [discriminate | left; exists t'; assumption].
Qed.

(** * the state is the atomic map of the history *)
Theorem lts_state_is_amap s0 s : reachable s0 s ->
  forall k, named_value s k = amap_of (named_value s0) (log s) k.
Proof. intros Hr k. rewrite (I_named _ s (reachable_Inv s0 s Hr) k). apply installed_is_arun. Qed.

(** every operation of the history is a Store that was called with exactly that (whole) value and
    whose rename happened, or a Delete *)
Theorem history_is_whole_calls s0 s k v : reachable s0 s -> In (AStore k v) (lin (log s)) ->
  exists t, In (EvStore t k v) (log s) /\ In (EvRename t k v) (log s).
Proof.
  intros Hr Hin. apply in_lin_store in Hin. destruct Hin as [t Hin]. exists t. split; [|assumption].
  exact (log_ok_rename _ _ _ _ _ (I_log _ s (reachable_Inv s0 s Hr)) Hin).
Qed.

(** * forward simulation: one system call = a stutter or one abstract step *)
Definition label_aop (s : state) (l : label) : list (aop key value) :=
  match l with
  | LRename t => match thr s t with WClosed k v _ _ => [AStore k v] | _ => [] end
  | LUnlink t => match thr s t with DStart k => [ADelete k] | _ => [] end
  | _ => []
  end.

Lemma step_lin s l s' : step s l = Some s' -> lin (log s') = lin (log s) ++ label_aop s l.
Proof.
  intros Hstep. unfold label_aop.
  inv_step Hstep; cbn [log set_thr add_log lin]; rewrite ?Et, ?app_nil_r; reflexivity.
Qed.

Lemma arun_ext {K V} (keqb : K -> K -> bool) (ops : list (aop K V)) : forall m1 m2,
  (forall k, m1 k = m2 k) -> forall k, fst (arun keqb m1 ops) k = fst (arun keqb m2 ops) k.
Proof.
  induction ops as [|o ops IH]; intros m1 m2 Hext k; cbn [arun]; [apply Hext|].
  destruct (astep keqb m1 o) as [m1' r1] eqn:E1. destruct (astep keqb m2 o) as [m2' r2] eqn:E2.
  specialize (IH m1' m2').
  destruct (arun keqb m1' ops) as [a ra]. destruct (arun keqb m2' ops) as [b rb]. cbn [fst] in *.
  apply IH. intros k'. destruct o; cbn [astep] in E1, E2; injection E1 as <- _; injection E2 as <- _;
    unfold aput; try apply Hext; destruct (keqb _ k'); try reflexivity; apply Hext.
Qed.

Lemma Inv_step_named v0 s l s' : Inv v0 s -> step s l = Some s' ->
  forall k, named_value s' k = fst (arun Nat.eqb (named_value s) (label_aop s l)) k.
Proof.
  intros HI Hstep k. pose proof (Inv_step v0 s s' l HI Hstep) as HI'.
  rewrite (I_named _ _ HI'), installed_is_arun. unfold amap_of. rewrite (step_lin s l s' Hstep), arun_app.
  apply arun_ext. intros k'. rewrite (I_named _ _ HI), installed_is_arun. reflexivity.
Qed.

(** every step of every reachable state: the names change by exactly the abstract step(s) of the
    label: none (a stutter: create, write, fsync, close, failed Store, open, read, kill, spawn), one
    AStore of the whole value at rename(2), one ADelete at unlink(2) *)
Theorem lts_step_refines_amap s0 s l s' : reachable s0 s -> step s l = Some s' ->
  (length (label_aop s l) <= 1) /\
  forall k, named_value s' k = fst (arun Nat.eqb (named_value s) (label_aop s l)) k.
Proof.
  intros Hr Hstep. split.
  - unfold label_aop. destruct l; cbn; try lia; destruct (thr s t); cbn; lia.
  - exact (Inv_step_named _ s l s' (reachable_Inv s0 s Hr) Hstep).
Qed.
(** in particular SIGKILL, at any instant of any thread, changes nothing in the map *)
Corollary kill_is_stutter s0 s t s' : reachable s0 s -> step s (LKill t) = Some s' ->
  forall k, named_value s' k = named_value s k.
Proof. intros Hr Hstep k. exact (proj2 (lts_step_refines_amap s0 s _ s' Hr Hstep) k). Qed.

(** * Loads are atomic reads of the map at their open(2) *)
Theorem load_is_atomic s0 s post t k r pre : reachable s0 s ->
  log s = post ++ EvRet t k r :: pre ->
  exists mid before, pre = mid ++ EvOpen t k :: before /\
    snd (astep Nat.eqb (amap_of (named_value s0) before) (ALoad k)) = load_res r.
Proof.
  intros Hr Hlog. destruct (load_linearizable s0 s post t k r pre Hr Hlog) as (mid & before & Hpre & Hv).
  exists mid, before. split; [assumption|]. cbn [astep snd]. rewrite <- installed_is_arun, <- Hv.
  destruct r; reflexivity.
Qed.

(** * what each Store call contributed: the invariant [J] *)
Fixpoint renames_of (t : tid) (lg : list event) : list (key * value) :=
  match lg with
  | [] => []
  | EvRename t' k v :: r => if Nat.eqb t' t then (k, v) :: renames_of t r else renames_of t r
  | _ :: r => renames_of t r
  end.
Definition J (s : state) : Prop := forall t,
  match thr s t with
  | WDone k v => renames_of t (log s) = [(k, v)]
  | TDead => length (renames_of t (log s)) <= 1
  | _ => renames_of t (log s) = []
  end.

Lemma J_init s : init_ok s -> J s.
Proof. intros (Ht & Hl & _) t. rewrite Ht, Hl. reflexivity. Qed.

Lemma J_step s l s' : J s -> step s l = Some s' -> J s'.
Proof.
  intros HJ Hstep t0. pose proof (HJ t0) as H0.
  inv_step Hstep; cbn [thr log set_thr add_log renames_of]; unfold upd_nat;
    destruct (Nat.eqb_spec t0 t) as [->|Hne]; try exact H0.
  all: try (rewrite Et in H0).
  all: try (rewrite Nat.eqb_refl).
  all: try (replace (Nat.eqb t t0) with false by (symmetry; apply Nat.eqb_neq; congruence)).
  all: try exact H0.
  all: try (rewrite H0; reflexivity).
  all: try (rewrite H0; cbn; lia).
  all: try (cbn; lia).
Qed.

Lemma J_run ls : forall s s', J s -> run s ls = Some s' -> J s'.
Proof.
  induction ls as [|l ls IH]; intros s s' HJ; cbn [run].
  - intros H; injection H as <-; assumption.
  - destruct (step s l) as [s1|] eqn:E; [|discriminate]. apply IH. exact (J_step s l s1 HJ E).
Qed.
Lemma reachable_J s0 s : reachable s0 s -> J s.
Proof. intros [H0 [ls Hr]]. exact (J_run ls s0 s (J_init s0 H0) Hr). Qed.

Lemma renames_of_in t lg k v : In (k, v) (renames_of t lg) <-> In (EvRename t k v) lg.
Proof.
  induction lg as [|e lg IH]; cbn [renames_of]; [tauto|].
  destruct e; cbn [In]; try (rewrite IH; split; [auto | intros [H|H]; [discriminate | assumption]]).
  destruct (Nat.eqb_spec t0 t) as [->|Hne]; cbn [In]; rewrite IH.
  - split; intros [H|H]; auto; left; [injection H as <- <-; reflexivity | injection H as <- <-; reflexivity].
  - split; [auto|]. intros [H|H]; [injection H as E _ _; contradiction | assumption].
Qed.

(** The outcome of a Store call and its effect on the map:
    - returned nil  ==> it took effect exactly once, as the whole value it was called with;
    - returned an error ==> it took no effect (what Issuance [e_out = 2] and Bundle [p_fail] assume);
    - still running ==> no effect yet;
    - killed ==> no effect, or exactly one, whole, of the value it was called with. *)
Theorem store_outcome s0 s t : reachable s0 s ->
  match thr s t with
  | WDone k v => renames_of t (log s) = [(k, v)] /\ In (AStore k v) (lin (log s))
  | WErr _ _ | WStart _ _ | WOpen _ _ _ _ _ | WSynced _ _ _ _ | WClosed _ _ _ _ => renames_of t (log s) = []
  | TDead => renames_of t (log s) = [] \/
             exists k v, renames_of t (log s) = [(k, v)] /\ In (EvStore t k v) (log s) /\
                         In (AStore k v) (lin (log s))
  | _ => True
  end.
Proof.
  intros Hr. pose proof (reachable_J s0 s Hr t) as HJ.
  pose proof (I_log _ s (reachable_Inv s0 s Hr)) as Hl.
  destruct (thr s t); try exact I; try exact HJ.
  - split; [assumption|]. apply in_lin_store. exists t. apply renames_of_in. rewrite HJ. left; reflexivity.
  - destruct (renames_of t (log s)) as [|[k v] [|x r]] eqn:E; [left; reflexivity | | cbn in HJ; lia].
    right. exists k, v. split; [reflexivity|].
    assert (Hin : In (EvRename t k v) (log s)) by (apply renames_of_in; rewrite E; left; reflexivity).
    split; [exact (log_ok_rename _ _ _ _ _ Hl Hin) | apply in_lin_store; exists t; assumption].
Qed.

(** * what a killed Store leaves behind *)
Definition owns (x : tstate) (n : nat) : Prop := exists k v i off, wtemp x = Some (k, v, n, i, off).

(** a temp name that is bound and that no thread holds (its writer was killed) stays bound in every
    continuation: nothing in FileStorage ever removes it, and List of its directory shows it *)
Lemma orphan_step s l s' n i : step s l = Some s' ->
  dir s (NTemp n) = Some i -> (forall t, ~ owns (thr s t) n) ->
  dir s' (NTemp n) = Some i /\ (forall t, ~ owns (thr s' t) n).
Proof.
  intros Hstep Hd Hno.
  assert (Hown : forall t k v i' off, wtemp (thr s t) = Some (k, v, n, i', off) -> False)
    by (intros t k v i' off H; apply (Hno t); exists k, v, i', off; exact H).
  inv_step Hstep; cbn [dir thr set_thr add_log].
  all: try (split; [exact Hd|]; intros t0 (ka & va & ia & oa & H0); unfold upd_nat in H0;
            destruct (Nat.eqb t0 t); [cbn [wtemp] in H0; try discriminate | exact (Hown _ _ _ _ _ H0)]).
  all: try (injection H0; intros; subst; eapply Hown; rewrite Et; reflexivity).
  - (* create *)
    assert (Hn : tmp <> n) by (intros ->; congruence). split.
    + rewrite upd_name_neq by congruence. exact Hd.
    + intros t0 (ka & va & ia & oa & H0). unfold upd_nat in H0.
      destruct (Nat.eqb t0 t); [cbn [wtemp] in H0; injection H0 as _ _ E _ _; contradiction | exact (Hown _ _ _ _ _ H0)].
  - (* rename *)
    assert (Hn : tmp <> n) by (intros ->; eapply Hown; rewrite Et; reflexivity). split.
    + rewrite upd_name_neq by congruence. rewrite upd_name_neq by discriminate. exact Hd.
    + intros t0 (ka & va & ia & oa & H0). unfold upd_nat in H0.
      destruct (Nat.eqb t0 t); [cbn [wtemp] in H0; discriminate | exact (Hown _ _ _ _ _ H0)].
  - assert (Hn : tmp <> n) by (intros ->; eapply Hown; rewrite Et; reflexivity). split.
    + rewrite upd_name_neq by congruence. exact Hd.
    + intros t0 (ka & va & ia & oa & H0). unfold upd_nat in H0.
      destruct (Nat.eqb t0 t); [cbn [wtemp] in H0; discriminate | exact (Hown _ _ _ _ _ H0)].
  - assert (Hn : tmp <> n) by (intros ->; eapply Hown; rewrite Et; reflexivity). split.
    + rewrite upd_name_neq by congruence. exact Hd.
    + intros t0 (ka & va & ia & oa & H0). unfold upd_nat in H0.
      destruct (Nat.eqb t0 t); [cbn [wtemp] in H0; discriminate | exact (Hown _ _ _ _ _ H0)].
  - assert (Hn : tmp <> n) by (intros ->; eapply Hown; rewrite Et; reflexivity). split.
    + rewrite upd_name_neq by congruence. exact Hd.
    + intros t0 (ka & va & ia & oa & H0). unfold upd_nat in H0.
      destruct (Nat.eqb t0 t); [cbn [wtemp] in H0; discriminate | exact (Hown _ _ _ _ _ H0)].
Qed.
Theorem orphan_temp_forever ls : forall s s' n i, run s ls = Some s' ->
  dir s (NTemp n) = Some i -> (forall t, ~ owns (thr s t) n) -> dir s' (NTemp n) = Some i.
Proof.
  induction ls as [|l ls IH]; intros s s' n i; cbn [run].
  - intros H; injection H as <-; auto.
  - destruct (step s l) as [s1|] eqn:E; [|discriminate]. intros Hrun Hd Hno.
    destruct (orphan_step s l s1 n i E Hd Hno) as [Hd1 Hno1]. exact (IH s1 s' n i Hrun Hd1 Hno1).
Qed.

(** * witnesses *)
(** thread 0 stores [1] under key 0; thread 1 is asked to store [2;3] under key 0 and is killed
    after close(2), before rename(2) *)
Definition sched_kill_before : list label :=
  solo_store 0 [1%N] [1] ++
  [LSpawnStore 1 0 [2%N; 3%N]; LCreate 1 1; LWrite 1 2; LSync 1; LClose 1; LKill 1].
(** ... or after rename(2) *)
Definition sched_kill_after : list label :=
  solo_store 0 [1%N] [1] ++
  [LSpawnStore 1 0 [2%N; 3%N]; LCreate 1 1; LWrite 1 2; LSync 1; LClose 1; LRename 1; LKill 1].

(** Bundle's [Dead] at the index of a Store means "the effect HAS taken place".  Read as "a process
    killed during a Store leaves the new value" this is false: killed before the rename the OLD
    value stays (and the temp file stays, orphaned).  The sound reading: a kill during Store n is
    Bundle's crash at index n (after the rename) or at index n-1 (before it); both are in Bundle's
    plan space, and the map never holds anything else ([lts_step_refines_amap]). *)
Lemma dead_store_took_effect_refuted :
  exists s, reachable init_empty s /\ thr s 1 = TDead /\ In (EvStore 1 0 [2%N; 3%N]) (log s) /\
            named_value s 0 = Some [1%N] /\ lin (log s) = [AStore 0 [1%N]] /\
            renames_of 1 (log s) = [] /\
            exists i, dir s (NTemp 1) = Some i /\ (forall t, ~ owns (thr s t) 1).
Proof.
  destruct (run init_empty sched_kill_before) as [s|] eqn:R; [|vm_compute in R; discriminate].
  exists s. split; [split; [repeat split; intros; discriminate | exists sched_kill_before; exact R]|].
  vm_compute in R. injection R as <-. cbn [thr log dir].
  split; [reflexivity|]. split; [cbn; auto|]. split; [reflexivity|]. split; [reflexivity|].
  split; [reflexivity|]. exists 1. split; [reflexivity|].
  intros t (k & v & i & off & H). destruct t as [|[|t]]; cbn in H; discriminate.
Qed.
Example killed_store_took_effect :
  exists s, reachable init_empty s /\ thr s 1 = TDead /\
            named_value s 0 = Some [2%N; 3%N] /\ lin (log s) = [AStore 0 [1%N]; AStore 0 [2%N; 3%N]] /\
            renames_of 1 (log s) = [(0, [2%N; 3%N])].
Proof.
  destruct (run init_empty sched_kill_after) as [s|] eqn:R; [|vm_compute in R; discriminate].
  exists s. split; [split; [repeat split; intros; discriminate | exists sched_kill_after; exact R]|].
  vm_compute in R. injection R as <-. repeat split; reflexivity.
Qed.

(** * temp files are visible to List: the interference with CleanStorage (FINDING)

    FileStorage.List does not filter the temp files of atomicfile (os.CreateTemp(dir, "") in the
    destination's directory: a name of decimal digits).  OCSP staples are stored directly below
    "ocsp", which deleteOldOCSPStaples Lists, Loads and Deletes when the bytes do not parse.  The
    temp file of a Store in flight (created, not yet or partially written) is such a key. *)

(** Clean.Model side: any unparseable file directly below "ocsp" is deleted by the OCSP pass *)
Module CleanTemp.
  Import CM.Clean.Model CM.Gen.Consts.
  Definition temp_key : key := prefix_ocsp ++ [47%N; 51%N; 55%N; 55%N].        (* ocsp/377 *)
  Definition half_written : node := CleanCorr.f0.                               (* parses as nothing *)
  Example clean_deletes_temp_of_inflight_store :
    exists e : env,                                                             (* an environment without faults *)
      sto (delete_old_staples e (fun _ => 0%Z) (CleanCorr.st_of [(temp_key, half_written)])) = [].
  Proof. exists CleanCorr.env0. vm_compute. reflexivity. Qed.
End CleanTemp.

(** FileSys.Lts side: the LTS has no step that removes another thread's temp name; with that foreign
    unlink added, the writer can no longer rename: its Store can only report an error (no effect) *)
Definition foreign_unlink_temp (s : state) (n : nat) : state :=
  State (upd_name (dir s) (NTemp n) None) (data s) (next s) (thr s) (log s).
Lemma cleaner_removes_temp_store_fails s t k v tmp i : thr s t = WClosed k v tmp i ->
  let s1 := foreign_unlink_temp s tmp in
  step s1 (LRename t) = None /\
  exists s2, step s1 (LFail t) = Some s2 /\ thr s2 t = WErr k v /\ lin (log s2) = lin (log s) /\
             forall k', named_value s2 k' = named_value s k'.
Proof.
  intros Ht. cbn zeta. unfold foreign_unlink_temp. split.
  - cbn [step thr dir]. rewrite Ht, upd_name_eq. reflexivity.
  - cbn [step thr dir]. rewrite Ht. eexists. split; [reflexivity|]. cbn [thr log]. split; [apply upd_nat_eq|].
    split; [reflexivity|]. intros k'. unfold named_value. cbn [dir data]. rewrite !upd_name_neq by discriminate.
    reflexivity.
Qed.
