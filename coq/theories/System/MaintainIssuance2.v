(** System / S9 (part 2) -- the window theorem: what the other threads leave alone while a thread
    owns the issuance lock (continuation of MaintainIssuance.v, see the header there). *)
From Coq Require Import List Bool Arith Lia.
From CM Require Import Issuance.Model Issuance.Proofs Issuance.Invariants.
From CM Require Import System.LockEvent System.MaintainIssuance.
Import ListNotations.
Open Scope nat_scope.

(** * 4. What the other threads leave alone while [t] owns the lock *)
(** may a request with configuration [c] ever write file [j] of the bundle of name class [n]?
    obtain / renew / manage save under [c_vk]; updateARI rewrites only the metadata file;
    the account code ([PAcct], C09) stores a registration and a key under its own [c_vk]
    (counted as a possible writer of every file of that class);
    CleanStorage is abstract (it writes last_clean.json only) *)
Definition may_write (c : tcfg) (n : nat) (j : kind) : bool :=
  Nat.eqb (c_vk c) n &&
  match c_prog c with
  | PObtain _ | PRenew _ | PManage => true
  | PAri _ => kind_eqb j KMeta
  | PAcct _ => true
  | PClean _ => false
  end.

Lemma writes_pc_locked p j : writes_pc p j -> locked p = true.
Proof. intros [->|[->|[[-> _]|[->|[-> _]]]]]; reflexivity. Qed.

Lemma cur_prog_cert th :
  twf th -> cur th = OpObtain \/ cur th = OpRenew ->
  match c_prog (cfg th) with PObtain _ | PRenew _ | PManage => True | _ => False end.
Proof.
  intros (Hp & _ & _) Hk. destruct (c_prog (cfg th)); cbn in Hp; auto;
    destruct Hp as [Hp _]; destruct Hk; congruence.
Qed.

Lemma writes_pc_may_write th j :
  twf th -> cpc_ok th -> writes_pc (tpc th) j -> may_write (cfg th) (c_vk (cfg th)) j = true.
Proof.
  intros Hw Hk Hwp. pose proof Hw as (Hp & Hc & _).
  unfold may_write, cpc_ok in *. rewrite Nat.eqb_refl. cbn [andb].
  destruct Hwp as [E|[E|[[E ->]|[E|[E ->]]]]]; rewrite E in *; cbn in Hc, Hk.
  - pose proof (cur_prog_cert th Hw (Hk eq_refl)) as X. destruct (c_prog (cfg th)); auto; destruct X.
  - pose proof (cur_prog_cert th Hw (Hk eq_refl)) as X. destruct (c_prog (cfg th)); auto; destruct X.
  - destruct (c_prog (cfg th)); cbn in Hp; auto; try (destruct Hp as [Hp _]; congruence).
  - destruct (c_prog (cfg th)); cbn in Hp; auto; try (destruct Hp as [Hp _]; congruence).
  - destruct (c_prog (cfg th)); cbn in Hp; auto; try (destruct Hp as [Hp _]; congruence).
Qed.

(** one step of another thread, while [t] owns [l]: ownership stays, and a bundle file all of
    whose possible writers use lock [l] is not changed *)
Lemma step_other_keeps_lock s lb s' e l t :
  step s lb = Some (s', e) -> lks (sh s) l = Some t -> l_tid lb <> t -> lks (sh s') l = Some t.
Proof.
  intros Hs Hl Hne. rewrite (step_owner _ _ _ _ l Hs), Hl.
  apply step_inv in Hs. destruct Hs as (th & th' & sh' & _ & Hts & _).
  destruct (tstep_lock_event _ _ _ _ _ _ _ _ Hts) as [_ Hev]. unfold owner_ev.
  destruct (e_op e); try reflexivity; destruct (e_out e) as [|o]; try reflexivity.
  - destruct Hev as (-> & _ & Hnone & _). destruct (Nat.eqb_spec (c_lk (cfg th)) l) as [E|E]; [|reflexivity].
    rewrite E in Hnone. congruence.
  - destruct Hev as (-> & Hsome & _). destruct (Nat.eqb_spec (c_lk (cfg th)) l) as [E|E]; [|reflexivity].
    rewrite E in Hsome. congruence.
Qed.

Lemma step_other_keeps_file cs st s lb s' e l t n j :
  reachable cs st s ->
  step s lb = Some (s', e) -> lks (sh s) l = Some t -> l_tid lb <> t ->
  (forall c, In c cs -> may_write c n j = true -> c_lk c = l) ->
  sto (sh s') (SK n j) = sto (sh s) (SK n j).
Proof.
  intros Hr Hs Hl Hne Hw.
  pose proof (I_lock_reachable _ _ _ Hr) as HI.
  destruct (reachable_twf_cpc _ _ _ Hr) as [HT HC].
  destruct (step_inv _ _ _ _ Hs) as (th & th' & sh' & Hn & Hts & ->). cbn [sh].
  destruct (tstep_sto_effect _ _ _ _ _ _ _ _ Hts) as [->|(k & v & -> & Hk)]; [reflexivity|].
  destruct Hk as [->|[->|(j' & -> & Hwp)]]; try (apply sput_neq; discriminate).
  destruct (Nat.eq_dec (c_vk (cfg th)) n) as [En|En];
    [destruct (kind_eqb j' j) eqn:Ej|]; try (apply sput_neq; intros X; inversion X; subst;
      try congruence; destruct j; discriminate).
  exfalso. assert (j' = j) by (destruct j', j; try discriminate; reflexivity). subst j' n.
  pose proof (writes_pc_may_write _ _ (HT _ _ Hn) (HC _ _ Hn) Hwp) as Hmw.
  pose proof (cfg_in_init _ _ _ Hr _ _ Hn) as Hc. apply nth_error_In in Hc.
  pose proof (HI _ _ Hn (writes_pc_locked _ _ Hwp)) as Hmine.
  rewrite (Hw _ Hc Hmw), Hl in Hmine. congruence.
Qed.

(** THE WINDOW THEOREM.  [s0] is reached by some run and thread [t] owns lock [l] there (it is
    inside its locked region).  Let the OTHER threads run, any number of steps, any schedule, any
    faults ([es] has no event of [t]).  Then: [t] still owns [l]; [t]'s thread record is
    unchanged; every bundle file [SK n j] whose possible writers ([may_write]) all use lock [l]
    has the content it had.  So between two consecutive operations of an attempt the files of
    the name are as the attempt left them: the attempt's Loads, its decision, its Stores act on
    storage as if they were performed in one step -- which is how Maintain performs them. *)
Theorem locked_window_frame cs st s0 es s1 t l :
  reachable cs st s0 ->
  lks (sh s0) l = Some t ->
  runs any_label s0 es s1 ->
  (forall e, In e es -> e_tid e <> t) ->
  lks (sh s1) l = Some t /\
  (forall th, thread_at s0 t th -> thread_at s1 t th) /\
  (forall n j, (forall c, In c cs -> may_write c n j = true -> c_lk c = l) ->
               sto (sh s1) (SK n j) = sto (sh s0) (SK n j)).
Proof.
  intros Hr Hl R. revert Hr Hl.
  induction R as [s|s lb s1 e es s2 _ Hs R IH]; intros Hr Hl Hne.
  - repeat split; auto.
  - assert (Htid : l_tid lb <> t).
    { destruct (step_inv _ _ _ _ Hs) as (th & th' & sh' & _ & Hts & _).
      rewrite <- (tstep_tid _ _ _ _ _ _ _ _ Hts). apply Hne. left; reflexivity. }
    assert (Hr1 : reachable cs st s1).
    { destruct Hr as [es0 R0]. exists (es0 ++ [e]). eapply runs_app; eauto.
      econstructor; [exact I|exact Hs|constructor]. }
    pose proof (step_other_keeps_lock _ _ _ _ _ _ Hs Hl Htid) as Hl1.
    destruct (IH Hr1 Hl1) as (A & B & C). { intros e' Hin. apply Hne. right; exact Hin. }
    split; [exact A|]. split.
    + intros th Hth. apply B. destruct (step_thread_same _ _ _ _ Hs) as (_ & _ & _ & _ & _ & Hoth).
      apply Hoth; auto.
    + intros n j Hw. rewrite (C n j Hw). eapply step_other_keeps_file; eauto.
Qed.

Lemma tstep_iss_idn t th s f b th' s' e i :
  tstep t th s f b = Some (th', s', e) -> e_op e = OIssS i \/ e_op e = OIssE i -> c_idn (cfg th) = i.
Proof.
  intros H Hop. destruct th as [c p ? ? ? ? ? ? ? ? ?]. destruct p.
  all: tstep_full H. all: inv_some H. all: cbn in Hop. all: destruct Hop as [X|X]; try discriminate X.
  all: inversion X; reflexivity.
Qed.

(** the same for the issuer: no other request for an identifier all of whose requesters use lock
    [l] enters or leaves Issuer.Issue during the window *)
Theorem locked_window_no_issue cs st s0 es s1 t l :
  reachable cs st s0 ->
  lks (sh s0) l = Some t ->
  runs any_label s0 es s1 ->
  (forall e, In e es -> e_tid e <> t) ->
  forall e i, In e es -> (e_op e = OIssS i \/ e_op e = OIssE i) ->
    exists c, nth_error cs (e_tid e) = Some c /\ c_idn c = i /\ c_lk c <> l.
Proof.
  intros Hr Hl R. revert Hr Hl.
  induction R as [s|s lb s1 e es s2 _ Hs R IH]; intros Hr Hl Hne e0 i Hin Hop; [destruct Hin|].
  assert (Htid : l_tid lb <> t).
  { destruct (step_inv _ _ _ _ Hs) as (th & th' & sh' & _ & Hts & _).
    rewrite <- (tstep_tid _ _ _ _ _ _ _ _ Hts). apply Hne. left; reflexivity. }
  destruct Hin as [<-|Hin].
  - pose proof (I_lock_reachable _ _ _ Hr) as HI.
    destruct (step_inv _ _ _ _ Hs) as (th & th' & sh' & Hn & Hts & _).
    pose proof (tstep_tid _ _ _ _ _ _ _ _ Hts) as Ht.
    assert (G : guarded_op (e_op e) = true) by (destruct Hop as [-> | ->]; reflexivity).
    pose proof (HI _ _ Hn (tstep_guarded_locked _ _ _ _ _ _ _ _ Hts G)) as Hmine.
    pose proof (cfg_in_init _ _ _ Hr _ _ Hn) as Hc.
    exists (cfg th). rewrite Ht. split; [exact Hc|]. split.
    + eapply tstep_iss_idn; eauto.
    + intros E. rewrite E, Hl in Hmine. congruence.
  - assert (Hr1 : reachable cs st s1).
    { destruct Hr as [es0 R0]. exists (es0 ++ [e]). eapply runs_app; eauto.
      econstructor; [exact I|exact Hs|constructor]. }
    apply (IH Hr1 (step_other_keeps_lock _ _ _ _ _ _ Hs Hl Htid)) with (e := e0); auto.
    intros e' Hin'. apply Hne. right; exact Hin'.
Qed.

(** * 5. The hypotheses are satisfiable: two renewers of one name and a reader *)
Definition ex_cfg (p : prog) : tcfg := TCfg p 7 3 3 3 false false false false.
Definition ex_sto : skey -> option value :=
  sto_of_list [(SK 3 KKey, VKey 1); (SK 3 KCrt, VCrt (Cert 5 1 true)); (SK 3 KMeta, VMeta 5)].
(** thread 0 (RenewCertAsync) takes the lock and loads; thread 1 (RenewCertSync) asks for the
    lock; thread 2 (ManageSync) loads the key file WITHOUT the lock; thread 0 goes on *)
Definition ex_labels : list label :=
  [Label 0 FNone false; Label 0 FNone false; Label 0 FNone false;
   Label 1 FNone false; Label 2 FNone false; Label 0 FNone false].

Example ex_window_nontrivial :
  exists s es, run (init_state [ex_cfg (PRenew true); ex_cfg (PRenew false); ex_cfg PManage] ex_sto) ex_labels = Some (s, es) /\
    map e_tid es = [0; 0; 0; 1; 2; 0] /\
    owner_tr 7 (firstn 3 es) None = Some 0 /\
    map (fun e => guarded_op (e_op e)) es = [false; false; false; false; false; false] /\
    (forall c, In c [ex_cfg (PRenew true); ex_cfg (PRenew false); ex_cfg PManage] ->
       forall j, may_write c 3 j = true -> c_lk c = 7).
Proof.
  eexists. eexists. split; [vm_compute; reflexivity|]. repeat split.
  intros c [<-|[<-|[<-|[]]]] j _; reflexivity.
Qed.
