(** System: C04 (renewal decision) underneath C05 (maintenance).

    C05's model ([Maintain.Model]) gives every certificate a boolean [cdue] -- "the verdict of
    Certificate.NeedsRenewal / managedCertNeedsRenewal (property C04), which does not change
    during a history" -- and a model argument [idue] ("the issuer hands out certificates that are
    already due").  C04 ([Renewal.Model]) is the decision itself: [decide scale i rnd now].
    Here the bit is INSTANTIATED by the decision, and C04's theorems are pushed through C05's.

    Which function decides where (read in the Go code, /work/S/repo):
    - the CACHED copy: maintain.go L145 (scan of RenewManagedCertificates) and config.go L466
      (manageOne) call [cert.NeedsRenewal(cfg)] = certNeedsRenewal(cert.Leaf, cert.ari, true)
      (certificates.go L78) = C04's [decide_leaf has_leaf];
    - the STORED copy: maintain.go L152 -> managedCertInStorageNeedsRenewal (certificates.go
      L494) and the attempt under the lock in renewCert (config.go L815) call
      [managedCertNeedsRenewal(certRes)] (config.go L1267) = C04's [managed_decide parsed].
    For a certificate with a leaf / a parsable bundle both are [decide] ([decide_paths_agree],
    from C04_managed_variant); Maintain uses ONE record for a certificate and its stored copy,
    so the instantiation assumes both were built from the same bundle and the same renewal
    information (updateARI writes both: maintain.go L509 / L563).

    Instantiation.  [env k] = the C04 inputs (validity, RenewCheckInterval, ratio, ARI) of the
    certificate with identity [k]; [draw k] = the value rand.Int63n returns for it (fixed over a
    history: C04's monotonicity needs that; irrelevant unless a time is improvised).
    [at_time scale now rnd t] sets [cdue] of a timed certificate to
    [decide scale (inputs) rnd now = Renew]; [Timed .. now s] says every certificate of the
    Maintain state [s] carries C04's verdict at the instant [now]; [retime .. now' s] re-decides
    every certificate of [s] at another instant. *)
From Coq Require Import ZArith List Bool Lia Arith.
From CM Require Import Gen.Consts Renewal.Model Renewal.Proofs Renewal.F64 Renewal.F64Proofs.
From CM Require Import Maintain.Model Maintain.Spec Maintain.Base Maintain.Inv Maintain.Proofs.
Import ListNotations.
Open Scope nat_scope.

(** ---- the instantiation ---- *)
Definition due_b (scale : Z -> ratio -> Z) (i : inputs) (rnd now : Z) : bool :=
  verdict_eqb (decide scale i rnd now) Renew.

Record tcert := TCert { tc_cert : cert; tc_in : inputs }.
Definition at_time (scale : Z -> ratio -> Z) (now rnd : Z) (t : tcert) : cert :=
  {| cid := cid (tc_cert t); chead := chead (tc_cert t); crest := crest (tc_cert t);
     cdue := due_b scale (tc_in t) rnd now; cman := cman (tc_cert t) |}.

Lemma due_b_true scale i rnd now : due_b scale i rnd now = true <-> decide scale i rnd now = Renew.
Proof. unfold due_b. destruct (decide scale i rnd now); cbn; split; congruence. Qed.
Lemma due_b_false scale i rnd now : due_b scale i rnd now = false <-> decide scale i rnd now = Wait.
Proof.
  unfold due_b. pose proof (no_panic scale i rnd now) as NP.
  destruct (decide scale i rnd now); cbn; split; congruence.
Qed.

(** the cached copy's decision (NeedsRenewal, leaf present) and the stored copy's
    (managedCertNeedsRenewal, bundle parsable) are the same function *)
Lemma decide_paths_agree scale i rnd now :
  decide_leaf scale true i rnd now = decide scale i rnd now /\
  managed_decide scale true i rnd now = decide scale i rnd now.
Proof. split; [reflexivity | apply managed_decide_eq]. Qed.

(** ---- certificates of a state after one event: old ones, or the bundle just issued, or the
    bundle another instance just saved ---- *)
Section Closure.
  Variable od : name -> bool.
  Variable idue : bool.
  Variable P : cert -> Prop.
  Definition AllP (s : state) : Prop := forall c, InSt s c -> P c.

  Lemma AllP_same s s' :
    store s' = store s -> cache s' = cache s -> jobs s' = jobs s -> passes s' = passes s ->
    AllP s -> AllP s'.
  Proof. intros E1 E2 E3 E4 H c. rewrite InSt_iff, E1, E2, E3, E4, <- InSt_iff. apply H. Qed.

  Lemma AllP_with_cache s ca : AllP s -> (forall c, In c ca -> InSt s c) -> AllP (with_cache s ca).
  Proof.
    intros H Hc c. rewrite InSt_iff. comp. intros [K|K]; [apply H, Hc, K|].
    apply H. rewrite InSt_iff. tauto.
  Qed.
  Lemma AllP_with_jobs s js : AllP s -> (forall c, In c (job_olds js) -> InSt s c) -> AllP (with_jobs s js).
  Proof.
    intros H Hc c. rewrite InSt_iff. comp. intros [K|[K|[K|K]]]; [| | |apply H, Hc, K];
      apply H; rewrite InSt_iff; tauto.
  Qed.
  Lemma AllP_with_passes s ps : AllP s -> (forall c, In c (pass_certs ps) -> InSt s c) -> AllP (with_passes s ps).
  Proof.
    intros H Hc c. rewrite InSt_iff. comp. intros [K|[K|[K|K]]]; [| |apply H, Hc, K|];
      apply H; rewrite InSt_iff; tauto.
  Qed.
  Lemma AllP_issue s n : AllP s -> P (new_cert idue s n) -> AllP (issue idue s n).
  Proof.
    intros H Hn c. rewrite InSt_iff. unfold issue. comp. cbn [map snd In].
    intros [K|[[K|K]|[K|K]]]; [| subst c; exact Hn | | |]; apply H; rewrite InSt_iff; tauto.
  Qed.
  Lemma InSt_with_failed s x c : InSt (with_failed s x) c <-> InSt s c.
  Proof. rewrite !InSt_iff. comp. tauto. Qed.
  Lemma InSt_with_err s x c : InSt (with_err s x) c <-> InSt s c.
  Proof. rewrite !InSt_iff. comp. tauto. Qed.
  Lemma InSt_issue_old s n c : InSt s c -> InSt (issue idue s n) c.
  Proof. rewrite !InSt_iff. unfold issue. comp. cbn [map snd In]. tauto. Qed.

  Lemma In_reload_one_InSt s ca old c :
    (forall x, In x ca -> InSt s x) -> In c (reload_one (store s) ca old) -> InSt s c.
  Proof.
    intros Hca H. apply In_reload_one in H. destruct H as [H|H]; [apply Hca, H | apply InSt_store, H].
  Qed.
  Lemma In_cache_add_InSt s st c n :
    stored (store s) n = Some st -> In c (cache_add st (cache s)) -> InSt s c.
  Proof.
    intros S H. apply In_cache_add in H. destruct H as [H| ->]; [apply InSt_cache, H | eapply InSt_stored, S].
  Qed.

  (** [N0]: identities from [N0] on are the ones handed out from now on *)
  Variable N0 : nat.
  Hypothesis P_issued : forall s n, N0 <= next s -> P (new_cert idue s n).
  Hypothesis P_ext : forall s n rest, N0 <= next s -> P {| cid := next s; chead := n; crest := rest; cdue := false; cman := true |}.

  Lemma AllP_job_step s n k : N0 <= next s -> AllP s -> AllP (job_step idue s n k).
  Proof.
    intros HN H. unfold job_step.
    destruct (split_job n k (jobs s)) as [[[pre j] post]|] eqn:SJ; [|exact H].
    destruct (split_job_spec _ _ _ _ _ _ SJ) as [EJ EN].
    assert (Hkeep : forall s' p, AllP s' -> jobs s' = jobs s -> AllP (with_jobs s' (pre ++ set_pc j p :: post))).
    { intros s' p H' Ej. apply AllP_with_jobs; [exact H'|]. intros c Hc.
      apply (job_olds_sub_replace pre j (set_pc j p) post c eq_refl) in Hc. rewrite <- EJ, <- Ej in Hc.
      apply InSt_job, Hc. }
    assert (Hdone : forall s', AllP s' -> jobs s' = jobs s -> AllP (with_jobs s' (pre ++ post))).
    { intros s' H' Ej. apply AllP_with_jobs; [exact H'|]. intros c Hc.
      apply (job_olds_sub_remove pre j post c) in Hc. rewrite <- EJ, <- Ej in Hc. apply InSt_job, Hc. }
    assert (Hissue : AllP (issue idue s n)) by (apply AllP_issue; [exact H | apply P_issued, HN]).
    destruct (jkd j), (jpc_ j).
    - (* obtain, queued *)
      destruct (stored (store s) n) as [st|] eqn:S.
      + apply Hdone; [|reflexivity]. apply AllP_with_cache; [exact H|]. intros c. apply (In_cache_add_InSt s st c n S).
      + destruct (lock_held (jobs s) n); [exact H | apply Hkeep; [exact H | reflexivity]].
    - destruct (stored (store s) n) as [st|] eqn:S; [apply Hkeep; [exact H | reflexivity]|].
      destruct (is_failing s n); [intros c Hc; apply InSt_with_failed in Hc; apply H, Hc|].
      apply Hkeep; [exact Hissue | reflexivity].
    - destruct (stored (store s) n) as [st|] eqn:S; [|apply Hdone; [exact H | reflexivity]].
      apply Hdone; [|reflexivity]. apply AllP_with_cache; [exact H|]. intros c. apply (In_cache_add_InSt s st c n S).
    - destruct (lock_held (jobs s) n); [exact H | apply Hkeep; [exact H | reflexivity]].
    - destruct (stored (store s) n) as [st|] eqn:S; [|exact H].
      destruct (cdue st); [|apply Hkeep; [exact H | reflexivity]].
      destruct (is_failing s n); [intros c Hc; apply InSt_with_failed in Hc; apply H, Hc|].
      apply Hkeep; [exact Hissue | reflexivity].
    - destruct (jold j) as [old|]; [|apply Hdone; [exact H | reflexivity]].
      apply Hdone; [|reflexivity]. apply AllP_with_cache; [exact H|]. intros c.
      apply In_reload_one_InSt. intros x. apply InSt_cache.
  Qed.

  Lemma AllP_manage s n a : N0 <= next s -> AllP s -> AllP (manage od idue s n a).
  Proof.
    intros HN H. unfold manage. destruct (od n); [exact H|].
    destruct (managed_for n (cache s)); [exact H|].
    destruct (stored (store s) n) as [st|] eqn:S.
    - assert (H0 : AllP (with_cache s (cache_add st (cache s)))).
      { apply AllP_with_cache; [exact H|]. intros c. apply (In_cache_add_InSt s st c n S). }
      assert (Ist : InSt (with_cache s (cache_add st (cache s))) st).
      { rewrite InSt_iff. comp. right. left. eapply stored_In_snd, S. }
      destruct (cdue st); [|exact H0].
      destruct a.
      + apply AllP_with_jobs; [exact H0|]. intros c Hc. apply In_submit_renew_olds in Hc.
        destruct Hc as [Hc| ->]; [apply InSt_job, Hc | exact Ist].
      + destruct (lock_held (jobs s) n); [exact H|].
        destruct (is_failing s n).
        * intros c Hc. apply InSt_with_err, InSt_with_failed in Hc. apply H0, Hc.
        * set (s0 := with_cache s (cache_add st (cache s))) in *.
          assert (H1 : AllP (issue idue s0 n)) by (apply AllP_issue; [exact H0 | apply P_issued, HN]).
          apply AllP_with_cache; [exact H1|]. intros c. apply In_reload_one_InSt. intros x. apply InSt_cache.
    - destruct a.
      + apply AllP_with_jobs; [exact H|]. intros c Hc. rewrite job_olds_app, in_app_iff in Hc.
        destruct Hc as [Hc|Hc]; [apply InSt_job, Hc | destruct Hc].
      + destruct (lock_held (jobs s) n); [exact H|].
        destruct (is_failing s n).
        * intros c Hc. apply InSt_with_err, InSt_with_failed in Hc. apply H, Hc.
        * assert (H1 : AllP (issue idue s n)) by (apply AllP_issue; [exact H | apply P_issued, HN]).
          destruct (stored (store (issue idue s n)) n) as [c0|] eqn:S1; [|exact H1].
          apply AllP_with_cache; [exact H1|]. intros c. apply (In_cache_add_InSt _ c0 c n S1).
  Qed.

  Theorem AllP_step s e : N0 <= next s -> AllP s -> AllP (step od idue s e).
  Proof.
    intros HN H. unfold step.
    assert (H' : AllP (with_err s false)) by (intros c Hc; apply InSt_with_err in Hc; apply H, Hc).
    assert (HN' : N0 <= next (with_err s false)) by exact HN.
    set (s0 := with_err s false) in *. clearbody s0. clear H HN s.
    destruct e as [p|p|n rest|n f|n k|n a].
    - (* scan *)
      unfold pass_scan. apply AllP_with_passes; [exact H'|]. intros c Hc.
      rewrite pass_certs_app, in_app_iff in Hc. destruct Hc as [Hc|Hc]; [apply InSt_pass, Hc|].
      unfold pass_certs in Hc. cbn [flat_map preload prenew] in Hc. rewrite app_nil_r, in_app_iff in Hc.
      apply InSt_cache. unfold scan_reload, scan_renew in Hc. rewrite !filter_In in Hc. tauto.
    - (* act *)
      unfold pass_act. destruct (take_pass p (passes s0)) as [[q rest]|] eqn:T; [|exact H'].
      destruct (take_pass_spec _ _ _ _ T) as (_ & a & b & Eps & Erest).
      assert (Hq : forall c, In c (preload q ++ prenew q) -> InSt s0 c).
      { intros c Hc. apply InSt_pass. rewrite Eps, pass_certs_app, in_app_iff. right.
        change (q :: b) with ([q] ++ b). rewrite pass_certs_app, in_app_iff. left.
        unfold pass_certs. cbn [flat_map]. rewrite app_nil_r. exact Hc. }
      intros c. rewrite InSt_iff. comp. intros [K|[K|[K|K]]].
      + apply In_fold_reload in K. apply H'. destruct K as [K|K]; [apply InSt_cache, K | apply InSt_store, K].
      + apply H', InSt_store, K.
      + apply H', InSt_pass. rewrite Eps. rewrite Erest in K. rewrite pass_certs_app, in_app_iff in *.
        change (q :: b) with ([q] ++ b). rewrite pass_certs_app, in_app_iff. tauto.
      + apply In_fold_submit_olds in K. apply H'. destruct K as [K|K]; [apply InSt_job, K|].
        apply Hq. rewrite in_app_iff. tauto.
    - (* another instance saves a bundle *)
      unfold ext_renew. intros c. rewrite InSt_iff. comp. cbn [map snd In].
      intros [K|[[K|K]|[K|K]]]; [| subst c; apply P_ext, HN' | | |]; apply H'; rewrite InSt_iff; tauto.
    - unfold set_issuer. eapply AllP_same; [| | | |exact H']; reflexivity.
    - apply AllP_job_step; assumption.
    - apply AllP_manage; assumption.
  Qed.

  (** serial numbers only grow *)
  Lemma next_step_mono s e : next s <= next (step od idue s e).
  Proof.
    unfold step. destruct e as [p|p|n rest|n f|n k|n a]; cbn zeta.
    - cbn. lia.
    - unfold pass_act. destruct (take_pass p _) as [[q r]|]; cbn; lia.
    - cbn. lia.
    - cbn. lia.
    - unfold job_step. destruct (split_job n k _) as [[[pre j] post]|]; [|cbn; lia].
      destruct (jkd j), (jpc_ j);
        repeat (match goal with |- context [match ?x with _ => _ end] => destruct x end); cbn; lia.
    - unfold manage.
      repeat (match goal with |- context [match ?x with _ => _ end] => destruct x end); cbn; lia.
  Qed.

  Theorem AllP_run h : forall s, N0 <= next s -> AllP s -> AllP (run od idue s h).
  Proof.
    induction h as [|e h IH]; intros s HN H; [exact H|]. cbn [run fold_left].
    apply IH; [pose proof (next_step_mono s e); lia | apply AllP_step; assumption].
  Qed.
End Closure.

(** ---- re-deciding every certificate of a state ---- *)
Definition map_job (f : cert -> cert) (j : job) : job :=
  {| jname := jname j; jkd := jkd j; jold := option_map f (jold j); jpc_ := jpc_ j |}.
Definition map_pass (f : cert -> cert) (q : pass) : pass :=
  {| pid := pid q; preload := map f (preload q); prenew := map f (prenew q) |}.
Definition map_state (f : cert -> cert) (s : state) : state :=
  {| store := map (fun p => (fst p, f (snd p))) (store s); cache := map f (cache s);
     jobs := map (map_job f) (jobs s); passes := map (map_pass f) (passes s);
     failing := failing s; issued := issued s; failed := failed s; next := next s; lasterr := lasterr s |}.

Lemma pass_certs_map f ps : pass_certs (map (map_pass f) ps) = map f (pass_certs ps).
Proof.
  unfold pass_certs. induction ps as [|q r IH]; [reflexivity|].
  cbn [map flat_map map_pass preload prenew]. rewrite IH, !map_app. reflexivity.
Qed.
Lemma job_olds_map f js : job_olds (map (map_job f) js) = map f (job_olds js).
Proof.
  unfold job_olds. induction js as [|j r IH]; [reflexivity|].
  cbn [map flat_map map_job jold]. rewrite IH, map_app. destruct (jold j); reflexivity.
Qed.
Lemma all_certs_map f s : all_certs (map_state f s) = map f (all_certs s).
Proof.
  unfold all_certs, map_state. comp. rewrite pass_certs_map, job_olds_map, !map_app, !map_map. reflexivity.
Qed.
Lemma InSt_map f s c' : InSt (map_state f s) c' <-> exists c, InSt s c /\ c' = f c.
Proof.
  unfold InSt. rewrite all_certs_map, in_map_iff. split; intros (c & H1 & H2); exists c; auto.
Qed.
Lemma stored_map f st n : stored (map (fun p => (fst p, f (snd p))) st) n = option_map f (stored st n).
Proof.
  unfold stored. induction st as [|[m c] r IH]; [reflexivity|]. cbn [map find fst snd].
  destruct (m =? n); [reflexivity | exact IH].
Qed.
Lemma filter_map_length {A} (p : A -> bool) (g : A -> A) l :
  (forall x, p (g x) = p x) -> length (filter p (map g l)) = length (filter p l).
Proof.
  intros H. induction l as [|x r IH]; [reflexivity|]. cbn [map filter]. rewrite H.
  destruct (p x); cbn [length]; rewrite IH; reflexivity.
Qed.

Section Timed.
  Variable scale : Z -> ratio -> Z.
  Variable env : nat -> inputs.      (* identity -> validity, interval, ratio, ARI *)
  Variable draw : nat -> Z.          (* identity -> what rand.Int63n returns for it *)

  (** C04's verdict on the certificate with identity [k] at the instant [now] *)
  Definition verdict_at (now : Z) (k : nat) : bool := due_b scale (env k) (draw k) now.
  Definition retime_cert (now : Z) (c : cert) : cert :=
    at_time scale now (draw (cid c)) {| tc_cert := c; tc_in := env (cid c) |}.
  Definition retime (now : Z) (s : state) : state := map_state (retime_cert now) s.
  (** every certificate of the state carries C04's verdict at [now] *)
  Definition Timed (now : Z) (s : state) : Prop := forall c, InSt s c -> cdue c = verdict_at now (cid c).

  Lemma retime_cert_fields now c :
    cid (retime_cert now c) = cid c /\ chead (retime_cert now c) = chead c /\
    crest (retime_cert now c) = crest c /\ cman (retime_cert now c) = cman c /\
    cdue (retime_cert now c) = verdict_at now (cid c).
  Proof. repeat split. Qed.
  Lemma retime_cert_id now c : cdue c = verdict_at now (cid c) -> retime_cert now c = c.
  Proof. intros H. destruct c. unfold retime_cert, at_time. cbn in *. rewrite H. reflexivity. Qed.

  Theorem Timed_retime now s : Timed now (retime now s).
  Proof. intros c' Hc. apply InSt_map in Hc. destruct Hc as (c & _ & ->). reflexivity. Qed.

  (** re-deciding at the instant the state is timed for changes nothing *)
  Theorem retime_same_instant now s : Timed now s -> retime now s = s.
  Proof.
    intros HT. unfold retime, map_state.
    assert (Hc : forall c, InSt s c -> retime_cert now c = c) by (intros c Hc; apply retime_cert_id, HT, Hc).
    destruct s as [st ca js ps fl iss fd nx le]. comp. f_equal.
    - rewrite <- (map_id st) at 2. apply map_ext_in. intros [n c] Hin. cbn [fst snd].
      rewrite Hc; [reflexivity|]. apply InSt_store. comp. apply in_map_iff. exists (n, c). auto.
    - rewrite <- (map_id ca) at 2. apply map_ext_in. intros c Hin. apply Hc, InSt_cache, Hin.
    - rewrite <- (map_id js) at 2. apply map_ext_in. intros j Hin. destruct j as [jn jk [old|] jp]; [|reflexivity].
      unfold map_job. cbn [jname jkd jold jpc_ option_map]. rewrite Hc; [reflexivity|].
      apply InSt_job. comp. apply In_job_olds. eexists. split; [exact Hin | reflexivity].
    - rewrite <- (map_id ps) at 2. apply map_ext_in. intros q Hin. destruct q as [qi qa qb].
      unfold map_pass. cbn [pid preload prenew].
      assert (Hq : forall c, In c (qa ++ qb) -> retime_cert now c = c).
      { intros c Hc'. apply Hc, InSt_pass. comp. apply In_pass_certs. eexists. split; [exact Hin | exact Hc']. }
      f_equal.
      + rewrite <- (map_id qa) at 2. apply map_ext_in. intros c Hc'. apply Hq, in_or_app. auto.
      + rewrite <- (map_id qb) at 2. apply map_ext_in. intros c Hc'. apply Hq, in_or_app. auto.
  Qed.

  (** ---- (d) the model's run IS the timed semantics when what is handed out during the
      history is not due at [now]: [Timed] is an invariant of histories with [idue = false] ---- *)
  Theorem Timed_run od now s h :
    Timed now s -> (forall k, next s <= k -> verdict_at now k = false) ->
    Timed now (run od false s h).
  Proof.
    intros HT Hfresh.
    apply (AllP_run od false (fun c => cdue c = verdict_at now (cid c)) (next s)); [| |lia|exact HT].
    - intros s' n HN. cbn. symmetry. apply Hfresh, HN.
    - intros s' n rest HN. cbn. symmetry. apply Hfresh, HN.
  Qed.

  (** ---- (c) monotonicity: with the draw fixed, a verdict only moves from wait to renew ---- *)
  Theorem verdict_monotone now now' k : (now <= now')%Z -> verdict_at now k = true -> verdict_at now' k = true.
  Proof.
    unfold verdict_at. rewrite !due_b_true. intros Hle H. eapply monotone_in_now; eauto.
  Qed.
  (** ... and without any condition on the draws when no time is improvised for [k] (stored
      selected time, no renewal information, or ARI disabled) *)
  Theorem verdict_monotone_any_draw now now' k rnd' :
    improvises (env k) = false -> (now <= now')%Z ->
    verdict_at now k = true -> due_b scale (env k) rnd' now' = true.
  Proof.
    unfold verdict_at. rewrite !due_b_true. intros Hi Hle H. eapply monotone_in_now_any_draw; eauto.
  Qed.

  Lemma eligible_retime od now now' c :
    (now <= now')%Z -> cdue c = verdict_at now (cid c) -> eligible od c = true ->
    eligible od (retime_cert now' c) = true.
  Proof.
    intros Hle Ht He. apply eligible_parts in He. destruct He as (Hm & Ho & Hd).
    unfold eligible. cbn [retime_cert at_time cman chead cdue tc_cert tc_in]. rewrite Hm, Ho. cbn.
    apply (verdict_monotone now now' _ Hle). congruence.
  Qed.

  (** what a split history needs: every clause of C05's invariant [WF] survives re-deciding at a
      later instant EXCEPT "a queued reload stays reloadable" (the stored copy a pass has
      decided to reload may have become due) -- so that clause is asked for at the new instant *)
  Theorem WF_retime od now now' s :
    WF od s -> Timed now s -> (now <= now')%Z ->
    (forall q c st, In q (passes s) -> In c (preload q) -> stored (store s) (chead c) = Some st ->
                    verdict_at now' (cid st) = false) ->
    WF od (retime now' s).
  Proof.
    intros W HT Hle Hreload. constructor.
    - intros c' Hc. apply InSt_map in Hc. destruct Hc as (c & Hc & ->). apply (wf_lt od s W c Hc).
    - intros c1' c2' H1 H2 E. apply InSt_map in H1. apply InSt_map in H2.
      destruct H1 as (c1 & H1 & ->), H2 as (c2 & H2 & ->). rewrite (wf_uniq od s W c1 c2 H1 H2 E). reflexivity.
    - intros n c' Hin. unfold retime, map_state in Hin. comp. apply in_map_iff in Hin.
      destruct Hin as ([m c] & Heq & Hin). cbn [fst snd] in Heq. injection Heq as <- <-.
      apply (wf_store od s W m c Hin).
    - intros q' c' Hq Hc. unfold retime, map_state in Hq. comp. apply in_map_iff in Hq.
      destruct Hq as (q & <- & Hq). cbn [map_pass preload prenew] in Hc. rewrite <- map_app in Hc.
      apply in_map_iff in Hc. destruct Hc as (c & <- & Hc).
      apply (eligible_retime od now now'); [exact Hle | | apply (wf_pass od s W q c Hq Hc)].
      apply HT, InSt_pass, In_pass_certs. eauto.
    - intros q' c' Hq Hc. unfold retime, map_state in Hq |- *. comp. apply in_map_iff in Hq.
      destruct Hq as (q & <- & Hq). cbn [map_pass preload] in Hc.
      apply in_map_iff in Hc. destruct Hc as (c & <- & Hc).
      pose proof (wf_pass_fresh od s W q c Hq Hc) as F. unfold stored_fresh in *.
      rewrite stored_map. change (chead (retime_cert now' c)) with (chead c).
      destruct (stored (store s) (chead c)) as [st|] eqn:S; [|discriminate]. cbn [option_map].
      change (cdue (retime_cert now' st)) with (verdict_at now' (cid st)).
      rewrite (Hreload q c st Hq Hc S). reflexivity.
    - intros j' Hj. unfold retime, map_state in Hj. comp. apply in_map_iff in Hj.
      destruct Hj as (j & <- & Hj). pose proof (wf_jobs od s W j Hj) as K.
      unfold job_ok in *. cbn [map_job jkd jold jname]. destruct (jkd j), (jold j) as [old|] eqn:Eo; cbn [option_map]; try exact K.
      apply andb_true_iff in K. destruct K as [K1 K2]. apply andb_true_iff. split; [exact K1|].
      apply (eligible_retime od now now'); [exact Hle | | exact K2].
      apply HT, InSt_job, In_job_olds. eauto.
    - intros n. unfold retime, map_state. comp. rewrite filter_map_length; [apply (wf_renew1 od s W)|].
      intros j. reflexivity.
    - intros n. unfold retime, map_state. comp. rewrite filter_map_length; [apply (wf_lock1 od s W)|].
      intros j. reflexivity.
  Qed.
End Timed.

(** ================= C04's clauses pushed through C05's theorems ================= *)
Lemma filter_none {A} (f : A -> bool) (l : list A) : (forall x, In x l -> f x = false) -> filter f l = [].
Proof.
  induction l as [|y r IH]; intros H; [reflexivity|]. cbn [filter].
  rewrite (H y (or_introl eq_refl)). apply IH. intros x Hx. apply H. right. exact Hx.
Qed.
Lemma filter_singleton {A} (f : A -> bool) (l : list A) (c : A) :
  NoDup l -> In c l -> f c = true -> (forall x, In x l -> x <> c -> f x = false) -> filter f l = [c].
Proof.
  induction l as [|y r IH]; intros Hnd Hin Hc Hx; [destruct Hin|].
  inversion Hnd as [|? ? Hy Hr]; subst. cbn [filter]. destruct Hin as [->|Hin].
  - rewrite Hc. f_equal. apply filter_none. intros x Hxr. apply Hx; [right; exact Hxr|].
    intros ->. contradiction.
  - rewrite (Hx y); [|left; reflexivity | intros ->; contradiction].
    apply IH; [exact Hr | exact Hin | exact Hc | intros x H; apply Hx; right; exact H].
Qed.

Section EndToEnd.
  Variable scale : Z -> ratio -> Z.
  Hypothesis Hscale : scale_spec scale.
  Variable env : nat -> inputs.
  Variable draw : nat -> Z.
  Notation verdict_at := (verdict_at scale env draw).
  Notation Timed := (Timed scale env draw).
  Local Open Scope Z_scope.

  (** C04's four renew_when_due clauses, as one hypothesis on the inputs of a certificate *)
  Definition due_reason (i : inputs) (rnd now : Z) : Prop :=
    (* strictly inside the configured final fraction of the lifetime *)
    (wf i /\ snd (eff_ratio (cfg_ratio i)) * remaining i now <
             fst (eff_ratio (cfg_ratio i)) * lifetime i - snd (eff_ratio (cfg_ratio i)) * eps (lifetime i)) \/
    (* emergency margin: final 1/50, or fewer than five maintenance intervals left *)
    (wf i /\ (50 * remaining i now < lifetime i - 50 * eps (lifetime i) \/ remaining i now < 5 * interval i)) \/
    (* expired *)
    (0 < interval i /\ spec_expiry (not_after i) <= now) \/
    (* past the ARI-selected (stored or improvised) time less one interval *)
    (exists s, disable_ari i = false /\ select (ari i) rnd = Sel s /\ s - interval i < now).

  Lemma due_reason_renew i rnd now : due_reason i rnd now -> decide scale i rnd now = Renew.
  Proof.
    intros [[Hwf H]|[[Hwf H]|[[Hi H]|(s & Hd & Hs & H)]]].
    - apply renew_in_configured_fraction; assumption.
    - destruct H as [H|H]; [apply renew_in_final_fiftieth; assumption | apply renew_within_five_intervals; assumption].
    - apply renew_when_expired; assumption.
    - eapply renew_after_selected_time; eauto.
  Qed.

  (** the hypotheses of C04_wait_when_nothing_due *)
  Definition nothing_due (i : inputs) (rnd now : Z) : Prop :=
    wf i /\
    snd (eff_ratio (cfg_ratio i)) * remaining i now >=
      fst (eff_ratio (cfg_ratio i)) * lifetime i + snd (eff_ratio (cfg_ratio i)) * eps (lifetime i) /\
    50 * remaining i now >= lifetime i + 50 * eps (lifetime i) /\
    remaining i now >= 5 * interval i /\
    (forall s, disable_ari i = false -> select (ari i) rnd = Sel s ->
       now <= s - interval i /\ 20 * remaining i now >= lifetime i + 20 * eps (lifetime i)).

  Lemma nothing_due_wait i rnd now : nothing_due i rnd now -> decide scale i rnd now = Wait.
  Proof. intros (Hwf & Hc & H50 & H5 & Hari). apply wait_when_nothing_due; assumption. Qed.

  Lemma timed_due now s c :
    Timed now s -> InSt s c -> due_reason (env (cid c)) (draw (cid c)) now -> cdue c = true.
  Proof. intros HT Hc Hd. rewrite (HT c Hc). apply due_b_true, due_reason_renew, Hd. Qed.
  Lemma timed_not_due now s c :
    Timed now s -> InSt s c -> nothing_due (env (cid c)) (draw (cid c)) now -> cdue c = false.
  Proof. intros HT Hc Hd. rewrite (HT c Hc). apply due_b_false, nothing_due_wait, Hd. Qed.

  (** the renewal queue of a pass, from C04-level facts: exactly one cached certificate is due
      (C04 renew_when_due), managed and not on-demand, its stored copy is the same certificate,
      and for every other cached certificate nothing is due (C04 wait_when_nothing_due) or it
      is unmanaged / on-demand *)
  Lemma scan_renew_single od now s c :
    Timed now s -> NoDup (cache s) -> In c (cache s) ->
    cman c = true -> od (chead c) = false -> due_reason (env (cid c)) (draw (cid c)) now ->
    stored (store s) (chead c) = Some c ->
    (forall x, In x (cache s) -> x <> c ->
       nothing_due (env (cid x)) (draw (cid x)) now \/ cman x = false \/ od (chead x) = true) ->
    eligible od c = true /\ scan_renew od (store s) (cache s) = [c].
  Proof.
    intros HT Hnd Hin Hm Ho Hd Hst Hothers.
    assert (Hdue : cdue c = true) by (eapply timed_due; [exact HT | apply InSt_cache, Hin | exact Hd]).
    assert (He : eligible od c = true) by (unfold eligible; rewrite Hm, Ho, Hdue; reflexivity).
    split; [exact He|]. unfold scan_renew. apply filter_singleton; [exact Hnd | exact Hin | |].
    - rewrite He. unfold stored_fresh. rewrite Hst, Hdue. reflexivity.
    - intros x Hx Hne. replace (eligible od x) with false; [reflexivity|]. symmetry. unfold eligible.
      destruct (Hothers x Hx Hne) as [H|[H|H]].
      + rewrite (timed_not_due now s x HT (InSt_cache s x Hx) H). apply andb_false_r.
      + rewrite H. reflexivity.
      + rewrite H. cbn. rewrite andb_false_r. reflexivity.
  Qed.

  (** (a) A managed, not-on-demand certificate that C04 says is due at the instant of the pass
      is renewed by the pass and its job: exactly one Issue, the new certificate stored, cached
      and answering for its names, the old one gone, no job left -- unless the issuer fails for
      the name: then, through ANY history that does not mend the issuer or bring an external
      renewal, it stays cached, stored and answering for all its names, and nothing is issued. *)
  Theorem due_certificate_is_renewed od idue now s p c :
    WF od s -> Timed now s -> take_pass p (passes s) = None ->
    NoDup (cache s) -> In c (cache s) -> cman c = true -> od (chead c) = false ->
    due_reason (env (cid c)) (draw (cid c)) now ->
    stored (store s) (chead c) = Some c ->
    (forall x, In x (cache s) -> x <> c ->
       nothing_due (env (cid x)) (draw (cid x)) now \/ cman x = false \/ od (chead x) = true) ->
    no_job_for (chead c) (jobs s) = true ->
    let n := chead c in
    (is_failing s n = false ->
       let s' := run od idue s [PassScan p; PassAct p; JobStep n 0; JobStep n 0; JobStep n 0] in
       issued s' = n :: issued s /\ failed s' = failed s /\
       stored (store s') n = Some (new_cert idue s n) /\
       In (new_cert idue s n) (cache s') /\ ~ In c (cache s') /\
       (forall m, In m (cnames (new_cert idue s n)) -> In (new_cert idue s n) (resolve m (cache s'))) /\
       jobs s' = jobs s) /\
    (is_failing s n = true -> forall h, Forall (fun e => ~ touches_name n e) h ->
       let s' := run od idue s h in
       In c (cache s') /\ stored (store s') n = Some c /\
       cnt (issued s') n = cnt (issued s) n /\
       (forall m, In m (cnames c) -> In c (resolve m (cache s')))).
  Proof.
    intros W HT Hp Hnd Hin Hm Ho Hd Hst Hothers Hnj n. split.
    - intros Hf. destruct (scan_renew_single od now s c HT Hnd Hin Hm Ho Hd Hst Hothers) as [He Hscan].
      exact (renewal_end_to_end od idue s p c c W Hp Hin He Hscan Hst Hf Hnj).
    - intros Hf h Hh. exact (failed_renewal_keeps_serving od idue s h c W Hin Hst Hf Hh).
  Qed.

  (** the single-certificate core of (a), in C05's own hypotheses: C04's verdict supplies
      [eligible] *)
  Theorem due_certificate_is_eligible od now s c :
    Timed now s -> InSt s c -> cman c = true -> od (chead c) = false ->
    due_reason (env (cid c)) (draw (cid c)) now -> eligible od c = true.
  Proof.
    intros HT Hc Hm Ho Hd. unfold eligible. rewrite Hm, Ho, (timed_due now s c HT Hc Hd). reflexivity.
  Qed.

  (** ... and a due certificate whose renewal another instance already saved (the stored copy is
      one for which nothing is due) is adopted by the pass without contacting the issuer *)
  Theorem due_certificate_adopts_stored od idue now s p c st :
    WF od s -> Timed now s -> take_pass p (passes s) = None ->
    In c (cache s) -> cman c = true -> od (chead c) = false ->
    due_reason (env (cid c)) (draw (cid c)) now ->
    stored (store s) (chead c) = Some st -> nothing_due (env (cid st)) (draw (cid st)) now ->
    let s' := step od idue (step od idue s (PassScan p)) (PassAct p) in
    In st (cache s') /\ ~ In c (cache s') /\
    (forall m, In m (cnames st) -> In st (resolve m (cache s'))) /\
    store s' = store s /\ issued s' = issued s /\ failed s' = failed s.
  Proof.
    intros W HT Hp Hin Hm Ho Hd Hst Hnd.
    pose proof (due_certificate_is_eligible od now s c HT (InSt_cache s c Hin) Hm Ho Hd) as He.
    pose proof (timed_not_due now s st HT (InSt_stored s _ st Hst) Hnd) as Hfresh.
    destruct (adopts_external_renewal od idue s p c st W Hp Hin He Hst Hfresh) as (H1 & H2 & H3 & H4 & H5 & H6 & _).
    repeat split; assumption.
  Qed.

  (** (b) A cached certificate for which C04 says nothing is due is left in the cache, answering
      for all its names, by EVERY history of passes, jobs, manage calls, external renewals;
      and if it is the stored certificate of its name and the issuer hands out certificates
      that are not due, no Issue is made for its name. *)
  Theorem not_due_certificate_untouched od idue now s h c :
    WF od s -> Timed now s -> In c (cache s) ->
    nothing_due (env (cid c)) (draw (cid c)) now ->
    In c (cache (run od idue s h)) /\
    (forall m, In m (cnames c) -> In c (resolve m (cache (run od idue s h)))).
  Proof.
    intros W HT Hin Hnd. pose proof (timed_not_due now s c HT (InSt_cache s c Hin) Hnd) as Hf.
    assert (E : eligible od c = false) by (unfold eligible; rewrite Hf; apply andb_false_r).
    pose proof (run_cache_keeps od idue s h c W Hin E) as K. split; [exact K|].
    intros m Hm. apply In_resolve. split; [exact K | apply has_name_In, Hm].
  Qed.
  Theorem not_due_certificate_not_reissued od now s h c :
    Timed now s -> stored (store s) (chead c) = Some c ->
    nothing_due (env (cid c)) (draw (cid c)) now ->
    (cnt (issued (run od false s h)) (chead c) <= cnt (issued s) (chead c))%nat.
  Proof.
    intros HT Hst Hnd. pose proof (timed_not_due now s c HT (InSt_stored s _ c Hst) Hnd) as Hf.
    pose proof (renews_once od false s h (chead c) eq_refl) as H.
    unfold stored_fresh in H. rewrite Hst, Hf in H. cbn in H. lia.
  Qed.

  (** (d) [idue = false] from C04.  An explicit freshness condition: at age a = now - NotBefore
      of a lifetime L the certificate is outside the configured fraction (d a + d eps <= (d-n) L),
      outside the final 1/50, has five intervals left, and there is no renewal information (ARI
      disabled, or no window) or its window starts at least an interval from now (and the age is
      outside the final 1/20). *)
  Definition fresh_inputs (i : inputs) (now : Z) : Prop :=
    let a := now - not_before i in let L := lifetime i in
    let n := fst (eff_ratio (cfg_ratio i)) in let d := snd (eff_ratio (cfg_ratio i)) in
    wf i /\ 0 <= a /\ d * a + d * eps L <= (d - n) * L /\ 50 * a + 50 * eps L <= 49 * L /\
    a + 5 * interval i <= L /\
    (disable_ari i = true \/
     (sel (ari i) = None /\ (wstart (ari i) = None \/ wend (ari i) = None)) \/
     (exists ws we, sel (ari i) = None /\ wstart (ari i) = Some ws /\ wend (ari i) = Some we /\
                    now + interval i <= ws /\ 20 * a + 20 * eps L <= 19 * L)).

  Theorem fresh_not_due i rnd now : fresh_inputs i now -> admissible i rnd -> decide scale i rnd now = Wait.
  Proof.
    unfold fresh_inputs. intros (Hwf & Ha & Hc & H50 & H5 & Hari) Hadm.
    assert (Hrem : remaining i now = lifetime i - (now - not_before i)) by (unfold remaining, lifetime; lia).
    destruct Hari as [Hd|[[Hs Hw]|(ws & we & Hs & Hws & Hwe & Hfut & H20)]].
    - apply wait_when_nothing_due; try assumption; try (rewrite Hrem; lia);
        try (intros s Hd'; congruence).
    - apply wait_when_nothing_due; try assumption; try (rewrite Hrem; lia).
      intros s _ Hsel. unfold select in Hsel. rewrite Hs in Hsel.
      destruct Hw as [Hw|Hw]; rewrite Hw in Hsel; [discriminate|]. destruct (wstart (ari i)); discriminate.
    - eapply future_window_never_immediate; eauto; rewrite Hrem; lia.
  Qed.

  (** so: if every certificate handed out from now on (identities from [next s]) is fresh at
      the instant of the history, the Maintain model with [idue = false] is the C04-instantiated
      one -- its states stay [Timed] -- and C05_renews_once holds with C04 underneath: at most
      one Issue per name, none if C04 says nothing is due for the stored certificate *)
  Theorem renews_once_with_C04 od now s h n :
    Timed now s ->
    (forall k, (next s <= k)%nat -> fresh_inputs (env k) now /\ admissible (env k) (draw k)) ->
    Timed now (run od false s h) /\
    (cnt (issued (run od false s h)) n <= cnt (issued s) n + (if stored_fresh (store s) n then 0 else 1))%nat /\
    (forall st, stored (store s) n = Some st -> nothing_due (env (cid st)) (draw (cid st)) now ->
       (cnt (issued (run od false s h)) n <= cnt (issued s) n)%nat).
  Proof.
    intros HT Hfresh. split; [|split].
    - apply Timed_run; [exact HT|]. intros k Hk. destruct (Hfresh k Hk) as [Hf Ha].
      apply due_b_false, fresh_not_due; assumption.
    - apply renews_once. reflexivity.
    - intros st Hst Hnd. pose proof (timed_not_due now s st HT (InSt_stored s _ st Hst) Hnd) as Hf.
      pose proof (renews_once od false s h n eq_refl) as H.
      unfold stored_fresh in H. rewrite Hst, Hf in H. cbn in H. lia.
  Qed.

  (** (c) a history split at an instant: run [h1] with the verdicts of [t1], re-decide every
      certificate at [t2 >= t1] (same draws), run [h2].  Every certificate due at [t1] is due at
      [t2]; the re-decided state is timed for [t2] and well formed -- provided no pass is caught
      between its scan and its act with a reload whose stored copy has meanwhile become due --
      so every C05 theorem applies to the second leg. *)
  Theorem split_history od t1 t2 s h1 h2 :
    WF od s -> Timed t1 s -> t1 <= t2 ->
    (forall k, (next s <= k)%nat -> verdict_at t1 k = false) ->
    let s1 := run od false s h1 in
    (forall q c st, In q (passes s1) -> In c (preload q) -> stored (store s1) (chead c) = Some st ->
                    verdict_at t2 (cid st) = false) ->
    let s2 := retime scale env draw t2 s1 in
    Timed t1 s1 /\ Timed t2 s2 /\ WF od s2 /\ WF od (run od false s2 h2) /\
    (forall c, InSt s1 c -> cdue c = true -> cdue (retime_cert scale env draw t2 c) = true) /\
    (forall j old, In j (jobs s1) -> jold j = Some old ->
       eligible od (retime_cert scale env draw t2 old) = true).
  Proof.
    intros W HT Hle Hfresh s1 Hreload s2.
    assert (HT1 : Timed t1 s1) by (apply Timed_run; assumption).
    assert (W1 : WF od s1) by (apply WF_run, W).
    assert (W2 : WF od s2) by (apply (WF_retime scale env draw od t1 t2 s1 W1 HT1 Hle Hreload)).
    split; [exact HT1|]. split; [apply Timed_retime|]. split; [exact W2|]. split; [apply WF_run, W2|]. split.
    - intros c Hc Hd. change (verdict_at t2 (cid c) = true). apply (verdict_monotone scale env draw t1 t2 _ Hle).
      rewrite <- (HT1 c Hc). exact Hd.
    - intros j old Hj Ho. destruct (wf_job_old od s1 j old W1 Hj Ho) as (_ & _ & He).
      apply (eligible_retime scale env draw od t1 t2); [exact Hle | | exact He].
      apply HT1, InSt_job, In_job_olds. eauto.
  Qed.
End EndToEnd.

(** ================= the same for Go's float64 arithmetic =================
    [scale_f64] is C04's exact integer model of time.Duration(float64(L) * ratio);
    C04_float64_product_within_tolerance discharges [scale_spec]. *)
Definition due_certificate_is_renewed_f64 := due_certificate_is_renewed scale_f64 scale_f64_ok.
Definition due_certificate_adopts_stored_f64 := due_certificate_adopts_stored scale_f64 scale_f64_ok.
Definition not_due_certificate_untouched_f64 := not_due_certificate_untouched scale_f64 scale_f64_ok.
Definition not_due_certificate_not_reissued_f64 := not_due_certificate_not_reissued scale_f64 scale_f64_ok.
Definition fresh_not_due_f64 := fresh_not_due scale_f64 scale_f64_ok.
Definition renews_once_with_C04_f64 := renews_once_with_C04 scale_f64 scale_f64_ok.
Definition split_history_f64 := split_history scale_f64.

(** ================= non-vacuity: 90-day certificates, float64 arithmetic ================= *)
Definition day : Z := (86400 * second)%Z.
(** a 90-day certificate issued at [nb]; interval 10 min; default ratio (1/3); no ARI *)
Definition i90 (nb : Z) : inputs :=
  {| not_before := nb; not_after := (nb + 90 * day - second)%Z; interval := (600 * second)%Z;
     cfg_ratio := (0, 1)%Z; disable_ari := false; ari := no_ari |}.
(** a 6-day certificate issued on day 60 *)
Definition i6 : inputs :=
  {| not_before := (60 * day)%Z; not_after := (66 * day - second)%Z; interval := (600 * second)%Z;
     cfg_ratio := (0, 1)%Z; disable_ari := false; ari := no_ari |}.
(** identity 0: issued on day 0; identity 1: on day 50; identity 9: the 6-day one; all others: on day 61 *)
Definition x_env (k : nat) : inputs :=
  if k =? 0 then i90 0 else if k =? 1 then i90 (50 * day) else if k =? 9 then i6 else i90 (61 * day).
Definition x_draw (k : nat) : Z := 0%Z.
Definition x_od (n : name) : bool := false.
Definition t61 : Z := (61 * day)%Z.
Definition t65 : Z := (65 * day)%Z.
Definition t115 : Z := (115 * day)%Z.
Definition xc0 : cert := {| cid := 0; chead := 0; crest := [3]; cdue := true; cman := true |}.      (* names 0 and 3; day 61 of 90: due *)
Definition xc1 : cert := {| cid := 1; chead := 1; crest := []; cdue := false; cman := true |}.      (* day 11 of 90 *)
Definition xc3 : cert := {| cid := 3; chead := 5; crest := []; cdue := false; cman := false |}.     (* unmanaged *)
Definition xc9 : cert := {| cid := 9; chead := 0; crest := []; cdue := false; cman := true |}.      (* day 1 of 6 *)
Definition x_s (fl : list name) : state :=
  {| store := [(0, xc0); (1, xc1)]; cache := [xc0; xc1; xc3]; jobs := []; passes := []; failing := fl;
     issued := []; failed := []; next := 4; lasterr := false |}.
(** a pass has scanned and queued [xc0] for a reload of the externally renewed [xc9] *)
Definition x_q : pass := {| pid := 7; preload := [xc0]; prenew := [] |}.
Definition x_r : state :=
  {| store := [(0, xc9)]; cache := [xc0]; jobs := []; passes := [x_q]; failing := [];
     issued := []; failed := []; next := 10; lasterr := false |}.

Ltac x_solve := vm_compute; repeat split; try congruence; try reflexivity.

Example x_verdicts :
  map (verdict_at scale_f64 x_env x_draw t61) [0; 1; 3; 9] = [true; false; false; false] /\
  map (verdict_at scale_f64 x_env x_draw t65) [0; 1; 3; 9] = [true; false; false; true] /\
  map (verdict_at scale_f64 x_env x_draw t115) [0; 1; 3; 9] = [true; true; false; true] /\
  (* both decision paths give these verdicts *)
  decide_leaf scale_f64 true (x_env 0) 0 t61 = Renew /\ managed_decide scale_f64 true (x_env 0) 0 t61 = Renew.
Proof. x_solve. Qed.

Lemma x_s_wf fl : WF x_od (x_s fl).
Proof. apply (wf_b_sound x_od 6). vm_compute. reflexivity. Qed.
Lemma x_s_timed fl : Timed scale_f64 x_env x_draw t61 (x_s fl).
Proof.
  intros c Hc. unfold InSt, all_certs in Hc. cbn in Hc.
  repeat (destruct Hc as [<-|Hc]; [vm_compute; reflexivity|]). destruct Hc.
Qed.
Lemma x_nothing_due_1 : nothing_due (x_env 1) (x_draw 1) t61.
Proof.
  unfold nothing_due. do 4 (split; [vm_compute; congruence|]).
  intros s _ H. vm_compute in H. discriminate.
Qed.
Lemma x_due_reason_0 : due_reason (x_env 0) (x_draw 0) t61.
Proof. left. split; vm_compute; reflexivity. Qed.
Lemma x_fresh k : 4 <= k -> fresh_inputs (x_env k) t61 /\ admissible (x_env k) (x_draw k).
Proof.
  intros Hk. unfold x_env.
  destruct (Nat.eqb_spec k 0) as [->|_]; [lia|]. destruct (Nat.eqb_spec k 1) as [->|_]; [lia|].
  destruct (k =? 9); (split; [|x_solve]); unfold fresh_inputs; cbv zeta;
    (do 5 (split; [vm_compute; congruence|])); right; left; split; [reflexivity | left; reflexivity | reflexivity | left; reflexivity].
Qed.

(** hypotheses of (a) [due_certificate_is_renewed], and both outcomes computed *)
Example x_renewed :
  take_pass 1 (passes (x_s [])) = None /\ NoDup (cache (x_s [])) /\ In xc0 (cache (x_s [])) /\
  cman xc0 = true /\ x_od (chead xc0) = false /\ due_reason (x_env (cid xc0)) (x_draw (cid xc0)) t61 /\
  stored (store (x_s [])) (chead xc0) = Some xc0 /\
  (forall x, In x (cache (x_s [])) -> x <> xc0 ->
     nothing_due (x_env (cid x)) (x_draw (cid x)) t61 \/ cman x = false \/ x_od (chead x) = true) /\
  no_job_for (chead xc0) (jobs (x_s [])) = true /\ is_failing (x_s []) 0 = false /\ is_failing (x_s [0]) 0 = true /\
  (let s' := run x_od false (x_s []) [PassScan 1; PassAct 1; JobStep 0 0; JobStep 0 0; JobStep 0 0] in
   cache s' = [xc1; xc3; new_cert false (x_s []) 0] /\ issued s' = [0] /\ jobs s' = []) /\
  (let s' := run x_od false (x_s [0]) [PassScan 1; PassAct 1; JobStep 0 0; JobStep 0 0; JobStep 0 0; PassScan 2; PassAct 2] in
   cache s' = [xc0; xc1; xc3] /\ issued s' = [] /\ failed s' = [0; 0]).
Proof.
  split; [reflexivity|]. split; [repeat constructor; cbn; intuition discriminate|].
  split; [left; reflexivity|]. do 2 (split; [reflexivity|]). split; [exact x_due_reason_0|].
  split; [reflexivity|]. split.
  - intros x [<-|[<-|[<-|[]]]] Hne; [congruence | left; exact x_nothing_due_1 | right; left; reflexivity].
  - x_solve.
Qed.

(** hypotheses of (b): for [xc1] nothing is due on day 61; through passes, jobs and a manage call *)
Example x_untouched :
  In xc1 (cache (x_s [])) /\ stored (store (x_s [])) (chead xc1) = Some xc1 /\
  nothing_due (x_env (cid xc1)) (x_draw (cid xc1)) t61 /\
  In xc1 (cache (run x_od false (x_s []) [PassScan 1; PassAct 1; JobStep 0 0; Manage 1 false; JobStep 0 0; JobStep 0 0])).
Proof. split; [right; left; reflexivity|]. split; [reflexivity|]. split; [exact x_nothing_due_1 | vm_compute; auto]. Qed.

(** hypotheses of (d): what is handed out from identity 4 on is fresh on day 61 *)
Example x_fresh_issuer : forall k, next (x_s []) <= k -> fresh_inputs (x_env k) t61 /\ admissible (x_env k) (x_draw k).
Proof. exact x_fresh. Qed.

(** hypotheses of (c) [split_history]: first leg on day 61 (the renewal of [xc0]), re-decided on
    day 115, when [xc1] has become due too: the second leg renews it *)
Example x_split :
  (t61 <= t115)%Z /\ (forall k, next (x_s []) <= k -> verdict_at scale_f64 x_env x_draw t61 k = false) /\
  let s1 := run x_od false (x_s []) [PassScan 1; PassAct 1; JobStep 0 0; JobStep 0 0; JobStep 0 0] in
  passes s1 = [] /\
  let s2 := retime scale_f64 x_env x_draw t115 s1 in
  map cdue (cache s1) = [false; false; false] /\ map cdue (cache s2) = [true; false; false] /\
  map cid (cache (run x_od false s2 [PassScan 2; PassAct 2; JobStep 1 0; JobStep 1 0; JobStep 1 0])) = [3; 4; 5].
Proof.
  split; [vm_compute; congruence|]. split.
  - intros k Hk. destruct (x_fresh k Hk) as [Hf Ha]. apply due_b_false, fresh_not_due_f64; assumption.
  - x_solve.
Qed.

(** the clause of C05's invariant that does NOT survive the passing of time: a pass caught
    between scan and act with a queued reload whose stored copy becomes due (here: a 6-day
    certificate saved by another instance on day 60, re-decided on day 65) *)
Theorem retime_breaks_queued_reload_refuted :
  exists od s t1 t2, WF od s /\ Timed scale_f64 x_env x_draw t1 s /\ (t1 <= t2)%Z /\
    ~ WF od (retime scale_f64 x_env x_draw t2 s).
Proof.
  exists x_od, x_r, t61, t65. split; [apply (wf_b_sound x_od 6); vm_compute; reflexivity|]. split.
  - intros c Hc. unfold InSt, all_certs in Hc. cbn in Hc.
    repeat (destruct Hc as [<-|Hc]; [vm_compute; reflexivity|]). destruct Hc.
  - split; [vm_compute; congruence|]. intros W.
    pose proof (wf_pass_fresh x_od _ W (map_pass (retime_cert scale_f64 x_env x_draw t65) x_q)
                  (retime_cert scale_f64 x_env x_draw t65 xc0) (or_introl eq_refl) (or_introl eq_refl)) as H.
    vm_compute in H. discriminate.
Qed.
