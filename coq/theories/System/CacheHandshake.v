(** System: C12's certificate cache under the on-demand handshake model of C02 / C13.

    [Handshake.Model] (C02; C13's SingleFlight model has a per-name cache of its own) keeps the
    cache as [w_cache : list cert] keyed by [c_id] ("the hash"), with [cache_add] (no-op on a
    cached identity), [cache_remove], [cache_replace], [cache_update] (replace in place, nothing
    if absent) and [cache_find]; it records the capacity ([w_cap], for cacheAlmostFull) but
    says "capacity evictions are not modelled: the harness never fills the cache"; and the
    certificate the handshake finds in the cache is an ORACLE ([h_hit]: "certificate selected from
    the cache by getCertificateFromCache").

    Here: (1) those five operations are simulated by C12's [add_cert] (while the cache is below
    capacity), [remove_cert], [replace_cert], [alookup], and for [cache_update] (replace the entry
    by an updated copy): in general the guarded whole-copy write-back [write_back_whole_copy]
    (handshakeMaintenance as it was after fix 583673e), and -- what the code does now -- when the
    copy differs from the cached entry only in its staple / its ARI, exactly C12's one-field
    write-backs [write_back] (= set_ocsp_at) / [set_ari_at], under C12's invariant; (2) the oracle, when
    it is what C03's [from_cache] answers on the C12 state, always names a certificate that
    [cache_find] finds, and that certificate lists the name it was found under.
    NOT refined: a cacheCertificate at capacity (C12 evicts, the handshake model does not):
    [CacheMaintain.capacity_breaks_refinement_refuted] is the witness for that shape. *)
From CM Require Import Lib.Str Cache.Model Cache.AMapFacts Cache.Proofs Lookup.Model Lookup.Proofs.
From CM Require Import System.CacheMaintain System.CacheLookup.
From CM Require Handshake.Model.
From Coq Require Import Arith Lia NArith.
Open Scope nat_scope.

Notation hcert := Handshake.Model.cert.
Notation h_id := Handshake.Model.c_id.
Notation h_names := Handshake.Model.c_names.
Notation hworld := Handshake.Model.world.
Notation w_cache := Handshake.Model.w_cache.

Section RefineH.
  Variable eh : N -> hash.
  Hypothesis eh_inj : forall a b, eh a = eh b -> a = b.
  Hypothesis eh_nonempty : forall a, eh a <> [].
  Variable names_of : hash -> list name.

  (** the cached value: hash, Names, managed; the OCSP status and the ARI marker stand for the
      fields the write-back changes *)
  Definition hconc (c : hcert) : cert :=
    {| c_hash := eh (h_id c); c_names := h_names c; c_managed := Handshake.Model.c_managed c;
       c_issuer := []; c_tags := [];
       c_ocsp := (if Handshake.Model.c_revoked c then 1 else 0)%Z;
       c_ari := match Handshake.Model.c_ari c with Some true => [1%N] | Some false => [0%N] | None => [] end |}.
  Definition hok (c : hcert) : Prop := names_of (eh (h_id c)) = h_names c.
  Definition RH (cap : nat) (w : hworld) (s : state) : Prop :=
    map snd (cache s) = map hconc (w_cache w) /\ Inv names_of cap s.

  Lemma hconc_wf c : hok c -> wf_cert names_of (hconc c).
  Proof. intros H. split; [symmetry; exact H | apply eh_nonempty]. Qed.

  Lemma RH_keys cap w s : RH cap w s -> akeys (cache s) = map (fun c => eh (h_id c)) (w_cache w).
  Proof. intros [Hm HI]. rewrite (keys_of_values names_of cap s HI), Hm, map_map. reflexivity. Qed.

  Lemma find_id_spec id (l : list hcert) :
    match find (fun c => (h_id c =? id)%N) l with
    | Some c => In c l /\ h_id c = id
    | None => forall c, In c l -> h_id c <> id
    end.
  Proof.
    induction l as [|x l IH]; cbn [find]; [intros c []|].
    destruct (N.eqb_spec (h_id x) id) as [E|E]; [split; [left; reflexivity | exact E]|].
    destruct (find _ l) as [c|]; [destruct IH; split; [right|]; assumption|].
    intros c [<-|H]; [exact E | apply IH, H].
  Qed.

  (** certCache.cache[hash] and the model's [cache_find] *)
  Theorem refine_find cap w s id : RH cap w s ->
    match Handshake.Model.cache_find id w with
    | Some c => alookup (eh id) (cache s) = Some (hconc c)
    | None => alookup (eh id) (cache s) = None
    end.
  Proof.
    intros HR. pose proof HR as [Hm HI]. unfold Handshake.Model.cache_find.
    pose proof (find_id_spec id (w_cache w)) as Hf.
    destruct (find _ (w_cache w)) as [c|].
    - destruct Hf as [Hin <-]. change (eh (h_id c)) with (c_hash (hconc c)).
      apply (in_values_alookup names_of cap s (hconc c) HI). rewrite Hm. apply in_map, Hin.
    - apply amem_false_alookup, amem_false. rewrite (RH_keys cap w s HR). intros Hin.
      apply in_map_iff in Hin. destruct Hin as (c & Hc & Hin). apply eh_inj in Hc. exact (Hf c Hin Hc).
  Qed.

  Lemma cache_has_amem cap w s id : RH cap w s -> Handshake.Model.cache_has id w = amem (eh id) (cache s).
  Proof.
    intros HR. unfold Handshake.Model.cache_has. pose proof (refine_find cap w s id HR) as H.
    destruct (Handshake.Model.cache_find id w); unfold amem; rewrite H; reflexivity.
  Qed.

  (** cacheCertificate below capacity *)
  Theorem refine_h_add cap w s c v :
    RH cap w s -> hok c -> at_capacity cap s = false ->
    RH cap (Handshake.Model.cache_add c w) (add_cert cap (hconc c) v s).
  Proof.
    intros HR Hok Hcap. pose proof HR as [Hm HI].
    split; [|apply add_cert_inv; [exact HI | apply hconc_wf; exact Hok]].
    unfold add_cert, Handshake.Model.cache_add. rewrite (cache_has_amem cap w s (h_id c) HR).
    change (c_hash (hconc c)) with (eh (h_id c)).
    destruct (amem (eh (h_id c)) (cache s)) eqn:E.
    - apply amem_alookup in E. destruct E as [e He]. rewrite He, tags_guard_eq. cbn [hconc c_tags is_nil negb]. exact Hm.
    - pose proof E as E'. apply amem_false_alookup in E'. rewrite E', Hcap. cbn [cache].
      unfold ainsert. rewrite E. cbn [Handshake.Model.set_cache Handshake.Model.w_cache]. rewrite !map_app, Hm. reflexivity.
  Qed.

  Lemma filter_map_hconc (i : N) (l : list hcert) :
    filter (fun c => negb (str_eqb (eh i) (c_hash c))) (map hconc l) =
    map hconc (filter (fun x => negb (h_id x =? i)%N) l).
  Proof.
    induction l as [|x l IH]; [reflexivity|]. cbn [map filter hconc c_hash].
    destruct (N.eqb_spec (h_id x) i) as [E|E].
    - rewrite E, str_eqb_refl. cbn [negb]. exact IH.
    - rewrite str_eqb_neq by (intros H; apply eh_inj in H; congruence). cbn [negb map]. rewrite IH. reflexivity.
  Qed.

  (** removeCertificate(copy) *)
  Theorem refine_h_remove cap w s c :
    RH cap w s -> hok c -> RH cap (Handshake.Model.cache_remove (h_id c) w) (remove_cert (hconc c) s).
  Proof.
    intros [Hm HI] Hok. split.
    - cbn [remove_cert cache hconc c_hash Handshake.Model.cache_remove Handshake.Model.set_cache Handshake.Model.w_cache].
      rewrite map_snd_adelete.
      + rewrite Hm. apply filter_map_hconc.
      + intros k x Hin. apply In_alookup in Hin; [|apply (inv_nodup _ _ s HI)].
        destruct (inv_cert _ _ s HI k x Hin) as (-> & _). reflexivity.
    - apply remove_copy_inv; [exact HI|]. left. symmetry. exact Hok.
  Qed.

  (** replaceCertificate below capacity *)
  Theorem refine_h_replace cap w s old new v :
    RH cap w s -> hok old -> hok new -> at_capacity cap (remove_cert (hconc old) s) = false ->
    RH cap (Handshake.Model.cache_replace old new w) (replace_cert cap (hconc old) (hconc new) v s).
  Proof.
    intros HR Ho Hn Hcap. unfold Handshake.Model.cache_replace, replace_cert.
    apply refine_h_add; [apply refine_h_remove; assumption | exact Hn | exact Hcap].
  Qed.

  (** replacing the entry by an updated copy = the guarded whole-copy write-back *)
  Theorem refine_h_update cap w s c :
    RH cap w s -> hok c -> RH cap (Handshake.Model.cache_update c w) (write_back_whole_copy (hconc c) s).
  Proof.
    intros HR Hok. pose proof HR as [Hm HI]. split; [|apply write_back_whole_copy_inv; [exact HI | left; symmetry; exact Hok]].
    unfold write_back_whole_copy, Handshake.Model.cache_update. change (c_hash (hconc c)) with (eh (h_id c)).
    cbn [Handshake.Model.set_cache Handshake.Model.w_cache].
    assert (Hk : forall k x, In (k, x) (cache s) -> c_hash x = k).
    { intros k x Hin. apply In_alookup in Hin; [|apply (inv_nodup _ _ s HI)].
      destruct (inv_cert _ _ s HI k x Hin) as (-> & _). reflexivity. }
    assert (Hmap : forall (m : amap cert), (forall k x, In (k, x) m -> c_hash x = k) ->
              map snd (map (fun p => if str_eqb (eh (h_id c)) (fst p) then (fst p, hconc c) else p) m) =
              map (fun x => if str_eqb (eh (h_id c)) (c_hash x) then hconc c else x) (map snd m)).
    { intros m Hm'. induction m as [|[k x] m IH]; [reflexivity|]. cbn [map fst snd].
      rewrite (Hm' k x (or_introl eq_refl)). rewrite IH by (intros k' x' H; apply Hm'; right; exact H).
      destruct (str_eqb (eh (h_id c)) k); reflexivity. }
    assert (Hconc : forall l, map (fun x => if str_eqb (eh (h_id c)) (c_hash x) then hconc c else x) (map hconc l) =
                              map hconc (map (fun x => if (h_id x =? h_id c)%N then c else x) l)).
    { induction l as [|x l IH]; [reflexivity|]. cbn [map hconc c_hash]. rewrite <- IH. f_equal.
      destruct (N.eqb_spec (h_id x) (h_id c)) as [E|E].
      - rewrite E, str_eqb_refl. reflexivity.
      - rewrite str_eqb_neq by (intros H; apply eh_inj in H; congruence). reflexivity. }
    destruct (amem (eh (h_id c)) (cache s)) eqn:E.
    - cbn [cache]. unfold ainsert. rewrite E. rewrite (Hmap _ Hk), Hm. apply Hconc.
    - rewrite Hm, <- Hconc, <- Hm. symmetry. rewrite <- (map_id (map snd (cache s))) at 2.
      apply map_ext_in. intros x Hx. apply (in_values_alookup names_of cap s x HI) in Hx.
      destruct (str_eqb_spec (eh (h_id c)) (c_hash x)) as [E'|_]; [|reflexivity].
      apply amem_false_alookup in E. rewrite E' in E. congruence.
  Qed.

  (** ... which IS C12's one-field write-back when the copy differs from the cached entry only in
      that field: the staple (handshakeMaintenance now: re-read under the lock, store the staple) *)
  Lemma whole_copy_is_write_back s c e :
    alookup (c_hash c) (cache s) = Some e -> c = set_ocsp e (c_ocsp c) ->
    write_back_whole_copy c s = write_back c s.
  Proof.
    intros He Hc. unfold write_back_whole_copy, write_back, set_ocsp_at. cbn [fst snd].
    unfold amem. rewrite He. rewrite <- Hc. reflexivity.
  Qed.
  (** ... or the renewal information (updateARI) *)
  Lemma whole_copy_is_set_ari s c e v :
    alookup (c_hash c) (cache s) = Some e -> c = set_ari e v ->
    write_back_whole_copy c s = set_ari_at (c_hash c) v s.
  Proof.
    intros He Hc. unfold write_back_whole_copy, set_ari_at. unfold amem. rewrite He. rewrite <- Hc. reflexivity.
  Qed.
  Theorem refine_h_update_staple cap w s c x :
    RH cap w s -> hok c -> Handshake.Model.cache_find (h_id c) w = Some x ->
    hconc c = set_ocsp (hconc x) (c_ocsp (hconc c)) ->
    RH cap (Handshake.Model.cache_update c w) (write_back (hconc c) s).
  Proof.
    intros HR Hok Hx Hc. pose proof (refine_find cap w s (h_id c) HR) as Hf. rewrite Hx in Hf.
    rewrite <- (whole_copy_is_write_back s (hconc c) (hconc x) Hf Hc). apply refine_h_update; assumption.
  Qed.
  Theorem refine_h_update_ari cap w s c x v :
    RH cap w s -> hok c -> Handshake.Model.cache_find (h_id c) w = Some x ->
    hconc c = set_ari (hconc x) v ->
    RH cap (Handshake.Model.cache_update c w) (set_ari_at (eh (h_id c)) v s).
  Proof.
    intros HR Hok Hx Hc. pose proof (refine_find cap w s (h_id c) HR) as Hf. rewrite Hx in Hf.
    change (eh (h_id c)) with (c_hash (hconc c)).
    rewrite <- (whole_copy_is_set_ari s (hconc c) (hconc x) v Hf Hc). apply refine_h_update; assumption.
  Qed.

  (** the oracle [h_hit]: what C03's getCertificateFromCache answers on the C12 state is a
      certificate the handshake model finds in its cache, listing the name it was found under *)
  Theorem hit_oracle_from_C03 lower is_space sup valid cap w s cfg sni ip cc b v :
    RH cap w s ->
    from_cache lower is_space sup valid s cfg sni ip = Some (cc, b, v) ->
    exists c, hconc c = cc /\ Handshake.Model.cache_find (h_id c) w = Some c /\ In v (h_names c) /\
      let n := normalize lower is_space sni in
      ((b = true /\ n <> [] /\ covers v n) \/ (b = true /\ n = [] /\ v = ip) \/
       (b = false /\ n = [] /\ default_name cfg <> [] /\ v = normalize lower is_space (default_name cfg)) \/
       (b = false /\ fallback_name cfg <> [] /\ v = normalize lower is_space (fallback_name cfg))).
  Proof.
    intros HR Hf. pose proof HR as [Hm HI]. rewrite <- na_from_cache_atomic in Hf.
    destruct (na_lookup_sound lower is_space sup valid names_of cap (fun _ => s) (fun _ => HI) cfg sni ip cc b v Hf)
      as (j & (Hc & Hv & _ & _) & Hcase).
    pose proof (alookup_in_values s _ _ Hc) as Hin. rewrite Hm in Hin. apply in_map_iff in Hin.
    destruct Hin as (c & Hcc & Hin). exists c. split; [exact Hcc|]. split.
    - pose proof (refine_find cap w s (h_id c) HR) as Hfind.
      destruct (Handshake.Model.cache_find (h_id c) w) as [c'|] eqn:E.
      + f_equal. change (eh (h_id c)) with (c_hash (hconc c)) in Hfind. rewrite Hcc, Hc in Hfind.
        injection Hfind as Hfind. unfold Handshake.Model.cache_find in E.
        pose proof (find_id_spec (h_id c) (w_cache w)) as Hs. rewrite E in Hs. destruct Hs as [Hin' Hid'].
        (* identities are unique in the handshake cache: keys of the C12 map are distinct *)
        pose proof (inv_nodup _ _ s HI) as Hnd. rewrite (RH_keys cap w s HR) in Hnd.
        clear -Hnd Hin Hin' Hid' eh_inj. induction (w_cache w) as [|x l IH]; [destruct Hin|].
        cbn [map] in Hnd. inversion Hnd as [|? ? Hx Hl]; subst.
        destruct Hin as [->|Hin], Hin' as [->|Hin']; [reflexivity| | |apply IH; assumption].
        * exfalso. apply Hx. apply in_map_iff. exists c'. split; [congruence | exact Hin'].
        * exfalso. apply Hx. apply in_map_iff. exists c. split; [congruence | exact Hin].
      + change (eh (h_id c)) with (c_hash (hconc c)) in Hfind. rewrite Hcc, Hc in Hfind. discriminate.
    - split; [|exact Hcase]. rewrite <- Hcc in Hv. exact Hv.
  Qed.

  Lemma RH_init cap w : w_cache w = [] -> RH cap w init.
  Proof. intros Hw. split; [rewrite Hw; reflexivity | apply inv_init]. Qed.
End RefineH.

(** ---- non-vacuity: a world and a C12 state in lock step; the oracle instantiated by C03 ---- *)
Definition heh (i : N) : hash := [N.succ i].
Lemma heh_inj a b : heh a = heh b -> a = b.
Proof. unfold heh. intros H. injection H as H. lia. Qed.
Lemma heh_nonempty a : heh a <> [].
Proof. discriminate. Qed.
Definition hx_ax : name := [97; 46; 120]%N.          (* a.x *)
Definition hx_wx : name := [42; 46; 120]%N.          (* *.x *)
Definition hx_names_of (h : hash) : list name :=
  match h with [1%N] => [hx_ax] | [2%N] => [hx_wx] | [3%N] => [hx_ax] | _ => [] end.
Definition hx_c0 : hcert :=
  {| Handshake.Model.c_id := 0%N; Handshake.Model.c_names := [hx_ax]; Handshake.Model.c_managed := true; Handshake.Model.c_due := true;
     Handshake.Model.c_expired := false; Handshake.Model.c_revoked := false; Handshake.Model.c_keycomp := false; Handshake.Model.c_ari := None |}.        (* a.x, due *)
Definition hx_c1 : hcert :=
  {| Handshake.Model.c_id := 1%N; Handshake.Model.c_names := [hx_wx]; Handshake.Model.c_managed := false; Handshake.Model.c_due := false;
     Handshake.Model.c_expired := false; Handshake.Model.c_revoked := false; Handshake.Model.c_keycomp := false; Handshake.Model.c_ari := None |}.      (* *.x *)
Definition hx_c2 : hcert :=
  {| Handshake.Model.c_id := 2%N; Handshake.Model.c_names := [hx_ax]; Handshake.Model.c_managed := true; Handshake.Model.c_due := false;
     Handshake.Model.c_expired := false; Handshake.Model.c_revoked := false; Handshake.Model.c_keycomp := false; Handshake.Model.c_ari := None |}.       (* a.x renewed *)
Definition hx_c1' : hcert :=
  {| Handshake.Model.c_id := 1%N; Handshake.Model.c_names := [hx_wx]; Handshake.Model.c_managed := false; Handshake.Model.c_due := false;
     Handshake.Model.c_expired := false; Handshake.Model.c_revoked := true; Handshake.Model.c_keycomp := false; Handshake.Model.c_ari := None |}.      (* *.x, now revoked *)
Definition hx_w0 : hworld :=
  {| Handshake.Model.w_od := None; Handshake.Model.w_cap := 3; Handshake.Model.w_cache := []; Handshake.Model.w_store := [];
     Handshake.Model.w_evals := 0; Handshake.Model.w_fresh := 0%N |}.

Example handshake_cache_run :
  let w := Handshake.Model.cache_update hx_c1'
             (Handshake.Model.cache_replace hx_c0 hx_c2
               (Handshake.Model.cache_add hx_c1 (Handshake.Model.cache_add hx_c0 hx_w0))) in
  let s := write_back (hconc heh hx_c1')
             (replace_cert 3 (hconc heh hx_c0) (hconc heh hx_c2) None
               (add_cert 3 (hconc heh hx_c1) None (add_cert 3 (hconc heh hx_c0) None init))) in
  RH heh hx_names_of 3 w s /\
  map h_id (w_cache w) = [1; 2]%N /\ akeys (cache s) = [heh 1; heh 2] /\
  (* C03's lookup on the C12 state, for SNI "a.x" and "q.x", and what the handshake model finds *)
  from_cache ascii_lower ascii_space (fun _ => true) (fun _ => true) s {| default_name := []; fallback_name := [] |} hx_ax [] =
    Some (hconc heh hx_c2, true, hx_ax) /\
  Handshake.Model.cache_find 2 w = Some hx_c2 /\
  from_cache ascii_lower ascii_space (fun _ => true) (fun _ => true) s {| default_name := []; fallback_name := [] |} [113; 46; 120]%N [] =
    Some (hconc heh hx_c1', true, hx_wx) /\
  Handshake.Model.cache_find 1 w = Some hx_c1'.
Proof.
  split; [|vm_compute; repeat split].
  apply (refine_h_update_staple heh heh_inj hx_names_of 3 _ _ hx_c1' hx_c1); [|reflexivity|reflexivity|reflexivity].
  apply (refine_h_replace heh heh_inj heh_nonempty); [| reflexivity | reflexivity | reflexivity].
  apply (refine_h_add heh heh_inj heh_nonempty); [| reflexivity | reflexivity].
  apply (refine_h_add heh heh_inj heh_nonempty); [apply RH_init; reflexivity | reflexivity | reflexivity].
Qed.
