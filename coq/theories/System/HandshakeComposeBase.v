(** System: lemmas about [Handshake.Model] alone that the composition files share
    (HandshakeCompose.v: C03 / C12; HandshakeComposeRenew.v: C04).  Kept apart so that the C04 file
    does not depend on the cache / lookup models. *)
From CM Require Import Lib.Str.
From CM Require Handshake.Model Handshake.Proofs.
From Coq Require Import List Bool NArith.
Import ListNotations.

Module H := CM.Handshake.Model.
Module HP := CM.Handshake.Proofs.

Ltac inv H := inversion H; subst; clear H.

Section Base.
  Variable is_space : N -> bool.

  (** maintenance of a certificate that is neither due nor revoked: nothing to do (an ARI refresh
      may run in its own goroutine) *)
  Lemma maint_not_due LAM w h c held e k r w1 :
    H.maintenance is_space LAM w h c held = (e, k, r, w1) ->
    H.due c = false -> H.c_revoked c = false -> e = [] /\ r = H.MCert c.
  Proof.
    unfold H.maintenance. intros Hm Hdue Hrev.
    match type of Hm with (let '(ka, wa) := ?X in _) = _ => destruct X as [ka wa] end.
    rewrite Hrev, Bool.andb_false_r in Hm. unfold H.renew_if_necessary in Hm. rewrite Hdue in Hm.
    inv Hm. split; reflexivity.
  Qed.

  Lemma hit_served_as_is w h id c own kids res w' :
    H.h_hit h = Some id -> H.cache_find id w = Some c ->
    H.c_managed c && (H.due c || H.c_revoked c) = false ->
    H.handshake is_space w h = (own, kids, res, w') ->
    res = H.RCert (H.c_id c) /\ own = [].
  Proof.
    intros Hhit Hfind Hq Hh. unfold H.handshake, H.get_cert in Hh. rewrite Hhit, Hfind in Hh.
    destruct (H.c_managed c && H.od_on w && true) eqn:E; [|inv Hh; split; reflexivity].
    assert (M : H.c_managed c = true) by (destruct (H.c_managed c); [reflexivity | discriminate]).
    rewrite M in Hq. cbn [andb] in Hq. apply Bool.orb_false_elim in Hq as [Hdue Hrev].
    destruct (H.maintenance is_space (H.load_and_maintain is_space H.fuel0) w h c false) as [[[e1 k1] r1] w2] eqn:E1.
    apply maint_not_due in E1 as [-> ->]; [|exact Hdue|exact Hrev]. inv Hh. split; reflexivity.
  Qed.

End Base.
