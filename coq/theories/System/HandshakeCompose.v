(** System: the models of Config.GetCertificate / getCertDuringHandshake (handshake.go) connected.

    Two models describe the SAME Go function:
      (L) [Lookup.Model.lookup]  (C03): GetCertificate with cfg.OnDemand == nil, on a concrete
          C12 cache state; it computes the cache lookup ([from_cache]) and takes as ORACLES
          ([env]) the IDNA error, SubjectQualifiesForCert(name) and "the certificate
          loadCertFromStorage yields when the cache is almost full".
      (H) [Handshake.Model.handshake] (C02): GetCertificate with any cfg.OnDemand, on an abstract
          cache [w_cache : list cert]; it computes the gate, loadCertFromStorage, the maintenance
          of the loaded certificate, ... and takes as ORACLES ([hello]) the answer of
          getCertificateFromCache ([h_hit] matched, [h_default] defaulted) and the IDNA name.
    Each model's oracle is what the other one computes.  Here the oracles are instantiated
    MUTUALLY, on a C12 cache state [s] and a handshake world [w] in S34's refinement relation
    [CacheHandshake.RH] (same certificates, same order, C12's invariant):
      [hello_of] : the hello of (H) whose h_hit / h_default are what (L)'s [from_cache] answers on s;
      [env_of_handshake]   : the env of (L) whose name_err / qualifies / loaded are what (H) computes in w.

    1. CONSISTENCY ON THE OVERLAP [od_off_handshake_is_lookup]: with cfg.OnDemand == nil the two
       models give the same answer (same certificate / both an error), for every cache, every
       ClientHello, every storage content, every capacity.
    2. COMPOSITION [on_demand_end_to_end] (on-demand enabled): C02's gating theorem with the real
       lookup: the only bundle, other than the handshake's own name and its wildcard variant, that
       a handshake may read (after a yes of the policy) is the bundle of a certificate that is
       REALLY in the C12 cache and lists a name covering the SNI (C03); and that cached certificate
       is what the handshake serves unless it is managed and due / revoked.
    3. SingleFlight (C13) against Handshake (C02): see HandshakeComposeSF.v;
       Renewal (C04) underneath Handshake's due / expired bits: HandshakeComposeRenew.v. *)
From CM Require Import Lib.Str Gen.Consts Cache.Model Cache.AMapFacts Cache.Proofs Lookup.Model Lookup.Proofs.
From CM Require Import System.CacheHandshake.
From CM Require Export System.HandshakeComposeBase.
From CM Require Handshake.Model Handshake.Proofs Props.C02.
From Coq Require Import Arith Lia NArith.
Open Scope nat_scope.

Module H := CM.Handshake.Model.
Module HP := CM.Handshake.Proofs.

Ltac inv H := inversion H; subst; clear H.

(** ** the two vocabularies *)
Section Compose.
  (** identities of (H) are numbers, hashes of C12 / (L) are strings: an encoding with a decoder *)
  Variable eh : N -> hash.
  Variable dh : hash -> N.
  Hypothesis dh_eh : forall i, dh (eh i) = i.
  Variable names_of : hash -> list name.
  Variable lower : N -> N.
  Variable is_space : N -> bool.
  Variable sup valid : hash -> bool.

  Lemma eh_inj a b : eh a = eh b -> a = b.
  Proof. intros E. rewrite <- (dh_eh a), <- (dh_eh b), E. reflexivity. Qed.

  Definition id_of (c : cert) : N := dh (c_hash c).

  (** (H)'s oracle instantiated by (L): the ClientHello as the handshake model sees it, when the
      cache lookup answered [fc] (= [from_cache ... s cfg sni ip]); the remaining fields (IDNA
      name, managers, issuer outcome, vanishing bundle) stay inputs *)
  Definition hello_of (fc : option (cert * bool * name)) (nm : option H.name) (m : H.mgr)
      (ok vanish : bool) : H.hello :=
    H.Hello nm
      (match fc with Some (c, true, _) => Some (id_of c) | _ => None end)
      (match fc with Some (c, false, _) => Some (id_of c) | _ => None end)
      m ok vanish.

  (** (L)'s oracle instantiated by (H): getNameFromClientHello failed; SubjectQualifiesForCert as
      interpreted from the source; what loadCertFromStorage (load + maintenance of the loaded
      certificate) yields in world w *)
  Definition loaded_of (w : hworld) (h : H.hello) : option cert :=
    match H.h_name h with
    | Some n =>
        match H.load_and_maintain is_space (S H.fuel0) w h n false with
        | (_, _, Some (H.MCert x), _) => Some (hconc eh x)
        | _ => None
        end
    | None => None
    end.
  Definition env_of_handshake (w : hworld) (h : H.hello) : env :=
    Env (match H.h_name h with None => true | Some _ => false end)
        (match H.h_name h with Some n => H.qualifies is_space n | None => true end)
        (loaded_of w h).

  (** the answers of the two models: the same certificate, or both an error *)
  Definition res_rel (r : H.result) (l : result) : Prop :=
    match r, l with
    | H.RCert id, ROk c => exists x : hcert, h_id x = id /\ hconc eh x = c
    | H.RErr _, RErr => True
    | _, _ => False
    end.

  (** cacheAlmostFull: the two models read the factor through two translator constants *)
  Lemma almost_full_agree cap w s :
    RH eh names_of cap w s -> H.w_cap w = cap ->
    H.almost_full w = almost_full cap (length (cache s)).
  Proof.
    intros [Hm _] <-. unfold H.almost_full, almost_full.
    assert (L : length (cache s) = length (w_cache w)).
    { rewrite <- (map_length snd (cache s)), Hm, map_length. reflexivity. }
    rewrite L. reflexivity.
  Qed.

  Lemma hit_lookup cap w s cfg sni ip cc b v :
    RH eh names_of cap w s ->
    from_cache lower is_space sup valid s cfg sni ip = Some (cc, b, v) ->
    exists c : hcert, hconc eh c = cc /\ id_of cc = h_id c /\ H.cache_find (h_id c) w = Some c.
  Proof.
    intros HR Hf.
    edestruct (hit_oracle_from_C03 eh) as (c & Hc & Hfind & _); try first [exact eh_inj | exact HR | exact Hf].
    exists c. split; [exact Hc|]. split; [|exact Hfind].
    unfold id_of. rewrite <- Hc. cbn [hconc c_hash]. apply dh_eh.
  Qed.

  (** ** 1. consistency on the overlap: cfg.OnDemand == nil *)

  (** (H) alone, on-demand off, after a cache miss: the subject check, then the certificate that
      loadCertFromStorage yields if the cache is almost full, else the defaulted one, else an error *)
  Lemma od_off_miss w h n own kids res w' :
    H.w_od w = None ->
    match H.h_hit h with Some id => H.cache_find id w | None => None end = None ->
    H.h_name h = Some n ->
    H.handshake is_space w h = (own, kids, res, w') ->
    res = if negb (H.qualifies is_space n) then H.RErr 2
          else if H.almost_full w then
                 match H.load_and_maintain is_space (S H.fuel0) w h n false with
                 | (_, _, Some (H.MCert x), _) => H.RCert (H.c_id x)
                 | _ => H.fallback h
                 end
               else H.fallback h.
  Proof.
    intros Hod Hmiss Hn Hh.
    assert (D : H.od_on w = false) by (unfold H.od_on; rewrite Hod; reflexivity).
    unfold H.handshake, H.get_cert in Hh. rewrite Hmiss, Hn in Hh.
    unfold H.mgr_view in Hh. rewrite D in Hh.
    unfold H.after_mgr, H.gate in Hh. cbn [andb] in Hh.
    destruct (H.qualifies is_space n); cbn [negb] in Hh |- *; [|inv Hh; reflexivity].
    rewrite Hod in Hh. cbv beta iota zeta in Hh. cbn [negb] in Hh. rewrite D in Hh. cbn [orb] in Hh.
    rewrite andb_true_r in Hh.
    destruct (H.almost_full w); [|inv Hh; reflexivity].
    destruct (H.load_and_maintain is_space (S H.fuel0) w h n false) as [[[e1 k1] r1] w2] eqn:E1.
    pose proof (HP.lam_off is_space h _ _ _ _ _ _ _ _ E1 D) as (_ & _ & O2).
    destruct r1 as [[x|  |x]|]; try (inv Hh; reflexivity).
    assert (D2 : H.od_on w2 = false) by (unfold H.od_on; rewrite O2, Hod; reflexivity).
    rewrite D2 in Hh. inv Hh. reflexivity.
  Qed.

  Theorem od_off_handshake_is_lookup cap w s cfg sni ip nm m ok vanish own kids res w' :
    RH eh names_of cap w s -> H.w_cap w = cap -> H.w_od w = None ->
    let fc := from_cache lower is_space sup valid s cfg sni ip in
    let h := hello_of fc nm m ok vanish in
    H.handshake is_space w h = (own, kids, res, w') ->
    res_rel res (lookup lower is_space sup valid s cap cfg sni ip (env_of_handshake w h)).
  Proof.
    intros HR Hcap Hod fc h Hh.
    assert (D : H.od_on w = false) by (unfold H.od_on; rewrite Hod; reflexivity).
    pose proof (almost_full_agree cap w s HR Hcap) as AF.
    unfold lookup. fold fc.
    destruct fc as [[[cc [|]] v]|] eqn:Hfc.
    - (* matched in the cache *)
      destruct (hit_lookup cap w s cfg sni ip cc true v HR Hfc) as (c & Hc & Hid & Hfind).
      unfold H.handshake, H.get_cert in Hh.
      unfold h, hello_of in Hh. cbn [H.h_hit] in Hh. rewrite Hid, Hfind, D, andb_false_r in Hh.
      cbn [andb] in Hh. inv Hh. cbn [res_rel]. exists c. split; reflexivity.
    - (* defaulted *)
      destruct (hit_lookup cap w s cfg sni ip cc false v HR Hfc) as (c & Hc & Hid & Hfind).
      assert (FB : res_rel (H.fallback h) (ROk cc)).
      { unfold H.fallback, h, hello_of. cbn [H.h_default res_rel]. exists c. split; [symmetry; exact Hid | exact Hc]. }
      destruct nm as [n|].
      2:{ unfold H.handshake, H.get_cert in Hh. unfold h at 1 2, hello_of in Hh. cbn [H.h_hit H.h_name] in Hh.
          inv Hh. cbn. exact I. }
      rewrite (od_off_miss w h n own kids res w' Hod eq_refl eq_refl Hh).
      unfold env_of_handshake, loaded_of. cbn [name_err qualifies loaded].
      change (H.h_name h) with (Some n). cbn iota.
      destruct (H.qualifies is_space n); cbn [negb]; [|exact I].
      rewrite AF. destruct (almost_full cap (length (cache s))); [|exact FB].
      destruct (H.load_and_maintain is_space (S H.fuel0) w h n false) as [[[e1 k1] [[x|  |x]|]] w2];
        try exact FB.
      cbn [res_rel]. exists x. split; reflexivity.
    - (* nothing cached for the name, the default name or the fallback name *)
      assert (FB : res_rel (H.fallback h) RErr).
      { unfold H.fallback, h, hello_of. cbn [H.h_default res_rel]. exact I. }
      destruct nm as [n|].
      2:{ unfold H.handshake, H.get_cert in Hh. unfold h at 1 2, hello_of in Hh. cbn [H.h_hit H.h_name] in Hh.
          inv Hh. cbn. exact I. }
      rewrite (od_off_miss w h n own kids res w' Hod eq_refl eq_refl Hh).
      unfold env_of_handshake, loaded_of. cbn [name_err qualifies loaded].
      change (H.h_name h) with (Some n). cbn iota.
      destruct (H.qualifies is_space n); cbn [negb]; [|exact I].
      rewrite AF. destruct (almost_full cap (length (cache s))); [|exact FB].
      destruct (H.load_and_maintain is_space (S H.fuel0) w h n false) as [[[e1 k1] [[x|  |x]|]] w2];
        try exact FB.
      cbn [res_rel]. exists x. split; reflexivity.
  Qed.

  (** ** 2. composition: on-demand enabled, the real lookup under C02's gating theorem *)

  (** first subject of the certificate (L)'s lookup matched: the bundle key reloadManagedCertificate reads *)
  Definition lookup_hit_key (fc : option (cert * bool * name)) : option name :=
    match fc with Some (cc, true, _) => Some (hd [] (c_names cc)) | _ => None end.

  Lemma hit_key_of_lookup cap w s cfg sni ip nm m ok vanish :
    RH eh names_of cap w s ->
    let fc := from_cache lower is_space sup valid s cfg sni ip in
    H.hit_key w (hello_of fc nm m ok vanish) = lookup_hit_key fc.
  Proof.
    intros HR fc. unfold H.hit_key, hello_of, lookup_hit_key. cbn [H.h_hit].
    destruct fc as [[[cc [|]] v]|] eqn:Hfc; try reflexivity.
    destruct (hit_lookup cap w s cfg sni ip cc true v HR Hfc) as (c & Hc & Hid & Hfind).
    rewrite Hid, Hfind. cbn [option_map]. rewrite <- Hc. reflexivity.
  Qed.

  (** (H) alone: a certificate matched in the cache that is not (managed and (due or revoked)) is
      served as it is, and the handshake goroutine touches neither policy, storage nor issuer
      (an ARI refresh may run in its own goroutine) *)
  Definition covered_by_yes := CM.Props.C02.covered_by_yes.

  Theorem on_demand_end_to_end cap w s cfg sni ip nm m ok vanish own kids res w' :
    RH eh names_of cap w s -> H.store_wf w -> H.od_on w = true ->
    let fc := from_cache lower is_space sup valid s cfg sni ip in
    let h := hello_of fc nm m ok vanish in
    let hk := lookup_hit_key fc in
    H.handshake is_space w h = (own, kids, res, w') ->
    (* C02: every Issue / bundle read, in any goroutine of the handshake, is covered by a most
       recent yes of the policy; the bundle keys are relative to the REAL lookup's answer *)
    (forall g, In g (own :: kids) -> forall i x, nth_error g i = Some x ->
       (forall mm, x = H.EIssue mm -> H.qualifies is_space mm = true /\ covered_by_yes mm g i) /\
       (forall mm, x = H.ELoad mm -> exists n y, nm = Some n /\ H.qualifies is_space y = true /\
          covered_by_yes y g i /\ H.load_ok hk y mm = true /\ In y (H.cands n hk))) /\
    (* C03 through C12: that answer is a certificate really in the cache, listing a name that
       covers the SNI (or the local IP when there is no SNI); it is what the handshake serves
       unless it is managed and due / revoked *)
    (forall cc v, fc = Some (cc, true, v) ->
       alookup (c_hash cc) (cache s) = Some cc /\ In v (c_names cc) /\
       (let n := normalize lower is_space sni in (n <> [] /\ covers v n) \/ (n = [] /\ v = ip)) /\
       exists c : hcert, hconc eh c = cc /\ H.cache_find (h_id c) w = Some c /\
         (H.c_managed c && (H.due c || H.c_revoked c) = false -> res = H.RCert (h_id c) /\ own = [])) /\
    (* nothing matched: no third bundle key *)
    ((forall cc v, fc <> Some (cc, true, v)) -> hk = None).
  Proof.
    intros HR W D fc h hk Hh. split; [|split].
    - intros g Hg i x Hx.
      pose proof (CM.Props.C02.C02_gated is_space w h own kids res w' Hh D W g Hg i x Hx) as G.
      pose proof (hit_key_of_lookup cap w s cfg sni ip nm m ok vanish HR) as HK. cbv zeta in HK.
      change (H.hit_key w h = hk) in HK. rewrite HK in G. exact G.
    - intros cc v Hfc.
      edestruct (hit_oracle_from_C03 eh) as (c & Hc & Hfind & Hv & Hcase); try first [exact eh_inj | exact HR | exact Hfc].
      epose proof (refine_find eh eh_inj _ _ w s (h_id c) HR) as Hrf. rewrite Hfind in Hrf.
      split; [rewrite <- Hc; exact Hrf|]. split; [rewrite <- Hc; exact Hv|]. split.
      + cbv zeta in Hcase |- *. destruct Hcase as [(_ & A & B)|[(_ & A & B)|[(A & _)|(A & _)]]];
          [left; auto | right; auto | discriminate | discriminate].
      + exists c. split; [exact Hc|]. split; [exact Hfind|]. intros Hq.
        apply (hit_served_as_is is_space w h (h_id c) c own kids res w'); [|exact Hfind|exact Hq|exact Hh].
        unfold h, hello_of. cbn [H.h_hit]. fold fc. rewrite Hfc. f_equal.
        unfold id_of. rewrite <- Hc. apply dh_eh.
    - intros Hno. unfold hk, lookup_hit_key. destruct fc as [[[cc [|]] v]|]; try reflexivity.
      exfalso. exact (Hno cc v eq_refl).
  Qed.

  (** the same over every cache content the C12 operations can produce (the world's cache being
      the abstraction of that content) *)
  Corollary on_demand_end_to_end_reachable cap ops w cfg sni ip nm m ok vanish own kids res w' :
    Forall (wf_op names_of) ops ->
    let s := run cap init ops in
    map snd (cache s) = map (hconc eh) (w_cache w) -> H.store_wf w -> H.od_on w = true ->
    let fc := from_cache lower is_space sup valid s cfg sni ip in
    let h := hello_of fc nm m ok vanish in
    let hk := lookup_hit_key fc in
    H.handshake is_space w h = (own, kids, res, w') ->
    (forall g, In g (own :: kids) -> forall i x, nth_error g i = Some x ->
       (forall mm, x = H.EIssue mm -> H.qualifies is_space mm = true /\ covered_by_yes mm g i) /\
       (forall mm, x = H.ELoad mm -> exists n y, nm = Some n /\ H.qualifies is_space y = true /\
          covered_by_yes y g i /\ H.load_ok hk y mm = true /\ In y (H.cands n hk))) /\
    (forall cc v, fc = Some (cc, true, v) ->
       alookup (c_hash cc) (cache s) = Some cc /\ In v (c_names cc) /\
       (let n := normalize lower is_space sni in (n <> [] /\ covers v n) \/ (n = [] /\ v = ip)) /\
       exists c : hcert, hconc eh c = cc /\ H.cache_find (h_id c) w = Some c /\
         (H.c_managed c && (H.due c || H.c_revoked c) = false -> res = H.RCert (h_id c) /\ own = [])) /\
    ((forall cc v, fc <> Some (cc, true, v)) -> hk = None).
  Proof.
    intros Hops s Hm W D. apply (on_demand_end_to_end cap); [|exact W|exact D].
    split; [exact Hm|]. apply run_inv; [apply inv_init | exact Hops].
  Qed.
End Compose.

Print Assumptions od_off_handshake_is_lookup.
Print Assumptions on_demand_end_to_end.
Print Assumptions on_demand_end_to_end_reachable.

(** ---- non-vacuity ---- *)
Definition dheh (h : hash) : N := match h with [x] => N.pred x | _ => 0%N end.
Lemma dheh_heh i : dheh (heh i) = i.
Proof. unfold dheh, heh. apply N.pred_succ. Qed.

Lemma store_wf_of_list (w : hworld) :
  Forall (fun kv => H.name0 (snd kv) = fst kv) (H.w_store w) -> H.store_wf w.
Proof.
  unfold H.store_wf, H.store_find. generalize (H.w_store w) as l.
  induction l as [|[k0 c0] l IH]; intros F k c Hf; cbn [H.assoc] in Hf; [discriminate|].
  inversion F as [|? ? F0 Fl]; subst. destruct (str_eqb k0 k) eqn:E.
  - inv Hf. apply str_eqb_eq in E. subst. exact F0.
  - exact (IH Fl k c Hf).
Qed.

Definition y_ax : name := [97; 46; 120]%N.            (* a.x *)
Definition y_wx : name := [42; 46; 120]%N.            (* *.x *)
Definition y_qx : name := [113; 46; 120]%N.           (* q.x *)
Definition y_fy : name := [102; 46; 121]%N.           (* f.y *)
Definition y_qy : name := [113; 46; 121]%N.           (* q.y *)
Definition y_ey : name := [101; 46; 121]%N.           (* e.y *)
Definition y_zy : name := [122; 46; 121]%N.           (* z.y *)
Definition y_names_of (h : hash) : list name :=
  match h with [1%N] => [y_ax] | [2%N] => [y_fy] | [3%N] => [y_wx] | _ => [] end.
Definition y_c0 := H.Cert 0 [y_ax] false false false false false None.        (* a.x, unmanaged *)
Definition y_c1 := H.Cert 1 [y_fy] false false false false false None.        (* f.y, the fallback certificate *)
Definition y_c2 := H.Cert 2 [y_wx] true true false false false None.          (* *.x, managed, due *)
Definition y_b5 := H.Cert 5 [y_qy] true false false false false None.         (* stored bundle q.y *)
Definition y_b6 := H.Cert 6 [y_ey] true true true false false None.           (* stored bundle e.y, expired *)
Definition y_b7 := H.Cert 7 [y_wx] true true false false false None.          (* stored bundle *.x, due *)
Definition y_cfg := Config [] y_fy.

(** on-demand off, capacity 2, cache full: a.x and the fallback certificate f.y *)
Definition y_ops1 := [OAdd (hconc heh y_c0) None; OAdd (hconc heh y_c1) None].
Definition y_s1 := run 2 init y_ops1.
Definition y_w1 := H.World None 2 [y_c0; y_c1] [(y_qy, y_b5); (y_ey, y_b6)] 0 10.

Lemma y_RH1 : RH heh y_names_of 2 y_w1 y_s1.
Proof.
  split; [vm_compute; reflexivity|]. apply run_inv; [apply inv_init|].
  repeat constructor; cbn; discriminate.
Qed.

Definition y_hs1 (sni : str) (nm : option H.name) :=
  let fc := from_cache ascii_lower ascii_space (fun _ => true) (fun _ => true) y_s1 y_cfg sni [] in
  let h := hello_of dheh fc nm H.MgrNone true false in
  (let '(_, _, r, _) := H.handshake ascii_space y_w1 h in r,
   lookup ascii_lower ascii_space (fun _ => true) (fun _ => true) y_s1 2 y_cfg sni [] (env_of_handshake heh ascii_space y_w1 h)).

(** the hypotheses of [od_off_handshake_is_lookup] hold of this world, and the answers are:
    " A.x " -> the cached a.x; q.y -> the bundle loaded from storage (cache almost full);
    e.y -> its bundle is expired and cannot be renewed (on-demand off): the fallback certificate;
    z.y -> nothing to load: the fallback certificate; an IDNA error -> an error *)
Example od_off_agreement_satisfiable :
  RH heh y_names_of 2 y_w1 y_s1 /\ H.w_cap y_w1 = 2 /\ H.w_od y_w1 = None /\
  y_hs1 [32; 65; 46; 120; 32]%N (Some y_ax) = (H.RCert 0, ROk (hconc heh y_c0)) /\
  y_hs1 y_qy (Some y_qy) = (H.RCert 5, ROk (hconc heh (H.as_loaded y_b5))) /\
  y_hs1 y_ey (Some y_ey) = (H.RCert 1, ROk (hconc heh y_c1)) /\
  y_hs1 y_zy (Some y_zy) = (H.RCert 1, ROk (hconc heh y_c1)) /\
  y_hs1 y_zy None = (H.RErr 1, RErr).
Proof.
  split; [exact y_RH1|]. vm_compute. repeat split.
Qed.

(** on-demand on (a decision function that permits q.x and *.x): the managed wildcard certificate
    is cached and due, its bundle is in storage *)
Definition y_ops2 := [OAdd (hconc heh y_c0) None; OAdd (hconc heh y_c2) None].
Definition y_s2 := run 0 init y_ops2.
Definition y_pol := H.PDecision (fun _ x => str_eqb x y_qx || str_eqb x y_wx).
Definition y_w2 := H.World (Some y_pol) 0 [y_c0; y_c2] [(y_wx, y_b7)] 0 10.

Example on_demand_end_to_end_satisfiable :
  Forall (wf_op y_names_of) y_ops2 /\
  map snd (cache y_s2) = map (hconc heh) (w_cache y_w2) /\ H.store_wf y_w2 /\ H.od_on y_w2 = true /\
  let fc := from_cache ascii_lower ascii_space (fun _ => true) (fun _ => true) y_s2 (Config [] []) y_qx [] in
  fc = Some (hconc heh y_c2, true, y_wx) /\
  lookup_hit_key fc = Some y_wx /\
  (* the due wildcard certificate is served; the background renewal asks the policy about q.x,
     reads the bundle q.x (missing): the renewal fails, nothing is issued *)
  (let '(own, kids, r, _) := H.handshake ascii_space y_w2 (hello_of dheh fc (Some y_qx) H.MgrNone true false) in
   (own, kids, r)) = ([H.EExists y_wx], [[H.EDecision y_qx true; H.ELoad y_qx]], H.RCert 2) /\
  (* a.x is matched by the unmanaged certificate: served as it is *)
  (let fc' := from_cache ascii_lower ascii_space (fun _ => true) (fun _ => true) y_s2 (Config [] []) y_ax [] in
   let '(own, kids, r, _) := H.handshake ascii_space y_w2 (hello_of dheh fc' (Some y_ax) H.MgrNone true false) in
   (own, kids, r)) = ([], [], H.RCert 0).
Proof.
  split; [repeat constructor; cbn; discriminate|].
  split; [vm_compute; reflexivity|].
  split; [apply store_wf_of_list; repeat constructor|].
  vm_compute. repeat split.
Qed.
