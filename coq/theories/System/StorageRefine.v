(** System / S2 (A) — FileSys ==> the abstract atomic Storage map used by the other models.

    The Issuance LTS ([Issuance.Model]: [sto : skey -> option value], [sput]), the Bundle monad
    ([Bundle.Model]: [sget]/[sput]/[sdel] behind the prims [store]/[load]/[delete]/[exists_]),
    the Account model (one slot per CA) all treat Storage as an ATOMIC FLAT MAP: keys are
    independent of each other, Load returns the last stored value, Exists = "a value is stored".
    [FileSys.Model] (C10) is what FileStorage really does: a POSIX tree with ENOENT / ENOTDIR /
    EISDIR, MkdirAll, rename, RemoveAll.

    This file
      0. defines the atomic map ONCE ([amap], [astep], [arun]; polymorphic in key and value);
      1. proves that FileSys refines it for every operation sequence over a key set [K] that is
         prefix-free by whole components and does not contain the root ([fs_refines_amap]), from
         the empty tree or from any tree that is [compat]ible with [K] (foreign files allowed);
         the abstraction function is [abs fs k = Some v <-> resolve fs k = inr (EFile v)];
      2. proves that the two side conditions are NECESSARY ([refines_iff_side_conditions]) and
         gives the concrete witnesses of what is not refined ([*_refuted]);
      3. transports the refinement along an injective key embedding / value encoding
         ([fs_refines_embedded]);
      4. proves that the storage component of Issuance's thread step and Bundle's prims ARE the
         abstract step ([IssCorr.tstep_is_astep], [IssCorr.runs_is_arun], [BundleCorr.*]), and
         composes: every Issuance run is reproduced, storage event by storage event, by
         [fs_run] on the embedded keys ([IssCorr.issuance_on_filestorage]);
      5. a criterion for prefix-freeness that the key builders of certmagic meet
         ([prefix_free_by_depth]). *)
From CM Require Import Lib.Str FileSys.Model FileSys.Proofs.
From CM Require Issuance.Model Issuance.Base Bundle.Model Bundle.Proofs Gen.Consts Safe.Model Safe.KeysProofs Clean.Model.
Open Scope N_scope.

(** * 0. The abstract atomic map *)
Definition amap (K V : Type) : Type := K -> option V.
Definition is_some {A} (o : option A) : bool := match o with Some _ => true | None => false end.

Inductive aop (K V : Type) := AStore (k : K) (v : V) | ALoad (k : K) | ADelete (k : K) | AExists (k : K).
Arguments AStore {K V} k v. Arguments ALoad {K V} k. Arguments ADelete {K V} k. Arguments AExists {K V} k.
Inductive ares (V : Type) := AOk | AVal (v : V) | ANotExist | ABool (b : bool).
Arguments AOk {V}. Arguments AVal {V} v. Arguments ANotExist {V}. Arguments ABool {V} b.

Section AMap.
  Context {K V : Type}.
  Variable keqb : K -> K -> bool.
  Definition aput (m : amap K V) (k : K) (x : option V) : amap K V :=
    fun k' => if keqb k k' then x else m k'.
  (** every operation is one atomic step; keys are independent; Store and Delete always succeed *)
  Definition astep (m : amap K V) (o : aop K V) : amap K V * ares V :=
    match o with
    | AStore k v => (aput m k (Some v), AOk)
    | ALoad k => (m, match m k with Some v => AVal v | None => ANotExist end)
    | ADelete k => (aput m k None, AOk)
    | AExists k => (m, ABool (is_some (m k)))
    end.
  Fixpoint arun (m : amap K V) (ops : list (aop K V)) : amap K V * list (ares V) :=
    match ops with
    | [] => (m, [])
    | o :: r => let '(m1, b) := astep m o in let '(m2, bs) := arun m1 r in (m2, b :: bs)
    end.
  (** List(p): the present keys below [p] ([below] = the model's prefix relation) *)
  Definition alisted (below : K -> K -> bool) (m : amap K V) (p k : K) : Prop :=
    below p k = true /\ m k <> None.
End AMap.

Definition akey {K V} (o : aop K V) : K :=
  match o with AStore k _ | ALoad k | ADelete k | AExists k => k end.

(** * 1. FileSys refines the atomic map on prefix-free key sets *)

(** the FileStorage call and the observation that correspond to an abstract operation / result *)
Definition fop (o : aop path value) : op :=
  match o with AStore k v => OpStore k v | ALoad k => OpLoad k | ADelete k => OpDelete k | AExists k => OpExists k end.
Definition fobs (r : ares value) : obs :=
  match r with
  | AOk => obs_cls ROk
  | AVal v => Obs ROk v false [] 0
  | ANotExist => obs_cls RNotExist
  | ABool b => Obs ROk [] b [] 0
  end.

(** abstraction function: the value of the regular file the key resolves to *)
Definition abs (fs : fsys) : amap path value :=
  fun k => match resolve fs k with inr (EFile v) => Some v | _ => None end.

(** the side conditions on the key set *)
Definition prefix_free (K : path -> Prop) : Prop :=
  forall a b, K a -> K b -> is_prefix a b = true -> a = b.
Definition nonroot (K : path -> Prop) : Prop := forall a, K a -> a <> [].
Definition op_in (K : path -> Prop) (o : aop path value) : Prop := K (akey o).

(** the tree does not obstruct any key of [K]: no regular file strictly above a key, no
    directory at a key.  Anything else may be in the tree (other applications' files, lock
    files, temp files of killed Stores, directories left behind by Deletes). *)
Definition compat (K : path -> Prop) (fs : fsys) : Prop :=
  forall k, K k ->
    (forall q w, proper_prefix q k = true -> lookup fs q <> Some (EFile w)) /\ lookup fs k <> Some EDir.
Definition Rep (K : path -> Prop) (fs : fsys) (m : amap path value) : Prop :=
  closed fs /\ compat K fs /\ forall k, K k -> abs fs k = m k.

Lemma abs_lookup fs k : closed fs ->
  abs fs k = match lookup fs k with Some (EFile v) => Some v | _ => None end.
Proof.
  intros Hc. unfold abs. destruct (lookup fs k) as [e|] eqn:E.
  - apply (resolve_inr fs Hc) in E. rewrite E. reflexivity.
  - apply (resolve_inl fs Hc) in E. destruct E as [e E]. rewrite E. reflexivity.
Qed.

Lemma compat_nonroot K fs : compat K fs -> nonroot K.
Proof. intros Hk a Ha ->. destruct (Hk [] Ha) as [_ H]. apply H. reflexivity. Qed.

Lemma Rep_empty K : nonroot K -> Rep K [] (fun _ => None).
Proof.
  intros Hn. split; [apply closed_nil|]. split.
  - intros k Hk. split.
    + intros [|c q] w _; cbn; discriminate.
    + specialize (Hn k Hk). destruct k; [contradiction | cbn; discriminate].
  - intros k _. rewrite (abs_lookup [] k closed_nil). destruct k; reflexivity.
Qed.
Lemma Rep_abs K fs : closed fs -> compat K fs -> Rep K fs (abs fs).
Proof. intros Hc Hk. split; [assumption|]. split; [assumption | reflexivity]. Qed.

Lemma fs_store_obs fs k v : snd (fs_store fs k v) = obs_cls (ocls (snd (fs_store fs k v))).
Proof.
  unfold fs_store. destruct (mkdir_all_from fs [] (parent k)) as [e|fs1]; [reflexivity|].
  destruct (lookup fs1 k) as [[w|]|]; reflexivity.
Qed.
Lemma fs_delete_obs fs k : snd (fs_delete fs k) = obs_cls ROk.
Proof. unfold fs_delete. destruct (resolve fs k); reflexivity. Qed.
Lemma path_eqb_prefix a b : path_eqb a b = true -> is_prefix a b = true.
Proof. intros H. apply path_eqb_eq in H. subst. apply is_prefix_refl. Qed.

(** one step: same observation, representation kept *)
Lemma step_refines K fs m o :
  prefix_free K -> Rep K fs m -> op_in K o ->
  snd (fs_step fs (fop o)) = fobs (snd (astep path_eqb m o)) /\
  Rep K (fst (fs_step fs (fop o))) (fst (astep path_eqb m o)).
Proof.
  intros Hpf (Hc & Hk & Hm) Ho. unfold op_in in Ho.
  destruct o as [k v|k|k|k]; cbn [akey fop fs_step astep fst snd] in *.
  - (* Store *)
    destruct (Hk k Ho) as [Hnf Hnd].
    destruct (store_spec fs Hc k v) as (Hc' & Hok & Hfail).
    destruct (is_ok (snd (fs_store fs k v))) eqn:Eok.
    2: { exfalso. destruct (Hfail eq_refl) as [[->|[(q & w & Hq & Hf)|Hd]] _].
         - apply Hnd. reflexivity.
         - exact (Hnf q w Hq Hf).
         - exact (Hnd Hd). }
    destruct (Hok eq_refl) as (Hkn & _ & _ & Heff). split.
    + rewrite fs_store_obs. unfold is_ok in Eok.
      destruct (ocls (snd (fs_store fs k v))); try discriminate. reflexivity.
    + split; [assumption|]. split.
      * intros k' Hk'. destruct (Hk k' Hk') as [Hnf' Hnd']. split.
        -- intros q w Hq. rewrite Heff.
           destruct (path_eqb k q) eqn:E1.
           { apply path_eqb_eq in E1. subst q. exfalso.
             pose proof (Hpf k k' Ho Hk' (proper_prefix_is_prefix _ _ Hq)) as E. subst k'.
             rewrite proper_prefix_irrefl in Hq. discriminate. }
           destruct (proper_prefix q k); [discriminate | apply Hnf'; assumption].
        -- rewrite Heff. destruct (path_eqb k k') eqn:E1; [discriminate|].
           destruct (proper_prefix k' k) eqn:E2; [|assumption]. exfalso.
           pose proof (Hpf k' k Hk' Ho (proper_prefix_is_prefix _ _ E2)) as E. subst k'.
           rewrite path_eqb_refl in E1. discriminate.
      * intros k' Hk'. rewrite (abs_lookup _ k' Hc'), Heff. unfold aput.
        destruct (path_eqb k k') eqn:E1; [reflexivity|].
        destruct (proper_prefix k' k) eqn:E2.
        { exfalso. pose proof (Hpf k' k Hk' Ho (proper_prefix_is_prefix _ _ E2)) as E. subst k'.
          rewrite path_eqb_refl in E1. discriminate. }
        rewrite <- (Hm k' Hk'). symmetry. apply abs_lookup. assumption.
  - (* Load *)
    split; [|split; [assumption | split; assumption]].
    rewrite <- (Hm k Ho). unfold fs_load, abs.
    destruct (resolve fs k) as [e|[w|]] eqn:Er.
    + rewrite (resolve_errno_cls _ _ _ Er). reflexivity.
    + reflexivity.
    + exfalso. apply (resolve_inr fs Hc) in Er. destruct (Hk k Ho) as [_ Hnd]. exact (Hnd Er).
  - (* Delete *)
    pose proof (compat_nonroot K fs Hk) as Hnr.
    destruct (delete_spec fs Hc k) as (Hc' & _ & Heff). split; [apply fs_delete_obs|].
    split; [assumption|]. split.
    + intros k' Hk'. destruct (Hk k' Hk') as [Hnf' Hnd']. split.
      * intros q w Hq. destruct q as [|c q]; [cbn; discriminate|]. rewrite Heff by discriminate.
        destruct (is_prefix k (c :: q)); [discriminate | apply Hnf'; assumption].
      * rewrite Heff by (apply Hnr; assumption). destruct (is_prefix k k'); [discriminate | assumption].
    + intros k' Hk'. rewrite (abs_lookup _ k' Hc'), Heff by (apply Hnr; assumption). unfold aput.
      destruct (is_prefix k k') eqn:E1.
      * rewrite (Hpf k k' Ho Hk' E1), path_eqb_refl. reflexivity.
      * destruct (path_eqb k k') eqn:E2; [apply path_eqb_prefix in E2; congruence|].
        rewrite <- (Hm k' Hk'). symmetry. apply abs_lookup. assumption.
  - (* Exists *)
    split; [|split; [assumption | split; assumption]].
    rewrite <- (Hm k Ho). unfold fs_exists, abs.
    destruct (resolve fs k) as [e|[w|]] eqn:Er.
    + rewrite (resolve_errno_cls _ _ _ Er). reflexivity.
    + reflexivity.
    + exfalso. apply (resolve_inr fs Hc) in Er. destruct (Hk k Ho) as [_ Hnd]. exact (Hnd Er).
Qed.

(** THE sequential refinement: for every operation sequence over a prefix-free key set,
    FileStorage on a compatible tree returns exactly the atomic map's answers, and the final
    tree represents the final map. *)
Theorem fs_refines_amap K : prefix_free K ->
  forall ops fs m, Rep K fs m -> Forall (op_in K) ops ->
  snd (fs_run fs (map fop ops)) = map fobs (snd (arun path_eqb m ops)) /\
  Rep K (fst (fs_run fs (map fop ops))) (fst (arun path_eqb m ops)).
Proof.
  intros Hpf. induction ops as [|o ops IH]; intros fs m HR Hall; cbn [map fs_run arun].
  - split; [reflexivity | exact HR].
  - inversion Hall as [|? ? Ho Hrest]; subst.
    destruct (step_refines K fs m o Hpf HR Ho) as [Hobs HR1].
    destruct (fs_step fs (fop o)) as [fs1 b]. destruct (astep path_eqb m o) as [m1 r].
    cbn [fst snd] in Hobs, HR1.
    destruct (IH fs1 m1 HR1 Hrest) as [Hobs2 HR2].
    destruct (fs_run fs1 (map fop ops)) as [fs2 bs]. destruct (arun path_eqb m1 ops) as [m2 rs].
    cbn [fst snd map] in *. rewrite Hobs, Hobs2. split; [reflexivity | exact HR2].
Qed.

(** from the empty tree *)
Corollary fs_refines_amap_empty K : prefix_free K -> nonroot K ->
  forall ops, Forall (op_in K) ops ->
  snd (fs_run [] (map fop ops)) = map fobs (snd (arun path_eqb (fun _ => None) ops)) /\
  forall k, K k -> abs (fst (fs_run [] (map fop ops))) k = fst (arun path_eqb (fun _ => None) ops) k.
Proof.
  intros Hpf Hnr ops Hall.
  destruct (fs_refines_amap K Hpf ops [] _ (Rep_empty K Hnr) Hall) as [H1 (_ & _ & H2)]. auto.
Qed.

(** List and Stat in the vocabulary of the map: on the keys of [K] a recursive List of any
    prefix returns exactly the stored keys below it; Stat of a key of [K] is a terminal key with
    the size of the stored value, or not-exist. *)
Lemma list_refines K fs m p k : Rep K fs m -> K k ->
  In k (okeys (fs_list fs p true)) <-> alisted proper_prefix m p k.
Proof.
  intros (Hc & Hk & Hm) HK. unfold alisted. rewrite (fs_list_keys fs Hc), <- (Hm k HK), (abs_lookup fs k Hc).
  unfold present_fs. destruct (Hk k HK) as [_ Hnd]. split.
  - intros (_ & Hl & Hp). apply listed_rec, proper_prefix_spec in Hl. split; [assumption|].
    destruct (lookup fs k) as [[w|]|]; [discriminate | contradiction | contradiction].
  - intros [Hl Hp]. destruct (lookup fs k) as [[w|]|] eqn:E; try contradiction.
    split; [apply (Hc k p); [congruence | assumption]|].
    split; [apply listed_rec, proper_prefix_spec; assumption | discriminate].
Qed.
Lemma stat_refines K fs m k : Rep K fs m -> K k ->
  fs_stat fs k = match m k with
                 | Some v => Obs ROk [] true [] (N.of_nat (length v))
                 | None => obs_cls RNotExist
                 end.
Proof.
  intros (Hc & Hk & Hm) HK. rewrite <- (Hm k HK). unfold fs_stat, abs.
  destruct (resolve fs k) as [e|[w|]] eqn:Er.
  - rewrite (resolve_errno_cls _ _ _ Er). reflexivity.
  - reflexivity.
  - exfalso. apply (resolve_inr fs Hc) in Er. destruct (Hk k HK) as [_ Hnd]. exact (Hnd Er).
Qed.

(** * 2. The side conditions are necessary; what is NOT refined *)

(** if every sequence over [K] is answered as by the flat map, [K] is prefix-free without root *)
Theorem side_conditions_necessary K :
  (forall ops, Forall (op_in K) ops ->
     snd (fs_run [] (map fop ops)) = map fobs (snd (arun path_eqb (fun _ => None) ops))) ->
  nonroot K /\ prefix_free K.
Proof.
  intros H.
  assert (Hnr : nonroot K).
  { intros a Ha ->.
    assert (Hall : Forall (op_in K) [AStore [] []]) by (constructor; [exact Ha | constructor]).
    specialize (H _ Hall). cbn in H. discriminate. }
  split; [assumption|]. intros a b Ha Hb Hp.
  destruct (path_eqb a b) eqn:E; [apply path_eqb_eq; assumption | exfalso].
  assert (Hpp : proper_prefix a b = true) by (unfold proper_prefix; rewrite Hp, E; reflexivity).
  assert (Hall : Forall (op_in K) [AStore b []; AExists a])
    by (constructor; [exact Hb | constructor; [exact Ha | constructor]]).
  specialize (H _ Hall). clear Hall.
  cbn [map fop fs_run fs_step arun astep fst snd] in H.
  destruct (store_spec [] closed_nil b []) as (Hc' & Hok & Hfail).
  destruct (is_ok (snd (fs_store [] b []))) eqn:Eok.
  2: { destruct (Hfail eq_refl) as [[->|[(q & w & Hq & Hf)|Hd]] _].
       - apply proper_prefix_nonnil in Hpp. contradiction.
       - destruct q; cbn in Hf; discriminate.
       - specialize (Hnr b Hb). destruct b; [contradiction | cbn in Hd; discriminate]. }
  destruct (Hok eq_refl) as (_ & _ & _ & Heff).
  destruct (fs_store [] b []) as [fs1 o1]. cbn [fst snd] in *.
  assert (Ea : lookup fs1 a = Some EDir).
  { rewrite Heff, Hpp. rewrite path_eqb_sym, E. reflexivity. }
  apply (resolve_inr fs1 Hc') in Ea. unfold fs_exists in H. rewrite Ea in H.
  unfold aput in H. rewrite path_eqb_sym, E in H. cbn in H. injection H as _ H. discriminate.
Qed.

Theorem refines_iff_side_conditions K :
  (nonroot K /\ prefix_free K) <->
  (forall ops, Forall (op_in K) ops ->
     snd (fs_run [] (map fop ops)) = map fobs (snd (arun path_eqb (fun _ => None) ops))).
Proof.
  split.
  - intros [Hnr Hpf] ops Hall. apply (fs_refines_amap_empty K Hpf Hnr ops Hall).
  - apply side_conditions_necessary.
Qed.

(** concrete witnesses, on the keys "a" and "a/b" *)
Definition k_a : path := [[97]].
Definition k_ab : path := [[97]; [98]].
Definition k_abc : path := [[97]; [98]; [99]].
Definition m0 : amap path value := fun _ => None.
Definition fs_obs (ops : list (aop path value)) : list obs := snd (fs_run [] (map fop ops)).
Definition am_obs (ops : list (aop path value)) : list obs := map fobs (snd (arun path_eqb m0 ops)).

(** (i) a key below a file key: the Store fails and the key does not exist (ENOTDIR); the flat map
    stores it *)
Lemma key_below_file_refuted :
  exists ops, fs_obs ops = [obs_cls ROk; obs_cls ROther; Obs ROk [] false [] 0; obs_cls RNotExist] /\
              am_obs ops = [obs_cls ROk; obs_cls ROk; Obs ROk [] true [] 0; Obs ROk [7] false [] 0].
Proof. exists [AStore k_a [5]; AStore k_ab [7]; AExists k_ab; ALoad k_ab]. vm_compute. split; reflexivity. Qed.

(** (ii) Store onto a directory key (rename onto a directory) fails; the flat map accepts it *)
Lemma store_onto_directory_refuted :
  exists ops, fs_obs ops = [obs_cls ROk; obs_cls ROther; obs_cls ROther] /\
              am_obs ops = [obs_cls ROk; obs_cls ROk; Obs ROk [5] false [] 0].
Proof. exists [AStore k_ab [7]; AStore k_a [5]; ALoad k_a]. vm_compute. split; reflexivity. Qed.

(** (iii) Delete of a prefix removes the keys below it; in the flat map keys are independent *)
Lemma delete_prefix_refuted :
  exists ops, fs_obs ops = [obs_cls ROk; obs_cls ROk; obs_cls RNotExist] /\
              am_obs ops = [obs_cls ROk; obs_cls ROk; Obs ROk [7] false [] 0].
Proof. exists [AStore k_ab [7]; ADelete k_a; ALoad k_ab]. vm_compute. split; reflexivity. Qed.

(** (iv) Exists of a directory key is true (and Stat succeeds, non-terminal) although nothing is
    stored under that key *)
Lemma exists_directory_refuted :
  exists ops, fs_obs ops = [obs_cls ROk; Obs ROk [] true [] 0] /\
              am_obs ops = [obs_cls ROk; Obs ROk [] false [] 0] /\
              fs_stat (fst (fs_run [] (map fop ops))) k_a = Obs ROk [] false [] 0.
Proof. exists [AStore k_ab [7]; AExists k_a]. vm_compute. repeat split; reflexivity. Qed.

(** (v) List: a non-recursive List returns directories (keys without a value), a recursive one
    returns them next to the keys; and the directory stays listed after the last key below it is
    deleted *)
Lemma list_shows_directories_refuted :
  exists fs, fs = fst (fs_run [] [OpStore k_abc [7]]) /\
    okeys (fs_list fs k_a false) = [k_ab] /\ abs fs k_ab = None /\
    okeys (fs_list fs k_a true) = [k_ab; k_abc] /\
    okeys (fs_list (fst (fs_delete fs k_abc)) k_a true) = [k_ab] /\
    abs (fst (fs_delete fs k_abc)) k_ab = None /\ abs (fst (fs_delete fs k_abc)) k_abc = None.
Proof. eexists. split; [reflexivity|]. vm_compute. repeat split; reflexivity. Qed.

(** the refinement has instances: a prefix-free key set shaped like certmagic's, and a run *)
Definition K_ex (k : path) : Prop := k = [[1]; [2]; [3]] \/ k = [[1]; [2]; [4]] \/ k = [[5]].
Example K_ex_side_conditions : prefix_free K_ex /\ nonroot K_ex.
Proof.
  split.
  - intros a b [-> | [-> | ->]] [-> | [-> | ->]] H; try reflexivity; vm_compute in H; discriminate.
  - intros a [-> | [-> | ->]]; discriminate.
Qed.
Example fs_refines_amap_ex :
  let ops := [AStore [[1]; [2]; [3]] [9]; AExists [[1]; [2]; [4]]; AStore [[5]] [8];
              ALoad [[1]; [2]; [3]]; ADelete [[1]; [2]; [3]]; ALoad [[1]; [2]; [3]]] in
  Forall (op_in K_ex) ops /\
  fs_obs ops = [obs_cls ROk; Obs ROk [] false [] 0; obs_cls ROk; Obs ROk [9] false [] 0; obs_cls ROk; obs_cls RNotExist] /\
  am_obs ops = fs_obs ops.
Proof.
  cbv zeta. split.
  - repeat (apply Forall_cons; [unfold op_in, K_ex; cbn [akey]; auto|]). apply Forall_nil.
  - vm_compute. split; reflexivity.
Qed.

(** * 3. Along a key embedding *)
Section Embed.
  Context {Ky Vl : Type}.
  Variable keqb : Ky -> Ky -> bool.
  Hypothesis keqb_eq : forall a b, keqb a b = true <-> a = b.
  Variable emb : Ky -> path.
  Variable enc : Vl -> value.
  Hypothesis emb_inj : forall a b, emb a = emb b -> a = b.

  Definition image : path -> Prop := fun p => exists k, p = emb k.
  Definition eop (o : aop Ky Vl) : aop path value :=
    match o with
    | AStore k v => AStore (emb k) (enc v) | ALoad k => ALoad (emb k)
    | ADelete k => ADelete (emb k) | AExists k => AExists (emb k)
    end.
  Definition eres (r : ares Vl) : ares value :=
    match r with AOk => AOk | AVal v => AVal (enc v) | ANotExist => ANotExist | ABool b => ABool b end.
  (** the map over paths carries the encoded map *)
  Definition erel (m : amap Ky Vl) (M : amap path value) : Prop :=
    forall k, M (emb k) = option_map enc (m k).

  Lemma emb_eqb a b : path_eqb (emb a) (emb b) = keqb a b.
  Proof.
    destruct (keqb a b) eqn:E.
    - apply keqb_eq in E. subst. apply path_eqb_refl.
    - apply path_eqb_neq. intros H. apply emb_inj in H. apply keqb_eq in H. congruence.
  Qed.

  Lemma astep_embed m M o : erel m M ->
    erel (fst (astep keqb m o)) (fst (astep path_eqb M (eop o))) /\
    snd (astep path_eqb M (eop o)) = eres (snd (astep keqb m o)).
  Proof.
    intros HR. destruct o as [k v|k|k|k]; cbn [eop astep fst snd].
    - split; [|reflexivity]. intros k'. unfold aput. rewrite emb_eqb. destruct (keqb k k'); [reflexivity | apply HR].
    - split; [assumption|]. rewrite HR. destruct (m k); reflexivity.
    - split; [|reflexivity]. intros k'. unfold aput. rewrite emb_eqb. destruct (keqb k k'); [reflexivity | apply HR].
    - split; [assumption|]. rewrite HR. destruct (m k); reflexivity.
  Qed.
  Lemma arun_embed ops : forall m M, erel m M ->
    erel (fst (arun keqb m ops)) (fst (arun path_eqb M (map eop ops))) /\
    snd (arun path_eqb M (map eop ops)) = map eres (snd (arun keqb m ops)).
  Proof.
    induction ops as [|o ops IH]; intros m M HR; cbn [map arun].
    - split; [exact HR | reflexivity].
    - destruct (astep_embed m M o HR) as [HR1 Hres].
      destruct (astep keqb m o) as [m1 r]. destruct (astep path_eqb M (eop o)) as [M1 R].
      cbn [fst snd] in *. destruct (IH m1 M1 HR1) as [HR2 Hres2].
      destruct (arun keqb m1 ops) as [m2 rs]. destruct (arun path_eqb M1 (map eop ops)) as [M2 Rs].
      cbn [fst snd map] in *. rewrite Hres, Hres2. split; [exact HR2 | reflexivity].
  Qed.

  (** a tree represents a map over the abstract keys *)
  Definition ERep (fs : fsys) (m : amap Ky Vl) : Prop :=
    closed fs /\ compat image fs /\ forall k, abs fs (emb k) = option_map enc (m k).

  Lemma ERep_empty : nonroot image -> ERep [] (fun _ => None).
  Proof.
    intros Hnr. destruct (Rep_empty image Hnr) as (H1 & H2 & H3).
    split; [assumption|]. split; [assumption|]. intros k. apply H3. exists k. reflexivity.
  Qed.

  (** the refinement for ANY model whose keys embed injectively and prefix-free *)
  Theorem fs_refines_embedded : prefix_free image ->
    forall ops fs m, ERep fs m ->
    snd (fs_run fs (map fop (map eop ops))) = map fobs (map eres (snd (arun keqb m ops))) /\
    ERep (fst (fs_run fs (map fop (map eop ops)))) (fst (arun keqb m ops)).
  Proof.
    intros Hpf ops fs m (Hc & Hk & Hm).
    assert (Hall : Forall (op_in image) (map eop ops)).
    { apply Forall_forall. intros o Ho. apply in_map_iff in Ho. destruct Ho as (o' & <- & _).
      unfold op_in, image. destruct o'; cbn; eauto. }
    destruct (fs_refines_amap image Hpf (map eop ops) fs (abs fs) (Rep_abs image fs Hc Hk) Hall)
      as [Hobs (Hc' & Hk' & Hm')].
    destruct (arun_embed ops m (abs fs) Hm) as [HR Hres].
    rewrite Hobs, Hres. split; [reflexivity|]. split; [assumption|]. split; [assumption|].
    intros k. rewrite (Hm' (emb k)) by (exists k; reflexivity). apply HR.
  Qed.
End Embed.

(** * 5. A criterion for prefix-freeness (certmagic's key builders)

    If all keys that start with the same first component have the same number of components, no
    key is a proper prefix of another.  certmagic's keys: certificates/<issuer>/<name>/<name>.crt
    | .key | .json (4), ocsp/<name>-<hash> (2), acme/<ca>/users/<email>/<user>.json | .key (5),
    acme/<ca>/challenge_tokens/<name>.json (4), locks/<name>.lock (2), last_clean.json (1),
    rw_test_<n> (1): within "acme" the third component ("users" / "challenge_tokens") separates
    the two depths, which [prefix_free_by_class] covers. *)
Lemma is_prefix_length a b : is_prefix a b = true -> (length a <= length b)%nat.
Proof. rewrite is_prefix_spec. intros [r ->]. rewrite app_length. lia. Qed.
Lemma is_prefix_same_length a b : is_prefix a b = true -> length a = length b -> a = b.
Proof.
  rewrite is_prefix_spec. intros [r ->] H. rewrite app_length in H.
  destruct r; [rewrite app_nil_r; reflexivity | cbn in H; lia].
Qed.
(** [cls] = any classification of keys that is inherited by longer keys (e.g. computed from the
    first three components) *)
Theorem prefix_free_by_class {C : Type} (K : path -> Prop) (cls : path -> C) (depth : C -> nat) :
  (forall a, K a -> length a = depth (cls a)) ->
  (forall a b, K a -> K b -> is_prefix a b = true -> cls a = cls b) ->
  prefix_free K.
Proof.
  intros Hd Hc a b Ha Hb Hp. apply is_prefix_same_length; [assumption|].
  rewrite (Hd a Ha), (Hd b Hb), (Hc a b Ha Hb Hp). reflexivity.
Qed.
Corollary prefix_free_by_depth (K : path -> Prop) (depth : option str -> nat) :
  nonroot K -> (forall a, K a -> length a = depth (hd_error a)) -> prefix_free K.
Proof.
  intros Hnr Hd. apply (prefix_free_by_class K (@hd_error str) depth Hd).
  intros a b Ha Hb Hp. specialize (Hnr a Ha). destruct a as [|x a]; [contradiction|].
  destruct b as [|y b]; [discriminate|]. cbn in Hp. apply andb_true_iff in Hp. destruct Hp as [Hp _].
  apply str_eqb_eq in Hp. subst. reflexivity.
Qed.

(** * 4. The other models' storage IS the atomic map *)

(** small list facts for transporting event-by-event agreements *)
Lemma combine_map {A B C D} (f : A -> C) (g : B -> D) (a : list A) : forall b,
  combine (map f a) (map g b) = map (fun x => (f (fst x), g (snd x))) (combine a b).
Proof. induction a as [|x a IH]; intros [|y b]; cbn; [reflexivity..|]. rewrite IH. reflexivity. Qed.
Lemma Forall2_map_r {A B C} (P : A -> C -> Prop) (h : B -> C) (l : list A) : forall l2,
  Forall2 (fun a b => P a (h b)) l l2 -> Forall2 P l (map h l2).
Proof. intros l2 H. induction H; cbn; constructor; assumption. Qed.
Lemma Forall2_impl {A B} (P Q : A -> B -> Prop) l l2 :
  (forall a b, P a b -> Q a b) -> Forall2 P l l2 -> Forall2 Q l l2.
Proof. intros HPQ H. induction H; constructor; auto. Qed.

(** ** 4a. Issuance: [sto] / [sput] and the storage cases of [exec] *)
Module IssCorr.
  Import CM.Issuance.Model CM.Issuance.Base.
  Local Open Scope nat_scope.

  (** Issuance's update of the storage function is the abstract update *)
  Lemma sput_is_aput : sput = aput skey_eqb.
  Proof. reflexivity. Qed.

  (** the events that reached the storage: a Store / Load / Delete / Exists whose logged outcome is
      0 (ok / true) or 1 (not found / false); outcomes 2 (injected error, cancelled context) and
      3 (panic) are calls that Issuance assumes to have had NO effect *)
  Definition sto_ev (e : ev) : bool :=
    match e_op e with
    | OStore _ | ODelete _ | OLoad _ | OExists _ => match e_out e with 0 | 1 => true | _ => false end
    | _ => false
    end.
  (** event [e] is the abstract operation [o] with result [r] *)
  Definition ev_agrees (e : ev) (o : aop skey value) (r : ares value) : Prop :=
    match e_op e, o with
    | OStore k, AStore k' _ => k = k' /\ e_out e = 0 /\ r = AOk
    | ODelete k, ADelete k' => k = k' /\ e_out e = 0 /\ r = AOk
    | OLoad k, ALoad k' => k = k' /\ match r with AVal _ => e_out e = 0 | ANotExist => e_out e = 1 | _ => False end
    | OExists k, AExists k' => k = k' /\ r = ABool (Nat.eqb (e_out e) 0)
    | _, _ => False
    end.

  Ltac fin :=
    cbn [astep snd fst]; unfold is_some;
    match goal with |- context [sto ?s ?k] => destruct (sto s k) eqn:? end;
    simpl in *; try discriminate; try congruence; try reflexivity.

  (** every thread step (all 50 pcs, every fault, every choice bit) leaves the storage alone
      or performs exactly one abstract operation on it, the one its event names *)
  Lemma tstep_is_astep t th s f b th' s' e :
    tstep t th s f b = Some (th', s', e) ->
    (sto_ev e = false /\ sto s' = sto s) \/
    (sto_ev e = true /\
     exists o, fst (astep skey_eqb (sto s) o) = sto s' /\ ev_agrees e o (snd (astep skey_eqb (sto s) o))).
  Proof.
    intros H. tstep_start H th. all: tstep_full H. all: inv_some H.
    all: try (left; split; reflexivity).
    all: repeat match goal with
         | |- context [orb ?c _] => is_var c; destruct c; simpl in *; try discriminate
         end.
    all: try (left; split; reflexivity).
    all: right; split; [reflexivity|].
    all: first
      [ eexists (AStore _ _); split; [reflexivity | repeat split; reflexivity]
      | eexists (ADelete _); split; [reflexivity | repeat split; reflexivity]
      | eexists (ALoad _); split; [reflexivity|]; split; [reflexivity|]; fin
      | eexists (AExists _); split; [reflexivity|]; split; [reflexivity|]; fin ].
  Qed.

  (** every run: the storage is the atomic map driven by the run's storage events *)
  Theorem runs_is_arun ok s es s' : runs ok s es s' ->
    exists ops, fst (arun skey_eqb (sto (sh s)) ops) = sto (sh s') /\
      Forall2 (fun e x => ev_agrees e (fst x) (snd x)) (filter sto_ev es)
              (combine ops (snd (arun skey_eqb (sto (sh s)) ops))).
  Proof.
    intros R. induction R as [s|s l s1 e es s2 _ Hstep _ IH].
    - exists []. split; [reflexivity | constructor].
    - destruct (step_inv _ _ _ _ Hstep) as (th & th' & sh' & _ & Ht & ->). cbn [sh] in IH.
      destruct IH as (ops & Hfin & Hall).
      destruct (tstep_is_astep _ _ _ _ _ _ _ _ Ht) as [[He Hs]|[He (o & Ho & Hag)]]; cbn [filter]; rewrite He.
      + exists ops. rewrite <- Hs. split; assumption.
      + exists (o :: ops). cbn [arun].
        destruct (astep skey_eqb (sto (sh s)) o) as [m1 r]. cbn [fst snd] in Ho, Hag. subst m1.
        destruct (arun skey_eqb (sto sh') ops) as [m2 rs]. cbn [fst snd combine] in *.
        split; [assumption|]. constructor; assumption.
  Qed.

  (** *** composition with Section 3: Issuance on FileStorage *)
  Section OnFileStorage.
    Variable emb : skey -> path.
    Variable enc : value -> FileSys.Model.value.
    Hypothesis emb_inj : forall a b, emb a = emb b -> a = b.
    Hypothesis emb_pf : prefix_free (image emb).

    (** event [e] of the Issuance run is the FileStorage call [o] with observation [b] *)
    Definition ev_fs_agrees (e : ev) (o : FileSys.Model.op) (b : obs) : Prop :=
      match e_op e, o with
      | OStore k, OpStore p _ => p = emb k /\ e_out e = 0 /\ ocls b = FileSys.Model.ROk
      | ODelete k, OpDelete p => p = emb k /\ e_out e = 0 /\ ocls b = FileSys.Model.ROk
      | OLoad k, OpLoad p =>
          p = emb k /\ ((e_out e = 0 /\ ocls b = FileSys.Model.ROk) \/ (e_out e = 1 /\ ocls b = RNotExist))
      | OExists k, OpExists p => p = emb k /\ ocls b = FileSys.Model.ROk /\ oflag b = Nat.eqb (e_out e) 0
      | _, _ => False
      end.

    Lemma agrees_transport e o r :
      ev_agrees e o r -> ev_fs_agrees e (fop (eop emb enc o)) (fobs (eres enc r)).
    Proof.
      unfold ev_agrees, ev_fs_agrees. destruct (e_op e); try contradiction; destruct o; try contradiction; cbn.
      - intros [-> ->]. cbn. auto.
      - intros [-> H]. split; [reflexivity|]. destruct r; try contradiction; cbn; auto.
      - intros (-> & -> & ->). cbn. auto.
      - intros (-> & -> & ->). cbn. auto.
    Qed.

    (** Every run of the Issuance LTS (any threads, faults, schedules) from a storage that the tree
        [fs] represents is reproduced by FileStorage: there is a sequence of FileStorage calls, one
        per storage event of the run and on the embedded key of that event, whose results in the
        FileSys model are the outcomes the Issuance model logged, and the final tree represents
        the final Issuance storage. *)
    Theorem issuance_on_filestorage ok s es s' fs :
      runs ok s es s' -> ERep emb enc fs (sto (sh s)) ->
      exists fops,
        Forall2 (fun e x => ev_fs_agrees e (fst x) (snd x)) (filter sto_ev es)
                (combine fops (snd (fs_run fs fops))) /\
        ERep emb enc (fst (fs_run fs fops)) (sto (sh s')).
    Proof.
      intros R HR. destruct (runs_is_arun ok s es s' R) as (ops & Hfin & Hall).
      destruct (fs_refines_embedded skey_eqb skey_eqb_eq emb enc emb_inj emb_pf ops fs _ HR) as [Hobs HR'].
      exists (map fop (map (eop emb enc) ops)). rewrite Hfin in HR'. split; [|exact HR'].
      rewrite Hobs, !map_map, combine_map. apply Forall2_map_r.
      eapply Forall2_impl; [|exact Hall]. intros e [o r] H. cbn [fst snd] in *.
      apply agrees_transport. exact H.
    Qed.
  End OnFileStorage.

  (** the hypotheses are satisfiable: bundle keys at depth 3 under "1", rw_test keys and
      last_clean.json at depth 1 *)
  Definition kind_str (j : kind) : str := match j with KKey => [1] | KCrt => [2] | KMeta => [3] end%N.
  Definition emb_ex (k : skey) : path :=
    match k with
    | SK n j => [[1%N]; [N.of_nat n]; kind_str j]
    | RW t => [[2%N; N.of_nat t]]
    | SLast => [[3%N]]
    end.
  Definition emb_ex_class (p : path) : nat := match p with [c] :: _ => match c with 1%N => 3 | _ => 1 end | _ => 1 end.
  Example emb_ex_ok : (forall a b, emb_ex a = emb_ex b -> a = b) /\ prefix_free (image emb_ex) /\ nonroot (image emb_ex).
  Proof.
    split; [|split].
    - intros [n j| |] [m i| |]; cbn; intros H; try discriminate; try reflexivity.
      + injection H as H1 H2. apply Nat2N.inj in H1. subst. destruct j, i; cbn in H2; try discriminate; reflexivity.
      + injection H as H. apply Nat2N.inj in H. subst. reflexivity.
    - intros a b [ka ->] [kb ->] Hp. apply is_prefix_same_length; [assumption|].
      destruct ka, kb; cbn in Hp |- *; try reflexivity; rewrite ?andb_false_r in Hp; try discriminate.
    - intros a [k ->]. destruct k; discriminate.
  Qed.

  (** a complete obtain (pre-check, checkStorage's Store / Load / Delete of rw_test, lock, re-check,
      issue, the three Stores, unlock) from the empty storage, on the empty tree *)
  Definition ex_cfg : tcfg := TCfg (PObtain false) 0 0 0 0 false true false false.
  Example issuance_on_filestorage_ex :
    exists s es, runs any_label (init_state [ex_cfg] (fun _ => None)) es s /\
      length (filter sto_ev es) = 8 /\ sto (sh s) (SK 0 KCrt) <> None /\
      ERep emb_ex (fun _ => []) [] (sto (sh (init_state [ex_cfg] (fun _ => None)))).
  Proof.
    destruct (run (init_state [ex_cfg] (fun _ => None)) (repeat (Label 0 FNone true) 15)) as [[s es]|] eqn:R;
      [|vm_compute in R; discriminate].
    exists s, es. split; [exact (run_runs _ _ _ _ R)|].
    vm_compute in R. injection R as <- <-.
    split; [reflexivity|]. split; [vm_compute; discriminate|].
    apply ERep_empty. apply emb_ex_ok.
  Qed.
End IssCorr.

(** ** 4b. Bundle: the storage prims of the fault monad *)
Module BundleCorr.
  Import CM.Bundle.Model CM.Bundle.Proofs.

  (** the association list read through [sget] is the map; [sput] / [sdel] are the abstract updates *)
  Lemma sput_is_aput st k v k' : sget (sput st k v) k' = aput fkey_eqb (sget st) k (Some v) k'.
  Proof. apply sget_sput. Qed.
  Lemma sdel_is_aput st k k' : sget (sdel st k) k' = aput fkey_eqb (sget st) k None k'.
  Proof. apply sget_sdel. Qed.

  (** a prim that the plan does not fail performs the abstract step; if the plan kills the process
      at this index the result is [Dead] and THE EFFECT HAS TAKEN PLACE *)
  Lemma store_is_astep pl k v w : p_fail pl (w_cnt w) = false ->
    (forall k', sget (w_st (snd (store pl k v w))) k' = fst (astep fkey_eqb (sget (w_st w)) (AStore k v)) k') /\
    fst (store pl k v w) = if crash_at pl (w_cnt w) then Dead else Ok tt.
  Proof.
    intros Hf. unfold store, prim. rewrite Hf. split.
    - intros k'. destruct (crash_at pl (w_cnt w)); cbn; apply sget_sput.
    - destruct (crash_at pl (w_cnt w)); reflexivity.
  Qed.
  Lemma delete_is_astep pl k w : p_fail pl (w_cnt w) = false ->
    (forall k', sget (w_st (snd (delete pl k w))) k' = fst (astep fkey_eqb (sget (w_st w)) (ADelete k)) k') /\
    fst (delete pl k w) = if crash_at pl (w_cnt w) then Dead else Ok tt.
  Proof.
    intros Hf. unfold delete, prim. rewrite Hf. split.
    - intros k'. destruct (crash_at pl (w_cnt w)); cbn; apply sget_sdel.
    - destruct (crash_at pl (w_cnt w)); reflexivity.
  Qed.
  Lemma load_is_astep pl k w : p_fail pl (w_cnt w) = false ->
    w_st (snd (load pl k w)) = w_st w /\
    fst (load pl k w) = if crash_at pl (w_cnt w) then Dead else
                        match snd (astep fkey_eqb (sget (w_st w)) (ALoad k)) with
                        | AVal v => Ok v
                        | _ => Fail ENotExist
                        end.
  Proof.
    intros Hf. unfold load, prim. rewrite Hf. cbn [astep snd]. unfold w_st.
    destruct (sget (k_st (w_core w)) k); destruct (crash_at pl (w_cnt w)); split; reflexivity.
  Qed.
  Lemma exists_is_astep pl k w : p_fail pl (w_cnt w) = false ->
    w_st (snd (exists_ pl k w)) = w_st w /\
    fst (exists_ pl k w) = if crash_at pl (w_cnt w) then Dead else
                           match snd (astep fkey_eqb (sget (w_st w)) (AExists k)) with
                           | ABool b => Ok b
                           | _ => Ok false
                           end.
  Proof.
    intros Hf. unfold exists_, prim. rewrite Hf. cbn [astep snd]. unfold w_st, is_some.
    destruct (sget (k_st (w_core w)) k); destruct (crash_at pl (w_cnt w)); split; reflexivity.
  Qed.
  (** a prim that the plan fails has NO effect on the storage (whether or not the process dies) *)
  Lemma failed_prim_no_effect pl k v w : p_fail pl (w_cnt w) = true ->
    w_st (snd (store pl k v w)) = w_st w /\ w_st (snd (delete pl k w)) = w_st w /\
    w_st (snd (load pl k w)) = w_st w /\ w_st (snd (exists_ pl k w)) = w_st w.
  Proof.
    intros Hf. unfold store, delete, load, exists_, prim. rewrite Hf.
    destruct (crash_at pl (w_cnt w)); repeat split; reflexivity.
  Qed.
  (** Delete of a site directory ([TDir], deleteSiteAssets) is modelled as the flat Deletes of the
      four files Bundle knows in that directory: the only place where Bundle leans on the tree
      semantics (RemoveAll removes whatever else lies below, and the directory) *)
  Lemma delete_dir_is_aruns st i d k' :
    sget (sdel_dir st i d) k' =
    fst (arun fkey_eqb (sget st) [ADelete (i, d, FKey); ADelete (i, d, FCrt); ADelete (i, d, FMeta); ADelete (i, d, FComp)]) k'.
  Proof. unfold sdel_dir. cbn [arun astep fst]. rewrite !sget_sdel. unfold aput. reflexivity. Qed.

  Example store_is_astep_ex :
    let w := snd (store no_faults (0%nat, 1, FKey) (VKey 7) empty_world) in
    sget (w_st w) (0%nat, 1, FKey) = Some (VKey 7) /\ sget (w_st w) (0%nat, 1, FCrt) = None /\
    fst (load no_faults (0%nat, 1, FKey) w) = Ok (VKey 7).
  Proof. vm_compute. repeat split; reflexivity. Qed.
End BundleCorr.

(** ** 5b. certmagic's key builders ([Safe.Model]) meet the criterion

    The path of a key string on the tree is [kc key] (its non-empty, non-"." components: what
    FileStorage.Filename's filepath.Join leaves).  The certificate asset keys
    certificates/<issuer>/<name>/<name><ext> and the OCSP staple keys ocsp/<name>-<hash>, for
    issuers and names whose sanitized form is one real component, form a prefix-free key set. *)
Module KeysCorr.
  Import CM.Safe.Model CM.Safe.KeysProofs CM.Gen.Consts.
  Section K.
    Variables (lower : N -> N) (is_space : N -> bool).
    Hypothesis H2 : forall c, is_upper_ascii (lower c) = false.
    Notation sf := (safe lower is_space).
    (** the sanitized name is one real path component (not empty, not ".") *)
    Definition one_comp (x : str) : Prop := kc (sf x) = [sf x].
    Definition K_certs (p : path) : Prop :=
      exists ext i d, noslash ext /\ has_nondot ext = true /\ one_comp i /\ one_comp d /\
                      p = kc (site_asset lower is_space ext i d).
    Definition K_ocsp (p : path) : Prop :=
      exists first hash, noslash hash /\ has_nondot hash = true /\ p = kc (ocsp_staple lower is_space first hash).
    Definition K_cm (p : path) : Prop := K_certs p \/ K_ocsp p.

    Lemma K_certs_shape p : K_certs p -> exists a b c, p = [prefix_certs; a; b; c].
    Proof.
      intros (ext & i & d & He & Hd & Hi & Hdd & ->).
      destruct (site_asset_ns lower is_space H2 ext i d He Hd) as [-> _].
      destruct (certs_prefix_ns lower is_space H2 i) as [-> _].
      unfold one_comp in Hi, Hdd. rewrite Hi, Hdd. cbn [app]. eauto.
    Qed.
    Lemma K_ocsp_shape p : K_ocsp p -> exists f, p = [prefix_ocsp; f].
    Proof.
      intros (first & hash & Hh & Hd & ->).
      destruct (ocsp_staple_ns lower is_space H2 first hash Hh Hd) as (f & -> & _). eauto.
    Qed.

    Definition cm_depth (h : option str) : nat :=
      match h with Some c => if str_eqb c prefix_certs then 4 else 2 | None => 0 end.

    Theorem certmagic_keys_prefix_free : prefix_free K_cm /\ nonroot K_cm.
    Proof.
      assert (Hnr : nonroot K_cm).
      { intros a [H|H]; [destruct (K_certs_shape a H) as (x & y & z & ->) | destruct (K_ocsp_shape a H) as (f & ->)];
          discriminate. }
      split; [|exact Hnr]. apply (prefix_free_by_depth K_cm cm_depth Hnr).
      intros a [H|H].
      - destruct (K_certs_shape a H) as (x & y & z & ->). cbn [hd_error cm_depth length].
        replace (str_eqb prefix_certs prefix_certs) with true by (symmetry; apply str_eqb_eq; reflexivity).
        reflexivity.
      - destruct (K_ocsp_shape a H) as (f & ->). cbn [hd_error cm_depth length].
        replace (str_eqb prefix_ocsp prefix_certs) with false by (vm_compute; reflexivity). reflexivity.
    Qed.
  End K.

  (** the side condition on the issuer is needed: with an issuer key that sanitizes to nothing the
      certificate of name "x" is a proper prefix of the private key of name "x.crt" under issuer "x" *)
  Lemma certs_keys_empty_issuer_refuted :
    exists i1 d1 i2 d2,
      proper_prefix (kc (site_cert ascii_lower ascii_space i1 d1)) (kc (site_key ascii_lower ascii_space i2 d2)) = true.
  Proof. exists [], [120], [120], [120; 46; 99; 114; 116]. vm_compute. reflexivity. Qed.

  Example K_cm_inhabited :
    K_cm ascii_lower ascii_space (kc (site_cert ascii_lower ascii_space [120] [121])) /\
    kc (site_cert ascii_lower ascii_space [120] [121]) = [prefix_certs; [120]; [121]; [121; 46; 99; 114; 116]].
  Proof.
    split; [|vm_compute; reflexivity]. left. exists ext_crt, [120], [121].
    split; [intros [H|[H|[H|[H|[]]]]]; discriminate|]. repeat split; vm_compute; reflexivity.
  Qed.
End KeysCorr.

(** ** 4c. Clean (C18) does NOT use the flat map: its store is the key TREE

    [Clean.Model] keys are slash-separated strings; Delete is the prefix delete ([remove] drops every
    key the deleted one [covers]), List returns the direct children including implied directories,
    Stat of a directory key succeeds (non-terminal), Store onto a directory fails.  These are the
    cases (ii)-(v) above on the side of FileSys.Model, so CleanStorage's storage assumptions are the
    tree semantics FileStorage has, not the flat map (CleanStorage relies on them: it Lists
    "certificates" level by level and Deletes empty site folders). *)
Module CleanCorr.
  Import CM.Clean.Model.
  (** the only places where Clean.Model's records are built (by field name, not by position) *)
  Definition cls0 : cls := {| as_cert := None; as_staple := None; as_clean := None |}.   (* parses as nothing *)
  Definition f0 : node := File 0 cls0.
  Definition env0 : env :=                                                               (* no fault, no cancel, no kill *)
    {| faults := []; efaults := []; cancel_at := None; lfe := true; pfaults := []; kill_at := None |}.
  Definition st_of (s : store) : st := {| sto := s; lg := [] |}.
  Definition c_a : key := [97%N].
  Definition c_ab : key := [97%N; 47%N; 98%N].
  Lemma clean_storage_is_tree_semantics :
    let st0 := [(c_ab, f0)] in
    lookup (remove c_a st0) c_ab = None /\                        (* Delete "a" removes "a/b" *)
    list_pure true st0 c_a = Some [c_ab] /\                       (* "a" lists although nothing is stored at "a" *)
    stat_pure st0 c_a = StatDir /\                                (* the directory key exists *)
    exists e : env,                                               (* an environment without faults *)
      fst (do_load e c_a (st_of st0)) = LErr /\                   (* Load of a directory: an error, not not-exist *)
      fst (do_store e c_a f0 (st_of st0)) = false.                (* Store onto a directory fails *)
  Proof. cbv zeta. repeat split; try (vm_compute; reflexivity). exists env0. vm_compute. split; reflexivity. Qed.
End CleanCorr.
