(** System / S2 (A) — FileSys ==> the abstract atomic Storage map used by the other models.

    The Issuance LTS ([Issuance.Model]: [sto : skey -> option value], [sput]), the Bundle monad
    ([Bundle.Model]: [sget]/[sput]/[sdel] behind the prims [store]/[load]/[delete]/[exists_]),
    the Account model (one slot per CA) all treat Storage as an ATOMIC FLAT MAP: keys are
    independent of each other, Load returns the last stored value, Exists = "a value is stored".
    [FileSys.Model] (C10) is what FileStorage really does: a POSIX tree with ENOENT / ENOTDIR /
    EISDIR, MkdirAll, rename, RemoveAll.

    This file
      0. defines the atomic map ONCE ([amap], [astep], [arun]; polymorphic in key and value);
      1. proves that FileSys refines it for every operation sequence over a key set [K] that is
         prefix-free by whole components and does not contain the root ([fs_refines_amap]), from
         the empty tree or from any tree that is [compat]ible with [K] (foreign files allowed);
         the abstraction function is [abs fs k = Some v <-> resolve fs k = inr (EFile v)];
      2. proves that the two side conditions are NECESSARY ([refines_iff_side_conditions]) and
         gives the concrete witnesses of what is not refined ([*_refuted]);
      3. transports the refinement along an injective key embedding / value encoding
         ([fs_refines_embedded]);
      4. proves that the storage component of Issuance's thread step and Bundle's prims ARE the
         abstract step ([IssCorr.tstep_is_astep], [IssCorr.runs_is_arun], [BundleCorr.*]), and
         composes: every Issuance run is reproduced, storage event by storage event, by
         [fs_run] on the embedded keys ([IssCorr.issuance_on_filestorage]);
      5. a criterion for prefix-freeness that the key builders of certmagic meet
         ([prefix_free_by_depth]). *)
From CM Require Import Lib.Str FileSys.Model FileSys.Proofs.
From CM Require Issuance.Model Issuance.Base Bundle.Model Bundle.Proofs.
Open Scope N_scope.

(** * 0. The abstract atomic map *)
Definition amap (K V : Type) : Type := K -> option V.
Definition is_some {A} (o : option A) : bool := match o with Some _ => true | None => false end.

Inductive aop (K V : Type) := AStore (k : K) (v : V) | ALoad (k : K) | ADelete (k : K) | AExists (k : K).
Arguments AStore {K V} k v. Arguments ALoad {K V} k. Arguments ADelete {K V} k. Arguments AExists {K V} k.
Inductive ares (V : Type) := AOk | AVal (v : V) | ANotExist | ABool (b : bool).
Arguments AOk {V}. Arguments AVal {V} v. Arguments ANotExist {V}. Arguments ABool {V} b.

Section AMap.
  Context {K V : Type}.
  Variable keqb : K -> K -> bool.
  Definition aput (m : amap K V) (k : K) (x : option V) : amap K V :=
    fun k' => if keqb k k' then x else m k'.
  (** every operation is one atomic step; keys are independent; Store and Delete always succeed *)
  Definition astep (m : amap K V) (o : aop K V) : amap K V * ares V :=
    match o with
    | AStore k v => (aput m k (Some v), AOk)
    | ALoad k => (m, match m k with Some v => AVal v | None => ANotExist end)
    | ADelete k => (aput m k None, AOk)
    | AExists k => (m, ABool (is_some (m k)))
    end.
  Fixpoint arun (m : amap K V) (ops : list (aop K V)) : amap K V * list (ares V) :=
    match ops with
    | [] => (m, [])
    | o :: r => let '(m1, b) := astep m o in let '(m2, bs) := arun m1 r in (m2, b :: bs)
    end.
  (** List(p): the present keys below [p] ([below] = the model's prefix relation) *)
  Definition alisted (below : K -> K -> bool) (m : amap K V) (p k : K) : Prop :=
    below p k = true /\ m k <> None.
End AMap.

Definition akey {K V} (o : aop K V) : K :=
  match o with AStore k _ | ALoad k | ADelete k | AExists k => k end.

(** * 1. FileSys refines the atomic map on prefix-free key sets *)

(** the FileStorage call and the observation that correspond to an abstract operation / result *)
Definition fop (o : aop path value) : op :=
  match o with AStore k v => OpStore k v | ALoad k => OpLoad k | ADelete k => OpDelete k | AExists k => OpExists k end.
Definition fobs (r : ares value) : obs :=
  match r with
  | AOk => obs_cls ROk
  | AVal v => Obs ROk v false [] 0
  | ANotExist => obs_cls RNotExist
  | ABool b => Obs ROk [] b [] 0
  end.

(** abstraction function: the value of the regular file the key resolves to *)
Definition abs (fs : fsys) : amap path value :=
  fun k => match resolve fs k with inr (EFile v) => Some v | _ => None end.

(** the side conditions on the key set *)
Definition prefix_free (K : path -> Prop) : Prop :=
  forall a b, K a -> K b -> is_prefix a b = true -> a = b.
Definition nonroot (K : path -> Prop) : Prop := forall a, K a -> a <> [].
Definition op_in (K : path -> Prop) (o : aop path value) : Prop := K (akey o).

(** the tree does not obstruct any key of [K]: no regular file strictly above a key, no
    directory at a key.  Anything else may be in the tree (other applications' files, lock
    files, temp files of killed Stores, directories left behind by Deletes). *)
Definition compat (K : path -> Prop) (fs : fsys) : Prop :=
  forall k, K k ->
    (forall q w, proper_prefix q k = true -> lookup fs q <> Some (EFile w)) /\ lookup fs k <> Some EDir.
Definition Rep (K : path -> Prop) (fs : fsys) (m : amap path value) : Prop :=
  closed fs /\ compat K fs /\ forall k, K k -> abs fs k = m k.

Lemma abs_lookup fs k : closed fs ->
  abs fs k = match lookup fs k with Some (EFile v) => Some v | _ => None end.
Proof.
  intros Hc. unfold abs. destruct (lookup fs k) as [e|] eqn:E.
  - apply (resolve_inr fs Hc) in E. rewrite E. reflexivity.
  - apply (resolve_inl fs Hc) in E. destruct E as [e E]. rewrite E. reflexivity.
Qed.

Lemma compat_nonroot K fs : compat K fs -> nonroot K.
Proof. intros Hk a Ha ->. destruct (Hk [] Ha) as [_ H]. apply H. reflexivity. Qed.

Lemma Rep_empty K : nonroot K -> Rep K [] (fun _ => None).
Proof.
  intros Hn. split; [apply closed_nil|]. split.
  - intros k Hk. split.
    + intros [|c q] w _; cbn; discriminate.
    + specialize (Hn k Hk). destruct k; [contradiction | cbn; discriminate].
  - intros k _. rewrite (abs_lookup [] k closed_nil). destruct k; reflexivity.
Qed.
Lemma Rep_abs K fs : closed fs -> compat K fs -> Rep K fs (abs fs).
Proof. intros Hc Hk. split; [assumption|]. split; [assumption | reflexivity]. Qed.

Lemma fs_store_obs fs k v : snd (fs_store fs k v) = obs_cls (ocls (snd (fs_store fs k v))).
Proof.
  unfold fs_store. destruct (mkdir_all_from fs [] (parent k)) as [e|fs1]; [reflexivity|].
  destruct (lookup fs1 k) as [[w|]|]; reflexivity.
Qed.
Lemma fs_delete_obs fs k : snd (fs_delete fs k) = obs_cls ROk.
Proof. unfold fs_delete. destruct (resolve fs k); reflexivity. Qed.
Lemma path_eqb_prefix a b : path_eqb a b = true -> is_prefix a b = true.
Proof. intros H. apply path_eqb_eq in H. subst. apply is_prefix_refl. Qed.

(** one step: same observation, representation kept *)
Lemma step_refines K fs m o :
  prefix_free K -> Rep K fs m -> op_in K o ->
  snd (fs_step fs (fop o)) = fobs (snd (astep path_eqb m o)) /\
  Rep K (fst (fs_step fs (fop o))) (fst (astep path_eqb m o)).
Proof.
  intros Hpf (Hc & Hk & Hm) Ho. unfold op_in in Ho.
  destruct o as [k v|k|k|k]; cbn [akey fop fs_step astep fst snd] in *.
  - (* Store *)
    destruct (Hk k Ho) as [Hnf Hnd].
    destruct (store_spec fs Hc k v) as (Hc' & Hok & Hfail).
    destruct (is_ok (snd (fs_store fs k v))) eqn:Eok.
    2: { exfalso. destruct (Hfail eq_refl) as [[->|[(q & w & Hq & Hf)|Hd]] _].
         - apply Hnd. reflexivity.
         - exact (Hnf q w Hq Hf).
         - exact (Hnd Hd). }
    destruct (Hok eq_refl) as (Hkn & _ & _ & Heff). split.
    + rewrite fs_store_obs. unfold is_ok in Eok.
      destruct (ocls (snd (fs_store fs k v))); try discriminate. reflexivity.
    + split; [assumption|]. split.
      * intros k' Hk'. destruct (Hk k' Hk') as [Hnf' Hnd']. split.
        -- intros q w Hq. rewrite Heff.
           destruct (path_eqb k q) eqn:E1.
           { apply path_eqb_eq in E1. subst q. exfalso.
             pose proof (Hpf k k' Ho Hk' (proper_prefix_is_prefix _ _ Hq)) as E. subst k'.
             rewrite proper_prefix_irrefl in Hq. discriminate. }
           destruct (proper_prefix q k); [discriminate | apply Hnf'; assumption].
        -- rewrite Heff. destruct (path_eqb k k') eqn:E1; [discriminate|].
           destruct (proper_prefix k' k) eqn:E2; [|assumption]. exfalso.
           pose proof (Hpf k' k Hk' Ho (proper_prefix_is_prefix _ _ E2)) as E. subst k'.
           rewrite path_eqb_refl in E1. discriminate.
      * intros k' Hk'. rewrite (abs_lookup _ k' Hc'), Heff. unfold aput.
        destruct (path_eqb k k') eqn:E1; [reflexivity|].
        destruct (proper_prefix k' k) eqn:E2.
        { exfalso. pose proof (Hpf k' k Hk' Ho (proper_prefix_is_prefix _ _ E2)) as E. subst k'.
          rewrite path_eqb_refl in E1. discriminate. }
        rewrite <- (Hm k' Hk'). symmetry. apply abs_lookup. assumption.
  - (* Load *)
    split; [|split; [assumption | split; assumption]].
    rewrite <- (Hm k Ho). unfold fs_load, abs.
    destruct (resolve fs k) as [e|[w|]] eqn:Er.
    + rewrite (resolve_errno_cls _ _ _ Er). reflexivity.
    + reflexivity.
    + exfalso. apply (resolve_inr fs Hc) in Er. destruct (Hk k Ho) as [_ Hnd]. exact (Hnd Er).
  - (* Delete *)
    pose proof (compat_nonroot K fs Hk) as Hnr.
    destruct (delete_spec fs Hc k) as (Hc' & _ & Heff). split; [apply fs_delete_obs|].
    split; [assumption|]. split.
    + intros k' Hk'. destruct (Hk k' Hk') as [Hnf' Hnd']. split.
      * intros q w Hq. destruct q as [|c q]; [cbn; discriminate|]. rewrite Heff by discriminate.
        destruct (is_prefix k (c :: q)); [discriminate | apply Hnf'; assumption].
      * rewrite Heff by (apply Hnr; assumption). destruct (is_prefix k k'); [discriminate | assumption].
    + intros k' Hk'. rewrite (abs_lookup _ k' Hc'), Heff by (apply Hnr; assumption). unfold aput.
      destruct (is_prefix k k') eqn:E1.
      * rewrite (Hpf k k' Ho Hk' E1), path_eqb_refl. reflexivity.
      * destruct (path_eqb k k') eqn:E2; [apply path_eqb_prefix in E2; congruence|].
        rewrite <- (Hm k' Hk'). symmetry. apply abs_lookup. assumption.
  - (* Exists *)
    split; [|split; [assumption | split; assumption]].
    rewrite <- (Hm k Ho). unfold fs_exists, abs.
    destruct (resolve fs k) as [e|[w|]] eqn:Er.
    + rewrite (resolve_errno_cls _ _ _ Er). reflexivity.
    + reflexivity.
    + exfalso. apply (resolve_inr fs Hc) in Er. destruct (Hk k Ho) as [_ Hnd]. exact (Hnd Er).
Qed.

(** THE sequential refinement: for every operation sequence over a prefix-free key set,
    FileStorage on a compatible tree returns exactly the atomic map's answers, and the final
    tree represents the final map. *)
Theorem fs_refines_amap K : prefix_free K ->
  forall ops fs m, Rep K fs m -> Forall (op_in K) ops ->
  snd (fs_run fs (map fop ops)) = map fobs (snd (arun path_eqb m ops)) /\
  Rep K (fst (fs_run fs (map fop ops))) (fst (arun path_eqb m ops)).
Proof.
  intros Hpf. induction ops as [|o ops IH]; intros fs m HR Hall; cbn [map fs_run arun].
  - split; [reflexivity | exact HR].
  - inversion Hall as [|? ? Ho Hrest]; subst.
    destruct (step_refines K fs m o Hpf HR Ho) as [Hobs HR1].
    destruct (fs_step fs (fop o)) as [fs1 b]. destruct (astep path_eqb m o) as [m1 r].
    cbn [fst snd] in Hobs, HR1.
    destruct (IH fs1 m1 HR1 Hrest) as [Hobs2 HR2].
    destruct (fs_run fs1 (map fop ops)) as [fs2 bs]. destruct (arun path_eqb m1 ops) as [m2 rs].
    cbn [fst snd map] in *. rewrite Hobs, Hobs2. split; [reflexivity | exact HR2].
Qed.

(** from the empty tree *)
Corollary fs_refines_amap_empty K : prefix_free K -> nonroot K ->
  forall ops, Forall (op_in K) ops ->
  snd (fs_run [] (map fop ops)) = map fobs (snd (arun path_eqb (fun _ => None) ops)) /\
  forall k, K k -> abs (fst (fs_run [] (map fop ops))) k = fst (arun path_eqb (fun _ => None) ops) k.
Proof.
  intros Hpf Hnr ops Hall.
  destruct (fs_refines_amap K Hpf ops [] _ (Rep_empty K Hnr) Hall) as [H1 (_ & _ & H2)]. auto.
Qed.

(** List and Stat in the vocabulary of the map: on the keys of [K] a recursive List of any
    prefix returns exactly the stored keys below it; Stat of a key of [K] is a terminal key with
    the size of the stored value, or not-exist. *)
Lemma list_refines K fs m p k : Rep K fs m -> K k ->
  In k (okeys (fs_list fs p true)) <-> alisted proper_prefix m p k.
Proof.
  intros (Hc & Hk & Hm) HK. unfold alisted. rewrite (fs_list_keys fs Hc), <- (Hm k HK), (abs_lookup fs k Hc).
  unfold present_fs. destruct (Hk k HK) as [_ Hnd]. split.
  - intros (_ & Hl & Hp). apply listed_rec, proper_prefix_spec in Hl. split; [assumption|].
    destruct (lookup fs k) as [[w|]|]; [discriminate | contradiction | contradiction].
  - intros [Hl Hp]. destruct (lookup fs k) as [[w|]|] eqn:E; try contradiction.
    split; [apply (Hc k p); [congruence | assumption]|].
    split; [apply listed_rec, proper_prefix_spec; assumption | discriminate].
Qed.
Lemma stat_refines K fs m k : Rep K fs m -> K k ->
  fs_stat fs k = match m k with
                 | Some v => Obs ROk [] true [] (N.of_nat (length v))
                 | None => obs_cls RNotExist
                 end.
Proof.
  intros (Hc & Hk & Hm) HK. rewrite <- (Hm k HK). unfold fs_stat, abs.
  destruct (resolve fs k) as [e|[w|]] eqn:Er.
  - rewrite (resolve_errno_cls _ _ _ Er). reflexivity.
  - reflexivity.
  - exfalso. apply (resolve_inr fs Hc) in Er. destruct (Hk k HK) as [_ Hnd]. exact (Hnd Er).
Qed.

(** * 2. The side conditions are necessary; what is NOT refined *)

(** if every sequence over [K] is answered as by the flat map, [K] is prefix-free without root *)
Theorem side_conditions_necessary K :
  (forall ops, Forall (op_in K) ops ->
     snd (fs_run [] (map fop ops)) = map fobs (snd (arun path_eqb (fun _ => None) ops))) ->
  nonroot K /\ prefix_free K.
Proof.
  intros H.
  assert (Hnr : nonroot K).
  { intros a Ha ->.
    assert (Hall : Forall (op_in K) [AStore [] []]) by (constructor; [exact Ha | constructor]).
    specialize (H _ Hall). cbn in H. discriminate. }
  split; [assumption|]. intros a b Ha Hb Hp.
  destruct (path_eqb a b) eqn:E; [apply path_eqb_eq; assumption | exfalso].
  assert (Hpp : proper_prefix a b = true) by (unfold proper_prefix; rewrite Hp, E; reflexivity).
  assert (Hall : Forall (op_in K) [AStore b []; AExists a])
    by (constructor; [exact Hb | constructor; [exact Ha | constructor]]).
  specialize (H _ Hall). clear Hall.
  cbn [map fop fs_run fs_step arun astep fst snd] in H.
  destruct (store_spec [] closed_nil b []) as (Hc' & Hok & Hfail).
  destruct (is_ok (snd (fs_store [] b []))) eqn:Eok.
  2: { destruct (Hfail eq_refl) as [[->|[(q & w & Hq & Hf)|Hd]] _].
       - apply proper_prefix_nonnil in Hpp. contradiction.
       - destruct q; cbn in Hf; discriminate.
       - specialize (Hnr b Hb). destruct b; [contradiction | cbn in Hd; discriminate]. }
  destruct (Hok eq_refl) as (_ & _ & _ & Heff).
  destruct (fs_store [] b []) as [fs1 o1]. cbn [fst snd] in *.
  assert (Ea : lookup fs1 a = Some EDir).
  { rewrite Heff, Hpp. rewrite path_eqb_sym, E. reflexivity. }
  apply (resolve_inr fs1 Hc') in Ea. unfold fs_exists in H. rewrite Ea in H.
  unfold aput in H. rewrite path_eqb_sym, E in H. cbn in H. injection H as _ H. discriminate.
Qed.

Theorem refines_iff_side_conditions K :
  (nonroot K /\ prefix_free K) <->
  (forall ops, Forall (op_in K) ops ->
     snd (fs_run [] (map fop ops)) = map fobs (snd (arun path_eqb (fun _ => None) ops))).
Proof.
  split.
  - intros [Hnr Hpf] ops Hall. apply (fs_refines_amap_empty K Hpf Hnr ops Hall).
  - apply side_conditions_necessary.
Qed.

(** concrete witnesses, on the keys "a" and "a/b" *)
Definition k_a : path := [[97]].
Definition k_ab : path := [[97]; [98]].
Definition k_abc : path := [[97]; [98]; [99]].
Definition m0 : amap path value := fun _ => None.
Definition fs_obs (ops : list (aop path value)) : list obs := snd (fs_run [] (map fop ops)).
Definition am_obs (ops : list (aop path value)) : list obs := map fobs (snd (arun path_eqb m0 ops)).

(** (i) a key below a file key: the Store fails and the key does not exist (ENOTDIR); the flat map
    stores it *)
Lemma key_below_file_refuted :
  exists ops, fs_obs ops = [obs_cls ROk; obs_cls ROther; Obs ROk [] false [] 0; obs_cls RNotExist] /\
              am_obs ops = [obs_cls ROk; obs_cls ROk; Obs ROk [] true [] 0; Obs ROk [7] false [] 0].
Proof. exists [AStore k_a [5]; AStore k_ab [7]; AExists k_ab; ALoad k_ab]. vm_compute. split; reflexivity. Qed.

(** (ii) Store onto a directory key (rename onto a directory) fails; the flat map accepts it *)
Lemma store_onto_directory_refuted :
  exists ops, fs_obs ops = [obs_cls ROk; obs_cls ROther; obs_cls ROther] /\
              am_obs ops = [obs_cls ROk; obs_cls ROk; Obs ROk [5] false [] 0].
Proof. exists [AStore k_ab [7]; AStore k_a [5]; ALoad k_a]. vm_compute. split; reflexivity. Qed.

(** (iii) Delete of a prefix removes the keys below it; in the flat map keys are independent *)
Lemma delete_prefix_refuted :
  exists ops, fs_obs ops = [obs_cls ROk; obs_cls ROk; obs_cls RNotExist] /\
              am_obs ops = [obs_cls ROk; obs_cls ROk; Obs ROk [7] false [] 0].
Proof. exists [AStore k_ab [7]; ADelete k_a; ALoad k_ab]. vm_compute. split; reflexivity. Qed.

(** (iv) Exists of a directory key is true (and Stat succeeds, non-terminal) although nothing is
    stored under that key *)
Lemma exists_directory_refuted :
  exists ops, fs_obs ops = [obs_cls ROk; Obs ROk [] true [] 0] /\
              am_obs ops = [obs_cls ROk; Obs ROk [] false [] 0] /\
              fs_stat (fst (fs_run [] (map fop ops))) k_a = Obs ROk [] false [] 0.
Proof. exists [AStore k_ab [7]; AExists k_a]. vm_compute. repeat split; reflexivity. Qed.

(** (v) List: a non-recursive List returns directories (keys without a value), a recursive one
    returns them next to the keys; and the directory stays listed after the last key below it is
    deleted *)
Lemma list_shows_directories_refuted :
  exists fs, fs = fst (fs_run [] [OpStore k_abc [7]]) /\
    okeys (fs_list fs k_a false) = [k_ab] /\ abs fs k_ab = None /\
    okeys (fs_list fs k_a true) = [k_ab; k_abc] /\
    okeys (fs_list (fst (fs_delete fs k_abc)) k_a true) = [k_ab] /\
    abs (fst (fs_delete fs k_abc)) k_ab = None /\ abs (fst (fs_delete fs k_abc)) k_abc = None.
Proof. eexists. split; [reflexivity|]. vm_compute. repeat split; reflexivity. Qed.

(** the refinement has instances: a prefix-free key set shaped like certmagic's, and a run *)
Definition K_ex (k : path) : Prop := k = [[1]; [2]; [3]] \/ k = [[1]; [2]; [4]] \/ k = [[5]].
Example K_ex_side_conditions : prefix_free K_ex /\ nonroot K_ex.
Proof.
  split.
  - intros a b [-> | [-> | ->]] [-> | [-> | ->]] H; try reflexivity; vm_compute in H; discriminate.
  - intros a [-> | [-> | ->]]; discriminate.
Qed.
Example fs_refines_amap_ex :
  let ops := [AStore [[1]; [2]; [3]] [9]; AExists [[1]; [2]; [4]]; AStore [[5]] [8];
              ALoad [[1]; [2]; [3]]; ADelete [[1]; [2]; [3]]; ALoad [[1]; [2]; [3]]] in
  Forall (op_in K_ex) ops /\
  fs_obs ops = [obs_cls ROk; Obs ROk [] false [] 0; obs_cls ROk; Obs ROk [9] false [] 0; obs_cls ROk; obs_cls RNotExist] /\
  am_obs ops = fs_obs ops.
Proof.
  cbv zeta. split.
  - repeat (apply Forall_cons; [unfold op_in, K_ex; cbn [akey]; auto|]). apply Forall_nil.
  - vm_compute. split; reflexivity.
Qed.

(** * 3. Along a key embedding *)
Section Embed.
  Context {Ky Vl : Type}.
  Variable keqb : Ky -> Ky -> bool.
  Hypothesis keqb_eq : forall a b, keqb a b = true <-> a = b.
  Variable emb : Ky -> path.
  Variable enc : Vl -> value.
  Hypothesis emb_inj : forall a b, emb a = emb b -> a = b.

  Definition image : path -> Prop := fun p => exists k, p = emb k.
  Definition eop (o : aop Ky Vl) : aop path value :=
    match o with
    | AStore k v => AStore (emb k) (enc v) | ALoad k => ALoad (emb k)
    | ADelete k => ADelete (emb k) | AExists k => AExists (emb k)
    end.
  Definition eres (r : ares Vl) : ares value :=
    match r with AOk => AOk | AVal v => AVal (enc v) | ANotExist => ANotExist | ABool b => ABool b end.
  (** the map over paths carries the encoded map *)
  Definition erel (m : amap Ky Vl) (M : amap path value) : Prop :=
    forall k, M (emb k) = option_map enc (m k).

  Lemma emb_eqb a b : path_eqb (emb a) (emb b) = keqb a b.
  Proof.
    destruct (keqb a b) eqn:E.
    - apply keqb_eq in E. subst. apply path_eqb_refl.
    - apply path_eqb_neq. intros H. apply emb_inj in H. apply keqb_eq in H. congruence.
  Qed.

  Lemma astep_embed m M o : erel m M ->
    erel (fst (astep keqb m o)) (fst (astep path_eqb M (eop o))) /\
    snd (astep path_eqb M (eop o)) = eres (snd (astep keqb m o)).
  Proof.
    intros HR. destruct o as [k v|k|k|k]; cbn [eop astep fst snd].
    - split; [|reflexivity]. intros k'. unfold aput. rewrite emb_eqb. destruct (keqb k k'); [reflexivity | apply HR].
    - split; [assumption|]. rewrite HR. destruct (m k); reflexivity.
    - split; [|reflexivity]. intros k'. unfold aput. rewrite emb_eqb. destruct (keqb k k'); [reflexivity | apply HR].
    - split; [assumption|]. rewrite HR. destruct (m k); reflexivity.
  Qed.
  Lemma arun_embed ops : forall m M, erel m M ->
    erel (fst (arun keqb m ops)) (fst (arun path_eqb M (map eop ops))) /\
    snd (arun path_eqb M (map eop ops)) = map eres (snd (arun keqb m ops)).
  Proof.
    induction ops as [|o ops IH]; intros m M HR; cbn [map arun].
    - split; [exact HR | reflexivity].
    - destruct (astep_embed m M o HR) as [HR1 Hres].
      destruct (astep keqb m o) as [m1 r]. destruct (astep path_eqb M (eop o)) as [M1 R].
      cbn [fst snd] in *. destruct (IH m1 M1 HR1) as [HR2 Hres2].
      destruct (arun keqb m1 ops) as [m2 rs]. destruct (arun path_eqb M1 (map eop ops)) as [M2 Rs].
      cbn [fst snd map] in *. rewrite Hres, Hres2. split; [exact HR2 | reflexivity].
  Qed.

  (** a tree represents a map over the abstract keys *)
  Definition ERep (fs : fsys) (m : amap Ky Vl) : Prop :=
    closed fs /\ compat image fs /\ forall k, abs fs (emb k) = option_map enc (m k).

  Lemma ERep_empty : nonroot image -> ERep [] (fun _ => None).
  Proof.
    intros Hnr. destruct (Rep_empty image Hnr) as (H1 & H2 & H3).
    split; [assumption|]. split; [assumption|]. intros k. apply H3. exists k. reflexivity.
  Qed.

  (** the refinement for ANY model whose keys embed injectively and prefix-free *)
  Theorem fs_refines_embedded : prefix_free image ->
    forall ops fs m, ERep fs m ->
    snd (fs_run fs (map fop (map eop ops))) = map fobs (map eres (snd (arun keqb m ops))) /\
    ERep (fst (fs_run fs (map fop (map eop ops)))) (fst (arun keqb m ops)).
  Proof.
    intros Hpf ops fs m (Hc & Hk & Hm).
    assert (Hall : Forall (op_in image) (map eop ops)).
    { apply Forall_forall. intros o Ho. apply in_map_iff in Ho. destruct Ho as (o' & <- & _).
      unfold op_in, image. destruct o'; cbn; eauto. }
    destruct (fs_refines_amap image Hpf (map eop ops) fs (abs fs) (Rep_abs image fs Hc Hk) Hall)
      as [Hobs (Hc' & Hk' & Hm')].
    destruct (arun_embed ops m (abs fs) Hm) as [HR Hres].
    rewrite Hobs, Hres. split; [reflexivity|]. split; [assumption|]. split; [assumption|].
    intros k. rewrite (Hm' (emb k)) by (exists k; reflexivity). apply HR.
  Qed.
End Embed.

(** * 5. A criterion for prefix-freeness (certmagic's key builders)

    If all keys that start with the same first component have the same number of components, no
    key is a proper prefix of another.  certmagic's keys: certificates/<issuer>/<name>/<name>.crt
    | .key | .json (4), ocsp/<name>-<hash> (2), acme/<ca>/users/<email>/<user>.json | .key (5),
    acme/<ca>/challenge_tokens/<name>.json (4), locks/<name>.lock (2), last_clean.json (1),
    rw_test_<n> (1): within "acme" the third component ("users" / "challenge_tokens") separates
    the two depths, which [prefix_free_by_class] covers. *)
Lemma is_prefix_length a b : is_prefix a b = true -> (length a <= length b)%nat.
Proof. rewrite is_prefix_spec. intros [r ->]. rewrite app_length. lia. Qed.
Lemma is_prefix_same_length a b : is_prefix a b = true -> length a = length b -> a = b.
Proof.
  rewrite is_prefix_spec. intros [r ->] H. rewrite app_length in H.
  destruct r; [rewrite app_nil_r; reflexivity | cbn in H; lia].
Qed.
(** [cls] = any classification of keys that is inherited by longer keys (e.g. computed from the
    first three components) *)
Theorem prefix_free_by_class {C : Type} (K : path -> Prop) (cls : path -> C) (depth : C -> nat) :
  (forall a, K a -> length a = depth (cls a)) ->
  (forall a b, K a -> K b -> is_prefix a b = true -> cls a = cls b) ->
  prefix_free K.
Proof.
  intros Hd Hc a b Ha Hb Hp. apply is_prefix_same_length; [assumption|].
  rewrite (Hd a Ha), (Hd b Hb), (Hc a b Ha Hb Hp). reflexivity.
Qed.
Corollary prefix_free_by_depth (K : path -> Prop) (depth : option str -> nat) :
  nonroot K -> (forall a, K a -> length a = depth (hd_error a)) -> prefix_free K.
Proof.
  intros Hnr Hd. apply (prefix_free_by_class K (@hd_error str) depth Hd).
  intros a b Ha Hb Hp. specialize (Hnr a Ha). destruct a as [|x a]; [contradiction|].
  destruct b as [|y b]; [discriminate|]. cbn in Hp. apply andb_true_iff in Hp. destruct Hp as [Hp _].
  apply str_eqb_eq in Hp. subst. reflexivity.
Qed.
