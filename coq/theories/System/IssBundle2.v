(** System / S6, part 2 -- renewCert (sync; forced and not): Issuance.Model vs Bundle.Model.
    Vocabulary, translation and [agree] are in [System.IssBundle]. *)
From Coq Require Import List Bool Arith NArith ZArith Lia.
From CM Require Issuance.Model Bundle.Model.
From CM Require Import System.IssBundle.
Import ListNotations.

(** For every fault plan (none, or one Storage error at ANY call index), both validity
    translations, forced or not, ReusePrivateKeys on or off, every presence/absence combination of
    the three files with arbitrary contents of their type (certificate due or not), arbitrary
    content of all other keys: Issuance's single-thread run of [PRenew false] and Bundle's
    [renew] agree (calls, outcomes, result, final files, final lock). *)
Theorem renew_agrees : forall k x idn reuse force issdue h rest,
  agree k x (mk_cfg (I.PRenew false) idn reuse force issdue) (sto_of h rest).
Proof.
  intros k x idn reuse force issdue [hk hc hm] rest.
  (* Bundle's due / expired distinction only matters when a stored certificate is due *)
  destruct hc as [[ci ck [|]]|]; [> destruct x | | ];
    destruct hk as [hk|], hm as [hm|], reuse, force; each_k 14 k agree_compute.
Qed.
