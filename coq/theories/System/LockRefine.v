(** System / LockRefine — the file lock of FileStorage (C08, [FileLock.Model]) refines the
    abstract Locker that the Issuance LTS (C01 / C09, [Issuance.Model]) assumes.

    The abstract Locker of the Issuance model is a lock table [lks : nat -> option nat]
    (lock identity -> owning thread) with two visible events per lock:
      acquire by t : enabled iff nobody holds the lock; afterwards t holds it;
      release by t : when t holds it; afterwards nobody holds it.
    [lk_step] below is that rule for one lock ([LockCompose.v] proves that it is literally
    what [Issuance.Model.tstep] does to its lock table).

    The file lock is a timed LTS over system-call-level steps of any number of contender
    threads, their heartbeat goroutines, processes being killed and time passing.  This
    file gives the refinement mapping
      [holder s] = the thread whose Lock call has returned nil and that has not unlocked,
      [vis] : the return of Lock ([LWriteMeta t]) is "acquire t", [LUnlock t] is "release t",
              every other step (polling, heartbeats, ticks, kills of non-owners, cancels)
              is invisible,
    and proves the forward simulation: along every run of the file lock in which every
    owner stays alive ([live_ok], and H-live built into [LTick]) every step is either an
    enabled step of the abstract Locker or leaves the abstract state unchanged.  Then the
    same for any number of lock files side by side (shared clock, shared processes):
    [holders] of the family is a lock table and every run of the family is a run of the
    abstract lock table. *)
From Coq Require Import List ZArith Bool Arith Lia.
From CM Require Import FileLock.Model FileLock.Proofs.
Import ListNotations.
Open Scope nat_scope.

(** * The abstract Locker, one lock *)
Inductive lev := LAcq (t : tid) | LRel (t : tid).

Definition lk_step (h : option tid) (e : lev) : option (option tid) :=
  match e with
  | LAcq t => match h with None => Some (Some t) | Some _ => None end
  | LRel t => match h with Some u => if Nat.eqb u t then Some None else None | None => None end
  end.

Fixpoint lk_run (h : option tid) (es : list lev) : option (option tid) :=
  match es with
  | [] => Some h
  | e :: r => match lk_step h e with Some h' => lk_run h' r | None => None end
  end.

(** * The refinement mapping *)
Definition is_holding (x : cstate) : bool := match x with CHolding _ => true | _ => false end.
Definition holder (s : state) : option tid := find (fun t => is_holding (cs s t)) (tids s).

Definition vis (l : label) : option lev :=
  match l with
  | LWriteMeta t => Some (LAcq t)
  | LUnlock t => Some (LRel t)
  | _ => None
  end.

Fixpoint project (ls : list label) : list lev :=
  match ls with
  | [] => []
  | l :: r => match vis l with Some e => e :: project r | None => project r end
  end.

Lemma is_holding_true x : is_holding x = true <-> exists i, x = CHolding i.
Proof. destruct x; cbn; split; try discriminate; eauto; intros [j H]; discriminate. Qed.

(** [holder] names the holding thread, and it is the only one *)
Lemma holder_some c s t : HBInv c s -> MInv c s ->
  (holder s = Some t <-> exists i, cs s t = CHolding i).
Proof.
  intros HB HM. unfold holder. split.
  - intros H. apply find_some in H. destruct H as [_ H]. apply is_holding_true. exact H.
  - intros [i Hi]. destruct (find (fun t0 => is_holding (cs s t0)) (tids s)) as [t0|] eqn:E.
    + apply find_some in E. destruct E as [_ E]. apply is_holding_true in E. destruct E as [j Hj].
      f_equal. apply (M_one c s HM t0 t j i); right; assumption.
    + exfalso. assert (Hin : In t (tids s)) by (apply (HB_tids c s HB); congruence).
      pose proof (find_none _ _ E t Hin) as Hn. cbn in Hn. rewrite Hi in Hn. discriminate.
Qed.

Lemma holder_none c s : HBInv c s -> MInv c s ->
  (holder s = None <-> forall t i, cs s t <> CHolding i).
Proof.
  intros HB HM. split.
  - intros H t i Hi. assert (E : holder s = Some t) by (apply (holder_some c s t HB HM); eauto). congruence.
  - intros H. destruct (holder s) as [t|] eqn:E; [|reflexivity].
    apply (holder_some c s t HB HM) in E. destruct E as [i Hi]. destruct (H t i Hi).
Qed.

(** two states with the same holding threads have the same abstract state *)
Lemma holder_ext c s s' : HBInv c s -> MInv c s -> HBInv c s' -> MInv c s' ->
  (forall t, (exists i, cs s' t = CHolding i) <-> (exists i, cs s t = CHolding i)) ->
  holder s' = holder s.
Proof.
  intros HB HM HB' HM' Hiff.
  destruct (holder s) as [t|] eqn:E.
  - apply (holder_some c s t HB HM) in E. apply (holder_some c s' t HB' HM'). apply Hiff. exact E.
  - apply (holder_none c s' HB' HM'). intros t i Hi.
    assert (Hx : exists j, cs s t = CHolding j) by (apply Hiff; eauto). destruct Hx as [j Hj].
    pose proof (proj1 (holder_none c s HB HM) E t j). contradiction.
Qed.

(** an invisible step of a run in which owners stay alive neither makes nor unmakes a holder *)
Lemma invisible_keeps_holders c s l s' : vis l = None -> live_ok c s l -> step c s l = Some s' ->
  forall t i, cs s' t = CHolding i <-> cs s t = CHolding i.
Proof.
  intros Hv Hok Hs t i.
  destruct l; try discriminate Hv; clear Hv.
  all: cbn [step] in Hs.
  all: repeat match type of Hs with
       | context [match cs ?s ?t with _ => _ end] => destruct (cs s t) eqn:?Ecs
       | context [match hb ?s ?i with _ => _ end] => destruct (hb s i) eqn:?Ehb
       | context [match file ?s with _ => _ end] => destruct (file s) eqn:?Ef
       | context [match content ?s ?i with _ => _ end] => destruct (content s i) eqn:?Ect
       | context [if ?b then _ else _] => destruct b eqn:?Eb
       end; try discriminate; injection Hs as <-; cbn [cs set_cs]; try tauto.
  all: try (destruct (Nat.eq_dec t t0) as [->|Hne];
            [rewrite upd_eq; split; intros H; congruence | rewrite upd_neq by assumption; tauto]).
  (* kill of a process that owns nothing *)
  split; intros H.
  - destruct (kill_cs_cases p (cproc s) (cs s) t) as [E|[E _]]; rewrite E in H; [exact H | discriminate].
  - rewrite kill_cs_other; [exact H|]. intros E. apply Hok. exists p, t, i. split; [reflexivity|].
    split; [right; exact H | exact E].
Qed.

Section OneLock.
Variable c : config.
Hypothesis Hchk : checks c = true.
Hypothesis Hgrd : guard c = true.
Hypothesis Hcfg : good_cfg c.

Lemma BothInv_step s l s' : BothInv c s -> live_ok c s l -> step c s l = Some s' -> BothInv c s'.
Proof.
  intros (HB & HM & HG) Hok Hs. split; [exact (HBInv_step c Hchk Hcfg s l s' HB Hs)|].
  split; [exact (MInv_step c Hchk Hgrd Hcfg s l s' HB HM HG Hok Hs) | exact (GapInv_step c Hcfg s l s' HB HM HG Hs)].
Qed.

(** ** Forward simulation, one step *)
Theorem sim_step s l s' : BothInv c s -> live_ok c s l -> step c s l = Some s' ->
  match vis l with
  | Some e => lk_step (holder s) e = Some (holder s')
  | None => holder s' = holder s
  end.
Proof.
  intros HI Hok Hs. pose proof (BothInv_step s l s' HI Hok Hs) as HI'.
  destruct HI as (HB & HM & _). destruct HI' as (HB' & HM' & _).
  destruct (vis l) as [e|] eqn:Ev.
  - destruct l; try discriminate Ev; injection Ev as <-; cbn [step] in Hs.
    + (* Lock returns nil: nobody held, now t holds *)
      destruct (cs s t) eqn:Ecs; try discriminate. destruct (lastcreate s <? now s)%Z; [|discriminate].
      assert (Hn : holder s = None).
      { apply (holder_none c s HB HM). intros t' j Hj.
        assert (t' = t) by (apply (M_one c s HM t' t j i); [right; assumption | left; eauto]).
        subst t'. congruence. }
      assert (Hh : holder s' = Some t).
      { apply (holder_some c s' t HB' HM'). injection Hs as <-. cbn [cs]. rewrite upd_eq. eauto. }
      rewrite Hn, Hh. reflexivity.
    + (* Unlock: t held, now nobody *)
      destruct (cs s t) eqn:Ecs; try discriminate.
      assert (Hh : holder s = Some t) by (apply (holder_some c s t HB HM); eauto).
      assert (Hn : holder s' = None).
      { apply (holder_none c s' HB' HM'). injection Hs as <-. cbn [cs]. intros t' j Hj.
        destruct (Nat.eq_dec t' t) as [->|Hne]; [rewrite upd_eq in Hj; discriminate|].
        rewrite upd_neq in Hj by assumption. apply Hne.
        apply (M_one c s HM t' t j i); right; assumption. }
      rewrite Hh, Hn. cbn. rewrite Nat.eqb_refl. reflexivity.
  - apply (holder_ext c s s' HB HM HB' HM'). intros t.
    split; intros [i Hi]; exists i; apply (invisible_keeps_holders c s l s' Ev Hok Hs t i); exact Hi.
Qed.

(** ** Runs.  [runs ok s ls s']: the labels [ls] lead from [s] to [s'], every step allowed by [ok] *)
Inductive runs (ok : state -> label -> Prop) : state -> list label -> state -> Prop :=
| runs_nil s : runs ok s [] s
| runs_cons s l s1 ls s2 : ok s l -> step c s l = Some s1 -> runs ok s1 ls s2 -> runs ok s (l :: ls) s2.

Lemma runs_reach ok s0 s ls s' : reach c ok s0 s -> runs ok s ls s' -> reach c ok s0 s'.
Proof. intros R H. induction H; [exact R|]. apply IHruns. econstructor; eauto. Qed.

Theorem sim_runs s ls s' : BothInv c s -> runs (live_ok c) s ls s' ->
  lk_run (holder s) (project ls) = Some (holder s') /\ BothInv c s'.
Proof.
  intros HI R. induction R as [s|s l s1 ls s2 Hok Hs R IH].
  - split; [reflexivity | exact HI].
  - pose proof (sim_step s l s1 HI Hok Hs) as Hsim.
    pose proof (BothInv_step s l s1 HI Hok Hs) as HI1.
    destruct (IH HI1) as [Hrun HI2]. split; [|exact HI2].
    cbn [project]. destruct (vis l) as [e|]; [cbn [lk_run]; rewrite Hsim; exact Hrun | rewrite <- Hsim; exact Hrun].
Qed.

Lemma BothInv_init : BothInv c init.
Proof. split; [apply HBInv_init | split; [apply MInv_init | apply GapInv_init]]. Qed.

Lemma holder_init : holder init = None.
Proof. reflexivity. Qed.

(** Refinement, one lock file: the acquire / release events of every run from the initial
    state (no lock file) form a run of the abstract Locker from "free", and the abstract
    state reached is the thread holding the file lock. *)
Theorem filelock_refines_locker ls s : runs (live_ok c) init ls s ->
  lk_run None (project ls) = Some (holder s).
Proof. intros R. rewrite <- holder_init. exact (proj1 (sim_runs init ls s BothInv_init R)). Qed.

(** ... in particular the Locker's guard is sound for the implementation: when a Lock call
    returns nil the abstract lock is free, and only the abstract holder unlocks. *)
Corollary grant_only_when_free s t s' : BothInv c s -> live_ok c s (LWriteMeta t) ->
  step c s (LWriteMeta t) = Some s' -> holder s = None /\ holder s' = Some t.
Proof.
  intros HI Hok Hs. pose proof (sim_step s _ s' HI Hok Hs) as H. cbn [vis lk_step] in H.
  destruct (holder s); [discriminate|]. injection H as <-. auto.
Qed.

Corollary unlock_only_by_holder s t s' : BothInv c s -> live_ok c s (LUnlock t) ->
  step c s (LUnlock t) = Some s' -> holder s = Some t /\ holder s' = None.
Proof.
  intros HI Hok Hs. pose proof (sim_step s _ s' HI Hok Hs) as H. cbn [vis lk_step] in H.
  destruct (holder s) as [u|]; [|discriminate]. destruct (Nat.eqb_spec u t); [|discriminate].
  injection H as <-. subst. auto.
Qed.

(** what the abstract state means at the level of the file: the holder's lock file is in
    place, it is the holder's own inode, and its heartbeat is running *)
Lemma holder_owns_file s t : BothInv c s -> holder s = Some t ->
  exists i, cs s t = CHolding i /\ file s = Some i /\ hb s i <> HNone.
Proof.
  intros (HB & HM & _) H. apply (holder_some c s t HB HM) in H. destruct H as [i Hi].
  exists i. split; [exact Hi|]. split; [apply (M_file c s HM t i); right; exact Hi | exact (HB_held c s HB t i Hi)].
Qed.
End OneLock.

(** * Any number of lock files (names), one clock, shared processes

    A family of lock files indexed by the lock identity (the lock file name).  Time and
    SIGKILL act on all of them at once; every other label acts on one lock file. *)
Definition fam := nat -> state.
Definition updf (F : fam) (k : nat) (x : state) : fam := fun j => if Nat.eqb j k then x else F j.

Definition global (l : label) : bool := match l with LTick _ | LKill _ => true | _ => false end.

Inductive flabel := FOne (k : nat) (l : label) | FAll (l : label).

Inductive fstep (c : config) : fam -> flabel -> fam -> Prop :=
| fs_one F k l x : global l = false -> step c (F k) l = Some x -> fstep c F (FOne k l) (updf F k x)
| fs_all F l F' : global l = true -> (forall k, step c (F k) l = Some (F' k)) -> fstep c F (FAll l) F'.

(** every owner of every lock file stays alive *)
Definition flive_ok (c : config) (F : fam) (fl : flabel) : Prop :=
  match fl with
  | FOne k l => live_ok c (F k) l
  | FAll l => forall k, live_ok c (F k) l
  end.

(** the abstract lock table of the family, and its events *)
Definition holders (F : fam) : nat -> option tid := fun k => holder (F k).
Definition fvis (fl : flabel) : option (nat * lev) :=
  match fl with
  | FOne k l => match vis l with Some e => Some (k, e) | None => None end
  | FAll _ => None
  end.
Definition FInv (c : config) (F : fam) : Prop := forall k, BothInv c (F k).

Lemma updf_eq F k x : updf F k x k = x.
Proof. unfold updf. rewrite Nat.eqb_refl. reflexivity. Qed.
Lemma updf_neq F k x j : j <> k -> updf F k x j = F j.
Proof. intros H. unfold updf. destruct (Nat.eqb_spec j k); [contradiction | reflexivity]. Qed.

Lemma global_vis l : global l = true -> vis l = None.
Proof. destruct l; cbn; congruence. Qed.

Section Family.
Variable c : config.
Hypothesis Hchk : checks c = true.
Hypothesis Hgrd : guard c = true.
Hypothesis Hcfg : good_cfg c.

Lemma FInv_step F fl F' : FInv c F -> flive_ok c F fl -> fstep c F fl F' -> FInv c F'.
Proof.
  intros HI Hok Hs. destruct Hs as [F k l x Hg Hs|F l F' Hg Hs]; intros j.
  - destruct (Nat.eq_dec j k) as [->|Hne]; [rewrite updf_eq | rewrite updf_neq by assumption; apply HI].
    exact (BothInv_step c Hchk Hgrd Hcfg (F k) l x (HI k) Hok Hs).
  - exact (BothInv_step c Hchk Hgrd Hcfg (F j) l (F' j) (HI j) (Hok j) (Hs j)).
Qed.

(** Forward simulation for the family: a step is an enabled acquire / release of ONE entry
    of the lock table (all other entries unchanged), or changes no entry at all. *)
Theorem fam_sim_step F fl F' : FInv c F -> flive_ok c F fl -> fstep c F fl F' ->
  match fvis fl with
  | Some (k, e) => lk_step (holders F k) e = Some (holders F' k) /\ forall j, j <> k -> holders F' j = holders F j
  | None => forall j, holders F' j = holders F j
  end.
Proof.
  intros HI Hok Hs. destruct Hs as [F k l x Hg Hs|F l F' Hg Hs]; cbn [fvis].
  - pose proof (sim_step c Hchk Hgrd Hcfg (F k) l x (HI k) Hok Hs) as Hsim. unfold holders.
    destruct (vis l) as [e|].
    + split; [rewrite updf_eq; exact Hsim | intros j Hne; rewrite updf_neq by assumption; reflexivity].
    + intros j. destruct (Nat.eq_dec j k) as [->|Hne]; [rewrite updf_eq; exact Hsim | rewrite updf_neq by assumption; reflexivity].
  - intros j. pose proof (sim_step c Hchk Hgrd Hcfg (F j) l (F' j) (HI j) (Hok j) (Hs j)) as Hsim.
    rewrite (global_vis l Hg) in Hsim. exact Hsim.
Qed.

Inductive fruns : fam -> list flabel -> fam -> Prop :=
| fruns_nil F : fruns F [] F
| fruns_cons F fl F1 fls F2 : flive_ok c F fl -> fstep c F fl F1 -> fruns F1 fls F2 -> fruns F (fl :: fls) F2.

(** the abstract lock table as a transition system on [nat -> option tid], up to pointwise
    equality (no functional extensionality is used) *)
Fixpoint tbl_run (L : nat -> option tid) (es : list (nat * lev)) (L' : nat -> option tid) : Prop :=
  match es with
  | [] => forall k, L' k = L k
  | (k, e) :: r => exists L1, lk_step (L k) e = Some (L1 k) /\ (forall j, j <> k -> L1 j = L j) /\ tbl_run L1 r L'
  end.

Fixpoint fproject (fls : list flabel) : list (nat * lev) :=
  match fls with
  | [] => []
  | fl :: r => match fvis fl with Some ke => ke :: fproject r | None => fproject r end
  end.

Lemma tbl_run_ext es : forall L1 L2 L', (forall k, L1 k = L2 k) -> tbl_run L1 es L' -> tbl_run L2 es L'.
Proof.
  induction es as [|[k e] r IH]; cbn [tbl_run]; intros L1 L2 L' Heq H.
  - intros k. rewrite <- Heq. apply H.
  - destruct H as (M & H1 & H2 & H3). exists M. rewrite <- Heq. split; [exact H1|]. split; [|exact H3].
    intros j Hj. rewrite <- Heq. apply H2. exact Hj.
Qed.

Theorem fam_sim_runs F fls F' : FInv c F -> fruns F fls F' ->
  tbl_run (holders F) (fproject fls) (holders F') /\ FInv c F'.
Proof.
  intros HI R. induction R as [F|F fl F1 fls F2 Hok Hs R IH].
  - split; [intros k; reflexivity | exact HI].
  - pose proof (fam_sim_step F fl F1 HI Hok Hs) as Hsim.
    pose proof (FInv_step F fl F1 HI Hok Hs) as HI1.
    destruct (IH HI1) as [Hrun HI2]. split; [|exact HI2].
    cbn [fproject]. destruct (fvis fl) as [[k e]|].
    + cbn [tbl_run]. exists (holders F1). destruct Hsim as [H1 H2]. auto.
    + apply (tbl_run_ext _ (holders F1)); [exact Hsim | exact Hrun].
Qed.

Definition finit : fam := fun _ => init.

(** Refinement, any number of names: every run of the family of lock files from "no lock
    file anywhere" projects to a run of the abstract lock table from the empty table, and
    the table reached maps every lock identity to the thread holding that lock file. *)
Theorem filelocks_refine_lock_table fls F : fruns finit fls F ->
  tbl_run (fun _ => None) (fproject fls) (holders F) /\ FInv c F.
Proof.
  intros R. apply (fam_sim_runs finit fls F); [|exact R]. intros k. apply BothInv_init.
Qed.
End Family.
