(** System / LockTransfer — trace-level theorems of C01 carried over to the implementation
    with the file lock underneath.

    [impl_refines_issuance_ok] turns every implementation run whose thread steps respect a
    restriction [ok] on schedules / fault plans into an Issuance run with the same restriction
    and the same final Issuance state; so every theorem of the form
    "forall es s, runs ok (init_state cs st) es s -> P es s" holds of the implementation.
    Instantiated for F2 (no issuance on storage that holds a fresh bundle) and F3 (all
    successful ManageSync callers end with the stored, not-due certificate).  NOT carried
    over: C01's liveness clauses (deadlock freedom, bounded runs) - in the product a waiting
    request additionally needs the lock file's polling steps and time to pass. *)
From Coq Require Import List ZArith Bool Arith Lia.
From CM Require FileLock.Model FileLock.Proofs.
From CM Require Import System.LockRefine System.LockEvent System.LockCompose.
From CM Require Import Issuance.Model Issuance.Proofs Issuance.Invariants Issuance.NoReissueTL Issuance.NoReissue
  Issuance.FreshTL Issuance.Fresh Issuance.ManageTL Issuance.ManageTakeover Issuance.AgreeTL Issuance.Agree.
Import ListNotations.
Open Scope nat_scope.

Section Transfer.
Variable c : FL.config.

Theorem impl_transfer (ok : state -> label -> Prop) cs st (P : list ev -> state -> Prop) :
  (forall es s, runs ok (init_state cs st) es s -> P es s) ->
  forall ls s F, iruns_ok c ok (iinit cs st) ls (s, F) -> exists es, runs ok (init_state cs st) es s /\ P es s.
Proof.
  intros HP ls s F R. destruct (impl_refines_issuance_ok c ok cs st ls s F R) as [es Hr].
  exists es. split; [exact Hr | exact (HP es s Hr)].
Qed.

(** F2 over the file lock: storage holds a complete bundle whose certificate is not due;
    along every implementation run (existence checks not falsified) no request that touches
    the name enters the issuer, and the certificate stays *)
Theorem impl_no_issue_on_fresh_storage cs st n L ce ls s F :
  canon0 n L cs ->
  st (SK n KKey) <> None -> st (SK n KCrt) = Some (VCrt ce) -> st (SK n KMeta) <> None -> c_due ce = false ->
  iruns_ok c (truthful n) (iinit cs st) ls (s, F) ->
  exists es, runs (truthful n) (init_state cs st) es s /\
    sto (sh s) (SK n KCrt) = Some (VCrt ce) /\
    Forall (fun e => forall i, e_op e = OIssS i -> forall c0, nth_error cs (e_tid e) = Some c0 -> ~ touches n c0) es.
Proof.
  intros H0 Hk Hc Hm Hd R.
  exact (impl_transfer (truthful n) cs st _ (fun es s Hr => no_issue_on_fresh_storage cs st n L ce es s H0 Hk Hc Hm Hd Hr) ls s F R).
Qed.

(** F3 over the file lock: every ManageSync caller without a fault of its own that returned
    successfully holds exactly the stored certificate, and it is not due *)
Theorem impl_callers_agree_not_due cs st n L ls s F :
  canon0 n L cs -> (forall c0, In c0 cs -> touches n c0 -> c_issdue c0 = false) -> stored_match st n ->
  iruns_ok c (ok3m n) (iinit cs st) ls (s, F) ->
  forall t th, thread_at s t th -> touches n (cfg th) -> c_prog (cfg th) = PManage ->
    tpc th = PDone ROk -> flt th = false ->
    exists ce, seen th = Some ce /\ c_due ce = false /\ sto (sh s) (SK n KCrt) = Some (VCrt ce).
Proof.
  intros H0 Hi Hm R.
  destruct (impl_transfer (ok3m n) cs st (fun _ s => forall t th, thread_at s t th -> touches n (cfg th) -> c_prog (cfg th) = PManage ->
    tpc th = PDone ROk -> flt th = false ->
    exists ce, seen th = Some ce /\ c_due ce = false /\ sto (sh s) (SK n KCrt) = Some (VCrt ce))
    (fun es s Hr => callers_agree_not_due cs st n L es s H0 Hi Hm Hr) ls s F R) as (es & _ & H).
  exact H.
Qed.
End Transfer.
