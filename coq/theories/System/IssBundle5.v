(** System / S6, part 5 -- beyond the canonical spelling: the requested name and the name of the
    certificate differ (Issuance: [c_pk] <> [c_vk]; Bundle: [s_pre] <> [s_load] = [s_save]).
    Issuance has two name classes (pre-check + key reuse / load + save), Bundle three directories
    (pre-check + key reuse / load / save); they overlap where Bundle's load and save directories
    coincide.  Name classes 0 (requested spelling) and 1 (canonical spelling). *)
From Coq Require Import List Bool Arith NArith ZArith Lia.
From CM Require Issuance.Model Bundle.Model.
From CM Require Import System.IssBundle System.IssBundle3.
Import ListNotations.

Definition mk_cfg2 (p : I.prog) (idn : nat) (reuse force issdue : bool) : I.tcfg :=
  I.TCfg p 0 0 1 idn reuse true force issdue.
Definition sto_of2 (h0 h1 : shape) (rest : I.skey -> option I.value) : I.skey -> option I.value :=
  fun k => match k with
           | I.SK 0 I.KKey => option_map I.VKey (h_key h0)
           | I.SK 0 I.KCrt => option_map I.VCrt (h_crt h0)
           | I.SK 0 I.KMeta => option_map I.VMeta (h_meta h0)
           | I.SK 1 I.KKey => option_map I.VKey (h_key h1)
           | I.SK 1 I.KCrt => option_map I.VCrt (h_crt h1)
           | I.SK 1 I.KMeta => option_map I.VMeta (h_meta h1)
           | k => rest k
           end.
(** Bundle's world: the files of both name classes *)
Definition bun_world2 (x : bool) (c : I.tcfg) (st : I.skey -> option I.value) : B.world :=
  B.World (B.Core (tr_sto (tr_sid c) x (I.c_pk c) st ++ tr_sto (tr_sid c) x (I.c_vk c) st) [] false 0 0) 0 [].
Definition bun_run2 (k : option nat) (x : bool) (c : I.tcfg) (st : I.skey -> option I.value)
  : option bool * B.world :=
  let w := bun_world2 x c st in
  let pl := plan_of k in
  match I.c_prog c with
  | I.PObtain _ =>
      let '(r, w') := B.obtain pl (tr_config c) (tr_subject c) (tr_oracle x c) w in (b_ok r, w')
  | I.PRenew _ =>
      let '(r, w') := B.renew pl (tr_config c) (tr_subject c) (tr_oracle x c) (I.c_force c) w in (b_ok r, w')
  | I.PManage =>
      let '(r, w') := B.manage pl (tr_config c) (tr_subject c) (tr_oracle x c) w in (b_ok r, w')
  | _ => (None, w)
  end.
Definition agree2 (k : option nat) (x : bool) (c : I.tcfg) (st : I.skey -> option I.value) : Prop :=
  iss_trace k c st = omap bproj (rev (B.w_log (snd (bun_run2 k x c st)))) /\
  (exists b, iss_result (iss_final k c st) = Some b /\ fst (bun_run2 k x c st) = Some b) /\
  (forall n j, n = I.c_pk c \/ n = I.c_vk c ->
     B.sget (B.w_st (snd (bun_run2 k x c st))) (0, N.of_nat n, tr_kind j) =
     option_map (tr_val (tr_sid c) x) (I.sto (I.sh (iss_final k c st)) (I.SK n j))) /\
  B.k_locked (B.w_core (snd (bun_run2 k x c st))) = I.isSome (I.lks (I.sh (iss_final k c st)) (I.c_lk c)).
Ltac agree2_compute :=
  unfold agree2; vm_compute;
  split; [reflexivity|]; split; [eexists; split; reflexivity|];
  split; [intros n j [->| ->]; destruct j; reflexivity|reflexivity].

(** obtainCert, fault-free ([System.IssBundle6]: with one Storage error at any call index);
    every presence/absence combination of the six files, arbitrary contents of their type *)
Theorem obtain_agrees_spelling : forall x idn reuse force issdue h0 h1 rest,
  agree2 None x (mk_cfg2 (I.PObtain false) idn reuse force issdue) (sto_of2 h0 h1 rest).
Proof.
  intros x idn reuse force issdue [[hk|] [[ci ck cd]|] [hm|]] [[hk1|] [[ci1 ck1 cd1]|] [hm1|]] rest;
    destruct reuse; agree2_compute.
Qed.

(** renewCert, fault-free (it never looks under the requested spelling) *)
Theorem renew_agrees_spelling : forall x idn reuse force issdue h0 h1 rest,
  agree2 None x (mk_cfg2 (I.PRenew false) idn reuse force issdue) (sto_of2 h0 h1 rest).
Proof.
  intros x idn reuse force issdue [[hk|] [[ci ck cd]|] [hm|]] [hk1 hc1 hm1] rest.
  all: destruct hc1 as [[ci1 ck1 [|]]|]; [ destruct x | | ];
    destruct hk1 as [hk1|], hm1 as [hm1|], reuse, force; agree2_compute.
Qed.

(** manageOne, fault-free; representative key numbers in the canonical directory (see
    [System.IssBundle3]; a key stored under the requested spelling is number 3) *)
Theorem manage_agrees_spelling : forall x idn reuse force issdue (pk0 : bool) hc0 hm0 pk pc hm rest,
  agree2 None x (mk_cfg2 I.PManage idn reuse force issdue)
         (sto_of2 (Shape (if pk0 then Some 3 else None) hc0 hm0) (rep_shape pk pc hm) rest).
Proof.
  intros x idn reuse force issdue [|] [[ci0 ck0 cd0]|] [hm0|] pk pc hm rest.
  all: destruct pc as [[[ci [|]] [|]]|]; [ destruct x | | destruct x | | ];
    destruct pk, hm as [hm|], reuse; agree2_compute.
Qed.

(** the known spelling defect (C01 / C06), seen identically by both models: a complete, fresh
    bundle is stored under the canonical name; obtainCert of the other spelling finds nothing under
    the requested spelling, issues again and overwrites it *)
Definition ex5_c : I.tcfg := mk_cfg2 (I.PObtain false) 5 false false false.
Definition ex5_st : I.skey -> option I.value :=
  sto_of2 (Shape None None None) (Shape (Some 3) (Some (I.Cert 7 3 false)) (Some 7)) (fun _ => None).
Example ex_spelling_reissues :
  length (iss_trace None ex5_c ex5_st) = 10 /\ iss_result (iss_final None ex5_c ex5_st) = Some true /\
  fst (bun_run2 None false ex5_c ex5_st) = Some true /\
  I.sto (I.sh (iss_final None ex5_c ex5_st)) (I.SK 1 I.KCrt) = Some (I.VCrt (I.Cert 0 0 false)).
Proof. repeat split; vm_compute; reflexivity. Qed.

Print Assumptions obtain_agrees_spelling.
Print Assumptions manage_agrees_spelling.
