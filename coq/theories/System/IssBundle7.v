(** System / S6, part 7 -- obtainCert with differing spellings under one injected Storage error:
    with ReusePrivateKeys, and the combined statement. *)
From Coq Require Import List Bool Arith NArith ZArith Lia.
From CM Require Issuance.Model Bundle.Model.
From CM Require Import System.IssBundle System.IssBundle5 System.IssBundle6.
Import ListNotations.

Theorem obtain_agrees_spelling_faults_reuse : forall k x idn force issdue h0 h1 rest,
  agree2 k x (mk_cfg2 (I.PObtain false) idn true force issdue) (sto_of2 h0 h1 rest).
Proof.
  intros k x idn force issdue [[hk|] [[ci ck cd]|] [hm|]] [[hk1|] [[ci1 ck1 cd1]|] [hm1|]] rest;
    each_k 15 k agree2_compute.
Qed.

(** fault-free or one Storage error at any call index; every presence/absence combination of the
    six files, arbitrary contents of their type *)
Theorem obtain_agrees_spelling_faults : forall k x idn reuse force issdue h0 h1 rest,
  agree2 k x (mk_cfg2 (I.PObtain false) idn reuse force issdue) (sto_of2 h0 h1 rest).
Proof.
  intros k x idn [|] force issdue h0 h1 rest.
  - apply obtain_agrees_spelling_faults_reuse.
  - apply obtain_agrees_spelling_faults_noreuse.
Qed.
Print Assumptions obtain_agrees_spelling_faults.
