(** System S11, part 2 — C14's tick of updateOCSPStaples instantiates the [Revoke i] / [OcspPass]
    events of the maintenance model's revocation extension (C05, [Maintain.XModel]).

    XModel assumes: "[Revoke i]: the cache entry [i] gets status Revoked (what updateOCSPStaples
    records when a responder says so); [OcspPass ord]: every managed Revoked entry goes through
    forceRenew".  Here: for one tick of C14's model ([Ocsp.Model.OMaintain tick ...]) on a cache
    that both models see the same way ([Abs]), the extended history

        [Revoke i | i <- certificates for which C14's decision tick_revokes is "yes"] ++ [OcspPass ord]

    flags, among the managed certificates, exactly those C14 decides to force-renew; and after
    it both models agree on which of the old certificates are still cached (C14's decision +
    XProofs.revoked_replaced_or_removed + XProofs.ocsp_pass_keeps_unrevoked). *)
From Coq Require Import List ZArith Bool Lia Arith.
From CM Require Import Ocsp.Model Ocsp.Proofs System.OcspMaintain.
From CM Require Maintain.Model Maintain.Spec Maintain.XModel Maintain.Base Maintain.Inv Maintain.Proofs Maintain.XProofs.
Import ListNotations.

Module MM := CM.Maintain.Model.
Module XM := CM.Maintain.XModel.
Module XP := CM.Maintain.XProofs.
Module MP := CM.Maintain.Proofs.

(** * The abstraction: how the two models see one cache *)

(** C14 identifies certificates and names by [Z], C05 by [nat] *)
Definition nid (z : Z) : nat := Z.to_nat z.

(** the same cached certificate: same identity, same "managed" flag; C14's single subject name
    is C05's Names[0] (the renewal name) *)
Record match_cert (en : entry) (c : MM.cert) : Prop := {
  mc_id : MM.cid c = nid (eid en);
  mc_man : MM.cman c = en_managed en;
  mc_head : MM.chead c = nid (c_name (en_cert en))
}.

(** the same cache: entry by entry; and XModel's [rev] is C14's "recorded status is Revoked" *)
Record Abs (s : sys) (x : XM.xstate) : Prop := {
  abs_cache : Forall2 match_cert (cache s) (MM.cache (XM.core x));
  abs_ids : forall en, In en (cache s) -> (0 <= eid en)%Z;
  abs_rev : forall en, In en (cache s) -> XM.mem_nat (nid (eid en)) (XM.rev x) = recorded en
}.

(** * A run of [Revoke] events *)

Section Revokes.
  Variable od : MM.name -> bool.
  Variable idue : bool.

  Definition revokes (x : XM.xstate) (l : list nat) : XM.xstate :=
    XM.xrun od idue x (map XM.Revoke l).

  (** they touch nothing but the statuses (and the error flag of the last call) *)
  Lemma revokes_frame l : forall x,
    let x1 := revokes x l in
    MM.cache (XM.core x1) = MM.cache (XM.core x) /\ MM.store (XM.core x1) = MM.store (XM.core x) /\
    MM.jobs (XM.core x1) = MM.jobs (XM.core x) /\ MM.passes (XM.core x1) = MM.passes (XM.core x) /\
    MM.failing (XM.core x1) = MM.failing (XM.core x) /\ MM.issued (XM.core x1) = MM.issued (XM.core x) /\
    MM.failed (XM.core x1) = MM.failed (XM.core x) /\ MM.next (XM.core x1) = MM.next (XM.core x).
  Proof.
    induction l as [|i r IH]; intros x; cbn zeta.
    - unfold revokes. cbn. repeat split; reflexivity.
    - unfold revokes. cbn [map]. rewrite XP.xrun_cons. fold (revokes (XM.xstep od idue x (XM.Revoke i)) r).
      specialize (IH (XM.xstep od idue x (XM.Revoke i))). cbn zeta in IH.
      destruct IH as (A1 & A2 & A3 & A4 & A5 & A6 & A7 & A8).
      rewrite A1, A2, A3, A4, A5, A6, A7, A8. cbn. repeat split; reflexivity.
  Qed.

  (** the status set afterwards: what was there, plus the revoked identities that are cached *)
  Lemma revokes_rev l : forall x j,
    XM.mem_nat j (XM.rev (revokes x l)) =
    XM.mem_nat j (XM.rev x) || (existsb (Nat.eqb j) l && MM.has_id j (MM.cache (XM.core x))).
  Proof.
    induction l as [|i r IH]; intros x j.
    - unfold revokes. cbn. rewrite orb_false_r. reflexivity.
    - unfold revokes. cbn [map]. rewrite XP.xrun_cons. fold (revokes (XM.xstep od idue x (XM.Revoke i)) r).
      rewrite IH. cbn [XM.xstep XM.revoke XM.core XM.rev existsb].
      assert (HC : MM.cache (MM.with_err (XM.core x) false) = MM.cache (XM.core x)) by reflexivity.
      rewrite HC.
      set (h := MM.has_id j (MM.cache (XM.core x))).
      destruct (MM.has_id i (MM.cache (XM.core x)) && negb (XM.mem_nat i (XM.rev x))) eqn:C.
      + apply andb_true_iff in C as [C1 C2]. unfold XM.mem_nat at 1. cbn [existsb].
        fold (XM.mem_nat j (XM.rev x)).
        destruct (Nat.eqb_spec j i) as [->|Nji]; cbn [orb andb].
        * subst h. rewrite C1. destruct (XM.mem_nat i (XM.rev x)), (existsb (Nat.eqb i) r); reflexivity.
        * reflexivity.
      + destruct (Nat.eqb_spec j i) as [->|Nji]; cbn [orb andb]; [|reflexivity].
        subst h. apply andb_false_iff in C as [C|C].
        * rewrite C. rewrite !andb_false_r. reflexivity.
        * apply negb_false_iff in C. rewrite C. reflexivity.
  Qed.
End Revokes.

(** * C14's decisions as [Revoke] events *)

Definition decided (dis : bool) (now : Z) (envs : Z -> env) (s : sys) (en : entry) : bool :=
  tick_revokes dis now (envs (eid en)) en (sget (eid en) (stor s)).

(** the identities C14's tick decides to force-renew, in cache order *)
Definition marks (dis : bool) (now : Z) (envs : Z -> env) (s : sys) : list nat :=
  map (fun en => nid (eid en)) (filter (decided dis now envs s) (cache s)).

Lemma same_id_same_entry l a b : NoDup (ids l) -> In a l -> In b l -> eid a = eid b -> a = b.
Proof.
  intros N Ia Ib E. pose proof (find_entry_in a l N Ia) as Fa. pose proof (find_entry_in b l N Ib) as Fb.
  rewrite E in Fa. congruence.
Qed.

Lemma in_marks dis now envs s en :
  NoDup (ids (cache s)) -> (forall en, In en (cache s) -> (0 <= eid en)%Z) -> In en (cache s) ->
  existsb (Nat.eqb (nid (eid en))) (marks dis now envs s) = decided dis now envs s en.
Proof.
  intros N Pos I. destruct (decided dis now envs s en) eqn:D.
  - apply existsb_exists. exists (nid (eid en)). split; [|apply Nat.eqb_refl].
    unfold marks. apply in_map_iff. exists en. split; [reflexivity|]. apply filter_In. auto.
  - destruct (existsb (Nat.eqb (nid (eid en))) (marks dis now envs s)) eqn:X; [|reflexivity].
    apply existsb_exists in X as (j & Ij & Ej). apply Nat.eqb_eq in Ej. subst j.
    unfold marks in Ij. apply in_map_iff in Ij as (en2 & E2 & I2). apply filter_In in I2 as [I2 D2].
    assert (eid en2 = eid en).
    { pose proof (Pos en I). pose proof (Pos en2 I2). unfold nid in E2. lia. }
    assert (en2 = en) by (eapply same_id_same_entry; eauto). subst en2. congruence.
Qed.

Lemma matched_has_id s x en c :
  Abs s x -> In c (MM.cache (XM.core x)) -> match_cert en c ->
  MM.has_id (nid (eid en)) (MM.cache (XM.core x)) = true.
Proof.
  intros _ Ic [Mi _ _]. unfold MM.has_id. apply existsb_exists. exists c. split; [exact Ic|].
  apply Nat.eqb_eq. exact Mi.
Qed.

Section Compose.
  Variable od : MM.name -> bool.
  Variable idue : bool.

  (** the extended history that one C14 tick stands for *)
  Definition tick_history (dis : bool) (now : Z) (envs : Z -> env) (s : sys) (ord : list MM.name)
      : list XM.xevent :=
    map XM.Revoke (marks dis now envs s) ++ [XM.OcspPass ord].

  (** GOAL 1a. [Revoke i] events = C14's decisions. After the Revoke events generated from C14's
      decisions, XModel's force-renew condition (managed and flagged: certShouldBeForceRenewed)
      holds of a cached certificate exactly when C14's tick decides to force-renew it. Side
      condition: the certificate is not (expired and managed and already recorded Revoked) - the
      tick skips expired certificates, XModel has no expiry. *)
  Theorem revoke_events_are_c14_decisions s x dis now envs en c :
    Abs s x -> NoDup (ids (cache s)) -> In en (cache s) -> In c (MM.cache (XM.core x)) -> match_cert en c ->
    ((c_expiry (en_cert en) < now)%Z -> en_managed en = true -> recorded en = false) ->
    let x1 := revokes od idue x (marks dis now envs s) in
    MM.cache (XM.core x1) = MM.cache (XM.core x) /\
    MM.cman c && XM.flagged (XM.rev x1) c = decided dis now envs s en.
  Proof.
    intros A N I Ic Mc Hx x1. split; [apply (revokes_frame od idue)|].
    unfold XM.flagged. destruct Mc as [Mi Mm Mh]. rewrite Mi. subst x1. rewrite revokes_rev.
    rewrite (abs_rev _ _ A en I), (in_marks dis now envs s en N (abs_ids _ _ A) I).
    rewrite (matched_has_id s x en c A Ic (Build_match_cert _ _ Mi Mm Mh)), andb_true_r, Mm.
    unfold decided, tick_revokes.
    destruct (en_managed en) eqn:Mg; cbn [andb]; [|rewrite andb_false_r; reflexivity].
    destruct (recorded en) eqn:R; cbn [orb].
    - destruct (c_expiry (en_cert en) <? now)%Z eqn:X; [|reflexivity].
      apply Z.ltb_lt in X. specialize (Hx X eq_refl). discriminate.
    - rewrite andb_true_r. destruct (negb (c_expiry (en_cert en) <? now)%Z); reflexivity.
  Qed.

  (** GOAL 1b, end to end. One tick of C14 over the cache, and the extended history it stands for
      in XModel. For a cached certificate:
      - decision "no" (in particular: no recorded revocation and no response that revokes this
        certificate now): it is cached after the pass in BOTH models;
      - decision "yes" and its name's issuance lock is free: it is cached in NEITHER model
        afterwards; C14: if the forced renewal yields a certificate, that one is cached; XModel:
        issuer failing / nothing stored => removed, nothing issued, storage untouched; otherwise
        a newly issued certificate for the name is stored, cached and answers for the name. *)
  Theorem ocsp_pass_end_to_end s x dis now envs rns ord en c :
    idue = false -> XP.XWF od x -> Abs s x -> NoDup (ids (cache s)) -> new_fresh (cache s) rns ->
    In en (cache s) -> In c (MM.cache (XM.core x)) -> match_cert en c ->
    ((c_expiry (en_cert en) < now)%Z -> en_managed en = true -> recorded en = false) ->
    let d := decided dis now envs s en in
    let post14 := cache (fst (step s (OMaintain tick dis now envs rns))) in
    let x' := XM.xrun od idue x (tick_history dis now envs s ord) in
    let t := XM.core x in let t' := XM.core x' in let n := MM.chead c in
    (d = false -> has_cert (eid en) post14 = true /\ In c (MM.cache t')) /\
    (d = true -> MM.lock_held (MM.jobs t) n = false ->
       has_cert (eid en) post14 = false /\ ~ In c (MM.cache t') /\ XM.flagged (XM.rev x') c = false /\
       (forall newc e', rns (eid en) = ROk newc e' -> has_cert (c_id newc) post14 = true) /\
       (MM.is_failing t n = true \/ MM.stored (MM.store t) n = None ->
          MM.stored (MM.store t') n = MM.stored (MM.store t) n /\
          MP.cnt (MM.issued t') n = MP.cnt (MM.issued t) n) /\
       (MM.is_failing t n = false -> MM.stored (MM.store t) n <> None ->
          exists N, MM.stored (MM.store t') n = Some N /\ In N (MM.cache t') /\ (MM.next t <= MM.cid N)%nat /\
                    MM.cnames N = [n] /\ (MP.cnt (MM.issued t) n < MP.cnt (MM.issued t') n)%nat /\
                    In N (MM.resolve n (MM.cache t')))).
  Proof.
    intros ID W A N F I Ic Mc Hx d post14 x' t t' n.
    destruct (tick_pass_membership s dis now envs rns en N F I) as [H14 H14n].
    fold post14 in H14, H14n. fold (decided dis now envs s en) in H14, H14n. fold d in H14, H14n.
    destruct (revoke_events_are_c14_decisions s x dis now envs en c A N I Ic Mc Hx) as [Ca Fl].
    fold d in Fl.
    set (x1 := revokes od idue x (marks dis now envs s)) in *.
    assert (Ex' : x' = XM.xstep od idue x1 (XM.OcspPass ord)).
    { subst x' x1. unfold tick_history, revokes. rewrite XP.xrun_app. reflexivity. }
    assert (W1 : XP.XWF od x1) by (apply XP.XWF_xrun; assumption).
    assert (Ic1 : In c (MM.cache (XM.core x1))) by (rewrite Ca; exact Ic).
    destruct (revokes_frame od idue (marks dis now envs s) x) as (_ & F2 & F3 & _ & F5 & F6 & _ & F8).
    fold x1 in F2, F3, F5, F6, F8.
    split.
    - intros D. rewrite D in *. split; [rewrite H14; reflexivity|].
      subst t'. rewrite Ex'. apply XP.ocsp_pass_keeps_unrevoked; assumption.
    - intros D L. rewrite D in *. apply andb_true_iff in Fl as [Fm Ff].
      assert (L1 : MM.lock_held (MM.jobs (XM.core x1)) (MM.chead c) = false) by (rewrite F3; exact L).
      pose proof (XP.revoked_replaced_or_removed od idue x1 ord c ID W1 Ic1 Fm Ff L1) as R.
      cbv zeta in R. rewrite <- Ex' in R. destruct R as (R1 & R2 & R3 & R4).
      unfold MM.is_failing in *. rewrite F2, F5, F6, F8 in *.
      split; [exact H14|]. split; [exact R1|]. split; [exact R2|]. split; [exact (H14n eq_refl)|].
      split; [exact R3|exact R4].
  Qed.

  (** GOAL 1c, the negative direction, end to end: a certificate whose status is not already
      recorded as Revoked, and for which neither the responder's answer nor the persisted staple
      is a response that revokes THIS certificate NOW (status Revoked, signed by the issuer or a
      valid delegate, this serial, in date, not outliving the certificate), is still cached after
      the OCSP maintenance pass, in both models - whatever the responder sent: another serial, a
      bad signature, an expired / future response, Unknown, Good, garbage, nothing. *)
  Theorem rejected_response_never_renews s x dis now envs rns ord en c :
    XP.XWF od x -> idue = false -> Abs s x -> NoDup (ids (cache s)) -> new_fresh (cache s) rns ->
    In en (cache s) -> In c (MM.cache (XM.core x)) -> match_cert en c ->
    recorded en = false ->
    (forall r, judged dis (en_cert en) now (envs (eid en)) (sget (eid en) (stor s)) = Some r ->
               ~ RevokedFor (en_cert en) now r) ->
    has_cert (eid en) (cache (fst (step s (OMaintain tick dis now envs rns)))) = true /\
    In c (MM.cache (XM.core (XM.xrun od idue x (tick_history dis now envs s ord)))).
  Proof.
    intros W ID A N F I Ic Mc R H.
    assert (D : decided dis now envs s en = false) by (apply rejected_never_revokes; assumption).
    destruct (ocsp_pass_end_to_end s x dis now envs rns ord en c ID W A N F I Ic Mc (fun _ _ => R)) as [K _].
    apply K. exact D.
  Qed.

  (** GOAL 2. What the cache holds after a pass, as both models see it: if no revoked
      certificate's lock is busy (XModel's "would wait" case, which C14 does not have) the two
      passes keep exactly the same old certificates. *)
  Theorem pass_same_survivors s x dis now envs rns ord :
    idue = false -> XP.XWF od x -> Abs s x -> NoDup (ids (cache s)) -> new_fresh (cache s) rns ->
    (forall en, In en (cache s) -> (c_expiry (en_cert en) < now)%Z -> en_managed en = true -> recorded en = false) ->
    (forall c, In c (MM.cache (XM.core x)) -> MM.lock_held (MM.jobs (XM.core x)) (MM.chead c) = false) ->
    forall en c, In en (cache s) -> In c (MM.cache (XM.core x)) -> match_cert en c ->
      (has_cert (eid en) (cache (fst (step s (OMaintain tick dis now envs rns)))) = true <->
       In c (MM.cache (XM.core (XM.xrun od idue x (tick_history dis now envs s ord))))).
  Proof.
    intros ID W A N F Hx HL en c I Ic Mc.
    destruct (ocsp_pass_end_to_end s x dis now envs rns ord en c ID W A N F I Ic Mc (Hx en I)) as [K0 K1].
    cbv zeta in K0, K1.
    destruct (decided dis now envs s en) eqn:D.
    - destruct (K1 eq_refl (HL c Ic)) as (H1 & H2 & _). rewrite H1. split; [discriminate|tauto].
    - destruct (K0 eq_refl) as (H1 & H2). tauto.
  Qed.
End Compose.

(** GOAL 1, literally. A managed, unexpired certificate whose status is due for a refresh and
    whose responder answers with a response that revokes it now (status Revoked, signed by its
    issuer or a valid delegate, for its serial, in date, not outliving it) is, after the OCSP
    maintenance pass, no longer cached - in C14's model and, through the Revoke events C14's
    decisions generate, in XModel, where it is replaced by a newly issued certificate that is
    stored, cached and answers for the name, or (issuer failing / nothing stored) just removed. *)
Theorem revoked_answer_end_to_end od idue s x now envs rns ord en c b r :
  idue = false -> XP.XWF od x -> Abs s x -> NoDup (ids (cache s)) -> new_fresh (cache s) rns ->
  In en (cache s) -> In c (MM.cache (XM.core x)) -> match_cert en c ->
  (now <= c_expiry (en_cert en))%Z -> en_managed en = true -> still_fresh now en = false ->
  reusable (en_cert en) now (sget (eid en) (stor s)) = false -> c_url (en_cert en) = true ->
  e_ans (envs (eid en)) = ABytes b -> b_parse b = Some r -> RevokedFor (en_cert en) now r ->
  MM.lock_held (MM.jobs (XM.core x)) (MM.chead c) = false ->
  let post14 := cache (fst (step s (OMaintain tick false now envs rns))) in
  let x' := XM.xrun od idue x (tick_history false now envs s ord) in
  let t := XM.core x in let t' := XM.core x' in let n := MM.chead c in
  has_cert (eid en) post14 = false /\ ~ In c (MM.cache t') /\
  (forall newc e', rns (eid en) = ROk newc e' -> has_cert (c_id newc) post14 = true) /\
  ((MM.is_failing t n = true \/ MM.stored (MM.store t) n = None) /\
     MM.stored (MM.store t') n = MM.stored (MM.store t) n /\ MP.cnt (MM.issued t') n = MP.cnt (MM.issued t) n
   \/
   exists N, MM.stored (MM.store t') n = Some N /\ In N (MM.cache t') /\ (MM.next t <= MM.cid N)%nat /\
             MM.cnames N = [n] /\ In N (MM.resolve n (MM.cache t'))).
Proof.
  intros ID W A N F I Ic Mc X Mg Sf Ru U An P R L post14 x' t t' n.
  assert (D : decided false now envs s en = true).
  { unfold decided. eapply responder_revoked_decides; eauto. }
  destruct (ocsp_pass_end_to_end od idue s x false now envs rns ord en c ID W A N F I Ic Mc) as [_ K].
  { intros Xp. lia. }
  destruct (K D L) as (K1 & K2 & _ & K4 & K5 & K6).
  split; [exact K1|]. split; [exact K2|]. split; [exact K4|].
  fold t t' n in K5, K6.
  destruct (MM.is_failing t n) eqn:Fl.
  { left. split; [auto|]. apply K5. auto. }
  destruct (MM.stored (MM.store t) n) as [st0|] eqn:St.
  - right. destruct (K6 eq_refl) as (N0 & H1 & H2 & H3 & H4 & _ & H6); [discriminate|].
    exists N0. auto.
  - left. split; [auto|]. apply K5. auto.
Qed.

(** * Non-vacuity: a cache of three managed certificates seen by both models; the responder says
      Revoked (verified, in date, right serial) for the first, Good for the second, and is
      unreachable for the third *)
Module Ex.
  Definition life : Z := 7776000000000000.
  Definition k1 : cert := Cert 1 1 11 100000 life true true.
  Definition k2 : cert := Cert 2 2 12 100000 life true true.
  Definition k3 : cert := Cert 3 3 13 100000 life true true.
  Definition k5 : cert := Cert 5 1 15 200000 life true true.   (* the replacement of k1 *)
  Definition rsp (st : status) (ser : Z) : resp := Resp st ser 1500 3000 None true.
  Definition env_of (b : blob) : env := Env (ABytes b) false false false.
  Definition envs (i : Z) : env :=
    if (i =? 1)%Z then env_of (Blob 21 (Some (rsp Revoked 11)))
    else if (i =? 2)%Z then env_of (Blob 22 (Some (rsp Good 12)))
    else if (i =? 5)%Z then env_of (Blob 25 (Some (rsp Good 15)))
    else Env ARefused false false false.
  Definition rns (i : Z) : renew_outcome := if (i =? 1)%Z then ROk k5 (envs 5) else RFail.
  Definition s0 : sys :=
    Sys [Entry k1 true (CS None None) 0; Entry k2 true (CS None None) 0; Entry k3 true (CS None None) 0] [].
  Local Open Scope nat_scope.
  Definition m (i : nat) : MM.cert := MM.Cert i i [] false true.
  Definition od (n : MM.name) : bool := false.
  Definition t0 : MM.state := MM.State [(1, m 1); (2, m 2); (3, m 3)] [m 1; m 2; m 3] [] [] [] [] [] 5 false.
  Definition x0 : XM.xstate := XM.XState t0 [].

  Example x0_wf : XP.XWF od x0.
  Proof.
    constructor; cbn [XM.core XM.rev x0].
    - apply (MP.wf_b_sound od 4). vm_compute. reflexivity.
    - intros i [].
    - constructor.
  Qed.

  Example abs0 : Abs s0 x0.
  Proof.
    constructor.
    - cbn. repeat constructor.
    - intros en [<-|[<-|[<-|[]]]]; vm_compute; discriminate.
    - intros en [<-|[<-|[<-|[]]]]; vm_compute; reflexivity.
  Qed.

  Example wf0 : NoDup (ids (cache s0)) /\ new_fresh (cache s0) rns.
  Proof.
    split.
    - vm_compute. repeat constructor; cbn; intuition discriminate.
    - intros en newc e' [<-|[<-|[<-|[]]]] H; vm_compute in H; inversion H; subst.
      vm_compute. intuition discriminate.
  Qed.

  (** the decisions, the Revoke events they stand for, and the two caches after the pass: the
      revoked certificate 1 is replaced by the newly issued 5 in both, 2 and 3 stay *)
  Example decisions :
    map (decided false 1600%Z envs s0) (cache s0) = [true; false; false] /\
    tick_history false 1600%Z envs s0 [] = [XM.Revoke 1; XM.OcspPass []] /\
    ids (cache (fst (step s0 (OMaintain tick false 1600%Z envs rns)))) = [5; 2; 3]%Z /\
    map MM.cid (MM.cache (XM.core (XM.xrun od false x0 (tick_history false 1600%Z envs s0 [])))) = [2; 3; 5] /\
    XM.rev (XM.xrun od false x0 (tick_history false 1600%Z envs s0 [])) = [] /\
    (forall c, In c (MM.cache (XM.core x0)) -> MM.lock_held (MM.jobs (XM.core x0)) (MM.chead c) = false).
  Proof. vm_compute. repeat split; auto. Qed.

  (** the hypotheses of [rejected_response_never_renews] hold of certificate 2 (answer Good) and
      of certificate 3 (responder unreachable), and of certificate 1 if the Revoked response
      carries another serial, a bad signature, or is expired *)
  Example rejected :
    (forall r, judged false k2 1600%Z (envs 2%Z) None = Some r -> ~ RevokedFor k2 1600%Z r) /\
    (forall r, judged false k3 1600%Z (envs 3%Z) None = Some r -> ~ RevokedFor k3 1600%Z r) /\
    (forall r, judged false k1 1600%Z (env_of (Blob 31%Z (Some (rsp Revoked 12%Z)))) None = Some r -> ~ RevokedFor k1 1600%Z r) /\
    (forall r, judged false k1 1600%Z (env_of (Blob 32%Z (Some (Resp Revoked 11%Z 1500%Z 3000%Z None false)))) None = Some r -> ~ RevokedFor k1 1600%Z r) /\
    (forall r, judged false k1 1600%Z (env_of (Blob 33%Z (Some (Resp Revoked 11%Z 1000%Z 1550%Z None true)))) None = Some r -> ~ RevokedFor k1 1600%Z r) /\
    (forall r, judged false k1 1600%Z (env_of (Blob 34%Z (Some (rsp Unknown 11%Z)))) None = Some r -> ~ RevokedFor k1 1600%Z r).
  Proof.
    repeat split; intros r H; vm_compute in H; inversion H; subst; unfold RevokedFor; cbn;
      intros (A & B & C & D & E & _); try discriminate; try lia.
    destruct E as [E|E]; [discriminate|lia].
  Qed.

  (** the hypotheses of [revoked_answer_end_to_end] hold of certificate 1 *)
  Example revoked_answer_hypotheses :
    let en := Entry k1 true (CS None None) 0%Z in
    In en (cache s0) /\ In (m 1) (MM.cache (XM.core x0)) /\ match_cert en (m 1) /\
    (1600 <= c_expiry k1)%Z /\ still_fresh 1600%Z en = false /\
    reusable k1 1600%Z (sget (eid en) (stor s0)) = false /\ c_url k1 = true /\
    e_ans (envs (eid en)) = ABytes (Blob 21%Z (Some (rsp Revoked 11%Z))) /\
    RevokedFor k1 1600%Z (rsp Revoked 11%Z).
  Proof.
    cbn zeta. split; [left; reflexivity|]. split; [left; reflexivity|]. split; [constructor; reflexivity|].
    split; [vm_compute; discriminate|]. split; [reflexivity|]. split; [reflexivity|]. split; [reflexivity|].
    split; [reflexivity|]. unfold RevokedFor. cbn. repeat split; try reflexivity; try lia.
  Qed.
End Ex.

Print Assumptions revoke_events_are_c14_decisions.
Print Assumptions ocsp_pass_end_to_end.
Print Assumptions rejected_response_never_renews.
Print Assumptions pass_same_survivors.
Print Assumptions revoked_answer_end_to_end.
