(** System / S9 (part 4) -- THE AGREEMENT THEOREM for one background renewal job: Maintain's
    [job_step] history and Issuance's [PRenew true] thread (MaintainIssuance3.v) agree on the
    issuer calls, the stored bundle, the lock and the outcome.  See the header of
    MaintainIssuance3.v for the translation. *)
From Coq Require Import List Bool Arith Lia.
From CM Require Issuance.Model Maintain.Model.
From CM Require Import Issuance.Base Maintain.Base System.MaintainIssuance3.
Import ListNotations.
Open Scope nat_scope.

(** * The translation *)
(** the fields a Maintain certificate and an Issuance certificate both have *)
Definition cert_rel (mc : M.cert) (ic : I.cert) : Prop :=
  M.cid mc = I.c_id ic /\ M.cdue mc = I.c_due ic.
(** Maintain's [store] at name [n]  ~  Issuance's three files of storage class [n] *)
Definition bundle_rel (mst : list (M.name * M.cert)) (sto : I.skey -> option I.value) (n : nat) : Prop :=
  match M.stored mst n with
  | Some mc => exists kk ic vm,
      sto (I.SK n I.KKey) = Some (I.VKey kk) /\ sto (I.SK n I.KCrt) = Some (I.VCrt ic) /\
      sto (I.SK n I.KMeta) = Some vm /\ cert_rel mc ic
  | None => sto (I.SK n I.KKey) = None /\ sto (I.SK n I.KCrt) = None /\ sto (I.SK n I.KMeta) = None
  end.
(** Maintain's issuer log  ~  Issuance's IssueStart events for the identifier, by outcome
    (0: the issuer answered, 2: it returned an error) *)
Definition is_iss (idn out : nat) (e : I.ev) : bool :=
  match I.e_op e with I.OIssS i => Nat.eqb i idn && Nat.eqb (I.e_out e) out | _ => false end.
Definition count_iss (idn out : nat) (es : list I.ev) : nat := length (filter (is_iss idn out) es).

Lemma count_iss_app idn out a b : count_iss idn out (a ++ b) = count_iss idn out a + count_iss idn out b.
Proof. unfold count_iss. rewrite filter_app, app_length. reflexivity. Qed.
Lemma count_iss_rep idn out l m : count_iss idn out (concat (repeat l m)) = m * count_iss idn out l.
Proof. induction m as [|m IH]; cbn [repeat concat]; [reflexivity|]. rewrite count_iss_app, IH. lia. Qed.

Lemma count_renew t lk vk idn chk due m :
  count_iss idn 0 (ev_renew t lk vk idn chk due m) = (if due then 1 else 0) /\
  count_iss idn 2 (ev_renew t lk vk idn chk due m) = (if due then m else 0).
Proof.
  unfold ev_renew. rewrite !count_iss_app.
  assert (A : forall o, count_iss idn o (ev_A t lk chk) = 0) by (intros o; unfold ev_A; destruct chk; reflexivity).
  rewrite !A. destruct due.
  - rewrite !count_iss_app, !count_iss_rep. unfold ev_fail, ev_ok, ev_loads, count_iss, E. cbn [app filter is_iss I.e_op I.e_out].
    rewrite !Nat.eqb_refl. cbn. split; lia.
  - unfold ev_fresh, ev_loads, count_iss, E. cbn. split; reflexivity.
Qed.

(** * The theorem *)
Theorem renew_job_agree od idue (s0 : M.state) n k old pre post mc
    (si : I.state) t th lk pk idn reuse chk kk ic vm m :
  (* Maintain: the k-th job for n is a renewal job that has not started; nobody holds the lock
     of n; a bundle is stored under n *)
  M.split_job n k (M.jobs s0) = Some (pre, M.Job n M.JRenew old M.Queued, post) ->
  M.lock_held (M.jobs s0) n = false ->
  M.stored (M.store s0) n = Some mc ->
  (* Issuance: thread t is a RenewCertAsync request (not forced) at its entry; the lock is free;
     the three files are stored *)
  nth_error (I.thr si) t = Some th ->
  I.cfg th = rcfg lk pk n idn reuse chk idue ->
  I.tpc th = I.after_pre (I.cfg th) -> I.cur th = I.OpRenew -> I.canc th = false ->
  I.lks (I.sh si) lk = None ->
  I.sto (I.sh si) (I.SK n I.KKey) = Some (I.VKey kk) ->
  I.sto (I.sh si) (I.SK n I.KCrt) = Some (I.VCrt ic) ->
  I.sto (I.sh si) (I.SK n I.KMeta) = Some vm ->
  (* translation *)
  cert_rel mc ic -> M.next s0 = I.ncid (I.sh si) ->
  let due := M.cdue mc in
  let sm := M.run od idue s0 (mh_renew n k due m) in
  let es := ev_renew t lk n idn chk due m in
  exists si',
    I.run si (labels_of t (lbl_renew chk due m)) = Some (si', es) /\
    (* 1. the issuer: called iff the STORED certificate is due; once per attempt *)
    (M.issued sm = repeat n (count_iss idn 0 es) ++ M.issued s0 /\
     M.failed sm = repeat n (count_iss idn 2 es) ++ M.failed s0 /\
     count_iss idn 0 es = (if due then 1 else 0) /\ count_iss idn 2 es = (if due then m else 0)) /\
    (* 2. storage: a new certificate is stored iff Issue succeeded; nothing else changes *)
    (bundle_rel (M.store sm) (I.sto (I.sh si')) n /\
     (if due
      then M.stored (M.store sm) n = Some (M.Cert (M.next s0) n [] idue true) /\
           exists key, I.sto (I.sh si') (I.SK n I.KCrt) = Some (I.VCrt (I.Cert (I.ncid (I.sh si)) key idue))
      else M.store sm = M.store s0 /\ forall j, I.sto (I.sh si') (I.SK n j) = I.sto (I.sh si) (I.SK n j)) /\
     (forall n', n' <> n -> M.stored (M.store sm) n' = M.stored (M.store s0) n') /\
     (forall key, key <> I.RW t -> (forall j, key <> I.SK n j) -> I.sto (I.sh si') key = I.sto (I.sh si) key)) /\
    (* 3. the lock: free afterwards on both sides (Issuance: every other lock untouched) *)
    (M.lock_held (M.jobs sm) n = false /\ I.lks (I.sh si') lk = None /\
     forall l, l <> lk -> I.lks (I.sh si') l = I.lks (I.sh si) l) /\
    (* 4. control: the job is at [Reload], the request has returned nil; nothing was cached *)
    (M.jobs sm = pre ++ M.Job n M.JRenew old M.Reload :: post /\ M.cache sm = M.cache s0 /\ M.lasterr sm = false /\
     exists th', nth_error (I.thr si') t = Some th' /\ I.tpc th' = I.PDone I.ROk /\ I.seen th' = I.seen th) /\
    (* 5. the identity counters stay synchronised *)
    M.next sm = I.ncid (I.sh si').
Proof.
  intros Hsplit Hfree Hst Hn Hcfg Hpc Hcur Hcanc Hl Hk Hc Hm [Hid Hdue] Hnext due sm es.
  assert (Hd : M.cdue mc = due) by reflexivity. clearbody due.
  destruct th as [c p cu ca fl lkey lcrt nk nc sn rc]. cbn in Hcfg, Hpc, Hcur, Hcanc. subst c p cu ca.
  destruct ic as [id kid due']. cbn in Hid, Hdue. rewrite Hd in Hdue. subst due'.
  destruct si as [thr [sto lks ncid nkid]]. cbn [I.sh I.thr I.sto I.lks I.ncid] in *.
  destruct (renew_thread_run t lk pk n idn reuse chk idue sto lks ncid nkid kk id kid due vm m lkey lcrt nk nc sn rc fl Hl Hk Hc Hm)
    as (th' & Hrun & Hpc' & _ & _ & Hseen).
  pose proof (trun_run t _ (I.State thr (I.Shared sto lks ncid nkid)) _ th' _ _ Hn Hrun) as HR.
  cbn [I.thr I.sh] in HR.
  eexists. split; [exact HR|]. cbn [I.sh I.sto I.lks I.ncid I.thr].
  assert (Hlt : t < length thr) by (apply nth_error_Some; congruence).
  pose proof (m_renew_run od idue n k old pre post s0 mc Hsplit Hfree Hst m) as HM.
  destruct (count_renew t lk n idn chk due m) as [C0 C2].
  destruct (m_end_free od idue n k old pre post s0 Hsplit Hfree (fl_end n s0) m) as [F1 F2].
  subst sm es. rewrite Hd in HM. rewrite HM, C0, C2. clear HM C0 C2.
  unfold sto_renew, lks_renew.
  assert (Hother : forall key, key <> I.RW t -> (forall j, key <> I.SK n j) ->
            (if due then sto_ok n reuse idue (sto_A t chk sto) kk ncid (nkid_iter reuse m nkid) else sto_A t chk sto) key = sto key).
  { intros key H1 H2. destruct due; [unfold sto_ok; rewrite !sput_neq by (intros X; eapply H2; eauto)|];
      apply sto_A_other; exact H1. }
  destruct due.
  - cbn [S_renewed M.issued M.failed M.store M.jobs M.cache M.lasterr M.next repeat app].
    split; [repeat split|]. split; [|split; [|split]].
    + split; [|split; [|split]].
      * unfold bundle_rel. rewrite stored_cons_eq. unfold sto_ok.
        exists (key_at reuse kk (nkid_iter reuse m nkid)), (new_cert reuse idue kk ncid (nkid_iter reuse m nkid)), (I.VMeta ncid).
        split; [|split; [|split]].
        -- repeat (rewrite sput_neq by discriminate). apply sput_eq.
        -- repeat (rewrite sput_neq by discriminate). apply sput_eq.
        -- apply sput_eq.
        -- split; [exact Hnext|reflexivity].
      * split; [apply stored_cons_eq|]. eexists. unfold sto_ok.
        rewrite (sput_neq _ (I.SK n I.KMeta)) by discriminate. rewrite sput_eq. unfold new_cert. reflexivity.
      * intros n' Hn'. apply stored_cons_neq. congruence.
      * exact Hother.
    + split; [exact F1|]. split; [apply lput_eq|]. intros l Hne. rewrite !lput_neq by congruence. reflexivity.
    + repeat split. exists th'. rewrite nth_upd_eq by exact Hlt. repeat split; [exact Hpc'|exact Hseen].
    + rewrite Hnext. reflexivity.
  - cbn [S_fresh M.issued M.failed M.store M.jobs M.cache M.lasterr M.next repeat app].
    split; [repeat split|]. split; [|split; [|split]].
    + split; [|split; [|split]].
      * unfold bundle_rel. rewrite Hst. exists kk, (I.Cert id kid false), vm. rewrite !sto_A_SK.
        repeat split; auto.
      * split; [reflexivity|]. intros j. apply sto_A_SK.
      * reflexivity.
      * exact Hother.
    + split; [exact F2|]. split; [apply lput_eq|]. intros l Hne. rewrite !lput_neq by congruence. reflexivity.
    + repeat split. exists th'. rewrite nth_upd_eq by exact Hlt. repeat split; [exact Hpc'|exact Hseen].
    + exact Hnext.
Qed.

(** the lock in between (Maintain): held after the first step and after each of the [i <= m]
    failed attempts -- as in Issuance, whose trace [ev_renew] has its only [OAcq lk] before the
    first attempt and its only [OUnlock lk] as the last event *)
Theorem renew_job_lock_held_meanwhile od idue (s0 : M.state) n k old pre post mc m i :
  M.split_job n k (M.jobs s0) = Some (pre, M.Job n M.JRenew old M.Queued, post) ->
  M.lock_held (M.jobs s0) n = false ->
  M.stored (M.store s0) n = Some mc -> M.cdue mc = true -> i <= m ->
  M.lock_held (M.jobs (M.run od idue s0 (M.JobStep n k :: M.SetIssuer n true :: repeat (M.JobStep n k) i))) n = true.
Proof. intros. eapply m_lock_profile; eauto. Qed.

Lemma ev_renew_lock_span t lk vk idn chk due m :
  exists a b, ev_renew t lk vk idn chk due m = a ++ I.Ev t (I.OAcq lk) 0 :: b ++ [I.Ev t (I.OUnlock lk) 0] /\
    (forall e, In e (a ++ b) -> forall l, I.e_op e <> I.OAcq l /\ I.e_op e <> I.OUnlock l) /\
    (forall e, In e a -> is_iss idn 0 e = false /\ is_iss idn 2 e = false).
Proof.
  exists (if chk then [E t (I.OStore (I.RW t)) 0; E t (I.OLoad (I.RW t)) 0; E t (I.ODelete (I.RW t)) 0; E t (I.OLock lk) 0]
          else [E t (I.OLock lk) 0]).
  exists (if due then concat (repeat (ev_fail t vk idn) m) ++ removelast (ev_ok t lk vk idn) else ev_loads t vk).
  split; [|split].
  - unfold ev_renew, ev_A. destruct chk, due; cbn [app]; unfold ev_fresh, ev_ok, ev_loads, E; cbn [app removelast];
      rewrite <- ?app_assoc; cbn [app]; reflexivity.
  - intros e Hin l. apply in_app_or in Hin. destruct Hin as [Hin|Hin].
    + destruct chk; cbn in Hin; intuition (subst; cbn; discriminate).
    + destruct due.
      * apply in_app_or in Hin. destruct Hin as [Hin|Hin].
        -- apply in_concat in Hin. destruct Hin as (x & Hx & Hin). apply repeat_spec in Hx. subst x.
           cbn in Hin. intuition (subst; cbn; discriminate).
        -- cbn in Hin. intuition (subst; cbn; discriminate).
      * cbn in Hin. intuition (subst; cbn; discriminate).
  - intros e Hin. destruct chk; cbn in Hin; intuition (subst; reflexivity).
Qed.

(** * The hypotheses are satisfiable (two failed attempts, then success; other jobs, other threads) *)
Definition ex_m : M.state :=
  M.State [(4, M.Cert 9 4 [] true true); (6, M.Cert 3 6 [] false true)] [M.Cert 9 4 [] true true]
          [M.Job 6 M.JRenew None M.Locked; M.Job 4 M.JRenew (Some (M.Cert 9 4 [] true true)) M.Queued]
          [] [] [] [] 10 false.
Definition ex_i : I.state :=
  I.State [I.init_thread (I.TCfg I.PManage 1 6 6 6 false true false false);
           I.init_thread (rcfg 8 4 4 4 false true false)]
          (I.Shared (I.sto_of_list [(I.SK 4 I.KKey, I.VKey 2); (I.SK 4 I.KCrt, I.VCrt (I.Cert 9 2 true)); (I.SK 4 I.KMeta, I.VMeta 9)])
                    (fun _ => None) 10 5).
Example renew_job_agree_nontrivial :
  exists si' es,
    I.run ex_i (labels_of 1 (lbl_renew true true 2)) = Some (si', es) /\
    length es = 28 /\ count_iss 4 0 es = 1 /\ count_iss 4 2 es = 2 /\
    I.sto (I.sh si') (I.SK 4 I.KCrt) = Some (I.VCrt (I.Cert 10 7 false)) /\
    M.stored (M.store (M.run (fun _ => false) false ex_m (mh_renew 4 0 true 2))) 4 = Some (M.Cert 10 4 [] false true) /\
    M.failed (M.run (fun _ => false) false ex_m (mh_renew 4 0 true 2)) = [4; 4] /\
    M.split_job 4 0 (M.jobs ex_m) = Some ([M.Job 6 M.JRenew None M.Locked], M.Job 4 M.JRenew (Some (M.Cert 9 4 [] true true)) M.Queued, []) /\
    M.lock_held (M.jobs ex_m) 4 = false.
Proof. eexists. eexists. split; [vm_compute; reflexivity|]. vm_compute. repeat split. Qed.
