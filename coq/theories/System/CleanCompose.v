(** S8 / Task B — CleanStorage's body (C18, [Clean.Model] / [Clean.Prog]) under the [storage_clean]
    lock of the Issuance LTS (C01/C09, program [PClean interval]); and what Clean's interference
    theorems assume about concurrent writers versus what Issuance's save ([PSave]: Store key, crt,
    meta; rollback [PRoll]) does.

    (i)   [clean_log_shape]: the call log of EVERY cleaning is
             Lock fail | Lock ok . [Load last_clean.json] . Unlock
                       | Lock ok . [Load last_clean.json] . work* . Store last_clean.json . Unlock
          where the work calls are no Lock/Unlock/Store and every Load among them addresses a key
          below ocsp / certificates (never last_clean.json); their Deletes lie in the cleaned name
          spaces (C18_interference_deletes_in_namespace).
          [clean_is_pclean_run]: projecting the log to Issuance operations ([pev]: the work calls
          become [OOther]) gives the event sequence of a run of a [PClean] thread of the Issuance LTS.
          [cleaners_exclusive]: in every reachable state of the LTS two [PClean] threads with the same
          lock key are never both between LockAcquired and Unlock.
    (ii)  [save_fops]: the storage effects of an Issuance thread's events as Clean's foreign operations;
          [save_spares_other_names], [clean_spares_saved_bundle], [save_under_clean_refuted]. *)
From Coq Require Import List Bool Arith Lia ZArith NArith.
From CM Require Import Lib.Str Lib.CleanSyntax Gen.Consts Clean.Model Clean.Proofs Clean.Prog Clean.Concurrent Clean.Effective Clean.Interfere.
From CM Require Issuance.Model Issuance.Base Issuance.Invariants.
Import ListNotations.

Module I := CM.Issuance.Model.
Module IB := CM.Issuance.Base.
Module II := CM.Issuance.Invariants.

Local Open Scope Z_scope.

(** * (i.a) the shape of a cleaning's call log *)

(** keys at or below "ocsp" / "certificates" (as strings) *)
Definition pfx (k : key) : Prop := has_prefix prefix_ocsp k = true \/ has_prefix prefix_certs k = true.

(** a call of the working part: not Lock / Unlock / Store, and a Load only below ocsp / certificates *)
Definition wk (ev : event) : Prop :=
  is_lockop (ev_kind ev) = false /\ ev_kind ev <> KStore /\ (ev_kind ev = KLoad -> pfx (ev_key ev)).
Definition wext (s s' : st) : Prop := exists new, lg s' = new ++ lg s /\ Forall wk new.

Lemma wext_refl s : wext s s.
Proof. exists []. split; [reflexivity|constructor]. Qed.
Lemma wext_trans s1 s2 s3 : wext s1 s2 -> wext s2 s3 -> wext s1 s3.
Proof.
  intros [n1 [E1 H1]] [n2 [E2 H2]]. exists (n2 ++ n1). split.
  - rewrite E2, E1, app_assoc. reflexivity.
  - apply Forall_app. split; assumption.
Qed.
Lemma wext_one k ky ok st' s : is_lockop k = false -> k <> KStore -> (k = KLoad -> pfx ky) ->
  wext s (logged k ky ok st' s).
Proof. intros H1 H2 H3. exists [Ev k ky ok]. split; [reflexivity|]. constructor; [|constructor]. repeat split; assumption. Qed.

Lemma pfx_child p q : child p q -> pfx p -> pfx q.
Proof. intros [c [-> _]] [H|H]; [left|right]; apply has_prefix_app; exact H. Qed.
Lemma pfx_app p x : pfx p -> pfx (p ++ x).
Proof. intros [H|H]; [left|right]; apply has_prefix_app; exact H. Qed.
Lemma pfx_not_record : ~ pfx clean_storage_key.
Proof. intros [H|H]; vm_compute in H; discriminate. Qed.

(** every storage call appends exactly one event of its own kind, whatever the fault plan decides
    (robust against new fault classes in [Clean.Model]: all branches are [logged] states) *)
Ltac branches :=
  repeat match goal with
         | |- context [if ?c then _ else _] => destruct c
         | |- context [match ?x with _ => _ end] => destruct x
         end.
Lemma do_load_w e k s : pfx k -> wext s (snd (do_load e k s)).
Proof.
  intros Hk. unfold do_load. branches; cbn [snd]; apply wext_one; try reflexivity; try discriminate; auto.
Qed.
Lemma do_list_w e k s : wext s (snd (do_list e k s)).
Proof. unfold do_list. branches; cbn [snd]; apply wext_one; try reflexivity; discriminate. Qed.
Lemma do_stat_w e k s : wext s (snd (do_stat e k s)).
Proof. unfold do_stat. branches; cbn [snd]; apply wext_one; try reflexivity; discriminate. Qed.
Lemma do_delete_w e k s : wext s (snd (do_delete e k s)).
Proof. unfold do_delete. branches; cbn [snd]; apply wext_one; try reflexivity; discriminate. Qed.
Lemma do_list_children e k s ks s1 : do_list e k s = (Some ks, s1) -> pfx k -> Forall pfx ks.
Proof.
  intros D Hk. destruct (do_list_spec _ _ _ _ _ D) as [_ H]. pose proof (list_pure_child _ _ _ _ (H ks eq_refl)) as C.
  eapply Forall_impl; [|exact C]. intros q Hq. exact (pfx_child k q Hq Hk).
Qed.

Ltac wstep :=
  match goal with
  | |- context [do_load ?e ?k ?s] =>
      let r := fresh "r" in let s1 := fresh "s" in let E := fresh "E" in let X := fresh "X" in
      assert (X : pfx k -> wext s (snd (do_load e k s))) by (apply do_load_w);
      destruct (do_load e k s) as [r s1] eqn:E; cbn [snd] in X
  | |- context [do_list ?e ?k ?s] =>
      let r := fresh "r" in let s1 := fresh "s" in let E := fresh "E" in let X := fresh "X" in
      pose proof (do_list_w e k s) as X; destruct (do_list e k s) as [r s1] eqn:E; cbn [snd] in X
  | |- context [do_stat ?e ?k ?s] =>
      let r := fresh "r" in let s1 := fresh "s" in let E := fresh "E" in let X := fresh "X" in
      pose proof (do_stat_w e k s) as X; destruct (do_stat e k s) as [r s1] eqn:E; cbn [snd] in X
  | |- context [do_delete ?e ?k ?s] =>
      let r := fresh "r" in let s1 := fresh "s" in let E := fresh "E" in let X := fresh "X" in
      pose proof (do_delete_w e k s) as X; destruct (do_delete e k s) as [r s1] eqn:E; cbn [snd] in X
  end.
Ltac wclose := repeat first [ apply wext_refl | eassumption | (eapply wext_trans; [eassumption|]) ].

Lemma staples_loop_w e clk ks : Forall pfx ks -> forall s, wext s (staples_loop e clk ks s).
Proof.
  induction ks as [|k r IH]; intros Hks s; cbn [staples_loop]; [apply wext_refl|].
  inversion Hks as [|? ? Hk Hr]; subst. specialize (IH Hr).
  destruct (cancelled e s); [apply wext_refl|]. wstep. specialize (X Hk).
  destruct r0 as [v c| |]; try (eapply wext_trans; [exact X|apply IH]).
  destruct (stale_staple (rd clk s0) c); [|eapply wext_trans; [exact X|apply IH]].
  wstep. eapply wext_trans; [exact X|]. eapply wext_trans; [exact X0|apply IH].
Qed.

Lemma delete_old_staples_w e clk s : wext s (delete_old_staples e clk s).
Proof.
  unfold delete_old_staples. wstep. destruct r as [ks|]; [|exact X].
  eapply wext_trans; [exact X|]. apply staples_loop_w. eapply do_list_children; [exact E|]. left. reflexivity.
Qed.

Lemma delete_related_w e base sufs : forall s, wext s (delete_related e base sufs s).
Proof.
  induction sufs as [|x r IH]; intros s; cbn [delete_related]; [apply wext_refl|].
  wstep. eapply wext_trans; [exact X|apply IH].
Qed.

Lemma assets_loop_w e clk gr assets : Forall pfx assets -> forall s, wext s (snd (assets_loop e clk gr assets s)).
Proof.
  induction assets as [|a r IH]; intros Ha s; cbn [assets_loop]; [apply wext_refl|].
  inversion Ha as [|? ? Hk Hr]; subst. specialize (IH Hr).
  destruct (negb (seqb (path_ext a) clean_ext_crt)); [apply IH|].
  wstep. specialize (X Hk). destruct r0 as [v c| |]; try exact X.
  destruct (as_cert c); [|exact X].
  destruct (expired_cert (rd clk s0) gr c); [|eapply wext_trans; [exact X|apply IH]].
  wstep. eapply wext_trans; [exact X|]. eapply wext_trans; [exact X0|].
  eapply wext_trans; [apply delete_related_w|apply IH].
Qed.

Lemma sites_loop_w e clk gr sites : Forall pfx sites -> forall s, wext s (snd (sites_loop e clk gr sites s)).
Proof.
  induction sites as [|sk r IH]; intros Hs s; cbn [sites_loop]; [apply wext_refl|].
  inversion Hs as [|? ? Hk Hr]; subst. specialize (IH Hr).
  destruct (cancelled e s); [apply wext_refl|].
  wstep. destruct r0 as [assets|]; [|eapply wext_trans; [exact X|apply IH]].
  pose proof (assets_loop_w e clk gr assets (do_list_children _ _ _ _ _ E Hk) s0) as XA.
  destruct (assets_loop e clk gr assets s0) as [ab s2]. cbn [snd] in XA.
  destruct ab; [cbn [snd]; eapply wext_trans; [exact X|exact XA]|].
  wstep. destruct r0 as [[|x l]|].
  - wstep. destruct r0.
    + cbn [snd]. wclose. apply IH.
    + wstep. destruct r0; [|cbn [snd]; wclose].
      wclose. apply IH.
    + cbn [snd]. wclose. apply IH.
  - wclose. apply IH.
  - wclose. apply IH.
Qed.

Lemma issuers_loop_w e clk gr iss : Forall pfx iss -> forall s, wext s (snd (issuers_loop e clk gr iss s)).
Proof.
  induction iss as [|ik r IH]; intros Hs s; cbn [issuers_loop]; [apply wext_refl|].
  inversion Hs as [|? ? Hk Hr]; subst. specialize (IH Hr).
  wstep. destruct r0 as [sites|]; [|eapply wext_trans; [exact X|apply IH]].
  pose proof (sites_loop_w e clk gr sites (do_list_children _ _ _ _ _ E Hk) s0) as XS.
  destruct (sites_loop e clk gr sites s0) as [ab s2]. cbn [snd] in XS.
  destruct ab; [cbn [snd]; wclose|]. wclose. apply IH.
Qed.

Lemma delete_expired_certs_w e clk gr s : wext s (snd (delete_expired_certs e clk gr s)).
Proof.
  unfold delete_expired_certs. wstep. destruct r as [iss|]; [|exact X].
  eapply wext_trans; [exact X|]. apply issuers_loop_w. eapply do_list_children; [exact E|]. right. reflexivity.
Qed.

(** the interval check makes exactly one call - the Load of last_clean.json - iff Interval > 0 *)
Definition pre_of (iv : bool) (pre : list event) : Prop :=
  if iv then exists ok, pre = [Ev KLoad clean_storage_key ok] else pre = [].

Lemma interval_check_pre e o clk s r s1 : interval_check e o clk s = (r, s1) ->
  exists pre, lg s1 = pre ++ lg s /\ pre_of (0 <? interval o) pre /\
    (r <> IProceed -> (0 <? interval o) = true).
Proof.
  unfold interval_check, pre_of. destruct (0 <? interval o).
  - assert (L : exists ok, lg (snd (do_load e clean_storage_key s)) = [Ev KLoad clean_storage_key ok] ++ lg s).
    { unfold do_load. destruct (faulty e s); [eexists; reflexivity|].
      destruct (lookup (sto s) clean_storage_key) as [[v c|]|]; try destruct (is_dir (sto s) clean_storage_key); eexists; reflexivity. }
    destruct (do_load e clean_storage_key s) as [res s2]. cbn [snd] in L. destruct L as [ok L].
    assert (G : exists pre, lg s2 = pre ++ lg s /\ (exists ok, pre = [Ev KLoad clean_storage_key ok]) /\ (r <> IProceed -> true = true))
      by (eexists; split; [exact L|split; [eexists; reflexivity|reflexivity]]).
    destruct res as [v c| |]; try (intros HH; injection HH; intros <- _; exact G).
    destruct (as_clean c) as [[ts i]|]; [|intros HH; injection HH; intros <- _; exact G].
    destruct (cmp_holds clean_interval_cmp (rd clk s2 - ts) (interval o)); intros HH; injection HH; intros <- _; exact G.
  - intros HH; injection HH; intros <- <-. exists []. split; [reflexivity|]. split; [reflexivity|]. intros N. contradiction.
Qed.

(** the calls of [clean_locked] (newest first): [pre] = the interval check's Load (or nothing);
    then either nothing more (skip / abort), or the working calls and the Store of the record *)
Lemma clean_locked_shape e o clk s r s' : clean_locked e o clk s = (r, s') ->
  exists pre, pre_of (0 <? interval o) pre /\
    ((lg s' = pre ++ lg s /\ r <> RErrStore /\ r <> RErrLock /\ (0 <? interval o) = true) \/
     (exists work oks, lg s' = Ev KStore clean_storage_key oks :: work ++ pre ++ lg s /\ Forall wk work /\
        r = if oks then RNil else RErrStore)).
Proof.
  unfold clean_locked. destruct (interval_check e o clk s) as [ir s1] eqn:IC.
  destruct (interval_check_pre _ _ _ _ _ _ IC) as [pre [Epre [Hpre Hiv]]].
  assert (Hres : forall r0, ir = IAbort r0 -> r0 <> RErrStore /\ r0 <> RErrLock).
  { revert IC. unfold interval_check. destruct (0 <? interval o); [|intros HH; injection HH; intros _ <-; discriminate].
    destruct (do_load e clean_storage_key s) as [res s2]. destruct res as [v c| |].
    - destruct (as_clean c) as [[ts i]|]; [destruct (cmp_holds _ _ _)|];
        intros HH; injection HH; intros _ <-; intros r0 E; try discriminate; injection E; intros <-; split; discriminate.
    - intros HH; injection HH; intros _ <-; discriminate.
    - intros HH; injection HH; intros _ <-; intros r0 E; injection E; intros <-; split; discriminate. }
  intros HC. exists pre. split; [exact Hpre|]. revert HC. destruct ir as [| |r0].
  - intros HC. right. revert HC.
    set (s2 := if do_ocsp o then delete_old_staples e clk s1 else s1).
    assert (X2 : wext s1 s2) by (subst s2; destruct (do_ocsp o); [apply delete_old_staples_w | apply wext_refl]).
    set (s3 := if do_certs o then snd (delete_expired_certs e clk (grace o) s2) else s2).
    assert (X3 : wext s1 s3).
    { eapply wext_trans; [exact X2|]. subst s3. destruct (do_certs o); [apply delete_expired_certs_w | apply wext_refl]. }
    destruct X3 as [new [Enew Hnew]]. unfold do_store.
    destruct (faulty e s3); [|destruct (is_dir (sto s3) clean_storage_key); [|destruct (efaulty e s3)]];
      intros HH; injection HH; intros <- <-; cbn [lg logged]; exists new; eexists;
      (split; [rewrite Enew, Epre; reflexivity|split; [exact Hnew|reflexivity]]).
  - intros HH; injection HH; intros <- <-. left. split; [exact Epre|]. split; [discriminate|]. split; [discriminate|].
    apply Hiv. discriminate.
  - intros HH; injection HH; intros <- <-. left. split; [exact Epre|]. destruct (Hres r0 eq_refl) as [N1 N2].
    split; [exact N1|]. split; [exact N2|]. apply Hiv. discriminate.
Qed.

(** the whole log of a cleaning, oldest call first; [iv] = (Interval > 0) *)
Inductive log_shape (iv : bool) (r : result) : list event -> Prop :=
| LS_nolock : r = RErrLock -> log_shape iv r [Ev KLock clean_lock_name false]
| LS_short (ok u : bool) : iv = true -> r <> RErrStore -> r <> RErrLock ->
    log_shape iv r [Ev KLock clean_lock_name true; Ev KLoad clean_storage_key ok; Ev KUnlock clean_lock_name u]
| LS_full (pre work : list event) (oks u : bool) : pre_of iv pre ->
    Forall wk work -> r = (if oks then RNil else RErrStore) ->
    log_shape iv r (Ev KLock clean_lock_name true :: pre ++ work ++
                    [Ev KStore clean_storage_key oks; Ev KUnlock clean_lock_name u]).

Lemma rev_pre iv (pre : list event) : pre_of iv pre -> rev pre = pre.
Proof. unfold pre_of. destruct iv; [intros [ok ->]|intros ->]; reflexivity. Qed.

Theorem clean_log_shape e o clk s0 :
  log_shape (0 <? interval o) (fst (clean e o clk s0)) (rev (lg (snd (clean e o clk s0)))).
Proof.
  unfold clean, do_lock. destruct (faulty e (St s0 [])); [cbn; apply LS_nolock; reflexivity|].
  destruct (clean_locked e o clk _) as [r1 s2] eqn:C. cbn [fst snd].
  destruct (clean_locked_shape _ _ _ _ _ _ C) as (pre & Hpre & [(El & N1 & N2 & Hiv)|(work & oks & El & Hw & Er)]);
    unfold do_unlock; cbn [lg logged]; rewrite El; cbn [lg logged].
  - rewrite Hiv in *. cbn [pre_of] in Hpre. destruct Hpre as [ok ->]. cbn [rev app].
    apply LS_short; auto.
  - cbn [rev]. rewrite !rev_app_distr. cbn [rev app]. rewrite (rev_pre _ pre Hpre).
    rewrite <- !app_assoc. cbn [app].
    apply (LS_full _ r1 pre (rev work) oks); [exact Hpre| |exact Er].
    apply Forall_rev. exact Hw.
Qed.

(** in particular the working part mutates neither last_clean.json nor a lock file: no Store at all,
    and (C18) its Deletes are below ocsp/ or certificates/ *)
Corollary work_calls_spare_record_and_locks e o clk s0 ev :
  In ev (lg (snd (clean e o clk s0))) -> ev_kind ev = KDelete ->
  in_clean_namespace (ev_key ev) /\ ev_key ev <> clean_storage_key /\
  (has_prefix ocsp_pfx (ev_key ev) = true \/ has_prefix certs_pfx (ev_key ev) = true).
Proof.
  intros Hin Hk. rewrite <- cleani_nil in Hin.
  pose proof (cleani_deletes_in_namespace e clk [] o s0 ev Hin Hk) as Hn.
  pose proof (namespace_prefix _ Hn) as Hp. split; [exact Hn|]. split; [|exact Hp].
  intros E. rewrite E in Hp. destruct Hp as [Hp|Hp]; vm_compute in Hp; discriminate.
Qed.

(** * (i.b) the projection to Issuance operations and the PClean run *)

(** the configuration of a CleanStorage request: program [PClean iv], lock key [lk] (the class of
    "storage_clean"); the other fields are not used by [PClean] *)
Definition ccfg (iv : bool) (lk : nat) : I.tcfg :=
  {| I.c_prog := I.PClean iv; I.c_lk := lk; I.c_pk := 0%nat; I.c_vk := 0%nat; I.c_idn := 0%nat;
     I.c_reuse := false; I.c_chk := false; I.c_force := false; I.c_issdue := false |}.

(** the projection of one call of the cleaner to the operations the Issuance LTS shows for it
    (Issuance splits Lock into the call and the acquisition) *)
Definition pev (lk : nat) (ev : event) : list I.op :=
  match ev_kind ev with
  | KLock => if ev_ok ev then [I.OLock lk; I.OAcq lk] else [I.OLock lk]
  | KUnlock => [I.OUnlock lk]
  | KStore => [I.OStore I.SLast]
  | KLoad => if seqb (ev_key ev) clean_storage_key then [I.OLoad I.SLast] else [I.OOther]
  | _ => [I.OOther]
  end.
Definition plog (lk : nat) (l : list event) : list I.op := flat_map (pev lk) l.

Lemma pev_wk lk ev : wk ev -> pev lk ev = [I.OOther].
Proof.
  intros (H1 & H2 & H3). unfold pev. destruct (ev_kind ev) eqn:K; try discriminate; try reflexivity; try congruence.
  destruct (seqb (ev_key ev) clean_storage_key) eqn:E; [|reflexivity].
  apply seqb_eq in E. exfalso. apply pfx_not_record. rewrite <- E. apply H3. reflexivity.
Qed.
Lemma plog_work lk work : Forall wk work -> plog lk work = repeat I.OOther (length work).
Proof.
  induction work as [|ev r IH]; intros H; [reflexivity|]. inversion H as [|? ? H1 H2]; subst.
  unfold plog in *. cbn [flat_map length repeat]. rewrite (pev_wk lk ev H1), (IH H2). reflexivity.
Qed.

Lemma map_rep {A B} (f : A -> B) x n : map f (repeat x n) = repeat (f x) n.
Proof. induction n as [|n IH]; [reflexivity|]. cbn [repeat map]. rewrite IH. reflexivity. Qed.

Definition res_of (r : result) : I.result := match r with RNil => I.ROk | _ => I.RErr end.

(** explicit thread states of a [PClean] request ([fl] = a fault was injected, [rc] = recorded) *)
Definition thq (iv : bool) (lk : nat) (fl rc : bool) (p : I.pc) : I.thread :=
  {| I.cfg := ccfg iv lk; I.tpc := p; I.cur := I.OpClean; I.canc := false; I.flt := fl; I.lkey := None;
     I.lcrt := None; I.nk := 0%nat; I.nc := None; I.seen := None; I.recd := rc |}.
Definition th_at (iv : bool) (lk : nat) (p : I.pc) : I.thread := thq iv lk false true p.
Definition L0 (f : I.fault) (b : bool) : I.label := I.Label 0 f b.
Definition sh0 (st0 : I.skey -> option I.value) : I.shared :=
  {| I.sto := st0; I.lks := fun _ => None; I.ncid := 0%nat; I.nkid := 0%nat |}.
Definition shL (st0 : I.skey -> option I.value) (lk : nat) : I.shared :=
  {| I.sto := st0; I.lks := I.lput (fun _ => None) lk (Some 0%nat); I.ncid := 0%nat; I.nkid := 0%nat |}.
Definition shU (st0 : I.skey -> option I.value) (lk : nat) : I.shared :=
  {| I.sto := st0; I.lks := I.lput (I.lput (fun _ => None) lk (Some 0%nat)) lk None; I.ncid := 0%nat; I.nkid := 0%nat |}.
Definition st_none : I.skey -> option I.value := fun _ => None.
Definition st_recent : I.skey -> option I.value :=
  fun k => match k with I.SLast => Some (I.VLast true) | _ => None end.
Definition st_rec (st0 : I.skey -> option I.value) := I.sput st0 I.SLast (Some (I.VLast true)).

Lemma run_cons s l s1 e ls s2 es : I.step s l = Some (s1, e) -> I.run s1 ls = Some (s2, es) ->
  I.run s (l :: ls) = Some (s2, e :: es).
Proof. intros H1 H2. cbn [I.run]. rewrite H1, H2. reflexivity. Qed.
Lemma run_nil s : I.run s [] = Some (s, []).
Proof. reflexivity. Qed.

(** the single steps *)
Lemma st_lock_fail iv lk st0 b :
  I.step (I.State [I.init_thread (ccfg iv lk)] (sh0 st0)) (L0 I.FErr b) =
    Some (I.State [thq iv lk true false (I.PDone I.RErr)] (sh0 st0), I.Ev 0 (I.OLock lk) 2).
Proof. reflexivity. Qed.
Lemma st_lock iv lk st0 b :
  I.step (I.State [I.init_thread (ccfg iv lk)] (sh0 st0)) (L0 I.FNone b) =
    Some (I.State [thq iv lk false false I.PLockWait] (sh0 st0), I.Ev 0 (I.OLock lk) 0).
Proof. reflexivity. Qed.
Lemma st_acq iv lk st0 b :
  I.step (I.State [thq iv lk false false I.PLockWait] (sh0 st0)) (L0 I.FNone b) =
    Some (I.State [th_at iv lk (if iv then I.PCLoad else I.PCBody)] (shL st0 lk), I.Ev 0 (I.OAcq lk) 0).
Proof. destruct iv; reflexivity. Qed.
Lemma st_load_none lk b :
  I.step (I.State [th_at true lk I.PCLoad] (shL st_none lk)) (L0 I.FNone b) =
    Some (I.State [th_at true lk I.PCBody] (shL st_none lk), I.Ev 0 (I.OLoad I.SLast) 1).
Proof. reflexivity. Qed.
Lemma st_load_recent lk b :
  I.step (I.State [th_at true lk I.PCLoad] (shL st_recent lk)) (L0 I.FNone b) =
    Some (I.State [th_at true lk (I.PUnlock I.ROk)] (shL st_recent lk), I.Ev 0 (I.OLoad I.SLast) 0).
Proof. reflexivity. Qed.
Lemma st_load_err lk st0 b :
  I.step (I.State [th_at true lk I.PCLoad] (shL st0 lk)) (L0 I.FErr b) =
    Some (I.State [thq true lk true true (I.PUnlock I.RErr)] (shL st0 lk), I.Ev 0 (I.OLoad I.SLast) 2).
Proof. reflexivity. Qed.
Lemma st_body iv lk st0 :
  I.step (I.State [th_at iv lk I.PCBody] (shL st0 lk)) (L0 I.FNone true) =
    Some (I.State [th_at iv lk I.PCBody] (shL st0 lk), I.Ev 0 I.OOther 0).
Proof. reflexivity. Qed.
Lemma st_store iv lk st0 :
  I.step (I.State [th_at iv lk I.PCBody] (shL st0 lk)) (L0 I.FNone false) =
    Some (I.State [th_at iv lk (I.PUnlock I.ROk)] (shL (st_rec st0) lk), I.Ev 0 (I.OStore I.SLast) 0).
Proof. reflexivity. Qed.
Lemma st_store_err iv lk st0 :
  I.step (I.State [th_at iv lk I.PCBody] (shL st0 lk)) (L0 I.FErr false) =
    Some (I.State [thq iv lk true true (I.PUnlock I.RErr)] (shL st0 lk), I.Ev 0 (I.OStore I.SLast) 2).
Proof. reflexivity. Qed.
Lemma st_unlock iv lk fl r st0 b :
  I.step (I.State [thq iv lk fl true (I.PUnlock r)] (shL st0 lk)) (L0 I.FNone b) =
    Some (I.State [thq iv lk fl false (I.PDone r)] (shU st0 lk), I.Ev 0 (I.OUnlock lk) 0).
Proof.
  unfold I.step, shL. cbn [I.thr I.l_tid L0 nth_error I.sh I.l_fault I.l_bit].
  unfold I.tstep. cbn -[I.lput]. rewrite IB.lput_eq. cbn -[I.lput]. destruct fl; reflexivity.
Qed.
Lemma st_unlock_err iv lk fl r st0 b :
  I.step (I.State [thq iv lk fl true (I.PUnlock r)] (shL st0 lk)) (L0 I.FErr b) =
    Some (I.State [thq iv lk true true (I.PDone r)] (shL st0 lk), I.Ev 0 (I.OUnlock lk) 2).
Proof. destruct fl; reflexivity. Qed.

(** the deferred Unlock, succeeding ([u]) or failing *)
Lemma run_unlock iv lk fl r st0 (u : bool) :
  exists s2 th, I.run (I.State [thq iv lk fl true (I.PUnlock r)] (shL st0 lk)) [L0 (if u then I.FNone else I.FErr) false] =
                  Some (s2, [I.Ev 0 (I.OUnlock lk) (if u then 0 else 2)%nat]) /\
    I.thr s2 = [th] /\ I.tpc th = I.PDone r /\ (u = true -> I.lks (I.sh s2) lk = None).
Proof.
  destruct u.
  - do 2 eexists. split; [eapply run_cons; [apply st_unlock|apply run_nil]|]. split; [reflexivity|]. split; [reflexivity|].
    intros _. cbn [I.sh shU I.lks]. apply IB.lput_eq.
  - do 2 eexists. split; [eapply run_cons; [apply st_unlock_err|apply run_nil]|]. split; [reflexivity|]. split; [reflexivity|].
    intros Hu. discriminate.
Qed.

Lemma run_body iv lk st0 n rest s2 es :
  I.run (I.State [th_at iv lk I.PCBody] (shL st0 lk)) rest = Some (s2, es) ->
  I.run (I.State [th_at iv lk I.PCBody] (shL st0 lk)) (repeat (L0 I.FNone true) n ++ rest) =
    Some (s2, repeat (I.Ev 0 I.OOther 0) n ++ es).
Proof.
  intros H. induction n as [|n IH]; [exact H|]. cbn [repeat app].
  eapply run_cons; [apply st_body|exact IH].
Qed.

(** Store of the record and the deferred Unlock, from the body *)
Lemma run_tail iv lk st0 (oks u : bool) :
  exists s2 es th,
    I.run (I.State [th_at iv lk I.PCBody] (shL st0 lk))
          [L0 (if oks then I.FNone else I.FErr) false; L0 (if u then I.FNone else I.FErr) false] = Some (s2, es) /\
    map I.e_op es = [I.OStore I.SLast; I.OUnlock lk] /\ I.thr s2 = [th] /\
    I.tpc th = I.PDone (if oks then I.ROk else I.RErr) /\
    (u = true -> I.lks (I.sh s2) lk = None).
Proof.
  destruct oks.
  - destruct (run_unlock iv lk false I.ROk (st_rec st0) u) as (s2 & th & Hr & Ht & Hp & Hl).
    exists s2, (I.Ev 0 (I.OStore I.SLast) 0 :: [I.Ev 0 (I.OUnlock lk) (if u then 0 else 2)%nat]), th.
    split; [eapply run_cons; [apply st_store|exact Hr]|]. repeat split; assumption.
  - destruct (run_unlock iv lk true I.RErr st0 u) as (s2 & th & Hr & Ht & Hp & Hl).
    exists s2, (I.Ev 0 (I.OStore I.SLast) 2 :: [I.Ev 0 (I.OUnlock lk) (if u then 0 else 2)%nat]), th.
    split; [eapply run_cons; [apply st_store_err|exact Hr]|]. repeat split; assumption.
Qed.

(** Lock ok, LockAcquired: to the first pc of the locked part *)
Lemma run_acquire iv lk st0 rest s2 es :
  I.run (I.State [th_at iv lk (if iv then I.PCLoad else I.PCBody)] (shL st0 lk)) rest = Some (s2, es) ->
  I.run (I.init_state [ccfg iv lk] st0) (L0 I.FNone false :: L0 I.FNone false :: rest) =
    Some (s2, I.Ev 0 (I.OLock lk) 0 :: I.Ev 0 (I.OAcq lk) 0 :: es).
Proof.
  intros H. change (I.init_state [ccfg iv lk] st0) with (I.State [I.init_thread (ccfg iv lk)] (sh0 st0)).
  eapply run_cons; [apply st_lock|]. eapply run_cons; [apply st_acq|exact H].
Qed.

(** THE RUN: the call log of every cleaning, projected by [pev], is the operation sequence of a run
    of one [PClean] thread of the Issuance LTS (from some content of last_clean.json, under some
    fault plan), which ends with the corresponding result. *)
Theorem clean_is_pclean_run : forall e o clk s0 lk,
  let iv := (0 <? interval o) in
  exists st0 ls s' evs th,
    I.run (I.init_state [ccfg iv lk] st0) ls = Some (s', evs) /\
    map I.e_op evs = plog lk (rev (lg (snd (clean e o clk s0)))) /\
    I.thr s' = [th] /\ I.tpc th = I.PDone (res_of (fst (clean e o clk s0))).
Proof.
  intros e o clk s0 lk iv. pose proof (clean_log_shape e o clk s0) as Sh. fold iv in Sh.
  destruct Sh as [Er|ok u Hiv N1 N2|pre work oks u Hpre Hw Er].
  - (* the Lock call fails *)
    rewrite Er. exists st_none, [L0 I.FErr false]. do 3 eexists.
    split; [eapply run_cons; [apply st_lock_fail|apply run_nil]|]. split; [reflexivity|]. split; reflexivity.
  - (* skip (recorded recently) or abort after the Load of last_clean.json *)
    rewrite Hiv.
    assert (Hpl : forall o1 o3, map I.e_op [I.Ev 0 (I.OLock lk) 0; I.Ev 0 (I.OAcq lk) 0; I.Ev 0 (I.OLoad I.SLast) o1; I.Ev 0 (I.OUnlock lk) o3] =
                   plog lk [Ev KLock clean_lock_name true; Ev KLoad clean_storage_key ok; Ev KUnlock clean_lock_name u]).
    { intros o1 o3. unfold plog. cbn [flat_map pev ev_kind ev_key ev_ok app map I.e_op]. rewrite seqb_refl. reflexivity. }
    destruct (fst (clean e o clk s0)) eqn:Er; try contradiction.
    + (* nil: recent *)
      destruct (run_unlock true lk false I.ROk st_recent u) as (s2 & th & Hr & Ht & Hp & _).
      exists st_recent, (L0 I.FNone false :: L0 I.FNone false :: [L0 I.FNone false; L0 (if u then I.FNone else I.FErr) false]).
      exists s2. eexists. exists th. split; [apply run_acquire; eapply run_cons; [apply st_load_recent|exact Hr]|].
      split; [apply Hpl|]. split; [exact Ht|exact Hp].
    + destruct (run_unlock true lk true I.RErr st_none u) as (s2 & th & Hr & Ht & Hp & _).
      exists st_none, (L0 I.FNone false :: L0 I.FNone false :: [L0 I.FErr false; L0 (if u then I.FNone else I.FErr) false]).
      exists s2. eexists. exists th. split; [apply run_acquire; eapply run_cons; [apply st_load_err|exact Hr]|].
      split; [apply Hpl|]. split; [exact Ht|exact Hp].
    + destruct (run_unlock true lk true I.RErr st_none u) as (s2 & th & Hr & Ht & Hp & _).
      exists st_none, (L0 I.FNone false :: L0 I.FNone false :: [L0 I.FErr false; L0 (if u then I.FNone else I.FErr) false]).
      exists s2. eexists. exists th. split; [apply run_acquire; eapply run_cons; [apply st_load_err|exact Hr]|].
      split; [apply Hpl|]. split; [exact Ht|exact Hp].
  - (* the full cleaning *)
    destruct (run_tail iv lk st_none oks u) as (s2 & es & th & Hrun & Hops & Hthr & Hpc & _).
    pose proof (run_body iv lk st_none (length work) _ s2 es Hrun) as Hb.
    assert (Hres : I.PDone (if oks then I.ROk else I.RErr) = I.PDone (res_of (fst (clean e o clk s0)))).
    { rewrite Er. destruct oks; reflexivity. }
    assert (Hplog : forall pre', plog lk (Ev KLock clean_lock_name true :: pre' ++ work ++
                      [Ev KStore clean_storage_key oks; Ev KUnlock clean_lock_name u]) =
                    I.OLock lk :: I.OAcq lk :: plog lk pre' ++ repeat I.OOther (length work) ++ [I.OStore I.SLast; I.OUnlock lk]).
    { intros pre'. unfold plog. cbn [flat_map pev ev_kind ev_ok app]. rewrite !flat_map_app.
      fold (plog lk work). rewrite (plog_work lk work Hw). reflexivity. }
    unfold pre_of in Hpre. destruct iv eqn:Eiv.
    + destruct Hpre as [ok ->].
      exists st_none, (L0 I.FNone false :: L0 I.FNone false :: L0 I.FNone false ::
                               repeat (L0 I.FNone true) (length work) ++
                               [L0 (if oks then I.FNone else I.FErr) false; L0 (if u then I.FNone else I.FErr) false]).
      exists s2, (I.Ev 0 (I.OLock lk) 0 :: I.Ev 0 (I.OAcq lk) 0 :: I.Ev 0 (I.OLoad I.SLast) 1 ::
                  repeat (I.Ev 0 I.OOther 0) (length work) ++ es), th.
      split; [|split; [|split; [exact Hthr|rewrite Hpc; exact Hres]]].
      * apply run_acquire. eapply run_cons; [apply st_load_none|]. exact Hb.
      * rewrite Hplog. cbn [map I.e_op]. rewrite map_app, Hops.
        rewrite map_rep. cbn [I.e_op].
        unfold plog. cbn [flat_map pev ev_kind ev_key app]. rewrite seqb_refl. reflexivity.
    + subst pre.
      exists st_none, (L0 I.FNone false :: L0 I.FNone false ::
                               repeat (L0 I.FNone true) (length work) ++
                               [L0 (if oks then I.FNone else I.FErr) false; L0 (if u then I.FNone else I.FErr) false]).
      exists s2, (I.Ev 0 (I.OLock lk) 0 :: I.Ev 0 (I.OAcq lk) 0 ::
                  repeat (I.Ev 0 I.OOther 0) (length work) ++ es), th.
      split; [|split; [|split; [exact Hthr|rewrite Hpc; exact Hres]]].
      * apply run_acquire. exact Hb.
      * rewrite Hplog. cbn [map I.e_op]. rewrite map_app, Hops.
        rewrite map_rep. cbn [I.e_op].
        reflexivity.
Qed.

(** * (i.c) two instances never clean at the same time *)

(** between LockAcquired and Unlock of a CleanStorage: Load last_clean.json, the body, Store *)
Definition cleaning (th : I.thread) : bool :=
  match I.tpc th with I.PCLoad | I.PCBody | I.PCStore => true | _ => false end.

(** C01/C09's lock invariant for the real cleaning program: in every reachable state of the
    Issuance LTS - any thread set (cleaners, obtains, renewals, ...), any schedule, any fault plan -
    two threads that use the same lock key ("storage_clean") are never both inside the cleaning *)
Theorem cleaners_exclusive : forall cs st s t1 t2 th1 th2,
  IB.reachable cs st s -> II.thread_at s t1 th1 -> II.thread_at s t2 th2 ->
  cleaning th1 = true -> cleaning th2 = true -> I.c_lk (I.cfg th1) = I.c_lk (I.cfg th2) -> t1 = t2.
Proof.
  intros cs st s t1 t2 th1 th2 Hr H1 H2 C1 C2 Hk.
  pose proof (II.I_lock_reachable _ _ _ Hr) as HI.
  assert (L1 : I.locked (I.tpc th1) = true) by (unfold cleaning in C1; destruct (I.tpc th1); try discriminate; reflexivity).
  assert (L2 : I.locked (I.tpc th2) = true) by (unfold cleaning in C2; destruct (I.tpc th2); try discriminate; reflexivity).
  pose proof (HI _ _ H1 L1) as O1. pose proof (HI _ _ H2 L2) as O2. rewrite Hk in O1. congruence.
Qed.


(** the only fact about [do_delete] used below (whatever the fault classes of [Clean.Model] are) *)
Lemma do_delete_shrinks e k s b s1 : do_delete e k s = (b, s1) ->
  forall q, lookup (sto s1) q = lookup (sto s) q \/ (lookup (sto s1) q = None /\ covers k q = true).
Proof.
  intros D q. destruct (do_delete_spec _ _ _ _ _ D) as [-> | [-> | [keep ->]]]; [left; reflexivity| |].
  - rewrite lookup_remove. destruct (covers k q); [right; split; reflexivity|left; reflexivity].
  - rewrite lookup_removep. destruct (covers k q); cbn [andb]; [|left; reflexivity].
    destruct (negb (memk q keep)); [right; split; reflexivity|left; reflexivity].
Qed.

(** * (ii) concurrent writers: what Clean's interference theorems assume, what Issuance's save does *)

(** ** (ii.a) a generalisation of C18_interference_live_assets_untouched that allows a writer of the
    very bundle: X.crt may be overwritten - by live certificates only - while the cleaner runs.

    C18's theorem assumes that NO other actor writes X.crt or the asset in question ([Hfs] of
    [Clean.Interfere.LiveFrame]); an obtain / renewal of X does exactly that ([PSave]).  What is
    needed is less: X.crt exists from the start, every value it ever holds is a certificate that is
    not expired for the grace period, nobody deletes it or touches a key above it.  Then the cleaner
    never issues a Delete that covers X.crt, X.key or X.json, whatever else happens. *)
Section SavedLive.
  Variables (e : env) (clk : nat -> Z) (fs : list (nat * fop)) (o : opts) (s0 : store) (base : key).
  Local Notation a := (base ++ spec_ext_crt).
  Definition Live (c : cls) : Prop := forall i, spec_expired (clk i) (grace o) c = false.
  (** what a foreign operation may be: a Store of a live certificate onto X.crt, or anything that
      does not act on X.crt or on a key above it (in particular the Stores of X.key and X.json) *)
  Definition okf (f : fop) : Prop :=
    (exists v c, f = FPut a (File v c) /\ Live c) \/ covers (fkey f) a = false.
  Hypotheses (Ha : site_assetb a = true)
             (Hf : exists v c, lookup s0 a = Some (File v c) /\ Live c)
             (Hanc : forall p, under p a = true -> forall v c, lookup s0 p <> Some (File v c))
             (Hfs : forall i f, In (i, f) fs -> okf f).

  Definition spares (x : key) : Prop := forall suf, In suf asset_exts -> covers x (base ++ suf) = false.

  Definition ILs (s : store) : Prop :=
    (exists v c, lookup s a = Some (File v c) /\ Live c) /\
    (forall p, under p a = true -> forall v c, lookup s p <> Some (File v c)).

  Definition HS (h : hist) : Prop :=
    honest h /\
    (forall v' c', In (ALoad a, XLoad (LOk v' c')) h -> Live c') /\
    (forall t, In (ANow, XTime t) h -> exists i, t = clk i) /\
    (forall p ks, In (AList p, XList (Some ks)) h -> child p a -> In a ks).

  Lemma under_irrefl (x : key) : under x x = false.
  Proof.
    destruct (under x x) eqn:U; [|reflexivity]. apply under_spec in U. destruct U as [r E].
    apply (f_equal (@length N)) in E. rewrite app_length in E. cbn [length] in E. lia.
  Qed.
  Lemma under_covers p q : under p q = true -> covers p q = true.
  Proof. intros U. unfold covers. rewrite U. apply orb_true_r. Qed.
  Lemma child_under p q : child p q -> under p q = true.
  Proof. intros [c [-> _]]. apply under_spec. eauto. Qed.
  Lemma crt_ext : In spec_ext_crt asset_exts. Proof. left. reflexivity. Qed.

  Lemma same_folder' suf p : In suf asset_exts -> child p (base ++ suf) -> covers p a = true.
  Proof.
    intros Hs Ch.
    exact (same_folder [] [(a, File 0 (Cls None None None))] base suf 0 (Cls None None None) Ha Hs
             (ltac:(cbn [lookup]; rewrite seqb_refl; reflexivity)) (fun i f (H : In (i, f) []) => match H with end) p Ch).
  Qed.

  Lemma warranted_spares' h x : HS h -> warranted o h x -> spares x.
  Proof.
    intros (Hh & Hld & Hnw & Hls) W.
    destruct consts_ok as (Ec & Et & Er & Eg & _ & _ & _ & _ & Epc & Epo).
    destruct W as [c' t _ L _ _ _|ik sk a' c' t _ L1 L2 L3 Ext Rd Nw Xp Hin|ik h' _ L1 L2 Eh].
    - assert (P : has_prefix ocsp_pfx x = true).
      { rewrite Epo in L. destruct (listed_child _ _ _ Hh L) as [cx [-> _]]. apply has_prefix_spec. exists cx.
        unfold ocsp_pfx. rewrite <- app_assoc. reflexivity. }
      intros suf Hs. destruct (covers x (base ++ suf)) eqn:C; [|reflexivity]. exfalso.
      exact (pfx_disjoint _ (covers_prefix _ _ _ P C) (asset_key_prefix base suf Ha)).
    - assert (Sa' : site_assetb a' = true).
      { apply (site_asset_shape sk a'); [|exact (listed_child _ _ _ Hh L3)].
        exists ik. split; [rewrite <- Epc; exact (listed_child _ _ _ Hh L1) | exact (listed_child _ _ _ Hh L2)]. }
      rewrite Ec in Ext. unfold related in Hin. rewrite Et, Er in Hin.
      assert (Xs : spec_expired t (grace o) c' = true).
      { unfold expired_cert in Xp. unfold spec_expired. destruct (as_cert c'); [|discriminate]. rewrite Eg, cmp_ge_spec in Xp. exact Xp. }
      intros suf' Hs'. destruct (covers x (base ++ suf')) eqn:C; [|reflexivity]. exfalso.
      assert (J : j_cert t (grace o) [(a', File 0 c')] (base ++ suf') = true).
      { unfold j_cert. cbn [map fst existsb]. rewrite orb_false_r. unfold j_cert_by. rewrite Sa', Ext.
        assert (B : (if covers a' (base ++ suf') then true
                     else if covers (trim_suffix spec_ext_crt a' ++ spec_ext_key) (base ++ suf') then true
                          else covers (trim_suffix spec_ext_crt a' ++ spec_ext_json) (base ++ suf')) = true).
        { destruct Hin as [<-|[<-|[<-|[]]]]; rewrite C.
          - reflexivity.
          - destruct (covers a' (base ++ suf')); reflexivity.
          - destruct (covers a' (base ++ suf')); [reflexivity|].
            destruct (covers (trim_suffix spec_ext_crt a' ++ spec_ext_key) (base ++ suf')); reflexivity. }
        rewrite B. unfold file. cbn [lookup]. rewrite seqb_refl. exact Xs. }
      pose proof (j_cert_asset _ _ _ _ _ Ha Hs' J) as M. unfold file in M. cbn [lookup] in M.
      destruct (seqb a' a) eqn:E; [|discriminate]. apply seqb_eq in E. subst a'.
      destruct Rd as [v' Rd]. pose proof (Hld v' c' Rd) as Lc.
      destruct (Hnw t Nw) as [i ->]. rewrite (Lc i) in Xs. discriminate.
    - assert (Sf : site_folder x).
      { exists ik. split; [rewrite <- Epc; exact (listed_child _ _ _ Hh L1) | exact (listed_child _ _ _ Hh L2)]. }
      assert (InL : In (AList x, XList (Some [])) h) by (rewrite Eh; right; left; reflexivity).
      intros suf Hs. destruct (covers x (base ++ suf)) eqn:C; [|reflexivity]. exfalso.
      pose proof (folder_child x (base ++ suf) Sf (nsep_k base suf Ha Hs) C) as Ch.
      pose proof (same_folder' suf x Hs Ch) as Ca.
      pose proof (folder_child x a Sf (site_assetb_nsep a Ha) Ca) as Cha.
      exact (Hls x [] InL Cha).
  Qed.

  Lemma okf_ILs f s : okf f -> ILs s -> ILs (fapply f s).
  Proof.
    intros [(v & c & -> & Lc)|Nc] [(v0 & c0 & L0 & Lc0) Han]; cbn [fapply].
    - split.
      + exists v, c. split; [rewrite lookup_put, seqb_refl; reflexivity|exact Lc].
      + intros p Up v' c'. rewrite lookup_put. destruct (seqb a p) eqn:E; [|exact (Han p Up v' c')].
        apply seqb_eq in E. subst p. rewrite under_irrefl in Up. discriminate.
    - destruct f as [k' n|k']; cbn [fkey fapply] in *.
      + assert (Ek : seqb k' a = false) by (unfold covers in Nc; apply orb_false_iff in Nc; exact (proj1 Nc)).
        split.
        * exists v0, c0. split; [rewrite lookup_put, Ek; exact L0|exact Lc0].
        * intros p Up v' c'. rewrite lookup_put. destruct (seqb k' p) eqn:E; [|exact (Han p Up v' c')].
          apply seqb_eq in E. subst p. rewrite (under_covers _ _ Up) in Nc. discriminate.
      + split.
        * exists v0, c0. split; [rewrite lookup_remove, Nc; exact L0|exact Lc0].
        * intros p Up v' c'. rewrite lookup_remove. destruct (covers k' p); [discriminate|exact (Han p Up v' c')].
  Qed.

  (** a Delete (complete, partial, or failed) only removes keys it covers *)
  Lemma ILs_shrink x s1 s2 :
    (forall q, lookup s2 q = lookup s1 q \/ (lookup s2 q = None /\ covers x q = true)) ->
    covers x a = false -> ILs s1 -> ILs s2.
  Proof.
    intros Hq Na [(v0 & c0 & L0 & Lc0) Han]. split.
    - exists v0, c0. split; [|exact Lc0]. destruct (Hq a) as [E|[_ C]]; [rewrite E; exact L0|congruence].
    - intros p Up v c. destruct (Hq p) as [E|[E _]]; [rewrite E; exact (Han p Up v c)|rewrite E; discriminate].
  Qed.

  Lemma apply_at_ILs l i : (forall j f, In (j, f) l -> okf f) -> forall s, ILs s -> ILs (apply_at l i s).
  Proof.
    induction l as [|[j f] r IH]; intros Hl s Hs; [exact Hs|]. cbn [apply_at].
    apply IH; [intros j' f' H; apply (Hl j' f'); right; exact H|].
    destruct (Nat.eqb j i); [|exact Hs]. apply okf_ILs; [apply (Hl j f); left; reflexivity|exact Hs].
  Qed.

  Lemma record_not_above q : covers q a = true -> seqb spec_last_clean q = false.
  Proof.
    intros C. apply (prot_not_record base spec_ext_crt Ha q). right. exact C.
  Qed.

  Definition Good (h : hist) : Prop := forall k x, In (ADelete k, x) h -> spares k.

  Lemma wrun_saved p : forall s h, SP o h p -> HS h -> ILs (sto s) -> Good h ->
    ILs (sto (snd (wrun st (iexec e clk fs) p s h))) /\ Good (fst (wrun st (iexec e clk fs) p s h)).
  Proof.
    induction p as [r|act kont IH]; intros s h HSP Hh HI HG; cbn [wrun]; [split; assumption|].
    inversion HSP as [|? ? ? Hd Hst Hk']; subst.
    destruct (iexec e clk fs act s) as [x s1] eqn:Ex.
    destruct (iexec_spec e clk fs _ _ _ _ Ex) as (_ & Hlist).
    unfold iexec in Ex. set (s' := if logs act then interfere fs s else s) in Ex.
    assert (HI' : ILs (sto s')).
    { subst s'. destruct (logs act); [|exact HI]. unfold interfere. cbn [sto]. apply apply_at_ILs; [exact Hfs|exact HI]. }
    clearbody s'.
    apply IH; [apply Hk'| | |].
    - (* the history stays sound *)
      destruct Hh as (Hh & Hld & Hnw & Hls). repeat split.
      + intros p ks [E|Hin]; [|exact (Hh p ks Hin)]. injection E; intros -> ->. exact (Hlist p ks eq_refl eq_refl).
      + intros v' c' [E|Hin]; [|exact (Hld v' c' Hin)]. injection E; intros -> ->. cbn [exec] in Ex.
        destruct (do_load e a s') as [r s2] eqn:D. injection Ex; intros _ ->.
        destruct (do_load_spec _ _ _ _ _ D) as (_ & Hok & _). pose proof (Hok v' c' eq_refl) as L.
        destruct HI' as [(v0 & c0 & L0 & Lc0) _]. rewrite L0 in L. injection L; intros <- _. exact Lc0.
      + intros t [E|Hin]; [|exact (Hnw t Hin)]. injection E; intros -> ->. cbn [exec] in Ex.
        injection Ex; intros _ <-. eexists; reflexivity.
      + intros p ks [E|Hin] Ch; [|exact (Hls p ks Hin Ch)]. injection E; intros -> ->. cbn [exec] in Ex.
        destruct (do_list e p s') as [r s2] eqn:D. injection Ex; intros _ ->.
        destruct (do_list_spec _ _ _ _ _ D) as (_ & Hl). pose proof (Hl ks eq_refl) as L.
        destruct HI' as [(v0 & c0 & L0 & _) Han].
        destruct (list_pure_complete (lfe e) (sto s') p a _ L0 Ch (Han p (child_under _ _ Ch))) as [ks' [L' Hin']].
        rewrite L in L'. injection L'; intros <-. exact Hin'.
    - (* X.crt stays a live certificate, the keys above it stay folders *)
      destruct act as [k0|k0|k0|k0|k0 n| |]; cbn [exec] in Ex.
      + destruct (do_load e k0 s') as [r s2] eqn:D. injection Ex; intros <- _.
        rewrite (proj1 (do_load_spec _ _ _ _ _ D)). exact HI'.
      + destruct (do_list e k0 s') as [r s2] eqn:D. injection Ex; intros <- _.
        rewrite (proj1 (do_list_spec _ _ _ _ _ D)). exact HI'.
      + destruct (do_stat e k0 s') as [r s2] eqn:D. injection Ex; intros <- _.
        rewrite (proj1 (do_stat_spec _ _ _ _ _ D)). exact HI'.
      + destruct (do_delete e k0 s') as [r s2] eqn:D. injection Ex; intros <- _.
        pose proof (warranted_spares' h k0 Hh (Hd k0 eq_refl) spec_ext_crt crt_ext) as Na.
        exact (ILs_shrink k0 _ _ (do_delete_shrinks _ _ _ _ _ D) Na HI').
      + destruct (do_store e k0 n s') as [r s2] eqn:D. injection Ex; intros <- _.
        destruct (do_store_spec _ _ _ _ _ _ D) as [(_ & -> & _)|(-> & _ & _)]; [exact HI'|].
        apply (okf_ILs (FPut k0 n)); [|exact HI']. right. cbn [fkey].
        rewrite (Hst k0 n eq_refl). destruct consts_ok as (_ & _ & _ & _ & _ & _ & _ & -> & _).
        destruct (covers spec_last_clean a) eqn:C; [|reflexivity].
        pose proof (record_not_above spec_last_clean C) as N. rewrite seqb_refl in N. discriminate.
      + injection Ex; intros <- _. exact HI'.
      + injection Ex; intros <- _. exact HI'.
    - (* the Delete just issued was warranted by a sound history *)
      intros k x0 [E|Hin]; [|exact (HG k x0 Hin)]. injection E; intros _ ->.
      exact (warranted_spares' h k Hh (Hd k eq_refl)).
  Qed.

  (** THE POSITIVE THEOREM: the cleaner - whatever its options, fault plan, cancellation, clock, and
      whatever the writers do within [okf], at whatever moments - issues no Delete covering X.crt,
      X.key or X.json; and X.crt is a live certificate at the end *)
  Theorem clean_spares_saved_bundle :
    (forall ev, In ev (lg (snd (cleani e fs o clk s0))) -> ev_kind ev = KDelete -> spares (ev_key ev)) /\
    (exists v c, lookup (sto (snd (cleani e fs o clk s0))) a = Some (File v c) /\ Live c).
  Proof.
    unfold cleani. destruct (do_lock e (St s0 [])) as [ok s1] eqn:L.
    assert (L1 : (forall ev, In ev (lg s1) -> ev_kind ev <> KDelete) /\ sto s1 = s0).
    { unfold do_lock in L. destruct (faulty e (St s0 [])); injection L; intros <- _; cbn; split; try reflexivity;
        intros ev' [<-|[]]; discriminate. }
    destruct L1 as [L1 Es1].
    destruct ok; [|cbn [snd]; rewrite Es1; split; [intros ev Hin Hk; exfalso; exact (L1 ev Hin Hk)|exact Hf]].
    destruct (runi e clk fs (clean_locked_prog o) s1) as [r s2] eqn:R. cbn [snd].
    assert (E2 : s2 = snd (wrun st (iexec e clk fs) (clean_locked_prog o) s1 [])).
    { rewrite <- (runi_wrun e clk fs _ s1 []). rewrite R. reflexivity. }
    assert (H0 : HS []).
    { repeat split; try (intros; contradiction). intros p ks []. }
    assert (I0 : ILs (sto s1)) by (rewrite Es1; split; [exact Hf|exact Hanc]).
    destruct (wrun_saved (clean_locked_prog o) s1 [] (clean_locked_safe o []) H0 I0 (fun k x (H : In _ []) => match H with end))
      as [IF GF].
    rewrite <- E2 in IF. split; [|unfold do_unlock; cbn [sto logged]; exact (proj1 IF)].
    intros ev Hin Hk. unfold do_unlock in Hin. cbn [lg logged] in Hin. destruct Hin as [<-|Hin]; [discriminate|].
    assert (J0 : J (lg s1) s1 []).
    { split; [intros p ks []|]. intros ev' H _. left; exact H. }
    pose proof (wrun_J e clk fs (lg s1) (clean_locked_prog o) s1 [] J0) as [_ Hd].
    rewrite <- E2 in Hd. destruct (Hd ev Hin Hk) as [H|[x H]]; [exfalso; exact (L1 ev H Hk)|].
    exact (GF _ _ H).
  Qed.
End SavedLive.

(** ** (ii.b) Issuance's storage effects as Clean's foreign operations *)
Section IssuanceWriters.
  (** [site n] = the path "certificates/<issuer>/<name>/<name>" of name class [n] (without extension);
      [node_of] = what the bytes of an Issuance value look like to the cleaner's parsers *)
  Variable site : nat -> key.
  Variable node_of : I.value -> node.
  Hypothesis site_ok : forall n, site_assetb (site n ++ spec_ext_crt) = true.
  Hypothesis site_inj : forall n m, site n = site m -> n = m.

  Definition kext (j : I.kind) : str :=
    match j with I.KKey => spec_ext_key | I.KCrt => spec_ext_crt | I.KMeta => spec_ext_json end.
  Definition kname (n : nat) (j : I.kind) : key := site n ++ kext j.

  (** the effect of one Issuance event on the bundle files, given the state after it *)
  Definition fop_of (s' : I.state) (ev : I.ev) : option fop :=
    match I.e_op ev, I.e_out ev with
    | I.OStore (I.SK n j), O =>
        match I.sto (I.sh s') (I.SK n j) with Some v => Some (FPut (kname n j) (node_of v)) | None => None end
    | I.ODelete (I.SK n j), O => Some (FDel (kname n j))
    | _, _ => None
    end.
  Fixpoint run_fops (s : I.state) (ls : list I.label) : list fop :=
    match ls with
    | [] => []
    | l :: r =>
        match I.step s l with
        | Some (s1, ev) => (match fop_of s1 ev with Some f => [f] | None => [] end) ++ run_fops s1 r
        | None => []
        end
    end.
  (** every foreign operation derived from Issuance is a Store / Delete of a bundle file *)
  Definition bundle_op (f : fop) : Prop := exists n j, fkey f = kname n j.
  Lemma run_fops_bundle ls : forall s f, In f (run_fops s ls) -> bundle_op f.
  Proof.
    induction ls as [|l r IH]; intros s f Hin; [contradiction|]. cbn [run_fops] in Hin.
    destruct (I.step s l) as [[s1 ev]|]; [|contradiction]. apply in_app_or in Hin. destruct Hin as [Hin|Hin]; [|exact (IH _ _ Hin)].
    unfold fop_of in Hin. destruct (I.e_op ev) as [k|k|k|k| | | | | | | | | |]; try contradiction;
      destruct k as [n j| |]; try contradiction; destruct (I.e_out ev); try contradiction.
    - destruct (I.sto (I.sh s1) (I.SK n j)); [|contradiction]. destruct Hin as [<-|[]]. exists n, j. reflexivity.
    - destruct Hin as [<-|[]]. exists n, j. reflexivity.
  Qed.

  Lemma kext_in j : In (kext j) asset_exts.
  Proof. destruct j; cbn; auto. Qed.
  Lemma kname_nsep n j : nsep (kname n j) = 3%nat.
  Proof. exact (nsep_k (site n) (kext j) (site_ok n) (kext_in j)). Qed.

  (** bundle files of different names, or different files of one name, do not cover each other *)
  Lemma kname_covers n j m suf : In suf asset_exts -> covers (kname n j) (site m ++ suf) = true ->
    n = m /\ kext j = suf.
  Proof.
    intros Hs C. pose proof (covers_nsep _ _ C) as E.
    rewrite (nsep_k (site m) suf (site_ok m) Hs), kname_nsep in E. specialize (E eq_refl).
    unfold kname in E. destruct (ext_inj _ _ _ _ Hs (kext_in j) E) as [E1 E2].
    split; [apply site_inj; symmetry; exact E1|symmetry; exact E2].
  Qed.

  (** *** what C18 proves as it stands: a save (with or without rollback) of name n, at any moments of
      the cleaning, leaves the files of every OTHER name m whose certificate is live untouched *)
  Theorem save_spares_other_names : forall e clk fs o s0 m suf v c,
    In suf asset_exts -> lookup s0 (site m ++ spec_ext_crt) = Some (File v c) ->
    (forall i, spec_expired (clk i) (grace o) c = false) ->
    (forall i f, In (i, f) fs -> exists n j, n <> m /\ fkey f = kname n j) ->
    lookup (sto (snd (cleani e fs o clk s0))) (site m ++ suf) = lookup s0 (site m ++ suf).
  Proof.
    intros e clk fs o s0 m suf v c Hs Hl Hlive Hfs.
    apply (cleani_live_frame e clk fs o s0 (site m) suf v c (site_ok m) Hs Hl Hlive).
    intros i f Hin. destruct (Hfs i f Hin) as (n & j & Hne & ->). split.
    - destruct (covers (kname n j) (site m ++ spec_ext_crt)) eqn:C; [|reflexivity].
      destruct (kname_covers n j m spec_ext_crt (or_introl eq_refl) C) as [E _]. contradiction.
    - destruct (covers (kname n j) (site m ++ suf)) eqn:C; [|reflexivity].
      destruct (kname_covers n j m suf Hs C) as [E _]. contradiction.
  Qed.

  (** *** the name being saved: storeTx of a NON-expired name that already has a live certificate
      (a renewal in time), no rollback of X.crt: every foreign operation is a Store of one of the
      three files of [m] - the certificate file only with certificates that are live for the whole
      cleaning - or an operation on a file of another name.  Then (ii.a) applies. *)
  Definition save_op (clk : nat -> Z) (o : opts) (m : nat) (f : fop) : Prop :=
    (exists j nd, f = FPut (kname m j) nd /\
       (j = I.KCrt -> exists v c, nd = File v c /\ Live clk o c)) \/
    (exists n j, n <> m /\ fkey f = kname n j).

  Lemma save_op_okf clk o m f : save_op clk o m f -> okf clk o (site m) f.
  Proof.
    intros [(j & nd & -> & Hc)|(n & j & Hne & Hk)].
    - destruct j.
      + right. cbn [fkey]. destruct (covers (kname m I.KKey) (site m ++ spec_ext_crt)) eqn:C; [|reflexivity].
        destruct (kname_covers m I.KKey m spec_ext_crt (or_introl eq_refl) C) as [_ E]. discriminate.
      + left. destruct (Hc eq_refl) as (v & c & -> & Lc). exists v, c. split; [reflexivity|exact Lc].
      + right. cbn [fkey]. destruct (covers (kname m I.KMeta) (site m ++ spec_ext_crt)) eqn:C; [|reflexivity].
        destruct (kname_covers m I.KMeta m spec_ext_crt (or_introl eq_refl) C) as [_ E]. discriminate.
    - right. rewrite Hk. destruct (covers (kname n j) (site m ++ spec_ext_crt)) eqn:C; [|reflexivity].
      destruct (kname_covers n j m spec_ext_crt (or_introl eq_refl) C) as [E _]. contradiction.
  Qed.

  Theorem renewal_of_live_name_safe : forall e clk fs o s0 m,
    (exists v c, lookup s0 (kname m I.KCrt) = Some (File v c) /\ Live clk o c) ->
    (forall p, under p (kname m I.KCrt) = true -> forall v c, lookup s0 p <> Some (File v c)) ->
    (forall i f, In (i, f) fs -> save_op clk o m f) ->
    (forall ev j, In ev (lg (snd (cleani e fs o clk s0))) -> ev_kind ev = KDelete ->
       covers (ev_key ev) (kname m j) = false) /\
    (exists v c, lookup (sto (snd (cleani e fs o clk s0))) (kname m I.KCrt) = Some (File v c) /\ Live clk o c).
  Proof.
    intros e clk fs o s0 m Hf Hanc Hfs.
    destruct (clean_spares_saved_bundle e clk fs o s0 (site m) (site_ok m) Hf Hanc
                (fun i f H => save_op_okf clk o m f (Hfs i f H))) as [H1 H2].
    split; [|exact H2]. intros ev j Hin Hk. exact (H1 ev Hin Hk (kext j) (kext_in j)).
  Qed.
End IssuanceWriters.

(** * A concrete naming and the witnesses *)
From Coq Require Import String Ascii.
Fixpoint s2k (s : string) : str :=
  match s with EmptyString => [] | String ch r => N.of_nat (nat_of_ascii ch) :: s2k r end.

(** name class n lives in certificates/iss/<n>/<n>.{key,crt,json} (one letter per class) *)
Definition nm (n : nat) : str := [(N.of_nat n + 97)%N].
Definition site0 (n : nat) : key := s2k "certificates/iss/" ++ nm n ++ [c_sl] ++ nm n.

Lemma site0_ok : forall n, site_assetb (site0 n ++ spec_ext_crt) = true.
Proof.
  intros n. apply site_assetb_spec.
  exists (s2k "iss/" ++ nm n ++ [c_sl] ++ nm n ++ spec_ext_crt). split; [reflexivity|].
  assert (Hc : N.eqb (N.of_nat n + 97) c_sl = false) by (apply N.eqb_neq; unfold c_sl; lia).
  unfold nm. cbn [s2k app nat_of_ascii]. cbn -[N.eqb N.add N.of_nat nsep].
  rewrite !nsep_cons, !Hc. reflexivity.
Qed.
Lemma site0_inj : forall n m, site0 n = site0 m -> n = m.
Proof.
  intros n m H. unfold site0, nm in H. apply app_inv_head in H. injection H as H _. lia.
Qed.

Definition Tn : Z := 1790000000 * second.
Definition day : Z := 86400 * second.
Definition plain : cls := Cls None None None.
Definition crt (na : Z) : cls := Cls (Some na) None None.
(** what Issuance's abstract values look like to the cleaner: a due certificate is one that expired
    40 days ago, any other one has 60 days left *)
Definition node_of0 (v : I.value) : node :=
  match v with
  | I.VCrt c => File (Z.of_nat (I.c_id c)) (crt (if I.c_due c then Tn - 40 * day else Tn + 60 * day))
  | I.VKey k => File (100 + Z.of_nat k) plain
  | I.VMeta c => File (200 + Z.of_nat c) plain
  | _ => File 0 plain
  end.
Definition kn := kname site0.

Definition env0 : env :=                                            (* FileStorage flavour, no faults *)
  {| faults := []; efaults := []; cancel_at := None; lfe := true; pfaults := []; kill_at := None |}.
Definition opts0 : opts :=                                          (* certificates only, grace 30 d *)
  {| interval := 0; do_ocsp := false; do_certs := true; grace := 30 * day; inst := s2k "me" |}.
Definition clk0 : nat -> Z := fun _ => Tn.
Definition nolabels (n : nat) : list I.label := repeat (I.Label 0 I.FNone false) n.

(** a fault-free ObtainCertSync of name 1, and a fault-free RenewCertSync of name 1 whose stored
    certificate is due; a forced renewal of name 2 whose stored certificate is live *)
Definition ob_cfg : I.tcfg :=
  {| I.c_prog := I.PObtain false; I.c_lk := 1%nat; I.c_pk := 1%nat; I.c_vk := 1%nat; I.c_idn := 1%nat;
     I.c_reuse := false; I.c_chk := false; I.c_force := false; I.c_issdue := false |}.
Definition rn_cfg : I.tcfg :=
  {| I.c_prog := I.PRenew false; I.c_lk := 1%nat; I.c_pk := 1%nat; I.c_vk := 1%nat; I.c_idn := 1%nat;
     I.c_reuse := false; I.c_chk := false; I.c_force := false; I.c_issdue := false |}.
Definition rn_sto : I.skey -> option I.value :=
  I.sto_of_list [(I.SK 1 I.KKey, I.VKey 5); (I.SK 1 I.KCrt, I.VCrt (I.Cert 9 5 true)); (I.SK 1 I.KMeta, I.VMeta 9)].
Definition fr_cfg : I.tcfg :=
  {| I.c_prog := I.PRenew false; I.c_lk := 2%nat; I.c_pk := 2%nat; I.c_vk := 2%nat; I.c_idn := 2%nat;
     I.c_reuse := false; I.c_chk := false; I.c_force := true; I.c_issdue := false |}.
Definition fr_sto : I.skey -> option I.value :=
  I.sto_of_list [(I.SK 2 I.KKey, I.VKey 5); (I.SK 2 I.KCrt, I.VCrt (I.Cert 9 5 false)); (I.SK 2 I.KMeta, I.VMeta 9)].

Definition ob_fops : list fop := run_fops site0 node_of0 (I.init_state [ob_cfg] (fun _ => None)) (nolabels 12).
Definition rn_fops : list fop := run_fops site0 node_of0 (I.init_state [rn_cfg] rn_sto) (nolabels 13).
Definition fr_fops : list fop := run_fops site0 node_of0 (I.init_state [fr_cfg] fr_sto) (nolabels 13).

(** the storeTx of Issuance IS the sequence Store key, Store crt, Store meta of Clean's foreign writer *)
Example save_is_three_puts :
  ob_fops = [FPut (kn 1 I.KKey) (File 100 plain); FPut (kn 1 I.KCrt) (File 0 (crt (Tn + 60 * day)));
             FPut (kn 1 I.KMeta) (File 200 plain)] /\
  (exists s evs th, I.run (I.init_state [ob_cfg] (fun _ => None)) (nolabels 12) = Some (s, evs) /\
     I.thr s = [th] /\ I.tpc th = I.PDone I.ROk).
Proof. split; [vm_compute; reflexivity|]. do 3 eexists. split; [vm_compute; reflexivity|]. split; reflexivity. Qed.

(** an empty site folder (FileStorage keeps the directory when storeTx's rollback - or the cleaner
    itself - has deleted the last file in it) *)
Definition s_empty : store :=
  [ (s2k "certificates", Dir); (s2k "certificates/iss", Dir); (s2k "certificates/iss/b", Dir);
    (s2k "acme/ca/users/u/u.key", File 13 plain) ].

(** FINDING (extends C18-foreign-writer-toctou; maintain.go deleteExpiredCerts, the
    [len(siteAssets) == 0 ... storage.Delete(ctx, siteKey)] block, vs. config.go obtainCert ->
    saveCertResource -> storage.go storeTx, which run under DIFFERENT locks: issue_cert_<name> /
    storage_clean).  The name need not be expired: a first ObtainCert of a NEW name whose site folder
    exists and is empty.  The cleaner lists the folder empty (calls 3-4) and Stats it (5); the obtain
    stores key, crt, meta and returns success; the cleaner's recursive Delete(folder) (call 6) removes
    the whole bundle. *)
Theorem save_under_clean_refuted :
  let fs := map (fun f => (6%nat, f)) ob_fops in
  (forall i, spec_expired (clk0 i) (grace opts0) (crt (Tn + 60 * day)) = false) /\ 0 <= grace opts0 /\
  (forall j, lookup s_empty (kn 1 j) = None) /\
  fst (cleani env0 fs opts0 clk0 s_empty) = RNil /\
  (forall j, lookup (sto (snd (cleani env0 fs opts0 clk0 s_empty))) (kn 1 j) = None) /\
  (* whereas the same three Stores two calls earlier (before the second listing) survive *)
  (forall j, lookup (sto (snd (cleani env0 (map (fun f => (4%nat, f)) ob_fops) opts0 clk0 s_empty))) (kn 1 j) <> None).
Proof.
  cbn zeta. split; [intros i; vm_compute; reflexivity|]. split; [vm_compute; discriminate|].
  split; [intros []; vm_compute; reflexivity|]. split; [vm_compute; reflexivity|].
  split; intros []; vm_compute; try reflexivity; discriminate.
Qed.

(** the torn variant: Store key before the folder Delete, Store crt and meta after it (FileStorage's
    Store re-creates the folder): storeTx reports success, the private key is gone *)
Theorem save_torn_by_folder_delete_refuted :
  let fs := match ob_fops with [k; c; m] => [(6%nat, k); (7%nat, c); (7%nat, m)] | _ => [] end in
  let fin := sto (snd (cleani env0 fs opts0 clk0 s_empty)) in
  lookup fin (kn 1 I.KKey) = None /\ lookup fin (kn 1 I.KCrt) <> None /\ lookup fin (kn 1 I.KMeta) <> None.
Proof. cbn zeta. split; [vm_compute; reflexivity|]. split; vm_compute; discriminate. Qed.

(** the case the task asks about: an EXPIRED certificate (beyond the grace period) being renewed while
    the cleaner removes it.  The cleaner loads the old X.crt (call 4: expired), the renewal stores the
    new key, crt, meta and returns success, the cleaner deletes X.crt, X.key, X.json (calls 5-7) and
    then the folder: the fresh bundle is lost.  (C18_foreign_writer_refuted has the same window with
    one Store; here it is Issuance's storeTx.) *)
Definition s_dead : store :=
  [ (s2k "certificates", Dir); (s2k "certificates/iss", Dir); (s2k "certificates/iss/b", Dir);
    (kn 1 I.KCrt, File 9 (crt (Tn - 40 * day))); (kn 1 I.KKey, File 105 plain); (kn 1 I.KMeta, File 209 plain) ].
Theorem renew_expired_under_clean_refuted :
  let fs := map (fun f => (5%nat, f)) rn_fops in
  rn_fops = [FPut (kn 1 I.KKey) (File 100 plain); FPut (kn 1 I.KCrt) (File 0 (crt (Tn + 60 * day)));
             FPut (kn 1 I.KMeta) (File 200 plain)] /\
  (exists s evs th, I.run (I.init_state [rn_cfg] rn_sto) (nolabels 13) = Some (s, evs) /\
     I.thr s = [th] /\ I.tpc th = I.PDone I.ROk) /\
  fst (cleani env0 fs opts0 clk0 s_dead) = RNil /\
  (forall j, lookup (sto (snd (cleani env0 fs opts0 clk0 s_dead))) (kn 1 j) = None).
Proof.
  cbn zeta. split; [vm_compute; reflexivity|]. split.
  - do 3 eexists. split; [vm_compute; reflexivity|]. split; reflexivity.
  - split; [vm_compute; reflexivity|]. intros []; vm_compute; reflexivity.
Qed.

Lemma lookup_file_in s p v c : lookup s p = Some (File v c) -> In (p, File v c) s.
Proof.
  induction s as [|[k' n] r IH]; [discriminate|]. cbn [lookup]. destruct (seqb k' p) eqn:E.
  - apply seqb_eq in E. subst k'. intros H; injection H; intros ->. left. reflexivity.
  - intros H. right. exact (IH H).
Qed.

(** the hypotheses of [renewal_of_live_name_safe] are satisfiable and its conclusion is not vacuous: a
    forced renewal of the live name 2 whose three Stores fall between calls of a cleaning that is busy
    deleting the expired name 1: name 2 ends with the NEW certificate, name 1 is gone *)
Definition s_mixed : store :=
  [ (s2k "certificates", Dir); (s2k "certificates/iss", Dir); (s2k "certificates/iss/b", Dir); (s2k "certificates/iss/c", Dir);
    (kn 1 I.KCrt, File 9 (crt (Tn - 40 * day))); (kn 1 I.KKey, File 105 plain); (kn 1 I.KMeta, File 209 plain);
    (kn 2 I.KCrt, File 9 (crt (Tn + 5 * day))); (kn 2 I.KKey, File 105 plain); (kn 2 I.KMeta, File 209 plain) ].
Example ex_renewal_of_live_name :
  let fs := combine [4%nat; 6%nat; 12%nat] fr_fops in
  fr_fops = [FPut (kn 2 I.KKey) (File 100 plain); FPut (kn 2 I.KCrt) (File 0 (crt (Tn + 60 * day)));
             FPut (kn 2 I.KMeta) (File 200 plain)] /\
  (forall i f, In (i, f) fs -> save_op site0 clk0 opts0 2 f) /\
  (exists v c, lookup s_mixed (kn 2 I.KCrt) = Some (File v c) /\ Live clk0 opts0 c) /\
  (forall p, under p (kn 2 I.KCrt) = true -> forall v c, lookup s_mixed p <> Some (File v c)) /\
  lookup (sto (snd (cleani env0 fs opts0 clk0 s_mixed))) (kn 2 I.KCrt) = Some (File 0 (crt (Tn + 60 * day))) /\
  lookup (sto (snd (cleani env0 fs opts0 clk0 s_mixed))) (kn 2 I.KKey) = Some (File 100 plain) /\
  lookup (sto (snd (cleani env0 fs opts0 clk0 s_mixed))) (kn 1 I.KCrt) = None.
Proof.
  cbn zeta. assert (E : fr_fops = [FPut (kn 2 I.KKey) (File 100 plain); FPut (kn 2 I.KCrt) (File 0 (crt (Tn + 60 * day)));
             FPut (kn 2 I.KMeta) (File 200 plain)]) by (vm_compute; reflexivity).
  split; [exact E|]. rewrite E. split; [|split; [|split; [|split; [|split]]]].
  - intros i f [H|[H|[H|[]]]]; injection H as _ <-; left.
    + exists I.KKey, (File 100 plain). split; [reflexivity|discriminate].
    + exists I.KCrt, (File 0 (crt (Tn + 60 * day))). split; [reflexivity|]. intros _. do 2 eexists. split; [reflexivity|].
      intros k. vm_compute. reflexivity.
    + exists I.KMeta, (File 200 plain). split; [reflexivity|discriminate].
  - do 2 eexists. split; [vm_compute; reflexivity|]. intros k. vm_compute. reflexivity.
  - intros p Up v c L. apply lookup_file_in in L.
    assert (F : forallb (fun e => match snd e with File _ _ => negb (under (fst e) (kn 2 I.KCrt)) | Dir => true end) s_mixed = true)
      by (vm_compute; reflexivity).
    rewrite forallb_forall in F. specialize (F _ L). cbn [fst snd] in F. rewrite Up in F. discriminate.
  - vm_compute. reflexivity.
  - vm_compute. reflexivity.
  - vm_compute. reflexivity.
Qed.

(** * (i.d) the work calls of the LTS are made by the lock owner *)
Import CM.Issuance.Model CM.Issuance.Base.
Lemma tstep_other_locked t th s f b th' s' e :
  tstep t th s f b = Some (th', s', e) -> e_op e = OOther -> Model.locked (tpc th) = true.
Proof.
  intros H He. destruct th as [c p ? ? ? ? ? ? ? ? ?]. destruct p.
  all: tstep_full H; inv_some H; cbn in He; try discriminate He; reflexivity.
Qed.

(** every [OOther] event of the Issuance LTS (= a storage call of a cleaning body, by
    [clean_is_pclean_run]) is an event of a thread that owns its lock at that moment: C18's
    "every storage call of a cleaning lies between taking and releasing storage_clean", on the LTS *)
Theorem body_call_owns_lock : forall cs st s l s' e,
  reachable cs st s -> Model.step s l = Some (s', e) -> e_op e = OOther ->
  exists th, II.thread_at s (l_tid l) th /\ lks (Model.sh s) (c_lk (cfg th)) = Some (l_tid l).
Proof.
  intros cs st s l s' e Hr Hs He.
  destruct (step_inv _ _ _ _ Hs) as (th & th' & sh' & Hn & Ht & _).
  exists th. split; [exact Hn|]. apply (II.I_lock_reachable _ _ _ Hr _ _ Hn).
  exact (tstep_other_locked _ _ _ _ _ _ _ _ Ht He).
Qed.
