(** S8 / Task C — ACME account registration is modelled twice: Issuance's program [PAcct cb] (C09: the
    lock discipline of newACMEClientWithAccount) and [Account.Model] (C20: one account per CA and
    contact, registered once, persisted, reused).

    Part 1 (Issuance LTS): the fault-free transition table of a [PAcct] thread ([acct_tstep]); two
    [PAcct] threads with the same lock key are never both between LockAcquired and Unlock
    ([acct_exclusive]); along every fault-free run of any number of [PAcct] threads of one (lock key,
    account slot) from an empty slot AT MOST ONE newAccount request succeeds, and exactly one once
    some thread has returned ([one_new_account]).  This is the mutual exclusion that C20's
    "registered once" takes from its own atomic lock ([Account.Model.lock], invariant
    [Account.Proofs.I_lock]), discharged on the LTS whose lock is tied to FileStorage's lock files
    (System/LockRefine, LockCompose).
    Part 2: the two models agree on the overlap: an explicit translation of every operation of an
    Account thread (outside the recreate loop) into labels of an Issuance [PAcct] thread, with the same
    storage operations in the same order and related successor states ([account_op_simulated]). *)
From Coq Require Import List Bool Arith Lia.
From CM Require Import Issuance.Model Issuance.Base Issuance.Invariants.
From CM Require Account.Model Account.Proofs.
Import ListNotations.

Module A := CM.Account.Model.
Module AP := CM.Account.Proofs.

(** * Part 1: PAcct threads of the Issuance LTS *)

(** the pcs of a fault-free account registration *)
Definition apc (p : pc) : bool :=
  match p with
  | PQLd _ KMeta | PQLd _ KKey | PLockCall | PLockWait | PQCb | PQCa _ _ | PQSv KMeta | PQSv KKey
  | PUnlock _ | PDone _ => true
  | _ => false
  end.
Definition reg_start (cb : bool) : pc := if cb then PQCb else PQCa 1 0.

(** the fault-free transition table of a [PAcct cb] thread: successor pc, storage, operation *)
Definition TR (c : tcfg) (cb : bool) (p : pc) (sh : shared) (p' : pc) (sh' : shared) (e : ev) : Prop :=
  match p with
  | PQLd lk j =>
      sto sh' = sto sh /\ e_op e = OLoad (SK (c_vk c) j) /\
      p' = match sto sh (SK (c_vk c) j) with
           | None => if lk then reg_start cb else PLockCall
           | Some _ => match j with
                       | KMeta => PQLd lk KKey
                       | _ => if lk then PUnlock ROk else PDone ROk
                       end
           end
  | PLockCall => sto sh' = sto sh /\ p' = PLockWait /\ e_op e = OLock (c_lk c)
  | PLockWait => sto sh' = sto sh /\ p' = PQLd true KMeta /\ e_op e = OAcq (c_lk c) /\ lks sh (c_lk c) = None
  | PQCb => sto sh' = sto sh /\ p' = PQCa 1 0 /\ e_op e = OEmit 4
  | PQCa r a =>
      sto sh' = sto sh /\ e_op e = OCa r /\ e_out e = 0 /\
      p' = match r with 0 => PQCa 1 0 | 1 => PQCa 2 0 | _ => PQSv KMeta end
  | PQSv j =>
      sto sh' = sput (sto sh) (SK (c_vk c) j) (Some (match j with KMeta => VMeta 0 | _ => VKey 0 end)) /\
      e_op e = OStore (SK (c_vk c) j) /\ e_out e = 0 /\
      p' = match j with KMeta => PQSv KKey | _ => PUnlock ROk end
  | PUnlock r => sto sh' = sto sh /\ p' = PDone r /\ e_op e = OUnlock (c_lk c)
  | _ => False
  end.

Lemma acct_tstep t th sh b th' sh' e cb :
  c_prog (cfg th) = PAcct cb -> cur th = OpAcct -> canc th = false -> apc (tpc th) = true ->
  tstep t th sh FNone b = Some (th', sh', e) ->
  apc (tpc th') = true /\ canc th' = false /\ cur th' = OpAcct /\ cfg th' = cfg th /\
  TR (cfg th) cb (tpc th) sh (tpc th') sh' e.
Proof.
  intros Hp Hc Hk Ha H. destruct th as [c p cu ca fl ? ? ? ? ? ?]. cbn [cfg cur canc tpc] in *. subst cu ca.
  destruct p; try discriminate Ha.
  all: tstep_full H; inv_some H; cbn [cfg cur canc tpc TR apc sto]; try rewrite Hp in *; try discriminate;
    repeat match goal with
           | E : sto _ _ = _ |- _ => rewrite E
           | E : lks _ _ = _ |- _ => rewrite E
           end; cbn [apc reg_start]; auto 10.
  all: try (destruct cb; cbn; auto 10; fail).
  all: try (destruct j; try discriminate; cbn; auto 10; fail).
  all: inversion Hp; subst cb; cbn; auto 10.
Qed.

(** between LockAcquired and Unlock of the registration: reload, callback, CA requests, save *)
Definition registering (th : thread) : bool :=
  match tpc th with PQLd true _ | PQCb | PQCa _ _ | PQSv _ | PQRb => true | _ => false end.

(** at most one thread per lock key is inside the registration - in every reachable state, whatever
    the other threads, the schedule and the fault plan *)
Theorem acct_exclusive : forall cs st s t1 t2 th1 th2,
  reachable cs st s -> thread_at s t1 th1 -> thread_at s t2 th2 ->
  registering th1 = true -> registering th2 = true -> c_lk (cfg th1) = c_lk (cfg th2) -> t1 = t2.
Proof.
  intros cs st s t1 t2 th1 th2 Hr H1 H2 C1 C2 Hk.
  pose proof (I_lock_reachable _ _ _ Hr) as HI.
  assert (L1 : locked (tpc th1) = true) by (unfold registering in C1; destruct (tpc th1) as [| | | | | | | | | | | | | | | | | | | | | | | | | | | |[|] ?| | | | | ]; try discriminate; reflexivity).
  assert (L2 : locked (tpc th2) = true) by (unfold registering in C2; destruct (tpc th2) as [| | | | | | | | | | | | | | | | | | | | | | | | | | | |[|] ?| | | | | ]; try discriminate; reflexivity).
  pose proof (HI _ _ H1 L1) as O1. pose proof (HI _ _ H2 L2) as O2. rewrite Hk in O1. congruence.
Qed.

(** ** one successful newAccount per (lock key, account slot) *)
Section OneAccount.
  Variables lk vk : nat.
  Local Notation M s := (sto (sh s) (SK vk KMeta)).
  Local Notation K s := (sto (sh s) (SK vk KKey)).

  Definition saving (th : thread) : bool := match tpc th with PQSv _ => true | _ => false end.
  Definition prereg (th : thread) : bool := match tpc th with PQCb | PQCa _ _ => true | _ => false end.
  (** a newAccount request (request number 2 of the conversation) answered 2xx *)
  Definition is_newacct (e : ev) : bool :=
    match e_op e with OCa r => (2 <=? r) && (e_out e =? 0) | _ => false end.
  Definition count_new (es : list ev) : nat := length (filter is_newacct es).

  Definition tok (th : thread) : Prop :=
    (exists cb, c_prog (cfg th) = PAcct cb) /\ c_lk (cfg th) = lk /\ c_vk (cfg th) = vk /\
    cur th = OpAcct /\ canc th = false /\ apc (tpc th) = true.

  Record GI (s : state) (n : nat) : Prop := {
    g_thr : forall t th, thread_at s t th -> tok th;
    g_n : (n = 0 /\ (forall t th, thread_at s t th -> saving th = false) /\ (M s = None \/ K s = None)) \/
          (n = 1 /\ ((exists t th, thread_at s t th /\ saving th = true) \/ (M s <> None /\ K s <> None)));
    g_svm : forall t th, thread_at s t th -> tpc th = PQSv KMeta -> M s = None /\ K s = None;
    g_svk : forall t th, thread_at s t th -> tpc th = PQSv KKey -> M s <> None /\ K s = None;
    g_pre : forall t th, thread_at s t th -> prereg th = true -> M s = None /\ K s = None;
    g_both : (forall t th, thread_at s t th -> saving th = false) -> (M s = None <-> K s = None);
    g_done : forall t th r, thread_at s t th -> (tpc th = PUnlock r \/ tpc th = PDone r) ->
             r = ROk /\ M s <> None /\ K s <> None
  }.

  Section Step.
    Variables (s s' : state) (n : nat) (tid : nat) (th th' : thread).
    Hypotheses (HI : I_lock s) (HG : GI s n)
               (Hat : thread_at s tid th) (Hat' : thread_at s' tid th')
               (Hoth : forall t2 th2, t2 <> tid -> thread_at s t2 th2 -> thread_at s' t2 th2)
               (Hback : forall t2 th2, thread_at s' t2 th2 -> (t2 = tid /\ th2 = th') \/ (t2 <> tid /\ thread_at s t2 th2))
               (Htok' : tok th').

    Lemma excl t2 th2 : thread_at s t2 th2 -> locked (tpc th2) = true -> locked (tpc th) = true -> t2 = tid.
    Proof.
      intros H2 L2 L1. pose proof (HI _ _ H2 L2) as O2. pose proof (HI _ _ Hat L1) as O1.
      destruct (g_thr _ _ HG _ _ H2) as (_ & E2 & _). destruct (g_thr _ _ HG _ _ Hat) as (_ & E1 & _).
      rewrite E2 in O2. rewrite E1 in O1. congruence.
    Qed.
    Lemma saving_locked x : saving x = true -> locked (tpc x) = true.
    Proof. unfold saving. destruct (tpc x); try discriminate; reflexivity. Qed.
    Lemma prereg_locked x : prereg x = true -> locked (tpc x) = true.
    Proof. unfold prereg. destruct (tpc x); try discriminate; reflexivity. Qed.
    Lemma thr' t2 th2 : thread_at s' t2 th2 -> tok th2.
    Proof. intros H. destruct (Hback _ _ H) as [[-> ->]|[_ H0]]; [exact Htok'|exact (g_thr _ _ HG _ _ H0)]. Qed.

    (** no other thread is inside the lock while [th] is *)
    Lemma no_saver_but_me : locked (tpc th) = true -> forall t2 th2, thread_at s t2 th2 -> saving th2 = true -> t2 = tid.
    Proof. intros L t2 th2 H2 S2. exact (excl t2 th2 H2 (saving_locked _ S2) L). Qed.

    (** a step that neither stores nor enters / leaves the save *)
    Lemma step_neutral :
      sto (sh s') = sto (sh s) -> saving th = false -> saving th' = false ->
      (prereg th' = true -> M s = None /\ K s = None) ->
      (forall r, tpc th' = PUnlock r \/ tpc th' = PDone r -> r = ROk /\ M s <> None /\ K s <> None) ->
      GI s' n.
    Proof.
      intros Es S1 S2 Lp Ld. constructor; rewrite ?Es.
      - exact thr'.
      - destruct (g_n _ _ HG) as [(E0 & Hns & Hn)|(E1 & [(t2 & th2 & H2 & Hs2)|Hf])].
        + left. split; [exact E0|]. split; [|exact Hn]. intros t2 th2 H2.
          destruct (Hback _ _ H2) as [[-> ->]|[_ H0]]; [exact S2|exact (Hns _ _ H0)].
        + right. split; [exact E1|]. left. exists t2, th2. split; [|exact Hs2]. apply Hoth; [|exact H2].
          intros ->. unfold thread_at in *. rewrite Hat in H2. injection H2 as <-. congruence.
        + right. split; [exact E1|]. right. exact Hf.
      - intros t2 th2 H2 Hp. destruct (Hback _ _ H2) as [[-> ->]|[_ H0]]; [|exact (g_svm _ _ HG _ _ H0 Hp)].
        unfold saving in S2. rewrite Hp in S2. discriminate.
      - intros t2 th2 H2 Hp. destruct (Hback _ _ H2) as [[-> ->]|[_ H0]]; [|exact (g_svk _ _ HG _ _ H0 Hp)].
        unfold saving in S2. rewrite Hp in S2. discriminate.
      - intros t2 th2 H2 Hp. destruct (Hback _ _ H2) as [[-> ->]|[_ H0]]; [exact (Lp Hp)|exact (g_pre _ _ HG _ _ H0 Hp)].
      - intros Hall. apply (g_both _ _ HG). intros t2 th2 H2.
        destruct (Nat.eq_dec t2 tid) as [->|Hne].
        + unfold thread_at in *. rewrite Hat in H2. injection H2 as <-. exact S1.
        + exact (Hall _ _ (Hoth _ _ Hne H2)).
      - intros t2 th2 r H2 Hp. destruct (Hback _ _ H2) as [[-> ->]|[_ H0]]; [exact (Ld r Hp)|exact (g_done _ _ HG _ _ r H0 Hp)].
    Qed.

    (** the successful newAccount: from [PQCa r a], [2 <= r], to the save *)
    Lemma step_register :
      sto (sh s') = sto (sh s) -> prereg th = true -> tpc th' = PQSv KMeta -> n = 0 /\ GI s' 1.
    Proof.
      intros Es Pp Hp'. pose proof (prereg_locked _ Pp) as L.
      destruct (g_pre _ _ HG _ _ Hat Pp) as [Mn Kn].
      assert (Hnot : saving th = false) by (unfold prereg in Pp; unfold saving; destruct (tpc th); try discriminate; reflexivity).
      assert (E0 : n = 0).
      { destruct (g_n _ _ HG) as [(E0 & _)|(_ & [(t2 & th2 & H2 & Hs2)|[Hf _]])]; [exact E0| |contradiction].
        pose proof (no_saver_but_me L _ _ H2 Hs2) as ->. unfold thread_at in *. rewrite Hat in H2. injection H2 as <-. congruence. }
      split; [exact E0|]. constructor; rewrite ?Es.
      - exact thr'.
      - right. split; [reflexivity|]. left. exists tid, th'. split; [exact Hat'|]. unfold saving. rewrite Hp'. reflexivity.
      - intros t2 th2 H2 Hp. split; assumption.
      - intros t2 th2 H2 Hp. destruct (Hback _ _ H2) as [[-> ->]|[_ H0]]; [congruence|exact (g_svk _ _ HG _ _ H0 Hp)].
      - intros t2 th2 H2 Hp. split; assumption.
      - intros Hall. specialize (Hall _ _ Hat'). unfold saving in Hall. rewrite Hp' in Hall. discriminate.
      - intros t2 th2 r H2 Hp. destruct (Hback _ _ H2) as [[-> ->]|[_ H0]]; [|exact (g_done _ _ HG _ _ r H0 Hp)].
        rewrite Hp' in Hp. destruct Hp; discriminate.
    Qed.

    Lemma saver_n1 : saving th = true -> n = 1.
    Proof.
      intros S. destruct (g_n _ _ HG) as [(_ & Hns & _)|(E1 & _)]; [|exact E1].
      rewrite (Hns _ _ Hat) in S. discriminate.
    Qed.

    Lemma others_unlocked t2 th2 : locked (tpc th) = true -> thread_at s' t2 th2 -> t2 <> tid ->
      locked (tpc th2) = false.
    Proof.
      intros L H2 Hne. destruct (Hback _ _ H2) as [[-> _]|[_ H0]]; [contradiction|].
      destruct (locked (tpc th2)) eqn:L2; [|reflexivity]. exfalso. apply Hne. exact (excl _ _ H0 L2 L).
    Qed.

    (** Store registration *)
    Lemma step_store_reg v :
      sto (sh s') = sput (sto (sh s)) (SK vk KMeta) (Some v) -> tpc th = PQSv KMeta -> tpc th' = PQSv KKey -> GI s' n.
    Proof.
      intros Es Hp Hp'. assert (L : locked (tpc th) = true) by (rewrite Hp; reflexivity).
      assert (Sv : saving th = true) by (unfold saving; rewrite Hp; reflexivity).
      destruct (g_svm _ _ HG _ _ Hat Hp) as [Mn Kn].
      assert (EM : M s' = Some v) by (rewrite Es; apply sput_eq).
      assert (EK : K s' = None) by (rewrite Es, sput_neq; [exact Kn|discriminate]).
      constructor.
      - exact thr'.
      - right. split; [exact (saver_n1 Sv)|]. left. exists tid, th'. split; [exact Hat'|]. unfold saving. rewrite Hp'. reflexivity.
      - intros t2 th2 H2 Hq. exfalso. destruct (Nat.eq_dec t2 tid) as [->|Hne].
        + unfold thread_at in *. rewrite Hat' in H2. injection H2 as <-. congruence.
        + pose proof (others_unlocked _ _ L H2 Hne) as U. rewrite Hq in U. discriminate.
      - intros t2 th2 H2 Hq. rewrite EM, EK. split; [discriminate|reflexivity].
      - intros t2 th2 H2 Hq. exfalso. destruct (Nat.eq_dec t2 tid) as [->|Hne].
        + unfold thread_at in *. rewrite Hat' in H2. injection H2 as <-. unfold prereg in Hq. rewrite Hp' in Hq. discriminate.
        + pose proof (others_unlocked _ _ L H2 Hne) as U. rewrite (prereg_locked _ Hq) in U. discriminate.
      - intros Hall. specialize (Hall _ _ Hat'). unfold saving in Hall. rewrite Hp' in Hall. discriminate.
      - intros t2 th2 r H2 Hq. exfalso. destruct (Hback _ _ H2) as [[-> ->]|[_ H0]].
        + rewrite Hp' in Hq. destruct Hq; discriminate.
        + destruct (g_done _ _ HG _ _ r H0 Hq) as (_ & Mx & _). contradiction.
    Qed.

    (** Store key *)
    Lemma step_store_key v :
      sto (sh s') = sput (sto (sh s)) (SK vk KKey) (Some v) -> tpc th = PQSv KKey -> tpc th' = PUnlock ROk -> GI s' n.
    Proof.
      intros Es Hp Hp'. assert (L : locked (tpc th) = true) by (rewrite Hp; reflexivity).
      assert (Sv : saving th = true) by (unfold saving; rewrite Hp; reflexivity).
      destruct (g_svk _ _ HG _ _ Hat Hp) as [Mn Kn].
      assert (EM : M s' <> None) by (rewrite Es, sput_neq; [exact Mn|discriminate]).
      assert (EK : K s' <> None) by (rewrite Es, sput_eq; discriminate).
      constructor.
      - exact thr'.
      - right. split; [exact (saver_n1 Sv)|]. right. split; assumption.
      - intros t2 th2 H2 Hq. exfalso. destruct (Nat.eq_dec t2 tid) as [->|Hne].
        + unfold thread_at in *. rewrite Hat' in H2. injection H2 as <-. congruence.
        + pose proof (others_unlocked _ _ L H2 Hne) as U. rewrite Hq in U. discriminate.
      - intros t2 th2 H2 Hq. exfalso. destruct (Nat.eq_dec t2 tid) as [->|Hne].
        + unfold thread_at in *. rewrite Hat' in H2. injection H2 as <-. congruence.
        + pose proof (others_unlocked _ _ L H2 Hne) as U. rewrite Hq in U. discriminate.
      - intros t2 th2 H2 Hq. exfalso. destruct (Nat.eq_dec t2 tid) as [->|Hne].
        + unfold thread_at in *. rewrite Hat' in H2. injection H2 as <-. unfold prereg in Hq. rewrite Hp' in Hq. discriminate.
        + pose proof (others_unlocked _ _ L H2 Hne) as U. rewrite (prereg_locked _ Hq) in U. discriminate.
      - intros _. split; intros X; contradiction.
      - intros t2 th2 r H2 Hq. destruct (Hback _ _ H2) as [[-> ->]|[_ H0]].
        + rewrite Hp' in Hq. destruct Hq as [Hq|Hq]; [|discriminate]. injection Hq as <-. repeat split; assumption.
        + exfalso. destruct (g_done _ _ HG _ _ r H0 Hq) as (_ & _ & Kx). contradiction.
    Qed.
  End Step.

  Lemma GI_step s l s' e n : I_lock s -> GI s n -> l_fault l = FNone -> step s l = Some (s', e) ->
    GI s' (n + (if is_newacct e then 1 else 0)).
  Proof.
    intros HI HG Hf Hs.
    destruct (step_thread_same _ _ _ _ Hs) as (th & th' & Hat & Hts & Hat' & Hoth). rewrite Hf in Hts.
    assert (Hback : forall t2 th2, thread_at s' t2 th2 -> (t2 = l_tid l /\ th2 = th') \/ (t2 <> l_tid l /\ thread_at s t2 th2)).
    { intros t2 th2 H2. destruct (step_threads _ _ _ _ _ _ Hs H2) as (x & x' & Hx & Hxs & Hc).
      rewrite Hf in Hxs. unfold thread_at in *. rewrite Hat in Hx. injection Hx as <-. rewrite Hts in Hxs. injection Hxs as <-. exact Hc. }
    destruct (g_thr _ _ HG _ _ Hat) as ([cb Hp] & Hlk & Hvk & Hcu & Hca & Hapc).
    destruct (acct_tstep _ _ _ _ _ _ _ cb Hp Hcu Hca Hapc Hts) as (Hapc' & Hca' & Hcu' & Hcfg' & HTR).
    assert (Htok' : tok th') by (unfold tok; rewrite Hcfg'; repeat split; eauto).
    pose proof (step_neutral s s' n (l_tid l) th th' HG Hat Hoth Hback Htok') as SN.
    assert (Sv' : forall p, tpc th' = p -> (match p with PQSv _ => false | _ => true end) = true -> saving th' = false)
      by (intros p E Hm; unfold saving; rewrite E; destruct p; try reflexivity; discriminate).
    assert (NoSaver : locked (tpc th) = true -> saving th = false -> forall t2 th2, thread_at s t2 th2 -> saving th2 = false).
    { intros L S t2 th2 H2. destruct (saving th2) eqn:S2; [|reflexivity]. exfalso.
      pose proof (no_saver_but_me s n (l_tid l) th HI HG Hat L _ _ H2 S2) as ->.
      unfold thread_at in *. rewrite Hat in H2. injection H2 as <-. congruence. }
    assert (NoSaverK : K s <> None -> forall t2 th2, thread_at s t2 th2 -> saving th2 = false).
    { intros Kx t2 th2 H2. destruct (saving th2) eqn:S2; [|reflexivity]. exfalso. unfold saving in S2.
      destruct (g_thr _ _ HG _ _ H2) as (_ & _ & _ & _ & _ & Ha2).
      destruct (tpc th2) eqn:E2; try discriminate. destruct j; try discriminate.
      - destruct (g_svk _ _ HG _ _ H2 E2) as [_ X]. contradiction.
      - destruct (g_svm _ _ HG _ _ H2 E2) as [_ X]. contradiction. }
    destruct (tpc th) as [| | | | | | | | | | | | | | | | | | | | | | | | | | | |lkd j| |r a|j| |r] eqn:Epc; try discriminate Hapc; cbn [TR] in HTR; rewrite ?Hvk, ?Hlk in HTR.
    - (* PLockCall *)
      destruct HTR as (Es & Ep' & Eo). assert (En : is_newacct e = false) by (unfold is_newacct; rewrite Eo; reflexivity).
      rewrite En, Nat.add_0_r. apply SN; [exact Es|unfold saving; rewrite Epc; reflexivity|apply (Sv' _ Ep'); reflexivity| |].
      + unfold prereg. rewrite Ep'. discriminate.
      + intros r [X|X]; rewrite Ep' in X; discriminate.
    - (* PLockWait *)
      destruct HTR as (Es & Ep' & Eo & _). assert (En : is_newacct e = false) by (unfold is_newacct; rewrite Eo; reflexivity).
      rewrite En, Nat.add_0_r. apply SN; [exact Es|unfold saving; rewrite Epc; reflexivity|apply (Sv' _ Ep'); reflexivity| |].
      + unfold prereg. rewrite Ep'. discriminate.
      + intros r [X|X]; rewrite Ep' in X; discriminate.
    - (* PUnlock *)
      destruct HTR as (Es & Ep' & Eo). assert (En : is_newacct e = false) by (unfold is_newacct; rewrite Eo; reflexivity).
      rewrite En, Nat.add_0_r.
      apply SN; [exact Es|unfold saving; rewrite Epc; reflexivity|apply (Sv' _ Ep'); reflexivity| |].
      + unfold prereg. rewrite Ep'. discriminate.
      + intros r0 [X|X]; rewrite Ep' in X; [discriminate|]. injection X as <-.
        exact (g_done _ _ HG _ _ r Hat (or_introl Epc)).
    - (* PQLd *)
      destruct HTR as (Es & Eo & Ep'). assert (En : is_newacct e = false) by (unfold is_newacct; rewrite Eo; reflexivity).
      rewrite En, Nat.add_0_r.
      assert (S0 : saving th = false) by (unfold saving; rewrite Epc; reflexivity).
      destruct (sto (sh s) (SK vk j)) as [v|] eqn:Ej.
      + destruct j; try discriminate Hapc.
        * (* key present *)
          assert (Kx : K s <> None) by (rewrite Ej; discriminate).
          assert (Mx : M s <> None).
          { intros Mn. apply Kx. apply (g_both _ _ HG (NoSaverK Kx)). exact Mn. }
          apply SN; [exact Es|exact S0|destruct lkd; apply (Sv' _ Ep'); reflexivity| |].
          -- unfold prereg. rewrite Ep'. destruct lkd; discriminate.
          -- intros r [X|X]; rewrite Ep' in X; destruct lkd; try discriminate; injection X as <-; repeat split; assumption.
        * apply SN; [exact Es|exact S0|apply (Sv' _ Ep'); reflexivity| |].
          -- unfold prereg. rewrite Ep'. discriminate.
          -- intros r [X|X]; rewrite Ep' in X; discriminate.
      + destruct lkd.
        * (* absent under the lock: register *)
          assert (L : locked (PQLd true j) = true) by reflexivity.
          assert (Both : M s = None /\ K s = None).
          { pose proof (g_both _ _ HG (NoSaver L S0)) as [B1 B2].
            destruct j; try discriminate Hapc; [split; [apply B2|]; exact Ej|split; [|apply B1]; exact Ej]. }
          apply SN; [exact Es|exact S0|destruct cb; apply (Sv' _ Ep'); reflexivity|intros _; exact Both|].
          intros r [X|X]; rewrite Ep' in X; destruct cb; discriminate.
        * apply SN; [exact Es|exact S0|apply (Sv' _ Ep'); reflexivity| |].
          -- unfold prereg. rewrite Ep'. discriminate.
          -- intros r [X|X]; rewrite Ep' in X; discriminate.
    - (* PQCb *)
      destruct HTR as (Es & Ep' & Eo). assert (En : is_newacct e = false) by (unfold is_newacct; rewrite Eo; reflexivity).
      rewrite En, Nat.add_0_r.
      assert (Pp : prereg th = true) by (unfold prereg; rewrite Epc; reflexivity).
      apply SN; [exact Es|unfold saving; rewrite Epc; reflexivity|apply (Sv' _ Ep'); reflexivity| |].
      + intros _. exact (g_pre _ _ HG _ _ Hat Pp).
      + intros r0 [X|X]; rewrite Ep' in X; discriminate.
    - (* PQCa *)
      destruct HTR as (Es & Eo & Eout & Ep').
      assert (Pp : prereg th = true) by (unfold prereg; rewrite Epc; reflexivity).
      destruct r as [|[|r]].
      + assert (En : is_newacct e = false) by (unfold is_newacct; rewrite Eo; reflexivity). rewrite En, Nat.add_0_r.
        apply SN; [exact Es|unfold saving; rewrite Epc; reflexivity|apply (Sv' _ Ep'); reflexivity| |].
        * intros _. exact (g_pre _ _ HG _ _ Hat Pp).
        * intros r0 [X|X]; rewrite Ep' in X; discriminate.
      + assert (En : is_newacct e = false) by (unfold is_newacct; rewrite Eo; reflexivity). rewrite En, Nat.add_0_r.
        apply SN; [exact Es|unfold saving; rewrite Epc; reflexivity|apply (Sv' _ Ep'); reflexivity| |].
        * intros _. exact (g_pre _ _ HG _ _ Hat Pp).
        * intros r0 [X|X]; rewrite Ep' in X; discriminate.
      + assert (En : is_newacct e = true) by (unfold is_newacct; rewrite Eo, Eout; reflexivity). rewrite En.
        destruct (step_register s s' n (l_tid l) th th' HI HG Hat Hat' Hback Htok' Es Pp Ep') as [-> G1]. exact G1.
    - (* PQSv *)
      destruct HTR as (Es & Eo & _ & Ep'). assert (En : is_newacct e = false) by (unfold is_newacct; rewrite Eo; reflexivity).
      rewrite En, Nat.add_0_r. destruct j; try discriminate Hapc.
      + exact (step_store_key s s' n (l_tid l) th th' HI HG Hat Hat' Hback Htok' _ Es Epc Ep').
      + exact (step_store_reg s s' n (l_tid l) th th' HI HG Hat Hat' Hback Htok' _ Es Epc Ep').
    - (* PDone: no step *)
      exfalso. unfold tstep in Hts. cbn in Hts. destruct th as [c p ? ? ? ? ? ? ? ? ?]. cbn in *. subst p. cbn in Hts. discriminate.
  Qed.
End OneAccount.

Definition acct_cfg (lk vk : nat) (c : tcfg) : Prop :=
  (exists cb, c_prog c = PAcct cb) /\ c_lk c = lk /\ c_vk c = vk.
Definition nofault (s : state) (l : label) : Prop := l_fault l = FNone.

Lemma init_thread_at cs st t th : thread_at (init_state cs st) t th ->
  exists c, nth_error cs t = Some c /\ th = init_thread c.
Proof.
  unfold thread_at, init_state. cbn [thr]. rewrite nth_error_map.
  destruct (nth_error cs t) as [c|]; [|discriminate]. cbn. intros H; injection H as <-. eauto.
Qed.

Lemma GI_init lk vk cs st : (forall c, In c cs -> acct_cfg lk vk c) ->
  st (SK vk KMeta) = None -> st (SK vk KKey) = None -> GI lk vk (init_state cs st) 0.
Proof.
  intros Hcs Hm Hk.
  assert (Hth : forall t th, thread_at (init_state cs st) t th ->
            tpc th = PQLd false KMeta /\ tok lk vk th).
  { intros t th H. destruct (init_thread_at _ _ _ _ H) as (c & Hn & ->).
    destruct (Hcs c (nth_error_In _ _ Hn)) as ([cb Hp] & Hl & Hv).
    unfold init_thread, entry, tok. rewrite Hp. cbn. repeat split; eauto. }
  constructor; cbn [init_state sh sto].
  - intros t th H. exact (proj2 (Hth _ _ H)).
  - left. split; [reflexivity|]. split; [|left; exact Hm].
    intros t th H. unfold saving. rewrite (proj1 (Hth _ _ H)). reflexivity.
  - intros t th H Hp. rewrite (proj1 (Hth _ _ H)) in Hp. discriminate.
  - intros t th H Hp. rewrite (proj1 (Hth _ _ H)) in Hp. discriminate.
  - intros t th H Hp. unfold prereg in Hp. rewrite (proj1 (Hth _ _ H)) in Hp. discriminate.
  - intros _. rewrite Hm, Hk. split; reflexivity.
  - intros t th r H [Hp|Hp]; rewrite (proj1 (Hth _ _ H)) in Hp; discriminate.
Qed.

Lemma count_new_cons e es : count_new (e :: es) = (if is_newacct e then 1 else 0) + count_new es.
Proof. unfold count_new. cbn [filter]. destruct (is_newacct e); reflexivity. Qed.

Lemma GI_runs lk vk s0 es s : runs nofault s0 es s -> forall n, I_lock s0 -> GI lk vk s0 n ->
  I_lock s /\ GI lk vk s (n + count_new es).
Proof.
  intros R. induction R as [s|s l s1 e es s2 Hok Hs R IH]; intros n HI HG.
  - unfold count_new. cbn. rewrite Nat.add_0_r. split; assumption.
  - rewrite count_new_cons, Nat.add_assoc. apply IH.
    + eapply I_lock_step; eassumption.
    + eapply GI_step; eassumption.
Qed.

(** THE COMPOSITION on the Issuance LTS: any number of threads running newACMEClientWithAccount for one
    contact (lock key [lk]) and one CA (account slot [vk]), with or without NewAccountFunc, from
    storage without that account, under any schedule, no fault injected: at most one newAccount
    request is answered 2xx - the CA creates at most one account; and as soon as one of the calls has
    returned exactly one has been, the account is completely stored, and the call returned nil. *)
Theorem one_new_account : forall lk vk cs st es s,
  (forall c, In c cs -> acct_cfg lk vk c) ->
  st (SK vk KMeta) = None -> st (SK vk KKey) = None ->
  runs nofault (init_state cs st) es s ->
  count_new es <= 1 /\
  forall t th r, thread_at s t th -> tpc th = PDone r ->
    count_new es = 1 /\ r = ROk /\
    sto (sh s) (SK vk KMeta) <> None /\ sto (sh s) (SK vk KKey) <> None.
Proof.
  intros lk vk cs st es s Hcs Hm Hk R.
  destruct (GI_runs lk vk _ _ _ R 0 (I_lock_init cs st) (GI_init lk vk cs st Hcs Hm Hk)) as [_ HG].
  cbn [Nat.add] in HG. split.
  - destruct (g_n _ _ _ _ HG) as [(-> & _)|(-> & _)]; lia.
  - intros t th r Hat Hp. destruct (g_done _ _ _ _ HG t th r Hat (or_intror Hp)) as (-> & Mx & Kx).
    split; [|repeat split; assumption].
    destruct (g_n _ _ _ _ HG) as [(_ & _ & [X|X])|(E & _)]; [contradiction|contradiction|exact E].
Qed.

(** with a fault the bound is lost - as C20 says ([created <= 1 + fsaves + crashes + deletes]): the
    first instance's Store of the registration fails after its newAccount succeeded; the second
    instance registers again *)
Definition two_acct : list tcfg :=
  let c := {| c_prog := PAcct false; c_lk := 7; c_pk := 0; c_vk := 3; c_idn := 0;
              c_reuse := false; c_chk := false; c_force := false; c_issdue := false |} in [c; c].
Theorem one_new_account_needs_no_fault_refuted :
  exists ls s es, run (init_state two_acct (fun _ => None)) ls = Some (s, es) /\
    (forall c, In c two_acct -> acct_cfg 7 3 c) /\
    length (filter (fun l => negb (fault_eqb (l_fault l) FNone)) ls) = 1 /\
    count_new es = 2.
Proof.
  exists (map (fun x => Label (fst x) (snd x) false)
           [(0, FNone); (0, FNone); (0, FNone); (0, FNone); (0, FNone); (0, FNone); (0, FErr); (0, FNone);
            (1, FNone); (1, FNone); (1, FNone); (1, FNone); (1, FNone); (1, FNone)]).
  do 2 eexists. split; [vm_compute; reflexivity|]. split.
  - intros c [<-|[<-|[]]]; (split; [exists false; reflexivity|split; reflexivity]).
  - split; vm_compute; reflexivity.
Qed.

Example ex_two_instances_register_once :
  exists ls s es, run (init_state two_acct (fun _ => None)) ls = Some (s, es) /\
    Forall (fun l => l_fault l = FNone) ls /\ count_new es = 1 /\
    map tpc (thr s) = [PDone ROk; PDone ROk].
Proof.
  exists (map (fun t => Label t FNone false) [0; 1; 0; 1; 0; 0; 0; 0; 0; 0; 0; 1; 1; 1; 1]).
  do 2 eexists. split; [vm_compute; reflexivity|]. split; [repeat constructor|]. split; vm_compute; reflexivity.
Qed.

(** * Part 2: the two models agree on the overlap *)

(** The overlap: one call of newACMEClientWithAccount (non-interactive, no NewAccountFunc, no configured
    account key): Account.Model's pcs outside the order / recreate loop ([Order] is "the call has
    returned an account").  NOT in the overlap: [DelReg] / [DelKey] / the second attempt (only in
    Account.Model); [Crash] and [Reset] (only in Account.Model); the NewAccountFunc callback, context
    cancellation, panics, a failing Unlock, retries of a CA request (only in Issuance). *)
Definition acfg (lk c : nat) : tcfg :=
  {| c_prog := PAcct false; c_lk := lk; c_pk := 0; c_vk := c; c_idn := 0;
     c_reuse := false; c_chk := false; c_force := false; c_issdue := false |}.

(** the program points of Account.Model in the overlap, as a type of THIS file: everything else of
    [A.pc] (the order, the compare-and-delete path [DWantLock .. DUnlock] of f0aaa6b, whatever is
    added later) is outside by the catch-all of [classify] *)
Inductive ovk :=
| VLoadReg (lkd : bool) | VLoadKey (lkd : bool) (r : nat) | VWantLock | VRegister
| VStoreReg (a : nat) | VStoreKey (a : nat) | VRollback (a : nat) | VUnlock (res : option A.macct).
Definition classify (ap : A.pc) : option ovk :=
  match ap with
  | A.LoadReg l => Some (VLoadReg l) | A.LoadKey l r => Some (VLoadKey l r)
  | A.WantLock => Some VWantLock | A.Register => Some VRegister
  | A.StoreReg a => Some (VStoreReg a) | A.StoreKey a => Some (VStoreKey a)
  | A.Rollback a => Some (VRollback a) | A.Unlock res => Some (VUnlock res)
  | _ => None
  end.
Definition of_ovk (k : ovk) : A.pc :=
  match k with
  | VLoadReg l => A.LoadReg l | VLoadKey l r => A.LoadKey l r | VWantLock => A.WantLock | VRegister => A.Register
  | VStoreReg a => A.StoreReg a | VStoreKey a => A.StoreKey a | VRollback a => A.Rollback a | VUnlock res => A.Unlock res
  end.
Lemma classify_sound ap k : classify ap = Some k -> ap = of_ovk k.
Proof. destruct ap; cbn; intros H; try discriminate H; injection H as <-; reflexivity. Qed.
Definition overlap_pc (ap : A.pc) : bool := match classify ap with Some _ => true | None => false end.

Definition pc_rel (ap : A.pc) (p : pc) : Prop :=
  match ap with
  | A.Idle => p = PQLd false KMeta
  | A.LoadReg lkd => p = PQLd lkd KMeta
  | A.LoadKey lkd _ => p = PQLd lkd KKey
  | A.WantLock => p = PLockCall
  | A.Register => p = PQCa 1 0
  | A.StoreReg _ => p = PQSv KMeta
  | A.StoreKey _ => p = PQSv KKey
  | A.Rollback _ => p = PQRb
  | A.Unlock res => p = PUnlock (match res with Some _ => ROk | None => RErr end)
  | A.Order _ _ | A.Done (Some _) => p = PDone ROk
  | A.Done None => p = PDone RErr
  | _ => False
  end.

(** the explicit translation: what one operation of an Account thread is in Issuance labels
    (fault, choice bit) and which operations on the doubles it consists of *)
Definition op_labels (ap : A.pc) (fault : bool) : list (Model.fault * bool) :=
  match ap, fault with
  | A.WantLock, false => [(FNone, false); (FNone, false)]                  (* Lock call, acquisition *)
  | A.Register, false => [(FNone, false); (FNone, false)]                  (* newNonce, newAccount *)
  | A.Register, true => [(FNone, false); (FErr, false); (FErr, false); (FErr, false)]   (* newAccount fails: acmez tries 3 times *)
  | _, false => [(FNone, false)]
  | _, true => [(FErr, false)]
  end.
Definition op_ops (lk c : nat) (ap : A.pc) (fault : bool) : list op :=
  match ap with
  | A.LoadReg _ => [OLoad (SK c KMeta)]
  | A.LoadKey _ _ => [OLoad (SK c KKey)]
  | A.WantLock => if fault then [OLock lk] else [OLock lk; OAcq lk]
  | A.Register => if fault then [OCa 1; OCa 2; OCa 2; OCa 2] else [OCa 1; OCa 2]
  | A.StoreReg _ => [OStore (SK c KMeta)]
  | A.StoreKey _ => [OStore (SK c KKey)]
  | A.Rollback _ => [ODelete (SK c KMeta)]
  | A.Unlock _ => [OUnlock lk]
  | _ => []
  end.

Fixpoint tsteps (t : nat) (th : thread) (s : shared) (fl : list (Model.fault * bool)) : option (thread * shared * list ev) :=
  match fl with
  | [] => Some (th, s, [])
  | (f, b) :: r =>
      match tstep t th s f b with
      | Some (th1, s1, e) =>
          match tsteps t th1 s1 r with Some (th2, s2, es) => Some (th2, s2, e :: es) | None => None end
      | None => None
      end
  end.

(** the thread relation: an Issuance [PAcct false] thread of lock key [lk] and account slot = the
    Account thread's CA, at the related pc, context not cancelled *)
Definition Rth (lk : nat) (ath : A.thread) (th : thread) : Prop :=
  exists fl lkey lcrt nk nc seen rc p,
    th = {| cfg := acfg lk (A.t_ca ath); tpc := p; cur := OpAcct; canc := false; flt := fl; lkey := lkey; lcrt := lcrt; nk := nk; nc := nc; seen := seen; recd := rc |} /\ pc_rel (A.t_pc ath) p.

(** the shared state: a file exists iff the slot holds an account; the lock tables agree *)
Definition Rsto (sl : A.ca -> A.slot) (st : skey -> option value) : Prop :=
  forall c, isSome (st (SK c KMeta)) = A.has_reg (sl c) /\
            isSome (st (SK c KKey)) = isSome (A.s_key (sl c)).
Definition Rsh (lk : nat) (sA : A.state) (sh : shared) : Prop :=
  Rsto (A.slots sA) (sto sh) /\ lks sh lk = A.lock sA.

Lemma Rsto_put_reg sl st c a v : Rsto sl st ->
  Rsto (A.upd sl c (A.Slot (Some a) (A.s_key (sl c)))) (sput st (SK c KMeta) (Some v)).
Proof.
  intros H c2. destruct (H c2) as [H1 H2]. unfold A.upd. destruct (Nat.eqb_spec c2 c) as [->|Hne].
  - rewrite sput_eq. cbn. split; [reflexivity|]. rewrite sput_neq by discriminate. exact H2.
  - rewrite !sput_neq by congruence. split; assumption.
Qed.
Lemma Rsto_put_key sl st c a v : Rsto sl st ->
  Rsto (A.upd sl c (A.Slot (A.s_reg (sl c)) (Some a))) (sput st (SK c KKey) (Some v)).
Proof.
  intros H c2. destruct (H c2) as [H1 H2]. unfold A.upd. destruct (Nat.eqb_spec c2 c) as [->|Hne].
  - rewrite sput_eq. cbn. split; [|reflexivity]. rewrite sput_neq by discriminate. exact H1.
  - rewrite !sput_neq by congruence. split; assumption.
Qed.
Lemma Rsto_del_reg sl st c : Rsto sl st ->
  Rsto (A.upd sl c (A.Slot None (A.s_key (sl c)))) (sput st (SK c KMeta) None).
Proof.
  intros H c2. destruct (H c2) as [H1 H2]. unfold A.upd. destruct (Nat.eqb_spec c2 c) as [->|Hne].
  - rewrite sput_eq. cbn. split; [reflexivity|]. rewrite sput_neq by discriminate. exact H2.
  - rewrite !sput_neq by congruence. split; assumption.
Qed.

Lemma isSome_true {X} (o : option X) : isSome o = true -> exists v, o = Some v.
Proof. destruct o; [eauto|discriminate]. Qed.
Lemma isSome_false {X} (o : option X) : isSome o = false -> o = None.
Proof. destruct o; [discriminate|reflexivity]. Qed.

(** AGREEMENT (thread level): every operation of an Account thread in the overlap - with or without
    an injected fault - is matched by the Issuance thread taking the labels [op_labels]: it performs
    exactly the operations [op_ops] (same storage keys, same order: Load registration, Load key, Lock,
    Load registration, Load key, newAccount, Store registration, Store key, rollback Delete
    registration, Unlock), and the successor states are related again: same continuation (early
    return without a lock when both files exist; registration when the registration or only the key
    is missing), same effect on the files, same effect on the lock. *)
Ltac fin :=
  match goal with
  | Hself : forall s1 p1, _ -> exists ath, _, Mk : forall ath flx rcx p1, _ -> _ -> Rth _ ath _
    |- Rth _ (A.thr (A.set_pc ?s1 _ ?p1) _) _ =>
      let ath := fresh "ath" in let E1 := fresh "E1" in let E2 := fresh "E2" in
      destruct (Hself s1 p1 eq_refl) as (ath & <- & E1 & E2); apply Mk; [exact E1|rewrite E2; try reflexivity]
  end.

Theorem account_op_simulated : forall lk sA t f sA' th sh0,
  A.op_step sA t f = Some sA' -> overlap_pc (A.t_pc (A.thr sA t)) = true ->
  Rth lk (A.thr sA t) th -> Rsh lk sA sh0 ->
  (forall res, A.t_pc (A.thr sA t) = A.Unlock res -> A.lock sA = Some t) ->
  exists th' sh' evs,
    tsteps t th sh0 (op_labels (A.t_pc (A.thr sA t)) f) = Some (th', sh', evs) /\
    map e_op evs = op_ops lk (A.t_ca (A.thr sA t)) (A.t_pc (A.thr sA t)) f /\
    Rth lk (A.thr sA' t) th' /\ Rsh lk sA' sh' /\
    (forall t2, t2 <> t -> A.thr sA' t2 = A.thr sA t2).
Proof.
  intros lk sA t f sA' th sh0 Hop Hov (fl & lkey & lcrt & nk & nc & seen & rc & p & -> & Hpc) [Hsto Hlks] Hul.
  unfold A.op_step in Hop. set (c := A.t_ca (A.thr sA t)) in *.
  destruct (Hsto c) as [HM HK].
  assert (Hfr : forall s1 p1 t2, t2 <> t -> A.thr (A.set_pc s1 t p1) t2 = A.thr s1 t2)
    by (intros s1 p1 t2 Hne; cbn; apply AP.upd_neq; exact Hne).
  assert (Hself : forall s1 p1, A.t_ca (A.thr s1 t) = c -> exists ath, A.thr (A.set_pc s1 t p1) t = ath /\ A.t_ca ath = c /\ A.t_pc ath = p1)
    by (intros s1 p1 E; eexists; split; [reflexivity|]; cbn; rewrite AP.upd_eq; cbn; split; [exact E|reflexivity]).
  assert (Mk : forall ath flx rcx p1, A.t_ca ath = c -> pc_rel (A.t_pc ath) p1 ->
             Rth lk ath {| cfg := acfg lk c; tpc := p1; cur := OpAcct; canc := false; flt := flx; lkey := lkey; lcrt := lcrt; nk := nk; nc := nc; seen := seen; recd := rcx |}).
  { intros ath flx rcx p1 E R. exists flx, lkey, lcrt, nk, nc, seen, rcx, p1. rewrite E. split; [reflexivity|exact R]. }
  unfold overlap_pc in Hov. remember (A.t_pc (A.thr sA t)) as ap eqn:Eap in *.
  destruct (classify ap) as [kk|] eqn:Ec; [|discriminate Hov]. apply classify_sound in Ec.
  rewrite Ec in *. clear Ec. rename Eap into Epc. symmetry in Epc.
  destruct kk as [lkd|lkd r| | |a|a|a|res]; cbn [of_ovk] in *;
    cbn [pc_rel] in Hpc; subst p; cbn [op_labels op_ops tsteps].
  - (* LoadReg *)
    destruct f.
    + injection Hop as <-. destruct lkd; do 3 eexists; (split; [reflexivity|]); (split; [reflexivity|]);
        (split; [|split; [split; assumption|intros t2 Hne; apply Hfr; exact Hne]]);
        fin.
    + destruct (A.s_reg (A.slots sA c)) as [r|] eqn:Er.
      * injection Hop as <-. unfold A.has_reg in HM. rewrite Er in HM. destruct (isSome_true _ HM) as [v Ev].
        unfold tstep. cbn -[sto A.set_pc A.thr]. cbn [cfg c_vk acfg]. rewrite Ev. cbn -[A.set_pc A.thr].
        do 3 eexists. split; [reflexivity|]. split; [reflexivity|].
        split; [|split; [split; assumption|intros t2 Hne; apply Hfr; exact Hne]].
        fin.
      * injection Hop as <-. unfold A.has_reg in HM. rewrite Er in HM. pose proof (isSome_false _ HM) as Ev.
        unfold tstep. cbn -[sto A.set_pc A.thr]. cbn [cfg c_vk acfg]. rewrite Ev. cbn -[A.set_pc A.thr].
        destruct lkd; do 3 eexists; (split; [reflexivity|]); (split; [reflexivity|]);
          (split; [|split; [split; assumption|intros t2 Hne; apply Hfr; exact Hne]]);
          fin.
  - (* LoadKey *)
    destruct f.
    + injection Hop as <-. destruct lkd; do 3 eexists; (split; [reflexivity|]); (split; [reflexivity|]);
        (split; [|split; [split; assumption|intros t2 Hne; apply Hfr; exact Hne]]);
        fin.
    + destruct (A.s_key (A.slots sA c)) as [k|] eqn:Ek.
      * injection Hop as <-. cbn [isSome] in HK. destruct (isSome_true _ HK) as [v Ev].
        unfold tstep. cbn -[sto A.set_pc A.thr]. cbn [cfg c_vk acfg]. rewrite Ev. cbn -[A.set_pc A.thr].
        destruct lkd; do 3 eexists; (split; [reflexivity|]); (split; [reflexivity|]);
          (split; [|split; [split; assumption|intros t2 Hne; apply Hfr; exact Hne]]);
          fin.
      * injection Hop as <-. cbn [isSome] in HK. pose proof (isSome_false _ HK) as Ev.
        unfold tstep. cbn -[sto A.set_pc A.thr]. cbn [cfg c_vk acfg]. rewrite Ev. cbn -[A.set_pc A.thr].
        destruct lkd; do 3 eexists; (split; [reflexivity|]); (split; [reflexivity|]);
          (split; [|split; [split; assumption|intros t2 Hne; apply Hfr; exact Hne]]);
          fin.
  - (* WantLock *)
    destruct f.
    + injection Hop as <-. do 3 eexists. split; [reflexivity|]. split; [reflexivity|].
      split; [|split; [split; assumption|intros t2 Hne; apply Hfr; exact Hne]].
      fin.
    + destruct (A.lock sA) eqn:El; [discriminate|]. injection Hop as <-.
      unfold tstep. cbn -[lks lput A.set_pc A.thr A.set_lock]. cbn [cfg c_lk acfg]. rewrite Hlks. cbn -[lput A.set_pc A.thr A.set_lock].
      do 3 eexists. split; [reflexivity|]. split; [reflexivity|].
      split; [|split; [split; [exact Hsto|cbn [sh lks with_lks A.lock A.set_pc A.set_lock]; apply lput_eq]|
                       intros t2 Hne; rewrite Hfr by exact Hne; reflexivity]].
      fin.
  - (* Register *)
    destruct f; injection Hop as <-.
    + do 3 eexists. split; [reflexivity|]. split; [reflexivity|].
      split; [|split; [split; assumption|intros t2 Hne; apply Hfr; exact Hne]].
      fin.
    + do 3 eexists. split; [reflexivity|]. split; [reflexivity|].
      split; [|split; [split; assumption|intros t2 Hne; rewrite Hfr by exact Hne; reflexivity]].
      fin.
  - (* StoreReg *)
    destruct f; injection Hop as <-.
    + do 3 eexists. split; [reflexivity|]. split; [reflexivity|].
      split; [|split; [split; assumption|intros t2 Hne; rewrite Hfr by exact Hne; reflexivity]].
      fin.
    + do 3 eexists. split; [reflexivity|]. split; [reflexivity|].
      split; [|split; [split; [cbn [sh sto with_sto A.slots A.set_pc A.set_slot]; apply Rsto_put_reg; exact Hsto|exact Hlks]|
                       intros t2 Hne; rewrite Hfr by exact Hne; reflexivity]].
      fin.
  - (* StoreKey *)
    destruct f; injection Hop as <-.
    + do 3 eexists. split; [reflexivity|]. split; [reflexivity|].
      split; [|split; [split; assumption|intros t2 Hne; rewrite Hfr by exact Hne; reflexivity]].
      fin.
    + do 3 eexists. split; [reflexivity|]. split; [reflexivity|].
      split; [|split; [split; [cbn [sh sto with_sto A.slots A.set_pc A.set_slot]; apply Rsto_put_key; exact Hsto|exact Hlks]|
                       intros t2 Hne; rewrite Hfr by exact Hne; reflexivity]].
      fin.
  - (* Rollback *)
    destruct f; injection Hop as <-.
    + do 3 eexists. split; [reflexivity|]. split; [reflexivity|].
      split; [|split; [split; assumption|intros t2 Hne; apply Hfr; exact Hne]].
      fin.
    + do 3 eexists. split; [reflexivity|]. split; [reflexivity|].
      split; [|split; [split; [cbn [sh sto with_sto A.slots A.set_pc A.set_slot]; apply Rsto_del_reg; exact Hsto|exact Hlks]|
                       intros t2 Hne; rewrite Hfr by exact Hne; reflexivity]].
      fin.
  - (* Unlock *)
    destruct f; injection Hop as <-.
    { (* a failed Unlock is logged and ignored by both models: the thread goes on, the lock stays *)
      do 3 eexists. split; [reflexivity|]. split; [reflexivity|].
      split; [|split; [split; assumption|intros t2 Hne; apply Hfr; exact Hne]].
      fin. destruct res; reflexivity. }
    pose proof (Hul res eq_refl) as Hl.
    unfold tstep. cbn -[lks lput A.set_pc A.thr A.set_lock]. cbn [cfg c_lk acfg]. rewrite Hlks, Hl. cbn -[lput A.set_pc A.thr A.set_lock]. rewrite Nat.eqb_refl. cbn -[lput A.set_pc A.thr A.set_lock].
    do 3 eexists. split; [reflexivity|]. split; [reflexivity|].
    split; [|split; [split; [exact Hsto|cbn [sh lks with_lks A.lock A.set_pc A.set_lock]; apply lput_eq]|
                     intros t2 Hne; rewrite Hfr by exact Hne; reflexivity]].
    fin. destruct res; reflexivity.
Qed.

(** ** the same for whole states: every step of Account.Model in the overlap is a run of the Issuance LTS *)

Lemma upd_same {X} (l : list X) t x : nth_error l t = Some x -> upd l t x = l.
Proof.
  revert t. induction l as [|y l IH]; intros [|t] H; cbn in *; try discriminate.
  - injection H as ->. reflexivity.
  - rewrite IH by exact H. reflexivity.
Qed.
Lemma upd_upd {X} (l : list X) t x y : upd (upd l t x) t y = upd l t y.
Proof. revert t. induction l as [|z l IH]; intros [|t]; cbn; try reflexivity. rewrite IH. reflexivity. Qed.

Lemma tsteps_run fl : forall s t th th' sh' evs, nth_error (thr s) t = Some th ->
  tsteps t th (sh s) fl = Some (th', sh', evs) ->
  run s (map (fun x => Label t (fst x) (snd x)) fl) = Some (State (upd (thr s) t th') sh', evs).
Proof.
  induction fl as [|[f b] r IH]; intros s t th th' sh' evs Hn H.
  - cbn in H. injection H as <- <- <-. cbn. rewrite (upd_same _ _ _ Hn). destruct s; reflexivity.
  - cbn [tsteps] in H. destruct (tstep t th (sh s) f b) as [[[th1 s1] e]|] eqn:T; [|discriminate].
    destruct (tsteps t th1 s1 r) as [[[th2 s2] es]|] eqn:R; [|discriminate]. injection H as <- <- <-.
    cbn [map run fst snd]. unfold step. cbn [l_tid l_fault l_bit]. rewrite Hn, T.
    assert (Hlt : t < length (thr s)) by (apply nth_error_Some; congruence).
    rewrite (IH (State (upd (thr s) t th1) s1) t th1 th2 s2 es); [|cbn; apply nth_upd_eq; exact Hlt|exact R].
    cbn [thr]. rewrite upd_upd. reflexivity.
Qed.

(** a thread of Issuance stands for an Account thread: idle threads have not chosen their CA yet *)
Definition RthG (lk : nat) (ath : A.thread) (th : thread) : Prop :=
  exists c, (A.t_pc ath <> A.Idle -> c = A.t_ca ath) /\
    exists fl lkey lcrt nk nc seen rc p,
      th = {| cfg := acfg lk c; tpc := p; cur := OpAcct; canc := false; flt := fl; lkey := lkey; lcrt := lcrt; nk := nk; nc := nc; seen := seen; recd := rc |} /\ pc_rel (A.t_pc ath) p.
Definition RelG (lk : nat) (sA : A.state) (sI : state) : Prop :=
  (forall t th, nth_error (thr sI) t = Some th -> RthG lk (A.thr sA t) th) /\ Rsh lk sA (sh sI).

Lemma RelG_init lk cs st : (forall c, In c cs -> exists ca, c = acfg lk ca) ->
  (forall k, st k = None) -> RelG lk A.init (init_state cs st).
Proof.
  intros Hcs Hst. split.
  - intros t th H. destruct (init_thread_at _ _ _ _ H) as (c & Hn & ->).
    destruct (Hcs c (nth_error_In _ _ Hn)) as [ca ->]. exists ca. split; [intros X; exfalso; apply X; reflexivity|].
    do 8 eexists. split; reflexivity.
  - split; [|reflexivity]. intros c. cbn. rewrite !Hst. split; reflexivity.
Qed.

Lemma tsteps_cfg fl : forall t th sh th' sh' evs, tsteps t th sh fl = Some (th', sh', evs) -> cfg th' = cfg th.
Proof.
  induction fl as [|[f b] r IH]; intros t th sh th' sh' evs H.
  - cbn in H. injection H as <- _ _. reflexivity.
  - cbn [tsteps] in H. destruct (tstep t th sh f b) as [[[th1 s1] e]|] eqn:T; [|discriminate].
    destruct (tsteps t th1 s1 r) as [[[th2 s2] es]|] eqn:R; [|discriminate]. injection H as <- _ _.
    rewrite (IH _ _ _ _ _ _ R). exact (tstep_cfg _ _ _ _ _ _ _ _ T).
Qed.

(** the CAs of the calls ([cas]: thread t is a call for CA [nth t cas]) are fixed by the thread set *)
Definition cas_of (sI : state) : list nat := map (fun th => c_vk (cfg th)) (thr sI).
Lemma cas_of_upd sI t th th' sh' : nth_error (thr sI) t = Some th -> cfg th' = cfg th ->
  cas_of (State (upd (thr sI) t th') sh') = cas_of sI.
Proof.
  intros Hn Hc. unfold cas_of. cbn [thr]. revert t Hn. induction (thr sI) as [|x l IH]; intros [|t] Hn; cbn in *; try discriminate.
  - injection Hn as ->. rewrite Hc. reflexivity.
  - rewrite (IH t Hn). reflexivity.
Qed.

(** which labels of Account.Model are in the overlap *)
Definition overlap_label (sA : A.state) (sI : state) (l : A.label) : Prop :=
  (exists t c th, l = A.Start t c /\ nth_error (thr sI) t = Some th /\ c_vk (cfg th) = c) \/
  (exists t f th, l = A.Op t f /\ overlap_pc (A.t_pc (A.thr sA t)) = true /\ nth_error (thr sI) t = Some th).
Definition label_ops (lk : nat) (sA : A.state) (l : A.label) : list op :=
  match l with
  | A.Op t f => op_ops lk (A.t_ca (A.thr sA t)) (A.t_pc (A.thr sA t)) f
  | _ => []
  end.

(** AGREEMENT (state level): from related states, every step of Account.Model in the overlap - the
    start of a call, or an operation of a call with or without an injected fault, of any thread, in
    any interleaving - is answered by a run of the Issuance LTS that performs exactly the translated
    operations and ends in a related state.  [AP.I_lock] (C20's own lock invariant, true in every
    reachable state of Account.Model) is what makes Issuance's owner check at Unlock succeed. *)
Theorem account_step_simulated : forall lk sA sI l sA',
  RelG lk sA sI -> AP.I_lock sA -> overlap_label sA sI l -> A.step sA l = Some sA' ->
  exists ls sI' evs, run sI ls = Some (sI', evs) /\ map e_op evs = label_ops lk sA l /\ RelG lk sA' sI' /\
    cas_of sI' = cas_of sI.
Proof.
  intros lk sA sI l sA' [Hthr Hsh] HIl Hov Hs.
  destruct Hov as [(t & c & th & -> & Hn & Hc)|(t & f & th & -> & Hovp & Hn)].
  - (* Start: a stutter step *)
    cbn [A.step] in Hs.
    destruct (A.is_idle (A.t_pc (A.thr sA t))) eqn:Ei; [|discriminate]. injection Hs as <-.
    exists [], sI, []. split; [reflexivity|]. split; [reflexivity|]. split; [|reflexivity]. split; [|exact Hsh].
    intros t2 th2 H2. cbn [A.thr]. unfold A.upd. destruct (Nat.eqb_spec t2 t) as [->|Hne]; [|exact (Hthr _ _ H2)].
    rewrite Hn in H2. injection H2 as <-.
    destruct (Hthr _ _ Hn) as (c0 & _ & flx & lkey & lcrt & nk & nc & seen & rc & p & -> & Hp).
    cbn [cfg c_vk acfg] in Hc. subst c0. exists c. split; [reflexivity|].
    do 8 eexists. split; [reflexivity|]. destruct (A.t_pc (A.thr sA t)); try discriminate Ei. exact Hp.
  - (* Op *)
    cbn [A.step] in Hs.
    destruct (Hthr _ _ Hn) as (c0 & Hc0 & flx & lkey & lcrt & nk & nc & seen & rc & p & -> & Hp).
    assert (Hni : A.t_pc (A.thr sA t) <> A.Idle) by (intros E; rewrite E in Hovp; discriminate).
    rewrite (Hc0 Hni) in Hn.
    assert (HR : Rth lk (A.thr sA t) {| cfg := acfg lk (A.t_ca (A.thr sA t)); tpc := p; cur := OpAcct; canc := false; flt := flx; lkey := lkey; lcrt := lcrt; nk := nk; nc := nc; seen := seen; recd := rc |})
      by (do 8 eexists; split; [reflexivity|exact Hp]).
    assert (Hul : forall res, A.t_pc (A.thr sA t) = A.Unlock res -> A.lock sA = Some t).
    { intros res E. apply HIl. rewrite E. reflexivity. }
    destruct (account_op_simulated lk sA t f sA' _ (sh sI) Hs Hovp HR Hsh Hul) as (th' & sh' & evs & Hts & Hops & HR' & Hsh' & Hfr).
    exists (map (fun x => Label t (fst x) (snd x)) (op_labels (A.t_pc (A.thr sA t)) f)), (State (upd (thr sI) t th') sh'), evs.
    split; [exact (tsteps_run _ sI t _ th' sh' evs Hn Hts)|]. split; [exact Hops|].
    split; [|apply (cas_of_upd sI t _ th' sh' Hn); exact (tsteps_cfg _ _ _ _ _ _ _ Hts)]. split; [|exact Hsh'].
    intros t2 th2 H2. cbn [thr] in H2. destruct (Nat.eq_dec t2 t) as [->|Hne].
    + rewrite nth_upd_eq in H2 by (apply nth_error_Some; congruence). injection H2 as <-.
      exists (A.t_ca (A.thr sA' t)). split; [reflexivity|]. exact HR'.
    + rewrite nth_upd_neq in H2 by congruence. rewrite (Hfr t2 Hne). exact (Hthr _ _ H2).
Qed.

(** the hypotheses are satisfiable: two instances for CA 3 under lock key 7; the first call starts;
    (a longer history, with a fault: [ex_account_history] below) *)
Example ex_account_simulated :
  let sI0 := init_state [acfg 7 3; acfg 7 3] (fun _ => None) in
  RelG 7 A.init sI0 /\ AP.I_lock A.init /\ overlap_label A.init sI0 (A.Start 0 3) /\
  exists sA1 ls sI1 evs, A.step A.init (A.Start 0 3) = Some sA1 /\ run sI0 ls = Some (sI1, evs) /\
    RelG 7 sA1 sI1 /\ A.t_pc (A.thr sA1 0) = A.LoadReg false.
Proof.
  cbn zeta.
  assert (R0 : RelG 7 A.init (init_state [acfg 7 3; acfg 7 3] (fun _ => None))).
  { apply RelG_init; [|reflexivity]. intros c [<-|[<-|[]]]; exists 3; reflexivity. }
  assert (I0 : AP.I_lock A.init) by (intros t H; discriminate).
  assert (O0 : overlap_label A.init (init_state [acfg 7 3; acfg 7 3] (fun _ => None)) (A.Start 0 3)).
  { left. exists 0, 3. eexists. split; [reflexivity|]. split; reflexivity. }
  split; [exact R0|]. split; [exact I0|]. split; [exact O0|].
  destruct (A.step A.init (A.Start 0 3)) as [sA1|] eqn:S1; [|discriminate].
  destruct (account_step_simulated 7 _ _ _ _ R0 I0 O0 S1) as (ls & sI1 & evs & Hr & _ & R1 & _).
  exists sA1, ls, sI1, evs. split; [reflexivity|]. split; [exact Hr|]. split; [exact R1|].
  cbn in S1. injection S1 as <-. reflexivity.
Qed.

(** ** whole histories *)
Lemma run_app_some l1 : forall s s1 e1 l2 s2 e2, run s l1 = Some (s1, e1) -> run s1 l2 = Some (s2, e2) ->
  run s (l1 ++ l2) = Some (s2, e1 ++ e2).
Proof.
  induction l1 as [|l r IH]; intros s s1 e1 l2 s2 e2 H1 H2.
  - cbn in H1. injection H1 as <- <-. exact H2.
  - cbn [run app] in *. destruct (step s l) as [[sx e]|]; [|discriminate].
    destruct (run sx r) as [[sy es]|] eqn:R; [|discriminate]. injection H1 as <- <-.
    rewrite (IH _ _ _ _ _ _ R H2). reflexivity.
Qed.

Definition overlapS (cas : list nat) (sA : A.state) (l : A.label) : Prop :=
  (exists t c, l = A.Start t c /\ nth_error cas t = Some c) \/
  (exists t f, l = A.Op t f /\ overlap_pc (A.t_pc (A.thr sA t)) = true /\ t < length cas).
Fixpoint ovrun (cas : list nat) (sA : A.state) (ls : list A.label) : Prop :=
  match ls with
  | [] => True
  | l :: r => overlapS cas sA l /\ match A.step sA l with Some s1 => ovrun cas s1 r | None => True end
  end.
Fixpoint run_ops (lk : nat) (sA : A.state) (ls : list A.label) : list op :=
  match ls with
  | [] => []
  | l :: r => label_ops lk sA l ++ match A.step sA l with Some s1 => run_ops lk s1 r | None => [] end
  end.

Lemma overlapS_label cas sA sI l : cas_of sI = cas -> overlapS cas sA l -> overlap_label sA sI l.
Proof.
  intros Hc [(t & c & -> & Ho)|(t & f & -> & Hp & Hl)].
  - left. rewrite <- Hc in Ho. unfold cas_of in Ho. rewrite nth_error_map in Ho.
    destruct (nth_error (thr sI) t) as [th|] eqn:E; [|discriminate]. cbn in Ho. injection Ho as Ho. exists t, c, th. auto.
  - right. rewrite <- Hc in Hl. unfold cas_of in Hl. rewrite map_length in Hl.
    destruct (nth_error (thr sI) t) as [th|] eqn:E; [exists t, f, th; auto|]. apply nth_error_None in E. lia.
Qed.

(** AGREEMENT (history level): every history of Account.Model that stays in the overlap (calls of
    newACMEClientWithAccount by any number of threads, in any interleaving, with any faults) is a run
    of the Issuance LTS performing the translated operations; related states at the end *)
Theorem account_run_simulated : forall lk cas ls sA sI sA',
  RelG lk sA sI -> cas_of sI = cas -> AP.I_lock sA -> ovrun cas sA ls -> A.run sA ls = Some sA' ->
  exists lsI sI' evs, run sI lsI = Some (sI', evs) /\ map e_op evs = run_ops lk sA ls /\
    RelG lk sA' sI' /\ cas_of sI' = cas /\ AP.I_lock sA'.
Proof.
  intros lk cas ls. induction ls as [|l r IH]; intros sA sI sA' HR Hc HI Hov Hrun.
  - cbn in Hrun. injection Hrun as <-. exists [], sI, [].
    split; [reflexivity|split; [reflexivity|split; [exact HR|split; [exact Hc|exact HI]]]].
  - cbn [A.run] in Hrun. cbn [ovrun run_ops] in *. destruct Hov as [Ho Hov].
    destruct (A.step sA l) as [s1|] eqn:S; [|discriminate].
    pose proof (overlapS_label cas sA sI l Hc Ho) as Hol.
    destruct (account_step_simulated lk sA sI l s1 HR HI Hol S) as (ls1 & sI1 & evs1 & H1 & H2 & H3 & H4').
    assert (H4 : cas_of sI1 = cas) by (rewrite H4'; exact Hc).
    pose proof (AP.I_lock_step _ _ _ HI S) as HI1.
    destruct (IH s1 sI1 sA' H3 H4 HI1 Hov Hrun) as (ls2 & sI2 & evs2 & G1 & G2 & G3 & G4 & G5).
    exists (ls1 ++ ls2), sI2, (evs1 ++ evs2). split; [exact (run_app_some _ _ _ _ _ _ _ H1 G1)|].
    split; [rewrite map_app, H2, G2; reflexivity|]. split; [exact G3|split; [exact G4|exact G5]].
Qed.

(** a checker for [ovrun] (used by the example) *)
Definition overlapSb (cas : list nat) (sA : A.state) (l : A.label) : bool :=
  match l with
  | A.Start t c => match nth_error cas t with Some c' => Nat.eqb c' c | None => false end
  | A.Op t f => overlap_pc (A.t_pc (A.thr sA t)) && (t <? length cas)
  | _ => false
  end.
Fixpoint ovrunb (cas : list nat) (sA : A.state) (ls : list A.label) : bool :=
  match ls with
  | [] => true
  | l :: r => overlapSb cas sA l && match A.step sA l with Some s1 => ovrunb cas s1 r | None => true end
  end.
Lemma overlapSb_sound cas sA l : overlapSb cas sA l = true -> overlapS cas sA l.
Proof.
  unfold overlapSb. destruct l; intros H; try discriminate H.
  - left. do 2 eexists. split; [reflexivity|]. destruct (nth_error cas _) as [c'|]; [|discriminate H].
    apply Nat.eqb_eq in H. subst. reflexivity.
  - right. do 2 eexists. split; [reflexivity|]. apply andb_true_iff in H. destruct H as [H1 H2].
    split; [exact H1|apply Nat.ltb_lt; exact H2].
Qed.
Lemma ovrunb_sound cas ls : forall sA, ovrunb cas sA ls = true -> ovrun cas sA ls.
Proof.
  induction ls as [|l r IH]; intros sA H; [exact I|]. cbn [ovrunb ovrun] in *.
  apply andb_true_iff in H. destruct H as [H1 H2]. split; [apply overlapSb_sound; exact H1|].
  destruct (A.step sA l); [apply IH; exact H2|exact I].
Qed.

Example ex_account_history :
  let ls := [A.Start 0 3; A.Op 0 false; A.Start 1 3; A.Op 0 false; A.Op 1 false; A.Op 0 false; A.Op 0 false;
             A.Op 0 true; A.Op 0 false; A.Op 1 false; A.Op 1 false; A.Op 1 false] in
  let sI0 := init_state [acfg 7 3; acfg 7 3] (fun _ => None) in
  ovrun [3; 3] A.init ls /\ cas_of sI0 = [3; 3] /\
  run_ops 7 A.init ls =
    [OLoad (SK 3 KMeta); OLock 7; OAcq 7; OLoad (SK 3 KMeta); OLoad (SK 3 KMeta); OCa 1; OCa 2;
     OStore (SK 3 KMeta); OUnlock 7; OLock 7; OAcq 7; OLoad (SK 3 KMeta); OCa 1; OCa 2] /\
  exists sA' lsI sI' evs, A.run A.init ls = Some sA' /\ run sI0 lsI = Some (sI', evs) /\
    map e_op evs = run_ops 7 A.init ls /\ RelG 7 sA' sI' /\ A.created sA' 3 = 2.
Proof.
  cbn zeta.
  assert (Ov : ovrun [3; 3] A.init [A.Start 0 3; A.Op 0 false; A.Start 1 3; A.Op 0 false; A.Op 1 false; A.Op 0 false; A.Op 0 false;
             A.Op 0 true; A.Op 0 false; A.Op 1 false; A.Op 1 false; A.Op 1 false]).
  { apply ovrunb_sound. vm_compute. reflexivity. }
  split; [exact Ov|]. split; [reflexivity|]. split; [vm_compute; reflexivity|].
  assert (R0 : RelG 7 A.init (init_state [acfg 7 3; acfg 7 3] (fun _ => None))).
  { apply RelG_init; [|reflexivity]. intros c [<-|[<-|[]]]; exists 3; reflexivity. }
  assert (I0 : AP.I_lock A.init) by (intros t H; discriminate).
  match goal with |- exists sA' lsI sI' evs, A.run ?s ?l = _ /\ _ => destruct (A.run s l) as [sA'|] eqn:Rn; [|vm_compute in Rn; discriminate] end.
  destruct (account_run_simulated 7 [3; 3] _ _ _ _ R0 eq_refl I0 Ov Rn) as (lsI & sI' & evs & H1 & H2 & H3 & _ & _).
  exists sA', lsI, sI', evs. split; [reflexivity|]. split; [exact H1|]. split; [exact H2|]. split; [exact H3|].
  vm_compute in Rn. injection Rn as <-. vm_compute. reflexivity.
Qed.
