(** System / S6, part 4 -- the combined statement, the DisableStorageCheck variant, examples, and
    the witnesses of where the two models do NOT agree (the boundary of the overlap). *)
From Coq Require Import List Bool Arith NArith ZArith Lia.
From CM Require Issuance.Model Bundle.Model.
From CM Require Import System.IssBundle System.IssBundle2 System.IssBundle3.
Import ListNotations.

(** * The combined statement, on Issuance's own configuration record *)
Definition incomplete (h : shape) : Prop := h_key h = None \/ h_crt h = None \/ h_meta h = None.
Theorem overlap_agrees : forall k x c h rest,
  overlap c = true ->
  (I.c_prog c = I.PManage ->
     (exists pk pc hm, h = rep_shape pk pc hm) \/
     (incomplete h /\ (I.c_reuse c = false \/ h_key h = None))) ->
  agree k x c (sto_of h rest).
Proof.
  intros k x c h rest Ho Hm. destruct (overlap_cfg c Ho) as [Hc [Hp|[Hp|Hp]]]; rewrite Hc, Hp.
  - apply obtain_agrees.
  - apply renew_agrees.
  - destruct (Hm Hp) as [(pk & pc & hm & ->)|[Hi Hr]].
    + apply manage_agrees.
    + apply manage_agrees_ids; assumption.
Qed.

(** * DisableStorageCheck (config.go:1185)

    Bundle has no such switch: its [obtain] / [renew] always run [check_storage].  With the check
    disabled Issuance's trace is Bundle's trace minus the three scratch-key calls; result, files
    and lock agree.  (Fault-free: the call indices of the two models differ by the dropped calls.) *)
Definition no_scratch (c : call) : bool := match k_tgt c with TgScratch => false | _ => true end.
Definition agree_nochk (x : bool) (c : I.tcfg) (st : I.skey -> option I.value) : Prop :=
  iss_trace None c st = filter no_scratch (bun_trace None x c st) /\
  (exists b, iss_result (iss_final None c st) = Some b /\ fst (bun_run None x c st) = Some b) /\
  (forall j, B.sget (B.w_st (snd (bun_run None x c st))) (0, N.of_nat (I.c_vk c), tr_kind j) =
             option_map (tr_val (tr_sid c) x) (I.sto (I.sh (iss_final None c st)) (I.SK (I.c_vk c) j))) /\
  B.k_locked (B.w_core (snd (bun_run None x c st))) = I.isSome (I.lks (I.sh (iss_final None c st)) (I.c_lk c)).
Definition mk_cfg_nochk (p : I.prog) (idn : nat) (reuse force issdue : bool) : I.tcfg :=
  I.TCfg p 0 0 0 idn reuse false force issdue.
Ltac agree_nochk_compute :=
  unfold agree_nochk; vm_compute;
  split; [reflexivity|]; split; [eexists; split; reflexivity|]; split; [intros []; reflexivity|reflexivity].

Theorem nochk_obtain_agrees : forall x idn reuse force issdue h rest,
  agree_nochk x (mk_cfg_nochk (I.PObtain false) idn reuse force issdue) (sto_of h rest).
Proof.
  intros x idn reuse force issdue [[hk|] [[ci ck cd]|] [hm|]] rest; destruct reuse; agree_nochk_compute.
Qed.
Theorem nochk_renew_agrees : forall x idn reuse force issdue h rest,
  agree_nochk x (mk_cfg_nochk (I.PRenew false) idn reuse force issdue) (sto_of h rest).
Proof.
  intros x idn reuse force issdue [hk hc hm] rest.
  destruct hc as [[ci ck [|]]|]; [> destruct x | | ];
    destruct hk as [hk|], hm as [hm|], reuse, force; agree_nochk_compute.
Qed.
Theorem nochk_manage_agrees : forall x idn reuse force issdue pk pc hm rest,
  agree_nochk x (mk_cfg_nochk I.PManage idn reuse force issdue) (sto_of (rep_shape pk pc hm) rest).
Proof.
  intros x idn reuse force issdue pk pc hm rest.
  destruct pc as [[[ci [|]] [|]]|]; [> destruct x | | destruct x | | ];
    destruct pk, hm as [hm|], reuse; agree_nochk_compute.
Qed.

(** and literally they do not agree: Bundle cannot express a configuration without the check *)
Lemma nochk_literal_refuted : exists c st,
  I.c_chk c = false /\ iss_trace None c st <> bun_trace None false c st.
Proof.
  exists (mk_cfg_nochk (I.PObtain false) 5 false false false), (fun _ => None).
  split; [reflexivity|]. vm_compute. discriminate.
Qed.

(** * Examples: the hypotheses are met by non-trivial runs *)
Definition ex_none : I.skey -> option I.value := fun _ => None.
Notation F d j := (TgFile d j).

(** obtain with ReusePrivateKeys, a lone key file in storage: 11 calls *)
Example ex_obtain_trace :
  iss_trace None (mk_cfg (I.PObtain false) 5 true false false) (sto_of (Shape (Some 3) None None) ex_none) =
  [Call CExists (F 0 I.KCrt) COk;
   Call CStore TgScratch COk; Call CLoad TgScratch COk; Call CDelete TgScratch COk;
   Call CLock TgLock COk;
   Call CExists (F 0 I.KCrt) COk;
   Call CLoad (F 0 I.KKey) COk;
   Call CStore (F 0 I.KKey) COk; Call CStore (F 0 I.KCrt) COk; Call CStore (F 0 I.KMeta) COk;
   Call CUnlock TgLock COk]
  /\ bun_trace None false (mk_cfg (I.PObtain false) 5 true false false) (sto_of (Shape (Some 3) None None) ex_none) =
     iss_trace None (mk_cfg (I.PObtain false) 5 true false false) (sto_of (Shape (Some 3) None None) ex_none).
Proof. split; vm_compute; reflexivity. Qed.

(** obtain, the Store of the metadata (call index 8, counted from 0) fails: storeTx rolls back .crt then .key,
    the lock is released, the request fails, nothing is left in storage *)
Example ex_obtain_rollback :
  iss_trace (Some 8) (mk_cfg (I.PObtain false) 5 false false false) (sto_of (Shape None None None) ex_none) =
  [Call CExists (F 0 I.KCrt) COk;
   Call CStore TgScratch COk; Call CLoad TgScratch COk; Call CDelete TgScratch COk;
   Call CLock TgLock COk;
   Call CExists (F 0 I.KCrt) COk;
   Call CStore (F 0 I.KKey) COk; Call CStore (F 0 I.KCrt) COk; Call CStore (F 0 I.KMeta) CErr;
   Call CDelete (F 0 I.KCrt) COk; Call CDelete (F 0 I.KKey) COk;
   Call CUnlock TgLock COk]
  /\ iss_result (iss_final (Some 8) (mk_cfg (I.PObtain false) 5 false false false) (sto_of (Shape None None None) ex_none)) = Some false
  /\ fst (bun_run (Some 8) false (mk_cfg (I.PObtain false) 5 false false false) (sto_of (Shape None None None) ex_none)) = Some false
  /\ B.w_st (snd (bun_run (Some 8) false (mk_cfg (I.PObtain false) 5 false false false) (sto_of (Shape None None None) ex_none))) = [].
Proof. repeat split; vm_compute; reflexivity. Qed.

(** a forced renewal of a certificate that is not due *)
Example ex_renew_trace :
  iss_trace None (mk_cfg (I.PRenew false) 5 false true false)
            (sto_of (Shape (Some 3) (Some (I.Cert 7 3 false)) (Some 7)) ex_none) =
  [Call CStore TgScratch COk; Call CLoad TgScratch COk; Call CDelete TgScratch COk;
   Call CLock TgLock COk;
   Call CLoad (F 0 I.KKey) COk; Call CLoad (F 0 I.KCrt) COk; Call CLoad (F 0 I.KMeta) COk;
   Call CStore (F 0 I.KKey) COk; Call CStore (F 0 I.KCrt) COk; Call CStore (F 0 I.KMeta) COk;
   Call CUnlock TgLock COk].
Proof. vm_compute. reflexivity. Qed.

(** ManageSync of a due certificate: load (+ staple), renew, reload (+ staple): 19 calls *)
Example ex_manage_renews :
  iss_trace None (mk_cfg I.PManage 5 false false false) (sto_of (rep_shape true (Some (7, true, true)) (Some 7)) ex_none) =
  [Call CLoad (F 0 I.KKey) COk; Call CLoad (F 0 I.KCrt) COk; Call CLoad (F 0 I.KMeta) COk;
   Call CLoad TgOcsp CNotFound;
   Call CStore TgScratch COk; Call CLoad TgScratch COk; Call CDelete TgScratch COk;
   Call CLock TgLock COk;
   Call CLoad (F 0 I.KKey) COk; Call CLoad (F 0 I.KCrt) COk; Call CLoad (F 0 I.KMeta) COk;
   Call CStore (F 0 I.KKey) COk; Call CStore (F 0 I.KCrt) COk; Call CStore (F 0 I.KMeta) COk;
   Call CUnlock TgLock COk;
   Call CLoad (F 0 I.KKey) COk; Call CLoad (F 0 I.KCrt) COk; Call CLoad (F 0 I.KMeta) COk;
   Call CLoad TgOcsp CNotFound]
  /\ iss_result (iss_final None (mk_cfg I.PManage 5 false false false)
                           (sto_of (rep_shape true (Some (7, true, true)) (Some 7)) ex_none)) = Some true.
Proof. split; vm_compute; reflexivity. Qed.

(** ManageSync with nothing in storage obtains: 15 calls *)
Example ex_manage_obtains :
  length (iss_trace None (mk_cfg I.PManage 5 false false false) (sto_of (rep_shape false None None) ex_none)) = 15
  /\ overlap (mk_cfg I.PManage 5 false false false) = true.
Proof. split; vm_compute; reflexivity. Qed.

(** the Issuance side of every comparison is a run of the LTS from [init_state] *)
Example ex_is_run :
  forall k c st, exists ls,
    I.run (I.init_state [c] st) ls = Some (iss_final k c st, snd (iss_run k c st)) /\
    Forall (fun l => I.l_tid l = 0 /\ I.l_bit l = false /\ (k = None -> I.l_fault l = I.FNone)) ls.
Proof.
  intros k c st. unfold iss_final, iss_run.
  destruct (irun k fuel0 0 (I.init_state [c] st)) as [[ls s2] es] eqn:E.
  exists ls. cbn [fst snd]. exact (irun_is_run _ _ _ _ _ _ _ E).
Qed.

(** * Where the models do NOT agree: ill-typed files

    Both models assume typed storage; they treat a file of the wrong content differently, and
    neither is uniformly right. *)
Definition junk_at (j : I.kind) (h : shape) : I.skey -> option I.value :=
  fun k => if I.skey_eqb k (I.SK 0 j) then Some (I.VKey 9) else sto_of h ex_none k.

(** R1. renewCert, the .crt file does not parse.  Go: managedCertNeedsRenewal returns
    needsRenew = true when parseCertsFromPEMBundle fails (config.go:1268-1271; with one issuer
    loadCertResourceAnyIssuer does not parse either, crypto.go:181-183), so the certificate IS
    renewed.  Issuance: renews.  Bundle: [load_res] fails with EOther, nothing is issued. *)
Lemma junk_crt_renew_refuted : exists c st x,
  overlap c = true /\
  iss_result (iss_final None c st) = Some true /\ fst (bun_run None x c st) = Some false /\
  length (iss_trace None c st) = 11 /\ length (bun_trace None x c st) = 8.
Proof.
  exists (mk_cfg (I.PRenew false) 5 false false false), (junk_at I.KCrt (Shape (Some 3) None (Some 7))), false.
  repeat split; vm_compute; reflexivity.
Qed.

(** R2. renewCert, the .json file does not parse.  Go: loadCertResource fails in json.Unmarshal
    (crypto.go:263-266), renewCert returns the error.  Bundle: fails.  Issuance: renews. *)
Lemma junk_meta_renew_refuted : exists c st x,
  overlap c = true /\
  iss_result (iss_final None c st) = Some true /\ fst (bun_run None x c st) = Some false.
Proof.
  exists (mk_cfg (I.PRenew false) 5 false false false),
         (junk_at I.KMeta (Shape (Some 3) (Some (I.Cert 7 3 true)) None)), false.
  repeat split; vm_compute; reflexivity.
Qed.

(** R3. obtainCert with ReusePrivateKeys, the .key file does not decode.  Go: reusePrivateKey
    returns PEMDecodePrivateKey's error (config.go:730-733), obtain fails.  Bundle: fails.
    Issuance: issues a certificate for "key 0". *)
Lemma junk_key_reuse_obtain_refuted : exists c st x,
  overlap c = true /\
  iss_result (iss_final None c st) = Some true /\ fst (bun_run None x c st) = Some false.
Proof.
  exists (mk_cfg (I.PObtain false) 5 true false false),
         (fun k => if I.skey_eqb k (I.SK 0 I.KKey) then Some I.VRaw else None), false.
  repeat split; vm_compute; reflexivity.
Qed.

(** R4. renewCert without ReusePrivateKeys, the .key file does not decode.  Go never decodes it
    on this path (config.go:845-849: a new key is generated), the renewal succeeds.  Issuance:
    succeeds.  Bundle: fails. *)
Lemma junk_key_renew_refuted : exists c st x,
  overlap c = true /\
  iss_result (iss_final None c st) = Some true /\ fst (bun_run None x c st) = Some false.
Proof.
  exists (mk_cfg (I.PRenew false) 5 false false false),
         (fun k => if I.skey_eqb k (I.SK 0 I.KKey) then Some I.VRaw else
                   sto_of (Shape None (Some (I.Cert 7 3 true)) (Some 7)) ex_none k), false.
  repeat split; vm_compute; reflexivity.
Qed.

(** * Where the models do NOT agree: the lock is held by somebody else

    Go: acquireLock = Storage.Lock blocks until the lock is free or the context is cancelled
    (storage.go:285-293).  Issuance: the thread waits at [PLockWait] (no step, no result).
    Bundle: [lock] on a held lock fails at once (EOther) and the request returns an error. *)
Definition iss_run_busy (c : I.tcfg) (st : I.skey -> option I.value) :=
  irun None fuel0 0 (I.State [I.init_thread c] (I.Shared st (fun _ => Some 1) 0 0)).
Lemma busy_lock_refuted : exists c st,
  overlap c = true /\
  (* Issuance: the Lock call was made, the thread is waiting, nothing else can happen *)
  (exists th, I.thr (snd (fst (iss_run_busy c st))) = [th] /\ I.tpc th = I.PLockWait) /\
  iss_result (snd (fst (iss_run_busy c st))) = None /\
  (* Bundle: the request fails *)
  b_ok (fst (B.obtain B.no_faults (tr_config c) (tr_subject c) (tr_oracle false c)
                      (B.World (B.Core [] [] true 0 0) 0 []))) = Some false.
Proof.
  exists (mk_cfg (I.PObtain false) 5 false false false), ex_none.
  split; [reflexivity|]. split; [eexists; split; vm_compute; reflexivity|].
  split; vm_compute; reflexivity.
Qed.

Print Assumptions overlap_agrees.
Print Assumptions nochk_manage_agrees.
Print Assumptions busy_lock_refuted.
