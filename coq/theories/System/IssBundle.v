(** System / S6 -- cross-validation of the two independent models of obtainCert / renewCert /
    manageOne (config.go), saveCertResource / loadCertResource (crypto.go), storeTx / acquireLock
    (storage.go):

      (I) [Issuance.Model]  a concurrent LTS, one transition per visible operation, events [Ev tid op out];
      (B) [Bundle.Model]    a sequential state/exception monad over Storage prims, every call logged.

    Neither refers to the other.  This file runs BOTH on their overlap -- ONE thread alone, ONE
    issuer, canonical spelling, the storage check enabled, the same flags and the same storage
    content -- and proves that they perform the same sequence of Storage / lock calls with the
    same outcomes, return the same result and end in the same storage and lock state; fault-free
    and with one injected Storage error at an arbitrary call index.

    The vocabulary translation (all of it is in this section of the file):
      call            common vocabulary: operation, target (file of the bundle / scratch key / OCSP
                      staple / lock), outcome (ok / not found / error)
      iproj           Issuance event -> call   (Emit, IssueStart, IssueEnd dropped; OLock ok +
                      OAcq ok = one Lock ok; Exists answers coarsened to ok because Bundle's log
                      does not record the boolean)
      bproj           Bundle log entry -> call (LGen, LIssue dropped)
      tr_val/tr_sto   Issuance value / the three files of the name -> Bundle typed files
      tr_config ...   Issuance [tcfg] -> Bundle config, subject, oracle, program
      plan_of/ifault  one fault at call index k: Bundle [p_fail], Issuance [FErr] at the k-th call *)
From Coq Require Import List Bool Arith NArith ZArith Lia.
From CM Require Issuance.Model Bundle.Model.
Import ListNotations.

Module I := CM.Issuance.Model.
Module B := CM.Bundle.Model.

(** * 1. The common vocabulary *)
Inductive cop := CExists | CLoad | CStore | CDelete | CLock | CUnlock.
(** [TgFile d j]: file [j] (key / certificate / metadata) of the bundle in site directory [d] of
    the only issuer *)
Inductive ctgt := TgFile (d : nat) (j : I.kind) | TgScratch | TgOcsp | TgLock | TgOther.
Inductive cout := COk | CNotFound | CErr.
Record call := Call { k_op : cop; k_tgt : ctgt; k_out : cout }.

Fixpoint omap {A C} (f : A -> option C) (l : list A) : list C :=
  match l with
  | [] => []
  | a :: r => match f a with Some c => c :: omap f r | None => omap f r end
  end.

(** ** Issuance events *)
Definition iout (o : nat) : cout := match o with 0 => COk | 1 => CNotFound | _ => CErr end.
(** Exists: Bundle's log has no entry for the answer, only for "the back-end failed" *)
Definition iout_ex (o : nat) : cout := match o with 0 | 1 => COk | _ => CErr end.
Definition itgt (k : I.skey) : ctgt :=
  match k with I.SK n j => TgFile n j | I.RW _ => TgScratch | I.SLast => TgOther end.
Definition iproj (e : I.ev) : option call :=
  match I.e_op e with
  | I.OExists k => Some (Call CExists (itgt k) (iout_ex (I.e_out e)))
  | I.OLoad k => Some (Call CLoad (itgt k) (iout (I.e_out e)))
  | I.OStore k => Some (Call CStore (itgt k) (iout (I.e_out e)))
  | I.ODelete k => Some (Call CDelete (itgt k) (iout (I.e_out e)))
  | I.OLoadOcsp => Some (Call CLoad TgOcsp (iout (I.e_out e)))
  (* acquireLock is two events in Issuance: the call and the acquisition.  A Lock call that
     returned an error is the failed Lock; a successful one counts when the lock is acquired *)
  | I.OLock _ => match I.e_out e with 0 => None | _ => Some (Call CLock TgLock CErr) end
  | I.OAcq _ => Some (Call CLock TgLock (iout (I.e_out e)))
  | I.OUnlock _ => Some (Call CUnlock TgLock (iout (I.e_out e)))
  | I.OEmit _ | I.OIssS _ | I.OIssE _ | I.OAriGet | I.OOther | I.OCa _ => None
  end.

(** ** Bundle log entries *)
Definition bop (k : B.okind) : cop :=
  match k with
  | B.OStore => CStore | B.OLoad => CLoad | B.ODelete => CDelete | B.OExists => CExists
  | B.OLock => CLock | B.OUnlock => CUnlock
  end.
Definition bout (e : option B.err) : cout :=
  match e with None => COk | Some B.ENotExist => CNotFound | Some _ => CErr end.
Definition btgt (t : B.otarget) : ctgt :=
  match t with
  | B.TFile (0, d, B.FKey) => TgFile (N.to_nat d) I.KKey
  | B.TFile (0, d, B.FCrt) => TgFile (N.to_nat d) I.KCrt
  | B.TFile (0, d, B.FMeta) => TgFile (N.to_nat d) I.KMeta
  | B.TFile _ | B.TDir _ _ => TgOther
  | B.TTest => TgScratch
  | B.TOcsp _ => TgOcsp
  | B.TLock => TgLock
  end.
Definition bproj (l : B.logev) : option call :=
  match l with
  | B.LOp k t e => Some (Call (bop k) (btgt t) (bout e))
  | B.LIssue _ _ _ | B.LGen _ => None
  end.

(** ** Values and storage: Issuance -> Bundle.
    [x] says how Bundle classifies a certificate that Issuance calls "due": in its renewal
    window or already expired (Issuance does not distinguish; every theorem is for both). *)
Definition tr_kind (j : I.kind) : B.fkind :=
  match j with I.KKey => B.FKey | I.KCrt => B.FCrt | I.KMeta => B.FMeta end.
Definition tr_validity (x due : bool) : B.validity :=
  if due then (if x then B.VExpired else B.VDue) else B.VFresh.
Definition tr_cert (sid : N) (x : bool) (c : I.cert) : B.cert :=
  B.Cert (N.of_nat (I.c_kid c)) sid 0%Z (tr_validity x (I.c_due c)) (N.of_nat (I.c_id c)).
Definition tr_val (sid : N) (x : bool) (v : I.value) : B.fval :=
  match v with
  | I.VKey k => B.VKey (N.of_nat k)
  | I.VCrt c => B.VCrt (tr_cert sid x c)
  | _ => B.VMeta [sid]
  end.
(** the three files of name class [n], put into directory [N.of_nat n] of issuer 0 *)
Definition tr_file (sid : N) (x : bool) (n : nat) (st : I.skey -> option I.value) (j : I.kind) : B.storage :=
  match st (I.SK n j) with
  | Some v => [((0, N.of_nat n, tr_kind j), tr_val sid x v)]
  | None => []
  end.
Definition tr_sto (sid : N) (x : bool) (n : nat) (st : I.skey -> option I.value) : B.storage :=
  tr_file sid x n st I.KKey ++ tr_file sid x n st I.KCrt ++ tr_file sid x n st I.KMeta.

(** ** Configuration *)
Definition tr_sid (c : I.tcfg) : N := N.of_nat (I.c_idn c).
Definition tr_config (c : I.tcfg) : B.config := B.Config 1 (I.c_reuse c) false.
Definition tr_subject (c : I.tcfg) : B.subject :=
  B.Subject (N.of_nat (I.c_pk c)) (N.of_nat (I.c_vk c)) (N.of_nat (I.c_vk c)) (tr_sid c).
(** the only issuer answers; the certificate it hands out is due iff [c_issdue] *)
Definition tr_oracle (x : bool) (c : I.tcfg) : B.oracle :=
  B.Oracle [Some (0%Z, tr_validity x (I.c_issdue c))] [].

(** the overlap of the two models: sync obtain / sync renew / ManageSync; canonical spelling and
    one name (class 0; lock class 0); the storage check is enabled (Bundle has no
    DisableStorageCheck switch) *)
Definition overlap (c : I.tcfg) : bool :=
  match I.c_prog c with I.PObtain false | I.PRenew false | I.PManage => true | _ => false end
  && Nat.eqb (I.c_lk c) 0 && Nat.eqb (I.c_pk c) 0 && Nat.eqb (I.c_vk c) 0 && I.c_chk c.

(** ** Faults: at most one Storage error, at call index [k] *)
Definition plan_of (k : option nat) : B.plan :=
  match k with
  | Some k => B.Plan (fun n => Nat.eqb n k) None
  | None => B.no_faults
  end.
(** the transitions of Issuance that are a Storage / lock CALL of Bundle (one index of [w_cnt]);
    the acquisition [PLockWait] belongs to the Lock call made at [PLockCall] *)
Definition is_call_pc (p : I.pc) : bool :=
  match p with
  | I.PPre _ | I.PChkS | I.PChkL | I.PChkD _ | I.PLockCall | I.PRe _ | I.PLd _ | I.PReuse
  | I.PSave _ | I.PRoll _ | I.PUnlock _ | I.PMLd _ _ | I.PMOcsp _ => true
  | _ => false
  end.
Definition ifault (k : option nat) (cnt : nat) (p : I.pc) : I.fault :=
  match k with
  | Some k => if is_call_pc p && Nat.eqb cnt k then I.FErr else I.FNone
  | None => I.FNone
  end.

(** * 2. Running the two models *)

(** Issuance: thread 0 alone, schedule "label (0, fault, false) until no step"; [cnt] counts the
    calls made so far *)
Fixpoint irun (k : option nat) (fuel cnt : nat) (s : I.state) : list I.label * I.state * list I.ev :=
  match fuel with
  | 0 => ([], s, [])
  | S f =>
      match nth_error (I.thr s) 0 with
      | None => ([], s, [])
      | Some th =>
          let l := I.Label 0 (ifault k cnt (I.tpc th)) false in
          match I.step s l with
          | None => ([], s, [])
          | Some (s1, e) =>
              let '(ls, s2, es) := irun k f (if is_call_pc (I.tpc th) then S cnt else cnt) s1 in
              (l :: ls, s2, e :: es)
          end
      end
  end.

(** C01_sync_runs_bounded: a sync request makes at most 180 steps *)
Definition fuel0 : nat := 180.
Definition iss_run (k : option nat) (c : I.tcfg) (st : I.skey -> option I.value) :=
  irun k fuel0 0 (I.init_state [c] st).
Definition iss_final (k : option nat) (c : I.tcfg) st : I.state := snd (fst (iss_run k c st)).
Definition iss_trace (k : option nat) (c : I.tcfg) st : list call := omap iproj (snd (iss_run k c st)).
(** ok / error of a finished request; [None]: not finished (or a panic) *)
Definition iss_result (s : I.state) : option bool :=
  match I.thr s with
  | [th] => match I.tpc th with
            | I.PDone I.ROk => Some true
            | I.PDone I.RErr => Some false
            | _ => None
            end
  | _ => None
  end.

(** Bundle *)
Definition b_ok {A} (r : B.res A) : option bool :=
  match r with B.Ok _ => Some true | B.Fail _ => Some false | B.Dead => None end.
Definition bun_world (x : bool) (c : I.tcfg) (st : I.skey -> option I.value) : B.world :=
  B.World (B.Core (tr_sto (tr_sid c) x (I.c_vk c) st) [] false 0 0) 0 [].
Definition bun_run (k : option nat) (x : bool) (c : I.tcfg) (st : I.skey -> option I.value)
  : option bool * B.world :=
  let w := bun_world x c st in
  let pl := plan_of k in
  match I.c_prog c with
  | I.PObtain _ =>
      let '(r, w') := B.obtain pl (tr_config c) (tr_subject c) (tr_oracle x c) w in (b_ok r, w')
  | I.PRenew _ =>
      let '(r, w') := B.renew pl (tr_config c) (tr_subject c) (tr_oracle x c) (I.c_force c) w in (b_ok r, w')
  | I.PManage =>
      let '(r, w') := B.manage pl (tr_config c) (tr_subject c) (tr_oracle x c) w in (b_ok r, w')
  | _ => (None, w)
  end.
Definition bun_trace (k : option nat) (x : bool) (c : I.tcfg) st : list call :=
  omap bproj (rev (B.w_log (snd (bun_run k x c st)))).

(** what "the two models agree" means *)
Definition agree (k : option nat) (x : bool) (c : I.tcfg) (st : I.skey -> option I.value) : Prop :=
  (* same calls, same order, same outcomes *)
  iss_trace k c st = bun_trace k x c st /\
  (* both finish, with the same result *)
  (exists b, iss_result (iss_final k c st) = Some b /\ fst (bun_run k x c st) = Some b) /\
  (* same final content of the three files *)
  (forall j, B.sget (B.w_st (snd (bun_run k x c st))) (0, N.of_nat (I.c_vk c), tr_kind j) =
             option_map (tr_val (tr_sid c) x) (I.sto (I.sh (iss_final k c st)) (I.SK (I.c_vk c) j))) /\
  (* same final lock state *)
  B.k_locked (B.w_core (snd (bun_run k x c st))) = I.isSome (I.lks (I.sh (iss_final k c st)) (I.c_lk c)).

(** [irun] is a run of the LTS, of thread 0 only, with the choice bit never used *)
Lemma irun_is_run k fuel : forall cnt s ls s2 es,
  irun k fuel cnt s = (ls, s2, es) ->
  I.run s ls = Some (s2, es) /\
  Forall (fun l => I.l_tid l = 0 /\ I.l_bit l = false /\ (k = None -> I.l_fault l = I.FNone)) ls.
Proof.
  induction fuel as [|f IH]; intros cnt s ls s2 es H; cbn [irun] in H.
  - inversion H; subst. split; [reflexivity|constructor].
  - destruct (nth_error (I.thr s) 0) as [th|]; [|inversion H; subst; split; [reflexivity|constructor]].
    destruct (I.step s _) as [[s1 e]|] eqn:Hs; [|inversion H; subst; split; [reflexivity|constructor]].
    destruct (irun k f _ s1) as [[ls' s2'] es'] eqn:Hr. inversion H; subst.
    destruct (IH _ _ _ _ _ Hr) as [Hrun Hall]. split.
    + cbn [I.run]. rewrite Hs, Hrun. reflexivity.
    + constructor; [|exact Hall]. cbn. repeat split. intros ->. reflexivity.
Qed.

(** * 3. Abstract shapes of the storage

    Every well-formed (typed) storage is, on the keys the request can touch, one of these: each
    of the three files of the name absent or present with a value of its type; the identifiers
    (key number, certificate number, the key the certificate certifies, due or not) arbitrary.
    [rest] is the content of every other key (other names, scratch keys, last_clean.json). *)
Record shape := Shape { h_key : option nat; h_crt : option I.cert; h_meta : option nat }.
Definition sto_of (h : shape) (rest : I.skey -> option I.value) : I.skey -> option I.value :=
  fun k => match k with
           | I.SK 0 I.KKey => option_map I.VKey (h_key h)
           | I.SK 0 I.KCrt => option_map I.VCrt (h_crt h)
           | I.SK 0 I.KMeta => option_map I.VMeta (h_meta h)
           | k => rest k
           end.
Definition typed0 (st : I.skey -> option I.value) : Prop :=
  (forall v, st (I.SK 0 I.KKey) = Some v -> exists k, v = I.VKey k) /\
  (forall v, st (I.SK 0 I.KCrt) = Some v -> exists c, v = I.VCrt c) /\
  (forall v, st (I.SK 0 I.KMeta) = Some v -> exists m, v = I.VMeta m).
Definition shape_of (st : I.skey -> option I.value) : shape :=
  Shape (match st (I.SK 0 I.KKey) with Some (I.VKey k) => Some k | _ => None end)
        (match st (I.SK 0 I.KCrt) with Some (I.VCrt c) => Some c | _ => None end)
        (match st (I.SK 0 I.KMeta) with Some (I.VMeta m) => Some m | _ => None end).
(** every typed storage is pointwise a [sto_of] *)
Lemma typed_is_shape st : typed0 st -> forall k, st k = sto_of (shape_of st) st k.
Proof.
  intros (Hk & Hc & Hm) k. unfold sto_of, shape_of; cbn.
  destruct k as [n j| |]; try reflexivity.
  destruct n as [|n]; [|destruct j; reflexivity].
  destruct j.
  - destruct (st (I.SK 0 I.KKey)) as [v|] eqn:E; [|reflexivity]. destruct (Hk _ eq_refl) as [x ->]. reflexivity.
  - destruct (st (I.SK 0 I.KCrt)) as [v|] eqn:E; [|reflexivity]. destruct (Hc _ eq_refl) as [x ->]. reflexivity.
  - destruct (st (I.SK 0 I.KMeta)) as [v|] eqn:E; [|reflexivity]. destruct (Hm _ eq_refl) as [x ->]. reflexivity.
Qed.

Definition mk_cfg (p : I.prog) (idn : nat) (reuse force issdue : bool) : I.tcfg :=
  I.TCfg p 0 0 0 idn reuse true force issdue.
Lemma overlap_cfg c : overlap c = true ->
  c = mk_cfg (I.c_prog c) (I.c_idn c) (I.c_reuse c) (I.c_force c) (I.c_issdue c) /\
  (I.c_prog c = I.PObtain false \/ I.c_prog c = I.PRenew false \/ I.c_prog c = I.PManage).
Proof.
  destruct c as [p lk pk vk idn ru ck fo isd]. unfold overlap, mk_cfg; cbn.
  intros H.
  apply andb_prop in H; destruct H as [H Hck]. apply andb_prop in H; destruct H as [H Hvk].
  apply andb_prop in H; destruct H as [H Hpk]. apply andb_prop in H; destruct H as [H Hlk].
  apply Nat.eqb_eq in Hvk, Hpk, Hlk. subst. split; [reflexivity|].
  destruct p as [[]|[]| | | |]; try discriminate; auto.
Qed.

Ltac agree_compute :=
  unfold agree; vm_compute;
  split; [reflexivity|]; split; [eexists; split; reflexivity|]; split; [intros []; reflexivity|reflexivity].

(** the fault index: no fault / index 0 .. n-1 / any index >= n *)
Tactic Notation "each_k" integer(n) ident(k) tactic3(tac) :=
  destruct k as [k|]; [ do n (destruct k as [|k]; [tac|]); tac | tac ].

(** * 4. obtainCert (sync) *)

(** For every fault plan (none, or one Storage error at ANY call index), both validity
    translations, every identifier, ReusePrivateKeys on or off, every presence/absence
    combination of the three files with arbitrary contents of their type, and arbitrary content
    of all other keys: Issuance's single-thread run of [PObtain false] and Bundle's [obtain]
    agree (calls, outcomes, result, final files, final lock). *)
Theorem obtain_agrees : forall k x idn reuse force issdue h rest,
  agree k x (mk_cfg (I.PObtain false) idn reuse force issdue) (sto_of h rest).
Proof.
  intros k x idn reuse force issdue [[hk|] [[ci ck cd]|] [hm|]] rest; destruct reuse.
  all: each_k 17 k agree_compute.
Qed.
