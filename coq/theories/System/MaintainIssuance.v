(** System / S9 (part 1) -- the atomicity that C05's Maintain model takes from C01's Issuance model.

    [Maintain.Model.job_step] makes "one attempt of renewCert's / obtainCert's retried function
    under the storage lock" ONE step and says (notes/C05.md): "An attempt under the storage lock
    is one atomic step (C01's mutual exclusion)".  [Issuance.Model] runs the same attempt
    operation by operation (PLd x3, PEmit1, PIssS, PIssE, PSave x3 / PRoll, PEmit2, PWait,
    PUnlock) interleaved with any number of other threads.  This file states and proves, on the
    Issuance LTS, the trace-level fact the one-step abstraction relies on:

      between thread t's successful LockAcquired [OAcq l] and its successful [OUnlock l]
      (= while the trace says t owns l, [owner_tr]) no OTHER thread whose lock key is also l
        - performs a Store or a Delete on a bundle key [SK _ _], nor an Issuer.Issue entry / exit
          ([locked_region_atomic]);
        - changes the bundle files of a name all of whose writers use lock l, nor t's own
          thread record, nor the ownership of l ([locked_window_frame]): whatever the others do
          between two consecutive operations of t, t finds the files as it left them.

    It also states exactly what is NOT covered (the refuted witnesses are in MaintainIssuance3.v):
    readers are not excluded (manageOne's loads, the pre-check of obtainCert: [PMLd], [PPre] are
    not [locked]), and a writer under a DIFFERENT lock is not excluded -- updateARI ([PAri]) writes
    the metadata file [SK n KMeta] under the lock "ari_...": [may_write] makes the hypothesis
    precise (key and certificate files are never written by an ARI updater). *)
From Coq Require Import List Bool Arith Lia.
From CM Require Import Issuance.Model Issuance.Proofs Issuance.Invariants.
From CM Require Import System.LockEvent.
Import ListNotations.
Open Scope nat_scope.

(** * 1. The lock owner as a function of the trace *)
Definition owner_ev (l : nat) (cur : option nat) (e : ev) : option nat :=
  match e_op e, e_out e with
  | OAcq k, 0 => if Nat.eqb k l then Some (e_tid e) else cur
  | OUnlock k, 0 => if Nat.eqb k l then None else cur
  | _, _ => cur
  end.
(** [owner_tr l es cur]: who owns lock [l] after the events [es], when [cur] owned it before:
    the thread of the last successful [OAcq l] that is not followed by a successful [OUnlock l] *)
Definition owner_tr (l : nat) (es : list ev) (cur : option nat) : option nat :=
  fold_left (owner_ev l) es cur.

Lemma step_owner s lb s' e l :
  step s lb = Some (s', e) -> lks (sh s') l = owner_ev l (lks (sh s) l) e.
Proof.
  intros Hs. apply step_inv in Hs. destruct Hs as (th & th' & sh' & _ & Hts & ->). cbn [sh].
  destruct (tstep_lock_event _ _ _ _ _ _ _ _ Hts) as [Htid Hev]. unfold owner_ev.
  destruct (e_op e); try (rewrite Hev; reflexivity);
    try (destruct (e_out e); rewrite Hev; reflexivity).
  - destruct (e_out e) as [|o]; [|destruct Hev as [_ ->]; reflexivity].
    destruct Hev as [_ ->]. reflexivity.
  - destruct (e_out e) as [|o]; [|destruct Hev as [_ ->]; reflexivity].
    destruct Hev as (_ & _ & _ & ->). rewrite Htid. unfold lput. reflexivity.
  - destruct (e_out e) as [|o]; [|rewrite Hev; reflexivity].
    destruct Hev as (_ & _ & ->). unfold lput. reflexivity.
Qed.

(** the lock table of the LTS is the owner computed from the trace *)
Lemma runs_owner ok s es s' l :
  runs ok s es s' -> lks (sh s') l = owner_tr l es (lks (sh s) l).
Proof.
  intros R. induction R as [s|s lb s1 e es s2 _ Hs _ IH]; [reflexivity|].
  unfold owner_tr in *. cbn [fold_left]. rewrite IH. f_equal. eapply step_owner; eauto.
Qed.

Lemma runs_split ok s a b s' :
  runs ok s (a ++ b) s' -> exists s1, runs ok s a s1 /\ runs ok s1 b s'.
Proof.
  revert s. induction a as [|e a IH]; intros s R; cbn [app] in R.
  - exists s. split; [constructor|exact R].
  - inversion R as [|s0 lb s1 e0 es0 s2 Hok Hs R']; subst.
    destruct (IH _ R') as (s3 & Ra & Rb). exists s3. split; [econstructor; eauto|exact Rb].
Qed.

(** * 2. Guarded operations are only performed from the locked region *)
(** writes to a certificate bundle, and the two ends of an Issuer.Issue call *)
Definition guarded_op (o : op) : bool :=
  match o with
  | OStore (SK _ _) | ODelete (SK _ _) | OIssS _ | OIssE _ => true
  | _ => false
  end.

Lemma tstep_guarded_locked t th s f b th' s' e :
  tstep t th s f b = Some (th', s', e) -> guarded_op (e_op e) = true -> locked (tpc th) = true.
Proof.
  intros H. destruct th as [c p ? ? ? ? ? ? ? ? ?]. destruct p.
  all: tstep_full H. all: inv_some H. all: cbn [e_op guarded_op tpc locked]; auto; try discriminate.
Qed.

(** THE MUTUAL-EXCLUSION THEOREM (trace level).  In any run of any number of requests, from any
    storage, under any schedule and any fault plan: if the trace so far says that [t] owns lock
    [l] (its LockAcquired is not yet followed by its successful Unlock), then the next event, when
    it belongs to another thread that uses the same lock key, is neither a Store / Delete on a
    bundle file nor an Issuer.Issue entry / exit. *)
Theorem locked_region_atomic cs st es1 e es2 s' t l :
  runs any_label (init_state cs st) (es1 ++ e :: es2) s' ->
  owner_tr l es1 None = Some t ->
  e_tid e <> t ->
  (forall c, nth_error cs (e_tid e) = Some c -> c_lk c = l) ->
  guarded_op (e_op e) = false.
Proof.
  intros R Hown Hne Hlk.
  destruct (runs_split _ _ _ _ _ R) as (s1 & R1 & R2).
  assert (Hr : reachable cs st s1) by (exists es1; exact R1).
  pose proof (I_lock_reachable _ _ _ Hr) as HI.
  pose proof (runs_owner _ _ _ _ l R1) as Hl. cbn [init_state sh lks] in Hl. rewrite Hown in Hl.
  inversion R2 as [|s0 lb s2 e0 es0 s3 _ Hs _]; subst.
  destruct (step_inv _ _ _ _ Hs) as (th & th' & sh' & Hn & Hts & _).
  pose proof (tstep_tid _ _ _ _ _ _ _ _ Hts) as Htid.
  destruct (guarded_op (e_op e)) eqn:G; [exfalso|reflexivity].
  pose proof (tstep_guarded_locked _ _ _ _ _ _ _ _ Hts G) as Hlocked.
  pose proof (HI _ _ Hn Hlocked) as Hmine.
  pose proof (cfg_in_init _ _ _ Hr _ _ Hn) as Hc. rewrite <- Htid in Hc.
  rewrite (Hlk _ Hc), Hl in Hmine. inversion Hmine. congruence.
Qed.

(** * 3. A thread-local invariant needed by the window theorem (MaintainIssuance2.v) *)
(** the program counters of the certificate path proper belong to obtainCert / renewCert
    (a thread-local invariant that [Issuance.Twf.twf] does not record) *)
Definition cert_pc (p : pc) : bool :=
  match p with PEmit1 | PIssS | PIssE | PSave _ | PRoll _ => true | _ => false end.
Definition cpc_ok (th : thread) : Prop :=
  cert_pc (tpc th) = true -> cur th = OpObtain \/ cur th = OpRenew.

Lemma tstep_cpc t th s f b th' s' e :
  twf th -> cpc_ok th -> tstep t th s f b = Some (th', s', e) -> cpc_ok th'.
Proof.
  intros (Hw1 & Hw2 & _) Hc H. unfold cpc_ok in *. destruct th as [c p cu ? ? ? ? ? ? ? ?]. destruct p.
  all: tstep_full H. all: inv_some H. all: cbn [tpc cur cert_pc pc_cur_ok] in *.
  all: try (intros X; discriminate X).
  all: try (intros _; subst; auto; fail).
  all: try (intros _; apply Hc; reflexivity).
Qed.

Definition all_cpc (s : state) : Prop := forall t th, thread_at s t th -> cpc_ok th.
Lemma all_cpc_step s l s' e : all_twf s -> all_cpc s -> step s l = Some (s', e) -> all_cpc s'.
Proof.
  intros HT HC Hs t2 th2 Ht2.
  destruct (step_threads _ _ _ _ _ _ Hs Ht2) as (th & th' & Ha & Hts & [[-> ->]|[_ Ho]]).
  - eapply tstep_cpc; eauto.
  - eauto.
Qed.
Lemma all_cpc_init cs st : all_cpc (init_state cs st).
Proof.
  intros t th Ht. unfold thread_at, init_state in Ht; cbn in Ht.
  rewrite nth_error_map in Ht. destruct (nth_error cs t) as [c|]; cbn in Ht; [|discriminate].
  inversion Ht; subst. unfold cpc_ok, init_thread, entry, after_pre; cbn.
  destruct (c_prog c); cbn; try discriminate; destruct (c_chk c); discriminate.
Qed.
Lemma reachable_twf_cpc cs st s : reachable cs st s -> all_twf s /\ all_cpc s.
Proof.
  intros [es R].
  eapply (runs_inv2 any_label all_twf all_cpc); eauto.
  - intros; eapply all_twf_step; eauto.
  - intros; eapply all_cpc_step; eauto.
  - apply all_twf_init.
  - apply all_cpc_init.
Qed.

