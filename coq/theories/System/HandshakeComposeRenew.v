(** System: C04 (the renewal decision, Renewal.Model.decide) underneath C02's handshake model.

    [Handshake.Model] gives a certificate two bits the on-demand code reads:
      [c_due]     = cfg.certNeedsRenewal(cert.Leaf, cert.ari, true)   (handshake.go L612)
      [c_expired] = time.Until(expiresAt(leaf)) <= 0                  (handshake.go L729 / L856)
    and ASSUMES about them (a) "expired implies due" — it uses the defensive disjunction
    [due c = c_due c || c_expired c] where the code asks certNeedsRenewal only — and (b) that the
    certificate the issuer just signed is neither due nor expired ([fresh_cert]; "the cycle
    load -> maintenance -> obtain -> load is cut only because a freshly obtained certificate is
    not due").  C04 PROVES both of the actual decision function:
      [renew_when_expired] (expired => Renew) and [fresh_not_due] (S34's packaging of
      C04_wait_when_nothing_due / future_window_never_immediate).
    Here the two bits are INSTANTIATED by C04 ([timed]) and C04's verdicts are pushed through
    the handshake:
    - [due_is_C04_decision]: under the instantiation [Handshake.Model.due] IS [decide .. = Renew];
    - [fresh_cert_is_C04_fresh]: the model's fresh certificate carries C04's verdict for inputs
      that are fresh at the instant;
    - [not_due_certificate_served_untouched]: C04 says wait (nothing due) => the matched cached
      certificate is served and the handshake goroutine touches neither policy, storage nor issuer;
    - [due_certificate_served_and_renewed_in_background]: C04 says renew (any of its four
      reasons) but not expired => the certificate is served at once, the renewal runs in its own
      goroutine and begins with the policy;
    - [expired_certificate_renewed_in_foreground]: expired (hence due, by C04) => the handshake
      itself evaluates the policy and renews, and an expired certificate is never the answer when
      that fails. *)
From Coq Require Import ZArith List Bool Lia Arith.
From CM Require Import Lib.Str Gen.Consts Renewal.Model Renewal.Proofs Renewal.F64 Renewal.F64Proofs System.RenewMaintain.
From CM Require Handshake.Model Handshake.Proofs.
From CM Require System.HandshakeComposeBase.
Import ListNotations.

Module H := CM.Handshake.Model.
Module HP := CM.Handshake.Proofs.
Module HC := CM.System.HandshakeComposeBase.

Ltac inv H := inversion H; subst; clear H.

Section RenewHandshake.
  Variable scale : Z -> ratio -> Z.
  Hypothesis Hscale : scale_spec scale.
  Variable is_space : N -> bool.
  Local Open Scope Z_scope.

  (** the instantiation: certificate [c] of the handshake model has C04 inputs [i] (validity,
      RenewCheckInterval, ratio, ARI), the draw is [rnd], the clock reads [now] *)
  Definition timed (c : H.cert) (i : inputs) (rnd now : Z) : Prop :=
    H.c_due c = due_b scale i rnd now /\
    H.c_expired c = (spec_expiry (not_after i) <=? now).

  (** (a) expired implies due is a theorem of C04, so the model's disjunction is the decision *)
  Theorem due_is_C04_decision c i rnd now :
    timed c i rnd now -> 0 < interval i -> H.due c = due_b scale i rnd now.
  Proof.
    intros [Hd He] Hi. unfold H.due. rewrite Hd, He.
    destruct (spec_expiry (not_after i) <=? now) eqn:E; [|apply orb_false_r].
    apply Z.leb_le in E. rewrite orb_true_r. symmetry. apply due_b_true.
    apply renew_when_expired; assumption.
  Qed.

  Corollary expired_implies_due c i rnd now :
    timed c i rnd now -> 0 < interval i -> H.c_expired c = true -> H.c_due c = true.
  Proof.
    intros HT Hi He. pose proof (due_is_C04_decision c i rnd now HT Hi) as D.
    destruct HT as [Hd _]. rewrite Hd, <- D. unfold H.due. rewrite He. apply orb_true_r.
  Qed.

  (** (b) the certificate the issuer double signs: not due, not expired — C04's verdict on fresh inputs *)
  Theorem fresh_cert_is_C04_fresh w n i rnd now :
    fresh_inputs i now -> admissible i rnd -> timed (H.fresh_cert w n) i rnd now.
  Proof.
    intros Hf Ha. split; cbn [H.fresh_cert H.c_due H.c_expired].
    - symmetry. apply due_b_false. apply (fresh_not_due scale Hscale); assumption.
    - symmetry. apply Z.leb_gt.
      destruct Hf as (Hwf & Ha0 & _ & _ & H5 & _). cbv zeta in H5.
      unfold wf, wfb in Hwf. apply andb_true_iff in Hwf as [Hwf _]. apply andb_true_iff in Hwf as [Hi _].
      apply Z.ltb_lt in Hi. unfold lifetime in H5. lia.
  Qed.

  (** ** C04's verdicts through the handshake *)

  (** C04: nothing is due => the matched certificate is served as it is *)
  Theorem not_due_certificate_served_untouched w h id c i rnd now own kids res w' :
    H.h_hit h = Some id -> H.cache_find id w = Some c ->
    timed c i rnd now -> nothing_due i rnd now -> H.c_revoked c = false ->
    H.handshake is_space w h = (own, kids, res, w') ->
    res = H.RCert (H.c_id c) /\ own = [].
  Proof.
    intros Hh Hf HT Hnd Hrev Hs.
    apply (HC.hit_served_as_is is_space w h id c own kids res w' Hh Hf); [|exact Hs].
    assert (Hi : 0 < interval i).
    { destruct Hnd as (Hwf & _). unfold wf, wfb in Hwf. apply andb_true_iff in Hwf as [Hwf _].
      apply andb_true_iff in Hwf as [Hi _]. apply Z.ltb_lt in Hi. exact Hi. }
    rewrite (due_is_C04_decision c i rnd now HT Hi), Hrev.
    replace (due_b scale i rnd now) with false; [apply andb_false_r|].
    symmetry. apply due_b_false. apply (nothing_due_wait scale Hscale). exact Hnd.
  Qed.

  (** C04: due (for any of its reasons), not expired; the certificate is managed, matched, not
      revoked, its bundle is in storage, no ARI refresh pending: served at once; the renewal is
      one background goroutine whose first effect is the policy evaluation about the handshake's
      name (or nothing at all when that name does not qualify) *)
  Theorem due_certificate_served_and_renewed_in_background w h id c n i rnd now own kids res w' :
    H.h_hit h = Some id -> H.cache_find id w = Some c -> H.h_name h = Some n ->
    H.c_managed c = true -> H.od_on w = true -> H.c_revoked c = false -> H.c_ari c = None ->
    H.store_has (H.name0 c) w = true ->
    timed c i rnd now -> due_reason i rnd now -> now < spec_expiry (not_after i) ->
    H.handshake is_space w h = (own, kids, res, w') ->
    res = H.RCert (H.c_id c) /\ own = [H.EExists (H.name0 c)] /\
    exists g, kids = [g] /\
      (g = [H.EEvict (H.c_id c)] /\ H.qualifies is_space n = false \/
       exists r rest, g = H.EDecision n r :: rest \/ g = H.EAllow n r :: rest).
  Proof.
    intros Hh Hf Hn Hm Hod Hrev Hari Hst [Hd He] Hdue Hne Hs.
    assert (Dc : H.c_due c = true).
    { rewrite Hd. apply due_b_true. apply (due_reason_renew scale Hscale). exact Hdue. }
    assert (Ec : H.c_expired c = false) by (rewrite He; apply Z.leb_gt; exact Hne).
    unfold H.handshake, H.get_cert in Hs. rewrite Hh, Hf, Hm, Hod in Hs. cbn [andb] in Hs.
    unfold H.maintenance in Hs. rewrite Hari, Hrev, andb_false_r in Hs.
    unfold H.renew_if_necessary, H.due in Hs. rewrite Dc in Hs. cbn [orb] in Hs. rewrite Hst in Hs.
    unfold H.renew_dynamic in Hs. rewrite Hn, Ec in Hs.
    destruct (H.renew_and_reload is_space w n c (H.h_issue_ok h)) as [[e r] w1] eqn:R.
    inv Hs. split; [reflexivity|]. split; [reflexivity|]. exists e. split; [reflexivity|].
    unfold H.renew_and_reload, H.renew_gate_name in R. rewrite Hrev in R.
    unfold H.gate in R. rewrite Hod in R. cbn [negb andb] in R.
    destruct (H.qualifies is_space n) eqn:Q; cbn [negb] in R.
    - right. unfold H.od_on in Hod. destruct (H.w_od w) as [[f|l]|]; [| |discriminate]; cbv beta iota zeta in R.
      + exists (f (H.w_evals w) n).
        destruct (f (H.w_evals w) n); cbn [negb] in R.
        * destruct (H.renew_cert _ n false _) as [[e1 ok1] w2]. destruct ok1.
          -- destruct (H.reload w2 c) as [[e2 r2] w3]. inv R. eexists. left. reflexivity.
          -- inv R. eexists. left. reflexivity.
        * inv R. eexists. left. reflexivity.
      + exists (H.allow_ok l n).
        destruct (H.allow_ok l n); cbn [negb] in R.
        * destruct (H.renew_cert _ n false _) as [[e1 ok1] w2]. destruct ok1.
          -- destruct (H.reload w2 c) as [[e2 r2] w3]. inv R. eexists. right. reflexivity.
          -- inv R. eexists. right. reflexivity.
        * inv R. eexists. right. reflexivity.
    - left. inv R. split; reflexivity.
  Qed.

  (** C04: expired => due, so the handshake itself renews (foreground): nothing is spawned, its
      own effects are the storage check and then the policy evaluation; if the policy refuses
      (or the name does not qualify) the certificate is evicted and the handshake fails — the
      expired certificate is not served *)
  Theorem expired_certificate_renewed_in_foreground w h id c n i rnd now own kids res w' :
    H.h_hit h = Some id -> H.cache_find id w = Some c -> H.h_name h = Some n ->
    H.c_managed c = true -> H.od_on w = true -> H.c_revoked c = false ->
    H.store_has (H.name0 c) w = true ->
    timed c i rnd now -> 0 < interval i -> spec_expiry (not_after i) <= now ->
    H.handshake is_space w h = (own, kids, res, w') ->
    decide scale i rnd now = Renew /\ kids = [] /\
    exists rest, own = H.EExists (H.name0 c) :: fst (fst (H.gate is_space w n true)) ++ rest /\
      (snd (fst (H.gate is_space w n true)) = false -> rest = [H.EEvict (H.c_id c)] /\ res = H.RErr 4).
  Proof.
    intros Hh Hf Hn Hm Hod Hrev Hst [Hd He] Hi Hex Hs.
    split; [apply renew_when_expired; assumption|].
    assert (Ec : H.c_expired c = true) by (rewrite He; apply Z.leb_le; exact Hex).
    unfold H.handshake, H.get_cert in Hs. rewrite Hh, Hf, Hm, Hod in Hs. cbn [andb] in Hs.
    unfold H.maintenance in Hs. rewrite Ec, Hrev, andb_false_r in Hs.
    assert (A : (match H.c_ari c with Some _ => ([] : list (list H.effect), w) | None => ([], w) end) = ([], w))
      by (destruct (H.c_ari c); reflexivity).
    rewrite A in Hs. clear A.
    unfold H.renew_if_necessary, H.due in Hs. rewrite Ec, orb_true_r, Hst in Hs.
    unfold H.renew_dynamic in Hs. rewrite Hn, Ec in Hs.
    unfold H.renew_and_reload, H.renew_gate_name in Hs. rewrite Hrev in Hs.
    destruct (H.gate is_space w n true) as [[ge a] w1] eqn:G. cbn [fst snd].
    destruct a; cbn [negb] in Hs.
    - destruct (H.renew_cert w1 n false (H.h_issue_ok h)) as [[e1 ok1] w2]. destruct ok1.
      + destruct (H.reload w2 c) as [[e2 r2] w3]. inv Hs. split; [reflexivity|].
        eexists. split; [reflexivity | discriminate].
      + inv Hs. split; [reflexivity|]. eexists. split; [reflexivity | discriminate].
    - inv Hs. split; [reflexivity|]. exists [H.EEvict (H.c_id c)]. split; [reflexivity|].
      intros _. split; reflexivity.
  Qed.
End RenewHandshake.

Print Assumptions due_is_C04_decision.
Print Assumptions fresh_cert_is_C04_fresh.
Print Assumptions not_due_certificate_served_untouched.
Print Assumptions due_certificate_served_and_renewed_in_background.
Print Assumptions expired_certificate_renewed_in_foreground.

(** ---- non-vacuity: S34's 90-day certificates on day 61 (float64 arithmetic), in a handshake world ---- *)
Definition z_sp := H.tbl_space [].
Definition z_a : H.name := [97; 46; 120]%N.     (* a.x: issued day 0, due on day 61 *)
Definition z_b : H.name := [98; 46; 120]%N.     (* b.x: issued day 50, nothing due *)
Definition z_c : H.name := [99; 46; 120]%N.     (* c.x: issued day -40, expired on day 50 *)
Definition z_iold : inputs := i90 (- (40 * day))%Z.
Definition z_cert (k : N) (n : H.name) (i : inputs) : H.cert :=
  H.Cert k [n] true (due_b scale_f64 i 0 t61) (spec_expiry (not_after i) <=? t61)%Z false false None.
Definition z_ca := z_cert 1 z_a (x_env 0).
Definition z_cb := z_cert 2 z_b (x_env 1).
Definition z_cc := z_cert 3 z_c z_iold.
Definition z_w : H.world :=
  H.World (Some (H.PDecision (fun _ _ => true))) 0 [z_ca; z_cb; z_cc]
          [(z_a, z_ca); (z_b, z_cb); (z_c, z_cc)] 0 10.
Definition z_hello (n : H.name) (id : N) := H.Hello (Some n) (Some id) None H.MgrNone true false.

Example renew_handshake_satisfiable :
  timed scale_f64 z_ca (x_env 0) 0 t61 /\ due_reason (x_env 0) 0 t61 /\ (t61 < spec_expiry (not_after (x_env 0)))%Z /\
  timed scale_f64 z_cb (x_env 1) 0 t61 /\ nothing_due (x_env 1) 0 t61 /\
  timed scale_f64 z_cc z_iold 0 t61 /\ (0 < interval z_iold)%Z /\ (spec_expiry (not_after z_iold) <= t61)%Z /\
  (H.c_due z_ca, H.c_expired z_ca, H.c_due z_cb, H.c_expired z_cb, H.c_due z_cc, H.c_expired z_cc)
    = (true, false, false, false, true, true) /\
  (* due: served, renewed in the background (policy, bundle read, issuer, reload) *)
  (let '(own, kids, r, _) := H.handshake z_sp z_w (z_hello z_a 1) in (own, kids, r))
    = ([H.EExists z_a], [[H.EDecision z_a true; H.ELoad z_a; H.EIssue z_a; H.ELoad z_a]], H.RCert 1) /\
  (* nothing due: served, nothing else *)
  (let '(own, kids, r, _) := H.handshake z_sp z_w (z_hello z_b 2) in (own, kids, r)) = ([], [], H.RCert 2) /\
  (* expired: renewed in the foreground, the new certificate (identity 10, fresh) is served *)
  (let '(own, kids, r, _) := H.handshake z_sp z_w (z_hello z_c 3) in (own, kids, r))
    = ([H.EExists z_c; H.EDecision z_c true; H.ELoad z_c; H.EIssue z_c; H.ELoad z_c], [], H.RCert 10) /\
  (* the certificate the issuer hands out on day 61 (identity >= 4 in S34's environment) is fresh *)
  timed scale_f64 (H.fresh_cert z_w z_c) (x_env 10) (x_draw 10) t61.
Proof.
  split; [split; reflexivity|]. split; [exact x_due_reason_0|]. split; [vm_compute; reflexivity|].
  split; [split; reflexivity|]. split; [exact x_nothing_due_1|].
  split; [split; reflexivity|]. split; [vm_compute; reflexivity|]. split; [vm_compute; congruence|].
  split; [vm_compute; reflexivity|]. split; [vm_compute; reflexivity|]. split; [vm_compute; reflexivity|].
  split; [vm_compute; reflexivity|].
  destruct (x_fresh 10 ltac:(lia)) as [Hf Ha].
  exact (fresh_cert_is_C04_fresh scale_f64 scale_f64_ok z_w z_c _ _ _ Hf Ha).
Qed.
