(** System: C13's concurrent model of the handshake (SingleFlight.Model: any number of goroutines,
    the two wait-channel maps) against C02's sequential model (Handshake.Model: one handshake).

    What each assumes of the other.  SingleFlight does not take "the worker's outcome" as an
    oracle: it has a coarse certificate / storage model of its own (one name per goroutine,
    certificates = generation + {valid, due, expired} + revoked), and the POLICY is the
    environment: the label [AGate allow] is whatever checkIfCertShouldBeObtained answered.
    Handshake computes the effects of one handshake run alone and PROVES the policy theorem
    (C02_gated) for it; about several handshakes at once it only says that a re-entering waiter
    is effect free.  So the question C02 leaves to C13 is: does the gating hold for EVERY
    goroutine when handshakes run concurrently, wait for each other, and re-enter?

    1. [concurrent_handshakes_pass_C02_monitor]: every goroutine of every run of the SingleFlight
       LTS (any schedule, any interference) — its steps projected into Handshake's effect
       vocabulary by [eff] — passes Handshake's own monitor [scan_ok], the boolean form of
       C02_gated.  [concurrent_issue_and_load_gated] is the positional reading.
    2. [reentry_agrees_without_default]: the re-entry of a waiter ([PStart false] / [get_cert
       .. false]) gives the same answer in both models, PROVIDED no defaulted certificate exists;
       [reentry_default_certificate_refuted]: with a DefaultServerName / FallbackServerName
       certificate cached the two models differ — SingleFlight has no such certificate
       (handshake.go L398: the waiter is served the defaulted certificate, not an error).
    3. [obtain_load_unmaintained_refuted]: SingleFlight hands the bundle loaded after an obtain back
       as it is; Handshake (and handshake.go since a768045) maintains it: an expired bundle
       that another instance stored meanwhile is an error in (H), a certificate in (F).
    4./5. [lone_run_agrees]: one handshake run ALONE — the LTS driven for a single goroutine
       ([lone], [lone_is_a_run]) against [Handshake.Model.handshake] on the abstracted world —
       gives the same answer in both models, for every certificate class / flag / generation,
       policy answers and issuer outcome (consistency on the overlap of the two models). *)
From Coq Require Import List NArith ZArith Bool Lia PeanoNat.
From CM Require Import Lib.Str.
From CM Require SingleFlight.Model SingleFlight.Proofs Handshake.Model Handshake.Proofs Props.C02.
Import ListNotations.

Module SF := CM.SingleFlight.Model.
Module SFP := CM.SingleFlight.Proofs.
Module H := CM.Handshake.Model.
Module HP := CM.Handshake.Proofs.

Ltac inv H := inversion H; subst; clear H.

Section Monitor.
  Variable is_space : N -> bool.
  (** names of (F) are numbers; SubjectQualifiesForCert is part of what [AGate] answers, so the
      names handshakes arrive with are taken to qualify *)
  Variable nm : SF.name -> H.name.
  Hypothesis nm_qual : forall n, H.qualifies is_space (nm n) = true.

  (** ** the abstraction: what a step of a goroutine is in (H)'s effect vocabulary *)
  Definition eff (p : SF.pc) (a : SF.act) (n : H.name) : list H.effect :=
    match p, a with
    | SF.PGate1 _, SF.AGate b => [H.EDecision n b]            (* checkIfCertShouldBeObtained(name, false) *)
    | SF.PGate2 _, SF.AGate b => [H.EDecision n b]            (* storage-missing branch *)
    | SF.PRenGate _ _ _ _, SF.AGate b => [H.EDecision n b]    (* renewAndReload *)
    | SF.PLoad, SF.AStep _ => [H.ELoad n]                     (* loadCertFromStorage *)
    | SF.PObtain _ _, SF.AIssue _ => [H.EIssue n]             (* ObtainCertAsync -> Issuer.Issue *)
    | SF.PObtLoad _, SF.AStep _ => [H.ELoad n]                (* load of the new bundle *)
    | SF.PRenLoad _ _ _ _, SF.AStep _ => [H.ELoad n]          (* RenewCertAsync reads the bundle *)
    | SF.PRenIssue _ _ _ _, SF.AIssue _ => [H.EIssue n]
    | SF.PRenReload _ _ _, SF.AStep _ => [H.ELoad n]          (* reloadManagedCertificate *)
    | _, _ => []
    end.

  (** per goroutine: the effects so far *)
  Definition log := SF.tid -> list H.effect.
  Definition step_log (s : SF.state) (lg : log) (l : SF.label) : log :=
    match l with
    | SF.LThread t a =>
        match SF.thr s t with
        | Some th => SF.upd lg t (lg t ++ eff (SF.t_pc th) a (nm (SF.t_name th)))
        | None => lg
        end
    | _ => lg
    end.
  Fixpoint run_log (s : SF.state) (lg : log) (ls : list SF.label) : option (SF.state * log) :=
    match ls with
    | [] => Some (s, lg)
    | l :: r => match SF.step s l with Some s' => run_log s' (step_log s lg l) r | None => None end
    end.

  Lemma run_log_run s lg ls : option_map fst (run_log s lg ls) = SF.run s ls.
  Proof.
    revert s lg. induction ls as [|l r IH]; intros s lg; cbn [run_log SF.run]; [reflexivity|].
    destruct (SF.step s l); [apply IH | reflexivity].
  Qed.

  (** program counters from which storage is read / the issuer called before the policy is
      asked again *)
  Definition needs_yes (p : SF.pc) : bool :=
    match p with
    | SF.PLoad | SF.PObtReg | SF.PObtain _ _ | SF.PObtLoad _
    | SF.PRenLoad _ _ _ _ | SF.PRenIssue _ _ _ _ | SF.PRenReload _ _ _ => true
    | _ => false
    end.

  Notation sc n := (H.scan is_space n None).
  Lemma eqb_refl (n : H.name) : str_eqb n n = true.
  Proof. apply str_eqb_eq. reflexivity. Qed.

  Lemma scan_dec n st b : sc n st [H.EDecision n b] = Some (Some (n, b)).
  Proof. cbn [H.scan H.eval_of H.cands existsb]. rewrite (eqb_refl n). reflexivity. Qed.
  Lemma scan_load n : H.qualifies is_space n = true -> sc n (Some (n, true)) [H.ELoad n] = Some (Some (n, true)).
  Proof.
    intros Q. cbn [H.scan H.eval_of H.needs_gate H.fit1]. unfold H.load_ok. rewrite (eqb_refl n), Q. reflexivity.
  Qed.
  Lemma scan_issue n : H.qualifies is_space n = true -> sc n (Some (n, true)) [H.EIssue n] = Some (Some (n, true)).
  Proof.
    intros Q. cbn [H.scan H.eval_of H.needs_gate H.fit1]. rewrite (eqb_refl n), Q. reflexivity.
  Qed.

  (** one step of a goroutine: its name stays, its effect is accepted by the monitor, and the
      monitor's state is a yes wherever the next step may read storage or call the issuer *)
  Lemma thread_step_scan s t th a s' st :
    SF.thread_step s t th a = Some s' ->
    (needs_yes (SF.t_pc th) = true -> st = Some (nm (SF.t_name th), true)) ->
    exists th', SF.thr s' t = Some th' /\ SF.t_name th' = SF.t_name th /\
      exists st', sc (nm (SF.t_name th)) st (eff (SF.t_pc th) a (nm (SF.t_name th))) = Some st' /\
        (needs_yes (SF.t_pc th') = true -> st' = Some (nm (SF.t_name th), true)).
  Proof.
    intros Hs Hst. pose proof (nm_qual (SF.t_name th)) as Q.
    unfold SF.thread_step in Hs.
    destruct (SF.t_pc th) eqn:P; destruct a; try discriminate; cbn [needs_yes] in Hst;
      try (specialize (Hst eq_refl); subst st);
      SFP.split_step Hs; inv Hs; cbn [SF.thr SF.set_thr SF.set_cache SF.set_store SF.bump_fresh SF.reg_l SF.reg_o SF.rel_l SF.rel_o];
      try (apply andb_true_iff in G as [G1 G2]; apply negb_true_iff, Nat.eqb_neq in G1;
           rewrite SFP.upd_other by congruence);
      rewrite SFP.upd_same; eexists; (split; [reflexivity|]); (split; [reflexivity|]);
      cbn [eff]; eexists;
      (split; [first [apply scan_dec | apply (scan_load _ Q) | apply (scan_issue _ Q) | reflexivity]|]);
      cbn [SF.t_pc SF.set_pc SF.set_ctx SF.set_ld SF.set_waited needs_yes]; intros E; try discriminate E; reflexivity.
  Qed.

  (** a goroutine that does not exist yet stays absent, or appears (arrival, spawned background
      renewal) at a program counter before its first policy evaluation *)
  Lemma step_none s l s' t : SF.step s l = Some s' -> SF.thr s t = None ->
    match SF.thr s' t with None => True | Some tb => needs_yes (SF.t_pc tb) = false end.
  Proof.
    intros Hs Ht.
    (* robust against new environment labels: every label other than a goroutine's step / an
       arrival leaves [thr] alone *)
    destruct l; cbn [SF.step] in Hs.
    1:{ destruct (SF.thr s t0) as [th0|] eqn:Ht0; [|discriminate].
      assert (Ne : t <> t0) by (intros ->; congruence).
      unfold SF.thread_step in Hs.
      destruct (SF.t_pc th0); destruct a; try discriminate; SFP.split_step Hs; inv Hs;
        cbn [SF.thr SF.set_thr SF.set_cache SF.set_store SF.bump_fresh SF.reg_l SF.reg_o SF.rel_l SF.rel_o];
        try (rewrite SFP.upd_other by exact Ne; rewrite Ht; exact I).
      (* the spawn *)
      destruct (Nat.eq_dec t b) as [->|Nb].
      + rewrite SFP.upd_same. reflexivity.
      + rewrite SFP.upd_other by exact Nb. rewrite SFP.upd_other by exact Ne. rewrite Ht. exact I. }
    1:{ apply SFP.guard_some in Hs as [_ Hs]. inv Hs. cbn [SF.thr SF.set_thr].
      destruct (Nat.eq_dec t t0) as [->|Ne].
      + rewrite SFP.upd_same. reflexivity.
      + rewrite SFP.upd_other by exact Ne. rewrite Ht. exact I. }
    all: try (apply SFP.guard_some in Hs as [_ Hs]); inv Hs; cbn; rewrite Ht; exact I.
  Qed.

  (** ** the invariant: every goroutine's effects so far pass the monitor *)
  Definition GI (s : SF.state) (lg : log) : Prop :=
    forall t,
      match SF.thr s t with
      | None => lg t = []
      | Some th =>
          exists st, sc (nm (SF.t_name th)) None (lg t) = Some st /\
            (needs_yes (SF.t_pc th) = true -> st = Some (nm (SF.t_name th), true))
      end.

  Lemma GI_step s lg l s' : GI s lg -> SF.step s l = Some s' -> GI s' (step_log s lg l).
  Proof.
    intros HI Hs t.
    (* the goroutine that moves *)
    assert (Hmove : forall t0 a th0, l = SF.LThread t0 a -> SF.thr s t0 = Some th0 -> t = t0 ->
              match SF.thr s' t with
              | None => step_log s lg l t = []
              | Some th => exists st, sc (nm (SF.t_name th)) None (step_log s lg l t) = Some st /\
                  (needs_yes (SF.t_pc th) = true -> st = Some (nm (SF.t_name th), true))
              end).
    { intros t0 a th0 -> Ht0 ->. cbn [SF.step] in Hs. rewrite Ht0 in Hs.
      pose proof (HI t0) as H0. rewrite Ht0 in H0. destruct H0 as (st & Hsc & Hst).
      destruct (thread_step_scan s t0 th0 a s' st Hs Hst) as (th' & Ht' & Hn & st' & Hsc' & Hst').
      rewrite Ht'. cbn [step_log]. rewrite Ht0, SFP.upd_same, Hn.
      exists st'. split; [|exact Hst']. rewrite HP.scan_app, Hsc. exact Hsc'. }
    (* everybody else *)
    assert (Hlog : (forall t0 a, l = SF.LThread t0 a -> t <> t0) -> step_log s lg l t = lg t).
    { intros Hne. destruct l; try reflexivity. cbn [step_log].
      destruct (SF.thr s t0); [|reflexivity]. apply SFP.upd_other. exact (Hne t0 a eq_refl). }
    assert (Hother : (forall t0 a, l = SF.LThread t0 a -> t <> t0) ->
              match SF.thr s' t with
              | None => step_log s lg l t = []
              | Some th => exists st, sc (nm (SF.t_name th)) None (step_log s lg l t) = Some st /\
                  (needs_yes (SF.t_pc th) = true -> st = Some (nm (SF.t_name th), true))
              end).
    { intros Hne. rewrite (Hlog Hne). pose proof (HI t) as Ht. destruct (SF.thr s t) as [th|] eqn:E.
      - assert (F : SF.thr s' t = Some th).
        { apply (SFP.frame s l s' t Hs); [|exact E]. destruct l; try exact I.
          intros e. exact (Hne _ _ eq_refl (eq_sym e)). }
        rewrite F. exact Ht.
      - pose proof (step_none s l s' t Hs E) as Hn. destruct (SF.thr s' t) as [tb|]; [|exact Ht].
        rewrite Ht. exists None. split; [reflexivity|]. rewrite Hn. discriminate. }
    assert (Hcase : (exists t0 a, l = SF.LThread t0 a) \/ (forall t0 a, l <> SF.LThread t0 a))
      by (destruct l; try (right; intros; discriminate); left; eauto).
    destruct Hcase as [(t0 & a & ->)|Hno]; [|apply Hother; intros t0 a E; exfalso; exact (Hno t0 a E)].
    destruct (Nat.eq_dec t t0) as [->|Ne].
    - pose proof Hs as Hs0. cbn [SF.step] in Hs0. destruct (SF.thr s t0) as [th0|] eqn:Ht0; [|discriminate].
      apply (Hmove t0 a th0 eq_refl); [|reflexivity]. exact Ht0.
    - apply Hother. intros t1 a1 E. inv E. exact Ne.
  Qed.

  Lemma GI_run ls : forall s lg s' lg', GI s lg -> run_log s lg ls = Some (s', lg') -> GI s' lg'.
  Proof.
    induction ls as [|l r IH]; intros s lg s' lg' HI Hr; cbn [run_log] in Hr; [inv Hr; exact HI|].
    destruct (SF.step s l) as [s1|] eqn:Hs; [|discriminate].
    exact (IH _ _ _ _ (GI_step s lg l s1 HI Hs) Hr).
  Qed.

  Lemma GI_init c0 s0 f0 : GI (SF.init c0 s0 f0) (fun _ => []).
  Proof. intros t. reflexivity. Qed.

  (** the projection only produces effects about the goroutine's own name *)
  Definition own_eff (n : H.name) (e : H.effect) : Prop :=
    match e with H.EDecision m _ | H.EIssue m | H.ELoad m => m = n | _ => False end.
  Lemma eff_own p a n e : In e (eff p a n) -> own_eff n e.
  Proof. destruct p; destruct a; cbn [eff]; intros He; try destruct He as [<-|[]]; try reflexivity; destruct He. Qed.
  Definition OI (s : SF.state) (lg : log) : Prop :=
    forall t, match SF.thr s t with
              | None => lg t = []
              | Some th => forall e, In e (lg t) -> own_eff (nm (SF.t_name th)) e
              end.
  Lemma OI_step s lg l s' : OI s lg -> SF.step s l = Some s' -> OI s' (step_log s lg l).
  Proof.
    intros HI Hs t.
    assert (Hother : step_log s lg l t = lg t ->
              (forall t0 a, l = SF.LThread t0 a -> t <> t0) ->
              match SF.thr s' t with
              | None => step_log s lg l t = []
              | Some th => forall e, In e (step_log s lg l t) -> own_eff (nm (SF.t_name th)) e
              end).
    { intros -> Hne. pose proof (HI t) as H1. destruct (SF.thr s t) as [th1|] eqn:E1.
      - assert (F : SF.thr s' t = Some th1).
        { apply (SFP.frame s l s' t Hs); [|exact E1]. destruct l; try exact I.
          intros e. exact (Hne t0 a eq_refl (eq_sym e)). }
        rewrite F. exact H1.
      - destruct (SF.thr s' t); [rewrite H1; intros e []|exact H1]. }
    assert (Hcase : (exists t0 a, l = SF.LThread t0 a) \/ (forall t0 a, l <> SF.LThread t0 a))
      by (destruct l; try (right; intros; discriminate); left; eauto).
    destruct Hcase as [(t0 & a & ->)|Hno].
    2:{ apply Hother; [destruct l; try reflexivity; exfalso; eapply Hno; reflexivity
                      | intros t0 a E; exfalso; exact (Hno t0 a E)]. }
    pose proof Hs as Hs0. cbn [SF.step] in Hs. destruct (SF.thr s t0) as [th0|] eqn:Ht0; [|discriminate].
    destruct (Nat.eq_dec t t0) as [->|Ne].
    - pose proof (HI t0) as H0. rewrite Ht0 in H0.
      destruct (thread_step_scan s t0 th0 a s' (Some (nm (SF.t_name th0), true)) Hs (fun _ => eq_refl))
        as (th' & Ht' & Hn & _).
      cbn [step_log]. rewrite Ht0, Ht', SFP.upd_same, Hn. intros e He.
      apply in_app_or in He as [He|He]; [exact (H0 e He) | exact (eff_own _ _ _ _ He)].
    - apply Hother.
      + cbn [step_log]. rewrite Ht0. apply SFP.upd_other. exact Ne.
      + intros t1 a1 E. inv E. exact Ne.
  Qed.
  Lemma OI_run ls : forall s lg s' lg', OI s lg -> run_log s lg ls = Some (s', lg') -> OI s' lg'.
  Proof.
    induction ls as [|l r IH]; intros s lg s' lg' HI Hr; cbn [run_log] in Hr; [inv Hr; exact HI|].
    destruct (SF.step s l) as [s1|] eqn:Hs; [|discriminate].
    exact (IH _ _ _ _ (OI_step s lg l s1 HI Hs) Hr).
  Qed.
  Lemma OI_init c0 s0 f0 : OI (SF.init c0 s0 f0) (fun _ => []).
  Proof. intros t. reflexivity. Qed.

  (** ** 1. every goroutine of every concurrent run passes C02's monitor *)
  Theorem concurrent_handshakes_pass_C02_monitor c0 s0 f0 ls s' lg' :
    run_log (SF.init c0 s0 f0) (fun _ => []) ls = Some (s', lg') ->
    forall t th, SF.thr s' t = Some th ->
    H.scan_ok is_space (nm (SF.t_name th)) None (lg' t) = true.
  Proof.
    intros Hr t th Ht. pose proof (GI_run ls _ _ _ _ (GI_init c0 s0 f0) Hr t) as HI.
    rewrite Ht in HI. destruct HI as (st & Hsc & _). unfold H.scan_ok. rewrite Hsc. reflexivity.
  Qed.

  (** ... position by position: an Issuer.Issue / a bundle read by a goroutine is about that
      goroutine's own name and is preceded, in the same goroutine, by a policy evaluation that
      answered yes and is its most recent one — whatever the other goroutines did meanwhile *)
  Theorem concurrent_issue_and_load_gated c0 s0 f0 ls s' lg' :
    run_log (SF.init c0 s0 f0) (fun _ => []) ls = Some (s', lg') ->
    forall t th, SF.thr s' t = Some th ->
    forall i x, nth_error (lg' t) i = Some x -> H.needs_gate x = true ->
    let n := nm (SF.t_name th) in
    (x = H.EIssue n \/ x = H.ELoad n) /\ CM.Props.C02.covered_by_yes n (lg' t) i.
  Proof.
    intros Hr t th Ht i x Hi Hx n.
    pose proof (GI_run ls _ _ _ _ (GI_init c0 s0 f0) Hr t) as HI.
    rewrite Ht in HI. destruct HI as (st & Hsc & _).
    destruct (HP.scan_sound is_space n None (lg' t) _ _ Hsc i x Hi Hx)
      as (y & Qy & Fy & [(j & z & Hj & Hz & Hp & Hb)|[Hs _]]); [|discriminate].
    pose proof (HP.scan_evals is_space n None (lg' t) _ _ Hsc z y true (nth_error_In _ _ Hz) Hp) as Hc.
    pose proof (OI_run ls _ _ _ _ (OI_init c0 s0 f0) Hr t) as Hown. rewrite Ht in Hown. fold n in Hown.
    pose proof (Hown x (nth_error_In _ _ Hi)) as Hxn.
    pose proof (Hown z (nth_error_In _ _ Hz)) as Hzn.
    assert (Hy : y = n). { destruct z; cbn in Hp; try discriminate; inv Hp; [exact Hzn | destruct Hzn]. }
    subst y. split.
    - destruct x; cbn in Hx; try discriminate; rewrite Hxn; auto.
    - exists j, z. split; [exact Hj|]. split; [exact Hz|]. split; [|exact Hb].
      destruct z; cbn in Hp; try discriminate; inv Hp; auto.
  Qed.
End Monitor.

Print Assumptions concurrent_handshakes_pass_C02_monitor.
Print Assumptions concurrent_issue_and_load_gated.

(** ** 2. the re-entry of a waiter: getCertDuringHandshake(ctx, hello, false) in both models *)
Section Reentry.
  Variable is_space : N -> bool.
  Variable nm : SF.name -> H.name.

  Definition cert_id (c : SF.cert) : N := N.of_nat (SF.gen c).

  (** what the cache lookup of (H) finds *)
  Definition hit_of (w : H.world) (h : H.hello) : option H.cert :=
    match H.h_hit h with Some id => H.cache_find id w | None => None end.

  (** the two models look at the same cache through their own eyes: (F)'s per-name lookup and
      (H)'s oracle name the same certificate; no external managers (not in (F)) *)
  Definition same_lookup (s : SF.state) (n : SF.name) (w : H.world) (h : H.hello) : Prop :=
    H.h_name h = Some (nm n) /\ H.mgr_view w h = H.MgrNone /\
    match SF.lookup (SF.cache s n) with
    | Some c => exists hc, hit_of w h = Some hc /\ H.c_id hc = cert_id c
    | None => hit_of w h = None
    end.

  Definition res_abs (r : SF.res) (x : H.result) : Prop :=
    match r, x with
    | SF.RCert c, H.RCert id => id = cert_id c
    | SF.RErr, H.RErr _ => True
    | _, _ => False
    end.

  (** (F): from [PStart false] a hit is returned at once; a miss leads to [PLoadReg false]; and
      from [PGate1 false] whatever the policy answers the result is an error *)
  Lemma sf_reentry_step s t th b : SF.t_pc th = SF.PStart false ->
    SF.thread_step s t th (SF.AStep b) =
      Some (SF.set_thr s t (SF.set_pc th (match SF.lookup (SF.cache s (SF.t_name th)) with
                                          | Some c => SF.PRet (SF.RCert c)
                                          | None => SF.PLoadReg false end))).
  Proof.
    intros P. unfold SF.thread_step. rewrite P.
    destruct (SF.lookup (SF.cache s (SF.t_name th))); reflexivity.
  Qed.
  Lemma sf_reentry_gate s t th allow : SF.t_pc th = SF.PGate1 false ->
    SF.thread_step s t th (SF.AGate allow) = Some (SF.set_thr s t (SF.set_pc th (SF.PRet SF.RErr))).
  Proof. intros P. unfold SF.thread_step. rewrite P. destruct allow; reflexivity. Qed.

  (** (H): the same call *)
  Lemma h_reentry fuel w h n own kids res w' :
    H.h_name h = Some n -> H.mgr_view w h = H.MgrNone ->
    H.get_cert is_space fuel w h false = (own, kids, res, w') ->
    match hit_of w h with
    | Some c => res = H.RCert (H.c_id c)
    | None => res = H.RErr 2 \/ res = H.fallback h
    end.
  Proof.
    intros Hn Hm Hg. unfold H.get_cert in Hg. fold (hit_of w h) in Hg. destruct (hit_of w h) as [c|].
    - rewrite andb_false_r in Hg. inv Hg. reflexivity.
    - rewrite Hn, Hm in Hg. unfold H.after_mgr in Hg.
      destruct (H.gate is_space w n false) as [[ge a] w1]. cbv beta iota zeta in Hg.
      destruct a; cbn [negb] in Hg; [|inv Hg; left; reflexivity].
      rewrite andb_false_r in Hg. inv Hg. right. reflexivity.
  Qed.

  Theorem reentry_agrees_without_default s t th w h fuel own kids res w' :
    SF.thr s t = Some th -> SF.t_pc th = SF.PStart false ->
    same_lookup s (SF.t_name th) w h -> H.h_default h = None ->
    H.get_cert is_space fuel w h false = (own, kids, res, w') ->
    match SF.lookup (SF.cache s (SF.t_name th)) with
    | Some c =>
        (forall b, SF.step s (SF.LThread t (SF.AStep b)) =
                   Some (SF.set_thr s t (SF.set_pc th (SF.PRet (SF.RCert c))))) /\
        res_abs (SF.RCert c) res
    | None =>
        (forall b, SF.step s (SF.LThread t (SF.AStep b)) =
                   Some (SF.set_thr s t (SF.set_pc th (SF.PLoadReg false)))) /\
        (* ... and once at the gate (no other goroutine is loading), whatever the policy says *)
        (forall s1 th1 allow, SF.thr s1 t = Some th1 -> SF.t_pc th1 = SF.PGate1 false ->
           SF.step s1 (SF.LThread t (SF.AGate allow)) =
           Some (SF.set_thr s1 t (SF.set_pc th1 (SF.PRet SF.RErr)))) /\
        res_abs SF.RErr res
    end.
  Proof.
    intros Ht P (Hn & Hm & Hl) Hd Hg.
    pose proof (h_reentry fuel w h _ own kids res w' Hn Hm Hg) as Hr.
    assert (S1 : forall b, SF.step s (SF.LThread t (SF.AStep b)) = SF.thread_step s t th (SF.AStep b))
      by (intros b; cbn [SF.step]; rewrite Ht; reflexivity).
    destruct (SF.lookup (SF.cache s (SF.t_name th))) as [c|] eqn:L.
    - destruct Hl as (hc & Hh & Hid). rewrite Hh in Hr. split.
      + intros b. rewrite S1, (sf_reentry_step s t th b P), L. reflexivity.
      + subst res. cbn [res_abs]. exact Hid.
    - rewrite Hl in Hr. split; [|split].
      + intros b. rewrite S1, (sf_reentry_step s t th b P), L. reflexivity.
      + intros s1 th1 allow Ht1 P1. cbn [SF.step]. rewrite Ht1. apply sf_reentry_gate. exact P1.
      + destruct Hr as [->| ->]; [exact I|]. unfold H.fallback. rewrite Hd. exact I.
  Qed.

  (** ... but with a certificate cached for DefaultServerName / FallbackServerName the waiter is
      served that certificate (handshake.go L398, also with loadOrObtainIfNecessary = false), in
      (H); (F), which has no such certificate, answers an error from [PGate1 false] in every state *)
  Theorem reentry_default_certificate_refuted :
    exists (w : H.world) (h : H.hello) (d : N),
      hit_of w h = None /\ H.h_default h = Some d /\
      (let '(_, _, r, _) := H.get_cert (H.tbl_space []) H.fuel0 w h false in r) = H.RCert d /\
      forall s t th allow, SF.t_pc th = SF.PGate1 false ->
        SF.thread_step s t th (SF.AGate allow) = Some (SF.set_thr s t (SF.set_pc th (SF.PRet SF.RErr))).
  Proof.
    exists (H.World (Some (H.PAllow [])) 0 [H.Cert 7 [[102]%N] false false false false false None] [] 0 8).
    exists (H.Hello (Some [97]%N) None (Some 7%N) H.MgrNone true false), 7%N.
    split; [reflexivity|]. split; [reflexivity|]. split; [vm_compute; reflexivity|].
    intros s t th allow P. apply sf_reentry_gate. exact P.
  Qed.
End Reentry.
Print Assumptions reentry_agrees_without_default.
Print Assumptions reentry_default_certificate_refuted.

(** ** 3. the bundle loaded right after an obtain: maintained in (H) and in handshake.go
    (obtainOnDemandCertificate calls loadCertFromStorage, L586), handed back as it is in (F) *)
Local Open Scope nat_scope.
Definition x_name : H.name := [97]%N.                            (* "a" *)
Definition x_expired_sf : SF.cert := SF.Cert 5 SF.Expired false.
Definition x_expired_h : H.cert := H.Cert 5%N [x_name] true true true false false None.
(** one goroutine: miss, policy yes, nothing in storage, it registers as the obtain worker; then
    another instance stores an (already expired) bundle: ObtainCertAsync is a no-op, the bundle is
    loaded and handed back *)
Definition x_run : list SF.label :=
  [SF.LArrive 0 0; SF.LThread 0 (SF.AStep 9); SF.LThread 0 (SF.AStep 9); SF.LThread 0 (SF.AGate true);
   SF.LThread 0 (SF.AStep 9); SF.LThread 0 (SF.AStep 9);
   SF.LStorePut 0 x_expired_sf;
   SF.LThread 0 (SF.AStep 9); SF.LThread 0 (SF.AStep 9); SF.LThread 0 (SF.AStep 9); SF.LThread 0 (SF.AStep 9)].
Definition x_world : H.world :=
  H.World (Some (H.PDecision (fun _ _ => true))) 0 [] [(x_name, x_expired_h)] 1 6%N.
Definition x_hello : H.hello := H.Hello (Some x_name) None None H.MgrNone true false.

Theorem obtain_load_unmaintained_refuted :
  (* (F): the handshake returns the expired certificate, nil error *)
  option_map (fun s => option_map SF.t_pc (SF.thr s 0)) (SF.run (SF.init (fun _ => []) (fun _ => None) 1) x_run)
    = Some (Some (SF.PDone (SF.RCert x_expired_sf))) /\
  (* (H): obtainOnDemandCertificate in the world the worker is in at that point (policy already
     asked once, the expired bundle in storage): an error *)
  (let '(e, _, r, _) := H.obtain_on_demand (H.load_and_maintain (H.tbl_space []) H.fuel0) x_world x_hello x_name in (e, r))
    = ([H.EExists x_name; H.ELoad x_name; H.EExists x_name], H.MErr).
Proof. split; vm_compute; reflexivity. Qed.
Print Assumptions obtain_load_unmaintained_refuted.

(** ---- non-vacuity of 1 and 2 ---- *)
Definition x_sp := H.tbl_space [].
Definition x_nm (n : SF.name) : H.name := repeat 97%N (S n).     (* "a", "aa", ... *)
Lemma x_nm_qual n : H.qualifies x_sp (x_nm n) = true.
Proof.
  apply HP.qualifies_spec.
  assert (A : forall c, In c (x_nm n) -> c = 97%N) by (intros c Hc; apply repeat_spec in Hc; exact Hc).
  split; [exists 97%N; split; [left; reflexivity | vm_compute; reflexivity]|].
  split; [intros [r Hr]; cbn in Hr; discriminate|].
  split.
  { intros [r Hr]. assert (Hin : In 46%N (x_nm n)) by (rewrite Hr; apply in_or_app; right; left; reflexivity).
    apply A in Hin. discriminate. }
  split; [intros Hin; apply A in Hin; discriminate|].
  intros c Hc Hr. apply A in Hc. subst c. vm_compute in Hr. decompose [or] Hr; try discriminate; assumption.
Qed.

(** two handshakes for one name: 0 misses, is allowed, finds nothing in storage, obtains; 1 arrives
    meanwhile, waits on 0's load channel, re-enters and is served from the cache *)
Definition x_run2 : list SF.label :=
  [SF.LArrive 0 0; SF.LThread 0 (SF.AStep 9); SF.LThread 0 (SF.AStep 9);
   SF.LArrive 1 0; SF.LThread 1 (SF.AStep 9); SF.LThread 1 (SF.AStep 9);
   SF.LThread 0 (SF.AGate true); SF.LThread 0 (SF.AStep 9); SF.LThread 0 (SF.AStep 9);
   SF.LThread 0 (SF.AIssue SF.OOk); SF.LThread 0 (SF.AStep 9); SF.LThread 0 (SF.AStep 9);
   SF.LThread 0 (SF.AStep 9);
   SF.LThread 1 SF.AWake; SF.LThread 1 (SF.AStep 9); SF.LThread 1 (SF.AStep 9)].

Example concurrent_monitor_satisfiable :
  option_map (fun p => (snd p 0, snd p 1, option_map SF.t_pc (SF.thr (fst p) 0), option_map SF.t_pc (SF.thr (fst p) 1)))
    (run_log x_nm (SF.init (fun _ => []) (fun _ => None) 1) (fun _ => []) x_run2)
  = Some ([H.EDecision (x_nm 0) true; H.ELoad (x_nm 0); H.EIssue (x_nm 0); H.ELoad (x_nm 0)], [],
          Some (SF.PDone (SF.RCert (SF.Cert 1 SF.Valid false))),
          Some (SF.PDone (SF.RCert (SF.Cert 1 SF.Valid false)))).
Proof. vm_compute. reflexivity. Qed.

(** the hypotheses of [reentry_agrees_without_default]: goroutine 1 of the run above just after
    its wake-up, and the (H) world with the same cache *)
Example reentry_satisfiable :
  let s := match SF.run (SF.init (fun _ => []) (fun _ => None) 1) (firstn 14 x_run2) with Some s => s | None => SF.init (fun _ => []) (fun _ => None) 1 end in
  let w := H.World (Some (H.PDecision (fun _ _ => true))) 0 [H.Cert 1%N [x_nm 0] true false false false false None] [] 1 2%N in
  let h := H.Hello (Some (x_nm 0)) (Some 1%N) None H.MgrNone true false in
  option_map SF.t_pc (SF.thr s 1) = Some (SF.PStart false) /\
  SF.lookup (SF.cache s 0) = Some (SF.Cert 1 SF.Valid false) /\
  same_lookup x_nm s 0 w h /\ H.h_default h = None /\
  (let '(_, _, r, _) := H.get_cert x_sp H.fuel0 w h false in r) = H.RCert 1%N.
Proof.
  cbv zeta. split; [vm_compute; reflexivity|]. split; [vm_compute; reflexivity|].
  split; [|split; [reflexivity | vm_compute; reflexivity]].
  split; [reflexivity|]. split; [reflexivity|].
  match goal with |- match ?X with _ => _ end => replace X with (Some (SF.Cert 1 SF.Valid false)) by (vm_compute; reflexivity) end.
  eexists. split; [vm_compute; reflexivity | reflexivity].
Qed.

(** ** 4. one handshake run alone: (F)'s goroutine against (H)'s function, on the abstract space.
    NOT a universally quantified theorem (see notes): an exhaustive computation over every
    combination of cached certificate (none / valid / due / expired x revoked, also two cached at
    once), stored bundle (none / valid / due / expired; the same certificate or another one),
    policy answers and issuer outcome.  [lone] drives the actual LTS ([SF.thread_step]) with the
    given answers until the goroutine is done; [h_world] / [h_hello] are the abstraction. *)
Definition next_act (s : SF.state) (th : SF.thread) (b : SF.tid) (gs : list bool) (o : SF.outcome)
  : option (SF.act * list bool) :=
  match SF.t_pc th with
  | SF.PGate1 _ | SF.PGate2 _ | SF.PRenGate _ _ _ _ =>
      match gs with g :: r => Some (SF.AGate g, r) | [] => None end
  | SF.PObtain _ _ => if SF.is_none (SF.store s (SF.t_name th)) then Some (SF.AIssue o, gs) else Some (SF.AStep b, gs)
  | SF.PRenIssue _ _ _ _ => Some (SF.AIssue o, gs)
  | SF.PLoadWait _ _ | SF.PObtWait _ _ | SF.PRenWait _ _ => None     (* alone: nobody to wait for *)
  | SF.PDone _ | SF.PExit => None
  | _ => Some (SF.AStep b, gs)
  end.
Fixpoint lone (fuel : nat) (s : SF.state) (t b : SF.tid) (gs : list bool) (o : SF.outcome) : option SF.res :=
  match fuel with
  | O => None
  | S f =>
      match SF.thr s t with
      | Some th =>
          match SF.t_pc th with
          | SF.PDone r => Some r
          | _ => match next_act s th b gs o with
                 | Some (a, gs') => match SF.thread_step s t th a with
                                    | Some s' => lone f s' t b gs' o
                                    | None => None
                                    end
                 | None => None
                 end
          end
      | None => None
      end
  end.

Definition h_cert (n : H.name) (c : SF.cert) : H.cert :=
  H.Cert (cert_id c) [n] true (SF.needs_renew c) (SF.expired c) (SF.revoked c) false None.
Definition h_world (n : H.name) (l : list SF.cert) (st : option SF.cert) (gs : list bool) (fr : nat) : H.world :=
  H.World (Some (H.PDecision (fun k _ => nth k gs false))) 0 (map (h_cert n) l)
          (match st with Some c => [(n, h_cert n (SF.unrevoked c))] | None => [] end) 0 (N.of_nat fr).
Definition h_hello (n : H.name) (l : list SF.cert) (o : SF.outcome) : H.hello :=
  H.Hello (Some n) (option_map cert_id (SF.lookup l)) None H.MgrNone
          (match o with SF.OOk => true | _ => false end) false.
Definition res_agree (r : option SF.res) (x : H.result) : bool :=
  match r, x with
  | Some (SF.RCert c), H.RCert id => N.eqb id (cert_id c)
  | Some SF.RErr, H.RErr _ => true
  | _, _ => false
  end.
Definition lone_case (l : list SF.cert) (st : option SF.cert) (gs : list bool) (o : SF.outcome) : bool :=
  let s0 := SF.init (fun _ => l) (fun _ => st) 3 in
  let r := match SF.step s0 (SF.LArrive 0 0) with Some s1 => lone 40 s1 0 1 gs o | None => None end in
  let '(_, _, x, _) := H.handshake x_sp (h_world x_name l st gs 3) (h_hello x_name l o) in
  res_agree r x.

Definition all_cls := [SF.Valid; SF.Due; SF.Expired].
Definition all_caches : list (list SF.cert) :=
  [] :: flat_map (fun k => [[SF.Cert 1 k false]; [SF.Cert 1 k true]]) all_cls
     ++ [[SF.Cert 1 SF.Expired false; SF.Cert 4 SF.Valid false]; [SF.Cert 1 SF.Due false; SF.Cert 4 SF.Expired false];
         [SF.Cert 1 SF.Expired false; SF.Cert 4 SF.Expired true]].
Definition all_stores : list (option SF.cert) :=
  None :: flat_map (fun k => [Some (SF.Cert 1 k false); Some (SF.Cert 2 k false)]) all_cls.
Definition all_gates : list (list bool) :=
  flat_map (fun a => flat_map (fun b => [[a; b; true]; [a; b; false]]) [true; false]) [true; false].
Definition all_outcomes := [SF.OOk; SF.OFail; SF.OCancel].

Example lone_runs_agree_on_the_abstract_space :
  forallb (fun l => forallb (fun st => forallb (fun gs => forallb (fun o => lone_case l st gs o)
    all_outcomes) all_gates) all_stores) all_caches = true.
Proof. vm_compute. reflexivity. Qed.

(** ** 5. ... and as a theorem, for every generation number, class, revocation flag, policy answer
    and issuer outcome, the per-name cache holding at most one certificate.
    The abstraction gives a certificate of (F) its ROLE as identity in (H): the cached certificate
    is 1, the stored bundle 2 — or 1 when it is the cached certificate's own bundle ([same]) —, the
    certificate the issuer signs 3 (any injective numbering of the generations that sends the three
    roles there gives this world; (F) compares generations only inside its cache, never for a
    result).  [r_agree]: the answers are the same certificate, by role, or both an error. *)
Definition r_cert (id : N) (c : SF.cert) : H.cert :=
  H.Cert id [x_name] true (SF.needs_renew c) (SF.expired c) (SF.revoked c) false None.
Definition r_world (oc os : option SF.cert) (same : bool) (gs : list bool) : H.world :=
  H.World (Some (H.PDecision (fun k _ => nth k gs false))) 0
          (match oc with Some c => [r_cert 1 c] | None => [] end)
          (match os with Some c => [(x_name, r_cert (if same then 1 else 2)%N (SF.unrevoked c))] | None => [] end) 0 3%N.
Definition r_hello (oc : option SF.cert) (o : SF.outcome) : H.hello :=
  H.Hello (Some x_name) (match oc with Some _ => Some 1%N | None => None end) None H.MgrNone
          (match o with SF.OOk => true | _ => false end) false.
Definition r_agree (oc os : option SF.cert) (same : bool) (fr : nat) (r : option SF.res) (x : H.result) : Prop :=
  match r, x with
  | Some (SF.RCert c), H.RCert 1%N => Some c = oc \/ (same = true /\ Some c = option_map SF.unrevoked os)
  | Some (SF.RCert c), H.RCert 2%N => same = false /\ Some c = option_map SF.unrevoked os
  | Some (SF.RCert c), H.RCert 3%N => c = SF.Cert fr SF.Valid false
  | Some SF.RErr, H.RErr _ => True
  | _, _ => False
  end.
(** (F): goroutine 0 arrives for name 0 in the state with that cache / storage and nobody else, and is
    driven to its end by the policy answers [gs] and the issuer outcome [o] *)
Definition sf_lone (oc os : option SF.cert) (fr : nat) (gs : list bool) (o : SF.outcome) : option SF.res :=
  let s0 := SF.init (fun _ => match oc with Some c => [c] | None => [] end) (fun _ => os) fr in
  match SF.step s0 (SF.LArrive 0 0) with Some s1 => lone 40 s1 0 1 gs o | None => None end.
Definition h_res (oc os : option SF.cert) (same : bool) (gs : list bool) (o : SF.outcome) : H.result :=
  let '(_, _, x, _) := H.handshake x_sp (r_world oc os same gs) (r_hello oc o) in x.

Theorem lone_run_agrees : forall (oc os : option SF.cert) (same : bool) (fr : nat) (a b : bool) (rest : list bool)
    (o : SF.outcome),
  r_agree oc os same fr (sf_lone oc os fr (a :: b :: rest) o) (h_res oc os same (a :: b :: rest) o).
Proof.
  intros [[g1 k1 r1]|] [[g2 k2 r2]|] same fr a b rest o.
  - destruct k1, r1, k2, same, a, b, o; lazy; auto.
  - destruct k1, r1, same, a, b, o; lazy; auto.
  - destruct k2, same, a, b, o; lazy; auto.
  - destruct same, a, b, o; lazy; auto.
Qed.
Print Assumptions lone_run_agrees.

(** [lone] is a run of the LTS: its answer is the program counter [PDone] of a state the labels reach *)
Lemma lone_is_a_run fuel : forall s t b gs o r, lone fuel s t b gs o = Some r ->
  exists ls s' th, SF.run s ls = Some s' /\ SF.thr s' t = Some th /\ SF.t_pc th = SF.PDone r /\
    Forall (fun l => exists a, l = SF.LThread t a) ls.
Proof.
  induction fuel as [|f IH]; intros s t b gs o r Hl; cbn [lone] in Hl; [discriminate|].
  destruct (SF.thr s t) as [th|] eqn:Ht; [|discriminate].
  assert (Hgo : match next_act s th b gs o with
                | Some (a, gs') => match SF.thread_step s t th a with
                                   | Some s' => lone f s' t b gs' o
                                   | None => None end
                | None => None end = Some r ->
                exists ls s' th', SF.run s ls = Some s' /\ SF.thr s' t = Some th' /\ SF.t_pc th' = SF.PDone r /\
                  Forall (fun l => exists a, l = SF.LThread t a) ls).
  { intros Hn. destruct (next_act s th b gs o) as [[a gs']|]; [|discriminate].
    destruct (SF.thread_step s t th a) as [s1|] eqn:Hs; [|discriminate].
    destruct (IH _ _ _ _ _ _ Hn) as (ls & s' & th' & Hr & Ht' & Hp & Hf).
    exists (SF.LThread t a :: ls), s', th'. split; [|split; [exact Ht'|split; [exact Hp|]]].
    - cbn [SF.run SF.step]. rewrite Ht, Hs. exact Hr.
    - constructor; [eexists; reflexivity | exact Hf]. }
  destruct (SF.t_pc th) eqn:P; try (apply Hgo; exact Hl).
  inv Hl. exists [], s, th. split; [reflexivity|]. split; [exact Ht|]. split; [exact P | constructor].
Qed.
Print Assumptions lone_is_a_run.
