(** System S11, part 1 — the OCSP model (C14, [Ocsp.Model]) as the source of the revocation
    statuses that the maintenance model's revocation extension (C05, [Maintain.XModel]) ASSUMES.

    C05/XModel: "[Revoke i]: the cache entry [i] gets OCSP status Revoked (what updateOCSPStaples
    records when a responder says so)" - how a status becomes Revoked is explicitly not in that
    model. C14 models exactly that: one call of stapleOCSP and the tick of updateOCSPStaples.

    This file is about C14's side only: it extracts from [Ocsp.Model.tick_one] the DECISION
    "this certificate goes through forceRenew in this pass" as a boolean function of the
    certificate, its recorded status, the persisted staple and the responder's answer
    ([tick_revokes]), proves that the model's pass takes a certificate out of the cache exactly
    when that function says so, and reads the function in plain terms (signed by the issuer, for
    this serial, in date, status Revoked).  OcspMaintain2.v connects it with XModel. *)
From Coq Require Import List ZArith Bool Lia.
From CM Require Import Ocsp.Model Ocsp.Proofs.
Import ListNotations.
Open Scope Z_scope.

(** * The response a call of stapleOCSP judges *)

(** getOCSPForCert: what comes back from the responder, verified against the issuer *)
Definition asked (c : cert) (e : env) : option resp :=
  if c_url c then match e_ans e with ABytes b => parse_issuer b | _ => None end else None.

(** the one response [staple] looks at: the persisted one if it is verifiable, fresh and valid
    for the certificate, else the responder's *)
Definition judged (dis : bool) (c : cert) (now : Z) (e : env) (stv : option blob) : option resp :=
  if dis then None else
  match (if e_load_err e || negb (c_chain c) then None else stv) with
  | Some b => match stored_parse c b with
              | Some r => if fresh now r && valid_for c now r then Some r else asked c e
              | None => asked c e
              end
  | None => asked c e
  end.

(** checkOCSPResponse + the NextUpdate-after-expiry test *)
Definition accepted (c : cert) (now : Z) (r : resp) : bool :=
  valid_for c now r && (r_next r <=? c_expiry c).

(** C14's verdict of one call: the status of the judged response if it passes all checks *)
Definition verdict (dis : bool) (c : cert) (now : Z) (e : env) (stv : option blob) : option status :=
  match judged dis c now e stv with
  | Some r => if accepted c now r then Some (r_status r) else None
  | None => None
  end.

Definition says_revoked (v : option status) : bool :=
  match v with Some Revoked => true | _ => false end.

Lemma ltb_leb_neg a b : (a <? b) = negb (b <=? a).
Proof. destruct (Z.ltb_spec a b), (Z.leb_spec b a); try reflexivity; lia. Qed.

Lemma finish_ocsp c cs st ops ct sn got b r e now :
  let res := finish c cs st ops ct sn got b r e now in
  cs_ocsp (res_cs res) = (if accepted c now r then Some r else cs_ocsp cs) /\
  (accepted c now r = true -> r_status r <> Good -> res_err res = false).
Proof.
  cbn. unfold finish, accepted. destruct (valid_for c now r); cbn [negb andb]; [|split; [reflexivity|discriminate]].
  rewrite ltb_leb_neg. destruct (r_next r <=? c_expiry c); cbn [negb]; [|split; [reflexivity|discriminate]].
  destruct (r_status r); [|split; auto|split; auto].
  split; [|intros _ H; congruence].
  destruct got; [destruct (e_store_err e)|]; reflexivity.
Qed.

Lemma ask_ocsp c cs st ops e now :
  let res := ask c cs st ops e now in
  cs_ocsp (res_cs res) =
    match asked c e with
    | Some r => if accepted c now r then Some r else cs_ocsp cs
    | None => cs_ocsp cs
    end /\
  (forall r, asked c e = Some r -> accepted c now r = true -> r_status r <> Good -> res_err res = false).
Proof.
  cbn. unfold ask, asked, no_answer. destruct (c_url c); cbn [negb]; [|split; [reflexivity|discriminate]].
  destruct (e_ans e) as [| |b]; try (split; [reflexivity|discriminate]).
  destruct (parse_issuer b) as [r|]; [|split; [reflexivity|discriminate]].
  destruct (finish_ocsp c cs st ops true true true b r e now) as [A B]. split; [exact A|].
  intros r' E. inversion E; subst. exact B.
Qed.

(** what one call leaves as [Certificate.ocsp], and that a verdict Revoked / Unknown is no error *)
Lemma staple_ocsp dis c cs stv e now :
  let res := staple dis c cs stv e now in
  cs_ocsp (res_cs res) =
    match judged dis c now e stv with
    | Some r => if accepted c now r then Some r else cs_ocsp cs
    | None => cs_ocsp cs
    end /\
  (forall r, judged dis c now e stv = Some r -> accepted c now r = true -> r_status r <> Good ->
             res_err res = false).
Proof.
  cbn. unfold staple, judged. destruct dis; [split; [reflexivity|discriminate]|].
  destruct (if e_load_err e || negb (c_chain c) then None else stv) as [b|]; [|apply ask_ocsp].
  destruct (stored_parse c b) as [r|]; [|apply ask_ocsp].
  destruct (fresh now r && valid_for c now r); [|apply ask_ocsp].
  destruct (finish_ocsp c cs stv [SLoad] false false false b r e now) as [A B]. split; [exact A|].
  intros r' E. inversion E; subst. exact B.
Qed.

(** the call turns the recorded status into Revoked exactly on a verdict Revoked *)
Lemma staple_is_revoked dis c cs stv e now :
  let res := staple dis c cs stv e now in
  is_revoked (cs_ocsp (res_cs res)) =
    match verdict dis c now e stv with
    | Some s => status_eqb s Revoked
    | None => is_revoked (cs_ocsp cs)
    end.
Proof.
  cbn. destruct (staple_ocsp dis c cs stv e now) as [A _]. rewrite A. unfold verdict.
  destruct (judged dis c now e stv) as [r|]; [|reflexivity].
  destruct (accepted c now r); reflexivity.
Qed.

Lemma staple_revoked_no_err dis c cs stv e now :
  says_revoked (verdict dis c now e stv) = true -> res_err (staple dis c cs stv e now) = false.
Proof.
  intros H. destruct (staple_ocsp dis c cs stv e now) as [_ B]. unfold verdict in H.
  destruct (judged dis c now e stv) as [r|] eqn:J; [|discriminate].
  destruct (accepted c now r) eqn:A; [|discriminate].
  apply (B r eq_refl A). intros G. rewrite G in H. discriminate.
Qed.

(** * The decision of the tick (updateOCSPStaples) for one cached certificate *)

Definition recorded (en : entry) : bool := is_revoked (cs_ocsp (en_cs en)).

(** "no need to update our staple if still fresh and not Unknown" *)
Definition still_fresh (now : Z) (en : entry) : bool :=
  match cs_ocsp (en_cs en) with
  | Some r => negb (status_eqb (r_status r) Unknown) && fresh now r
  | None => false
  end.

(** the pass asks for a new status and the verdict is Revoked *)
Definition learns (dis : bool) (now : Z) (e : env) (en : entry) (stv : option blob) : bool :=
  negb (still_fresh now en) && says_revoked (verdict dis (en_cert en) now e stv).

(** THE DECISION: the tick puts this certificate through forceRenew *)
Definition tick_revokes (dis : bool) (now : Z) (e : env) (en : entry) (stv : option blob) : bool :=
  negb (c_expiry (en_cert en) <? now) && en_managed en && (recorded en || learns dis now e en stv).

(** [tick_one] IS that decision: forceRenew (the old entry is not in the result, at most the
    replacement is) exactly when [tick_revokes]; otherwise the same certificate stays, possibly
    with a new staple *)
Theorem tick_one_decision dis now e rn en st l st' cl :
  tick_one dis now e rn en st = (l, st', cl) ->
  if tick_revokes dis now e en (sget (eid en) st)
  then exists st0 cl0 cl1, do_renew dis now rn st0 = (l, st', cl1) /\ cl = cl0 ++ cl1
  else exists en', l = [en'] /\ en_cert en' = en_cert en /\ en_managed en' = en_managed en.
Proof.
  unfold tick_one, tick_revokes, learns, recorded, still_fresh. fold (eid en).
  destruct (c_expiry (en_cert en) <? now); cbn [negb andb].
  { intros H; inversion H; subst. eauto. }
  unfold force_renew at 1.
  destruct (en_managed en) eqn:Mg; cbn [andb].
  - destruct (is_revoked (cs_ocsp (en_cs en))) eqn:Rec; cbn [orb].
    { intros H. exists st, [], cl. split; [exact H|reflexivity]. }
    set (sf := match cs_ocsp (en_cs en) with
               | Some r => negb (status_eqb (r_status r) Unknown) && fresh now r
               | None => false end).
    destruct sf; cbn [negb andb].
    { intros H; inversion H; subst. eauto. }
    cbv zeta.
    set (res := staple dis (en_cert en) (en_cs en) (sget (eid en) st) e now).
    pose proof (staple_is_revoked dis (en_cert en) (en_cs en) (sget (eid en) st) e now) as IR.
    pose proof (staple_revoked_no_err dis (en_cert en) (en_cs en) (sget (eid en) st) e now) as NE.
    cbv zeta in IR. fold res in IR, NE. rewrite Rec in IR.
    destruct (says_revoked (verdict dis (en_cert en) now e (sget (eid en) st))) eqn:SR.
    + rewrite (NE eq_refl). unfold force_renew. rewrite IR. cbn [andb].
      assert (Hv : match verdict dis (en_cert en) now e (sget (eid en) st) with
                   | Some s => status_eqb s Revoked | None => false end = true).
      { destruct (verdict dis (en_cert en) now e (sget (eid en) st)) as [[]|]; try discriminate. reflexivity. }
      rewrite Hv.
      destruct (do_renew dis now rn (sset (eid en) (res_store res) st)) as [[l0 s2] cl2] eqn:D.
      intros H; inversion H; subst.
      exists (sset (eid en) (res_store res) st), [call_of (en_cert en) res], cl2. split; [exact D|reflexivity].
    + assert (Hv : match verdict dis (en_cert en) now e (sget (eid en) st) with
                   | Some s => status_eqb s Revoked | None => false end = false).
      { destruct (verdict dis (en_cert en) now e (sget (eid en) st)) as [[]|]; try discriminate; reflexivity. }
      destruct (res_err res).
      { intros H; inversion H; subst. eauto. }
      unfold force_renew. rewrite IR, Hv. cbn [andb].
      intros H; inversion H; subst. eexists. split; [reflexivity|].
      destruct (cs_ocsp (res_cs res)) as [r|]; [|auto].
      destruct (status_eqb (r_status r) Good && _); auto.
  - cbn [andb].
    set (sf := match cs_ocsp (en_cs en) with
               | Some r => negb (status_eqb (r_status r) Unknown) && fresh now r
               | None => false end).
    destruct sf.
    { intros H; inversion H; subst. eauto. }
    cbv zeta.
    set (res := staple dis (en_cert en) (en_cs en) (sget (eid en) st) e now).
    destruct (res_err res).
    { intros H; inversion H; subst. eauto. }
    unfold force_renew. cbn [andb].
    intros H; inversion H; subst. eexists. split; [reflexivity|].
    destruct (cs_ocsp (res_cs res)) as [r|]; [|auto].
    destruct (status_eqb (r_status r) Good && _); auto.
Qed.

(** * The whole pass: who is in the cache afterwards *)

Lemma do_renew_has dis now rn st l st' cl id :
  do_renew dis now rn st = (l, st', cl) ->
  has_cert id l = match rn with ROk newc _ => c_id newc =? id | _ => false end.
Proof.
  unfold do_renew. destruct rn as [|newc e|]; intros H; inversion H; subst; cbn; auto using orb_false_r.
Qed.

(** after one tick over the whole cache, a certificate is still cached iff the decision was "no";
    and where it was "yes" and the forced renewal yields a certificate, that one is cached *)
Theorem tick_pass_membership s dis now envs rns en :
  NoDup (ids (cache s)) -> new_fresh (cache s) rns -> In en (cache s) ->
  let post := cache (fst (step s (OMaintain tick dis now envs rns))) in
  let d := tick_revokes dis now (envs (eid en)) en (sget (eid en) (stor s)) in
  has_cert (eid en) post = negb d /\
  (d = true -> forall newc e', rns (eid en) = ROk newc e' -> has_cert (c_id newc) post = true).
Proof.
  intros N F I. cbn [step].
  destruct (maintain tick dis now envs rns (cache s) (stor s)) as [[l' st'] cl] eqn:M. cbn [fst cache].
  destruct (in_split _ _ I) as (la & lb & E). rewrite E in M, N, F.
  destruct (maintain_focus dis now envs rns en la lb _ _ _ _ M N F)
    as (stk & lk & stk' & clk & M1 & G1 & _ & _ & H & Inc).
  unfold tick in M1. cbn [maintain_one] in M1.
  pose proof (tick_one_decision _ _ _ _ _ _ _ _ _ M1) as D. rewrite G1 in D.
  rewrite <- E in F.
  destruct (tick_revokes dis now (envs (eid en)) en (sget (eid en) (stor s))); cbn [negb].
  - destruct D as (st0 & cl0 & cl1 & D & _). split.
    + rewrite H, (do_renew_has _ _ _ _ _ _ _ (eid en) D).
      destruct (rns (eid en)) as [|newc e'|] eqn:R; auto.
      apply Z.eqb_neq. intros Q. apply (F en newc e' I R). rewrite Q. apply in_map. exact I.
    + intros _ newc e' R. apply has_cert_in.
      assert (Hk : has_cert (c_id newc) lk = true).
      { rewrite (do_renew_has _ _ _ _ _ _ _ (c_id newc) D), R. apply Z.eqb_refl. }
      apply has_cert_in in Hk. unfold ids in *. apply in_map_iff in Hk as (x & Hx & Ix).
      apply in_map_iff. exists x. split; [exact Hx|]. apply Inc. exact Ix.
  - destruct D as (en' & -> & Ec & _). split; [|discriminate].
    rewrite H. cbn. rewrite Ec. fold (eid en). rewrite Z.eqb_refl. reflexivity.
Qed.

(** * The decision in plain terms *)

(** a response that revokes THIS certificate NOW: status Revoked, same serial, in date, signed by
    the issuer or by a currently valid delegate with the OCSP-signing purpose, not outliving the
    certificate *)
Definition RevokedFor (c : cert) (now : Z) (r : resp) : Prop :=
  r_status r = Revoked /\ r_sig r = true /\ r_serial r = c_serial c /\ r_this r <= now /\
  (r_next r = zero_time \/ now < r_next r) /\ responder_ok now r = true /\ r_next r <= c_expiry c.

(** where the judged response comes from: the responder's answer to this call, or the persisted
    staple (verified against the issuer in the chain, still fresh); always signature-checked *)
Lemma judged_origin dis c now e stv r :
  judged dis c now e stv = Some r ->
  dis = false /\ r_sig r = true /\
  ((exists b, e_ans e = ABytes b /\ b_parse b = Some r /\ c_url c = true) \/
   (exists b, stv = Some b /\ b_parse b = Some r /\ fresh now r = true /\ c_chain c = true /\
              e_load_err e = false)).
Proof.
  unfold judged. destruct dis; [discriminate|].
  assert (HA : asked c e = Some r -> false = false /\ r_sig r = true /\
     ((exists b, e_ans e = ABytes b /\ b_parse b = Some r /\ c_url c = true) \/
      (exists b, stv = Some b /\ b_parse b = Some r /\ fresh now r = true /\ c_chain c = true /\
              e_load_err e = false))).
  { unfold asked. destruct (c_url c); [|discriminate]. destruct (e_ans e) as [| |b]; try discriminate.
    intros P. apply parse_issuer_spec in P as [P S]. split; [reflexivity|]. split; [exact S|]. left. eauto. }
  destruct (e_load_err e) eqn:L; cbn [orb]; [exact HA|].
  destruct (c_chain c) eqn:Ch; cbn [negb]; [|exact HA].
  destruct stv as [b|]; [|exact HA].
  destruct (stored_parse c b) as [r0|] eqn:P; [|exact HA].
  destruct (fresh now r0 && valid_for c now r0) eqn:FV; [|exact HA].
  intros Q; inversion Q; subst r0. apply andb_true_iff in FV as [Fr _].
  destruct (stored_parse_some _ _ _ P) as (P1 & P2 & _).
  split; [reflexivity|]. split; [exact P2|]. right. exists b. auto.
Qed.

Lemma accepted_spec c now r :
  accepted c now r = true <->
  r_serial r = c_serial c /\ r_this r <= now /\ (r_next r = zero_time \/ now < r_next r) /\
  responder_ok now r = true /\ r_next r <= c_expiry c.
Proof.
  unfold accepted. rewrite andb_true_iff, valid_for_spec, Z.leb_le. tauto.
Qed.

(** the decision = unexpired, managed, and a Revoked status that was recorded earlier or is the
    verdict of this pass's call on a response that revokes this certificate now *)
Theorem tick_revokes_iff dis now e en stv :
  tick_revokes dis now e en stv = true <->
  now <= c_expiry (en_cert en) /\ en_managed en = true /\
  (recorded en = true \/
   (still_fresh now en = false /\
    exists r, judged dis (en_cert en) now e stv = Some r /\ RevokedFor (en_cert en) now r)).
Proof.
  unfold tick_revokes, learns. rewrite !andb_true_iff, orb_true_iff, andb_true_iff, !negb_true_iff, Z.ltb_ge.
  assert (V : says_revoked (verdict dis (en_cert en) now e stv) = true <->
              exists r, judged dis (en_cert en) now e stv = Some r /\ RevokedFor (en_cert en) now r).
  { unfold verdict, RevokedFor. destruct (judged dis (en_cert en) now e stv) as [r|] eqn:J.
    - destruct (accepted (en_cert en) now r) eqn:A.
      + apply accepted_spec in A. destruct (judged_origin _ _ _ _ _ _ J) as (_ & Sg & _). split.
        * intros H. exists r. split; [reflexivity|]. destruct (r_status r); try discriminate. tauto.
        * intros (r' & Q & S & _). inversion Q; subst r'. rewrite S. reflexivity.
      + split; [discriminate|]. intros (r' & Q & S & Sg & R). inversion Q; subst r'.
        assert (accepted (en_cert en) now r = true) by (apply accepted_spec; tauto). congruence.
    - split; [discriminate|]. intros (r' & Q & _). discriminate. }
  rewrite V. tauto.
Qed.

(** the negative direction for one certificate: no recorded revocation and no response that
    revokes this certificate now (whatever else the responder or storage offer: another serial,
    a bad signature, an expired or future response, Good, Unknown, nothing) => decision "no" *)
Corollary rejected_never_revokes dis now e en stv :
  recorded en = false ->
  (forall r, judged dis (en_cert en) now e stv = Some r -> ~ RevokedFor (en_cert en) now r) ->
  tick_revokes dis now e en stv = false.
Proof.
  intros R H. destruct (tick_revokes dis now e en stv) eqn:T; [|reflexivity].
  apply tick_revokes_iff in T as (_ & _ & [T|(_ & r & J & Q)]); [congruence|].
  exfalso. exact (H r J Q).
Qed.

(** nothing verifiable comes back (refused, dropped, garbage, bad signature) and nothing fresh is
    persisted: the call has no verdict *)
Lemma unreachable_no_verdict c now e stv :
  reusable c now stv = false ->
  match e_ans e with ABytes b => parse_issuer b = None | _ => True end ->
  verdict false c now e stv = None.
Proof.
  intros Ru A. unfold verdict.
  assert (HA : asked c e = None).
  { unfold asked. destruct (c_url c); [|reflexivity]. destruct (e_ans e); auto. }
  unfold judged. cbn [negb]. unfold reusable in Ru.
  destruct (e_load_err e || negb (c_chain c)); [rewrite HA; reflexivity|].
  destruct stv as [b|]; [|rewrite HA; reflexivity].
  destruct (stored_parse c b) as [r|]; [|rewrite HA; reflexivity].
  rewrite Ru, HA. reflexivity.
Qed.

(** * From the outside: the responder's answer decides *)

(** no fresh valid persisted staple: the judged response is the responder's *)
Lemma judged_asked c now e stv :
  reusable c now stv = false -> judged false c now e stv = asked c e.
Proof.
  intros Ru. unfold judged, reusable in *.
  destruct (e_load_err e || negb (c_chain c)); [reflexivity|].
  destruct stv as [b|]; [|reflexivity]. destruct (stored_parse c b) as [r|]; [|reflexivity].
  rewrite Ru. reflexivity.
Qed.

(** a managed, unexpired certificate whose status is due for a refresh (none recorded, Unknown,
    or no longer fresh), stapling enabled, a responder to ask, and the responder's answer revokes
    this certificate now: the decision is "yes" *)
Theorem responder_revoked_decides now e en stv b r :
  now <= c_expiry (en_cert en) -> en_managed en = true -> still_fresh now en = false ->
  reusable (en_cert en) now stv = false -> c_url (en_cert en) = true ->
  e_ans e = ABytes b -> b_parse b = Some r -> RevokedFor (en_cert en) now r ->
  tick_revokes false now e en stv = true.
Proof.
  intros X Mg Sf Ru U A P R. apply tick_revokes_iff. split; [exact X|]. split; [exact Mg|]. right.
  split; [exact Sf|]. exists r. split; [|exact R].
  rewrite (judged_asked _ _ _ _ Ru). unfold asked. rewrite U, A.
  apply parse_issuer_spec. destruct R as (_ & Sg & _). auto.
Qed.
