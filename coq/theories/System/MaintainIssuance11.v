(** System / S12 (part 11) -- INCOMPLETE bundles are ABSENT (for every storage, every state).

    [Maintain.Model.store] maps a name to a certificate or to nothing; [Issuance.Model] (and the
    storage) can hold one or two of the three files of a bundle.  The agreement theorems
    (MaintainIssuance7.v / 9.v) are stated for complete-or-absent storage ([bundle_rel]).  This
    file proves, on the Issuance LTS, that nothing is lost by that: whenever ANY of the three
    files is missing
      - obtainCert's pre-check ([PObtain], config.go:518 storageHasCertResourcesAnyIssuer =
        Exists crt && Exists key && Exists meta, config.go:1229) answers "no" after at most three
        Exists and the request is where it would be from empty storage ([after_pre]);
      - manageOne's CacheManagedCertificate ([PManage], loadCertResource: Load key, crt, meta,
        crypto.go:249-259, fs.ErrNotExist at the first missing one) fails after at most three
        Loads and the request enters the obtain path ([PPre KCrt]), nothing cached;
    storage and locks untouched in both.  So the right abstraction of an incomplete bundle is
    Maintain's [stored n = None] -- which is what the Go code does. *)
From Coq Require Import List Bool Arith Lia.
From CM Require Issuance.Model Maintain.Model.
From CM Require Import Issuance.Base System.MaintainIssuance3 System.MaintainIssuance6 System.MaintainIssuance8.
Import ListNotations.
Open Scope nat_scope.

#[local] Arguments I.sput : simpl never.
#[local] Arguments I.lput : simpl never.

Definition incomplete (sto : I.skey -> option I.value) (n : nat) : Prop :=
  sto (I.SK n I.KCrt) = None \/ sto (I.SK n I.KKey) = None \/ sto (I.SK n I.KMeta) = None.

Lemma mseg_incomplete t lk n idn reuse chk force issdue sto lks ncid nkid lkey lcrt nk nc sn rc fl :
  incomplete sto n ->
  exists fbs es lkey' lcrt',
    trun t (MT lk n idn reuse chk force issdue (I.PMLd I.Ph0 I.KKey) I.OpObtain lkey lcrt nk nc sn rc fl)
         (I.Shared sto lks ncid nkid) fbs =
    Some (MT lk n idn reuse chk force issdue (I.PPre I.KCrt) I.OpObtain lkey' lcrt' nk nc sn rc fl,
          I.Shared sto lks ncid nkid, es) /\
    1 <= length es <= 3 /\ (forall e, In e es -> exists j o, e = Ld t n j o).
Proof.
  intros H. unfold incomplete in H. unfold Ld, E, MT, mcfg.
  destruct (sto (I.SK n I.KKey)) as [vk|] eqn:Hk.
  2:{ exists [N], [Ld t n I.KKey 1], lkey, lcrt. split; [|split; [cbn; lia|]].
      - unfold Ld, E. go6 ltac:(rewrite ?Hk).
      - intros e [<-|[]]. do 2 eexists; reflexivity. }
  destruct (sto (I.SK n I.KCrt)) as [vc|] eqn:Hc.
  2:{ exists [N; N], [Ld t n I.KKey 0; Ld t n I.KCrt 1], (Some (I.key_of vk)), lcrt. split; [|split; [cbn; lia|]].
      - unfold Ld, E. go6 ltac:(rewrite ?Hc, ?Hk).
      - intros e [<-|[<-|[]]]; do 2 eexists; reflexivity. }
  destruct (sto (I.SK n I.KMeta)) as [vm|] eqn:Hm.
  2:{ exists [N; N; N], [Ld t n I.KKey 0; Ld t n I.KCrt 0; Ld t n I.KMeta 1], (Some (I.key_of vk)), (I.cert_of vc).
      split; [|split; [cbn; lia|]].
      - unfold Ld, E. go6 ltac:(rewrite ?Hc, ?Hk, ?Hm).
      - intros e [<-|[<-|[<-|[]]]]; do 2 eexists; reflexivity. }
  destruct H as [H|[H|H]]; discriminate.
Qed.

Theorem incomplete_bundle_is_absent (si : I.state) t th n :
  nth_error (I.thr si) t = Some th -> I.canc th = false ->
  I.c_pk (I.cfg th) = n -> I.c_vk (I.cfg th) = n ->
  incomplete (I.sto (I.sh si)) n ->
  (* obtainCert (sync or async) at its pre-check *)
  (forall a, I.c_prog (I.cfg th) = I.PObtain a -> I.tpc th = I.PPre I.KCrt -> I.cur th = I.OpObtain ->
     exists fbs es,
       I.run si (labels_of t fbs) = Some (I.State (I.upd (I.thr si) t (I.set_pc th (I.after_pre (I.cfg th)))) (I.sh si), es) /\
       1 <= length es <= 3 /\ (forall e, In e es -> exists j o, e = I.Ev t (I.OExists (I.SK n j)) o)) /\
  (* manageOne (sync) at its first load *)
  (I.c_prog (I.cfg th) = I.PManage -> I.tpc th = I.PMLd I.Ph0 I.KKey -> I.cur th = I.OpObtain ->
     exists fbs es th',
       I.run si (labels_of t fbs) = Some (I.State (I.upd (I.thr si) t th') (I.sh si), es) /\
       I.tpc th' = I.PPre I.KCrt /\ I.cur th' = I.OpObtain /\ I.seen th' = I.seen th /\ I.cfg th' = I.cfg th /\
       1 <= length es <= 3 /\ (forall e, In e es -> exists j o, e = I.Ev t (I.OLoad (I.SK n j)) o)).
Proof.
  intros Hn Hcanc Hpk Hvk Hinc.
  destruct th as [[pg lk pk vk idn reuse chk force issdue] p cu ca fl lkey lcrt nk nc sn rc].
  cbn in Hcanc, Hpk, Hvk. subst ca pk vk.
  destruct si as [thr [sto lks ncid nkid]]. cbn [I.sh I.thr I.sto] in *. split.
  - intros a Hp Hpc Hcu. cbn in Hp, Hpc, Hcu. subst pg p cu.
    unfold incomplete in Hinc.
    destruct (sto (I.SK n I.KCrt)) as [vc|] eqn:Hc.
    2:{ exists [N], [X t n I.KCrt 1]. split; [|split; [cbn; lia|intros e [<-|[]]; do 2 eexists; reflexivity]].
        eapply (trun_run t _ (I.State thr (I.Shared sto lks ncid nkid))); [exact Hn|]. unfold X, E. go6 ltac:(rewrite ?Hc). }
    destruct (sto (I.SK n I.KKey)) as [vk|] eqn:Hk.
    2:{ exists [N; N], [X t n I.KCrt 0; X t n I.KKey 1]. split; [|split; [cbn; lia|intros e [<-|[<-|[]]]; do 2 eexists; reflexivity]].
        eapply (trun_run t _ (I.State thr (I.Shared sto lks ncid nkid))); [exact Hn|]. unfold X, E. go6 ltac:(rewrite ?Hc, ?Hk). }
    destruct (sto (I.SK n I.KMeta)) as [vm|] eqn:Hm.
    2:{ exists [N; N; N], [X t n I.KCrt 0; X t n I.KKey 0; X t n I.KMeta 1].
        split; [|split; [cbn; lia|intros e [<-|[<-|[<-|[]]]]; do 2 eexists; reflexivity]].
        eapply (trun_run t _ (I.State thr (I.Shared sto lks ncid nkid))); [exact Hn|]. unfold X, E. go6 ltac:(rewrite ?Hc, ?Hk, ?Hm). }
    destruct Hinc as [H|[H|H]]; discriminate.
  - intros Hp Hpc Hcu. cbn in Hp, Hpc, Hcu. subst pg p cu.
    destruct (mseg_incomplete t lk n idn reuse chk force issdue sto lks ncid nkid lkey lcrt nk nc sn rc fl Hinc)
      as (fbs & es & lkey' & lcrt' & Hrun & Hlen & Hev).
    exists fbs, es. eexists. split.
    + eapply (trun_run t _ (I.State thr (I.Shared sto lks ncid nkid))); [exact Hn|exact Hrun].
    + repeat split; try (apply Hlen). exact Hev.
Qed.

(** non-trivial instances: crt and meta without key; key alone *)
Example incomplete_bundle_nontrivial :
  incomplete (I.sto_of_list [(I.SK 4 I.KCrt, I.VCrt (I.Cert 3 2 true)); (I.SK 4 I.KMeta, I.VMeta 3)]) 4 /\
  incomplete (I.sto_of_list [(I.SK 4 I.KKey, I.VKey 77)]) 4.
Proof. split; [right; left; reflexivity|left; reflexivity]. Qed.
