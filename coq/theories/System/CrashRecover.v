(** System / CrashRecover — Bundle (C06/C07) x FileLock (C08): a crash at ANY storage-call index of
    obtain / renew / manage leaves a state from which the next Manage recovers AND the lock can be had.

    C07 assumes its recovery step: [break_lock] ("the Locker's staleness rule") followed by a fault-free
    manage of a fresh instance.  C08 proves that rule for the file lock of FileStorage.  Here the two are
    put together on the product  (Bundle world, FileLock state)  with the coupling

        coupled w s  :=  k_locked (w_core w) = fl_locked s        (fl_locked s = the lock file exists)

    under which
        Bundle [lock] ok      ~  [LTryCreate t; LWriteMeta t]         ([coupled_lock])
        Bundle [lock] refused ~  [LTryCreate t]  (EEXIST)             ([coupled_lock_refused])
        Bundle [unlock] ok    ~  [LUnlock t]                          ([coupled_unlock])
        Bundle [Dead]         ~  [LKill (cproc t)]                    ([coupled_kill])
        [break_lock]          ~  [LTryCreate w; LOpenRead w; LRemove w]  (metadata stale)
                                 or [LOpenRead w; LRemove w]             (empty, retry limit, mtime old)
                                                                      ([crash_recovers_composed])
    and every other FileLock step leaves the coupling alone ([coupled_other]).

    Bundle has no time and one lock; FileLock has no storage and one lock file.  Nothing else is
    assumed to correspond. *)
From Coq Require Import List NArith ZArith Bool Lia.
From CM Require Import Gen.Consts FileLock.Model FileLock.Check FileLock.Proofs.
From CM Require Import System.CrashRecoverLock.
From CM Require Import Bundle.Model Bundle.Proofs Bundle.Faults System.CrashRecoverBundle.
From CM Require Props.C07 Props.C08.
Import ListNotations.

Notation fl_state := FileLock.Model.state.
Notation fl_config := FileLock.Model.config.
Notation H_live := Props.C08.H_live.

(** * the coupling and its simulation diagram *)
Definition coupled (w : world) (s : fl_state) : Prop := w_locked w = fl_locked s.

Lemma coupled_break w s : fl_locked s = false -> coupled (break_lock w) s.
Proof. intros H. unfold coupled, w_locked, break_lock. cbn. symmetry. exact H. Qed.

(** the Lock call of an instance that finds the lock free (any plan that does not fail this very call) *)
Lemma coupled_lock (c : fl_config) pl w s t ec :
  coupled w s -> w_locked w = false -> p_fail pl (w_cnt w) = false ->
  cs s t = CTry ec -> (lastcreate s < now s)%Z ->
  exists s2, run c s [LTryCreate t; LWriteMeta t] = Some s2 /\ cs s2 t = CHolding (nexti s) /\
             w_locked (snd (lock pl w)) = true /\ coupled (snd (lock pl w)) s2.
Proof.
  intros HC Hw HF Ht Hl. unfold coupled in HC. rewrite Hw in HC. unfold fl_locked in HC.
  destruct (file s) as [i|] eqn:Ef; [discriminate|].
  destruct (free_lock_obtained_at_once c s t ec Ef Ht Hl) as (s2 & E & H1 & H2 & _).
  exists s2. split; [exact E|]. split; [exact H1|].
  rewrite (lock_run pl w Hw), HF. cbn [snd]. unfold coupled, w_locked, fl_locked. cbn [w_core set_locked k_locked].
  rewrite H2. auto.
Qed.
(** ... and of one that finds it taken: Bundle answers with an error at once (it has no waiting),
    the FileLock thread sees EEXIST and goes on to read the file *)
Lemma coupled_lock_refused (c : fl_config) pl w s t ec :
  coupled w s -> w_locked w = true -> p_fail pl (w_cnt w) = false -> cs s t = CTry ec ->
  exists s1, step c s (LTryCreate t) = Some s1 /\ cs s1 t = CExists ec /\
             w_locked (snd (lock pl w)) = true /\ coupled (snd (lock pl w)) s1.
Proof.
  intros HC Hw HF Ht. unfold coupled in HC. rewrite Hw in HC. unfold fl_locked in HC.
  destruct (file s) as [i|] eqn:Ef; [|discriminate].
  exists (set_cs s t (CExists ec)). cbn [step]. rewrite Ht, Ef. split; [reflexivity|].
  split; [cbn; apply upd_eq|].
  unfold lock, prim, coupled, w_locked, fl_locked in *. rewrite HF, Hw.
  destruct (crash_at pl (w_cnt w)); cbn; rewrite Ef, Hw; auto.
Qed.
Lemma coupled_unlock (c : fl_config) pl w s t i :
  p_fail pl (w_cnt w) = false -> cs s t = CHolding i ->
  exists s1, step c s (LUnlock t) = Some s1 /\ cs s1 t = CReleased /\
             w_locked (snd (unlock pl w)) = false /\ coupled (snd (unlock pl w)) s1.
Proof.
  intros HF Ht. cbn [step]. rewrite Ht. eexists. split; [reflexivity|]. split; [cbn; apply upd_eq|].
  rewrite (unlock_run pl w), HF. unfold coupled, w_locked, fl_locked. cbn. auto.
Qed.
(** process death: the Bundle world stays as it is ([Dead] runs nothing more), the lock file stays *)
Lemma coupled_kill (c : fl_config) w s p s1 : coupled w s -> step c s (LKill p) = Some s1 -> coupled w s1.
Proof. intros HC E. cbn [step] in E. injection E as <-. exact HC. Qed.
(** no other step of anybody creates or removes the lock file *)
Lemma coupled_other (c : fl_config) w s l s1 :
  coupled w s -> step c s l = Some s1 ->
  (forall t, l <> LTryCreate t) -> (forall t, l <> LRemove t) -> (forall t, l <> LUnlock t) -> coupled w s1.
Proof.
  intros HC E H1 H2 H3. unfold coupled in *. rewrite HC. unfold fl_locked.
  inv_step E; cbn [file set_cs]; try reflexivity; try rewrite Ef; try reflexivity.
  all: try (exfalso; eapply H1; reflexivity).
  all: try (exfalso; eapply H2; reflexivity).
  all: try (exfalso; eapply H3; reflexivity).
Qed.

(** * how the dead owner's lock file can look, and the waiter's break run for each *)
Inductive dead_file (s0 s' : fl_state) (t : tid) (i : ino) (w : tid) : list label -> Prop :=
| df_meta cr u ec :
    (* died while holding; the file carries metadata; stale since the crash *)
    cs s0 t = CHolding i -> content s0 i = FileLock.Model.FMeta cr (Some u) ->
    (stale_after < now s' - now s0)%Z -> cs s' w = CTry ec ->
    dead_file s0 s' t i w [LTryCreate w; LOpenRead w; LRemove w]
| df_empty ec :
    (* died between the O_EXCL create and the metadata write (a crash AT Bundle's lock call) or in a
       heartbeat's truncate gap; the waiter has counted its empty reads to the limit *)
    owner s0 t i -> content s0 i = FEmpty ->
    (stale_after < now s' - mtime s0 i)%Z -> cs s' w = CExists ec -> (lock_empty_retries <= Z.of_nat (S ec))%Z ->
    dead_file s0 s' t i w [LOpenRead w; LRemove w].

Open Scope N_scope.

(** * the composed theorem *)
Theorem crash_recovers_composed : forall d, H_live d ->
  forall pl cfg sp orc h w0            (* Bundle: the operation, its plan, the state it starts in *)
         s0 t i s ls s' w brk,         (* FileLock: the state at the crash, the dead thread, the rest *)
  (* Bundle side: any reachable state, any of obtain / renew / manage, any plan that kills *)
  reach6 cfg sp (w_core w0) -> k_ocsp (w_core w0) = [] -> canonical sp -> (1 <= n_iss cfg)%nat -> is_op7 h = true ->
  let r := run_hop pl cfg sp orc h w0 in let w1 := snd r in
  fst r = Dead -> w_locked w1 = true ->
  (* FileLock side: thread [t] is the crashed instance's Lock call; coupling at the crash *)
  reach (cfg_repo d) any_label init s0 -> held_by s0 t -> file s0 = Some i ->
  step (cfg_repo d) s0 (LKill (cproc s0 t)) = Some s ->
  (* any continuation in which the dead file is still in place and has become stale for waiter [w] *)
  run (cfg_repo d) s ls = Some s' -> file s' = Some i -> dead_file s0 s' t i w brk ->
  (* (0) the coupling holds from the crash on, the lock is held on both sides *)
  (coupled w1 s0 /\ coupled w1 s /\ coupled w1 s') /\
  (* (1) the crash happened between this operation's own Lock and Unlock, or after its Unlock was failed *)
  (exists new, w_log w1 = new ++ w_log w0 /\
     (lock_calls new = [ev_lock_ok] \/ lock_calls new = [ev_unlock (Some EInjected); ev_lock_ok])) /\
  (* (2) break_lock IS the waiter's break run; then its create succeeds: it owns the lock, in no time *)
  (exists s3 s4, run (cfg_repo d) s' brk = Some s3 /\ coupled (break_lock w1) s3 /\ same_but w s' s3 /\
                 step (cfg_repo d) s3 (LTryCreate w) = Some s4 /\ held_by s4 w /\ now s4 = now s' /\
                 (forall t', t' <> w -> cs s4 t' = cs s' t')) /\
  (* (3) outside the stuck class the fresh instance's fault-free manage, from break_lock's state,
         serves a certificate that is not due, names the subject, has its key - and frees the lock again *)
  (stuck (w_st w1) cfg (s_save sp) = false ->
   forall orc_r, all_up cfg orc_r (w_st w1) (s_save sp) ->
   exists mc c', evals (manage no_faults cfg sp orc_r) (w_core (break_lock w1)) (Ok mc) c' /\
                 served_ok cfg sp mc c' /\ k_locked c' = false) /\
  (* (4) the stuck class, exactly: the new .key stored next to an older certificate for another key;
         then every later manage fails with the mismatch (the lock is recovered all the same: (2)) *)
  (stuck (w_st w1) cfg (s_save sp) = true ->
   (exists j k x m, In j (issuers cfg) /\ key_origin cfg sp (w_core w0) k /\
      dir_crt (w_st w0) j (s_save sp) = Some x /\ dir_meta (w_st w0) j (s_save sp) = Some m /\ c_pub x <> k /\
      w_st w1 = sput (w_st w0) (j, s_save sp, FKey) (VKey k)) /\
   forall orc_r, evals (manage no_faults cfg sp orc_r) (w_core (break_lock w1)) (Fail EMismatch) (w_core (break_lock w1))).
Proof.
  intros d Hd pl cfg sp orc h w0 s0 t i s ls s' w brk HR HO HCan Hn Hop r w1 HD HL R0 Hheld Hf Hk Hrun Hf' HDF.
  assert (I0 : Inv6 cfg sp (w_core w0)) by (apply reach6_inv, HR).
  assert (Hw0 : w_locked w0 = false) by (apply (i_unlocked _ _ _ I0)).
  (* (0) *)
  assert (C0 : coupled w1 s0) by (unfold coupled, fl_locked; rewrite HL, Hf; reflexivity).
  assert (Cs : coupled w1 s) by (eapply coupled_kill; eauto).
  assert (Cs' : coupled w1 s') by (unfold coupled, fl_locked; rewrite HL, Hf'; reflexivity).
  split; [auto|].
  (* (1) *)
  split.
  { destruct (bundle_lock_after pl cfg sp orc h w0 Hop Hw0) as (new & E & Hc). fold r w1 in E, Hc.
    exists new. split; [exact E|].
    destruct Hc as [(_ & H)|[(_ & H)|[(H & _)|[(_ & H)|(H & _)]]]]; auto; rewrite HL in H; discriminate. }
  (* (2) *)
  split.
  { destruct HDF as [cr u ec Hh Hc Hlate Hw|ec Ho Hc Hlate Hw Hec].
    - destruct (fl_recovery_meta d Hd s0 t i cr u s ls s' w ec R0 Hh Hf Hc Hk Hrun Hf' Hlate Hw)
        as (s3 & s4 & ec' & E3 & F3 & _ & SB & E4 & H4 & _ & N4 & O4).
      exists s3, s4. split; [exact E3|]. split; [apply coupled_break, F3|]. auto 10.
    - destruct (fl_recovery_empty d Hd s0 t i s ls s' w ec R0 Ho Hf Hc Hk Hrun Hf' Hlate Hw Hec)
        as (s3 & s4 & E3 & F3 & _ & SB & E4 & H4 & _ & N4 & O4).
      exists s3, s4. split; [exact E3|]. split; [apply coupled_break, F3|]. auto 10. }
  (* (3) *)
  split.
  { intros HS orc_r HU.
    destruct (Props.C07.C07_recoverable_partial pl cfg sp orc h orc_r w0 HR HO HCan Hn Hop HS HU) as (mc & c' & HE & HOK).
    exists mc, c'. split; [exact HE|]. split; [exact HOK|].
    destruct (HE (break_lock w1) eq_refl) as [E1 E2].
    rewrite <- E2. apply manage_no_faults_unlocked; [reflexivity | rewrite E1; discriminate]. }
  (* (4) *)
  intros HS. split.
  - exact (Props.C07.C07_stuck_only_by_torn_key_store pl cfg sp orc h w0 HR HO Hop HS).
  - intros orc_r.
    assert (HE : eff7 cfg sp (w_core w0) (w_core w1)) by (apply faulted_effect; assumption).
    assert (T1 : typed (k_st (w_core (break_lock w1)))).
    { unfold break_lock. cbn [w_core k_st set_locked].
      destruct HE as [(E & _)|(_ & _ & _ & j & k & x & _ & _ & _ & HT)].
      - rewrite E. apply (i_typed _ _ _ I0).
      - eapply torn_typed; [apply (i_typed _ _ _ I0) | exact HT]. }
    apply (Props.C07.C07_stuck_is_permanent cfg sp orc_r (w_core (break_lock w1)) T1 eq_refl HCan HS).
Qed.

(** a crash that leaves NO lock behind (before the Lock call, at a Lock call the plan failed, after a
    successful Unlock): nothing to break - the same conclusion with [break_lock] the identity on the core *)
Theorem crash_without_lock_recovers : forall pl cfg sp orc h w0 orc_r,
  reach6 cfg sp (w_core w0) -> k_ocsp (w_core w0) = [] -> canonical sp -> (1 <= n_iss cfg)%nat -> is_op7 h = true ->
  let w1 := snd (run_hop pl cfg sp orc h w0) in
  w_locked w1 = false -> stuck (w_st w1) cfg (s_save sp) = false -> all_up cfg orc_r (w_st w1) (s_save sp) ->
  w_core (break_lock w1) = w_core w1 /\
  exists mc c', evals (manage no_faults cfg sp orc_r) (w_core w1) (Ok mc) c' /\ served_ok cfg sp mc c' /\ k_locked c' = false.
Proof.
  intros pl cfg sp orc h w0 orc_r HR HO HCan Hn Hop w1 HL HS HU.
  assert (E : w_core (break_lock w1) = w_core w1).
  { unfold break_lock, set_locked, w_locked in *. cbn [w_core]. destruct (w_core w1); cbn in *. subst. reflexivity. }
  split; [exact E|].
  destruct (Props.C07.C07_recoverable_partial pl cfg sp orc h orc_r w0 HR HO HCan Hn Hop HS HU) as (mc & c' & HE & HOK).
  fold w1 in HE. rewrite E in HE. exists mc, c'. split; [exact HE|]. split; [exact HOK|].
  destruct (HE w1 eq_refl) as [E1 E2].
  rewrite <- E2. apply manage_no_faults_unlocked; [exact HL | rewrite E1; discriminate].
Qed.

(** every crash point is one of the two: after [Dead] the lock bit is decided by the lock calls in the
    operation's own log segment (this is [bundle_lock_after] read for [Dead]) *)
Theorem crash_point_cases : forall pl cfg sp orc h w0,
  is_op7 h = true -> w_locked w0 = false ->
  let r := run_hop pl cfg sp orc h w0 in
  fst r = Dead ->
  exists new, w_log (snd r) = new ++ w_log w0 /\
    ((w_locked (snd r) = true /\
        (lock_calls new = [ev_lock_ok] \/ lock_calls new = [ev_unlock (Some EInjected); ev_lock_ok])) \/
     (w_locked (snd r) = false /\
        (lock_calls new = [] \/ lock_calls new = [ev_lock_failed] \/ lock_calls new = [ev_unlock None; ev_lock_ok]))).
Proof.
  intros pl cfg sp orc h w0 Hop Hw r HD.
  destruct (bundle_lock_after pl cfg sp orc h w0 Hop Hw) as (new & E & Hc). fold r in E, Hc.
  exists new. split; [exact E|]. destruct Hc as [(A & B)|[(A & B)|[(A & B & _)|[(A & B)|(A & B & _)]]]]; auto 10.
Qed.

Print Assumptions crash_recovers_composed.
Print Assumptions crash_without_lock_recovers.
Print Assumptions crash_point_cases.

(** * the hypotheses are met (non-vacuity)
    Bundle: the renewal of C07's witness with key reuse - a due certificate, process death right after
    Storage call 11 (the Store of the new .key, inside the bracket): [Dead], lock held, not stuck.
    FileLock: C08's recovery demo - the holder, refreshed once, is killed; 10 s and a bit later the
    waiter (thread 1) is at the top of its loop. *)
Import Props.C07.
Lemma w7r_reach : reach6 w7r_cfg w7_sp (w_core w7r_w0).
Proof.
  eapply reach6_step; [apply reach6_empty|].
  generalize (evals_run_hop w7r_cfg w7_sp (Oracle [Some (10%Z, VDue)] []) HManage empty_core typed_nil eq_refl).
  intros H. exact H.
Qed.

Lemma demo_fl_proj :
  match run (cfg_repo d2) init Props.C08.demo_before_kill with
  | Some s0 =>
      cs s0 0%nat = CHolding 0%nat /\ file s0 = Some 0%nat /\
      content s0 0%nat = FileLock.Model.FMeta (Some 0%Z) (Some lock_freshness_interval) /\
      match step (cfg_repo d2) s0 (LKill (cproc s0 0%nat)) with
      | Some s =>
          match run (cfg_repo d2) s Props.C08.demo_after_kill with
          | Some s' => file s' = Some 0%nat /\ (stale_after < now s' - now s0)%Z /\ cs s' 1%nat = CTry 0
          | None => False
          end
      | None => False
      end
  | None => False
  end.
Proof. vm_compute. repeat split; reflexivity. Qed.

Example crash_recovers_composed_hypotheses_satisfiable :
  exists s0 s s',
    H_live d2 /\
    reach6 w7r_cfg w7_sp (w_core w7r_w0) /\ k_ocsp (w_core w7r_w0) = [] /\ canonical w7_sp /\ (1 <= n_iss w7r_cfg)%nat /\
    is_op7 HManage = true /\
    fst (run_hop w7_plan w7r_cfg w7_sp (Oracle [Some (20%Z, VFresh)] []) HManage w7r_w0) = Dead /\
    w_locked w7r_w1 = true /\ stuck (w_st w7r_w1) w7r_cfg (s_save w7_sp) = false /\
    reach (cfg_repo d2) any_label init s0 /\ held_by s0 0%nat /\ file s0 = Some 0%nat /\
    step (cfg_repo d2) s0 (LKill (cproc s0 0%nat)) = Some s /\
    run (cfg_repo d2) s Props.C08.demo_after_kill = Some s' /\ file s' = Some 0%nat /\
    dead_file s0 s' 0%nat 0%nat 1%nat [LTryCreate 1%nat; LOpenRead 1%nat; LRemove 1%nat] /\
    (* ... and the theorem's conclusion (2) for them *)
    exists s3 s4, run (cfg_repo d2) s' [LTryCreate 1%nat; LOpenRead 1%nat; LRemove 1%nat] = Some s3 /\
                  coupled (break_lock w7r_w1) s3 /\
                  step (cfg_repo d2) s3 (LTryCreate 1%nat) = Some s4 /\ held_by s4 1%nat.
Proof.
  pose proof demo_fl_proj as P.
  destruct (run (cfg_repo d2) init Props.C08.demo_before_kill) as [s0|] eqn:E0; [|contradiction].
  destruct P as (P1 & P2 & P3 & P).
  destruct (step (cfg_repo d2) s0 (LKill (cproc s0 0%nat))) as [s|] eqn:Ek; [|contradiction].
  destruct (run (cfg_repo d2) s Props.C08.demo_after_kill) as [s'|] eqn:Ea; [|contradiction].
  destruct P as (Q1 & Q2 & Q3).
  assert (R0 : reach (cfg_repo d2) any_label init s0)
    by (apply (reach_by_run (cfg_repo d2) init init Props.C08.demo_before_kill s0); [constructor | exact E0]).
  assert (Hh : held_by s0 0%nat) by (exists 0%nat; split; [right; exact P1 | exact P2]).
  assert (DF : dead_file s0 s' 0%nat 0%nat 1%nat [LTryCreate 1%nat; LOpenRead 1%nat; LRemove 1%nat])
    by (eapply df_meta; eauto).
  assert (B1 : fst (run_hop w7_plan w7r_cfg w7_sp (Oracle [Some (20%Z, VFresh)] []) HManage w7r_w0) = Dead)
    by (vm_compute; reflexivity).
  assert (B2 : w_locked w7r_w1 = true) by (vm_compute; reflexivity).
  assert (B3 : k_ocsp (w_core w7r_w0) = []) by (vm_compute; reflexivity).
  exists s0, s, s'.
  split; [exact H_live_d2|]. split; [exact w7r_reach|]. split; [exact B3|].
  split; [split; reflexivity|]. split; [cbn; lia|]. split; [reflexivity|]. split; [exact B1|]. split; [exact B2|].
  split; [vm_compute; reflexivity|].
  split; [exact R0|]. split; [exact Hh|]. split; [exact P2|]. split; [exact Ek|]. split; [exact Ea|].
  split; [exact Q1|]. split; [exact DF|].
  destruct (crash_recovers_composed d2 H_live_d2 w7_plan w7r_cfg w7_sp (Oracle [Some (20%Z, VFresh)] []) HManage w7r_w0
              s0 0%nat 0%nat s Props.C08.demo_after_kill s' 1%nat _
              w7r_reach B3 (conj eq_refl eq_refl) ltac:(cbn; lia) eq_refl B1 B2 R0 Hh P2 Ek Ea Q1 DF)
    as (_ & _ & (s3 & s4 & E3 & C3 & _ & E4 & H4 & _ & _) & _).
  exists s3, s4. auto.
Qed.

(** the other way to die: AT the Lock call.  Bundle: process death right after Storage call 7, the Lock
    call of the renewal (the lock is taken, nothing is written).  FileLock: the creator is killed
    between its O_EXCL create and the metadata write; the waiter reads the empty file eight times,
    250 ms apart, and once more 10 s later. *)
Definition lockcall_plan : plan := Plan (fun _ => false) (Some 7%nat).
Definition w7l_w1 : world := snd (run_hop lockcall_plan w7r_cfg w7_sp (Oracle [Some (20%Z, VFresh)] []) HManage w7r_w0).
Definition empty_round : list label := [LTryCreate 1%nat; LOpenRead 1%nat; LTick lock_empty_sleep; LWake 1%nat].
Definition empty_before_kill : list label := [LStart 0%nat 0%nat; LTryCreate 0%nat].
Definition empty_after_kill : list label :=
  LStart 1%nat 1%nat :: concat (repeat empty_round 8) ++ [LTick (stale_after + 1); LTryCreate 1%nat].

Lemma empty_fl_proj :
  match run (cfg_repo d2) init empty_before_kill with
  | Some s0 =>
      cs s0 0%nat = CCreated 0 0%nat /\ file s0 = Some 0%nat /\ content s0 0%nat = FEmpty /\
      match step (cfg_repo d2) s0 (LKill (cproc s0 0%nat)) with
      | Some s =>
          match run (cfg_repo d2) s empty_after_kill with
          | Some s' => file s' = Some 0%nat /\ (stale_after < now s' - mtime s0 0%nat)%Z /\ cs s' 1%nat = CExists 8
          | None => False
          end
      | None => False
      end
  | None => False
  end.
Proof. vm_compute. repeat split; reflexivity. Qed.

Example crash_at_lock_call_hypotheses_satisfiable :
  exists s0 s s',
    fst (run_hop lockcall_plan w7r_cfg w7_sp (Oracle [Some (20%Z, VFresh)] []) HManage w7r_w0) = Dead /\
    w_locked w7l_w1 = true /\ w_st w7l_w1 = w_st w7r_w0 /\
    (exists new, w_log w7l_w1 = new ++ w_log w7r_w0 /\ lock_calls new = [ev_lock_ok]) /\
    reach (cfg_repo d2) any_label init s0 /\ held_by s0 0%nat /\ file s0 = Some 0%nat /\
    step (cfg_repo d2) s0 (LKill (cproc s0 0%nat)) = Some s /\
    run (cfg_repo d2) s empty_after_kill = Some s' /\ file s' = Some 0%nat /\
    dead_file s0 s' 0%nat 0%nat 1%nat [LOpenRead 1%nat; LRemove 1%nat].
Proof.
  pose proof empty_fl_proj as P.
  destruct (run (cfg_repo d2) init empty_before_kill) as [s0|] eqn:E0; [|contradiction].
  destruct P as (P1 & P2 & P3 & P).
  destruct (step (cfg_repo d2) s0 (LKill (cproc s0 0%nat))) as [s|] eqn:Ek; [|contradiction].
  destruct (run (cfg_repo d2) s empty_after_kill) as [s'|] eqn:Ea; [|contradiction].
  destruct P as (Q1 & Q2 & Q3).
  exists s0, s, s'.
  split; [vm_compute; reflexivity|]. split; [vm_compute; reflexivity|]. split; [vm_compute; reflexivity|].
  split; [exists (w_log w7l_w1); split; [vm_compute; reflexivity | vm_compute; reflexivity]|].
  split; [apply (reach_by_run (cfg_repo d2) init init empty_before_kill s0); [constructor | exact E0]|].
  split; [exists 0%nat; split; [left; exists 0%nat; exact P1 | exact P2]|].
  split; [exact P2|]. split; [exact Ek|]. split; [exact Ea|]. split; [exact Q1|].
  apply (df_empty s0 s' 0%nat 0%nat 1%nat 8); auto.
  - left. exists 0%nat. exact P1.
  - unfold lock_empty_retries. lia.
Qed.

(** * what the stale race does to the composed claim
    [crash_recovers_composed] is about ONE recovering waiter whose break run is not interleaved with
    another waiter's.  [CrashRecoverLock.fl_two_recoverers_refuted]: two waiters that both meet its
    hypotheses in the same state can both end up holding.  The Bundle model cannot even state what
    follows (its lock is one bit, its operations are sequential), so C07's "a single fault-free manage
    recovers" does not cover it.  What CAN follow, built by hand from the model's own [store] primitive:
    both recoverers renew with a fresh key each (no key reuse), neither crashes, no call fails - and the
    six Stores of their two [save]s interleave as  key_A key_B crt_B meta_B crt_A meta_A.  The result is
    the stuck class of C07 (key B next to certificate A), permanently: mutual exclusion is load-bearing
    for "not stuck", and after a crash FileStorage does not provide it. *)
Definition w7n_w1 : world := snd (run_hop lockcall_plan w7_cfg w7_sp (Oracle [Some (20%Z, VFresh)] []) HManage w7_w0).
Definition xA : cert := Cert 1 0 20%Z VFresh 1.
Definition xB : cert := Cert 2 0 21%Z VFresh 2.
Definition st_key (k : keyid) : M unit := store no_faults (0%nat, 0, FKey) (VKey k).
Definition st_crt (x : cert) : M unit := store no_faults (0%nat, 0, FCrt) (VCrt x).
Definition st_meta : M unit := store no_faults (0%nat, 0, FMeta) (VMeta [0]).
Definition saves_interleaved : M unit := st_key 1 ;;; st_key 2 ;;; st_crt xB ;;; st_meta ;;; st_crt xA ;;; st_meta.
Definition saves_sequential : M unit := st_key 1 ;;; st_crt xA ;;; st_meta ;;; st_key 2 ;;; st_crt xB ;;; st_meta.

Theorem single_manage_recovery_refuted_two_recoverers :
  (* the crash: at the Lock call of a renewal; recoverable for ONE recoverer *)
  fst (run_hop lockcall_plan w7_cfg w7_sp (Oracle [Some (20%Z, VFresh)] []) HManage w7_w0) = Dead /\
  w_locked w7n_w1 = true /\ stuck (w_st w7n_w1) w7_cfg 0 = false /\
  (* two recoverers, saves one after the other: fine *)
  stuck (w_st (snd (saves_sequential (break_lock w7n_w1)))) w7_cfg 0 = false /\
  (* two recoverers, saves interleaved: stuck, and the next manage fails with the key mismatch *)
  (let w2 := snd (saves_interleaved (break_lock w7n_w1)) in
   fst (saves_interleaved (break_lock w7n_w1)) = Ok tt /\ stuck (w_st w2) w7_cfg 0 = true /\
   dir_key (w_st w2) 0 0 = Some 2 /\ dir_crt (w_st w2) 0 0 = Some xA /\
   fst (manage no_faults w7_cfg w7_sp (Oracle [Some (30%Z, VFresh)] []) w2) = Fail EMismatch).
Proof. vm_compute. repeat split; reflexivity. Qed.
Print Assumptions single_manage_recovery_refuted_two_recoverers.

(** non-vacuity of the simulation diagram: a fresh world next to a fresh contender; then the locked
    world next to a second contender; then the holder *)
Example coupled_diagram_hypotheses_satisfiable :
  exists s s2 s3,
    run (cfg_repo d2) init [LStart 0%nat 0%nat] = Some s /\
    coupled empty_world s /\ w_locked empty_world = false /\ p_fail no_faults (w_cnt empty_world) = false /\
    cs s 0%nat = CTry 0 /\ (lastcreate s < now s)%Z /\
    run (cfg_repo d2) s [LTryCreate 0%nat; LWriteMeta 0%nat] = Some s2 /\
    step (cfg_repo d2) s2 (LStart 1%nat 1%nat) = Some s3 /\
    let w1 := snd (lock no_faults empty_world) in
    coupled w1 s3 /\ w_locked w1 = true /\ cs s3 1%nat = CTry 0 /\ cs s3 0%nat = CHolding 0%nat.
Proof.
  do 3 eexists. split; [vm_compute; reflexivity|]. split; [reflexivity|]. split; [reflexivity|]. split; [reflexivity|].
  split; [reflexivity|]. split; [vm_compute; reflexivity|]. split; [vm_compute; reflexivity|].
  split; [vm_compute; reflexivity|]. cbv zeta. repeat split; vm_compute; reflexivity.
Qed.
