(** Correspondence for C05. A case = universe size, configuration (which names are on-demand,
    whether the issuer hands out due certificates), the initial storage and cache, and a history:
    each event followed by what the harness observed on the real code after it.
    [model_agrees]: the model, replayed on the events, yields the same observations.
    [spec_ok]: the property's clauses ([Maintain.Spec]) evaluated on the implementation's
    observations only. *)
From Coq Require Import List Arith Bool ZArith.
From CM Require Import Lib.Wire Maintain.Model Maintain.Spec Maintain.XModel Maintain.Issuers.
Import ListNotations.
Open Scope Z_scope.

Definition get_cert : dec cert :=
  i <- get_nat ;; h <- get_nat ;; r <- get_list get_nat ;; d <- get_bool ;; m <- get_bool ;;
  ret (Cert i h r d m).

Definition get_event : dec event :=
  t <- get_nat ;;
  match t with
  | 0%nat => p <- get_nat ;; ret (PassScan p)
  | 1%nat => p <- get_nat ;; ret (PassAct p)
  | 2%nat => n <- get_nat ;; r <- get_list get_nat ;; ret (ExtRenew n r)
  | 3%nat => n <- get_nat ;; b <- get_bool ;; ret (SetIssuer n b)
  | 4%nat => n <- get_nat ;; k <- get_nat ;; ret (JobStep n k)
  | 5%nat => n <- get_nat ;; b <- get_bool ;; ret (Manage n b)
  | _ => fun _ => None
  end.

Definition get_xevent : dec xevent :=
  t <- get_nat ;;
  match t with
  | 0%nat => e <- get_event ;; ret (Core e)
  | 1%nat => i <- get_nat ;; ret (Revoke i)
  | 2%nat => o <- get_list get_nat ;; ret (OcspPass o)
  | _ => fun _ => None
  end.

Definition get_obs : dec obs :=
  c <- get_list get_cert ;; st <- get_list (get_opt get_cert) ;; ix <- get_list (get_list get_nat) ;;
  sv <- get_list (get_opt get_nat) ;;
  i <- get_list get_nat ;; f <- get_list get_nat ;; j <- get_list get_nat ;; e <- get_bool ;;
  ret (Obs c st ix sv i f j e).
Definition get_xobs : dec xobs := o <- get_obs ;; r <- get_list get_nat ;; ret (XObs o r).

Record case := Case {
  c_k : nat;
  c_od : list bool;
  c_idue : bool;
  c_store : list (name * cert);
  c_cache : list cert;
  c_next : nat;
  c_obs0 : xobs;
  c_hist : list (xevent * xobs);
  c_bundles : list (list (list (option cert)));
    (* for the initial and every later observation: per name, per issuer key, the stored bundle *)
  c_final : xobs     (* after the context was cancelled and all jobs / passes ran to their end *)
}.

Definition get_case : dec case :=
  k <- get_nat ;; o <- get_list get_bool ;; d <- get_bool ;;
  st <- get_list (get_pair get_nat get_cert) ;; ca <- get_list get_cert ;; nx <- get_nat ;;
  o0 <- get_xobs ;; h <- get_list (get_pair get_xevent get_xobs) ;; fin <- get_xobs ;;
  bs <- get_list (get_list (get_list (get_opt get_cert))) ;;
  ret (Case k o d st ca nx o0 h bs fin).

Definition od_of (c : case) (n : name) : bool := nth n (c_od c) false.
Definition init_of (c : case) : state := State (c_store c) (c_cache c) [] [] [] [] [] (c_next c) false.
Definition xinit_of (c : case) : xstate := XState (init_of c) [].

(** model replay: index of the first event after which model and implementation differ
    (0 = the initial observation, i+1 = event i), or None *)
Fixpoint replay (od : name -> bool) (idue : bool) (k : nat) (s : xstate) (i : nat) (h : list (xevent * xobs))
  : option (nat * xobs) :=
  match h with
  | [] => None
  | (e, o) :: r =>
      let s' := xstep od idue s e in
      if xobs_eqb (xobserve k s') o then replay od idue k s' (S i) r else Some (i, xobserve k s')
  end.

Definition first_diff (c : case) : option (nat * xobs) :=
  let s0 := xinit_of c in
  if xobs_eqb (xobserve (c_k c) s0) (c_obs0 c) then replay (od_of c) (c_idue c) (c_k c) s0 1 (c_hist c)
  else Some (0%nat, xobserve (c_k c) s0).

(** the theorems about OCSP passes are for an issuer that hands out certificates that are not
    already due; the generator respects that, and a case that does not is not accepted *)
Definition is_ocsp (e : xevent) : bool := match e with OcspPass _ => true | _ => false end.
Definition case_ok (c : case) : bool :=
  negb (c_idue c) || negb (existsb (fun p => is_ocsp (fst p)) (c_hist c)).

(** "the stored certificate" of an observation is the most recently issued of the bundles found under
    the issuers' keys ([Issuers.newest], what [Issuers.mload] returns) *)
Definition newest_of (per : list (option cert)) : option cert :=
  newest (flat_map (fun o => match o with Some c => [c] | None => [] end) per).
Definition bundles_ok (c : case) : bool :=
  let obs := c_obs0 c :: map snd (c_hist c) in
  (length (c_bundles c) =? length obs)%nat &&
  forallb (fun p => list_eqb opt_cert_eqb (map newest_of (snd p)) (o_store (xo (fst p))))
          (combine obs (c_bundles c)).

Definition model_agrees (c : case) : bool :=
  wf_b (od_of c) (c_k c) (init_of c) && case_ok c && bundles_ok c &&
  match first_diff c with None => true | Some _ => false end.

Definition last_obs (c : case) : xobs := last (map snd (c_hist c)) (c_obs0 c).

Definition spec_ok (c : case) : bool :=
  xspec_run (od_of c) (c_idue c) (c_k c) [] (c_obs0 c) (c_hist c) &&
  spec_final (od_of c) (c_k c) (xo (last_obs c)) (xo (c_final c)).

Definition check_line (l : list Z) : Z :=
  match decode get_case l with
  | Some c => code (model_agrees c) (spec_ok c)
  | None => code_decode_error
  end.

(** diagnostics: [wf; index of first difference or -1; the model's observation there (cache ids,
    stored ids, job codes, issued, failed, err, revoked ids); index of the first event whose spec
    clause fails or -1; the failing clause number (0-9 core events, 10-19 OCSP pass, 20 revoke)] *)
Definition zn (n : nat) : Z := Z.of_nat n.
Definition put_list {A} (f : A -> list Z) (l : list A) : list Z := zn (length l) :: flat_map f l.
Definition put_obs (x : xobs) : list Z :=
  let o := xo x in
  put_list (fun c => [zn (cid c)]) (o_cache o) ++
  put_list (fun x => match x with Some c => [zn (cid c)] | None => [-1] end) (o_store o) ++
  put_list (fun x => [zn x]) (o_jobs o) ++
  put_list (fun x => [zn x]) (o_issued o) ++
  put_list (fun x => [zn x]) (o_failed o) ++
  [if o_err o then 1 else 0] ++ put_list (fun x => [zn x]) (xo_rev x).
Definition explain_line (l : list Z) : list Z :=
  match decode get_case l with
  | Some c =>
      (if wf_b (od_of c) (c_k c) (init_of c) then 1 else 0) ::
      (match first_diff c with
       | None => [-1]
       | Some (i, o) => zn i :: put_obs o
       end) ++
      (match xspec_first_fail (od_of c) (c_idue c) (c_k c) [] (c_obs0 c) (c_hist c) 0 with
       | None => [-1]
       | Some (i, cl) => [zn i; zn cl]
       end) ++
      [if spec_final (od_of c) (c_k c) (xo (last_obs c)) (xo (c_final c)) then 1 else 0]
  | None => []
  end.
