(** C05 — boolean forms (definitions only): equality of observations, well-formedness of a
    state, and the property's clauses as a monitor over observations. The monitor never runs
    the model's [step]; it uses model vocabulary ([resolve], [served], [scan_reload], ...) on
    what was observed. [Maintain.Proofs] shows every clause holds of the model
    ([spec_step_sound]); [Maintain.Check] evaluates it on the implementation's observations. *)
From Coq Require Import List Arith Bool.
From CM Require Import Maintain.Model.
Import ListNotations.

Fixpoint list_eqb {A} (eqb : A -> A -> bool) (a b : list A) : bool :=
  match a, b with
  | [], [] => true
  | x :: a', y :: b' => eqb x y && list_eqb eqb a' b'
  | _, _ => false
  end.
Definition opt_eqb {A} (eqb : A -> A -> bool) (a b : option A) : bool :=
  match a, b with
  | Some x, Some y => eqb x y
  | None, None => true
  | _, _ => false
  end.
Definition opt_cert_eqb := opt_eqb cert_eqb.

Definition obs_eqb (a b : obs) : bool :=
  list_eqb cert_eqb (o_cache a) (o_cache b) &&
  list_eqb opt_cert_eqb (o_store a) (o_store b) &&
  list_eqb list_nat_eqb (o_index a) (o_index b) &&
  list_eqb (opt_eqb Nat.eqb) (o_served a) (o_served b) &&
  list_nat_eqb (o_issued a) (o_issued b) &&
  list_nat_eqb (o_failed a) (o_failed b) &&
  list_nat_eqb (o_jobs a) (o_jobs b) &&
  Bool.eqb (o_err a) (o_err b).

(** [b] with the error flag of the previous event cleared *)
Definition clear_err (b : obs) : obs :=
  Obs (o_cache b) (o_store b) (o_index b) (o_served b) (o_issued b) (o_failed b) (o_jobs b) false.
(** nothing observable changed (and no error was returned) *)
Definition unchanged (a b : obs) : bool := obs_eqb a (clear_err b).

Definition mem_cert (c : cert) (l : list cert) : bool := existsb (cert_eqb c) l.
Definition count (x : nat) (l : list nat) : nat := length (filter (Nat.eqb x) l).
(** equality of lists of numbers as multisets *)
Definition perm_eqb (a b : list nat) : bool :=
  (length a =? length b) && forallb (fun x => count x a =? count x b) a.

(** ** well-formed states *)
Definition job_olds (js : list job) : list cert :=
  flat_map (fun j => match jold j with Some c => [c] | None => [] end) js.
Definition pass_certs (ps : list pass) : list cert := flat_map (fun q => preload q ++ prenew q) ps.
Definition all_certs (s : state) : list cert :=
  cache s ++ map snd (store s) ++ pass_certs (passes s) ++ job_olds (jobs s).

Section WF.
  Variable od : name -> bool.
  Variable k : nat.

  Definition job_ok (j : job) : bool :=
    match jkd j, jold j with
    | JRenew, Some old => (chead old =? jname j) && eligible od old
    | JObtain, None => true
    | _, _ => false
    end.
  Definition is_locked_for (n : name) (j : job) : bool := (jname j =? n) && is_locked (jpc_ j).

  Definition wf_b (s : state) : bool :=
    forallb (fun c => cid c <? next s) (all_certs s) &&
    forallb (fun c1 => forallb (fun c2 => negb (cid c1 =? cid c2) || cert_eqb c1 c2) (all_certs s)) (all_certs s) &&
    forallb (fun p => (chead (snd p) =? fst p) && cman (snd p)) (store s) &&
    forallb (fun q => forallb (eligible od) (preload q ++ prenew q) &&
                      forallb (fun c => stored_fresh (store s) (chead c)) (preload q)) (passes s) &&
    forallb job_ok (jobs s) &&
    forallb (fun j => (length (filter (is_renew_for (jname j)) (jobs s)) <=? 1) &&
                      (length (filter (is_locked_for (jname j)) (jobs s)) <=? 1)) (jobs s) &&
    (* everything lies in the universe of k names *)
    forallb (fun c => forallb (fun n => n <? k) (cnames c)) (all_certs s) &&
    forallb (fun p => fst p <? k) (store s) &&
    forallb (fun j => jname j <? k) (jobs s).
End WF.

(** ** the monitor *)
Section Spec.
  Variable od : name -> bool.
  Variable idue : bool.
  Variable k : nat.

  Definition ost (o : obs) (n : name) : option cert := nth n (o_store o) None.
  Definition oiss (o : obs) (n : name) : nat := nth n (o_issued o) 0.
  Definition ofl (o : obs) (n : name) : nat := nth n (o_failed o) 0.
  Definition oidx (o : obs) (n : name) : list nat := nth n (o_index o) [].
  Definition osrv (o : obs) (n : name) : option nat := nth n (o_served o) None.
  Definition U : list name := seq 0 k.

  Definition store_of_obs (o : obs) : list (name * cert) :=
    flat_map (fun n => match ost o n with Some c => [(n, c)] | None => [] end) U.
  Definition certs_of_obs (o : obs) : list cert := o_cache o ++ map snd (store_of_obs o).

  Definition same_cache (a b : obs) := list_eqb cert_eqb (o_cache a) (o_cache b).
  Definition same_store (a b : obs) := list_eqb opt_cert_eqb (o_store a) (o_store b).
  Definition same_counts (a b : obs) :=
    list_nat_eqb (o_issued a) (o_issued b) && list_nat_eqb (o_failed a) (o_failed b).
  Definition same_jobs (a b : obs) := list_nat_eqb (o_jobs a) (o_jobs b).
  Definition keeps_all (b a : obs) := forallb (fun x => mem_cert x (o_cache a)) (o_cache b).

  Definition code_name (x : nat) : name := x / 6.
  Definition code_is_renew (x : nat) : bool := 3 <=? x mod 6.
  Definition code_is_locked (x : nat) : bool := x mod 3 =? 1.
  Definition renew_job_for (o : obs) (n : name) : bool :=
    existsb (fun x => (code_name x =? n) && code_is_renew x) (o_jobs o).
  Definition locked_in (o : obs) (n : name) : bool :=
    existsb (fun x => (code_name x =? n) && code_is_locked x) (o_jobs o).

  (** 0: the name index and the served certificate agree with the cache contents:
      every cached certificate answers for all of its names *)
  Definition c_consistent (a : obs) : bool :=
    forallb (fun n => perm_eqb (oidx a n) (index_ids n (o_cache a)) &&
                      opt_eqb Nat.eqb (osrv a n) (served n (o_cache a))) U.

  (** 1: the issuer is contacted successfully for n only when storage has no certificate for
      n or a due one, and then once *)
  Definition c_issue_pre (b a : obs) : bool :=
    forallb (fun n => (oiss a n =? oiss b n) ||
                      ((oiss a n =? S (oiss b n)) &&
                       match ost b n with None => true | Some c => cdue c end)) U.

  (** 2: storage changes only through a successful issuance for that name or through another
      instance; the new bundle is a new certificate for that name *)
  Definition c_store_change (e : event) (b a : obs) : bool :=
    forallb (fun n => opt_cert_eqb (ost a n) (ost b n) ||
      match ost a n with
      | Some c =>
          (chead c =? n) && cman c && negb (has_id (cid c) (certs_of_obs b)) &&
          (match e with
           | ExtRenew m rest => (m =? n) && list_nat_eqb (crest c) rest && negb (cdue c)
           | _ => (oiss a n =? S (oiss b n)) && list_nat_eqb (crest c) [] && Bool.eqb (cdue c) idue
           end)
      | None => false
      end) U.

  (** 3: a certificate that is not due is never taken out of the cache *)
  Definition c_not_due_kept (b a : obs) : bool :=
    forallb (fun c => cdue c || mem_cert c (o_cache a)) (o_cache b).
  (** 4: neither is an unmanaged one or one managed on-demand *)
  Definition c_unman_od_kept (b a : obs) : bool :=
    forallb (fun c => (cman c && negb (od (chead c))) || mem_cert c (o_cache a)) (o_cache b).
  (** 5: a certificate leaves the cache only when the certificate now stored under its name
      takes its place *)
  Definition c_removal_replaced (b a : obs) : bool :=
    forallb (fun c => mem_cert c (o_cache a) ||
                      match ost a (chead c) with
                      | Some st => negb (cid st =? cid c) && mem_cert st (o_cache a)
                      | None => false
                      end) (o_cache b).
  (** 6: whatever enters the cache is what storage holds under its name *)
  Definition c_added_from_storage (b a : obs) : bool :=
    forallb (fun c => mem_cert c (o_cache b) ||
                      match ost a (chead c) with Some st => cert_eqb st c | None => false end) (o_cache a).
  (** 7: at most one renewal job per name is queued or running; at most one job holds a name's lock *)
  Definition c_jobs_dedup (a : obs) : bool :=
    forallb (fun n => (length (filter (fun x => (code_name x =? n) && code_is_renew x) (o_jobs a)) <=? 1) &&
                      (length (filter (fun x => (code_name x =? n) && code_is_locked x) (o_jobs a)) <=? 1)) U.

  (** 8: what the event itself is allowed / obliged to do *)
  Definition c_manage (n : name) (async : bool) (b a : obs) : bool :=
    if od n || managed_for n (o_cache b) then unchanged a b
    else
      match ost b n with
      | None =>
          if async then
            same_cache a b && same_store a b && same_counts a b && negb (o_err a) &&
            perm_eqb (o_jobs a) (n * 6 :: o_jobs b)
          else if locked_in b n then unchanged a b
          else
            same_jobs a b &&
            if ofl a n =? ofl b n then
              negb (o_err a) && (oiss a n =? S (oiss b n)) && keeps_all b a &&
              match ost a n with Some c => mem_cert c (o_cache a) | None => false end
            else o_err a && same_cache a b && same_store a b && (oiss a n =? oiss b n)
      | Some st =>
          if negb (cdue st) then
            mem_cert st (o_cache a) && keeps_all b a && same_store a b && same_counts a b &&
            same_jobs a b && negb (o_err a)
          else if async then
            mem_cert st (o_cache a) && keeps_all b a && same_store a b && same_counts a b &&
            renew_job_for a n && negb (o_err a)
          else if locked_in b n then unchanged a b
          else
            same_jobs a b &&
            if ofl a n =? ofl b n then
              negb (o_err a) && (oiss a n =? S (oiss b n)) &&
              match ost a n with
              | Some c => mem_cert c (o_cache a) && negb (cid c =? cid st) && negb (mem_cert st (o_cache a))
              | None => false
              end
            else o_err a && mem_cert st (o_cache a) && keeps_all b a && same_store a b && (oiss a n =? oiss b n)
      end.

  Definition c_event (pend : list pass) (e : event) (b a : obs) : bool :=
    match e with
    | PassScan _ => unchanged a b
    | SetIssuer _ _ => unchanged a b
    | PassAct p =>
        same_store a b && same_counts a b && negb (o_err a) &&
        forallb (fun x => count x (o_jobs b) <=? count x (o_jobs a)) (o_jobs b) &&
        forallb (fun x => (count x (o_jobs a) <=? count x (o_jobs b)) || (x mod 6 =? 3)) (o_jobs a) &&
        match take_pass p pend with
        | None => same_cache a b && same_jobs a b
        | Some (q, _) =>
            (* adopt: every certificate found renewed in storage is replaced by the stored one *)
            forallb (fun c => match ost b (chead c) with
                              | Some st => mem_cert st (o_cache a) &&
                                           ((cid st =? cid c) || negb (mem_cert c (o_cache a)))
                              | None => true
                              end) (preload q) &&
            (* renew: a renewal job for the name is queued or running *)
            forallb (fun c => renew_job_for a (chead c)) (prenew q) &&
            (* and nothing else is submitted: only for certificates the scan found due *)
            forallb (fun x => (count x (o_jobs a) <=? count x (o_jobs b)) ||
                              existsb (fun c => chead c =? code_name x) (prenew q)) (o_jobs a)
        end
    | ExtRenew n rest =>
        same_cache a b && same_jobs a b && same_counts a b && negb (o_err a) &&
        negb (opt_cert_eqb (ost a n) (ost b n)) &&
        forallb (fun m => (m =? n) || opt_cert_eqb (ost a m) (ost b m)) U
    | JobStep n _ =>
        negb (o_err a) &&
        forallb (fun m => (m =? n) || (opt_cert_eqb (ost a m) (ost b m) && (oiss a m =? oiss b m) &&
                                       (ofl a m =? ofl b m))) U &&
        perm_eqb (filter (fun x => negb (code_name x =? n)) (o_jobs a))
                 (filter (fun x => negb (code_name x =? n)) (o_jobs b)) &&
        (length (filter (fun x => code_name x =? n) (o_jobs a)) <=?
         length (filter (fun x => code_name x =? n) (o_jobs b))) &&
        (* a job that ends leaves the certificate stored under its name in the cache:
           "thereafter serves the new certificate" *)
        ((length (filter (fun x => code_name x =? n) (o_jobs b)) <=?
          length (filter (fun x => code_name x =? n) (o_jobs a))) ||
         match ost a n with Some st => mem_cert st (o_cache a) | None => true end) &&
        (* a failed attempt changes nothing: the old certificate keeps being served *)
        ((ofl a n =? ofl b n) || (same_cache a b && same_store a b && same_jobs a b)) &&
        (* only the holder of the name's lock issues *)
        ((oiss a n =? oiss b n) || locked_in b n)
    | Manage n async => c_manage n async b a
    end.

  Definition clauses (pend : list pass) (e : event) (b a : obs) : list bool :=
    [ c_consistent a; c_issue_pre b a; c_store_change e b a; c_not_due_kept b a;
      c_unman_od_kept b a; c_removal_replaced b a; c_added_from_storage b a; c_jobs_dedup a;
      c_event pend e b a ].

  Definition spec_step (pend : list pass) (e : event) (b a : obs) : bool :=
    forallb (fun x => x) (clauses pend e b a).

  (** the monitor's own record of what each scan found (computed from the observation) *)
  Definition pend_after (pend : list pass) (e : event) (b : obs) : list pass :=
    match e with
    | PassScan p => pend ++ [Pass p (scan_reload od (store_of_obs b) (o_cache b))
                                    (scan_renew od (store_of_obs b) (o_cache b))]
    | PassAct p => match take_pass p pend with Some (_, r) => r | None => pend end
    | _ => pend
    end.

  Fixpoint spec_run (pend : list pass) (b : obs) (h : list (event * obs)) : bool :=
    match h with
    | [] => true
    | (e, a) :: r => spec_step pend e b a && spec_run (pend_after pend e b) a r
    end.

  (** shutdown (context cancelled, every job and pass runs to its end): no Issue succeeds, storage
      is not written, and the cache clauses 3-6 hold between the last observation and the end *)
  Definition spec_final (b a : obs) : bool :=
    c_consistent a && same_store a b && list_nat_eqb (o_issued a) (o_issued b) &&
    c_not_due_kept b a && c_unman_od_kept b a && c_removal_replaced b a && c_added_from_storage b a.

  Fixpoint first_false (i : nat) (l : list bool) : option nat :=
    match l with
    | [] => None
    | x :: r => if x then first_false (S i) r else Some i
    end.
  Fixpoint spec_first_fail (pend : list pass) (b : obs) (h : list (event * obs)) (i : nat) : option (nat * nat) :=
    match h with
    | [] => None
    | (e, a) :: r =>
        match first_false 0 (clauses pend e b a) with
        | Some cl => Some (i, cl)
        | None => spec_first_fail (pend_after pend e b) a r (S i)
        end
    end.
End Spec.
