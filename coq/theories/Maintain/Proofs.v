(** C05 — the property's clauses, proved of the model for every state and history. *)
From Coq Require Import List Arith Bool Lia.
From CM Require Import Maintain.Model Maintain.Spec Maintain.Base Maintain.Inv.
Import ListNotations.

(** * More cache lemmas *)
Lemma In_reload_one' x st ca old :
  In x (reload_one st ca old) -> In x ca \/ stored st (chead old) = Some x.
Proof.
  unfold reload_one. destruct (stored st (chead old)) as [new|] eqn:S; auto.
  unfold cache_replace; intros H. apply In_cache_add in H as [H | ->]; auto.
  apply In_cache_remove in H; tauto.
Qed.

Lemma In_fold_reload' x st olds ca :
  In x (fold_left (reload_one st) olds ca) ->
  In x ca \/ exists o, In o olds /\ stored st (chead o) = Some x.
Proof.
  revert ca; induction olds as [|o r IH]; cbn; intros ca H; auto.
  apply IH in H as [H|(o' & Ho & S)]; [|right; eauto].
  apply In_reload_one' in H as [H|H]; [auto | right; eauto].
Qed.

Lemma reload_one_removal (U : cert -> Prop) st ca old x :
  (forall c1 c2, U c1 -> U c2 -> cid c1 = cid c2 -> c1 = c2) ->
  (forall c, In c ca -> U c) -> U old -> (forall n c, stored st n = Some c -> U c) ->
  In x ca -> ~ In x (reload_one st ca old) ->
  x = old /\ exists new, stored st (chead old) = Some new /\ cid new <> cid x /\
                         In new (reload_one st ca old).
Proof.
  intros Uq Uca Uold Ust Hx N.
  destruct (Nat.eq_dec (cid x) (cid old)) as [E|E]; [|exfalso; apply N, reload_one_keeps; auto].
  assert (x = old) by (apply Uq; auto). subst x. split; auto.
  unfold reload_one in *. destruct (stored st (chead old)) as [new|] eqn:S; [|contradiction].
  exists new; split; auto. unfold cache_replace in *.
  assert (In new (cache_add new (cache_remove old ca))).
  { apply In_cache_add_new. intros y Hy Ey. apply In_cache_remove in Hy as [Hy _].
    apply Uq; eauto. }
  split; auto. intros Eq. assert (new = old) by (apply Uq; eauto). subst new. contradiction.
Qed.

Lemma In_reload_one_some x st ca old new :
  stored st (chead old) = Some new -> In x (reload_one st ca old) ->
  x = new \/ (In x ca /\ cid x <> cid old).
Proof.
  intros S. unfold reload_one; rewrite S. unfold cache_replace. intros H.
  apply In_cache_add in H as [H| ->]; auto. apply In_cache_remove in H; auto.
Qed.

Lemma reload_one_not_in x st ca old :
  ~ In x ca -> stored st (chead old) <> Some x -> ~ In x (reload_one st ca old).
Proof. intros N S H. apply In_reload_one' in H as [H|H]; auto. Qed.

Lemma fold_reload_not_in x st olds ca :
  ~ In x ca -> (forall o, In o olds -> stored st (chead o) <> Some x) ->
  ~ In x (fold_left (reload_one st) olds ca).
Proof.
  intros N S H. apply In_fold_reload' in H as [H|(o & Ho & E)]; auto. eapply S; eauto.
Qed.

Lemma split_job_none n k js :
  forallb (fun j => negb (jname j =? n)) js = true -> split_job n k js = None.
Proof.
  revert k; induction js as [|x r IH]; cbn; intros k H; auto.
  apply andb_true_iff in H as [H1 H2]. apply negb_true_iff in H1. rewrite H1, IH; auto.
Qed.

Lemma split_job_snoc n js j :
  forallb (fun j => negb (jname j =? n)) js = true -> jname j = n ->
  split_job n 0 (js ++ [j]) = Some (js, j, []).
Proof.
  intros H E. induction js as [|x r IH]; cbn.
  - rewrite E, Nat.eqb_refl; reflexivity.
  - cbn in H. apply andb_true_iff in H as [H1 H2]. apply negb_true_iff in H1.
    rewrite H1, IH; auto.
Qed.

Lemma no_jobs_lock_free n js :
  forallb (fun j => negb (jname j =? n)) js = true -> lock_held js n = false.
Proof.
  unfold lock_held. induction js as [|x r IH]; cbn; intros H; auto.
  apply andb_true_iff in H as [H1 H2]. apply negb_true_iff in H1. rewrite H1, IH; auto.
Qed.

Lemma no_jobs_no_renew n js :
  forallb (fun j => negb (jname j =? n)) js = true -> existsb (is_renew_for n) js = false.
Proof.
  induction js as [|x r IH]; cbn; intros H; auto.
  apply andb_true_iff in H as [H1 H2]. apply negb_true_iff in H1. rewrite IH by auto.
  unfold is_renew_for. destruct (jkd x); [reflexivity|]. rewrite H1; reflexivity.
Qed.

Lemma lock_held_app js1 js2 n : lock_held (js1 ++ js2) n = lock_held js1 n || lock_held js2 n.
Proof. unfold lock_held; apply existsb_app. Qed.

Section Proofs.
  Variable od : name -> bool.
  Variable idue : bool.

  Notation step := (step od idue).
  Notation run := (run od idue).
  Notation eligible := (eligible od).
  Notation WF := (WF od).
  Notation new_cert := (new_cert idue).

  Lemma run_app s h1 h2 : run s (h1 ++ h2) = run (run s h1) h2.
  Proof. unfold Model.run; apply fold_left_app. Qed.
  Lemma run_cons s e h : run s (e :: h) = run (step s e) h.
  Proof. reflexivity. Qed.

  Lemma neq_id s x old :
    WF s -> InSt s x -> InSt s old -> eligible x = false -> eligible old = true -> cid x <> cid old.
  Proof.
    intros W Hx Ho Ex Eo E. rewrite (wf_uniq od s W x old Hx Ho E) in Ex. congruence.
  Qed.

  Lemma new_cert_fresh_id s n c : WF s -> InSt s c -> cid c <> cid (new_cert s n).
  Proof. intros W H. apply (wf_lt od s W) in H. cbn. lia. Qed.

  (** * How one event changes storage, the issuer log and the cache *)

  (** storage and the issuer log: nothing, or another instance's save, or one successful
      issuance — for a name whose stored certificate is absent or due, with a working issuer *)
  Lemma step_store_cases s e :
    let s' := step s e in
    (store s' = store s /\ issued s' = issued s /\ next s' = next s) \/
    (exists n rest, e = ExtRenew n rest /\ issued s' = issued s /\
                    store s' = (n, Cert (next s) n rest false true) :: store s) \/
    (exists n, store s' = (n, new_cert s n) :: store s /\ issued s' = n :: issued s /\
               stored_fresh (store s) n = false /\ is_failing s n = false /\
               failed s' = failed s /\
               ((exists k, e = JobStep n k) \/ e = Manage n false)).
  Proof.
    unfold Model.step. destruct e as [p|p|n rest|n f|n k|n a]; cbn zeta.
    - left; auto.
    - left. unfold pass_act. destruct (take_pass p _) as [[q r]|]; auto.
    - right; left. exists n, rest; auto.
    - left; auto.
    - unfold job_step.
      destruct (split_job n k _) as [[[pre j] post]|]; [|left; auto].
      comp. destruct (jkd j), (jpc_ j).
      + destruct (stored (store s) n); [left; auto|]. destruct (lock_held (jobs s) n); left; auto.
      + destruct (stored (store s) n) eqn:S; [left; auto|].
        change (is_failing (with_err s false) n) with (is_failing s n).
        destruct (is_failing s n) eqn:F; [left; auto|].
        right; right. exists n. repeat split; eauto. unfold stored_fresh; rewrite S; reflexivity.
      + destruct (stored (store s) n); left; auto.
      + destruct (lock_held (jobs s) n); left; auto.
      + destruct (stored (store s) n) as [st|] eqn:S; [|left; auto].
        destruct (cdue st) eqn:D; [|left; auto].
        change (is_failing (with_err s false) n) with (is_failing s n).
        destruct (is_failing s n) eqn:F; [left; auto|].
        right; right. exists n. repeat split; eauto. unfold stored_fresh; rewrite S, D; reflexivity.
      + destruct (jold j); left; auto.
    - unfold manage. destruct (od n); [left; auto|]. comp.
      destruct (managed_for n (cache s)); [left; auto|].
      change (is_failing (with_err s false) n) with (is_failing s n).
      destruct (stored (store s) n) as [st|] eqn:S.
      + destruct (cdue st) eqn:D; [|left; auto].
        destruct a; [left; auto|]. destruct (lock_held (jobs s) n); [left; auto|].
        destruct (is_failing s n) eqn:F; [left; auto|].
        right; right. exists n. repeat split; auto. unfold stored_fresh; rewrite S, D; reflexivity.
      + destruct a; [left; auto|]. destruct (lock_held (jobs s) n); [left; auto|].
        destruct (is_failing s n) eqn:F; [left; auto|].
        right; right. exists n. cbn. rewrite stored_cons_eq. cbn.
        repeat split; auto. unfold stored_fresh; rewrite S; reflexivity.
  Qed.

  (** the cache: unchanged, or a load, or a reload by a job, or the reload queue of a pass,
      or what a synchronous manage does *)
  Lemma step_cache_shape s e :
    WF s ->
    let s' := step s e in
    cache s' = cache s \/
    (exists n st, stored (store s) n = Some st /\ store s' = store s /\
                  cache s' = cache_add st (cache s)) \/
    (exists old, InSt s old /\ eligible old = true /\ store s' = store s /\
                 cache s' = reload_one (store s) (cache s) old) \/
    (exists q, In q (passes s) /\ store s' = store s /\
               cache s' = fold_left (reload_one (store s)) (preload q) (cache s)) \/
    (exists n, stored (store s) n = None /\ store s' = (n, new_cert s n) :: store s /\
               cache s' = cache_add (new_cert s n) (cache s)) \/
    (exists n st, stored (store s) n = Some st /\ eligible st = true /\
                  store s' = (n, new_cert s n) :: store s /\
                  cache s' = reload_one (store s') (cache_add st (cache s)) st).
  Proof.
    intros W. unfold Model.step. destruct e as [p|p|n rest|n f|n k|n a]; cbn zeta.
    - left; reflexivity.
    - unfold pass_act. destruct (take_pass p _) as [[q r]|] eqn:T; [|left; reflexivity].
      comp. right; right; right; left. exists q. repeat split; auto.
      destruct (take_pass_spec _ _ _ _ T) as (_ & a & b & E & _). comp. rewrite E, in_app_iff; cbn; auto.
    - left; reflexivity.
    - left; reflexivity.
    - unfold job_step.
      destruct (split_job n k _) as [[[pre j] post]|] eqn:SJ; [|left; reflexivity].
      comp. destruct (split_job_spec _ _ _ _ _ _ SJ) as [EJ EN].
      assert (Hj : In j (jobs s)) by (rewrite EJ, in_app_iff; cbn; auto).
      destruct (jkd j) eqn:K, (jpc_ j).
      + destruct (stored (store s) n) as [st|] eqn:S.
        * right; left. exists n, st; auto.
        * destruct (lock_held (jobs s) n); left; reflexivity.
      + destruct (stored (store s) n); [left; reflexivity|].
        destruct (is_failing _ n); left; reflexivity.
      + destruct (stored (store s) n) as [st|] eqn:S.
        * right; left. exists n, st; auto.
        * left; reflexivity.
      + destruct (lock_held (jobs s) n); left; reflexivity.
      + destruct (stored (store s) n) as [st|]; [|left; reflexivity].
        destruct (cdue st); [|left; reflexivity].
        destruct (is_failing _ n); left; reflexivity.
      + destruct (jold j) as [old|] eqn:O; [|left; reflexivity].
        right; right; left. exists old.
        destruct (wf_job_old od s j old W Hj O) as (_ & _ & El).
        repeat split; auto. apply InSt_job, In_job_olds; eauto.
    - unfold manage. destruct (od n) eqn:OD; [left; reflexivity|]. comp.
      destruct (managed_for n (cache s)); [left; reflexivity|].
      destruct (stored (store s) n) as [st|] eqn:S.
      + destruct (cdue st) eqn:D.
        * destruct a; [right; left; exists n, st; auto|].
          destruct (lock_held (jobs s) n); [left; reflexivity|].
          destruct (is_failing _ n); [right; left; exists n, st; auto|].
          right; right; right; right; right. exists n, st.
          destruct (wf_stored od s n st W S) as [Hh Hm].
          repeat split; auto. unfold Model.eligible. rewrite Hm, Hh, OD, D; reflexivity.
        * right; left; exists n, st; auto.
      + destruct a; [left; reflexivity|].
        destruct (lock_held (jobs s) n); [left; reflexivity|].
        destruct (is_failing _ n); [left; reflexivity|].
        right; right; right; right; left. exists n. cbn. rewrite stored_cons_eq. cbn. auto.
  Qed.

  (** * Certificates that are not due — or unmanaged, or managed on demand — are never touched *)

  Lemma step_cache_keeps s e x :
    WF s -> In x (cache s) -> eligible x = false -> In x (cache (step s e)).
  Proof.
    intros W Hx Ex. pose proof (InSt_cache s x Hx) as Ix.
    destruct (step_cache_shape s e W) as
      [E|[(n & st & S & _ & E)|[(old & Io & Eo & _ & E)|[(q & Hq & _ & E)|[(n & S & _ & E)|(n & st & S & Est & _ & E)]]]]];
      rewrite E; auto using In_cache_add_l.
    - apply reload_one_keeps; auto. eapply neq_id; eauto.
    - apply fold_reload_keeps; auto. intros o Ho. eapply neq_id; eauto.
      + apply InSt_pass, In_pass_certs. exists q; rewrite in_app_iff; auto.
      + eapply wf_pass; eauto. rewrite in_app_iff; auto.
    - apply reload_one_keeps; auto using In_cache_add_l.
      eapply neq_id; eauto. eapply InSt_stored; eauto.
  Qed.

  Theorem run_cache_keeps s h x :
    WF s -> In x (cache s) -> eligible x = false -> In x (cache (run s h)).
  Proof.
    revert s; induction h as [|e r IH]; cbn; intros s W Hx Ex; auto.
    apply IH; auto using WF_step, step_cache_keeps.
  Qed.

  (** a maintenance pass itself never writes storage and never contacts the issuer;
      its scan changes nothing at all but the pass's own memory *)
  Lemma pass_scan_frame s p :
    let s' := step s (PassScan p) in
    store s' = store s /\ cache s' = cache s /\ jobs s' = jobs s /\ issued s' = issued s /\
    failed s' = failed s /\ failing s' = failing s /\ next s' = next s.
  Proof. cbn. repeat split. Qed.

  Lemma pass_act_frame s p :
    let s' := step s (PassAct p) in
    store s' = store s /\ issued s' = issued s /\ failed s' = failed s /\
    failing s' = failing s /\ next s' = next s.
  Proof.
    cbn. unfold pass_act. comp. destruct (take_pass p (passes s)) as [[q r]|]; cbn; repeat split.
  Qed.

  (** the jobs a pass submits are renewal jobs for certificates that are due *)
  Lemma In_submit_renew j js n old :
    In j (submit_renew js n old) -> In j js \/ j = Job n JRenew (Some old) Queued.
  Proof.
    unfold submit_renew. destruct (existsb _ js); auto. rewrite in_app_iff; cbn; intuition.
  Qed.

  Lemma In_fold_submit j olds js :
    In j (fold_left (fun js old => submit_renew js (chead old) old) olds js) ->
    In j js \/ exists old, In old olds /\ j = Job (chead old) JRenew (Some old) Queued.
  Proof.
    revert js; induction olds as [|o r IH]; cbn; intros js H; auto.
    apply IH in H as [H|(old & Ho & E)]; [|right; eauto].
    apply In_submit_renew in H as [H|H]; [auto | right; eauto].
  Qed.

  Lemma pass_act_jobs s p j :
    WF s -> In j (jobs (step s (PassAct p))) ->
    In j (jobs s) \/ exists old, j = Job (chead old) JRenew (Some old) Queued /\ eligible old = true.
  Proof.
    intros W. cbn. unfold pass_act. comp.
    destruct (take_pass p (passes s)) as [[q r]|] eqn:T; comp; auto.
    intros H. apply In_fold_submit in H as [H|(old & Ho & ->)]; auto.
    right. exists old; split; auto.
    destruct (take_pass_spec _ _ _ _ T) as (_ & a & b & E & _).
    apply (wf_pass od s W q); [rewrite E, in_app_iff; cbn; auto | rewrite in_app_iff; auto].
  Qed.

  (** * A certificate leaves the cache only when the stored one takes its place *)

  Lemma fold_reload_removal s olds ca x :
    WF s -> (forall c, In c ca -> InSt s c) ->
    (forall o, In o olds -> InSt s o /\ eligible o = true /\ stored_fresh (store s) (chead o) = true) ->
    In x ca -> ~ In x (fold_left (reload_one (store s)) olds ca) ->
    exists st, stored (store s) (chead x) = Some st /\ cid st <> cid x /\
               In st (fold_left (reload_one (store s)) olds ca).
  Proof.
    intros W. revert ca. induction olds as [|o r IH]; cbn; intros ca G H Hx N; [contradiction|].
    destruct (H o (or_introl eq_refl)) as (Io & Eo & Fo).
    assert (G1 : forall c, In c (reload_one (store s) ca o) -> InSt s c).
    { intros c Hc. apply In_reload_one in Hc as [Hc|Hc]; auto using InSt_store. }
    destruct (mem_cert x (reload_one (store s) ca o)) eqn:M.
    - apply mem_cert_In in M. apply (IH _ G1); auto.
    - assert (Hout : ~ In x (reload_one (store s) ca o)) by (rewrite <- mem_cert_In, M; discriminate).
      destruct (reload_one_removal (InSt s) (store s) ca o x) as (-> & new & S & Ne & Hn); auto.
      + apply W.
      + intros n c Sc; eapply InSt_stored; eauto.
      + exists new; repeat split; auto.
        apply fold_reload_keeps; auto. intros o' Ho'.
        destruct (H o' (or_intror Ho')) as (Io' & Eo' & _).
        assert (In1 : InSt s new) by (eapply InSt_stored; eauto).
        assert (En : eligible new = false).
        { unfold stored_fresh in Fo. rewrite S in Fo. apply negb_true_iff in Fo.
          unfold Model.eligible. rewrite Fo, andb_false_r; reflexivity. }
        apply (neq_id s new o' W In1 Io' En Eo').
  Qed.

  Lemma step_removal s e x :
    WF s -> In x (cache s) -> ~ In x (cache (step s e)) ->
    exists st, stored (store (step s e)) (chead x) = Some st /\ cid st <> cid x /\
               In st (cache (step s e)).
  Proof.
    intros W Hx. pose proof (InSt_cache s x Hx) as Ix.
    assert (G : forall c, In c (cache s) -> InSt s c) by (intros; apply InSt_cache; auto).
    destruct (step_cache_shape s e W) as
      [E|[(n & st & S & _ & E)|[(old & Io & Eo & ES & E)|[(q & Hq & ES & E)|[(n & S & _ & E)|(n & st & S & Est & ES & E)]]]]];
      rewrite E; intros N.
    - contradiction.
    - exfalso; apply N, In_cache_add_l, Hx.
    - rewrite ES.
      destruct (reload_one_removal (InSt s) (store s) (cache s) old x) as (-> & new & S & Ne & Hn); auto.
      + apply W.
      + intros n c Sc; eapply InSt_stored; eauto.
      + eauto.
    - rewrite ES. apply fold_reload_removal; auto.
      intros o Ho. repeat split.
      + apply InSt_pass, In_pass_certs. exists q; rewrite in_app_iff; auto.
      + eapply wf_pass; eauto. rewrite in_app_iff; auto.
      + eapply wf_pass_fresh; eauto.
    - exfalso; apply N, In_cache_add_l, Hx.
    - destruct (wf_stored od s n st W S) as [Hh _].
      set (nc := new_cert s n) in *.
      set (U := fun c => InSt s c \/ c = nc).
      assert (Ist : InSt s st) by (eapply InSt_stored; eauto).
      assert (Uq : forall c1 c2, U c1 -> U c2 -> cid c1 = cid c2 -> c1 = c2).
      { intros c1 c2 [H1| ->] [H2| ->] Eq; auto.
        - apply (wf_uniq od s W); auto.
        - exfalso; eapply new_cert_fresh_id; eauto.
        - exfalso; eapply new_cert_fresh_id; eauto. }
      destruct (reload_one_removal U (store (step s e)) (cache_add st (cache s)) st x)
        as (-> & new & S' & Ne & Hn); auto.
      + intros c Hc. apply In_cache_add in Hc as [Hc| ->]; left; auto.
      + left; auto.
      + rewrite ES. intros m c Sc. unfold stored in Sc; cbn in Sc.
        destruct (Nat.eqb_spec n m).
        * injection Sc as <-; right; reflexivity.
        * left. eapply InSt_stored. unfold stored. exact Sc.
      + apply In_cache_add_l; auto.
      + eauto.
  Qed.

  (** ... and whatever enters the cache is what storage then holds under its name *)
  Lemma step_added_from_storage s e c :
    WF s -> In c (cache (step s e)) -> ~ In c (cache s) ->
    stored (store (step s e)) (chead c) = Some c.
  Proof.
    intros W.
    destruct (step_cache_shape s e W) as
      [E|[(n & st & S & ES & E)|[(old & Io & Eo & ES & E)|[(q & Hq & ES & E)|[(n & S & ES & E)|(n & st & S & Est & ES & E)]]]]];
      rewrite E; intros Hc N.
    - contradiction.
    - apply In_cache_add in Hc as [Hc| ->]; [contradiction|].
      rewrite ES. destruct (wf_stored od s n st W S) as [-> _]; auto.
    - apply In_reload_one' in Hc as [Hc|Hc]; [contradiction|].
      rewrite ES. destruct (wf_stored od s _ c W Hc) as [-> _]; auto.
    - apply In_fold_reload' in Hc as [Hc|(o & _ & Hc)]; [contradiction|].
      rewrite ES. destruct (wf_stored od s _ c W Hc) as [-> _]; auto.
    - apply In_cache_add in Hc as [Hc| ->]; [contradiction|].
      rewrite ES. cbn. apply stored_cons_eq.
    - destruct (wf_stored od s n st W S) as [Hh _].
      assert (S' : stored (store (step s e)) (chead st) = Some (new_cert s n))
        by (rewrite ES, Hh; apply stored_cons_eq).
      apply (In_reload_one_some _ _ _ _ _ S') in Hc as [->|[Hc Ne]].
      + rewrite ES. cbn. apply stored_cons_eq.
      + exfalso. apply In_cache_add in Hc as [Hc| ->]; [contradiction|]. apply Ne; reflexivity.
  Qed.

  (** * A due certificate whose stored copy is fresh is adopted, without contacting the issuer *)

  Lemma fold_reload_adopts s olds ca c :
    WF s -> (forall x, In x ca -> InSt s x) ->
    (forall o, In o olds -> InSt s o /\ eligible o = true /\ stored_fresh (store s) (chead o) = true) ->
    In c olds ->
    exists st, stored (store s) (chead c) = Some st /\ cdue st = false /\
               In st (fold_left (reload_one (store s)) olds ca) /\
               ~ In c (fold_left (reload_one (store s)) olds ca).
  Proof.
    intros W. revert ca. induction olds as [|o r IH]; cbn; intros ca G H Hc; [contradiction|].
    assert (G1 : forall x, In x (reload_one (store s) ca o) -> InSt s x).
    { intros x Hx. apply In_reload_one in Hx as [Hx|Hx]; auto using InSt_store. }
    assert (Hr : forall o', In o' r -> InSt s o' /\ eligible o' = true /\
                                       stored_fresh (store s) (chead o') = true) by (intros; apply H; auto).
    (* a stored fresh certificate is never one of the queued (due) ones *)
    assert (FreshNe : forall o1 o2 st, In o1 (o :: r) -> In o2 (o :: r) ->
                        stored (store s) (chead o1) = Some st -> cid st <> cid o2 /\ st <> o2).
    { intros o1 o2 st H1 H2 S1.
      destruct (H o1 H1) as (_ & _ & F1). destruct (H o2 H2) as (I2 & E2 & _).
      unfold stored_fresh in F1; rewrite S1 in F1. apply negb_true_iff in F1.
      assert (En : eligible st = false) by (unfold Model.eligible; rewrite F1, andb_false_r; reflexivity).
      split; [|intros ->; congruence].
      apply (neq_id s st o2 W); auto. eapply InSt_stored; eauto. }
    destruct Hc as [->|Hc].
    - (* c is handled now; the rest of the queue does not undo it *)
      destruct (H c (or_introl eq_refl)) as (Ic & Ec & Fc).
      unfold stored_fresh in Fc. destruct (stored (store s) (chead c)) as [st|] eqn:S; [|discriminate].
      apply negb_true_iff in Fc. exists st; repeat split; auto.
      + apply fold_reload_keeps.
        * unfold reload_one; rewrite S. apply In_cache_add_new.
          intros y Hy Ey. apply In_cache_remove in Hy as [Hy _].
          apply (wf_uniq od s W); auto. eapply InSt_stored; eauto.
        * intros o' Ho'. apply (proj1 (FreshNe c o' st (or_introl eq_refl) (or_intror Ho') S)).
      + apply fold_reload_not_in.
        * unfold reload_one; rewrite S. intros K. apply In_cache_add in K as [K|K].
          -- apply In_cache_remove in K as [_ K]; auto.
          -- subst st. apply (proj2 (FreshNe c c c (or_introl eq_refl) (or_introl eq_refl) S)); reflexivity.
        * intros o' Ho' S'. apply (proj2 (FreshNe o' c c (or_intror Ho') (or_introl eq_refl) S')); reflexivity.
    - apply (IH _ G1 Hr Hc).
  Qed.

  (** the pass [p] acts on what its scan found, whatever happened in between *)
  Lemma pass_act_adopts s p q rest c :
    WF s -> take_pass p (passes s) = Some (q, rest) -> In c (preload q) ->
    let s' := step s (PassAct p) in
    exists st, stored (store s) (chead c) = Some st /\ cdue st = false /\
               In st (cache s') /\ ~ In c (cache s') /\
               store s' = store s /\ issued s' = issued s /\ failed s' = failed s.
  Proof.
    intros W T Hc. cbn. unfold pass_act. comp. rewrite T. comp.
    destruct (take_pass_spec _ _ _ _ T) as (_ & a & b & E & _).
    assert (Hq : In q (passes s)) by (rewrite E, in_app_iff; cbn; auto).
    destruct (fold_reload_adopts s (preload q) (cache s) c W) as (st & S & D & I1 & I2); auto.
    - intros; apply InSt_cache; auto.
    - intros o Ho; repeat split.
      + apply InSt_pass, In_pass_certs. exists q; rewrite in_app_iff; auto.
      + eapply wf_pass; eauto. rewrite in_app_iff; auto.
      + eapply wf_pass_fresh; eauto.
    - exists st; repeat split; auto.
  Qed.

  Lemma take_pass_snoc p ps q :
    take_pass p ps = None -> pid q = p -> take_pass p (ps ++ [q]) = Some (q, ps).
  Proof.
    intros N E. induction ps as [|x r IH]; cbn in *.
    - rewrite E, Nat.eqb_refl; reflexivity.
    - destruct (pid x =? p); [discriminate|].
      destruct (take_pass p r) as [[y r']|]; [discriminate|]. rewrite IH; auto.
  Qed.

  Theorem adopts_external_renewal s p c st :
    WF s -> take_pass p (passes s) = None ->
    In c (cache s) -> eligible c = true ->
    stored (store s) (chead c) = Some st -> cdue st = false ->
    let s' := step (step s (PassScan p)) (PassAct p) in
    In st (cache s') /\ ~ In c (cache s') /\
    (forall m, In m (cnames st) -> In st (resolve m (cache s'))) /\
    store s' = store s /\ issued s' = issued s /\ failed s' = failed s /\
    (* and no renewal job is submitted for it *)
    filter (is_renew_for (chead c)) (jobs s') = filter (is_renew_for (chead c)) (jobs s).
  Proof.
    intros W T Hc Ec S D s'.
    set (s1 := step s (PassScan p)).
    assert (W1 : WF s1) by (apply WF_step; auto).
    set (q := Pass p (scan_reload od (store s) (cache s)) (scan_renew od (store s) (cache s))).
    assert (T1 : take_pass p (passes s1) = Some (q, passes s)).
    { cbn. apply take_pass_snoc; auto. }
    assert (Hq : In c (preload q)).
    { cbn. apply In_scan_reload. repeat split; auto. unfold stored_fresh; rewrite S, D; reflexivity. }
    destruct (pass_act_adopts s1 p q (passes s) c W1 T1 Hq) as (st' & S' & D' & I1 & I2 & E1 & E2 & E3).
    change (store s1) with (store s) in *. rewrite S in S'. injection S' as <-.
    fold s' in I1, I2, E1, E2, E3.
    repeat split; auto.
    - intros m Hm. apply In_resolve. split; auto. apply has_name_In; auto.
    - (* jobs: the renewal queue of this scan does not contain a certificate for this name
         ... unless another cached certificate with the same first name is due with a stale
         stored copy, which cannot be: the stored copy for that name is fresh *)
      subst s'. cbn. unfold pass_act. comp.
      unfold pass_scan. comp.
      change (passes s ++ [_]) with (passes s ++ [q]).
      rewrite (take_pass_snoc p (passes s) q T eq_refl). comp.
      assert (Hn : forall o, In o (prenew q) -> chead o <> chead c).
      { intros o Ho Eo. cbn in Ho. apply In_scan_renew in Ho as (_ & _ & F).
        rewrite Eo in F. unfold stored_fresh in F. rewrite S, D in F. discriminate. }
      revert Hn. generalize (prenew q) as olds. generalize (jobs s) as js.
      intros js olds; revert js. induction olds as [|o r IHr]; cbn; intros js Hn; auto.
      rewrite IHr by (intros; apply Hn; cbn; auto).
      unfold submit_renew. destruct (existsb _ js); auto.
      rewrite filter_app; cbn. destruct (Nat.eqb_spec (chead o) (chead c)) as [E|E].
      + exfalso; apply (Hn o); cbn; auto.
      + apply app_nil_r.
  Qed.

  (** the same with any events in between the scan and the act of pass [p] *)
  Definition not_pass (p : nat) (e : event) : Prop := e <> PassScan p /\ e <> PassAct p.

  Lemma step_keeps_pending s e p q rest :
    not_pass p e -> take_pass p (passes s) = Some (q, rest) ->
    exists rest', take_pass p (passes (step s e)) = Some (q, rest').
  Proof.
    intros [N1 N2] T. unfold Model.step. destruct e as [p'|p'|n r|n f|n k|n a]; cbn zeta.
    - cbn. assert (p' <> p) by congruence.
      revert T. generalize (passes s) as ps. intros ps; revert rest.
      induction ps as [|x l IH]; cbn; intros rest T; [discriminate|].
      destruct (pid x =? p); [injection T as <- <-; eauto|].
      destruct (take_pass p l) as [[y l']|] eqn:T'; [|discriminate].
      injection T as <- <-. destruct (IH _ eq_refl) as (r' & ->). eauto.
    - assert (Np : p' <> p) by congruence.
      unfold pass_act. comp. destruct (take_pass p' (passes s)) as [[q' r']|] eqn:T'; comp; eauto.
      revert r' rest T T'. generalize (passes s) as ps.
      induction ps as [|x l IH]; cbn; intros r' rest T T'; [discriminate|].
      destruct (Nat.eqb_spec (pid x) p') as [E1|E1].
      + injection T' as <- <-. destruct (Nat.eqb_spec (pid x) p); [congruence|].
        destruct (take_pass p l) as [[y l']|]; [|discriminate]. injection T as <- <-. eauto.
      + destruct (take_pass p' l) as [[y' l'']|] eqn:T2; [|discriminate]. injection T' as <- <-.
        cbn. destruct (pid x =? p); [injection T as <- <-; eauto|].
        destruct (take_pass p l) as [[y l']|] eqn:T3; [|discriminate]. injection T as <- <-.
        destruct (IH _ _ eq_refl eq_refl) as (r3 & ->). eauto.
    - cbn; eauto.
    - cbn; eauto.
    - unfold job_step. destruct (split_job n k _) as [[[pre j] post]|]; [|cbn; eauto].
      destruct (jkd j), (jpc_ j); comp;
        repeat match goal with
               | |- context [match ?x with _ => _ end] => destruct x
               | |- context [if ?x then _ else _] => destruct x
               end; cbn; eauto.
    - unfold manage.
      repeat match goal with
             | |- context [match ?x with _ => _ end] => destruct x
             | |- context [if ?x then _ else _] => destruct x
             end; cbn; eauto.
  Qed.

  Lemma run_keeps_pending s h p q rest :
    Forall (not_pass p) h -> take_pass p (passes s) = Some (q, rest) ->
    exists rest', take_pass p (passes (run s h)) = Some (q, rest').
  Proof.
    revert s rest; induction h as [|e r IH]; cbn; intros s rest F T; eauto.
    inversion F; subst. destruct (step_keeps_pending s e p q rest) as (r' & T'); auto.
    eapply IH; eauto.
  Qed.

  Theorem adopts_external_renewal_interleaved s p c h :
    WF s -> take_pass p (passes s) = None ->
    In c (cache s) -> eligible c = true -> stored_fresh (store s) (chead c) = true ->
    Forall (not_pass p) h ->
    let s1 := run (step s (PassScan p)) h in
    let s2 := step s1 (PassAct p) in
    exists st, stored (store s1) (chead c) = Some st /\ cdue st = false /\
               In st (cache s2) /\ ~ In c (cache s2) /\
               store s2 = store s1 /\ issued s2 = issued s1 /\ failed s2 = failed s1.
  Proof.
    intros W T Hc Ec F NP s1 s2.
    set (q := Pass p (scan_reload od (store s) (cache s)) (scan_renew od (store s) (cache s))).
    assert (T0 : take_pass p (passes (step s (PassScan p))) = Some (q, passes s)).
    { cbn. apply take_pass_snoc; auto. }
    destruct (run_keeps_pending _ h p q _ NP T0) as (rest' & T1). fold s1 in T1.
    assert (W1 : WF s1) by (apply WF_run, WF_step; auto).
    apply (pass_act_adopts s1 p q rest' c W1 T1).
    cbn. apply In_scan_reload; auto.
  Qed.

  (** * Renewed once *)

  (** at most one renewal job per name is queued or running, and at most one job holds a
      name's lock — in every reachable state, however passes overlap *)
  Theorem renewal_jobs_deduplicated s h n :
    WF s ->
    length (filter (is_renew_for n) (jobs (run s h))) <= 1 /\
    length (filter (is_locked_for n) (jobs (run s h))) <= 1.
  Proof. intros W. apply (WF_run od idue s h) in W. split; apply W. Qed.

  (** the issuer is asked (successfully) for [n] only when storage holds nothing or a due
      certificate for [n] *)
  Theorem issue_only_if_absent_or_due s e :
    issued (step s e) = issued s \/
    exists n, issued (step s e) = n :: issued s /\
              (stored (store s) n = None \/ exists st, stored (store s) n = Some st /\ cdue st = true).
  Proof.
    destruct (step_store_cases s e) as [(_ & E & _)|[(n & r & _ & E & _)|(n & _ & E & F & _)]]; auto.
    right; exists n; split; auto. unfold stored_fresh in F.
    destruct (stored (store s) n) as [st|]; auto. right; exists st; split; auto.
    apply negb_false_iff in F; auto.
  Qed.

  (** a fresh stored certificate stays fresh: nothing overwrites it but another fresh one
      from another instance *)
  Lemma stored_fresh_stable s e m :
    stored_fresh (store s) m = true -> stored_fresh (store (step s e)) m = true.
  Proof.
    intros F.
    destruct (step_store_cases s e) as [(E & _)|[(n & r & _ & _ & E)|(n & E & _ & F' & _)]]; rewrite E; auto.
    - destruct (Nat.eq_dec n m) as [<-|N]; [rewrite stored_fresh_cons_eq; reflexivity|].
      rewrite stored_fresh_cons_neq; auto.
    - destruct (Nat.eq_dec n m) as [<-|N]; [congruence|]. rewrite stored_fresh_cons_neq; auto.
  Qed.

  Definition cnt (l : list name) (n : name) : nat := count_occ Nat.eq_dec l n.

  Lemma issue_count_step s e n :
    idue = false ->
    cnt (issued (step s e)) n + (if stored_fresh (store (step s e)) n then 0 else 1) <=
    cnt (issued s) n + (if stored_fresh (store s) n then 0 else 1).
  Proof.
    intros ID. unfold cnt.
    destruct (step_store_cases s e) as [(E1 & E2 & _)|[(m & r & _ & E2 & E1)|(m & E1 & E2 & F & _)]];
      rewrite E1, E2.
    - lia.
    - destruct (Nat.eq_dec m n) as [<-|N].
      + rewrite stored_fresh_cons_eq; cbn. destruct (stored_fresh (store s) m); lia.
      + rewrite stored_fresh_cons_neq; auto.
    - destruct (Nat.eq_dec m n) as [<-|N].
      + rewrite stored_fresh_cons_eq, F. cbn. rewrite ID. cbn.
        destruct (Nat.eq_dec m m); [lia|contradiction].
      + rewrite stored_fresh_cons_neq; auto. cbn. destruct (Nat.eq_dec m n); [contradiction|lia].
  Qed.

  (** with an issuer that hands out certificates that are not already due, a name is renewed
      (or obtained) at most once over any history, and not at all when its stored
      certificate is fresh — whatever else happens *)
  Theorem renews_once s h n :
    idue = false ->
    cnt (issued (run s h)) n <= cnt (issued s) n + (if stored_fresh (store s) n then 0 else 1).
  Proof.
    intros ID. revert s. induction h as [|e r IH]; intros s.
    - cbn. lia.
    - rewrite run_cons. specialize (IH (step s e)). pose proof (issue_count_step s e n ID) as K.
      destruct (stored_fresh (store (step s e)) n), (stored_fresh (store s) n); lia.
  Qed.

  (** * A failed renewal keeps the old certificate in service *)

  (** an attempt that fails (the issuer returns an error) changes nothing but the issuer log *)
  Theorem failed_attempt_changes_nothing s n k :
    failed (step s (JobStep n k)) <> failed s ->
    step s (JobStep n k) = with_failed (with_err s false) (n :: failed s).
  Proof.
    cbn. unfold job_step.
    destruct (split_job n k _) as [[[pre j] post]|]; [|intros H; exfalso; apply H; reflexivity].
    comp. destruct (jkd j), (jpc_ j);
      repeat match goal with
             | |- context [match ?x with _ => _ end] => destruct x
             | |- context [if ?x then _ else _] => destruct x
             end; cbn; intros H; try reflexivity; exfalso; apply H; reflexivity.
  Qed.

  Definition touches_name (n : name) (e : event) : Prop :=
    (exists rest, e = ExtRenew n rest) \/ e = SetIssuer n false.

  Lemma is_failing_step s e n :
    ~ touches_name n e -> is_failing s n = true -> is_failing (step s e) n = true.
  Proof.
    intros NT F. unfold Model.step. destruct e as [p|p|m r|m f|m k|m a]; cbn zeta.
    - exact F.
    - unfold pass_act. destruct (take_pass p _) as [[q r]|]; exact F.
    - exact F.
    - unfold set_issuer, is_failing in *. comp. destruct f.
      + cbn. rewrite F. apply orb_true_r.
      + rewrite existsb_exists in *. destruct F as (x & Hx & Ex). apply Nat.eqb_eq in Ex; subst x.
        exists n; split; [|apply Nat.eqb_refl]. apply filter_In; split; auto.
        apply negb_true_iff, Nat.eqb_neq. intros ->. apply NT; right; reflexivity.
    - unfold job_step. destruct (split_job m k _) as [[[pre j] post]|]; [|exact F].
      destruct (jkd j), (jpc_ j); comp;
        repeat match goal with
               | |- context [match ?x with _ => _ end] => destruct x
               | |- context [if ?x then _ else _] => destruct x
               end; exact F.
    - unfold manage.
      repeat match goal with
             | |- context [match ?x with _ => _ end] => destruct x
             | |- context [if ?x then _ else _] => destruct x
             end; exact F.
  Qed.

  (** as long as the issuer fails for its name and no other instance renews it, a cached
      certificate that is the one in storage stays in the cache (and in storage), whatever
      passes, jobs, retries and manage calls happen *)
  Theorem failed_renewal_keeps_serving s h c :
    WF s -> In c (cache s) -> stored (store s) (chead c) = Some c ->
    is_failing s (chead c) = true ->
    Forall (fun e => ~ touches_name (chead c) e) h ->
    let s' := run s h in
    In c (cache s') /\ stored (store s') (chead c) = Some c /\
    cnt (issued s') (chead c) = cnt (issued s) (chead c) /\
    (forall m, In m (cnames c) -> In c (resolve m (cache s'))).
  Proof.
    intros W Hc S F NT. cbn zeta.
    assert (K : In c (cache (run s h)) /\ stored (store (run s h)) (chead c) = Some c /\
                cnt (issued (run s h)) (chead c) = cnt (issued s) (chead c)).
    { revert s W Hc S F. induction h as [|e r IH]; intros s W Hc S F; [cbn; auto|].
      rewrite run_cons. inversion NT as [|? ? N1 N2]; subst.
      assert (S1 : stored (store (step s e)) (chead c) = Some c /\
                   cnt (issued (step s e)) (chead c) = cnt (issued s) (chead c)).
      { destruct (step_store_cases s e) as [(E1 & E2 & _)|[(m & rr & Ee & E2 & E1)|(m & E1 & E2 & _ & Fm & _)]];
          rewrite E1, E2.
        - auto.
        - split; auto. rewrite stored_cons_neq; auto. intros Em; subst m. apply N1. left; eauto.
        - assert (m <> chead c) by (intros Em; subst m; congruence).
          split; [rewrite stored_cons_neq; auto|]. unfold cnt; cbn.
          destruct (Nat.eq_dec m (chead c)); [contradiction|reflexivity]. }
      destruct S1 as [S1 C1].
      assert (Hc1 : In c (cache (step s e))).
      { destruct (mem_cert c (cache (step s e))) eqn:M; [apply mem_cert_In; auto|].
        exfalso. assert (Nin : ~ In c (cache (step s e))) by (rewrite <- mem_cert_In, M; discriminate).
        destruct (step_removal s e c W Hc Nin) as (st & S2 & Ne & _).
        rewrite S1 in S2. injection S2 as <-. apply Ne; reflexivity. }
      destruct (IH N2 (step s e)) as (A & B & C); auto using WF_step, is_failing_step.
      repeat split; auto. rewrite C; auto. }
    destruct K as (A & B & C). repeat split; auto.
    intros m Hm. apply In_resolve; split; auto. apply has_name_In; auto.
  Qed.

  (** * Managing a name: load, else obtain; renew only if due *)

  Lemma In_cache_add_stored s n st :
    WF s -> stored (store s) n = Some st -> In st (cache_add st (cache s)).
  Proof.
    intros W S. apply In_cache_add_new. intros x Hx E.
    apply (wf_uniq od s W); auto using InSt_cache. eapply InSt_stored; eauto.
  Qed.

  Theorem manage_sync_spec s n :
    WF s -> od n = false -> lock_held (jobs s) n = false ->
    let s' := step s (Manage n false) in
    jobs s' = jobs s /\
    if managed_for n (cache s) then
      (* already managed: nothing to do *)
      s' = with_err s false
    else
      match stored (store s) n with
      | None =>
          (* nothing in storage: obtain *)
          if is_failing s n then
            lasterr s' = true /\ cache s' = cache s /\ store s' = store s /\ issued s' = issued s
          else
            lasterr s' = false /\ issued s' = n :: issued s /\
            stored (store s') n = Some (new_cert s n) /\ In (new_cert s n) (cache s') /\
            (forall x, In x (cache s) -> In x (cache s'))
      | Some st =>
          if cdue st then
            (* stored certificate is due: renew *)
            if is_failing s n then
              lasterr s' = true /\ In st (cache s') /\ store s' = store s /\ issued s' = issued s
            else
              lasterr s' = false /\ issued s' = n :: issued s /\
              stored (store s') n = Some (new_cert s n) /\ In (new_cert s n) (cache s') /\
              ~ In st (cache s')
          else
            (* a usable certificate is in storage: load it, do not contact the issuer *)
            lasterr s' = false /\ In st (cache s') /\ (forall x, In x (cache s) -> In x (cache s')) /\
            store s' = store s /\ issued s' = issued s
      end.
  Proof.
    intros W OD LH. cbn zeta. unfold Model.step, manage. rewrite OD. comp. rewrite LH.
    change (is_failing (with_err s false) n) with (is_failing s n).
    destruct (managed_for n (cache s)); [split; reflexivity|].
    destruct (stored (store s) n) as [st|] eqn:S.
    - destruct (cdue st) eqn:D.
      + destruct (is_failing s n) eqn:F; comp.
        * repeat split; auto. eapply In_cache_add_stored; eauto.
        * destruct (wf_stored od s n st W S) as [Hh _].
          split; [reflexivity|]. cbn.
          assert (E : reload_one ((n, new_cert s n) :: store s) (cache_add st (cache s)) st =
                      cache_add (new_cert s n) (cache_remove st (cache_add st (cache s)))).
          { unfold reload_one. rewrite Hh, stored_cons_eq. reflexivity. }
          change (new_cert (with_cache (with_err s false) (cache_add st (cache s))) n) with (new_cert s n). rewrite E.
          repeat split; auto using stored_cons_eq.
          -- apply In_cache_add_new. intros x Hx Ex. exfalso.
             apply In_cache_remove in Hx as [Hx _]. apply In_cache_add in Hx as [Hx| ->].
             ++ eapply new_cert_fresh_id; eauto using InSt_cache.
             ++ eapply new_cert_fresh_id; eauto. eapply InSt_stored; eauto.
          -- intros K. apply In_cache_add in K as [K|K].
             ++ apply In_cache_remove in K as [_ K]; auto.
             ++ eapply (new_cert_fresh_id s n st W); [eapply InSt_stored; eauto | rewrite K; reflexivity].
      + comp. repeat split; auto using In_cache_add_l. eapply In_cache_add_stored; eauto.
    - destruct (is_failing s n) eqn:F; comp.
      + repeat split; auto.
      + cbn. rewrite stored_cons_eq. cbn. change (Cert (next s) n [] idue true) with (new_cert s n).
        repeat split; auto using stored_cons_eq, In_cache_add_l.
        apply In_cache_add_new. intros x Hx Ex. exfalso.
        eapply new_cert_fresh_id; eauto using InSt_cache.
  Qed.


  (** ** Single steps of the only job for a name (the last one submitted) *)
  Definition no_job_for (n : name) (js : list job) : bool := forallb (fun j => negb (jname j =? n)) js.

  Lemma lock_held_last js n o old p :
    no_job_for n js = true -> lock_held (js ++ [Job n o old p]) n = is_locked p.
  Proof.
    intros NJ. rewrite lock_held_app, (no_jobs_lock_free n js NJ). unfold lock_held; cbn.
    rewrite Nat.eqb_refl. destruct p; reflexivity.
  Qed.

  Lemma job_queued_step s n js o old :
    jobs s = js ++ [Job n o old Queued] -> no_job_for n js = true ->
    (o = JObtain -> stored (store s) n = None) ->
    step s (JobStep n 0) = with_jobs (with_err s false) (js ++ [Job n o old Locked]).
  Proof.
    intros E NJ SO. unfold Model.step, job_step. comp. rewrite E.
    match goal with |- context [split_job n 0 (js ++ [?j])] => rewrite (split_job_snoc n js j NJ eq_refl) end. cbn [jkd jpc_].
    rewrite (lock_held_last js n o old Queued NJ). cbn [is_locked].
    destruct o; [rewrite (SO eq_refl)|]; reflexivity.
  Qed.

  Lemma renew_locked_step s n js old st :
    jobs s = js ++ [Job n JRenew old Locked] -> no_job_for n js = true ->
    stored (store s) n = Some st -> is_failing s n = false ->
    step s (JobStep n 0) =
    if cdue st then with_jobs (issue idue (with_err s false) n) (js ++ [Job n JRenew old Reload])
    else with_jobs (with_err s false) (js ++ [Job n JRenew old Reload]).
  Proof.
    intros E NJ S F. unfold Model.step, job_step. comp. rewrite E.
    match goal with |- context [split_job n 0 (js ++ [?j])] => rewrite (split_job_snoc n js j NJ eq_refl) end. cbn [jkd jpc_]. rewrite S.
    change (is_failing (with_err s false) n) with (is_failing s n). rewrite F.
    destruct (cdue st); reflexivity.
  Qed.

  Lemma renew_reload_step s n js old :
    jobs s = js ++ [Job n JRenew (Some old) Reload] -> no_job_for n js = true ->
    step s (JobStep n 0) =
    with_jobs (with_cache (with_err s false) (reload_one (store s) (cache s) old)) js.
  Proof.
    intros E NJ. unfold Model.step, job_step. comp. rewrite E.
    match goal with |- context [split_job n 0 (js ++ [?j])] => rewrite (split_job_snoc n js j NJ eq_refl) end. cbn [jkd jpc_ jold]. rewrite app_nil_r. reflexivity.
  Qed.

  Lemma obtain_locked_step s n js :
    jobs s = js ++ [Job n JObtain None Locked] -> no_job_for n js = true ->
    stored (store s) n = None -> is_failing s n = false ->
    step s (JobStep n 0) = with_jobs (issue idue (with_err s false) n) (js ++ [Job n JObtain None Reload]).
  Proof.
    intros E NJ S F. unfold Model.step, job_step. comp. rewrite E.
    match goal with |- context [split_job n 0 (js ++ [?j])] => rewrite (split_job_snoc n js j NJ eq_refl) end. cbn [jkd jpc_]. rewrite S.
    change (is_failing (with_err s false) n) with (is_failing s n). rewrite F. reflexivity.
  Qed.

  Lemma obtain_reload_step s n js st :
    jobs s = js ++ [Job n JObtain None Reload] -> no_job_for n js = true ->
    stored (store s) n = Some st ->
    step s (JobStep n 0) = with_jobs (with_cache (with_err s false) (cache_add st (cache s))) js.
  Proof.
    intros E NJ S. unfold Model.step, job_step. comp. rewrite E.
    match goal with |- context [split_job n 0 (js ++ [?j])] => rewrite (split_job_snoc n js j NJ eq_refl) end. cbn [jkd jpc_]. rewrite S, app_nil_r. reflexivity.
  Qed.

  Lemma no_job_step s n k : no_job_for n (jobs s) = true -> step s (JobStep n k) = with_err s false.
  Proof.
    intros NJ. unfold Model.step, job_step. comp. rewrite (split_job_none n k _ NJ). reflexivity.
  Qed.

  (** what can be seen of a state besides the bookkeeping of pending passes and the error flag *)
  Definition visible (s : state) := (store s, cache s, jobs s, issued s, failed s, next s).

  (** asynchronous management reaches, once its background job has run (three steps at most,
      with a working issuer), exactly what synchronous management does at once *)
  Theorem manage_async_completes_like_sync s n :
    is_failing s n = false -> no_job_for n (jobs s) = true ->
    visible (run s [Manage n true; JobStep n 0; JobStep n 0; JobStep n 0]) =
    visible (step s (Manage n false)).
  Proof.
    intros F NJ. pose proof (no_jobs_lock_free n _ NJ) as LH.
    pose proof (no_jobs_no_renew n _ NJ) as NR.
    assert (X : forall t, jobs t = jobs s -> step t (JobStep n 0) = with_err t false)
      by (intros t Et; apply no_job_step; rewrite Et; exact NJ).
    unfold Model.run. cbn [fold_left].
    unfold Model.step at 4 5. cbn zeta. unfold manage. comp.
    change (is_failing (with_err s false) n) with (is_failing s n). rewrite F, LH.
    destruct (od n) eqn:OD.
    { rewrite (X (with_err s false) eq_refl), (X (with_err (with_err s false) false) eq_refl), (X (with_err (with_err (with_err s false) false) false) eq_refl). reflexivity. }
    destruct (managed_for n (cache s)).
    { rewrite (X (with_err s false) eq_refl), (X (with_err (with_err s false) false) eq_refl), (X (with_err (with_err (with_err s false) false) false) eq_refl). reflexivity. }
    destruct (stored (store s) n) as [c|] eqn:S.
    - destruct (cdue c) eqn:D.
      + unfold submit_renew. comp. rewrite NR.
        match goal with |- context [step ?t (JobStep n 0)] =>
          match t with context [step] => fail 1 | _ => set (s1 := t) end end.
        rewrite (job_queued_step s1 n (jobs s) JRenew (Some c) eq_refl NJ ltac:(discriminate)).
        set (s2 := with_jobs _ _).
        rewrite (renew_locked_step s2 n (jobs s) (Some c) c eq_refl NJ S F). rewrite D.
        set (s3 := with_jobs _ _).
        rewrite (renew_reload_step s3 n (jobs s) c eq_refl NJ).
        reflexivity.
      + set (t := with_cache _ _). rewrite (X t eq_refl), (X (with_err t false) eq_refl), (X (with_err (with_err t false) false) eq_refl). reflexivity.
    - set (s1 := with_jobs _ _).
      rewrite (job_queued_step s1 n (jobs s) JObtain None eq_refl NJ (fun _ => S)).
      set (s2 := with_jobs _ _).
      rewrite (obtain_locked_step s2 n (jobs s) eq_refl NJ S F).
      set (s3 := with_jobs _ _).
      rewrite (obtain_reload_step s3 n (jobs s) (new_cert s n) eq_refl NJ (stored_cons_eq _ _ _)).
      cbn. rewrite stored_cons_eq. reflexivity.
  Qed.

  (** * Renewal, end to end: a pass finds one certificate due whose stored copy is due as well;
      the pass queues a job; the job takes the lock, renews, and reloads. Afterwards the issuer
      was asked once, storage and cache hold the new certificate, the old one is gone, and no
      job is left. *)
  Theorem renewal_end_to_end s p c st :
    WF s -> take_pass p (passes s) = None ->
    In c (cache s) -> eligible c = true ->
    scan_renew od (store s) (cache s) = [c] ->
    stored (store s) (chead c) = Some st ->
    is_failing s (chead c) = false -> no_job_for (chead c) (jobs s) = true ->
    let n := chead c in
    let s' := run s [PassScan p; PassAct p; JobStep n 0; JobStep n 0; JobStep n 0] in
    issued s' = n :: issued s /\ failed s' = failed s /\
    stored (store s') n = Some (new_cert s n) /\
    In (new_cert s n) (cache s') /\ ~ In c (cache s') /\
    (forall m, In m (cnames (new_cert s n)) -> In (new_cert s n) (resolve m (cache s'))) /\
    jobs s' = jobs s.
  Proof.
    intros W T Hc Ec RQ S F NJ n s'.
    assert (Dst : cdue st = true).
    { assert (K : In c (scan_renew od (store s) (cache s))) by (rewrite RQ; cbn; auto).
      apply In_scan_renew in K as (_ & _ & K). unfold stored_fresh in K. rewrite S in K.
      apply negb_false_iff in K; exact K. }
    subst s'. unfold Model.run. cbn [fold_left].
    (* scan + act *)
    set (q := Pass p (scan_reload od (store s) (cache s)) (scan_renew od (store s) (cache s))).
    set (ca := fold_left (reload_one (store s)) (preload q) (cache s)).
    assert (E2 : step (step s (PassScan p)) (PassAct p) =
                 State (store s) ca (jobs s ++ [Job n JRenew (Some c) Queued]) (passes s)
                       (failing s) (issued s) (failed s) (next s) false).
    { cbn. unfold pass_act, pass_scan. comp.
      change (passes s ++ [_]) with (passes s ++ [q]).
      rewrite (take_pass_snoc p (passes s) q T eq_refl). comp.
      fold ca. cbn [prenew q]. rewrite RQ. cbn [fold_left]. unfold submit_renew.
      rewrite (no_jobs_no_renew _ _ NJ). reflexivity. }
    rewrite E2. set (s2 := State _ _ _ _ _ _ _ _ _).
    assert (Hca : In c ca).
    { apply fold_reload_keeps; auto. intros o Ho E. cbn in Ho. apply In_scan_reload in Ho as (Io & _ & Fo).
      assert (o = c) by (symmetry; apply (wf_uniq od s W); auto using InSt_cache). subst o.
      unfold stored_fresh in Fo. rewrite S, Dst in Fo. discriminate. }
    (* the job: lock, attempt, reload *)
    rewrite (job_queued_step s2 n (jobs s) JRenew (Some c) eq_refl NJ ltac:(discriminate)).
    set (s3 := with_jobs _ _).
    rewrite (renew_locked_step s3 n (jobs s) (Some c) st eq_refl NJ S F). rewrite Dst.
    set (s4 := with_jobs _ _).
    rewrite (renew_reload_step s4 n (jobs s) c eq_refl NJ).
    cbn. unfold reload_one. fold n. rewrite stored_cons_eq.
    change (Cert (next s) n [] idue true) with (new_cert s n).
    assert (Inew : In (new_cert s n) (cache_replace c (new_cert s n) ca)).
    { unfold cache_replace. apply In_cache_add_new. intros x Hx Ex. exfalso.
      apply In_cache_remove in Hx as [Hx _]. apply In_fold_reload in Hx.
      eapply (new_cert_fresh_id s n x W); auto.
      destruct Hx; [apply InSt_cache | apply InSt_store]; auto. }
    repeat split; auto using stored_cons_eq.
    - unfold cache_replace. intros K. apply In_cache_add in K as [K|K].
      + apply In_cache_remove in K as [_ K]; auto.
      + eapply (new_cert_fresh_id s n c W); auto using InSt_cache. rewrite K; reflexivity.
    - intros m Hm. apply In_resolve; split; auto. apply has_name_In; auto.
  Qed.

  (** * Histories that do not write storage (e.g. shutdown: the context is cancelled, jobs and
      passes run to their ends, the issuer refuses): the cache clauses hold end to end *)
  Definition quiet (s : state) (h : list event) : Prop :=
    forall h1 h2, h = h1 ++ h2 -> store (run s h1) = store s.

  Lemma quiet_cons s e r : quiet s (e :: r) -> store (step s e) = store s /\ quiet (step s e) r.
  Proof.
    intros Q. assert (E : store (step s e) = store s) by (apply (Q [e] r); reflexivity).
    split; auto. intros h1 h2 ->. rewrite E. apply (Q (e :: h1) h2). reflexivity.
  Qed.

  Lemma stored_cert_stays s h x :
    WF s -> quiet s h -> In x (cache s) -> stored (store s) (chead x) = Some x ->
    In x (cache (run s h)).
  Proof.
    revert s; induction h as [|e r IH]; intros s W Q Hx S; [exact Hx|].
    destruct (quiet_cons s e r Q) as [E Q']. rewrite run_cons. apply IH; auto using WF_step.
    - destruct (mem_cert x (cache (step s e))) eqn:M; [apply mem_cert_In; auto|].
      exfalso. assert (N : ~ In x (cache (step s e))) by (rewrite <- mem_cert_In, M; discriminate).
      destruct (step_removal s e x W Hx N) as (st & S' & Ne & _).
      rewrite E, S in S'. injection S' as <-. apply Ne; reflexivity.
    - rewrite E; exact S.
  Qed.

  Theorem quiet_history_cache s h :
    WF s -> quiet s h ->
    (forall c, In c (cache s) -> ~ In c (cache (run s h)) ->
       exists st, stored (store s) (chead c) = Some st /\ cid st <> cid c /\ In st (cache (run s h))) /\
    (forall c, In c (cache (run s h)) -> ~ In c (cache s) -> stored (store s) (chead c) = Some c).
  Proof.
    revert s; induction h as [|e r IH]; intros s W Q.
    { cbn. split; intros c H N; contradiction. }
    destruct (quiet_cons s e r Q) as [E Q']. rewrite run_cons.
    destruct (IH (step s e) (WF_step od idue s e W) Q') as [IH1 IH2]. rewrite E in IH1, IH2.
    split; intros c H N.
    - destruct (mem_cert c (cache (step s e))) eqn:M.
      + apply mem_cert_In in M. apply IH1; auto.
      + assert (N1 : ~ In c (cache (step s e))) by (rewrite <- mem_cert_In, M; discriminate).
        destruct (step_removal s e c W H N1) as (st & S & Ne & Hst). rewrite E in S.
        exists st; repeat split; auto.
        apply stored_cert_stays; auto using WF_step.
        destruct (wf_stored od s _ st W S) as [-> _]. rewrite E; exact S.
    - destruct (mem_cert c (cache (step s e))) eqn:M.
      + apply mem_cert_In in M. rewrite <- E. apply (step_added_from_storage s e c W M N).
      + apply IH2; auto. rewrite <- mem_cert_In, M; discriminate.
  Qed.

  (** * The boolean well-formedness check implies [WF] *)
  Lemma filter_le1_by_member {A} (f : name -> A -> bool) (key : A -> name) (l : list A) :
    (forall n x, f n x = true -> key x = n) ->
    (forall x, In x l -> length (filter (f (key x)) l) <= 1) ->
    forall n, length (filter (f n) l) <= 1.
  Proof.
    intros K H n. destruct (filter (f n) l) as [|x r] eqn:E; [cbn; lia|].
    assert (Hx : In x (filter (f n) l)) by (rewrite E; cbn; auto).
    apply filter_In in Hx as [Hx Fx]. pose proof (H x Hx) as L.
    rewrite (K n x Fx), E in L. exact L.
  Qed.

  Lemma wf_b_sound k s : wf_b od k s = true -> WF s.
  Proof.
    unfold wf_b. rewrite !andb_true_iff.
    intros ((((((((A1 & A2) & A3) & A4) & A5) & A6) & _) & _) & _).
    rewrite forallb_forall in A1, A2, A3, A4, A5, A6.
    constructor.
    - intros c H. apply Nat.ltb_lt. apply A1; exact H.
    - intros c1 c2 H1 H2 E. specialize (A2 c1 H1). rewrite forallb_forall in A2.
      specialize (A2 c2 H2). apply orb_true_iff in A2 as [A2|A2].
      + apply negb_true_iff, Nat.eqb_neq in A2; contradiction.
      + apply cert_eqb_eq; exact A2.
    - intros n c H. specialize (A3 _ H). cbn in A3. apply andb_true_iff in A3 as [X Y].
      apply Nat.eqb_eq in X; auto.
    - intros q c Hq Hc. specialize (A4 q Hq). apply andb_true_iff in A4 as [X _].
      rewrite forallb_forall in X; auto.
    - intros q c Hq Hc. specialize (A4 q Hq). apply andb_true_iff in A4 as [_ Y].
      rewrite forallb_forall in Y; auto.
    - exact A5.
    - apply (filter_le1_by_member is_renew_for jname).
      + intros n x. unfold is_renew_for. destruct (jkd x); [discriminate|]. apply Nat.eqb_eq.
      + intros x Hx. specialize (A6 x Hx). apply andb_true_iff in A6 as [X _]. apply Nat.leb_le; auto.
    - apply (filter_le1_by_member is_locked_for jname).
      + intros n x. unfold is_locked_for. rewrite andb_true_iff, Nat.eqb_eq; tauto.
      + intros x Hx. specialize (A6 x Hx). apply andb_true_iff in A6 as [_ Y]. apply Nat.leb_le; auto.
  Qed.
End Proofs.
