(** C05 — the monitor [Maintain.Spec.spec_step] is sound for the model: evaluated on the model's
    own observations before and after any event, from any well-formed state, every clause
    holds ([spec_step_sound], [spec_run_sound]). So a clause failing on the implementation's
    observations means the implementation left the behaviours of the model, i.e. (the clauses
    being the property's statements) violated the property. *)
From Coq Require Import List Arith Bool Lia Permutation.
From CM Require Import Maintain.Model Maintain.Spec Maintain.Base Maintain.Inv Maintain.Proofs.
Import ListNotations.

(** * Sorting is a permutation *)
Lemma insert_by_perm {A} (key : A -> nat) x l : Permutation (insert_by key x l) (x :: l).
Proof.
  induction l as [|y r IH]; cbn; auto.
  destruct (key x <=? key y); auto.
  eapply perm_trans; [apply perm_skip, IH | apply perm_swap].
Qed.

Lemma sort_by_perm {A} (key : A -> nat) l : Permutation (sort_by key l) l.
Proof.
  induction l as [|x r IH]; cbn; auto.
  eapply perm_trans; [apply insert_by_perm | apply perm_skip, IH].
Qed.

Lemma In_sort_by {A} (key : A -> nat) x l : In x (sort_by key l) <-> In x l.
Proof.
  split; apply Permutation_in; [apply sort_by_perm | apply Permutation_sym, sort_by_perm].
Qed.

Lemma perm_filter {A} (f : A -> bool) l1 l2 :
  Permutation l1 l2 -> Permutation (filter f l1) (filter f l2).
Proof.
  induction 1; cbn; auto.
  - destruct (f x); auto.
  - destruct (f x), (f y); auto. apply perm_swap.
  - eapply perm_trans; eauto.
Qed.

Lemma perm_filter_len {A} (f : A -> bool) l1 l2 :
  Permutation l1 l2 -> length (filter f l1) = length (filter f l2).
Proof. intros P; apply Permutation_length, perm_filter, P. Qed.

Lemma perm_count x l1 l2 : Permutation l1 l2 -> count x l1 = count x l2.
Proof. apply perm_filter_len. Qed.

Lemma perm_eqb_of_perm a b : Permutation a b -> perm_eqb a b = true.
Proof.
  intros P. unfold perm_eqb. rewrite (Permutation_length P), Nat.eqb_refl. cbn.
  apply forallb_forall. intros x _. rewrite (perm_count x a b P). apply Nat.eqb_refl.
Qed.

Lemma sort_filter_len {A} (key : A -> nat) f l :
  length (filter f (sort_by key l)) = length (filter f l).
Proof. apply perm_filter_len, sort_by_perm. Qed.

(** * Reflexivity of the comparison functions *)
Lemma list_nat_eqb_refl a : list_nat_eqb a a = true.
Proof. apply list_nat_eqb_eq; reflexivity. Qed.

Lemma list_eqb_refl {A} (eqb : A -> A -> bool) l :
  (forall x, eqb x x = true) -> list_eqb eqb l l = true.
Proof. intros R; induction l; cbn; auto. rewrite R; auto. Qed.

Lemma opt_cert_eqb_refl a : opt_cert_eqb a a = true.
Proof. destruct a; cbn; auto using cert_eqb_refl. Qed.

Lemma opt_cert_eqb_eq a b : opt_cert_eqb a b = true <-> a = b.
Proof.
  destruct a, b; cbn; split; try discriminate; auto.
  - intros H; apply cert_eqb_eq in H; subst; auto.
  - intros H; injection H as ->; apply cert_eqb_refl.
Qed.

Lemma obs_eqb_refl o : obs_eqb o o = true.
Proof.
  unfold obs_eqb. rewrite !andb_true_iff. repeat split.
  - apply list_eqb_refl, cert_eqb_refl.
  - apply list_eqb_refl, opt_cert_eqb_refl.
  - apply list_eqb_refl, list_nat_eqb_refl.
  - apply list_eqb_refl. intros [x|]; cbn; auto using Nat.eqb_refl.
  - apply list_nat_eqb_refl.
  - apply list_nat_eqb_refl.
  - apply list_nat_eqb_refl.
  - destruct (o_err o); reflexivity.
Qed.

(** * Reading an observation of a model state *)
Lemma nth_map_seq {A} (f : nat -> A) n k d : n < k -> nth n (map f (seq 0 k)) d = f n.
Proof.
  intros H. rewrite (nth_indep _ d (f 0)) by (rewrite map_length, seq_length; exact H).
  rewrite map_nth, seq_nth; auto.
Qed.

Lemma forallb_U (P : nat -> bool) k : (forall n, n < k -> P n = true) -> forallb P (seq 0 k) = true.
Proof. intros H; apply forallb_forall. intros n Hn. apply in_seq in Hn. apply H; lia. Qed.

Section Observe.
  Variable k : nat.

  Lemma ost_observe s n : n < k -> ost (observe k s) n = stored (store s) n.
  Proof. intros H; unfold ost; cbn. apply nth_map_seq; auto. Qed.
  Lemma oiss_observe s n : n < k -> oiss (observe k s) n = cnt (issued s) n.
  Proof. intros H; unfold oiss; cbn. apply (nth_map_seq (fun n => count_occ Nat.eq_dec (issued s) n)); auto. Qed.
  Lemma ofl_observe s n : n < k -> ofl (observe k s) n = cnt (failed s) n.
  Proof. intros H; unfold ofl; cbn. apply (nth_map_seq (fun n => count_occ Nat.eq_dec (failed s) n)); auto. Qed.
  Lemma oidx_observe s n : n < k -> oidx (observe k s) n = index_ids n (cache s).
  Proof. intros H; unfold oidx; cbn. apply (nth_map_seq (fun n => index_ids n (cache s))); auto. Qed.
  Lemma osrv_observe s n : n < k -> osrv (observe k s) n = served n (cache s).
  Proof. intros H; unfold osrv; cbn. apply (nth_map_seq (fun n => served n (cache s))); auto. Qed.

  (** beyond the universe both observations read the default *)
  Lemma oiss_observe_any s s' n : issued s' = issued s -> oiss (observe k s') n = oiss (observe k s) n.
  Proof. intros E; unfold oiss; cbn. rewrite E; reflexivity. Qed.
  Lemma ofl_observe_any s s' n : failed s' = failed s -> ofl (observe k s') n = ofl (observe k s) n.
  Proof. intros E; unfold ofl; cbn. rewrite E; reflexivity. Qed.

  Lemma mem_observe_cache s c : mem_cert c (o_cache (observe k s)) = true <-> In c (cache s).
  Proof. rewrite mem_cert_In. cbn. apply In_sort_by. Qed.

  Lemma forallb_observe_cache s (P : cert -> bool) :
    (forall c, In c (cache s) -> P c = true) -> forallb P (o_cache (observe k s)) = true.
  Proof. intros H; apply forallb_forall. intros c Hc. apply H. cbn in Hc. apply In_sort_by in Hc; auto. Qed.

  (** two states that differ only in the passes' bookkeeping (and the error flag) look alike *)
  Lemma observe_same s s' :
    store s' = store s -> cache s' = cache s -> jobs s' = jobs s -> issued s' = issued s ->
    failed s' = failed s -> lasterr s' = false ->
    observe k s' = clear_err (observe k s).
  Proof. intros E1 E2 E3 E4 E5 E6. unfold observe, clear_err; cbn. rewrite E1, E2, E3, E4, E5, E6. reflexivity. Qed.

  Lemma unchanged_same s s' :
    store s' = store s -> cache s' = cache s -> jobs s' = jobs s -> issued s' = issued s ->
    failed s' = failed s -> lasterr s' = false ->
    unchanged (observe k s') (observe k s) = true.
  Proof. intros. unfold unchanged. erewrite observe_same; eauto. apply obs_eqb_refl. Qed.

  Lemma same_cache_obs s s' : cache s' = cache s -> same_cache (observe k s') (observe k s) = true.
  Proof. intros E; unfold same_cache; cbn. rewrite E. apply list_eqb_refl, cert_eqb_refl. Qed.
  Lemma same_store_obs s s' : store s' = store s -> same_store (observe k s') (observe k s) = true.
  Proof. intros E; unfold same_store; cbn. rewrite E. apply list_eqb_refl, opt_cert_eqb_refl. Qed.
  Lemma same_jobs_obs s s' : jobs s' = jobs s -> same_jobs (observe k s') (observe k s) = true.
  Proof. intros E; unfold same_jobs; cbn. rewrite E. apply list_nat_eqb_refl. Qed.
  Lemma same_counts_obs s s' :
    issued s' = issued s -> failed s' = failed s -> same_counts (observe k s') (observe k s) = true.
  Proof. intros E1 E2; unfold same_counts; cbn. rewrite E1, E2, !list_nat_eqb_refl; reflexivity. Qed.

  (** the index and the served certificate are functions of the cache contents *)
  Lemma served_perm n l1 l2 : Permutation l1 l2 -> served n l1 = served n l2.
  Proof.
    intros P. unfold served. pose proof (perm_filter (has_name n) _ _ P) as Q. fold (resolve n l1) in Q.
    fold (resolve n l2) in Q. destruct (resolve n l1) as [|c [|d r]].
    - apply Permutation_nil in Q; rewrite Q; reflexivity.
    - apply Permutation_length_1_inv in Q; rewrite Q; reflexivity.
    - pose proof (Permutation_length Q) as L. destruct (resolve n l2) as [|c' [|d' r']]; cbn in L; try discriminate.
      reflexivity.
  Qed.

  Lemma consistent_observe s : c_consistent k (observe k s) = true.
  Proof.
    unfold c_consistent. apply forallb_U. intros n Hn.
    rewrite oidx_observe, osrv_observe by exact Hn. apply andb_true_iff; split.
    - apply perm_eqb_of_perm. unfold index_ids. cbn [o_cache observe].
      eapply perm_trans; [apply sort_by_perm|]. eapply perm_trans; [|apply Permutation_sym, sort_by_perm].
      apply Permutation_map. apply perm_filter. apply Permutation_sym, sort_by_perm.
    - cbn [o_cache observe]. rewrite (served_perm n (sort_by cid (cache s)) (cache s)) by apply sort_by_perm.
      destruct (served n (cache s)); cbn; auto using Nat.eqb_refl.
  Qed.
End Observe.

(** * Job codes *)
Lemma code_name_job j : code_name (job_code j) = jname j.
Proof.
  unfold code_name, job_code. set (n := jname j).
  destruct (jkd j), (jpc_ j);
    match goal with |- (n * 6 + ?a + ?b) / 6 = n =>
      replace (n * 6 + a + b) with ((a + b) + n * 6) by lia; rewrite Nat.div_add by lia; reflexivity end.
Qed.

Lemma code_mod6_job j :
  job_code j mod 6 = (match jkd j with JObtain => 0 | JRenew => 3 end) +
                     (match jpc_ j with Queued => 0 | Locked => 1 | Reload => 2 end).
Proof.
  unfold job_code. set (n := jname j).
  destruct (jkd j), (jpc_ j);
    match goal with |- (n * 6 + ?a + ?b) mod 6 = _ =>
      replace (n * 6 + a + b) with ((a + b) + n * 6) by lia; rewrite Nat.mod_add by lia; reflexivity end.
Qed.

Lemma code_is_renew_job j :
  code_is_renew (job_code j) = match jkd j with JRenew => true | JObtain => false end.
Proof. unfold code_is_renew. rewrite code_mod6_job. destruct (jkd j), (jpc_ j); reflexivity. Qed.

Lemma code_is_locked_job j : code_is_locked (job_code j) = is_locked (jpc_ j).
Proof.
  unfold code_is_locked, job_code. set (n := jname j).
  destruct (jkd j), (jpc_ j);
    match goal with |- ((n * 6 + ?a + ?b) mod 3 =? 1) = _ =>
      replace (n * 6 + a + b) with ((a + b) + (n * 2) * 3) by lia; rewrite Nat.mod_add by lia; reflexivity end.
Qed.

Lemma renew_code_job n j :
  (code_name (job_code j) =? n) && code_is_renew (job_code j) = is_renew_for n j.
Proof.
  rewrite code_name_job, code_is_renew_job. unfold is_renew_for.
  destruct (jkd j); [apply andb_false_r | apply andb_true_r].
Qed.

Lemma locked_code_job n j :
  (code_name (job_code j) =? n) && code_is_locked (job_code j) = is_locked_for n j.
Proof. rewrite code_name_job, code_is_locked_job. reflexivity. Qed.

Lemma filter_map {A B} (f : B -> bool) (g : A -> B) l :
  filter f (map g l) = map g (filter (fun x => f (g x)) l).
Proof. induction l as [|x r IH]; cbn; auto. destruct (f (g x)); cbn; rewrite IH; reflexivity. Qed.

Lemma existsb_map {A B} (f : B -> bool) (g : A -> B) l :
  existsb f (map g l) = existsb (fun x => f (g x)) l.
Proof. induction l as [|x r IH]; cbn; auto. rewrite IH; reflexivity. Qed.

Lemma existsb_ext' {A} (f g : A -> bool) l : (forall x, f x = g x) -> existsb f l = existsb g l.
Proof. intros E; induction l as [|x r IH]; cbn; auto. rewrite E, IH; reflexivity. Qed.

Lemma existsb_perm {A} (f : A -> bool) l1 l2 : Permutation l1 l2 -> existsb f l1 = existsb f l2.
Proof.
  induction 1; cbn; auto.
  - rewrite IHPermutation; reflexivity.
  - destruct (f x), (f y); reflexivity.
  - congruence.
Qed.

Section Codes.
  Variable k : nat.

  Lemma jobs_filter_len s (F : nat -> bool) :
    length (filter F (o_jobs (observe k s))) = length (filter (fun j => F (job_code j)) (jobs s)).
  Proof. cbn. rewrite sort_filter_len, filter_map, map_length. reflexivity. Qed.

  Lemma renew_len_obs s n :
    length (filter (fun x => (code_name x =? n) && code_is_renew x) (o_jobs (observe k s))) =
    length (filter (is_renew_for n) (jobs s)).
  Proof. rewrite jobs_filter_len. f_equal. apply filter_ext. intros j; apply renew_code_job. Qed.

  Lemma locked_len_obs s n :
    length (filter (fun x => (code_name x =? n) && code_is_locked x) (o_jobs (observe k s))) =
    length (filter (is_locked_for n) (jobs s)).
  Proof. rewrite jobs_filter_len. f_equal. apply filter_ext. intros j; apply locked_code_job. Qed.

  Lemma renew_job_for_obs s n :
    renew_job_for (observe k s) n = existsb (is_renew_for n) (jobs s).
  Proof.
    unfold renew_job_for. cbn. rewrite (existsb_perm _ _ _ (sort_by_perm _ _)), existsb_map.
    apply existsb_ext'. intros j; apply renew_code_job.
  Qed.

  Lemma locked_in_obs s n : locked_in (observe k s) n = lock_held (jobs s) n.
  Proof.
    unfold locked_in, lock_held. cbn. rewrite (existsb_perm _ _ _ (sort_by_perm _ _)), existsb_map.
    apply existsb_ext'. intros j; apply locked_code_job.
  Qed.

  Lemma jobs_dedup_obs od s : WF od s -> c_jobs_dedup k (observe k s) = true.
  Proof.
    intros W. unfold c_jobs_dedup. apply forallb_U. intros n _.
    rewrite renew_len_obs, locked_len_obs. apply andb_true_iff; split; apply Nat.leb_le; apply W.
  Qed.
End Codes.

Section Sound.
  Variable od : name -> bool.
  Variable idue : bool.
  Variable k : nat.

  Notation step := (step od idue).
  Notation run := (run od idue).
  Notation eligible := (eligible od).
  Notation WF := (WF od).
  Notation new_cert := (new_cert idue).
  Notation observe := (observe k).

  (** * Everything stays inside the universe of [k] names *)
  Record Bounded (s : state) : Prop := {
    b_names : forall c m, InSt s c -> In m (cnames c) -> m < k;
    b_jobs : forall j, In j (jobs s) -> jname j < k
  }.

  Definition ev_ok (e : event) : Prop :=
    match e with
    | ExtRenew n rest => n < k /\ forall m, In m rest -> m < k
    | Manage n _ => n < k
    | _ => True
    end.

  Lemma step_cache_sub s e c :
    WF s -> In c (cache (step s e)) -> In c (cache s) \/ In c (map snd (store (step s e))).
  Proof.
    intros W.
    destruct (step_cache_shape od idue s e W) as
      [E|[(n & st & S & ES & E)|[(old & Io & Eo & ES & E)|[(q & Hq & ES & E)|[(n & S & ES & E)|(n & st & S & Est & ES & E)]]]]];
      rewrite E; intros H; auto.
    - apply In_cache_add in H as [H| ->]; auto. right. rewrite ES. eapply stored_In_snd; eauto.
    - apply In_reload_one in H as [H|H]; auto. right; rewrite ES; auto.
    - apply In_fold_reload in H as [H|H]; auto. right; rewrite ES; auto.
    - apply In_cache_add in H as [H| ->]; auto. right. rewrite ES. cbn; auto.
    - apply In_reload_one in H as [H|H]; auto.
      apply In_cache_add in H as [H| ->]; auto. right. rewrite ES. cbn. right. eapply stored_In_snd; eauto.
  Qed.

  Lemma step_pass_sub s e c :
    In c (pass_certs (passes (step s e))) -> In c (pass_certs (passes s)) \/ In c (cache s).
  Proof.
    unfold Model.step. destruct e as [p|p|n rest|n f|n kk|n a]; cbn zeta.
    - cbn. rewrite pass_certs_app, in_app_iff. intros [H|H]; auto.
      cbn in H. rewrite app_nil_r, in_app_iff in H. right.
      destruct H as [H|H]; [apply In_scan_reload in H | apply In_scan_renew in H]; tauto.
    - unfold pass_act. comp. destruct (take_pass p (passes s)) as [[q r]|] eqn:T; comp; auto.
      destruct (take_pass_spec _ _ _ _ T) as (_ & a & b & E & ->). rewrite E.
      rewrite !pass_certs_app, !in_app_iff. change (q :: b) with ([q] ++ b).
      rewrite pass_certs_app, in_app_iff. tauto.
    - cbn; auto.
    - cbn; auto.
    - unfold job_step. destruct (split_job n kk _) as [[[pre j] post]|]; [|cbn; auto].
      destruct (jkd j), (jpc_ j); comp;
        repeat match goal with
               | |- context [match ?x with _ => _ end] => destruct x
               | |- context [if ?x then _ else _] => destruct x
               end; cbn; auto.
    - unfold manage.
      repeat match goal with
             | |- context [match ?x with _ => _ end] => destruct x
             | |- context [if ?x then _ else _] => destruct x
             end; cbn; auto.
  Qed.

  (** a job of the next state: an old one (possibly advanced), or submitted by a pass for a
      queued certificate, or submitted by this manage call *)
  Lemma step_jobs_sub s e j :
    In j (jobs (step s e)) ->
    (exists j0 p, In j0 (jobs s) /\ j = set_pc j0 p) \/
    (exists old, In old (pass_certs (passes s)) /\ j = Job (chead old) JRenew (Some old) Queued) \/
    (exists n a, e = Manage n a /\
                 (j = Job n JObtain None Queued \/
                  exists st, stored (store s) n = Some st /\ j = Job n JRenew (Some st) Queued)).
  Proof.
    assert (Old : forall x, In x (jobs s) -> exists j0 p, In j0 (jobs s) /\ x = set_pc j0 p).
    { intros x Hx; exists x, (jpc_ x); split; auto. destruct x; reflexivity. }
    unfold Model.step. destruct e as [p|p|n rest|n f|n kk|n a]; cbn zeta.
    - cbn; auto.
    - unfold pass_act. comp. destruct (take_pass p (passes s)) as [[q r]|] eqn:T; comp; auto.
      intros H. apply In_fold_submit in H as [H|(old & Ho & ->)]; auto.
      right; left. exists old; split; auto.
      destruct (take_pass_spec _ _ _ _ T) as (_ & a & b & E & _). rewrite E.
      apply In_pass_certs. exists q. rewrite !in_app_iff; cbn; auto.
    - cbn; auto.
    - cbn; auto.
    - unfold job_step. destruct (split_job n kk _) as [[[pre j0] post]|] eqn:SJ; [|cbn; auto].
      comp. destruct (split_job_spec _ _ _ _ _ _ SJ) as [EJ _].
      assert (K1 : forall p, In j (pre ++ set_pc j0 p :: post) ->
                   exists j1 p1, In j1 (jobs s) /\ j = set_pc j1 p1).
      { intros p H. rewrite in_app_iff in H; cbn in H. destruct H as [H|[<-|H]].
        - apply Old. rewrite EJ, in_app_iff; auto.
        - exists j0, p; split; auto. rewrite EJ, in_app_iff; cbn; auto.
        - apply Old. rewrite EJ, in_app_iff; cbn; auto. }
      assert (K2 : In j (pre ++ post) -> exists j1 p1, In j1 (jobs s) /\ j = set_pc j1 p1).
      { intros H. apply Old. rewrite EJ. rewrite in_app_iff in *; cbn; tauto. }
      destruct (jkd j0), (jpc_ j0);
        repeat match goal with
               | |- context [match ?x with _ => _ end] => destruct x
               | |- context [if ?x then _ else _] => destruct x
               end; comp; cbn [jobs issue]; intros H; left; eauto.
    - unfold manage. destruct (od n); [cbn; auto|]. comp.
      destruct (managed_for n (cache s)); [cbn; auto|].
      destruct (stored (store s) n) as [st|] eqn:S.
      + destruct (cdue st); [|cbn; auto]. destruct a.
        * comp. intros H. apply In_submit_renew in H as [H| ->]; auto.
          right; right. exists n, true; split; auto. right; eauto.
        * destruct (lock_held (jobs s) n); [cbn; auto|]. destruct (is_failing _ n); cbn; auto.
      + destruct a.
        * comp. rewrite in_app_iff; cbn. intros [H|[<-|[]]]; auto.
          right; right. exists n, true; auto.
        * destruct (lock_held (jobs s) n); [cbn; auto|]. destruct (is_failing _ n); [cbn; auto|].
          cbn. rewrite stored_cons_eq. cbn; auto.
  Qed.

  Lemma InSt_step s e c :
    WF s -> InSt (step s e) c ->
    InSt s c \/
    (exists n, c = new_cert s n /\ ((exists kk, e = JobStep n kk) \/ e = Manage n false)) \/
    (exists n rest, e = ExtRenew n rest /\ c = Cert (next s) n rest false true).
  Proof.
    intros W H.
    assert (St : In c (map snd (store (step s e))) ->
                 InSt s c \/
                 (exists n, c = new_cert s n /\ ((exists kk, e = JobStep n kk) \/ e = Manage n false)) \/
                 (exists n rest, e = ExtRenew n rest /\ c = Cert (next s) n rest false true)).
    { destruct (step_store_cases od idue s e) as [(E & _)|[(n & r & Ee & _ & E)|(n & E & _ & _ & _ & _ & Ee)]];
        rewrite E; cbn.
      - left; apply InSt_store; auto.
      - intros [<-|K]; [right; right; eauto | left; apply InSt_store; auto].
      - intros [<-|K]; [right; left; eauto | left; apply InSt_store; auto]. }
    apply InSt_iff in H as [H|[H|[H|H]]]; auto.
    - apply step_cache_sub in H as [H|H]; auto. left; apply InSt_cache; auto.
    - apply step_pass_sub in H as [H|H]; left; [apply InSt_pass | apply InSt_cache]; auto.
    - apply In_job_olds in H as (j & Hj & Eo).
      apply step_jobs_sub in Hj as [(j0 & p & Hj0 & ->)|[(old & Ho & ->)|(n & a & _ & [->|(st & S & ->)])]].
      + left. apply InSt_job, In_job_olds. exists j0; auto.
      + cbn in Eo. injection Eo as <-. left; apply InSt_pass; auto.
      + discriminate.
      + cbn in Eo. injection Eo as <-. left. eapply InSt_stored; eauto.
  Qed.

  Lemma Bounded_step s e : WF s -> Bounded s -> ev_ok e -> Bounded (step s e).
  Proof.
    intros W [B1 B2] Ev. constructor.
    - intros c m H Hm. pose proof H as H0.
      apply InSt_step in H as [H|[(n & -> & Ee)|(n & rest & -> & ->)]]; eauto.
      + cbn in Hm. destruct Hm as [<-|[]].
        destruct Ee as [(kk & ->)| ->]; [|exact Ev].
        (* a job issued: the job's name is in the universe *)
        destruct (split_job n kk (jobs s)) as [[[pre j] post]|] eqn:SJ.
        * destruct (split_job_spec _ _ _ _ _ _ SJ) as [EJ <-]. apply B2. rewrite EJ, in_app_iff; cbn; auto.
        * assert (E : step s (JobStep n kk) = with_err s false)
            by (unfold Model.step, job_step; comp; rewrite SJ; reflexivity).
          rewrite E in H0. apply (B1 (new_cert s n) n); [exact H0 | cbn; auto].
      + cbn in Hm. destruct Ev as [Ev1 Ev2]. destruct Hm as [<-|Hm]; auto.
    - intros j Hj. apply step_jobs_sub in Hj as [(j0 & p & Hj0 & ->)|[(old & Ho & ->)|(n & a & -> & [->|(st & S & ->)])]].
      + cbn. apply B2; auto.
      + cbn. eapply B1; [apply InSt_pass; eauto | cbn; auto].
      + exact Ev.
      + exact Ev.
  Qed.

  (** * The clauses that hold across every event *)
  Lemma cnt_cons n m l : cnt (m :: l) n = if Nat.eq_dec m n then S (cnt l n) else cnt l n.
  Proof. unfold cnt; cbn. destruct (Nat.eq_dec m n); reflexivity. Qed.

  Lemma issue_pre_sound s e : c_issue_pre k (observe s) (observe (step s e)) = true.
  Proof.
    unfold c_issue_pre. apply forallb_U. intros n Hn.
    rewrite !oiss_observe, ost_observe by exact Hn.
    destruct (step_store_cases od idue s e) as [(_ & E & _)|[(m & r & _ & E & _)|(m & _ & E & F & _)]];
      rewrite E; try (rewrite Nat.eqb_refl; reflexivity).
    rewrite cnt_cons. destruct (Nat.eq_dec m n) as [<-|N]; [|rewrite Nat.eqb_refl; reflexivity].
    apply orb_true_iff; right. rewrite Nat.eqb_refl. cbn.
    unfold stored_fresh in F. destruct (stored (store s) m) as [c|]; auto.
    apply negb_false_iff in F; exact F.
  Qed.

  Lemma In_store_of_obs s n c :
    In (n, c) (store_of_obs k (observe s)) <-> n < k /\ stored (store s) n = Some c.
  Proof.
    unfold store_of_obs. rewrite in_flat_map. split.
    - intros (m & Hm & H). apply in_seq in Hm. rewrite ost_observe in H by lia.
      destruct (stored (store s) m) as [x|] eqn:S; cbn in H; [|contradiction].
      destruct H as [H|[]]. injection H as <- <-. split; [lia|auto].
    - intros [Hn S]. exists n. split; [apply in_seq; lia|].
      rewrite ost_observe, S by exact Hn. cbn; auto.
  Qed.

  Lemma certs_of_obs_InSt s c : In c (certs_of_obs k (observe s)) -> InSt s c.
  Proof.
    unfold certs_of_obs. rewrite in_app_iff. intros [H|H].
    - cbn in H. apply In_sort_by in H. apply InSt_cache; auto.
    - apply in_map_iff in H as ([n x] & <- & H). apply In_store_of_obs in H as [_ S].
      eapply InSt_stored; eauto.
  Qed.

  Lemma has_id_false i l : (forall x, In x l -> cid x <> i) -> has_id i l = false.
  Proof.
    intros H. destruct (has_id i l) eqn:E; auto. apply has_id_true in E as (x & Hx & Ex).
    exfalso; eapply H; eauto.
  Qed.

  Lemma store_change_sound s e :
    WF s -> c_store_change idue k e (observe s) (observe (step s e)) = true.
  Proof.
    intros W. unfold c_store_change. apply forallb_U. intros n Hn.
    rewrite !ost_observe, !oiss_observe by exact Hn.
    assert (Fresh : has_id (next s) (certs_of_obs k (observe s)) = false).
    { apply has_id_false. intros x Hx. apply certs_of_obs_InSt in Hx.
      apply (wf_lt od s W) in Hx. lia. }
    destruct (step_store_cases od idue s e) as [(E & _)|[(m & r & Ee & Ei & E)|(m & E & Ei & F & _ & _ & Ee)]];
      rewrite E.
    - rewrite opt_cert_eqb_refl; reflexivity.
    - destruct (Nat.eq_dec m n) as [<-|N].
      + rewrite stored_cons_eq. apply orb_true_iff; right. cbn [chead cman cid crest cdue].
        rewrite Fresh, Ee, !Nat.eqb_refl, list_nat_eqb_refl. reflexivity.
      + rewrite stored_cons_neq by exact N. rewrite opt_cert_eqb_refl; reflexivity.
    - destruct (Nat.eq_dec m n) as [<-|N].
      + rewrite stored_cons_eq. apply orb_true_iff; right. cbn [new_cert chead cman cid crest cdue].
        rewrite Fresh, Ei, cnt_cons, !Nat.eqb_refl. destruct (Nat.eq_dec m m); [|contradiction].
        rewrite Nat.eqb_refl. cbn. destruct idue; cbn.
        * destruct Ee as [(kk & ->)| ->]; reflexivity.
        * destruct Ee as [(kk & ->)| ->]; reflexivity.
      + rewrite stored_cons_neq by exact N. rewrite opt_cert_eqb_refl; reflexivity.
  Qed.

  Lemma not_due_kept_sound s e :
    WF s -> c_not_due_kept (observe s) (observe (step s e)) = true.
  Proof.
    intros W. unfold c_not_due_kept. apply forallb_observe_cache. intros c Hc.
    destruct (cdue c) eqn:D; auto. cbn [orb]. apply mem_observe_cache.
    apply step_cache_keeps; auto. unfold Model.eligible. rewrite D, andb_false_r; reflexivity.
  Qed.

  Lemma unman_od_kept_sound s e :
    WF s -> c_unman_od_kept od (observe s) (observe (step s e)) = true.
  Proof.
    intros W. unfold c_unman_od_kept. apply forallb_observe_cache. intros c Hc.
    destruct (cman c && negb (od (chead c))) eqn:D; auto. cbn [orb]. apply mem_observe_cache.
    apply step_cache_keeps; auto. unfold Model.eligible. rewrite D; reflexivity.
  Qed.

  Lemma removal_replaced_sound s e :
    WF s -> Bounded s -> c_removal_replaced (observe s) (observe (step s e)) = true.
  Proof.
    intros W B. unfold c_removal_replaced. apply forallb_observe_cache. intros c Hc.
    destruct (mem_cert c (o_cache (observe (step s e)))) eqn:M; auto. cbn [orb].
    assert (N : ~ In c (cache (step s e))) by (rewrite <- mem_observe_cache, M; discriminate).
    destruct (step_removal od idue s e c W Hc N) as (st & S & Ne & Hst).
    assert (Hk : chead c < k) by (eapply (b_names s B c); [apply InSt_cache; auto | cbn; auto]).
    rewrite ost_observe, S by exact Hk.
    apply andb_true_iff; split; [apply negb_true_iff, Nat.eqb_neq; exact Ne | apply mem_observe_cache; exact Hst].
  Qed.

  Lemma added_from_storage_sound s e :
    WF s -> Bounded s -> ev_ok e -> c_added_from_storage (observe s) (observe (step s e)) = true.
  Proof.
    intros W B Ev. unfold c_added_from_storage. apply forallb_observe_cache. intros c Hc.
    destruct (mem_cert c (o_cache (observe s))) eqn:M; auto. cbn [orb].
    assert (N : ~ In c (cache s)) by (rewrite <- mem_observe_cache, M; discriminate).
    pose proof (step_added_from_storage od idue s e c W Hc N) as S.
    assert (Hk : chead c < k).
    { eapply (b_names _ (Bounded_step s e W B Ev) c); [apply InSt_cache; auto | cbn; auto]. }
    rewrite ost_observe, S by exact Hk. apply cert_eqb_refl.
  Qed.

  (** * The monitor's record of pending passes agrees with the model's *)
  Definition pass_equiv (q q' : pass) : Prop :=
    pid q = pid q' /\ (forall c, In c (preload q) <-> In c (preload q')) /\
    (forall c, In c (prenew q) <-> In c (prenew q')).
  Definition pend_equiv : list pass -> list pass -> Prop := Forall2 pass_equiv.

  Lemma take_pass_equiv p ps ps' :
    pend_equiv ps ps' ->
    match take_pass p ps, take_pass p ps' with
    | None, None => True
    | Some (q, r), Some (q', r') => pass_equiv q q' /\ pend_equiv r r'
    | _, _ => False
    end.
  Proof.
    induction 1 as [|q q' r r' Hq Hr IH]; cbn; auto.
    destruct Hq as (Ep & Hq). rewrite <- Ep. destruct (pid q =? p).
    - split; [split; auto | auto].
    - destruct (take_pass p r) as [[x rr]|], (take_pass p r') as [[x' rr']|]; auto.
      destruct IH as [A B]. split; auto. constructor; [split; auto | auto].
  Qed.

  Lemma stored_flat (g : nat -> option cert) a len n :
    stored (flat_map (fun m => match g m with Some c => [(m, c)] | None => [] end) (seq a len)) n =
    if (a <=? n) && (n <? a + len) then g n else None.
  Proof.
    revert a; induction len as [|len IH]; intros a; cbn [seq flat_map].
    - destruct (Nat.leb_spec a n), (Nat.ltb_spec n (a + 0)); cbn; auto; exfalso; lia.
    - destruct (Nat.eq_dec a n) as [->|N].
      + replace ((n <=? n) && (n <? n + S len)) with true
          by (symmetry; apply andb_true_iff; split; [apply Nat.leb_le | apply Nat.ltb_lt]; lia).
        destruct (g n) as [c|] eqn:G.
        * cbn. apply stored_cons_eq.
        * cbn [app]. rewrite IH. replace (S n <=? n) with false by (symmetry; apply Nat.leb_gt; lia).
          reflexivity.
      + assert (E : stored ((match g a with Some c => [(a, c)] | None => [] end) ++
                            flat_map (fun m => match g m with Some c => [(m, c)] | None => [] end) (seq (S a) len)) n =
                    stored (flat_map (fun m => match g m with Some c => [(m, c)] | None => [] end) (seq (S a) len)) n).
        { destruct (g a); cbn [app]; auto. apply stored_cons_neq; auto. }
        rewrite E, IH.
        destruct (Nat.leb_spec a n), (Nat.leb_spec (S a) n), (Nat.ltb_spec n (a + S len)),
          (Nat.ltb_spec n (S a + len)); cbn; auto; exfalso; lia.
  Qed.

  Lemma stored_store_of_obs s n : n < k -> stored (store_of_obs k (observe s)) n = stored (store s) n.
  Proof.
    intros Hn. unfold store_of_obs, U.
    eapply eq_trans; [exact (stored_flat (fun m => ost (observe s) m) 0 k n)|].
    replace ((0 <=? n) && (n <? 0 + k)) with true
      by (symmetry; apply andb_true_iff; split; [apply Nat.leb_le | apply Nat.ltb_lt]; lia).
    apply ost_observe; auto.
  Qed.

  Lemma scan_equiv s p :
    Bounded s ->
    pass_equiv (Pass p (scan_reload od (store_of_obs k (observe s)) (o_cache (observe s)))
                       (scan_renew od (store_of_obs k (observe s)) (o_cache (observe s))))
               (Pass p (scan_reload od (store s) (cache s)) (scan_renew od (store s) (cache s))).
  Proof.
    intros B. split; [reflexivity|]. cbn [preload prenew].
    assert (F : forall c, In c (cache s) ->
                stored_fresh (store_of_obs k (observe s)) (chead c) = stored_fresh (store s) (chead c)).
    { intros c Hc. unfold stored_fresh. rewrite stored_store_of_obs; auto.
      eapply (b_names s B c); [apply InSt_cache; auto | cbn; auto]. }
    split; intros c; rewrite ?In_scan_reload, ?In_scan_renew; cbn [o_cache Model.observe];
      rewrite In_sort_by; split; intros (A & B' & C); repeat split; auto;
      first [rewrite <- F; auto | rewrite F; auto].
  Qed.

  Lemma pend_after_equiv s e pend :
    Bounded s -> pend_equiv pend (passes s) ->
    pend_equiv (pend_after od k pend e (observe s)) (passes (step s e)).
  Proof.
    intros B P. unfold Model.step, pend_after. destruct e as [p|p|n rest|n f|n kk|n a]; cbn zeta.
    - cbn. apply Forall2_app; auto. constructor; [|constructor]. apply scan_equiv; auto.
    - unfold pass_act. comp. pose proof (take_pass_equiv p _ _ P) as T.
      destruct (take_pass p pend) as [[q r]|], (take_pass p (passes s)) as [[q' r']|]; try contradiction; comp; auto.
      apply T.
    - exact P.
    - exact P.
    - unfold job_step. destruct (split_job n kk _) as [[[pre j] post]|]; [|exact P].
      destruct (jkd j), (jpc_ j); comp;
        repeat match goal with
               | |- context [match ?x with _ => _ end] => destruct x
               | |- context [if ?x then _ else _] => destruct x
               end; exact P.
    - unfold manage.
      repeat match goal with
             | |- context [match ?x with _ => _ end] => destruct x
             | |- context [if ?x then _ else _] => destruct x
             end; exact P.
  Qed.

  (** * Clause 8, event by event *)
  Ltac crush_step :=
    repeat match goal with
           | |- context [match ?x with _ => _ end] => destruct x
           | |- context [if ?x then _ else _] => destruct x
           end.

  Lemma job_step_facts s n kk :
    let s' := step s (JobStep n kk) in
    lasterr s' = false /\
    (failed s' = failed s \/ failed s' = n :: failed s) /\
    (jobs s' = jobs s \/
     exists pre j post, split_job n kk (jobs s) = Some (pre, j, post) /\
       jobs s = pre ++ j :: post /\ jname j = n /\
       (jobs s' = pre ++ post \/ exists p, jobs s' = pre ++ set_pc j p :: post)) /\
    (issued s' <> issued s -> lock_held (jobs s) n = true).
  Proof.
    cbn zeta. unfold Model.step, job_step. comp.
    destruct (split_job n kk (jobs s)) as [[[pre j] post]|] eqn:SJ.
    2:{ cbn. repeat split; auto; try (intros H; exfalso; apply H; reflexivity). }
    destruct (split_job_spec _ _ _ _ _ _ SJ) as [EJ EN].
    assert (LK : jpc_ j = Locked -> lock_held (jobs s) n = true).
    { intros L. unfold lock_held. apply existsb_exists. exists j. split.
      - rewrite EJ, in_app_iff; cbn; auto.
      - rewrite EN, Nat.eqb_refl, L; reflexivity. }
    destruct (jkd j), (jpc_ j) eqn:PC; crush_step; comp; cbn [issue lasterr failed jobs issued];
      repeat split; auto;
      try (intros H; exfalso; apply H; reflexivity);
      try (intros _; apply LK; reflexivity).
    all: try (right; exists pre, j, post; repeat split; eauto; fail).
  Qed.

  (** when a job ends, the certificate stored under its name is in the cache *)
  Lemma job_step_done_cache s n kk pre j post :
    WF s -> split_job n kk (jobs s) = Some (pre, j, post) ->
    jobs (step s (JobStep n kk)) = pre ++ post ->
    forall st, stored (store (step s (JobStep n kk))) n = Some st ->
               In st (cache (step s (JobStep n kk))).
  Proof.
    intros W SJ. destruct (split_job_spec _ _ _ _ _ _ SJ) as [EJ EN].
    assert (Hj : In j (jobs s)) by (rewrite EJ, in_app_iff; cbn; auto).
    assert (L1 : forall p, pre ++ set_pc j p :: post = pre ++ post -> False).
    { intros p H. apply (f_equal (@length job)) in H. rewrite !app_length in H. cbn in H. lia. }
    assert (L2 : jobs s = pre ++ post -> False).
    { intros H. rewrite EJ in H. apply (f_equal (@length job)) in H. rewrite !app_length in H. cbn in H. lia. }
    unfold Model.step, job_step. comp. rewrite SJ.
    destruct (jkd j) eqn:K, (jpc_ j) eqn:PC.
    - destruct (stored (store s) n) as [st0|] eqn:S; comp.
      + intros _ st E. rewrite S in E. injection E as <-. eapply In_cache_add_stored; eauto.
      + destruct (lock_held (jobs s) n); comp; intros H; exfalso; eauto.
    - destruct (stored (store s) n) as [st0|] eqn:S; comp; [intros H; exfalso; eauto|].
      destruct (is_failing _ n); comp; intros H; exfalso; eauto.
    - destruct (stored (store s) n) as [st0|] eqn:S; comp.
      + intros _ st E. rewrite S in E. injection E as <-. eapply In_cache_add_stored; eauto.
      + intros _ st E. rewrite S in E. discriminate.
    - destruct (lock_held (jobs s) n); comp; intros H; exfalso; eauto.
    - destruct (stored (store s) n) as [st0|] eqn:S; comp; [|intros H; exfalso; eauto].
      destruct (cdue st0); [|comp; intros H; exfalso; eauto].
      destruct (is_failing _ n); comp; intros H; exfalso; eauto.
    - destruct (wf_job_renew od s j W Hj K) as (old & O & Ho & _). rewrite O. comp.
      intros _ st E. unfold reload_one. rewrite Ho, EN, E. unfold cache_replace.
      apply In_cache_add_new. intros x Hx Ex. apply In_cache_remove in Hx as [Hx _].
      apply (wf_uniq od s W); auto using InSt_cache. eapply InSt_stored; eauto.
  Qed.

  Lemma ost_observe_ge s n : k <= n -> ost (observe s) n = None.
  Proof. intros H. unfold ost; cbn. apply nth_overflow. rewrite map_length, seq_length; exact H. Qed.

  Lemma count_codes_perm x js js' :
    Permutation js js' -> count x (map job_code js) = count x (map job_code js').
  Proof. intros P; apply perm_count, Permutation_map, P. Qed.

  Lemma filter_other_names n pre j post :
    jname j = n ->
    filter (fun x => negb (code_name x =? n)) (map job_code (pre ++ j :: post)) =
    filter (fun x => negb (code_name x =? n)) (map job_code (pre ++ post)).
  Proof.
    intros E. rewrite !map_app, !filter_app. f_equal. cbn [map filter]. rewrite code_name_job, E, Nat.eqb_refl. reflexivity.
  Qed.

  Lemma filter_this_name_len n pre j post :
    length (filter (fun x => code_name x =? n) (map job_code (pre ++ post))) <=
    length (filter (fun x => code_name x =? n) (map job_code (pre ++ j :: post))).
  Proof.
    rewrite !map_app, !filter_app, !app_length. cbn [map filter]. destruct (code_name (job_code j) =? n); cbn [length]; lia.
  Qed.

  Lemma event_job_sound s n kk pend :
    WF s -> c_event od k pend (JobStep n kk) (observe s) (observe (step s (JobStep n kk))) = true.
  Proof.
    intros W. cbn [c_event].
    destruct (job_step_facts s n kk) as (Er & Fd & Sh & Lk).
    set (s' := step s (JobStep n kk)) in *.
    rewrite !andb_true_iff. repeat split.
    - change (negb (lasterr s') = true). rewrite Er; reflexivity.
    - apply forallb_U. intros m Hm. destruct (Nat.eqb_spec m n) as [->|N]; auto. cbn [orb].
      rewrite !ost_observe, !oiss_observe, !ofl_observe by exact Hm.
      assert (E1 : stored (store s') m = stored (store s) m /\ cnt (issued s') m = cnt (issued s) m).
      { destruct (step_store_cases od idue s (JobStep n kk)) as [(E & E' & _)|[(x & r & Ee & _)|(x & E & E' & _ & _ & _ & Ee)]].
        - fold s' in E, E'. rewrite E, E'; auto.
        - discriminate.
        - fold s' in E, E'. assert (x = n) by (destruct Ee as [(k0 & Ee)|Ee]; [injection Ee; auto | discriminate]).
          subst x. rewrite E, E', stored_cons_neq, cnt_cons by auto.
          destruct (Nat.eq_dec n m); [exfalso; auto | auto]. }
      destruct E1 as [-> ->]. rewrite opt_cert_eqb_refl, !Nat.eqb_refl. cbn [andb].
      destruct Fd as [->| ->]; [apply Nat.eqb_refl|]. rewrite cnt_cons.
      destruct (Nat.eq_dec n m); [exfalso; auto | apply Nat.eqb_refl].
    - apply perm_eqb_of_perm. cbn [o_jobs Model.observe].
      eapply perm_trans; [apply perm_filter, sort_by_perm|].
      eapply perm_trans; [|apply Permutation_sym, perm_filter, sort_by_perm].
      destruct Sh as [->|(pre & j & post & _ & -> & EN & [->|(p & ->)])]; auto.
      + rewrite (filter_other_names n pre j post EN). auto.
      + rewrite (filter_other_names n pre j post EN), (filter_other_names n pre (set_pc j p) post EN). auto.
    - apply Nat.leb_le. cbn [o_jobs Model.observe]. rewrite !sort_filter_len.
      destruct Sh as [->|(pre & j & post & _ & -> & EN & [->|(p & ->)])]; auto.
      + apply filter_this_name_len.
      + rewrite !map_app, !filter_app, !app_length. cbn [map filter]. rewrite !code_name_job. cbn [set_pc jname]. destruct (jname j =? n); cbn [length]; lia.
    - (* a job that ends leaves the stored certificate in the cache *)
      cbn [o_jobs Model.observe]. rewrite !sort_filter_len.
      destruct Sh as [E|(pre & j & post & SJ & EJ & EN & [E|(p & E)])].
      + rewrite E, Nat.leb_refl. reflexivity.
      + apply orb_true_iff; right. destruct (le_lt_dec k n) as [Hge|Hlt].
        * rewrite ost_observe_ge by exact Hge. reflexivity.
        * rewrite ost_observe by exact Hlt.
          destruct (stored (store s') n) as [st|] eqn:S; auto.
          apply mem_observe_cache. eapply job_step_done_cache; eauto.
      + apply orb_true_iff; left. apply Nat.leb_le. rewrite E, EJ.
        rewrite !map_app, !filter_app, !app_length. cbn [map filter]. rewrite !code_name_job. cbn [set_pc jname].
        destruct (jname j =? n); cbn [length]; lia.
    - destruct (list_eq_dec Nat.eq_dec (failed s') (failed s)) as [E|E].
      + apply orb_true_iff; left. rewrite (ofl_observe_any k s s' n E). apply Nat.eqb_refl.
      + apply orb_true_iff; right.
        pose proof (failed_attempt_changes_nothing od idue s n kk E) as X. fold s' in X.
        rewrite same_cache_obs, same_store_obs, same_jobs_obs by (rewrite X; reflexivity). reflexivity.
    - destruct (list_eq_dec Nat.eq_dec (issued s') (issued s)) as [E|E].
      + apply orb_true_iff; left. rewrite (oiss_observe_any k s s' n E). apply Nat.eqb_refl.
      + apply orb_true_iff; right. rewrite locked_in_obs. apply Lk; auto.
  Qed.

  Lemma event_scan_sound s p pend :
    c_event od k pend (PassScan p) (observe s) (observe (step s (PassScan p))) = true.
  Proof. cbn [c_event]. apply unchanged_same; reflexivity. Qed.

  Lemma event_issuer_sound s n f pend :
    c_event od k pend (SetIssuer n f) (observe s) (observe (step s (SetIssuer n f))) = true.
  Proof. cbn [c_event]. apply unchanged_same; reflexivity. Qed.

  Lemma event_ext_sound s n rest pend :
    WF s -> n < k ->
    c_event od k pend (ExtRenew n rest) (observe s) (observe (step s (ExtRenew n rest))) = true.
  Proof.
    intros W Hn. cbn [c_event]. set (s' := step s (ExtRenew n rest)).
    rewrite !andb_true_iff. repeat split.
    - apply same_cache_obs; reflexivity.
    - apply same_jobs_obs; reflexivity.
    - apply same_counts_obs; reflexivity.
    - rewrite !ost_observe by exact Hn. subst s'. cbn [Model.step ext_renew store with_err].
      rewrite stored_cons_eq. destruct (stored (store s) n) as [old|] eqn:S; [|reflexivity].
      cbn. apply negb_true_iff. destruct (cert_eqb _ old) eqn:E; auto.
      apply cert_eqb_eq in E. subst old. apply InSt_stored in S. apply (wf_lt od s W) in S. cbn in S. lia.
    - apply forallb_U. intros m Hm. destruct (Nat.eqb_spec m n) as [->|N]; auto. cbn [orb].
      rewrite !ost_observe by exact Hm. subst s'. cbn [Model.step ext_renew store with_err].
      rewrite stored_cons_neq by auto. apply opt_cert_eqb_refl.
  Qed.

  (** the renewal queue of a pass *)
  Lemma fold_submit_prefix olds js :
    exists extra, fold_left (fun js old => submit_renew js (chead old) old) olds js = js ++ extra /\
                  forall j, In j extra -> exists old, In old olds /\ j = Job (chead old) JRenew (Some old) Queued.
  Proof.
    revert js; induction olds as [|o r IH]; cbn; intros js.
    - exists []. rewrite app_nil_r; split; auto. intros j [].
    - destruct (IH (submit_renew js (chead o) o)) as (extra & E & H). rewrite E.
      unfold submit_renew. destruct (existsb _ js).
      + exists extra; split; auto. intros j Hj. destruct (H j Hj) as (old & Ho & ->); eauto.
      + exists (Job (chead o) JRenew (Some o) Queued :: extra). rewrite <- app_assoc. split; auto.
        intros j [<-|Hj]; eauto. destruct (H j Hj) as (old & Ho & ->); eauto.
  Qed.

  Lemma existsb_submit_mono n js m old :
    existsb (is_renew_for n) js = true -> existsb (is_renew_for n) (submit_renew js m old) = true.
  Proof.
    intros H. unfold submit_renew. destruct (existsb (is_renew_for m) js); auto.
    rewrite existsb_app, H; reflexivity.
  Qed.

  Lemma fold_submit_mono n olds js :
    existsb (is_renew_for n) js = true ->
    existsb (is_renew_for n) (fold_left (fun js old => submit_renew js (chead old) old) olds js) = true.
  Proof.
    revert js; induction olds as [|o r IH]; cbn; intros js H; auto.
    apply IH, existsb_submit_mono, H.
  Qed.

  Lemma fold_submit_has olds js old :
    In old olds ->
    existsb (is_renew_for (chead old)) (fold_left (fun js old => submit_renew js (chead old) old) olds js) = true.
  Proof.
    revert js; induction olds as [|o r IH]; cbn; intros js H; [contradiction|].
    destruct H as [->|H]; [|apply IH; auto].
    apply fold_submit_mono. unfold submit_renew.
    destruct (existsb (is_renew_for (chead old)) js) eqn:X; auto.
    rewrite existsb_app. cbn. rewrite Nat.eqb_refl. apply orb_true_r.
  Qed.

  Lemma count_app x a b : count x (a ++ b) = count x a + count x b.
  Proof. unfold count. rewrite filter_app, app_length; reflexivity. Qed.

  Lemma count_zero x l : (forall y, In y l -> y <> x) -> count x l = 0.
  Proof.
    intros H. unfold count. induction l as [|y r IH]; cbn; auto.
    destruct (Nat.eqb_spec x y) as [->|N]; [exfalso; apply (H y); cbn; auto|].
    apply IH. intros z Hz; apply H; cbn; auto.
  Qed.

  Lemma event_act_sound s p pend :
    WF s -> Bounded s -> pend_equiv pend (passes s) ->
    c_event od k pend (PassAct p) (observe s) (observe (step s (PassAct p))) = true.
  Proof.
    intros W B P. cbn [c_event]. set (s' := step s (PassAct p)).
    destruct (pass_act_frame od idue s p) as (E1 & E2 & E3 & _). fold s' in E1, E2, E3.
    assert (Er : lasterr s' = false).
    { subst s'. cbn. unfold pass_act. comp. destruct (take_pass p (passes s)) as [[q r]|]; reflexivity. }
    pose proof (take_pass_equiv p _ _ P) as T.
    (* the job list grows by queued renewal jobs only *)
    assert (J : exists extra, jobs s' = jobs s ++ extra /\
                  forall j, In j extra -> exists old, j = Job (chead old) JRenew (Some old) Queued /\
                    forall q r, take_pass p (passes s) = Some (q, r) -> In old (prenew q)).
    { subst s'. cbn. unfold pass_act. comp. destruct (take_pass p (passes s)) as [[q r]|]; comp.
      - destruct (fold_submit_prefix (prenew q) (jobs s)) as (extra & E & H). exists extra; split; auto.
        intros j Hj. destruct (H j Hj) as (old & Ho & ->). exists old; split; auto.
        intros q0 r0 Eq; injection Eq as <- <-; auto.
      - exists []. rewrite app_nil_r. split; auto. intros j []. }
    destruct J as (extra & EJ & Hx0).
    assert (Hx : forall j, In j extra -> job_code j mod 6 = 3).
    { intros j Hj. destruct (Hx0 j Hj) as (old & -> & _). rewrite code_mod6_job. reflexivity. }
    assert (Cnt : forall x, count x (o_jobs (observe s')) =
                            count x (o_jobs (observe s)) + count x (map job_code extra)).
    { intros x. cbn [o_jobs Model.observe].
      rewrite (perm_count x _ _ (sort_by_perm _ _)), (perm_count x (sort_by _ _) _ (sort_by_perm _ _)).
      rewrite EJ, map_app, count_app. reflexivity. }
    rewrite !andb_true_iff. repeat split.
    - apply same_store_obs; auto.
    - apply same_counts_obs; auto.
    - change (negb (lasterr s') = true). rewrite Er; reflexivity.
    - apply forallb_forall. intros x _. apply Nat.leb_le. rewrite Cnt. lia.
    - apply forallb_forall. intros x _. rewrite Cnt.
      destruct (Nat.eqb_spec (x mod 6) 3) as [E|E]; [apply orb_true_r|].
      apply orb_true_iff; left. apply Nat.leb_le. rewrite (count_zero x (map job_code extra)); [lia|].
      intros y Hy. apply in_map_iff in Hy as (j & <- & Hj). intros <-. apply E, Hx, Hj.
    - destruct (take_pass p pend) as [[q' r']|] eqn:T1, (take_pass p (passes s)) as [[q r]|] eqn:T2;
        try contradiction.
      + destruct T as [(_ & Pre & Ren) _].
        rewrite !andb_true_iff; repeat split; apply forallb_forall; intros c Hc.
        * apply Pre in Hc.
          destruct (pass_act_adopts od idue s p q r c W T2 Hc) as (st & S & _ & I1 & I2 & _). fold s' in I1, I2.
          assert (Hk : chead c < k).
          { destruct (take_pass_spec _ _ _ _ T2) as (_ & a & b & E & _).
            eapply (b_names s B c); [|cbn; auto]. apply InSt_pass, In_pass_certs. exists q.
            rewrite E, !in_app_iff; cbn; auto. }
          rewrite ost_observe, S by exact Hk.
          apply andb_true_iff; split; [apply mem_observe_cache; auto|].
          apply orb_true_iff; right. apply negb_true_iff.
          destruct (mem_cert c (o_cache (observe s'))) eqn:M; auto.
          apply mem_observe_cache in M. contradiction.
        * apply Ren in Hc. rewrite renew_job_for_obs. subst s'. cbn. unfold pass_act. comp.
          rewrite T2. comp. apply fold_submit_has; auto.
        * (* c is a job code here *)
          rewrite Cnt.
          destruct (existsb (fun c0 => chead c0 =? code_name c) (prenew q')) eqn:X; [apply orb_true_r|].
          apply orb_true_iff; left. apply Nat.leb_le. rewrite (count_zero c (map job_code extra)); [lia|].
          intros y Hy. apply in_map_iff in Hy as (j & <- & Hj). intros <-.
          destruct (Hx0 j Hj) as (old & -> & Hold). specialize (Hold q r eq_refl). apply Ren in Hold.
          assert (Y : existsb (fun c0 => chead c0 =? code_name (job_code (Job (chead old) JRenew (Some old) Queued))) (prenew q') = true).
          { apply existsb_exists. exists old. split; auto. rewrite code_name_job. cbn. apply Nat.eqb_refl. }
          congruence.
      + assert (E : s' = with_err s false).
        { subst s'. cbn. unfold pass_act. comp. rewrite T2. reflexivity. }
        rewrite same_cache_obs, same_jobs_obs by (rewrite E; reflexivity). reflexivity.
  Qed.

  Lemma managed_for_obs s n : managed_for n (o_cache (observe s)) = managed_for n (cache s).
  Proof.
    unfold managed_for, resolve. cbn [o_cache Model.observe].
    apply existsb_perm, perm_filter, sort_by_perm.
  Qed.

  Lemma keeps_all_obs s s' :
    (forall x, In x (cache s) -> In x (cache s')) -> keeps_all (observe s) (observe s') = true.
  Proof. intros H. unfold keeps_all. apply forallb_observe_cache. intros c Hc. apply mem_observe_cache; auto. Qed.

  Lemma not_mem_obs s c : ~ In c (cache s) -> mem_cert c (o_cache (observe s)) = false.
  Proof.
    intros N. destruct (mem_cert c (o_cache (observe s))) eqn:M; auto.
    apply mem_observe_cache in M; contradiction.
  Qed.

  Lemma S_eqb_false x : (S x =? x) = false.
  Proof. apply Nat.eqb_neq; lia. Qed.

  Lemma cnt_cons_same n l : cnt (n :: l) n = S (cnt l n).
  Proof. rewrite cnt_cons. destruct (Nat.eq_dec n n); [reflexivity|contradiction]. Qed.

  Lemma event_manage_sound s n a pend :
    WF s -> n < k ->
    c_event od k pend (Manage n a) (observe s) (observe (step s (Manage n a))) = true.
  Proof.
    intros W Hn. cbn [c_event]. unfold c_manage.
    rewrite managed_for_obs, ost_observe, locked_in_obs by exact Hn.
    destruct (od n) eqn:OD.
    { cbn [orb]. apply unchanged_same; unfold Model.step, manage; rewrite OD; reflexivity. }
    destruct (managed_for n (cache s)) eqn:MF.
    { cbn [orb]. apply unchanged_same; unfold Model.step, manage; comp; rewrite OD, MF; reflexivity. }
    cbn [orb].
    destruct a.
    - (* asynchronous *)
      assert (E : step s (Manage n true) =
                  match stored (store s) n with
                  | None => with_jobs (with_err s false) (jobs s ++ [Job n JObtain None Queued])
                  | Some st =>
                      if cdue st then
                        with_jobs (with_cache (with_err s false) (cache_add st (cache s)))
                                  (submit_renew (jobs s) n st)
                      else with_cache (with_err s false) (cache_add st (cache s))
                  end).
      { unfold Model.step, manage. comp. rewrite OD, MF. destruct (stored (store s) n) as [st|]; auto. }
      destruct (stored (store s) n) as [st|] eqn:S.
      + assert (Ist : forall s1, cache s1 = cache_add st (cache s) -> mem_cert st (o_cache (observe s1)) = true).
        { intros s1 E1. apply mem_observe_cache. rewrite E1. eapply In_cache_add_stored; eauto. }
        assert (Kp : forall s1, cache s1 = cache_add st (cache s) -> keeps_all (observe s) (observe s1) = true).
        { intros s1 E1. apply keeps_all_obs. intros x Hx. rewrite E1. apply In_cache_add_l; auto. }
        destruct (cdue st) eqn:D; cbn [negb]; rewrite E.
        * rewrite Ist, Kp, same_store_obs, same_counts_obs by reflexivity. cbn [andb].
          rewrite renew_job_for_obs. cbn [jobs with_jobs].
          apply andb_true_iff; split; [|reflexivity].
          unfold submit_renew. destruct (existsb (is_renew_for n) (jobs s)) eqn:X; auto.
          rewrite existsb_app. cbn. rewrite Nat.eqb_refl. apply orb_true_r.
        * rewrite Ist, Kp, same_store_obs, same_counts_obs, same_jobs_obs by reflexivity. reflexivity.
      + rewrite E. rewrite same_cache_obs, same_store_obs, same_counts_obs by reflexivity. cbn [andb].
        apply andb_true_iff; split; [reflexivity|].
        apply perm_eqb_of_perm. cbn [o_jobs Model.observe jobs with_jobs].
        replace (n * 6) with (job_code (Job n JObtain None Queued)) by (unfold job_code; cbn [jname jkd jpc_]; lia).
        eapply perm_trans; [apply sort_by_perm|]. rewrite map_app. cbn [map].
        eapply perm_trans; [apply Permutation_sym, Permutation_cons_append|].
        apply perm_skip. apply Permutation_sym, sort_by_perm.
    - (* synchronous *)
      destruct (lock_held (jobs s) n) eqn:LH.
      + destruct (stored (store s) n) as [st|] eqn:S.
        * destruct (cdue st) eqn:D; cbn [negb].
          -- apply unchanged_same; unfold Model.step, manage; comp; rewrite OD, MF, S, D, LH; reflexivity.
          -- (* a stored certificate that is not due is loaded without the lock *)
             assert (E : step s (Manage n false) = with_cache (with_err s false) (cache_add st (cache s))).
             { unfold Model.step, manage. comp. rewrite OD, MF, S, D. reflexivity. }
             rewrite E.
             rewrite same_store_obs, same_counts_obs, same_jobs_obs by reflexivity.
             rewrite keeps_all_obs by (intros x Hx; apply In_cache_add_l; auto).
             assert (M : mem_cert st (o_cache (observe (with_cache (with_err s false) (cache_add st (cache s))))) = true).
             { apply mem_observe_cache. eapply In_cache_add_stored; eauto. }
             rewrite M. reflexivity.
        * apply unchanged_same; unfold Model.step, manage; comp; rewrite OD, MF, S, LH; reflexivity.
      + pose proof (manage_sync_spec od idue s n W OD LH) as M. cbn zeta in M.
        rewrite MF in M. destruct M as [EJ M]. set (s' := step s (Manage n false)) in *.
        destruct (stored (store s) n) as [st|] eqn:S.
        * destruct (cdue st) eqn:D; cbn [negb].
          -- rewrite same_jobs_obs by exact EJ. cbn [andb].
             rewrite !ofl_observe, !oiss_observe by exact Hn.
             destruct (is_failing s n) eqn:F.
             ++ destruct M as (M1 & M2 & M3 & M4).
                assert (Fd : failed s' = n :: failed s).
                { subst s'. unfold Model.step, manage. comp. rewrite OD, MF, S, D, LH.
                  change (is_failing (with_err s false) n) with (is_failing s n). rewrite F. reflexivity. }
                rewrite Fd, cnt_cons_same, S_eqb_false, M4, Nat.eqb_refl.
                change (o_err (observe s')) with (lasterr s'). rewrite M1.
                rewrite same_store_obs by exact M3.
                assert (Mst : mem_cert st (o_cache (observe s')) = true) by (apply mem_observe_cache; auto).
                rewrite Mst. cbn [andb]. rewrite !andb_true_r.
                apply keeps_all_obs. intros x Hx. subst s'. unfold Model.step, manage. comp.
                rewrite OD, MF, S, D, LH. change (is_failing (with_err s false) n) with (is_failing s n).
                rewrite F. comp. apply In_cache_add_l; auto.
             ++ destruct M as (M1 & M2 & M3 & M4 & M5).
                assert (Fd : failed s' = failed s).
                { subst s'. unfold Model.step, manage. comp. rewrite OD, MF, S, D, LH.
                  change (is_failing (with_err s false) n) with (is_failing s n). rewrite F. reflexivity. }
                rewrite Fd, Nat.eqb_refl, M2, cnt_cons_same, Nat.eqb_refl.
                change (o_err (observe s')) with (lasterr s'). rewrite M1. cbn [negb andb].
                rewrite ost_observe, M3 by exact Hn.
                assert (Mn : mem_cert (new_cert s n) (o_cache (observe s')) = true) by (apply mem_observe_cache; auto).
                rewrite Mn, (not_mem_obs s' st M5). cbn [andb negb]. rewrite andb_true_r.
                apply negb_true_iff, Nat.eqb_neq. intros Eq.
                eapply (new_cert_fresh_id od idue s n st W); [eapply InSt_stored; eauto | auto].
          -- destruct M as (M1 & M2 & M3 & M4 & M5).
             assert (Mst : mem_cert st (o_cache (observe s')) = true) by (apply mem_observe_cache; auto).
             rewrite Mst, keeps_all_obs, same_store_obs, same_counts_obs, same_jobs_obs; auto.
             ++ change (o_err (observe s')) with (lasterr s'). rewrite M1. reflexivity.
             ++ subst s'. unfold Model.step, manage. comp. rewrite OD, MF, S, D. reflexivity.
        * rewrite same_jobs_obs by exact EJ. cbn [andb].
          rewrite !ofl_observe, !oiss_observe by exact Hn.
          destruct (is_failing s n) eqn:F.
          -- destruct M as (M1 & M2 & M3 & M4).
             assert (Fd : failed s' = n :: failed s).
             { subst s'. unfold Model.step, manage. comp. rewrite OD, MF, S, LH.
               change (is_failing (with_err s false) n) with (is_failing s n). rewrite F. reflexivity. }
             rewrite Fd, cnt_cons_same, S_eqb_false, M4, Nat.eqb_refl.
             change (o_err (observe s')) with (lasterr s'). rewrite M1.
             rewrite same_cache_obs, same_store_obs by auto. reflexivity.
          -- destruct M as (M1 & M2 & M3 & M4 & M5).
             assert (Fd : failed s' = failed s).
             { subst s'. unfold Model.step, manage. comp. rewrite OD, MF, S, LH.
               change (is_failing (with_err s false) n) with (is_failing s n). rewrite F.
               cbn. rewrite stored_cons_eq. reflexivity. }
             rewrite Fd, Nat.eqb_refl, M2, cnt_cons_same, Nat.eqb_refl.
             change (o_err (observe s')) with (lasterr s'). rewrite M1. cbn [negb andb].
             rewrite keeps_all_obs by exact M5. rewrite ost_observe, M3 by exact Hn.
             apply mem_observe_cache; auto.
  Qed.

  (** * Soundness of the monitor *)
  Theorem spec_step_sound s e pend :
    WF s -> Bounded s -> ev_ok e -> pend_equiv pend (passes s) ->
    spec_step od idue k pend e (observe s) (observe (step s e)) = true.
  Proof.
    intros W B Ev P. unfold spec_step, clauses. cbn [forallb].
    rewrite consistent_observe, issue_pre_sound, store_change_sound, not_due_kept_sound,
      unman_od_kept_sound, removal_replaced_sound, added_from_storage_sound by auto.
    rewrite (jobs_dedup_obs k od (step s e)) by (apply WF_step; auto).
    cbn [andb]. rewrite andb_true_r.
    destruct e as [p|p|n rest|n f|n kk|n a].
    - apply event_scan_sound.
    - apply event_act_sound; auto.
    - destruct Ev as [Ev1 _]. apply event_ext_sound; auto.
    - apply event_issuer_sound.
    - apply event_job_sound; auto.
    - apply event_manage_sound; auto.
  Qed.

  (** the observations the model makes along a history *)
  Fixpoint trace (s : state) (h : list event) : list (event * obs) :=
    match h with
    | [] => []
    | e :: r => (e, observe (step s e)) :: trace (step s e) r
    end.

  Theorem spec_run_sound s h pend :
    WF s -> Bounded s -> Forall ev_ok h -> pend_equiv pend (passes s) ->
    spec_run od idue k pend (observe s) (trace s h) = true.
  Proof.
    revert s pend; induction h as [|e r IH]; cbn [trace spec_run]; intros s pend W B Ev P; auto.
    inversion Ev as [|? ? E1 E2]; subst.
    rewrite spec_step_sound by auto. cbn [andb].
    apply IH; auto using WF_step, Bounded_step, pend_after_equiv.
  Qed.

  Lemma wf_b_bounded s : wf_b od k s = true -> Bounded s.
  Proof.
    unfold wf_b. rewrite !andb_true_iff.
    intros ((((((((_ & _) & _) & _) & _) & _) & B1) & _) & B3).
    rewrite forallb_forall in B1, B3. constructor.
    - intros c m Hc Hm. specialize (B1 c Hc). rewrite forallb_forall in B1.
      apply Nat.ltb_lt. apply B1; auto.
    - intros j Hj. apply Nat.ltb_lt. apply B3; auto.
  Qed.

  (** from a state accepted by the boolean well-formedness check, with no pass pending *)
  Corollary spec_run_sound_init s h :
    wf_b od k s = true -> passes s = [] -> Forall ev_ok h ->
    spec_run od idue k [] (observe s) (trace s h) = true.
  Proof.
    intros Wb Ps Ev. apply spec_run_sound; auto.
    - eapply wf_b_sound; eauto.
    - apply wf_b_bounded; auto.
    - rewrite Ps; constructor.
  Qed.
End Sound.

