(** C05 — several issuers: the model's storage is a sound abstraction of per-issuer storage. *)
From Coq Require Import List Arith Bool Lia.
From CM Require Import Maintain.Model Maintain.Spec Maintain.Base Maintain.Inv Maintain.Proofs Maintain.Issuers.
Import ListNotations.

Lemma newest_In l d : newest l = Some d -> In d l.
Proof.
  revert d; induction l as [|c r IH]; cbn [newest]; intros d H; [discriminate|].
  destruct (newest r) as [e|].
  - destruct (cid e <? cid c); inversion H; subst; [left; reflexivity | right; apply IH; reflexivity].
  - inversion H; subst; left; reflexivity.
Qed.

Lemma newest_head c r : (forall d, In d r -> cid d < cid c) -> newest (c :: r) = Some c.
Proof.
  intros H. cbn [newest]. destruct (newest r) as [d|] eqn:E; auto.
  apply newest_In in E. apply H in E. apply Nat.ltb_lt in E. rewrite E. reflexivity.
Qed.

Lemma In_bundles ms n c : In c (bundles ms n) <-> exists i, In (i, n, c) ms.
Proof.
  unfold bundles. rewrite in_map_iff. split.
  - intros ([[i m] d] & <- & H). apply filter_In in H as [H E]. cbn in E. apply Nat.eqb_eq in E. subst. eauto.
  - intros (i & H). exists (i, n, c). split; auto. apply filter_In; split; auto. cbn. apply Nat.eqb_refl.
Qed.

Lemma filter_filter_imp {A} (f g : A -> bool) l :
  (forall x, f x = true -> g x = true) -> filter f (filter g l) = filter f l.
Proof.
  intros H. induction l as [|x r IH]; cbn; auto.
  destruct (g x) eqn:G; cbn; [rewrite IH; reflexivity|].
  destruct (f x) eqn:F; [apply H in F; congruence | exact IH].
Qed.

Lemma bundles_msave_other ms i n c m : m <> n -> bundles (msave ms i n c) m = bundles ms m.
Proof.
  intros N. unfold bundles, msave. cbn [filter fst snd].
  destruct (Nat.eqb_spec n m); [congruence|]. f_equal.
  apply filter_filter_imp. intros [[j k] d] E. cbn in E. apply Nat.eqb_eq in E. subst k.
  unfold same_slot; cbn. destruct (Nat.eqb_spec m n); [congruence|]. rewrite andb_false_r. reflexivity.
Qed.

Lemma In_concretize st tags i n c : In (i, n, c) (concretize st tags) -> In (n, c) st.
Proof.
  revert tags; induction st as [|[m d] r IH]; intros [|t tags]; cbn; try contradiction.
  intros [H|H]; [injection H as <- <- <-; auto|]. apply filter_In in H as [H _]. right; eauto.
Qed.

(** whichever issuer key each save went to, loading from the per-issuer storage gives the
    model's [stored] *)
Theorem mload_concretize st tags n :
  stack_ordered st -> length tags = length st -> mload (concretize st tags) n = stored st n.
Proof.
  revert tags; induction st as [|[m c] r IH]; intros [|t tags] O L; cbn in L; try discriminate; [reflexivity|].
  destruct O as [Oc Or]. injection L as L. cbn [concretize]. unfold stored. cbn [find fst snd].
  destruct (Nat.eqb_spec m n) as [->|N].
  - unfold mload, bundles, msave. cbn [filter fst snd map]. rewrite Nat.eqb_refl. cbn [map snd].
    apply newest_head. intros d Hd. apply in_map_iff in Hd as ([[j k] e] & <- & H).
    apply filter_In in H as [H E]. apply filter_In in H as [H _]. cbn in E. apply Nat.eqb_eq in E. subst k.
    apply In_concretize in H. apply Oc; auto.
  - unfold mload. rewrite bundles_msave_other by congruence. apply IH; auto.
Qed.

Section Reach.
  Variable od : name -> bool.
  Variable idue : bool.

  (** the model keeps its stack ordered: a new binding carries a fresh, larger identity *)
  Lemma stack_ordered_step s e :
    WF od s -> stack_ordered (store s) -> stack_ordered (store (step od idue s e)).
  Proof.
    intros W O.
    assert (B : forall m d, In (m, d) (store s) -> cid d < next s).
    { intros m d H. apply (wf_lt od s W). apply InSt_store. apply in_map_iff. exists (m, d); auto. }
    destruct (step_store_cases od idue s e) as [(E & _)|[(n & r & _ & _ & E)|(n & E & _)]]; rewrite E; auto.
    - cbn. split; auto. intros d H. apply (B n d H).
    - cbn. split; auto. intros d H. apply (B n d H).
  Qed.

  Lemma stack_ordered_run s h :
    WF od s -> stack_ordered (store s) -> stack_ordered (store (run od idue s h)).
  Proof.
    revert s; induction h as [|e r IH]; cbn; intros s W O; auto.
    apply IH; [apply WF_step; auto | apply stack_ordered_step; auto].
  Qed.

  (** in every reachable state, and for every assignment of issuer keys to the saves that built
      the storage, what [loadCertResourceAnyIssuer] returns is what the model calls the stored
      certificate — so every theorem about [stored] (adoption of a certificate renewed elsewhere,
      renewed once, the new certificate is the one served) holds with bundles under several
      issuers' keys *)
  Theorem reachable_mload s h tags n :
    WF od s -> stack_ordered (store s) ->
    length tags = length (store (run od idue s h)) ->
    mload (concretize (store (run od idue s h)) tags) n = stored (store (run od idue s h)) n.
  Proof. intros W O L. apply mload_concretize; auto. apply stack_ordered_run; auto. Qed.
End Reach.

(** the issuer chain fails exactly when all its issuers fail, and otherwise the certificate
    comes from the first one that works *)
Lemma first_working_none order fails :
  first_working order fails = None <-> forall i, In i order -> fails i = true.
Proof.
  induction order as [|j r IH]; cbn; [tauto|].
  destruct (fails j) eqn:F.
  - rewrite IH. split; [intros H i Hi; destruct Hi as [<-|Hi]; auto | intros H i Hi; apply H; auto].
  - split; [discriminate | intros H; specialize (H j (or_introl eq_refl)); congruence].
Qed.

Lemma first_working_some order fails i :
  first_working order fails = Some i ->
  fails i = false /\ exists a b, order = a ++ i :: b /\ forall j, In j a -> fails j = true.
Proof.
  induction order as [|j r IH]; cbn; [discriminate|].
  destruct (fails j) eqn:F.
  - intros H. destruct (IH H) as (Fi & a & b & -> & Ha). split; auto.
    exists (j :: a), b. split; auto. intros k [<-|Hk]; auto.
  - intros H; injection H as <-. split; auto. exists [], r. split; [reflexivity|]. intros k Hk; destruct Hk.
Qed.
