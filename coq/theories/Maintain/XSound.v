(** C05 — soundness of the extended monitor ([XModel.xspec_step]) for the extended model: every
    clause holds between the model's observations before and after any core event, revocation or
    OCSP pass (in any order), from any well-formed state; and a correspondence case that agrees
    with the model satisfies the monitor. *)
From Coq Require Import List Arith Bool Lia Permutation.
From CM Require Import Maintain.Model Maintain.Spec Maintain.XModel Maintain.Base Maintain.Inv
  Maintain.Proofs Maintain.SpecSound Maintain.XProofs.
Import ListNotations.

Lemma mem_nat_sort i l : mem_nat i (sort_by (fun x => x) l) = mem_nat i l.
Proof.
  destruct (mem_nat i l) eqn:E.
  - apply mem_nat_In. apply In_sort_by. apply mem_nat_In; auto.
  - destruct (mem_nat i (sort_by (fun x => x) l)) eqn:F; auto.
    apply mem_nat_In, In_sort_by, mem_nat_In in F. congruence.
Qed.

Lemma has_id_sort i l : has_id i (sort_by cid l) = has_id i l.
Proof.
  destruct (has_id i l) eqn:E.
  - apply has_id_true in E as (c & H & Ec). apply has_id_true. exists c; split; auto. apply In_sort_by; auto.
  - destruct (has_id i (sort_by cid l)) eqn:F; auto.
    apply has_id_true in F as (c & H & Ec). apply In_sort_by in H.
    assert (has_id i l = true) by (apply has_id_true; eauto). congruence.
Qed.

Lemma forallb_app_true {A} (f : A -> bool) a b : forallb f a = true -> forallb f b = true -> forallb f (a ++ b) = true.
Proof. intros H1 H2. rewrite forallb_app, H1, H2. reflexivity. Qed.

Section XSound.
  Variable od : name -> bool.
  Variable idue : bool.
  Variable k : nat.

  Notation WF := (WF od).
  Notation XWF := (XWF od).
  Notation xstep := (xstep od idue).
  Notation xrun := (xrun od idue).
  Notation observe := (observe k).
  Notation xobserve := (xobserve k).
  Notation Bounded := (Bounded k).
  Notation force_renew := (force_renew idue).

  Definition xev_ok (e : xevent) : Prop := match e with Core e => ev_ok k e | _ => True end.

  (** * the universe of names is respected *)
  Lemma Bounded_force_renew t r : Bounded t -> chead r < k -> Bounded (force_renew t r).
  Proof.
    intros [B1 B2] Hr. constructor.
    - intros c m H Hm. apply InSt_force_renew in H as [H| ->]; eauto.
      cbn in Hm. destruct Hm as [<-|[]]. exact Hr.
    - intros j. destruct (fr_cases idue t r) as (-> & _). apply B2.
  Qed.

  Lemma Bounded_xstep x e : XWF x -> Bounded (core x) -> xev_ok e -> Bounded (core (xstep x e)).
  Proof.
    intros X B Ev. destruct e as [e|i|ord]; cbn.
    - apply (Bounded_step od idue k); auto. apply X.
    - destruct B as [B1 B2]. constructor; auto.
    - apply fold_inv.
      + destruct B as [B1 B2]. constructor; auto.
      + intros t r Hr Bt. apply Bounded_force_renew; auto.
        apply In_in_order, revoked_certs_spec in Hr as (Hr & _).
        apply (b_names k (core x) B r); [apply InSt_cache; auto | cbn; auto].
  Qed.

  (** * statuses *)
  Lemma rev_core_sound x s' :
    c_rev_core (xobserve x) (xobserve (XState s' (prune (rev x) (cache s')))) = true.
  Proof.
    unfold c_rev_core. cbn [xo xo_rev XModel.xobserve core rev]. apply andb_true_iff; split; apply forallb_forall; intros i Hi.
    - apply In_sort_by, In_prune in Hi as [H1 H2].
      rewrite mem_nat_sort. cbn [o_cache Model.observe]. rewrite has_id_sort, H2.
      rewrite (proj2 (mem_nat_In i (rev x)) H1). reflexivity.
    - apply In_sort_by in Hi. rewrite mem_nat_sort. cbn [o_cache Model.observe]. rewrite has_id_sort.
      destruct (has_id i (cache s')) eqn:H; [|apply orb_true_r].
      rewrite (proj2 (mem_nat_In i _)); [reflexivity|]. apply In_prune; auto.
  Qed.

  Lemma obs_flagged_obs x c : obs_flagged (xobserve x) c = flagged (rev x) c.
  Proof. unfold obs_flagged, flagged. cbn. apply mem_nat_sort. Qed.

  Lemma In_obs_revoked x c : In c (obs_revoked (xobserve x)) <-> In c (revoked_certs x).
  Proof.
    unfold obs_revoked, revoked_certs. rewrite !filter_In. cbn [xo XModel.xobserve o_cache Model.observe].
    rewrite In_sort_by, obs_flagged_obs. tauto.
  Qed.

  (** * a revocation *)
  Lemma revoke_sound x i : c_revoke i (xobserve x) (xobserve (xstep x (Revoke i))) = true.
  Proof.
    unfold c_revoke. apply andb_true_iff; split.
    - cbn. apply unchanged_same; reflexivity.
    - apply forallb_forall. intros j _. cbn [xo xo_rev XModel.xobserve XModel.xstep revoke core rev].
      rewrite !mem_nat_sort. cbn [o_cache Model.observe]. rewrite has_id_sort.
      destruct (has_id i (cache (core x))) eqn:H; cbn [andb].
      + destruct (mem_nat i (rev x)) eqn:M; cbn [negb].
        * destruct (Nat.eqb_spec j i) as [->|N]; [rewrite M; reflexivity|].
          rewrite andb_false_l, orb_false_r. apply eqb_reflx.
        * unfold mem_nat at 1. cbn [existsb]. fold (mem_nat j (rev x)).
          rewrite andb_true_r, orb_comm. apply eqb_reflx.
      + rewrite andb_false_r, orb_false_r. apply eqb_reflx.
  Qed.

  (** * an OCSP pass *)
  Section Ocsp.
    Variable x : xstate.
    Variable ord : list name.
    Hypothesis ID : idue = false.
    Hypothesis X : XWF x.
    Hypothesis B : Bounded (core x).

    Let s0 := core x.
    Let x' := xstep x (OcspPass ord).
    Let s' := core x'.
    Let ob := observe s0.
    Let oa := observe s'.
    Let R := obs_revoked (xobserve x).

    Lemma W0 : WF (with_err s0 false).
    Proof. apply WF_with_err, X. Qed.

    Lemma HL : forall r, In r (in_order ord (revoked_certs x)) -> cid r < next (with_err s0 false).
    Proof. intros r Hr. apply (revoked_lt od x ord r X Hr). Qed.

    Lemma rel m : pass_rel idue (with_err s0 false) s' m.
    Proof. apply (fold_fr_rel od idue); auto using W0, HL. Qed.

    Lemma R_spec c : In c R -> In c (cache s0) /\ cman c = true /\ flagged (rev x) c = true /\ chead c < k.
    Proof.
      intros H. apply In_obs_revoked, revoked_certs_spec in H as (H1 & H2 & H3). repeat split; auto.
      apply (b_names k s0 B c); [apply InSt_cache; auto | cbn; auto].
    Qed.

    Lemma c11 : same_jobs oa ob && negb (o_err oa) = true.
    Proof.
      destruct (ocsp_pass_only_for_revoked od idue x ord 0 ID X) as (Ej & _ & Ee & _).
      apply andb_true_iff; split; [apply same_jobs_obs; exact Ej|].
      unfold oa. cbn [o_err Model.observe]. fold x' in Ee. fold s' in Ee. rewrite Ee. reflexivity.
    Qed.

    Lemma c12 : forallb (fun c => (cman c && obs_flagged (xobserve x) c) || mem_cert c (o_cache oa)) (o_cache ob) = true.
    Proof.
      apply forallb_observe_cache. intros c Hc. rewrite obs_flagged_obs.
      destruct (cman c && flagged (rev x) c) eqn:E; cbn [orb]; auto.
      apply mem_observe_cache. apply (ocsp_pass_keeps_unrevoked od idue x ord c X Hc E).
    Qed.

    Lemma c13 : forallb (fun c => locked_in ob (chead c) || negb (mem_cert c (o_cache oa))) R = true.
    Proof.
      apply forallb_forall. intros c Hc. apply R_spec in Hc as (H1 & H2 & H3 & _).
      unfold ob. rewrite locked_in_obs. destruct (lock_held (jobs s0) (chead c)) eqn:LK; cbn [orb]; auto.
      destruct (revoked_replaced_or_removed od idue x ord c ID X H1 H2 H3 LK) as (Out & _).
      unfold oa. rewrite (not_mem_obs k s' c Out). reflexivity.
    Qed.

    Lemma heads_pos n r : In r R -> chead r = n -> (0 <? heads_count n R) = true.
    Proof.
      intros Hr E. apply Nat.ltb_lt. unfold heads_count.
      assert (In r (filter (fun c => chead c =? n) R)) by (apply filter_In; split; auto; apply Nat.eqb_eq; auto).
      destruct (filter _ R); [contradiction|cbn; lia].
    Qed.

    Lemma heads_count_R n : heads_count n R = length (filter (fun c => chead c =? n) (revoked_certs x)).
    Proof.
      unfold heads_count, R, obs_revoked, revoked_certs. cbn [xo XModel.xobserve o_cache Model.observe].
      apply Permutation_length, perm_filter.
      assert (E : forall l, filter (fun c => cman c && obs_flagged (xobserve x) c) l =
                            filter (fun c => cman c && flagged (rev x) c) l).
      { intros l. apply filter_ext. intros c. rewrite obs_flagged_obs. reflexivity. }
      rewrite E. apply perm_filter, sort_by_perm.
    Qed.

    Lemma c14 : forallb (fun n => (oiss ob n <=? oiss oa n) && (ofl ob n <=? ofl oa n) &&
                                  (oiss oa n + ofl oa n <=? oiss ob n + ofl ob n + heads_count n R)) (U k) = true.
    Proof.
      apply forallb_U. intros n Hn. unfold ob, oa. rewrite !oiss_observe, !ofl_observe by exact Hn.
      destruct (rel n) as (_ & Ci & Cf & _). cbn [issued failed with_err] in Ci, Cf.
      rewrite (proj2 (Nat.leb_le _ _) Ci), (proj2 (Nat.leb_le _ _) Cf). cbn [andb].
      apply Nat.leb_le. rewrite heads_count_R.
      apply (ocsp_pass_once_per_revoked od idue x ord n).
    Qed.

    Lemma fresh_not_in_obs i : next s0 <= i -> has_id i (certs_of_obs k (observe s0)) = false.
    Proof.
      intros Li. apply has_id_false. intros y Hy E. apply certs_of_obs_InSt in Hy.
      apply (wf_lt od s0 (xwf_core od x X)) in Hy. lia.
    Qed.

    Lemma c15 : forallb (fun n => opt_cert_eqb (ost oa n) (ost ob n) ||
                        match ost oa n with
                        | Some c => (chead c =? n) && cman c && negb (has_id (cid c) (certs_of_obs k ob)) &&
                                    (oiss ob n <? oiss oa n) && list_nat_eqb (crest c) [] && Bool.eqb (cdue c) idue
                        | None => false
                        end) (U k) = true.
    Proof.
      apply forallb_U. intros n Hn. unfold ob, oa. rewrite !ost_observe, !oiss_observe by exact Hn.
      destruct (rel n) as (_ & _ & _ & _ & [[S1 _]|(_ & Lt & i & Li & _ & S1 & _)]); cbn [store issued next with_err] in *.
      - rewrite S1, opt_cert_eqb_refl. reflexivity.
      - rewrite S1. cbn [chead cman cid crest cdue]. rewrite Nat.eqb_refl.
        rewrite (fresh_not_in_obs i Li). rewrite (proj2 (Nat.ltb_lt _ _) Lt). cbn.
        rewrite eqb_reflx. apply orb_true_r.
    Qed.

    Lemma c16 : forallb (fun c => mem_cert c (o_cache ob) ||
                        (negb (has_id (cid c) (certs_of_obs k ob)) && (oiss ob (chead c) <? oiss oa (chead c)) &&
                         cman c && list_nat_eqb (crest c) [] && Bool.eqb (cdue c) idue)) (o_cache oa) = true.
    Proof.
      apply forallb_observe_cache. intros c Hc. unfold s', x' in Hc. cbn [XModel.xstep ocsp_pass core] in Hc.
      apply fold_fr_added in Hc as [Hc|(i & r & Li & -> & Hr & Lt)].
      - cbn [cache with_err] in Hc. unfold ob. rewrite (proj2 (mem_observe_cache k s0 c) Hc). reflexivity.
      - cbn [next issued with_err] in Li, Lt. cbn [chead cman cid crest cdue].
        apply In_in_order, In_obs_revoked, R_spec in Hr as (_ & _ & _ & Hk).
        unfold ob, oa. rewrite !oiss_observe by exact Hk.
        rewrite (fresh_not_in_obs i Li). unfold s', x', s0. cbn [XModel.xstep ocsp_pass core].
        rewrite (proj2 (Nat.ltb_lt _ _) Lt). cbn.
        rewrite eqb_reflx. apply orb_true_r.
    Qed.

    Lemma c17 : forallb (fun c => locked_in ob (chead c) || negb (ofl oa (chead c) =? ofl ob (chead c)) ||
                        match ost ob (chead c), ost oa (chead c) with
                        | None, _ => true
                        | Some _, Some st => mem_cert st (o_cache oa) && negb (has_id (cid st) (certs_of_obs k ob))
                        | Some _, None => false
                        end) R = true.
    Proof.
      apply forallb_forall. intros c Hc. pose proof Hc as Hc0. apply R_spec in Hc as (H1 & H2 & H3 & Hk).
      unfold ob, oa. rewrite locked_in_obs. destruct (lock_held (jobs s0) (chead c)) eqn:LK; cbn [orb]; auto.
      rewrite !ofl_observe, !ost_observe by exact Hk.
      destruct (stored (store s0) (chead c)) as [st0|] eqn:S0; [|apply orb_true_r].
      destruct (is_failing s0 (chead c)) eqn:F.
      - (* the forced renewal fails: a failure is recorded *)
        assert (Lt : cnt (failed (with_err s0 false)) (chead c) < cnt (failed s') (chead c)).
        { apply (fold_fr_fails od idue); auto using W0, HL.
          - apply In_in_order, In_obs_revoked; auto.
          - change (stored (store s0) (chead c) <> None). rewrite S0; discriminate. }
        cbn [failed with_err] in Lt.
        destruct (Nat.eqb_spec (cnt (failed s') (chead c)) (cnt (failed s0) (chead c))); [lia|reflexivity].
      - destruct (revoked_replaced_or_removed od idue x ord c ID X H1 H2 H3 LK) as (_ & _ & _ & K).
        destruct K as (N & SN & CN & LN & _); [exact F | fold s0; rewrite S0; discriminate |].
        fold x' in SN, CN. fold s' in SN, CN. rewrite SN.
        rewrite (proj2 (mem_observe_cache k s' N) CN). rewrite (fresh_not_in_obs (cid N) LN).
        apply orb_true_r.
    Qed.

    Lemma c18 : forallb (fun n => (ofl oa n =? ofl ob n) || opt_cert_eqb (ost oa n) (ost ob n)) (U k) = true.
    Proof.
      apply forallb_U. intros n Hn. unfold ob, oa. rewrite !ofl_observe, !ost_observe by exact Hn.
      destruct (rel n) as (_ & _ & Cf & Ff & St); cbn [store issued failed next with_err] in *.
      destruct (Nat.eqb_spec (cnt (failed s') n) (cnt (failed s0) n)) as [E|E]; [reflexivity|].
      assert (Fl : is_failing (with_err s0 false) n = true) by (apply Ff; lia).
      destruct St as [[S1 _]|(NF & _)]; [|congruence].
      rewrite S1, opt_cert_eqb_refl. reflexivity.
    Qed.

    Theorem ocsp_sound : forallb (fun b => b) (ocsp_clauses idue k (xobserve x) (xobserve x')) = true.
    Proof.
      unfold ocsp_clauses. cbn [forallb].
      change (xo (xobserve x)) with ob. change (xo (xobserve x')) with oa.
      change (obs_revoked (xobserve x)) with R.
      rewrite c11, c12, c13, c14, c15, c16, c17, c18.
      unfold oa. rewrite consistent_observe. cbn [andb]. rewrite andb_true_r.
      apply (rev_core_sound x s').
    Qed.
  End Ocsp.

  (** * every event *)
  Theorem xspec_step_sound x e pend :
    idue = false -> XWF x -> Bounded (core x) -> xev_ok e -> pend_equiv pend (passes (core x)) ->
    xspec_step od idue k pend e (xobserve x) (xobserve (xstep x e)) = true.
  Proof.
    intros ID X B Ev P. unfold xspec_step, xclauses. destruct e as [e|i|ord].
    - apply forallb_app_true.
      + apply (spec_step_sound od idue k (core x) e pend); auto. apply X.
      + cbn [forallb]. rewrite andb_true_r. apply (rev_core_sound x (step od idue (core x) e)).
    - cbn [forallb]. rewrite andb_true_r. apply revoke_sound.
    - apply ocsp_sound; auto.
  Qed.

  Fixpoint xtrace (x : xstate) (h : list xevent) : list (xevent * xobs) :=
    match h with
    | [] => []
    | e :: r => (e, xobserve (xstep x e)) :: xtrace (xstep x e) r
    end.

  Lemma xpend_after_equiv x e pend :
    XWF x -> Bounded (core x) -> pend_equiv pend (passes (core x)) ->
    pend_equiv (xpend_after od k pend e (xobserve x)) (passes (core (xstep x e))).
  Proof.
    intros X B P. destruct e as [e|i|ord]; cbn [xpend_after XModel.xstep core].
    - apply pend_after_equiv; auto.
    - exact P.
    - unfold ocsp_pass. cbn [core].
      destruct (fold_fr_frame idue (in_order ord (revoked_certs x)) (with_err (core x) false)) as (_ & -> & _).
      exact P.
  Qed.

  Theorem xspec_run_sound x h pend :
    idue = false -> XWF x -> Bounded (core x) -> Forall xev_ok h -> pend_equiv pend (passes (core x)) ->
    xspec_run od idue k pend (xobserve x) (xtrace x h) = true.
  Proof.
    intros ID. revert x pend; induction h as [|e r IH]; cbn [xtrace xspec_run]; intros x pend X B Ev P; auto.
    pose proof (Forall_inv Ev) as E1. pose proof (Forall_inv_tail Ev) as E2.
    rewrite xspec_step_sound by auto. cbn [andb].
    apply IH; auto using XWF_xstep, Bounded_xstep, xpend_after_equiv.
  Qed.
End XSound.

(** * Agreement with the model implies the specification *)
From CM Require Import Lib.Wire Maintain.Check.

Lemma list_eqb_eq {A} (eqb : A -> A -> bool) :
  (forall x y, eqb x y = true -> x = y) -> forall a b, list_eqb eqb a b = true -> a = b.
Proof.
  intros H a. induction a as [|x a IH]; intros [|y b]; cbn; try discriminate; auto.
  intros E. apply andb_true_iff in E as [E1 E2]. f_equal; auto.
Qed.

Lemma obs_eqb_eq a b : obs_eqb a b = true -> a = b.
Proof.
  unfold obs_eqb. rewrite !andb_true_iff. intros (((((((A1 & A2) & A3) & A4) & A5) & A6) & A7) & A8).
  destruct a, b; cbn in *. f_equal.
  - revert A1. apply list_eqb_eq. intros x y; apply cert_eqb_eq.
  - revert A2. apply list_eqb_eq. intros x y; apply opt_cert_eqb_eq.
  - revert A3. apply list_eqb_eq. intros x y; apply list_nat_eqb_eq.
  - revert A4. apply list_eqb_eq. intros [x|] [y|]; cbn; try discriminate; auto.
    intros E; apply Nat.eqb_eq in E; subst; auto.
  - apply list_nat_eqb_eq; auto.
  - apply list_nat_eqb_eq; auto.
  - apply list_nat_eqb_eq; auto.
  - apply eqb_prop; auto.
Qed.

Lemma xobs_eqb_eq a b : xobs_eqb a b = true -> a = b.
Proof.
  unfold xobs_eqb. intros H. apply andb_true_iff in H as [H1 H2].
  apply obs_eqb_eq in H1. apply list_nat_eqb_eq in H2. destruct a, b; cbn in *; subst; reflexivity.
Qed.

Lemma xreplay_none_trace od idue k s i h :
  replay od idue k s i h = None -> h = xtrace od idue k s (map fst h).
Proof.
  revert s i; induction h as [|[e o] r IH]; cbn; intros s i H; auto.
  destruct (xobs_eqb (xobserve k (xstep od idue s e)) o) eqn:E; [|discriminate].
  apply xobs_eqb_eq in E. subst o. f_equal. eapply IH; eauto.
Qed.

(** without an OCSP pass in the history the hypothesis on the issuer is not needed: the core
    theorems cover that; for simplicity the statement is for the issuer the theorems about OCSP
    passes assume, which is what [case_ok] together with the generator ensures for every case
    with an OCSP pass *)
Theorem agreeing_case_satisfies_spec c :
  c_idue c = false ->
  model_agrees c = true ->
  Forall (xev_ok (c_k c)) (map fst (c_hist c)) ->
  xspec_run (od_of c) (c_idue c) (c_k c) [] (c_obs0 c) (c_hist c) = true.
Proof.
  unfold model_agrees, first_diff. intros ID H Ev. apply andb_true_iff in H as [H H2].
  apply andb_true_iff in H as [H _]. apply andb_true_iff in H as [Wb _].
  destruct (xobs_eqb (xobserve (c_k c) (xinit_of c)) (c_obs0 c)) eqn:E0; [|discriminate].
  apply xobs_eqb_eq in E0.
  destruct (replay (od_of c) (c_idue c) (c_k c) (xinit_of c) 1 (c_hist c)) eqn:R; [discriminate|].
  apply xreplay_none_trace in R. rewrite <- E0, R.
  apply xspec_run_sound; auto.
  - constructor; cbn.
    + eapply wf_b_sound; eauto.
    + intros i [].
    + constructor.
  - apply (wf_b_bounded (od_of c)); auto.
  - cbn. constructor.
Qed.
