(** C05 — revocation ([Maintain.XModel]): the clause "... the old certificate keeps being served
    as long as it has not been revoked", proved of the extended model for every state, every
    history of core events, revocations and OCSP passes, and every order in which an OCSP pass
    takes the revoked certificates. *)
From Coq Require Import List Arith Bool Lia.
From CM Require Import Maintain.Model Maintain.Spec Maintain.XModel Maintain.Base Maintain.Inv Maintain.Proofs.
Import ListNotations.

Lemma mem_nat_In i l : mem_nat i l = true <-> In i l.
Proof.
  unfold mem_nat. rewrite existsb_exists. split.
  - intros (x & H & E). apply Nat.eqb_eq in E. subst; auto.
  - intros H. exists i; split; auto. apply Nat.eqb_refl.
Qed.

Lemma In_prune i rv ca : In i (prune rv ca) <-> In i rv /\ has_id i ca = true.
Proof. unfold prune. apply filter_In. Qed.

Lemma NoDup_filter {A} (f : A -> bool) l : NoDup l -> NoDup (filter f l).
Proof.
  induction 1; cbn; [constructor|]. destruct (f x); auto. constructor; auto.
  rewrite filter_In; tauto.
Qed.

Lemma In_in_order ord l c : In c (in_order ord l) <-> In c l.
Proof.
  unfold in_order. rewrite in_app_iff, in_flat_map. split.
  - intros [(n & _ & H)|H]; apply filter_In in H; tauto.
  - intros H. destruct (mem_nat (chead c) ord) eqn:M.
    + left. exists (chead c). split.
      * apply nodup_In. apply mem_nat_In; auto.
      * apply filter_In; split; auto. apply Nat.eqb_refl.
    + right. apply filter_In; split; auto. rewrite M; reflexivity.
Qed.

Lemma fold_inv {A B} (f : A -> B -> A) (P : A -> Prop) (l : list B) (a : A) :
  P a -> (forall a b, In b l -> P a -> P (f a b)) -> P (fold_left f l a).
Proof.
  revert a; induction l as [|b r IH]; cbn; intros a Pa H; [exact Pa|].
  apply IH; [apply H; auto | intros; apply H; auto].
Qed.

Section XProofs.
  Variable od : name -> bool.
  Variable idue : bool.

  Notation step := (step od idue).
  Notation eligible := (eligible od).
  Notation WF := (WF od).
  Notation new_cert := (new_cert idue).
  Notation force_renew := (force_renew idue).
  Notation xstep := (xstep od idue).
  Notation xrun := (xrun od idue).

  Lemma xrun_cons x e h : xrun x (e :: h) = xrun (xstep x e) h.
  Proof. reflexivity. Qed.
  Lemma xrun_app x h1 h2 : xrun x (h1 ++ h2) = xrun (xrun x h1) h2.
  Proof. unfold XModel.xrun; apply fold_left_app. Qed.

  (** * One forced renewal *)

  (** what it does to storage and the issuer log: nothing (lock busy / nothing stored), a
      failed attempt, or one issuance for the certificate's first name *)
  Lemma fr_cases s c :
    let n := chead c in
    let s' := force_renew s c in
    jobs s' = jobs s /\ passes s' = passes s /\ failing s' = failing s /\ lasterr s' = lasterr s /\
    ((s' = s /\ lock_held (jobs s) n = true) \/
     (lock_held (jobs s) n = false /\ stored (store s) n = None /\
      s' = with_cache s (cache_remove c (cache s))) \/
     (lock_held (jobs s) n = false /\ stored (store s) n <> None /\ is_failing s n = true /\
      s' = with_cache (with_failed s (n :: failed s)) (cache_remove c (cache s))) \/
     (lock_held (jobs s) n = false /\ stored (store s) n <> None /\ is_failing s n = false /\
      s' = with_cache (issue idue s n) (cache_replace c (new_cert s n) (cache s)))).
  Proof.
    cbn zeta. unfold XModel.force_renew.
    destruct (lock_held (jobs s) (chead c)) eqn:L; [repeat split; auto|].
    destruct (stored (store s) (chead c)) as [st|] eqn:S.
    - destruct (is_failing s (chead c)) eqn:F.
      + repeat split; auto. right; right; left. repeat split; auto; congruence.
      + repeat split; auto. right; right; right. repeat split; auto; try congruence.
        f_equal. unfold reload_one. cbn [store issue]. rewrite stored_cons_eq. reflexivity.
    - repeat split; auto.
  Qed.

  Lemma WF_issue_forced s n : idue = false -> WF s -> WF (issue idue s n).
  Proof.
    intros ID W. eapply (WF_new_bundle od s (new_cert s n) n); eauto; try reflexivity.
  Qed.

  Lemma WF_cache_remove s c : WF s -> WF (with_cache s (cache_remove c (cache s))).
  Proof.
    intros W. apply WF_with_cache; auto. intros x H. apply In_cache_remove in H as [H _].
    apply InSt_cache; auto.
  Qed.

  Lemma WF_force_renew s c : idue = false -> WF s -> WF (force_renew s c).
  Proof.
    intros ID W. destruct (fr_cases s c) as (_ & _ & _ & _ & [[E _]|[(_ & _ & E)|[(_ & _ & _ & E)|(_ & _ & _ & E)]]]);
      cbn zeta in E; rewrite E; auto.
    - apply WF_cache_remove; auto.
    - apply (WF_cache_remove (with_failed s _) c). apply WF_with_failed; auto.
    - pose proof (WF_issue_forced s (chead c) ID W) as W1.
      apply WF_with_cache; auto. intros x H. unfold cache_replace in H.
      apply In_cache_add in H as [H| ->].
      + apply In_cache_remove in H as [H _]. apply InSt_cache. exact H.
      + apply InSt_store. cbn. auto.
  Qed.

  (** the cache after one forced renewal *)
  Lemma fr_keeps s c x : In x (cache s) -> cid x <> cid c -> In x (cache (force_renew s c)).
  Proof.
    intros H N. destruct (fr_cases s c) as (_ & _ & _ & _ & [[E _]|[(_ & _ & E)|[(_ & _ & _ & E)|(_ & _ & _ & E)]]]);
      cbn zeta in E; rewrite E; comp; auto.
    - apply In_cache_remove; auto.
    - apply In_cache_remove; auto.
    - unfold cache_replace. apply In_cache_add_l, In_cache_remove; auto.
  Qed.

  Lemma fr_cache_sub s c x :
    In x (cache (force_renew s c)) ->
    In x (cache s) \/ (x = new_cert s (chead c) /\ issued (force_renew s c) = chead c :: issued s /\
                       store (force_renew s c) = (chead c, x) :: store s).
  Proof.
    destruct (fr_cases s c) as (_ & _ & _ & _ & [[E _]|[(_ & _ & E)|[(_ & _ & _ & E)|(_ & _ & _ & E)]]]);
      cbn zeta in E; rewrite E; comp; auto.
    - intros H; apply In_cache_remove in H; tauto.
    - intros H; apply In_cache_remove in H; tauto.
    - unfold cache_replace. intros H. apply In_cache_add in H as [H| ->].
      + apply In_cache_remove in H; tauto.
      + right. repeat split; reflexivity.
  Qed.

  Lemma fr_removed s c :
    WF s -> InSt s c -> lock_held (jobs s) (chead c) = false -> ~ In c (cache (force_renew s c)).
  Proof.
    intros W I L. destruct (fr_cases s c) as (_ & _ & _ & _ & [[_ E]|[(_ & _ & E)|[(_ & _ & _ & E)|(_ & _ & _ & E)]]]);
      cbn zeta in E; try congruence; rewrite E; comp.
    - intros H; apply In_cache_remove in H as [_ H]; auto.
    - intros H; apply In_cache_remove in H as [_ H]; auto.
    - unfold cache_replace. intros H. apply In_cache_add in H as [H|H].
      + apply In_cache_remove in H as [_ H]; auto.
      + apply (new_cert_fresh_id od idue s (chead c) c W I). rewrite H; reflexivity.
  Qed.

  Lemma fr_next s c : next s <= next (force_renew s c).
  Proof.
    destruct (fr_cases s c) as (_ & _ & _ & _ & [[E _]|[(_ & _ & E)|[(_ & _ & _ & E)|(_ & _ & _ & E)]]]);
      cbn zeta in E; rewrite E; cbn; lia.
  Qed.

  (** storage, per name, after one forced renewal *)
  Lemma fr_store s c m :
    WF s ->
    let s' := force_renew s c in
    (stored (store s') m = stored (store s) m /\ cnt (issued s') m = cnt (issued s) m /\
     (cnt (failed s') m = cnt (failed s) m \/
      (m = chead c /\ is_failing s m = true /\ cnt (failed s') m = S (cnt (failed s) m)))) \/
    (m = chead c /\ is_failing s m = false /\ lock_held (jobs s) m = false /\ stored (store s) m <> None /\
     stored (store s') m = Some (new_cert s m) /\ cnt (issued s') m = S (cnt (issued s) m) /\
     cnt (failed s') m = cnt (failed s) m /\ In (new_cert s m) (cache s') /\ next s' = S (next s)).
  Proof.
    intros W. cbn zeta.
    destruct (fr_cases s c) as (_ & _ & _ & _ & [[E _]|[(_ & _ & E)|[(_ & _ & F & E)|(L & S & F & E)]]]);
      cbn zeta in E; rewrite E; comp; auto.
    - destruct (Nat.eq_dec (chead c) m) as [<-|N].
      + left. repeat split; auto. right. repeat split; auto. unfold cnt; cbn.
        destruct (Nat.eq_dec (chead c) (chead c)); [reflexivity|contradiction].
      + left. repeat split; auto. left. unfold cnt; cbn. destruct (Nat.eq_dec (chead c) m); [contradiction|reflexivity].
    - destruct (Nat.eq_dec (chead c) m) as [<-|N].
      + right. cbn. rewrite stored_cons_eq. unfold cnt; cbn.
        destruct (Nat.eq_dec (chead c) (chead c)); [|contradiction].
        repeat split; auto. unfold cache_replace. apply In_cache_add_new.
        intros x Hx Ex. exfalso. apply In_cache_remove in Hx as [Hx _].
        apply (new_cert_fresh_id od idue s (chead c) x W (InSt_cache s x Hx)). exact Ex.
      + left. cbn. rewrite stored_cons_neq by auto. unfold cnt; cbn.
        destruct (Nat.eq_dec (chead c) m); [contradiction|]. auto.
  Qed.

  Lemma fr_is_failing s c m : is_failing (force_renew s c) m = is_failing s m.
  Proof. unfold is_failing. destruct (fr_cases s c) as (_ & _ & -> & _). reflexivity. Qed.

  Lemma fr_lock s c m : lock_held (jobs (force_renew s c)) m = lock_held (jobs s) m.
  Proof. destruct (fr_cases s c) as (-> & _). reflexivity. Qed.

  (** * An OCSP pass: a fold of forced renewals over the revoked certificates, in any order *)
  Notation fold_fr := (fold_left force_renew).

  Lemma WF_fold_fr L s : idue = false -> WF s -> WF (fold_fr L s).
  Proof. intros ID W. apply fold_inv; auto. intros; apply WF_force_renew; auto. Qed.

  Lemma fold_fr_frame L s :
    jobs (fold_fr L s) = jobs s /\ passes (fold_fr L s) = passes s /\ failing (fold_fr L s) = failing s /\
    lasterr (fold_fr L s) = lasterr s /\ next s <= next (fold_fr L s).
  Proof.
    apply (fold_inv force_renew (fun t => jobs t = jobs s /\ passes t = passes s /\ failing t = failing s /\
                                          lasterr t = lasterr s /\ next s <= next t)); auto.
    intros t c _ (A & B & C & D & E). destruct (fr_cases t c) as (-> & -> & -> & -> & _).
    pose proof (fr_next t c). repeat split; auto; lia.
  Qed.

  (** a certificate that is not among the revoked ones stays in the cache *)
  Lemma fold_fr_keeps L s x :
    In x (cache s) -> (forall c, In c L -> cid x <> cid c) -> In x (cache (fold_fr L s)).
  Proof.
    intros H N. apply fold_inv; auto. intros t c Hc Ht. apply fr_keeps; auto.
  Qed.

  (** a revoked one whose lock is free is taken out, and does not come back *)
  Lemma fold_fr_stays_out L s c :
    idue = false -> WF s -> cid c < next s -> ~ In c (cache s) -> ~ In c (cache (fold_fr L s)).
  Proof.
    intros ID W Lt N.
    assert (K : WF (fold_fr L s) /\ cid c < next (fold_fr L s) /\ ~ In c (cache (fold_fr L s))); [|tauto].
    apply (fold_inv force_renew (fun t => WF t /\ cid c < next t /\ ~ In c (cache t))); auto.
    intros t r _ (Wt & Lt' & Nt). split; [apply WF_force_renew; auto|].
    pose proof (fr_next t r) as Nx. split; [lia|].
    intros H. apply fr_cache_sub in H as [H|(E & _)]; [contradiction|].
    subst c. cbn in Lt'. lia.
  Qed.

  Lemma fold_fr_removed L s c :
    idue = false -> WF s -> (forall r, In r L -> cid r < next s) -> In c L ->
    lock_held (jobs s) (chead c) = false -> ~ In c (cache (fold_fr L s)).
  Proof.
    intros ID W HL Hc LF.
    apply in_split in Hc as (L1 & L2 & ->). rewrite fold_left_app. cbn [fold_left].
    set (t := fold_fr L1 s).
    assert (Wt : WF t) by (apply WF_fold_fr; auto).
    destruct (fold_fr_frame L1 s) as (Ej & _ & _ & _ & En). fold t in Ej, En.
    assert (Lt : cid c < next s) by (apply HL; rewrite in_app_iff; cbn; auto).
    apply fold_fr_stays_out; auto.
    - apply WF_force_renew; auto.
    - pose proof (fr_next t c) as Nx. lia.
    - destruct (mem_cert c (cache t)) eqn:M.
      + apply mem_cert_In in M. apply fr_removed; auto using InSt_cache. rewrite Ej; auto.
      + assert (Nt : ~ In c (cache t)) by (rewrite <- mem_cert_In, M; discriminate).
        intros H. apply fr_cache_sub in H as [H|(E & _)]; [contradiction|].
        rewrite E in Lt. cbn in Lt. lia.
  Qed.

  (** per name: what the whole pass does to storage and the issuer log *)
  Definition pass_rel (s t : state) (m : name) : Prop :=
    next s <= next t /\ cnt (issued s) m <= cnt (issued t) m /\ cnt (failed s) m <= cnt (failed t) m /\
    (cnt (failed s) m < cnt (failed t) m -> is_failing s m = true) /\
    ((stored (store t) m = stored (store s) m /\ cnt (issued t) m = cnt (issued s) m) \/
     (is_failing s m = false /\ cnt (issued s) m < cnt (issued t) m /\
      exists i, next s <= i /\ i < next t /\ stored (store t) m = Some (Cert i m [] idue true) /\
                In (Cert i m [] idue true) (cache t))).

  Lemma fold_fr_rel L s m :
    idue = false -> WF s -> (forall r, In r L -> cid r < next s) -> pass_rel s (fold_fr L s) m.
  Proof.
    intros ID W HL.
    assert (K : WF (fold_fr L s) /\ failing (fold_fr L s) = failing s /\ pass_rel s (fold_fr L s) m); [|tauto].
    apply (fold_inv force_renew (fun t => WF t /\ failing t = failing s /\ pass_rel s t m)).
    - split; auto. split; auto. unfold pass_rel. repeat split; auto; try lia.
    - intros t r Hr (Wt & Fl & Nx & Ci & Cf & Ff & St).
      split; [apply WF_force_renew; auto|].
      split; [destruct (fr_cases t r) as (_ & _ & -> & _); auto|].
      pose proof (fr_next t r) as Nx'.
      assert (Fs : is_failing t m = is_failing s m) by (unfold is_failing; rewrite Fl; reflexivity).
      assert (Lr : cid r < next s) by auto.
      destruct (fr_store t r m Wt) as [(S1 & I1 & F1)|(Em & Fm & _ & _ & S1 & I1 & F1 & C1 & N1)].
      + unfold pass_rel. rewrite S1, I1.
        split; [lia|]. split; [lia|].
        split; [destruct F1 as [->|(_ & _ & ->)]; lia|].
        split.
        * intros Lt. destruct F1 as [F1|(_ & F1 & _)]; [rewrite F1 in Lt; auto | rewrite <- Fs; auto].
        * destruct St as [St|(Fm & Lt & i & Li & Hi & Si & Ci')]; [left; auto|].
          right. repeat split; auto. exists i. repeat split; auto; try lia.
          apply fr_keeps; auto. cbn. lia.
      + unfold pass_rel. rewrite S1, I1, F1.
        split; [lia|]. split; [lia|]. split; [lia|]. split; [auto|].
        right. split; [rewrite <- Fs; auto|]. split; [lia|].
        exists (next t). repeat split; auto; lia.
  Qed.

  Lemma fold_fr_none L s m :
    idue = false -> WF s -> stored (store s) m = None ->
    stored (store (fold_fr L s)) m = None /\ cnt (issued (fold_fr L s)) m = cnt (issued s) m.
  Proof.
    intros ID W N.
    assert (K : WF (fold_fr L s) /\ stored (store (fold_fr L s)) m = None /\
                cnt (issued (fold_fr L s)) m = cnt (issued s) m); [|tauto].
    apply (fold_inv force_renew (fun t => WF t /\ stored (store t) m = None /\ cnt (issued t) m = cnt (issued s) m)); auto.
    intros t r _ (Wt & St & Ct). split; [apply WF_force_renew; auto|].
    destruct (fr_store t r m Wt) as [(S1 & I1 & _)|(_ & _ & _ & S1 & _)]; [|contradiction].
    rewrite S1, I1; auto.
  Qed.

  (** the issuer is only contacted for the first names of the revoked certificates *)
  Lemma fold_fr_only_revoked L s m :
    idue = false -> WF s ->
    (cnt (issued (fold_fr L s)) m = cnt (issued s) m /\ cnt (failed (fold_fr L s)) m = cnt (failed s) m) \/
    exists r, In r L /\ chead r = m.
  Proof.
    intros ID W.
    assert (K : WF (fold_fr L s) /\
                ((cnt (issued (fold_fr L s)) m = cnt (issued s) m /\ cnt (failed (fold_fr L s)) m = cnt (failed s) m) \/
                 exists r, In r L /\ chead r = m)); [|tauto].
    apply (fold_inv force_renew (fun t => WF t /\ ((cnt (issued t) m = cnt (issued s) m /\
                                            cnt (failed t) m = cnt (failed s) m) \/ exists r, In r L /\ chead r = m))); auto.
    intros t r Hr (Wt & [[A B]|E]); (split; [apply WF_force_renew; auto|]); [|right; exact E].
    destruct (fr_store t r m Wt) as [(_ & I1 & [F1|(Em & _)])|(Em & _)]; [left; rewrite I1, F1; auto| |]; right; eauto.
  Qed.

  (** a revoked certificate whose issuer works and that has something stored gets its replacement *)
  Lemma fold_fr_issues L s c :
    idue = false -> WF s -> (forall r, In r L -> cid r < next s) -> In c L ->
    lock_held (jobs s) (chead c) = false -> is_failing s (chead c) = false ->
    stored (store s) (chead c) <> None ->
    cnt (issued s) (chead c) < cnt (issued (fold_fr L s)) (chead c).
  Proof.
    intros ID W HL Hc LF NF SS. set (n := chead c) in *.
    apply in_split in Hc as (L1 & L2 & ->). rewrite fold_left_app. cbn [fold_left].
    set (t := fold_fr L1 s).
    assert (Wt : WF t) by (apply WF_fold_fr; auto).
    destruct (fold_fr_frame L1 s) as (Ej & _ & Ef & _ & Nt). fold t in Ej, Ef, Nt.
    assert (R1 : pass_rel s t n) by (apply fold_fr_rel; auto; intros; apply HL; rewrite in_app_iff; auto).
    destruct R1 as (_ & C1 & _ & _ & S1).
    assert (St : stored (store t) n <> None).
    { destruct S1 as [[-> _]|(_ & _ & i & _ & _ & -> & _)]; [auto|discriminate]. }
    assert (C2 : cnt (issued (force_renew t c)) n = S (cnt (issued t) n)).
    { destruct (fr_cases t c) as (_ & _ & _ & _ & [[_ E]|[(_ & E & _)|[(_ & _ & E & _)|(_ & _ & _ & E)]]]);
        fold n in E.
      - rewrite Ej in E. congruence.
      - contradiction.
      - unfold is_failing in E, NF. rewrite Ef in E. congruence.
      - cbn zeta in E. rewrite E. unfold cnt. cbn. destruct (Nat.eq_dec n n); [reflexivity|contradiction]. }
    assert (W2 : WF (force_renew t c)) by (apply WF_force_renew; auto).
    pose proof (fr_next t c) as N2.
    assert (R2 : pass_rel (force_renew t c) (fold_fr L2 (force_renew t c)) n).
    { apply fold_fr_rel; auto. intros r Hr.
      assert (cid r < next s) by (apply HL; rewrite in_app_iff; cbn; auto). lia. }
    destruct R2 as (_ & C3 & _). lia.
  Qed.

  (** * Well-formed extended states *)
  Record XWF (x : xstate) : Prop := {
    xwf_core : WF (core x);
    xwf_rev : forall i, In i (rev x) -> has_id i (cache (core x)) = true;
    xwf_nodup : NoDup (rev x)
  }.

  Lemma XWF_pruned s rv : WF s -> NoDup rv -> XWF (XState s (prune rv (cache s))).
  Proof.
    intros W N. constructor; cbn; auto.
    - intros i H. apply In_prune in H; tauto.
    - apply NoDup_filter; auto.
  Qed.

  Lemma revoked_certs_spec x r :
    In r (revoked_certs x) <-> In r (cache (core x)) /\ cman r = true /\ flagged (rev x) r = true.
  Proof. unfold revoked_certs. rewrite filter_In, andb_true_iff. tauto. Qed.

  Lemma revoked_lt x ord r : XWF x -> In r (in_order ord (revoked_certs x)) -> cid r < next (core x).
  Proof.
    intros [W _ _] H. apply In_in_order, revoked_certs_spec in H as (H & _).
    apply (wf_lt od _ W). apply InSt_cache; auto.
  Qed.

  Theorem XWF_xstep x e : idue = false -> XWF x -> XWF (xstep x e).
  Proof.
    intros ID X. destruct X as [W R N]. destruct e as [e|i|ord]; cbn.
    - apply XWF_pruned; auto. apply WF_step; auto.
    - unfold revoke. constructor; cbn.
      + apply WF_with_err; auto.
      + intros j. destruct (has_id i (cache (core x)) && negb (mem_nat i (rev x))) eqn:C; [|intros H; apply R; auto].
        apply andb_true_iff in C as [C _]. intros [<-|H]; [exact C | apply R; auto].
      + destruct (has_id i (cache (core x)) && negb (mem_nat i (rev x))) eqn:C; auto.
        apply andb_true_iff in C as [_ C]. apply negb_true_iff in C.
        constructor; auto. rewrite <- mem_nat_In, C. discriminate.
    - unfold ocsp_pass. apply XWF_pruned; auto. apply WF_fold_fr; auto. apply WF_with_err; auto.
  Qed.

  Theorem XWF_xrun x h : idue = false -> XWF x -> XWF (xrun x h).
  Proof.
    intros ID. revert x; induction h as [|e r IH]; cbn; intros x X; auto.
    apply IH, XWF_xstep; auto.
  Qed.

  (** * "keeps being served as long as it has not been revoked" *)

  (** an OCSP pass leaves every certificate that is not (managed and) revoked in the cache *)
  Theorem ocsp_pass_keeps_unrevoked x ord c :
    XWF x -> In c (cache (core x)) -> cman c && flagged (rev x) c = false ->
    In c (cache (core (xstep x (OcspPass ord)))).
  Proof.
    intros X Hc NF. cbn. apply fold_fr_keeps; [exact Hc|].
    intros r Hr E. apply In_in_order, revoked_certs_spec in Hr as (Hr & Mr & Fr).
    assert (c = r).
    { apply (wf_uniq od (core x) (xwf_core x X)); auto using InSt_cache. }
    subst r. rewrite Mr, Fr in NF. discriminate.
  Qed.

  Lemma flagged_prune rv ca c : flagged rv c = false -> flagged (prune rv ca) c = false.
  Proof.
    unfold flagged. intros F. destruct (mem_nat (cid c) (prune rv ca)) eqn:M; auto.
    apply mem_nat_In, In_prune in M as [M _]. apply mem_nat_In in M. congruence.
  Qed.

  (** a certificate that is not due (or unmanaged, or on-demand) and is never revoked stays in
      the cache through any history of maintenance passes, jobs, manage calls, external
      renewals, revocations of other certificates and OCSP passes *)
  Lemma xstep_keeps_unrevoked x e c :
    XWF x -> In c (cache (core x)) -> eligible c = false -> flagged (rev x) c = false ->
    e <> Revoke (cid c) ->
    In c (cache (core (xstep x e))) /\ flagged (rev (xstep x e)) c = false.
  Proof.
    intros X Hc El Fl Ne. destruct e as [e|i|ord].
    - cbn. split; [apply step_cache_keeps; auto; apply X | apply flagged_prune; auto].
    - cbn. split; auto. destruct (has_id i _ && _); auto.
      unfold flagged, mem_nat in *. cbn [existsb]. rewrite Fl.
      destruct (Nat.eqb_spec (cid c) i); [subst; congruence|reflexivity].
    - split; [apply ocsp_pass_keeps_unrevoked; auto; rewrite Fl; apply andb_false_r|].
      cbn. apply flagged_prune; auto.
  Qed.

  Theorem unrevoked_not_due_untouched x h c :
    idue = false -> XWF x -> In c (cache (core x)) -> eligible c = false -> flagged (rev x) c = false ->
    Forall (fun e => e <> Revoke (cid c)) h ->
    In c (cache (core (xrun x h))) /\
    (forall m, In m (cnames c) -> In c (resolve m (cache (core (xrun x h))))).
  Proof.
    intros ID X Hc El Fl NR.
    assert (K : In c (cache (core (xrun x h)))).
    { revert x X Hc Fl. induction h as [|e r IH]; cbn; intros x X Hc Fl; auto.
      pose proof (Forall_inv NR) as N1. pose proof (Forall_inv_tail NR) as N2.
      destruct (xstep_keeps_unrevoked x e c) as [A B]; auto.
      apply IH; auto. apply XWF_xstep; auto. }
    split; auto. intros m Hm. apply In_resolve; split; auto. apply has_name_In; auto.
  Qed.

  (** ** a failed renewal keeps the certificate in service — unless it is revoked *)
  Lemma keeps_serving_step s e c :
    WF s -> In c (cache s) -> stored (store s) (chead c) = Some c -> is_failing s (chead c) = true ->
    ~ touches_name (chead c) e ->
    In c (cache (step s e)) /\ stored (store (step s e)) (chead c) = Some c /\
    cnt (issued (step s e)) (chead c) = cnt (issued s) (chead c) /\
    is_failing (step s e) (chead c) = true.
  Proof.
    intros W Hc S F N1.
    assert (S1 : stored (store (step s e)) (chead c) = Some c /\
                 cnt (issued (step s e)) (chead c) = cnt (issued s) (chead c)).
    { destruct (step_store_cases od idue s e) as [(E1 & E2 & _)|[(m & rr & Ee & E2 & E1)|(m & E1 & E2 & _ & Fm & _)]];
        rewrite E1, E2.
      - auto.
      - split; auto. rewrite stored_cons_neq; auto. intros Em; subst m. apply N1. left; eauto.
      - assert (m <> chead c) by (intros Em; subst m; congruence).
        split; [rewrite stored_cons_neq; auto|]. unfold cnt; cbn.
        destruct (Nat.eq_dec m (chead c)); [contradiction|reflexivity]. }
    destruct S1 as [S1 C1].
    assert (Hc1 : In c (cache (step s e))).
    { destruct (mem_cert c (cache (step s e))) eqn:M; [apply mem_cert_In; auto|].
      exfalso. assert (Nin : ~ In c (cache (step s e))) by (rewrite <- mem_cert_In, M; discriminate).
      destruct (step_removal od idue s e c W Hc Nin) as (st & S2 & Ne & _).
      rewrite S1 in S2. injection S2 as <-. apply Ne; reflexivity. }
    repeat split; auto. apply is_failing_step; auto.
  Qed.

  Definition xtouches (c : cert) (e : xevent) : Prop :=
    match e with
    | Core e => touches_name (chead c) e
    | Revoke i => i = cid c
    | OcspPass _ => False
    end.

  Lemma xstep_keeps_serving x e c :
    idue = false -> XWF x -> In c (cache (core x)) -> stored (store (core x)) (chead c) = Some c ->
    is_failing (core x) (chead c) = true -> flagged (rev x) c = false -> ~ xtouches c e ->
    let x' := xstep x e in
    In c (cache (core x')) /\ stored (store (core x')) (chead c) = Some c /\
    cnt (issued (core x')) (chead c) = cnt (issued (core x)) (chead c) /\
    is_failing (core x') (chead c) = true /\ flagged (rev x') c = false.
  Proof.
    intros ID X Hc S F Fl NT. cbn zeta. destruct e as [e|i|ord].
    - cbn in NT. destruct (keeps_serving_step (core x) e c) as (A & B & C & D); auto; [apply X|].
      cbn. repeat split; auto. apply flagged_prune; auto.
    - cbn in NT. cbn. repeat split; auto. destruct (has_id i _ && _); auto.
      unfold flagged, mem_nat in *. cbn [existsb]. rewrite Fl.
      destruct (Nat.eqb_spec (cid c) i); [subst; congruence|reflexivity].
    - split; [apply ocsp_pass_keeps_unrevoked; auto; rewrite Fl; apply andb_false_r|].
      cbn. set (s0 := with_err (core x) false). set (L := in_order ord (revoked_certs x)).
      assert (W0 : WF s0) by (apply WF_with_err, X).
      assert (R : pass_rel s0 (fold_fr L s0) (chead c)).
      { apply fold_fr_rel; auto. intros r Hr. apply (revoked_lt x ord r X Hr). }
      destruct R as (_ & _ & _ & _ & [[R1 R2]|(R1 & _)]); [|unfold s0, is_failing in R1; cbn in R1; unfold is_failing in F; congruence].
      destruct (fold_fr_frame L s0) as (_ & _ & Ef & _).
      repeat split; auto.
      + rewrite R1. exact S.
      + unfold is_failing. rewrite Ef. exact F.
      + apply flagged_prune; auto.
  Qed.

  Theorem failed_renewal_keeps_serving_unless_revoked x h c :
    idue = false -> XWF x -> In c (cache (core x)) -> stored (store (core x)) (chead c) = Some c ->
    is_failing (core x) (chead c) = true -> flagged (rev x) c = false ->
    Forall (fun e => ~ xtouches c e) h ->
    let x' := xrun x h in
    In c (cache (core x')) /\ stored (store (core x')) (chead c) = Some c /\
    cnt (issued (core x')) (chead c) = cnt (issued (core x)) (chead c) /\
    (forall m, In m (cnames c) -> In c (resolve m (cache (core x')))).
  Proof.
    intros ID X Hc S F Fl NT. cbn zeta.
    assert (K : In c (cache (core (xrun x h))) /\ stored (store (core (xrun x h))) (chead c) = Some c /\
                cnt (issued (core (xrun x h))) (chead c) = cnt (issued (core x)) (chead c)).
    { revert x X Hc S F Fl. induction h as [|e r IH]; intros x X Hc S F Fl; [cbn; auto|].
      rewrite xrun_cons. pose proof (Forall_inv NT) as N1. pose proof (Forall_inv_tail NT) as N2.
      destruct (xstep_keeps_serving x e c ID X Hc S F Fl N1) as (A & B & C & D & E).
      destruct (IH N2 (xstep x e)) as (A' & B' & C'); auto using XWF_xstep.
      repeat split; auto. rewrite C'; auto. }
    destruct K as (A & B & C). repeat split; auto.
    intros m Hm. apply In_resolve; split; auto. apply has_name_In; auto.
  Qed.

  (** ** a revoked certificate is not served after the next OCSP pass: it is replaced by a newly
      issued one, or (renewal failed / nothing stored) taken out of the cache *)
  Lemma fold_fr_cache_sub L s y :
    In y (cache (fold_fr L s)) -> In y (cache s) \/ next s <= cid y.
  Proof.
    assert (K : next s <= next (fold_fr L s) /\ forall y, In y (cache (fold_fr L s)) -> In y (cache s) \/ next s <= cid y);
      [|intros H; apply K; auto].
    apply (fold_inv force_renew (fun t => next s <= next t /\ forall y, In y (cache t) -> In y (cache s) \/ next s <= cid y)); auto.
    intros t r _ (Nx & Ht). pose proof (fr_next t r) as N2. split; [lia|].
    intros z Hz. apply fr_cache_sub in Hz as [Hz|(E & _)]; auto. right. subst z. cbn. lia.
  Qed.

  Theorem revoked_replaced_or_removed x ord c :
    idue = false -> XWF x -> In c (cache (core x)) -> cman c = true -> flagged (rev x) c = true ->
    lock_held (jobs (core x)) (chead c) = false ->
    let s := core x in let x' := xstep x (OcspPass ord) in let s' := core x' in let n := chead c in
    ~ In c (cache s') /\ flagged (rev x') c = false /\
    (is_failing s n = true \/ stored (store s) n = None ->
       stored (store s') n = stored (store s) n /\ cnt (issued s') n = cnt (issued s) n) /\
    (is_failing s n = false -> stored (store s) n <> None ->
       exists N, stored (store s') n = Some N /\ In N (cache s') /\ next s <= cid N /\ cnames N = [n] /\
                 cnt (issued s) n < cnt (issued s') n /\ In N (resolve n (cache s'))).
  Proof.
    intros ID X Hc Mc Fc LF. cbn zeta. cbn [xstep ocsp_pass core rev].
    set (s0 := with_err (core x) false). set (L := in_order ord (revoked_certs x)).
    assert (W0 : WF s0) by (apply WF_with_err, X).
    assert (HL : forall r, In r L -> cid r < next s0) by (intros r Hr; apply (revoked_lt x ord r X Hr)).
    assert (Hin : In c L) by (apply In_in_order, revoked_certs_spec; auto).
    assert (Out : ~ In c (cache (fold_fr L s0))) by (apply fold_fr_removed; auto).
    pose proof (fold_fr_rel L s0 (chead c) ID W0 HL) as R.
    split; [exact Out|]. split.
    - unfold flagged. destruct (mem_nat (cid c) (prune (rev x) (cache (fold_fr L s0)))) eqn:M; auto.
      exfalso. apply mem_nat_In, In_prune in M as [_ M]. apply has_id_true in M as (y & Hy & Ey).
      apply fold_fr_cache_sub in Hy as Hy'. destruct Hy' as [Hy'|Hy'].
      + assert (y = c) by (apply (wf_uniq od (core x) (xwf_core x X)); auto using InSt_cache).
        subst y. contradiction.
      + pose proof (HL c Hin). lia.
    - split.
      + intros [F|N].
        * destruct R as (_ & _ & _ & _ & [[R1 R2]|(R1 & _)]); [auto|].
          unfold s0, is_failing in R1; cbn in R1; unfold is_failing in F; congruence.
        * destruct (fold_fr_none L s0 (chead c) ID W0 N) as [A B]. split; auto. rewrite A. symmetry; exact N.
      + intros NF SS.
        assert (I : cnt (issued s0) (chead c) < cnt (issued (fold_fr L s0)) (chead c)) by (apply fold_fr_issues; auto).
        destruct R as (_ & _ & _ & _ & [[_ R2]|(_ & _ & i & Li & _ & Si & Ci)]); [lia|].
        exists (Cert i (chead c) [] idue true). repeat split; auto.
        apply In_resolve; split; auto. cbn. rewrite Nat.eqb_refl. reflexivity.
  Qed.

  (** an OCSP pass contacts the issuer only for the first names of revoked certificates, and
      touches neither the jobs nor any certificate that is not revoked *)
  Theorem ocsp_pass_only_for_revoked x ord m :
    idue = false -> XWF x ->
    let s := core x in let s' := core (xstep x (OcspPass ord)) in
    jobs s' = jobs s /\ passes s' = passes s /\ lasterr s' = false /\
    ((cnt (issued s') m = cnt (issued s) m /\ cnt (failed s') m = cnt (failed s) m /\
      stored (store s') m = stored (store s) m) \/
     exists r, In r (cache s) /\ cman r = true /\ flagged (rev x) r = true /\ chead r = m).
  Proof.
    intros ID X. cbn zeta. cbn [xstep ocsp_pass core].
    set (s0 := with_err (core x) false). set (L := in_order ord (revoked_certs x)).
    assert (W0 : WF s0) by (apply WF_with_err, X).
    destruct (fold_fr_frame L s0) as (Ej & Ep & _ & Ee & _).
    repeat split; auto.
    destruct (fold_fr_only_revoked L s0 m ID W0) as [[A B]|(r & Hr & Er)].
    - left. repeat split; auto.
      assert (HL : forall r, In r L -> cid r < next s0) by (intros r Hr; apply (revoked_lt x ord r X Hr)).
      destruct (fold_fr_rel L s0 m ID W0 HL) as (_ & _ & _ & _ & [[R1 _]|(_ & R2 & _)]); [auto|lia].
    - right. apply In_in_order, revoked_certs_spec in Hr as (H1 & H2 & H3). eauto.
  Qed.

  (** * Further facts about the fold, used by the monitor's soundness proof *)
  Lemma fold_fr_fails L s c :
    idue = false -> WF s -> (forall r, In r L -> cid r < next s) -> In c L ->
    lock_held (jobs s) (chead c) = false -> is_failing s (chead c) = true ->
    stored (store s) (chead c) <> None ->
    cnt (failed s) (chead c) < cnt (failed (fold_fr L s)) (chead c).
  Proof.
    intros ID W HL Hc LF NF SS. set (n := chead c) in *.
    apply in_split in Hc as (L1 & L2 & ->). rewrite fold_left_app. cbn [fold_left].
    set (t := fold_fr L1 s).
    assert (Wt : WF t) by (apply WF_fold_fr; auto).
    destruct (fold_fr_frame L1 s) as (Ej & _ & Ef & _ & Nt). fold t in Ej, Ef, Nt.
    assert (R1 : pass_rel s t n) by (apply fold_fr_rel; auto; intros; apply HL; rewrite in_app_iff; auto).
    destruct R1 as (_ & _ & C1 & _ & S1).
    assert (St : stored (store t) n <> None).
    { destruct S1 as [[-> _]|(_ & _ & i & _ & _ & -> & _)]; [auto|discriminate]. }
    assert (C2 : cnt (failed (force_renew t c)) n = S (cnt (failed t) n)).
    { destruct (fr_cases t c) as (_ & _ & _ & _ & [[_ E]|[(_ & E & _)|[(_ & _ & _ & E)|(_ & _ & E & _)]]]);
        fold n in E.
      - rewrite Ej in E. congruence.
      - contradiction.
      - cbn zeta in E. rewrite E. unfold cnt. cbn. destruct (Nat.eq_dec n n); [reflexivity|contradiction].
      - unfold is_failing in E, NF. rewrite Ef in E. congruence. }
    assert (W2 : WF (force_renew t c)) by (apply WF_force_renew; auto).
    pose proof (fr_next t c) as N2.
    assert (R2 : pass_rel (force_renew t c) (fold_fr L2 (force_renew t c)) n).
    { apply fold_fr_rel; auto. intros r Hr.
      assert (cid r < next s) by (apply HL; rewrite in_app_iff; cbn; auto). lia. }
    destruct R2 as (_ & _ & C3 & _). lia.
  Qed.

  Lemma fr_issued_mono t r m : cnt (issued t) m <= cnt (issued (force_renew t r)) m.
  Proof.
    destruct (fr_cases t r) as (_ & _ & _ & _ & [[E _]|[(_ & _ & E)|[(_ & _ & _ & E)|(_ & _ & _ & E)]]]);
      cbn zeta in E; rewrite E; cbn; auto.
    unfold cnt; cbn. destruct (Nat.eq_dec (chead r) m); lia.
  Qed.

  (** what an OCSP pass adds to the cache: certificates it had issued, for the first name of a
      revoked certificate *)
  Lemma fold_fr_added L s y :
    In y (cache (fold_fr L s)) ->
    In y (cache s) \/
    (exists i r, next s <= i /\ y = Cert i (chead r) [] idue true /\ In r L /\
                 cnt (issued s) (chead r) < cnt (issued (fold_fr L s)) (chead r)).
  Proof.
    set (Q := fun t y => In y (cache s) \/
                (exists i r, next s <= i /\ y = Cert i (chead r) [] idue true /\ In r L /\
                             cnt (issued s) (chead r) < cnt (issued t) (chead r))).
    assert (K : next s <= next (fold_fr L s) /\ (forall m, cnt (issued s) m <= cnt (issued (fold_fr L s)) m) /\
                forall y, In y (cache (fold_fr L s)) -> Q (fold_fr L s) y); [|intros H; apply K; auto].
    apply (fold_inv force_renew (fun t => next s <= next t /\ (forall m, cnt (issued s) m <= cnt (issued t) m) /\
                                          forall y, In y (cache t) -> Q t y)).
    - split; auto. split; auto. intros z Hz; left; auto.
    - intros t r Hr (Nx & Mono & Ht). pose proof (fr_next t r) as N2.
      split; [lia|]. split; [intros m; pose proof (Mono m); pose proof (fr_issued_mono t r m); lia|].
      intros z Hz. apply fr_cache_sub in Hz as [Hz|(E & Ei & _)].
      + destruct (Ht z Hz) as [A|(i & r' & Li & Ey & Hr' & Lt)]; [left; auto|].
        right. exists i, r'. repeat split; auto. pose proof (fr_issued_mono t r (chead r')). lia.
      + right. exists (next t), r. repeat split; auto; try lia.
        rewrite Ei. unfold cnt; cbn. destruct (Nat.eq_dec (chead r) (chead r)); [|contradiction].
        pose proof (Mono (chead r)). unfold cnt in *. lia.
  Qed.

  Lemma InSt_force_renew t r c :
    InSt (force_renew t r) c -> InSt t c \/ c = new_cert t (chead r).
  Proof.
    destruct (fr_cases t r) as (_ & _ & _ & _ & [[E _]|[(_ & _ & E)|[(_ & _ & _ & E)|(_ & _ & _ & E)]]]);
      cbn zeta in E; rewrite E; auto; rewrite !InSt_iff; comp.
    - intros [H|H]; [apply In_cache_remove in H as [H _]|]; tauto.
    - intros [H|H]; [apply In_cache_remove in H as [H _]|]; tauto.
    - cbn. unfold cache_replace. intros [H|[[H|H]|H]]; auto; try tauto.
      apply In_cache_add in H as [H| ->]; auto. apply In_cache_remove in H as [H _]; tauto.
  Qed.

  (** * "once": an OCSP pass makes at most one attempt per revoked certificate *)
  Lemma filter_filter_head m n (l : list cert) :
    filter (fun c => chead c =? m) (filter (fun c => chead c =? n) l) =
    if n =? m then filter (fun c => chead c =? m) l else [].
  Proof.
    induction l as [|c r IH]; cbn; [destruct (n =? m); reflexivity|].
    destruct (Nat.eqb_spec (chead c) n) as [E|E]; cbn.
    - destruct (Nat.eqb_spec (chead c) m) as [E'|E']; rewrite IH.
      + assert (n = m) by congruence. subst. rewrite Nat.eqb_refl. reflexivity.
      + destruct (Nat.eqb_spec n m); [congruence|reflexivity].
    - rewrite IH. destruct (Nat.eqb_spec n m) as [->|N]; [|reflexivity].
      destruct (Nat.eqb_spec (chead c) m); [congruence|reflexivity].
  Qed.

  Lemma heads_flat_map m (l : list cert) d :
    NoDup d ->
    length (filter (fun c => chead c =? m) (flat_map (fun n => filter (fun c => chead c =? n) l) d)) =
    if mem_nat m d then length (filter (fun c => chead c =? m) l) else 0.
  Proof.
    induction 1 as [|n d Hn ND IH]; [reflexivity|].
    cbn [flat_map]. rewrite filter_app, app_length, IH, filter_filter_head.
    unfold mem_nat; cbn [existsb]. fold (mem_nat m d). rewrite (Nat.eqb_sym m n).
    destruct (Nat.eqb_spec n m) as [->|N]; cbn [orb]; [|reflexivity].
    destruct (mem_nat m d) eqn:M; [apply mem_nat_In in M; contradiction|lia].
  Qed.

  Lemma heads_in_order m ord (l : list cert) :
    length (filter (fun c => chead c =? m) (in_order ord l)) = length (filter (fun c => chead c =? m) l).
  Proof.
    unfold in_order. rewrite filter_app, app_length, heads_flat_map by apply NoDup_nodup.
    assert (E : mem_nat m (nodup Nat.eq_dec ord) = mem_nat m ord).
    { destruct (mem_nat m ord) eqn:M.
      - apply mem_nat_In, nodup_In, mem_nat_In; auto.
      - destruct (mem_nat m (nodup Nat.eq_dec ord)) eqn:M'; auto.
        apply mem_nat_In, nodup_In, mem_nat_In in M'. congruence. }
    rewrite E.
    assert (F : filter (fun c => chead c =? m) (filter (fun c => negb (mem_nat (chead c) ord)) l) =
                if mem_nat m ord then [] else filter (fun c => chead c =? m) l).
    { induction l as [|c r IH]; cbn; [destruct (mem_nat m ord); reflexivity|].
      destruct (Nat.eqb_spec (chead c) m) as [Ec|Ec].
      - rewrite Ec. destruct (mem_nat m ord) eqn:M; cbn.
        + exact IH.
        + rewrite Ec, Nat.eqb_refl, IH. reflexivity.
      - destruct (negb (mem_nat (chead c) ord)); cbn; [destruct (Nat.eqb_spec (chead c) m); [contradiction|]|]; exact IH. }
    rewrite F. destruct (mem_nat m ord); cbn; lia.
  Qed.

  Lemma fr_attempts t r m :
    cnt (issued (force_renew t r)) m + cnt (failed (force_renew t r)) m <=
    cnt (issued t) m + cnt (failed t) m + (if chead r =? m then 1 else 0).
  Proof.
    destruct (fr_cases t r) as (_ & _ & _ & _ & [[E _]|[(_ & _ & E)|[(_ & _ & _ & E)|(_ & _ & _ & E)]]]);
      cbn zeta in E; rewrite E; cbn; try lia; unfold cnt; cbn;
      destruct (Nat.eq_dec (chead r) m) as [->|N]; try rewrite Nat.eqb_refl; try lia;
      destruct (Nat.eqb_spec (chead r) m); try contradiction; lia.
  Qed.

  Lemma fold_fr_attempts L s m :
    cnt (issued (fold_fr L s)) m + cnt (failed (fold_fr L s)) m <=
    cnt (issued s) m + cnt (failed s) m + length (filter (fun c => chead c =? m) L).
  Proof.
    revert s; induction L as [|r L IH]; intros s; cbn [fold_left filter]; [cbn; lia|].
    specialize (IH (force_renew s r)). pose proof (fr_attempts s r m) as A.
    destruct (chead r =? m); cbn [length]; lia.
  Qed.

  (** over one OCSP pass the issuer is asked (successfully or not) for a name at most as many
      times as there are revoked certificates with that first name: each is renewed once *)
  Theorem ocsp_pass_once_per_revoked x ord m :
    let s := core x in let s' := core (xstep x (OcspPass ord)) in
    cnt (issued s') m + cnt (failed s') m <=
    cnt (issued s) m + cnt (failed s) m + length (filter (fun c => chead c =? m) (revoked_certs x)).
  Proof.
    cbn zeta. cbn [xstep ocsp_pass core].
    pose proof (fold_fr_attempts (in_order ord (revoked_certs x)) (with_err (core x) false) m) as A.
    rewrite heads_in_order in A. exact A.
  Qed.
End XProofs.
