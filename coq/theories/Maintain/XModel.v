(** C05 — revocation on top of the maintenance model ("... keeps being served as long as it has
    not been revoked"). Definitions only.

    The cache entry of a certificate carries its OCSP status. [Revoke i] marks the cached
    certificate [i] as Revoked (what [updateOCSPStaples] records when the responder says so);
    [OcspPass] is one run of [Cache.updateOCSPStaples]: every managed cache entry whose status is
    Revoked goes through [Config.forceRenew] — a forced renewal of [Names[0]] under the name's
    issuance lock ([renewCert] with force=true: the stored certificate is replaced even if it is
    not due), then [reloadManagedCertificate]; if the renewal fails the certificate is taken out
    of the cache ("probably better to not serve a revoked certificate at all").
    All other events are the events of [Maintain.Model] ([Core e]); they do not look at the
    status. A status lives and dies with its cache entry ([prune]).

    Not modelled: revocation for key compromise (forceRenew then moves the private key away and
    obtains instead of renewing), expired certificates (updateOCSPStaples skips them), a forced
    renewal that has to wait for the name's lock (held by a background job): it is modelled as
    not taking place and never generated; retries of the forced renewal (the harness issuer
    answers with ErrNoRetry, so one failed attempt ends it). *)
From Coq Require Import List Arith Bool.
From CM Require Import Maintain.Model Maintain.Spec.
Import ListNotations.

Inductive xevent :=
| Core (e : event)
| Revoke (i : nat)     (* the cache entry with identity i gets OCSP status Revoked *)
| OcspPass (ord : list name).
    (* Cache.updateOCSPStaples; [ord]: the order in which the pass (a loop over a Go map) took the
       names of the revoked certificates — any order is possible, theorems are for all *)

Record xstate := XState {
  core : state;
  rev : list nat         (* identities of the cache entries whose OCSP status is Revoked *)
}.

Definition mem_nat (i : nat) (l : list nat) : bool := existsb (Nat.eqb i) l.
Definition flagged (rv : list nat) (c : cert) : bool := mem_nat (cid c) rv.
(** a status disappears with its cache entry *)
Definition prune (rv : list nat) (ca : list cert) : list nat := filter (fun i => has_id i ca) rv.

Section X.
  Variable od : name -> bool.
  Variable idue : bool.

  (** Config.forceRenew for a certificate whose status is Revoked *)
  Definition force_renew (s : state) (c : cert) : state :=
    let n := chead c in
    if lock_held (jobs s) n then s
    else
      match stored (store s) n with
      | None => with_cache s (cache_remove c (cache s))          (* nothing to renew: load error *)
      | Some _ =>
          if is_failing s n then with_cache (with_failed s (n :: failed s)) (cache_remove c (cache s))
          else let s1 := issue idue s n in
               with_cache s1 (reload_one (store s1) (cache s1) c)
      end.

  (** certShouldBeForceRenewed: managed and Revoked *)
  Definition revoked_certs (x : xstate) : list cert :=
    filter (fun c => cman c && flagged (rev x) c) (cache (core x)).

  (** the revoked certificates in the order given by [ord] (those with other names last) *)
  Definition in_order (ord : list name) (l : list cert) : list cert :=
    flat_map (fun n => filter (fun c => chead c =? n) l) (nodup Nat.eq_dec ord) ++
    filter (fun c => negb (mem_nat (chead c) ord)) l.

  Definition ocsp_pass (x : xstate) (ord : list name) : xstate :=
    let s' := fold_left force_renew (in_order ord (revoked_certs x)) (with_err (core x) false) in
    XState s' (prune (rev x) (cache s')).

  Definition revoke (x : xstate) (i : nat) : xstate :=
    XState (with_err (core x) false)
           (if has_id i (cache (core x)) && negb (mem_nat i (rev x)) then i :: rev x else rev x).

  Definition xstep (x : xstate) (e : xevent) : xstate :=
    match e with
    | Core e => let s' := step od idue (core x) e in XState s' (prune (rev x) (cache s'))
    | Revoke i => revoke x i
    | OcspPass ord => ocsp_pass x ord
    end.

  Definition xrun (x : xstate) (h : list xevent) : xstate := fold_left xstep h x.
End X.

(** ** observation *)
Record xobs := XObs { xo : obs; xo_rev : list nat (* Revoked cache entries, sorted *) }.
Definition xobserve (k : nat) (x : xstate) : xobs :=
  XObs (observe k (core x)) (sort_by (fun i => i) (rev x)).
Definition xobs_eqb (a b : xobs) : bool := obs_eqb (xo a) (xo b) && list_nat_eqb (xo_rev a) (xo_rev b).

(** ** the monitor, extended *)
Section XSpec.
  Variable od : name -> bool.
  Variable idue : bool.
  Variable k : nat.

  Definition obs_flagged (o : xobs) (c : cert) : bool := mem_nat (cid c) (xo_rev o).
  (** the revoked certificates an OCSP pass has to replace *)
  Definition obs_revoked (o : xobs) : list cert :=
    filter (fun c => cman c && obs_flagged o c) (o_cache (xo o)).
  Definition heads_count (n : name) (l : list cert) : nat := length (filter (fun c => chead c =? n) l).

  (** 9: a status only disappears together with its cache entry, and none appears *)
  Definition c_rev_core (b a : xobs) : bool :=
    forallb (fun i => mem_nat i (xo_rev b) && has_id i (o_cache (xo a))) (xo_rev a) &&
    forallb (fun i => mem_nat i (xo_rev a) || negb (has_id i (o_cache (xo a)))) (xo_rev b).

  Definition c_revoke (i : nat) (b a : xobs) : bool :=
    unchanged (xo a) (xo b) &&
    forallb (fun j => Bool.eqb (mem_nat j (xo_rev a))
                               (mem_nat j (xo_rev b) || ((j =? i) && has_id i (o_cache (xo b)))))
            (i :: xo_rev a ++ xo_rev b).

  (** the clauses of an OCSP pass, numbered 10.. in [explain] *)
  Definition ocsp_clauses (b a : xobs) : list bool :=
    let ob := xo b in let oa := xo a in
    let R := obs_revoked b in
    [ (* 10 *) c_consistent k oa;
      (* 11: nothing but the cache, storage and the issuer log changes; no error *)
      same_jobs oa ob && negb (o_err oa);
      (* 12: a certificate that is not revoked keeps being served *)
      forallb (fun c => (cman c && obs_flagged b c) || mem_cert c (o_cache oa)) (o_cache ob);
      (* 13: a revoked certificate is not served any more (unless its renewal is under way elsewhere) *)
      forallb (fun c => locked_in ob (chead c) || negb (mem_cert c (o_cache oa))) R;
      (* 14: the issuer is contacted only for the first names of revoked certificates, at most once for each *)
      forallb (fun n => (oiss ob n <=? oiss oa n) && (ofl ob n <=? ofl oa n) &&
                        (oiss oa n + ofl oa n <=? oiss ob n + ofl ob n + heads_count n R)) (U k);
      (* 15: storage changes only by such an issuance, to a new certificate for that name *)
      forallb (fun n => opt_cert_eqb (ost oa n) (ost ob n) ||
                        match ost oa n with
                        | Some c => (chead c =? n) && cman c && negb (has_id (cid c) (certs_of_obs k ob)) &&
                                    (oiss ob n <? oiss oa n) && list_nat_eqb (crest c) [] && Bool.eqb (cdue c) idue
                        | None => false
                        end) (U k);
      (* 16: what enters the cache is a certificate issued in this pass *)
      forallb (fun c => mem_cert c (o_cache ob) ||
                        (negb (has_id (cid c) (certs_of_obs k ob)) && (oiss ob (chead c) <? oiss oa (chead c)) &&
                         cman c && list_nat_eqb (crest c) [] && Bool.eqb (cdue c) idue)) (o_cache oa);
      (* 17: where the forced renewal did not fail, the new certificate is stored and served *)
      forallb (fun c => locked_in ob (chead c) || negb (ofl oa (chead c) =? ofl ob (chead c)) ||
                        match ost ob (chead c), ost oa (chead c) with
                        | None, _ => true
                        | Some _, Some st => mem_cert st (o_cache oa) && negb (has_id (cid st) (certs_of_obs k ob))
                        | Some _, None => false
                        end) R;
      (* 18: a failed forced renewal leaves storage alone *)
      forallb (fun n => (ofl oa n =? ofl ob n) || opt_cert_eqb (ost oa n) (ost ob n)) (U k);
      (* 19: statuses *)
      c_rev_core b a ].

  Definition xclauses (pend : list pass) (e : xevent) (b a : xobs) : list bool :=
    match e with
    | Core e => clauses od idue k pend e (xo b) (xo a) ++ [c_rev_core b a]
    | Revoke i => [c_revoke i b a]
    | OcspPass _ => ocsp_clauses b a
    end.

  Definition xspec_step (pend : list pass) (e : xevent) (b a : xobs) : bool :=
    forallb (fun x => x) (xclauses pend e b a).

  Definition xpend_after (pend : list pass) (e : xevent) (b : xobs) : list pass :=
    match e with Core e => pend_after od k pend e (xo b) | _ => pend end.

  Fixpoint xspec_run (pend : list pass) (b : xobs) (h : list (xevent * xobs)) : bool :=
    match h with
    | [] => true
    | (e, a) :: r => xspec_step pend e b a && xspec_run (xpend_after pend e b) a r
    end.

  Definition clause_no (e : xevent) (i : nat) : nat :=
    match e with
    | Core _ => i
    | Revoke _ => 20
    | OcspPass _ => 10 + i
    end.

  Fixpoint xspec_first_fail (pend : list pass) (b : xobs) (h : list (xevent * xobs)) (i : nat) : option (nat * nat) :=
    match h with
    | [] => None
    | (e, a) :: r =>
        match first_false 0 (xclauses pend e b a) with
        | Some cl => Some (i, clause_no e cl)
        | None => xspec_first_fail (xpend_after pend e b) a r (S i)
        end
    end.
End XSpec.
