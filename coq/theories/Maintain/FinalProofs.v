(** C05 — theorems closing the gap between what the monitor checks and what is proved:
    the property's clauses restated over storage with bundles under several issuers' keys; the
    shape "the cache copy is due, the stored resource of the same certificate is not" (reload of an
    identical certificate); an OCSP pass that skips some revoked certificates (as updateOCSPStaples
    does for expired ones); what the monitor does with a pass that returns an error / panics and
    does nothing further; and why the revocation invariant needs an issuer whose certificates are
    not already due. *)
From Coq Require Import List Arith Bool Lia.
From CM Require Import Maintain.Model Maintain.Spec Maintain.XModel Maintain.Issuers Maintain.Base Maintain.Inv
  Maintain.Proofs Maintain.XProofs Maintain.IssuersProofs.
Import ListNotations.

(** the stored certificate for [n] in per-issuer storage is fresh *)
Definition mfresh (ms : mstore) (n : name) : bool :=
  match mload ms n with Some c => negb (cdue c) | None => false end.

Section Final.
  Variable od : name -> bool.
  Variable idue : bool.

  Notation step := (step od idue).
  Notation run := (run od idue).
  Notation eligible := (eligible od).
  Notation WF := (WF od).
  Notation new_cert := (new_cert idue).
  Notation xstep := (xstep od idue).

  (** * Several issuers: the clauses, read off per-issuer storage *)

  (** adoption: the certificate that [loadCertResourceAnyIssuer] finds — the most recently issued
      bundle under any issuer's key, whichever key each save went to — is fresh: the pass puts it
      in place of the due one, for all its names, without contacting any issuer *)
  Theorem adopts_external_renewal_any_issuer s p c st tags :
    WF s -> stack_ordered (store s) -> length tags = length (store s) ->
    take_pass p (passes s) = None ->
    In c (cache s) -> eligible c = true ->
    mload (concretize (store s) tags) (chead c) = Some st -> cdue st = false ->
    let s' := step (step s (PassScan p)) (PassAct p) in
    In st (cache s') /\ ~ In c (cache s') /\
    (forall m, In m (cnames st) -> In st (resolve m (cache s'))) /\
    store s' = store s /\ issued s' = issued s /\ failed s' = failed s /\
    mload (concretize (store s') tags) (chead c) = Some st.
  Proof.
    intros W O L T Hc Ec ML D. rewrite (mload_concretize _ _ _ O L) in ML.
    destruct (adopts_external_renewal od idue s p c st W T Hc Ec ML D) as (A & B & C & E & F & G & _).
    cbn zeta. repeat split; auto. rewrite E. rewrite (mload_concretize _ _ _ O L). exact ML.
  Qed.

  (** renewed once: over any history the chain of issuers hands out at most one certificate for
      a name, and none when the most recently issued bundle under the issuers' keys is fresh *)
  Theorem renews_once_any_issuer s h n tags :
    idue = false -> WF s -> stack_ordered (store s) -> length tags = length (store s) ->
    cnt (issued (run s h)) n <= cnt (issued s) n + (if mfresh (concretize (store s) tags) n then 0 else 1).
  Proof.
    intros ID W O L. unfold mfresh. rewrite (mload_concretize _ _ _ O L).
    apply (renews_once od idue s h n ID).
  Qed.

  (** the new certificate is the one loaded and served: after a renewal (scan, act, the job's
      three steps) the most recently issued bundle — under whichever issuer's key the chain saved
      it, with the old bundles of other issuers still lying there — is the new certificate, and it
      is the one in the cache answering for the name *)
  Theorem renewal_end_to_end_any_issuer s p c st tags t :
    WF s -> stack_ordered (store s) -> take_pass p (passes s) = None ->
    In c (cache s) -> eligible c = true ->
    scan_renew od (store s) (cache s) = [c] ->
    stored (store s) (chead c) = Some st ->
    is_failing s (chead c) = false -> no_job_for (chead c) (jobs s) = true ->
    length tags = length (store s) ->
    let n := chead c in
    let s' := run s [PassScan p; PassAct p; JobStep n 0; JobStep n 0; JobStep n 0] in
    mload (concretize (store s') (t :: tags)) n = Some (new_cert s n) /\
    In (new_cert s n) (resolve n (cache s')) /\ ~ In c (cache s') /\
    cnt (issued s') n = S (cnt (issued s) n).
  Proof.
    intros W O T Hc Ec RQ Sst F NJ L. cbn zeta.
    destruct (renewal_end_to_end od idue s p c st W T Hc Ec RQ Sst F NJ) as (I & _ & St & Cn & Nc & Rs & _).
    set (s' := run s _) in *.
    assert (O' : stack_ordered (store s')) by (apply stack_ordered_run; auto).
    assert (Ls : length (store s') = S (length (store s))).
    { (* exactly one save happened: the issued log grew by one *)
      assert (K : forall h s0, length (store (run s0 h)) + length (issued s0) >= 0) by (intros; lia).
      clear K.
      assert (G : forall h s0, Forall (fun e => forall m r, e <> ExtRenew m r) h ->
                  length (store (run s0 h)) + length (issued s0) = length (store s0) + length (issued (run s0 h))).
      { induction h as [|e r IH]; intros s0 Fa; [reflexivity|]. rewrite !run_cons.
        pose proof (Forall_inv Fa) as F1. pose proof (Forall_inv_tail Fa) as F2.
        pose proof (IH (step s0 e) F2) as H.
        assert (H1 : length (store (step s0 e)) + length (issued s0) = length (store s0) + length (issued (step s0 e))).
        { destruct (step_store_cases od idue s0 e) as [(E1 & E2 & _)|[(m & rr & Ee & _)|(m & E1 & E2 & _)]].
          - rewrite E1, E2. reflexivity.
          - exfalso. eapply F1; eauto.
          - rewrite E1, E2. cbn. lia. }
        lia. }
      specialize (G [PassScan p; PassAct p; JobStep (chead c) 0; JobStep (chead c) 0; JobStep (chead c) 0] s).
      fold s' in G. rewrite I in G. cbn [length] in G.
      assert (Fa : Forall (fun e => forall m r, e <> ExtRenew m r)
                     [PassScan p; PassAct p; JobStep (chead c) 0; JobStep (chead c) 0; JobStep (chead c) 0])
        by (repeat constructor; discriminate).
      specialize (G Fa). lia. }
    split.
    - rewrite mload_concretize; auto. cbn [length]. lia.
    - repeat split; auto.
      + apply Rs. cbn. auto.
      + rewrite I. unfold cnt. cbn. destruct (Nat.eq_dec (chead c) (chead c)); [reflexivity|contradiction].
  Qed.

  (** * Reload of an identical certificate: the cache copy counts as due (its in-memory renewal
      information says so), the stored resource of the same certificate does not. The model sees
      two certificate objects with the same names; the pass replaces the copy by the stored one:
      every name keeps being answered, nothing is issued, no job is submitted, and every other
      certificate that is not due stays where it is. *)
  Theorem reload_identical_keeps_every_name_served s p c st x :
    WF s -> take_pass p (passes s) = None ->
    In c (cache s) -> eligible c = true ->
    stored (store s) (chead c) = Some st -> cdue st = false -> cnames st = cnames c ->
    In x (cache s) -> eligible x = false ->
    let s' := step (step s (PassScan p)) (PassAct p) in
    (forall m, In m (cnames c) -> In st (resolve m (cache s')) /\ ~ In c (resolve m (cache s'))) /\
    In x (cache s') /\
    store s' = store s /\ issued s' = issued s /\ failed s' = failed s /\
    filter (is_renew_for (chead c)) (jobs s') = filter (is_renew_for (chead c)) (jobs s).
  Proof.
    intros W T Hc Ec S D N Hx Ex.
    destruct (adopts_external_renewal od idue s p c st W T Hc Ec S D) as (A & B & C & E & F & G & J).
    cbn zeta. repeat split; auto.
    - apply C. rewrite N. assumption.
    - intros K. apply In_resolve in K as [K _]. contradiction.
    - change (step (step s (PassScan p)) (PassAct p)) with (run s [PassScan p; PassAct p]).
      apply run_cache_keeps; auto.
  Qed.

  (** * An OCSP pass that works on some of the revoked certificates only (updateOCSPStaples skips
      expired ones; a certificate whose forced renewal is not modelled can be left out of [L]):
      whatever sub-list [L] of the revoked certificates is processed, in whatever order — the ones
      processed are gone (replaced or removed), every other certificate stays cached *)
  Definition ocsp_pass_over (x : xstate) (L : list cert) : state :=
    fold_left (force_renew idue) L (with_err (core x) false).

  Theorem ocsp_pass_over_any_sublist x L :
    idue = false -> XWF od x -> (forall r, In r L -> In r (revoked_certs x)) ->
    let s' := ocsp_pass_over x L in
    (forall c, In c L -> lock_held (jobs (core x)) (chead c) = false -> ~ In c (cache s')) /\
    (forall c, In c (cache (core x)) -> ~ In c L -> In c (cache s')) /\
    jobs s' = jobs (core x) /\ passes s' = passes (core x).
  Proof.
    intros ID X HL. cbn zeta. unfold ocsp_pass_over.
    assert (W0 : WF (with_err (core x) false)) by (apply WF_with_err, X).
    assert (Lt : forall r, In r L -> cid r < next (with_err (core x) false)).
    { intros r Hr. apply HL, revoked_certs_spec in Hr as (Hr & _).
      apply (wf_lt od _ (xwf_core od x X)). apply InSt_cache; auto. }
    destruct (fold_fr_frame idue L (with_err (core x) false)) as (Ej & Ep & _).
    repeat split; auto.
    - intros c Hc LF. apply (fold_fr_removed od idue); auto.
    - intros c Hc Nc. apply fold_fr_keeps; auto. intros r Hr E. apply Nc.
      assert (c = r); [|subst; auto].
      apply HL, revoked_certs_spec in Hr as (Hr & _).
      apply (wf_uniq od (core x) (xwf_core od x X)); auto using InSt_cache.
  Qed.
  (** * One forced renewal, for every kind of issuer (no hypothesis on [idue]): the revoked
      certificate leaves the cache; if the chain of issuers fails for its name, or nothing is
      stored, storage and the issuer's successes are untouched; otherwise exactly one certificate
      is issued for the name, stored, and cached. An OCSP pass is a sequence of these. *)
  Theorem force_renew_any_issuer s c :
    WF s -> In c (cache s) -> lock_held (jobs s) (chead c) = false ->
    let n := chead c in let s' := force_renew idue s c in
    ~ In c (cache s') /\
    (forall x, In x (cache s) -> cid x <> cid c -> In x (cache s')) /\
    (is_failing s n = true \/ stored (store s) n = None ->
       stored (store s') n = stored (store s) n /\ cnt (issued s') n = cnt (issued s) n) /\
    (is_failing s n = false -> stored (store s) n <> None ->
       stored (store s') n = Some (new_cert s n) /\ In (new_cert s n) (cache s') /\
       cnt (issued s') n = S (cnt (issued s) n) /\ cnt (failed s') n = cnt (failed s) n).
  Proof.
    intros W Hc LF. cbn zeta. split; [apply (fr_removed od idue); auto using InSt_cache|].
    split; [intros x Hx Ne; apply fr_keeps; auto|].
    destruct (fr_store od idue s c (chead c) W) as [(S1 & I1 & _)|(_ & Fm & _ & Sm & S1 & I1 & F1 & C1 & _)].
    - split; [intros _; auto|]. intros NF SS. exfalso.
      destruct (fr_cases idue s c) as (_ & _ & _ & _ & [[_ E]|[(_ & E & _)|[(_ & _ & E & _)|(_ & _ & _ & E)]]]);
        try congruence.
      cbn zeta in E. rewrite E in I1. unfold cnt in I1. cbn in I1.
      destruct (Nat.eq_dec (chead c) (chead c)); [lia|contradiction].
    - split; [intros [F|N]; congruence|]. intros _ _. auto.
  Qed.
End Final.

(** * The revocation invariant needs an issuer whose certificates are not already due: with one
    that hands out due certificates, a forced renewal overwrites a fresh stored certificate by a
    due one while a pass that scanned before still has the name in its reload queue ("a queued
    reload stays reloadable" breaks; what the code then does: that pass loads the due
    certificate, and the next pass renews the name again) *)
Definition rf_od (n : name) : bool := false.
Definition rf_c0 := Cert 0 0 [] true true.
Definition rf_c4 := Cert 4 0 [] false true.
Definition rf_x : xstate :=
  XState (State [(0, rf_c4)] [rf_c0] [] [Pass 7 [rf_c0] []] [] [] [] 5 false) [0].

Theorem revocation_invariant_idue_refuted :
  XWF rf_od rf_x /\ ~ XWF rf_od (xstep rf_od true rf_x (OcspPass [])).
Proof.
  split.
  - constructor; cbn [core rev rf_x].
    + apply (wf_b_sound rf_od 1). vm_compute. reflexivity.
    + intros i [<-|[]]. reflexivity.
    + repeat constructor. intros [].
  - intros [W _ _].
    assert (K : stored_fresh (store (core (xstep rf_od true rf_x (OcspPass [])))) (chead rf_c0) = true).
    { apply (wf_pass_fresh rf_od _ W (Pass 7 [rf_c0] []) rf_c0); vm_compute; auto. }
    vm_compute in K. discriminate.
Qed.

(** * A pass that returns an error — or panics, which the harness observes as an error — and did
    nothing further is rejected by the monitor, and the model never does that *)
Section Rejects.
  Variable od : name -> bool.
  Variable idue : bool.
  Variable k : nat.

  Lemma forallb_false_in (l : list bool) : In false l -> forallb (fun b => b) l = false.
  Proof.
    induction l as [|b r IH]; cbn; [contradiction|]. intros [->|H]; [reflexivity|].
    rewrite IH by exact H. apply andb_false_r.
  Qed.

  Lemma c_event_in_clauses pend e b a : In (c_event od k pend e b a) (clauses od idue k pend e b a).
  Proof. unfold clauses. cbn. repeat (try (left; reflexivity); right). Qed.

  (** an error reported by the scan or the act of a pass: rejected *)
  Theorem monitor_rejects_pass_error pend p b a :
    o_err a = true ->
    spec_step od idue k pend (PassScan p) b a = false /\ spec_step od idue k pend (PassAct p) b a = false.
  Proof.
    intros E. split; unfold spec_step; apply forallb_false_in;
      [replace false with (c_event od k pend (PassScan p) b a) | replace false with (c_event od k pend (PassAct p) b a)];
      try apply c_event_in_clauses.
    - cbn. unfold unchanged, obs_eqb, clear_err. cbn. rewrite E. cbn. rewrite !andb_false_r. reflexivity.
    - cbn. rewrite E. cbn. rewrite !andb_false_r. reflexivity.
  Qed.

  (** a pass that leaves a certificate in the cache although its scan found it renewed in storage
      (by another certificate): rejected *)
  Theorem monitor_rejects_pass_without_adoption pend p q rest b a c st :
    take_pass p pend = Some (q, rest) -> In c (preload q) ->
    ost b (chead c) = Some st -> cid st <> cid c -> mem_cert c (o_cache a) = true ->
    spec_step od idue k pend (PassAct p) b a = false.
  Proof.
    intros T Hc S Ne M. unfold spec_step. apply forallb_false_in.
    replace false with (c_event od k pend (PassAct p) b a); [apply c_event_in_clauses|].
    cbn. rewrite T.
    assert (K : forallb (fun c0 => match ost b (chead c0) with
                                   | Some st0 => mem_cert st0 (o_cache a) && ((cid st0 =? cid c0) || negb (mem_cert c0 (o_cache a)))
                                   | None => true end) (preload q) = false).
    { destruct (forallb _ (preload q)) eqn:Fa; auto. rewrite forallb_forall in Fa. specialize (Fa c Hc).
      rewrite S, M in Fa. apply Nat.eqb_neq in Ne. rewrite Ne in Fa. cbn in Fa. rewrite andb_false_r in Fa. discriminate. }
    rewrite K. cbn. rewrite !andb_false_r. reflexivity.
  Qed.

  (** likewise an error reported by a step of a background job, by another instance's save or by
      an issuer switch (none of them returns anything to a caller) *)
  Theorem monitor_rejects_silent_event_error pend e b a :
    (exists n kk, e = JobStep n kk) \/ (exists n r, e = ExtRenew n r) \/ (exists n f, e = SetIssuer n f) ->
    o_err a = true -> spec_step od idue k pend e b a = false.
  Proof.
    intros He E. unfold spec_step. apply forallb_false_in.
    replace false with (c_event od k pend e b a); [apply c_event_in_clauses|].
    destruct He as [(n & kk & ->)|[(n & r & ->)|(n & f & ->)]]; cbn; rewrite ?E; cbn.
    - reflexivity.
    - rewrite !andb_false_r. reflexivity.
    - unfold unchanged, obs_eqb, clear_err. cbn. rewrite E. cbn. rewrite !andb_false_r. reflexivity.
  Qed.

  (** a manage call that reports an error although no failed attempt of the issuers was recorded
      (a panic, for instance): rejected *)
  Theorem monitor_rejects_manage_error_without_issuer_failure pend n async b a :
    ofl a n = ofl b n -> o_err a = true -> spec_step od idue k pend (Manage n async) b a = false.
  Proof.
    intros F E. unfold spec_step. apply forallb_false_in.
    replace false with (c_event od k pend (Manage n async) b a); [apply c_event_in_clauses|].
    cbn. unfold c_manage, unchanged, obs_eqb, clear_err. cbn. rewrite F, Nat.eqb_refl, E. cbn.
    repeat match goal with
           | |- context [match ?x with _ => _ end] => destruct x
           | |- context [if ?x then _ else _] => destruct x
           end; cbn; rewrite ?andb_false_r; reflexivity.
  Qed.

  (** the model's passes never report an error *)
  Theorem model_pass_never_errs s p :
    lasterr (step od idue s (PassScan p)) = false /\ lasterr (step od idue s (PassAct p)) = false.
  Proof.
    split; cbn; [reflexivity|]. unfold pass_act. cbn. destruct (take_pass p (passes s)) as [[q r]|]; reflexivity.
  Qed.
End Rejects.
