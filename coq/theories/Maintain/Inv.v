(** C05 — well-formedness is an invariant of every event ([WF_step], [WF_run]).
    Among its components: at most one renewal job per name is queued or running
    (the dedup of [jm.Submit("renew_"+name)]) and at most one job holds a name's lock. *)
From Coq Require Import List Arith Bool Lia.
From CM Require Import Maintain.Model Maintain.Spec Maintain.Base.
Import ListNotations.

(** * List facts *)
Lemma filter_len_app {A} (f : A -> bool) a b :
  length (filter f (a ++ b)) = length (filter f a) + length (filter f b).
Proof. rewrite filter_app, app_length; reflexivity. Qed.

Lemma filter_len_replace {A} (f : A -> bool) pre j j' post :
  (f j' = true -> f j = true) ->
  length (filter f (pre ++ j' :: post)) <= length (filter f (pre ++ j :: post)).
Proof.
  intros H. rewrite !filter_len_app. cbn. destruct (f j') eqn:E.
  - rewrite (H eq_refl); cbn; lia.
  - destruct (f j); cbn; lia.
Qed.

Lemma filter_len_remove {A} (f : A -> bool) pre j post :
  length (filter f (pre ++ post)) <= length (filter f (pre ++ j :: post)).
Proof. rewrite !filter_len_app. cbn. destruct (f j); cbn; lia. Qed.

Lemma filter_len_snoc {A} (f : A -> bool) l x :
  length (filter f (l ++ [x])) = length (filter f l) + (if f x then 1 else 0).
Proof. rewrite filter_len_app; cbn. destruct (f x); reflexivity. Qed.

Lemma existsb_false_filter {A} (f : A -> bool) l : existsb f l = false -> filter f l = [].
Proof.
  induction l as [|x r IH]; cbn; auto. destruct (f x); cbn; [discriminate|auto].
Qed.

Lemma existsb_true_filter {A} (f : A -> bool) l : existsb f l = true -> 1 <= length (filter f l).
Proof.
  induction l as [|x r IH]; cbn; [discriminate|]. destruct (f x); cbn; [lia|auto].
Qed.

Section Inv.
  Variable od : name -> bool.
  Variable idue : bool.

  Notation step := (step od idue).
  Notation run := (run od idue).
  Notation eligible := (eligible od).
  Notation WF := (WF od).

  (** * Primitive updates preserve well-formedness *)
  Lemma WF_same s s' :
    store s' = store s -> cache s' = cache s -> jobs s' = jobs s -> passes s' = passes s ->
    next s' = next s -> WF s -> WF s'.
  Proof.
    intros E1 E2 E3 E4 E5 W.
    assert (I : forall c, InSt s' c <-> InSt s c) by (intros c; rewrite !InSt_iff, E1, E2, E3, E4; tauto).
    destruct W; constructor; rewrite ?E1, ?E3, ?E4, ?E5; auto.
    - intros c H; apply I in H; auto.
    - intros c1 c2 H1 H2; apply I in H1; apply I in H2; auto.
  Qed.

  Lemma WF_with_err s b : WF s -> WF (with_err s b).
  Proof. apply WF_same; reflexivity. Qed.
  Lemma WF_with_failed s x : WF s -> WF (with_failed s x).
  Proof. apply WF_same; reflexivity. Qed.
  Lemma WF_with_failing s x : WF s -> WF (with_failing s x).
  Proof. apply WF_same; reflexivity. Qed.

  Lemma WF_with_cache s ca :
    WF s -> (forall c, In c ca -> InSt s c) -> WF (with_cache s ca).
  Proof.
    intros W H.
    assert (I : forall c, InSt (with_cache s ca) c -> InSt s c).
    { intros c; rewrite !InSt_iff; comp. intros [K|K]; [rewrite <- InSt_iff; auto | tauto]. }
    destruct W; constructor; comp; auto.
  Qed.

  Lemma WF_with_jobs s js :
    WF s ->
    (forall c, In c (job_olds js) -> InSt s c) ->
    (forall j, In j js -> job_ok od j = true) ->
    (forall n, length (filter (is_renew_for n) js) <= 1) ->
    (forall n, length (filter (is_locked_for n) js) <= 1) ->
    WF (with_jobs s js).
  Proof.
    intros W H J R L.
    assert (I : forall c, InSt (with_jobs s js) c -> InSt s c).
    { intros c; rewrite !InSt_iff; comp. intros [K|[K|[K|K]]]; [tauto|tauto|tauto|].
      rewrite <- InSt_iff; auto. }
    destruct W; constructor; comp; auto.
  Qed.

  Lemma WF_with_passes s ps :
    WF s ->
    (forall q c, In q ps -> In c (preload q ++ prenew q) -> InSt s c /\ eligible c = true) ->
    (forall q c, In q ps -> In c (preload q) -> stored_fresh (store s) (chead c) = true) ->
    WF (with_passes s ps).
  Proof.
    intros W H F.
    assert (I : forall c, InSt (with_passes s ps) c -> InSt s c).
    { intros c; rewrite !InSt_iff; comp. intros [K|[K|[K|K]]]; [tauto|tauto| |tauto].
      apply In_pass_certs in K as (q & Hq & Hc). rewrite <- InSt_iff. apply (H q c Hq Hc). }
    destruct W; constructor; comp; auto.
    intros q c Hq Hc; apply (H q c Hq Hc).
  Qed.

  (** a new bundle (issued here, or saved by another instance) under name [n] *)
  Lemma WF_new_bundle s nc n s' :
    WF s ->
    cid nc = next s -> chead nc = n -> cman nc = true ->
    (stored_fresh (store s) n = true -> cdue nc = false) ->
    store s' = (n, nc) :: store s -> cache s' = cache s -> jobs s' = jobs s ->
    passes s' = passes s -> next s' = S (next s) ->
    WF s'.
  Proof.
    intros W Hid Hh Hm Hf E1 E2 E3 E4 E5.
    assert (I : forall c, InSt s' c -> InSt s c \/ c = nc).
    { intros c; rewrite !InSt_iff, E1, E2, E3, E4; cbn. intuition. }
    destruct W; constructor; rewrite ?E1, ?E3, ?E4, ?E5; auto.
    - intros c H; apply I in H as [H| ->]; [apply wf_lt in H; lia | lia].
    - intros c1 c2 H1 H2 E. apply I in H1 as [H1| ->]; apply I in H2 as [H2| ->]; auto.
      + apply wf_lt in H1; lia.
      + apply wf_lt in H2; lia.
    - intros m c [H|H]; [injection H as <- <-; auto | auto].
    - intros q c Hq Hc. pose proof (wf_pass_fresh q c Hq Hc) as F.
      destruct (Nat.eq_dec n (chead c)) as [E|N].
      + rewrite <- E in *. rewrite stored_fresh_cons_eq, (Hf F); reflexivity.
      + rewrite stored_fresh_cons_neq; auto.
  Qed.

  Lemma WF_issue s n : WF s -> stored_fresh (store s) n = false -> WF (issue idue s n).
  Proof.
    intros W F. eapply (WF_new_bundle s (new_cert idue s n) n); eauto; try reflexivity.
    rewrite F; discriminate.
  Qed.

  Lemma WF_ext_renew s n rest : WF s -> WF (ext_renew s n rest).
  Proof.
    intros W. eapply (WF_new_bundle s (Cert (next s) n rest false true) n); eauto; reflexivity.
  Qed.

  (** * Job-list conditions *)
  Definition jobs_ok (s : state) (js : list job) : Prop :=
    (forall c, In c (job_olds js) -> InSt s c) /\
    (forall j, In j js -> job_ok od j = true) /\
    (forall n, length (filter (is_renew_for n) js) <= 1) /\
    (forall n, length (filter (is_locked_for n) js) <= 1).

  Lemma WF_jobs_ok s js : WF s -> jobs_ok s js -> WF (with_jobs s js).
  Proof. intros W (A & B & C & D); apply WF_with_jobs; auto. Qed.

  Lemma jobs_ok_self s : WF s -> jobs_ok s (jobs s).
  Proof.
    intros W; repeat split; try apply W. intros c H; apply InSt_job; exact H.
  Qed.

  (** InSt is monotone along the updates that keep jobs, passes and storage *)
  Lemma jobs_ok_mono s s' js :
    (forall c, InSt s c -> InSt s' c) -> jobs_ok s js -> jobs_ok s' js.
  Proof. intros M (A & B & C & D); repeat split; auto. Qed.

  Lemma job_ok_set_pc j p : job_ok od (set_pc j p) = job_ok od j.
  Proof. reflexivity. Qed.

  Lemma is_renew_for_set_pc n j p : is_renew_for n (set_pc j p) = is_renew_for n j.
  Proof. reflexivity. Qed.

  Lemma lock_held_filter js n : lock_held js n = false -> filter (is_locked_for n) js = [].
  Proof. intros H; apply existsb_false_filter; exact H. Qed.

  (** removing a job *)
  Lemma jobs_ok_remove s pre j post :
    jobs_ok s (pre ++ j :: post) -> jobs_ok s (pre ++ post).
  Proof.
    intros (A & B & C & D); repeat split.
    - intros c H; apply A. rewrite job_olds_app in *. rewrite in_app_iff in *.
      change (j :: post) with ([j] ++ post). rewrite job_olds_app, in_app_iff; tauto.
    - intros x H; apply B. rewrite in_app_iff in *; cbn; tauto.
    - intros n; eapply Nat.le_trans; [apply filter_len_remove | apply C].
    - intros n; eapply Nat.le_trans; [apply filter_len_remove | apply D].
  Qed.

  (** moving a job to a program counter that does not hold the lock *)
  Lemma jobs_ok_set_pc_unlocked s pre j post p :
    is_locked p = false ->
    jobs_ok s (pre ++ j :: post) -> jobs_ok s (pre ++ set_pc j p :: post).
  Proof.
    intros P (A & B & C & D); repeat split.
    - intros c H; apply A. rewrite job_olds_app in *. rewrite in_app_iff in *.
      change (set_pc j p :: post) with ([set_pc j p] ++ post) in H.
      change (j :: post) with ([j] ++ post).
      rewrite job_olds_app, in_app_iff in *. rewrite job_olds_set_pc in H. exact H.
    - intros x H. rewrite in_app_iff in H; cbn in H. destruct H as [H|[<-|H]].
      + apply B; rewrite in_app_iff; auto.
      + rewrite job_ok_set_pc; apply B; rewrite in_app_iff; cbn; auto.
      + apply B; rewrite in_app_iff; cbn; auto.
    - intros n; eapply Nat.le_trans; [apply filter_len_replace | apply C].
      rewrite is_renew_for_set_pc; auto.
    - intros n; eapply Nat.le_trans; [apply filter_len_replace | apply D].
      unfold is_locked_for; cbn. rewrite P, andb_false_r; discriminate.
  Qed.

  (** taking the lock when nobody holds it *)
  Lemma jobs_ok_set_pc_locked s pre j post :
    lock_held (pre ++ j :: post) (jname j) = false ->
    jobs_ok s (pre ++ j :: post) -> jobs_ok s (pre ++ set_pc j Locked :: post).
  Proof.
    intros LH (A & B & C & D); repeat split.
    - intros c H; apply A. rewrite job_olds_app in *. rewrite in_app_iff in *.
      change (set_pc j Locked :: post) with ([set_pc j Locked] ++ post) in H.
      change (j :: post) with ([j] ++ post).
      rewrite job_olds_app, in_app_iff in *. rewrite job_olds_set_pc in H. exact H.
    - intros x H. rewrite in_app_iff in H; cbn in H. destruct H as [H|[<-|H]].
      + apply B; rewrite in_app_iff; auto.
      + rewrite job_ok_set_pc; apply B; rewrite in_app_iff; cbn; auto.
      + apply B; rewrite in_app_iff; cbn; auto.
    - intros n; eapply Nat.le_trans; [apply filter_len_replace | apply C].
      rewrite is_renew_for_set_pc; auto.
    - intros n. destruct (Nat.eq_dec (jname j) n) as [E|E].
      + subst n. apply lock_held_filter in LH.
        rewrite filter_app in LH. apply app_eq_nil in LH as [L1 L2]. cbn in L2.
        destruct (is_locked_for (jname j) j); [discriminate|].
        rewrite filter_len_app, L1. cbn. rewrite L2.
        destruct (is_locked_for (jname j) (set_pc j Locked)); cbn; lia.
      + eapply Nat.le_trans; [apply filter_len_replace | apply D].
        unfold is_locked_for; cbn. destruct (Nat.eqb_spec (jname j) n); [contradiction|discriminate].
  Qed.

  (** appending an obtain job *)
  Lemma jobs_ok_add_obtain s js n :
    jobs_ok s js -> jobs_ok s (js ++ [Job n JObtain None Queued]).
  Proof.
    intros (A & B & C & D); repeat split.
    - intros c H; apply A. rewrite job_olds_app, in_app_iff in H; cbn in H. tauto.
    - intros x H. rewrite in_app_iff in H; cbn in H. destruct H as [H|[<-|[]]]; auto.
    - intros m; rewrite filter_len_snoc; cbn. specialize (C m); lia.
    - intros m; rewrite filter_len_snoc.
      assert (X : is_locked_for m (Job n JObtain None Queued) = false)
        by (unfold is_locked_for; cbn; apply andb_false_r).
      rewrite X. specialize (D m); lia.
  Qed.

  (** jm.Submit("renew_"+n, ...) *)
  Lemma jobs_ok_submit_renew s js n old :
    jobs_ok s js -> InSt s old -> chead old = n -> eligible old = true ->
    jobs_ok s (submit_renew js n old).
  Proof.
    intros (A & B & C & D) I H E. unfold submit_renew.
    destruct (existsb (is_renew_for n) js) eqn:X; [repeat split; auto|].
    repeat split.
    - intros c K. rewrite job_olds_app, in_app_iff in K; cbn in K.
      destruct K as [K|[<-|[]]]; auto.
    - intros x K. rewrite in_app_iff in K; cbn in K. destruct K as [K|[<-|[]]]; auto.
      unfold job_ok; cbn. rewrite H, Nat.eqb_refl, E; reflexivity.
    - intros m; rewrite filter_len_snoc; cbn.
      destruct (Nat.eqb_spec n m) as [<-|N].
      + apply existsb_false_filter in X. rewrite X; cbn; lia.
      + specialize (C m); lia.
    - intros m; rewrite filter_len_snoc.
      assert (Y : is_locked_for m (Job n JRenew (Some old) Queued) = false)
        by (unfold is_locked_for; cbn; apply andb_false_r).
      rewrite Y. specialize (D m); lia.
  Qed.

  Lemma jobs_ok_fold_submit s olds js :
    jobs_ok s js ->
    (forall o, In o olds -> InSt s o /\ eligible o = true) ->
    jobs_ok s (fold_left (fun js old => submit_renew js (chead old) old) olds js).
  Proof.
    revert js; induction olds as [|o r IH]; cbn; intros js J H; auto.
    apply IH; [|intros; apply H; auto].
    destruct (H o (or_introl eq_refl)) as [I E]. apply jobs_ok_submit_renew; auto.
  Qed.

  (** * Each event preserves well-formedness *)
  Lemma In_scan_reload st ca c :
    In c (scan_reload od st ca) <-> In c ca /\ eligible c = true /\ stored_fresh st (chead c) = true.
  Proof. unfold scan_reload; rewrite filter_In, andb_true_iff; tauto. Qed.
  Lemma In_scan_renew st ca c :
    In c (scan_renew od st ca) <-> In c ca /\ eligible c = true /\ stored_fresh st (chead c) = false.
  Proof. unfold scan_renew; rewrite filter_In, andb_true_iff, negb_true_iff; tauto. Qed.

  Lemma WF_pass_scan s p : WF s -> WF (pass_scan od s p).
  Proof.
    intros W. unfold pass_scan. apply WF_with_passes; auto.
    - intros q c Hq Hc. rewrite in_app_iff in Hq; cbn in Hq. destruct Hq as [Hq|[<-|[]]].
      + split; [apply InSt_pass, In_pass_certs; eauto | eapply wf_pass; eauto].
      + cbn in Hc. rewrite in_app_iff, In_scan_reload, In_scan_renew in Hc.
        split; [apply InSt_cache; tauto | tauto].
    - intros q c Hq Hc. rewrite in_app_iff in Hq; cbn in Hq. destruct Hq as [Hq|[<-|[]]].
      + eapply wf_pass_fresh; eauto.
      + cbn in Hc. apply In_scan_reload in Hc; tauto.
  Qed.

  Lemma pass_act_eq s p q rest :
    take_pass p (passes s) = Some (q, rest) ->
    pass_act s p =
    with_passes (with_jobs (with_cache s (fold_left (reload_one (store s)) (preload q) (cache s)))
                           (fold_left (fun js old => submit_renew js (chead old) old) (prenew q) (jobs s)))
                rest.
  Proof. intros T; unfold pass_act; rewrite T; reflexivity. Qed.

  Lemma WF_pass_act s p : WF s -> WF (pass_act s p).
  Proof.
    intros W. destruct (take_pass p (passes s)) as [[q rest]|] eqn:T;
      [|unfold pass_act; rewrite T; exact W].
    rewrite (pass_act_eq _ _ _ _ T).
    destruct (take_pass_spec _ _ _ _ T) as (_ & a & b & Eps & ->).
    assert (Hq : In q (passes s)) by (rewrite Eps, in_app_iff; cbn; auto).
    set (ca := fold_left _ (preload q) (cache s)).
    assert (W1 : WF (with_cache s ca)).
    { apply WF_with_cache; auto. intros c H. apply In_fold_reload in H as [H|H];
        [apply InSt_cache | apply InSt_store]; auto. }
    assert (M : forall c, InSt s c -> In c (cache s) \/ InSt (with_cache s ca) c).
    { intros c; rewrite !InSt_iff; comp; tauto. }
    assert (M' : forall c, In c (pass_certs (passes s)) -> InSt (with_cache s ca) c).
    { intros c H; rewrite InSt_iff; comp; tauto. }
    set (js := fold_left _ (prenew q) (jobs s)).
    assert (W2 : WF (with_jobs (with_cache s ca) js)).
    { apply WF_jobs_ok; auto. apply jobs_ok_fold_submit.
      - apply (jobs_ok_self _ W1).
      - intros o Ho. split.
        + apply M', In_pass_certs. exists q; rewrite in_app_iff; auto.
        + apply (wf_pass od s W q); auto. rewrite in_app_iff; auto. }
    apply WF_with_passes; auto.
    - intros q' c Hq' Hc. assert (In q' (passes s)) by (rewrite Eps, in_app_iff in *; cbn; tauto).
      split.
      + rewrite InSt_iff; comp. right; right; left. apply In_pass_certs; eauto.
      + eapply wf_pass; eauto.
    - intros q' c Hq' Hc. assert (In q' (passes s)) by (rewrite Eps, in_app_iff in *; cbn; tauto).
      comp. eapply wf_pass_fresh; eauto.
  Qed.

  Lemma WF_set_issuer s n f : WF s -> WF (set_issuer s n f).
  Proof. apply WF_with_failing. Qed.

  (** cache updates used by jobs and manage *)
  Lemma WF_cache_add_stored s n st :
    WF s -> stored (store s) n = Some st -> WF (with_cache s (cache_add st (cache s))).
  Proof.
    intros W S. apply WF_with_cache; auto. intros c H.
    apply In_cache_add in H as [H| ->]; [apply InSt_cache; auto | eapply InSt_stored; eauto].
  Qed.

  Lemma WF_reload_one s old :
    WF s -> WF (with_cache s (reload_one (store s) (cache s) old)).
  Proof.
    intros W. apply WF_with_cache; auto. intros c H.
    apply In_reload_one in H as [H|H]; [apply InSt_cache | apply InSt_store]; auto.
  Qed.

  (** jobs stay fine when only cache / storage / counters of the state change *)
  Lemma jobs_ok_transfer s s' js :
    store s' = store s \/ (exists x, store s' = x :: store s) ->
    passes s' = passes s -> jobs s' = jobs s ->
    jobs_ok s js -> (forall c, In c (job_olds js) -> In c (job_olds (jobs s)) \/ In c (pass_certs (passes s)) \/ In c (map snd (store s))) ->
    jobs_ok s' js.
  Proof.
    intros ES EP EJ (A & B & C & D) H; repeat split; auto.
    intros c K. rewrite InSt_iff, EP, EJ. destruct (H c K) as [X|[X|X]]; auto.
    right; left. destruct ES as [->|[x ->]]; cbn; auto.
  Qed.

  Lemma stored_fresh_false_due s n st :
    stored (store s) n = Some st -> cdue st = true -> stored_fresh (store s) n = false.
  Proof. intros S D; unfold stored_fresh; rewrite S, D; reflexivity. Qed.
  Lemma stored_fresh_false_none s n :
    stored (store s) n = None -> stored_fresh (store s) n = false.
  Proof. intros S; unfold stored_fresh; rewrite S; reflexivity. Qed.

  Lemma job_olds_sub_replace pre j j' post c :
    jold j' = jold j ->
    In c (job_olds (pre ++ j' :: post)) -> In c (job_olds (pre ++ j :: post)).
  Proof.
    intros E. rewrite !job_olds_app, !in_app_iff.
    change (j' :: post) with ([j'] ++ post). change (j :: post) with ([j] ++ post).
    rewrite !job_olds_app, !in_app_iff. unfold job_olds at 2 5; cbn. rewrite E. tauto.
  Qed.

  Lemma job_olds_sub_remove pre j post c :
    In c (job_olds (pre ++ post)) -> In c (job_olds (pre ++ j :: post)).
  Proof.
    rewrite !job_olds_app, !in_app_iff.
    change (j :: post) with ([j] ++ post). rewrite !job_olds_app, !in_app_iff. tauto.
  Qed.

  Lemma WF_job_step s n k : WF s -> WF (job_step idue s n k).
  Proof.
    intros W. unfold job_step.
    destruct (split_job n k (jobs s)) as [[[pre j] post]|] eqn:SJ; [|exact W].
    destruct (split_job_spec _ _ _ _ _ _ SJ) as [EJ EN].
    pose proof (jobs_ok_self s W) as JO. rewrite EJ in JO.
    (* the three ways the job list changes *)
    assert (Kp : forall p s', is_locked p = false ->
              WF s' -> (store s' = store s \/ exists x, store s' = x :: store s) ->
              passes s' = passes s -> jobs s' = jobs s ->
              WF (with_jobs s' (pre ++ set_pc j p :: post))).
    { intros p s' P W' ES EP EJ'. apply WF_jobs_ok; auto.
      eapply jobs_ok_transfer; eauto.
      - apply jobs_ok_set_pc_unlocked; auto.
      - intros c H. left. rewrite EJ. eapply job_olds_sub_replace; [|exact H]. reflexivity. }
    assert (Kd : forall s', WF s' -> store s' = store s -> passes s' = passes s -> jobs s' = jobs s ->
              WF (with_jobs s' (pre ++ post))).
    { intros s' W' ES EP EJ'. apply WF_jobs_ok; auto.
      eapply jobs_ok_transfer; eauto.
      - eapply jobs_ok_remove; eauto.
      - intros c H. left. rewrite EJ. apply job_olds_sub_remove; exact H. }
    assert (Kl : lock_held (jobs s) n = false -> WF (with_jobs s (pre ++ set_pc j Locked :: post))).
    { intros LH. apply WF_jobs_ok; auto. apply jobs_ok_set_pc_locked; auto.
      rewrite EN, <- EJ; exact LH. }
    destruct (jkd j), (jpc_ j).
    - (* obtain, queued *)
      destruct (stored (store s) n) as [st|] eqn:S.
      + apply Kd; try reflexivity. eapply WF_cache_add_stored; eauto.
      + destruct (lock_held (jobs s) n) eqn:LH; auto.
    - (* obtain, locked *)
      destruct (stored (store s) n) as [st|] eqn:S.
      + apply Kp; auto.
      + destruct (is_failing s n); [apply WF_with_failed; auto|].
        apply Kp; try reflexivity.
        * apply WF_issue; auto. apply stored_fresh_false_none; auto.
        * right; eexists; reflexivity.
    - (* obtain, reload *)
      destruct (stored (store s) n) as [st|] eqn:S.
      + apply Kd; try reflexivity. eapply WF_cache_add_stored; eauto.
      + apply Kd; auto.
    - (* renew, queued *)
      destruct (lock_held (jobs s) n) eqn:LH; auto.
    - (* renew, locked *)
      destruct (stored (store s) n) as [st|] eqn:S; auto.
      destruct (cdue st) eqn:D.
      + destruct (is_failing s n); [apply WF_with_failed; auto|].
        apply Kp; try reflexivity.
        * apply WF_issue; auto. eapply stored_fresh_false_due; eauto.
        * right; eexists; reflexivity.
      + apply Kp; auto.
    - (* renew, reload *)
      destruct (jold j) as [old|].
      + apply Kd; try reflexivity. apply WF_reload_one; auto.
      + apply Kd; auto.
  Qed.

  Lemma WF_manage s n a : WF s -> WF (manage od idue s n a).
  Proof.
    intros W. unfold manage.
    destruct (od n) eqn:OD; auto.
    destruct (managed_for n (cache s)); auto.
    destruct (stored (store s) n) as [st|] eqn:S.
    - assert (W0 : WF (with_cache s (cache_add st (cache s)))) by (eapply WF_cache_add_stored; eauto).
      destruct (cdue st) eqn:D; auto.
      destruct a.
      + (* async: submit a renewal job *)
        apply WF_jobs_ok; auto. comp.
        destruct (wf_stored od s n st W S) as [Hh Hm].
        apply jobs_ok_submit_renew; auto.
        * apply (jobs_ok_self _ W0).
        * rewrite InSt_iff; comp. right; left. eapply stored_In_snd; eauto.
        * unfold Model.eligible. rewrite Hm, Hh, OD, D; reflexivity.
      + destruct (lock_held (jobs s) n); auto.
        destruct (is_failing s n).
        * apply WF_with_err, WF_with_failed; auto.
        * apply WF_reload_one. apply WF_issue; auto.
          comp. eapply stored_fresh_false_due; eauto.
    - destruct a.
      + apply WF_jobs_ok; auto. apply jobs_ok_add_obtain, jobs_ok_self; auto.
      + destruct (lock_held (jobs s) n); auto.
        destruct (is_failing s n).
        * apply WF_with_err, WF_with_failed; auto.
        * assert (W1 : WF (issue idue s n)) by (apply WF_issue; auto; apply stored_fresh_false_none; auto).
          destruct (stored (store (issue idue s n)) n) as [c|] eqn:S1; auto.
          eapply WF_cache_add_stored; eauto.
  Qed.

  Theorem WF_step s e : WF s -> WF (step s e).
  Proof.
    intros W. apply (WF_with_err s false) in W. unfold Model.step. destruct e.
    - apply WF_pass_scan; auto.
    - apply WF_pass_act; auto.
    - apply WF_ext_renew; auto.
    - apply WF_set_issuer; auto.
    - apply WF_job_step; auto.
    - apply WF_manage; auto.
  Qed.

  Theorem WF_run s h : WF s -> WF (run s h).
  Proof.
    revert s; induction h as [|e r IH]; cbn; intros s W; auto. apply IH, WF_step, W.
  Qed.
End Inv.
