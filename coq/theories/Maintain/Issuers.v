(** C05 — several issuers (definitions only).

    [Config.Issuers] is an ordered chain: an attempt asks each issuer in turn and takes the first
    certificate it gets ([renewCert] / [obtainCert]: "try to obtain from each issuer until we
    succeed"); it fails when all of them fail. The model's single issuer ([Model.is_failing],
    [Model.issue]) is that whole chain. A certificate is saved under the key of the issuer that
    produced it ([saveCertResource]); storage therefore holds up to one bundle per issuer and name
    ([mstore]), and [loadCertResourceAnyIssuer] returns the most recently issued of them ([mload]:
    latest NotBefore; the model's identities grow with the time of issuance). The model's [store]
    (a stack of bindings, newest first, looked up by [stored]) is an abstraction of that:
    [IssuersProofs.mload_concretize] shows that, whichever issuer key each save went to, loading
    from the per-issuer storage yields [stored]. *)
From Coq Require Import List Arith Bool.
From CM Require Import Maintain.Model.
Import ListNotations.

Definition issuer := nat.
Definition mstore := list (issuer * name * cert).

Definition same_slot (i : issuer) (n : name) (e : issuer * name * cert) : bool :=
  (fst (fst e) =? i) && (snd (fst e) =? n).
(** saveCertResource: replaces the bundle under this issuer's key for this name *)
Definition msave (ms : mstore) (i : issuer) (n : name) (c : cert) : mstore :=
  (i, n, c) :: filter (fun e => negb (same_slot i n e)) ms.

Definition bundles (ms : mstore) (n : name) : list cert :=
  map snd (filter (fun e => snd (fst e) =? n) ms).
(** the most recently issued of a list of certificates *)
Fixpoint newest (l : list cert) : option cert :=
  match l with
  | [] => None
  | c :: r => match newest r with
              | None => Some c
              | Some d => if cid d <? cid c then Some c else Some d
              end
  end.
(** loadCertResourceAnyIssuer *)
Definition mload (ms : mstore) (n : name) : option cert := newest (bundles ms n).

(** the per-issuer storage obtained from the model's stack of bindings (newest first) when the
    j-th binding was saved under issuer key [nth j tags] *)
Fixpoint concretize (st : list (name * cert)) (tags : list issuer) : mstore :=
  match st, tags with
  | (n, c) :: st', i :: tags' => msave (concretize st' tags') i n c
  | _, _ => []
  end.

(** the stack is ordered by time of issuance: every binding is younger than the bindings of the
    same name below it *)
Fixpoint stack_ordered (st : list (name * cert)) : Prop :=
  match st with
  | [] => True
  | (n, c) :: r => (forall d, In (n, d) r -> cid d < cid c) /\ stack_ordered r
  end.

(** the issuer chain: the first issuer that does not fail *)
Fixpoint first_working (order : list issuer) (fails : issuer -> bool) : option issuer :=
  match order with
  | [] => None
  | i :: r => if fails i then first_working r fails else Some i
  end.
