(** C05 — executable model of certificate maintenance:
    [Config.manageOne] (ManageSync / ManageAsync), [Cache.RenewManagedCertificates] (scan under the
    read lock, act outside it), [Cache.queueRenewalTask] -> [jm.Submit("renew_"+name)] ->
    [RenewCertAsync] -> [reloadManagedCertificate], the async obtain job of [manageOne], the
    per-name issuance lock and the retry loop of [doWithRetry] (one model step per attempt).

    Definitions only (this file must compile even when a proof breaks).

    Abstractions (see notes/C05.md): a certificate is a record (serial, names, due?, managed?);
    "due" is the verdict of [Certificate.NeedsRenewal] / [managedCertNeedsRenewal] (property C04) and
    does not change during a history; one issuer; OCSP/ARI inert; cache capacity unlimited. *)
From Coq Require Import List Arith Bool.
Import ListNotations.

Definition name := nat.

Record cert := Cert {
  cid : nat;            (* identity (the harness uses the serial number; the code uses the chain hash) *)
  chead : name;         (* Names[0]: the storage key / renewal name *)
  crest : list name;    (* further SANs *)
  cdue : bool;          (* NeedsRenewal *)
  cman : bool           (* Certificate.managed *)
}.
Definition cnames (c : cert) : list name := chead c :: crest c.

Fixpoint list_nat_eqb (a b : list nat) : bool :=
  match a, b with
  | [], [] => true
  | x :: a', y :: b' => (x =? y) && list_nat_eqb a' b'
  | _, _ => false
  end.
Definition cert_eqb (a b : cert) : bool :=
  (cid a =? cid b) && (chead a =? chead b) && list_nat_eqb (crest a) (crest b) &&
  Bool.eqb (cdue a) (cdue b) && Bool.eqb (cman a) (cman b).

(** background jobs of the package-level job manager *)
Inductive jkind := JObtain | JRenew.
Inductive jpc :=
| Queued    (* submitted; has not acquired the issuance lock yet *)
| Locked    (* holds the lock "issue_cert_<name>"; inside doWithRetry, before an attempt *)
| Reload.   (* lock released; about to load the stored certificate into the cache *)
Record job := Job {
  jname : name;          (* name to obtain / renew (= lock name, storage key, "renew_"+name) *)
  jkd : jkind;
  jold : option cert;    (* renew jobs: the certificate captured by the closure (oldCert) *)
  jpc_ : jpc
}.

(** a maintenance pass between its scan and its act phase *)
Record pass := Pass { pid : nat; preload : list cert; prenew : list cert }.

Record state := State {
  store : list (name * cert);   (* shared storage: newest binding first *)
  cache : list cert;            (* Cache.cache, in insertion order; the name index is derived *)
  jobs : list job;              (* queued or running jobs, in submission order *)
  passes : list pass;           (* passes that have scanned and not yet acted *)
  failing : list name;          (* names for which the issuer currently fails *)
  issued : list name;           (* successful Issue calls, newest first *)
  failed : list name;           (* failed Issue calls, newest first *)
  next : nat;                   (* next fresh serial *)
  lasterr : bool                (* did the last event return an error to its caller *)
}.

Definition with_store s x := State x (cache s) (jobs s) (passes s) (failing s) (issued s) (failed s) (next s) (lasterr s).
Definition with_cache s x := State (store s) x (jobs s) (passes s) (failing s) (issued s) (failed s) (next s) (lasterr s).
Definition with_jobs s x := State (store s) (cache s) x (passes s) (failing s) (issued s) (failed s) (next s) (lasterr s).
Definition with_passes s x := State (store s) (cache s) (jobs s) x (failing s) (issued s) (failed s) (next s) (lasterr s).
Definition with_failing s x := State (store s) (cache s) (jobs s) (passes s) x (issued s) (failed s) (next s) (lasterr s).
Definition with_failed s x := State (store s) (cache s) (jobs s) (passes s) (failing s) (issued s) x (next s) (lasterr s).
Definition with_err s x := State (store s) (cache s) (jobs s) (passes s) (failing s) (issued s) (failed s) (next s) x.

(** ** storage *)
Definition stored (st : list (name * cert)) (n : name) : option cert :=
  match find (fun p => fst p =? n) st with Some p => Some (snd p) | None => None end.
Definition stored_fresh (st : list (name * cert)) (n : name) : bool :=
  match stored st n with Some c => negb (cdue c) | None => false end.

(** ** cache (cacheCertificate / removeCertificate / replaceCertificate, keyed by identity) *)
Definition has_id (i : nat) (l : list cert) : bool := existsb (fun c => cid c =? i) l.
Definition cache_add (c : cert) (l : list cert) : list cert := if has_id (cid c) l then l else l ++ [c].
Definition cache_remove (c : cert) (l : list cert) : list cert := filter (fun x => negb (cid x =? cid c)) l.
Definition cache_replace (old new : cert) (l : list cert) : list cert := cache_add new (cache_remove old l).
Definition has_name (n : name) (c : cert) : bool := existsb (Nat.eqb n) (cnames c).
(** the name index: certificates that answer for [n] *)
Definition resolve (n : name) (l : list cert) : list cert := filter (has_name n) l.
Definition managed_for (n : name) (l : list cert) : bool := existsb cman (resolve n l).

(** reloadManagedCertificate: load Names[0] of the old certificate, replace old by new *)
Definition reload_one (st : list (name * cert)) (ca : list cert) (old : cert) : list cert :=
  match stored st (chead old) with
  | Some new => cache_replace old new ca
  | None => ca
  end.

(** ** job manager *)
Definition is_renew_for (n : name) (j : job) : bool :=
  match jkd j with JRenew => jname j =? n | JObtain => false end.
(** jm.Submit("renew_"+n, ...): no-op when a job of that name is queued or running *)
Definition submit_renew (js : list job) (n : name) (old : cert) : list job :=
  if existsb (is_renew_for n) js then js else js ++ [Job n JRenew (Some old) Queued].
Definition is_locked (p : jpc) : bool := match p with Locked => true | _ => false end.
Definition lock_held (js : list job) (n : name) : bool :=
  existsb (fun j => (jname j =? n) && is_locked (jpc_ j)) js.
Definition set_pc (j : job) (p : jpc) : job := Job (jname j) (jkd j) (jold j) p.

(** the [k]-th job (in submission order) whose name is [n] *)
Fixpoint split_job (n : name) (k : nat) (js : list job) : option (list job * job * list job) :=
  match js with
  | [] => None
  | j :: r =>
      if jname j =? n then
        match k with
        | O => Some ([], j, r)
        | S k' => match split_job n k' r with Some (a, x, b) => Some (j :: a, x, b) | None => None end
        end
      else match split_job n k r with Some (a, x, b) => Some (j :: a, x, b) | None => None end
  end.

Fixpoint take_pass (p : nat) (ps : list pass) : option (pass * list pass) :=
  match ps with
  | [] => None
  | q :: r => if pid q =? p then Some (q, r)
              else match take_pass p r with Some (x, r') => Some (x, q :: r') | None => None end
  end.

Inductive event :=
| PassScan (p : nat)                       (* RenewManagedCertificates, first loop (under RLock) *)
| PassAct (p : nat)                        (* ... reload queue and renewal queue (outside the lock) *)
| ExtRenew (n : name) (rest : list name)   (* another instance saves a fresh certificate for n *)
| SetIssuer (n : name) (fail : bool)       (* the issuer starts / stops failing for n *)
| JobStep (n : name) (k : nat)             (* the k-th background job for n advances by one step *)
| Manage (n : name) (async : bool).        (* ManageSync / ManageAsync [n] *)

Section Model.
  Variable od : name -> bool.   (* GetConfigForCert yields an on-demand config for this Names[0] *)
  Variable idue : bool.         (* does the issuer hand out certificates that are already due *)

  Definition is_failing (s : state) (n : name) : bool := existsb (Nat.eqb n) (failing s).

  (** managed, not on-demand, due: what a maintenance pass acts on *)
  Definition eligible (c : cert) : bool := cman c && negb (od (chead c)) && cdue c.
  Definition scan_reload (st : list (name * cert)) (ca : list cert) : list cert :=
    filter (fun c => eligible c && stored_fresh st (chead c)) ca.
  Definition scan_renew (st : list (name * cert)) (ca : list cert) : list cert :=
    filter (fun c => eligible c && negb (stored_fresh st (chead c))) ca.

  (** a successful Issuer.Issue followed by saveCertResource *)
  Definition new_cert (s : state) (n : name) : cert := Cert (next s) n [] idue true.
  Definition issue (s : state) (n : name) : state :=
    State ((n, new_cert s n) :: store s) (cache s) (jobs s) (passes s) (failing s)
          (n :: issued s) (failed s) (S (next s)) (lasterr s).

  Definition pass_scan (s : state) (p : nat) : state :=
    with_passes s (passes s ++ [Pass p (scan_reload (store s) (cache s)) (scan_renew (store s) (cache s))]).

  Definition pass_act (s : state) (p : nat) : state :=
    match take_pass p (passes s) with
    | None => s
    | Some (q, rest) =>
        let ca := fold_left (reload_one (store s)) (preload q) (cache s) in
        let js := fold_left (fun js old => submit_renew js (chead old) old) (prenew q) (jobs s) in
        State (store s) ca js rest (failing s) (issued s) (failed s) (next s) (lasterr s)
    end.

  Definition ext_renew (s : state) (n : name) (rest : list name) : state :=
    State ((n, Cert (next s) n rest false true) :: store s) (cache s) (jobs s) (passes s) (failing s)
          (issued s) (failed s) (S (next s)) (lasterr s).

  Definition set_issuer (s : state) (n : name) (fail : bool) : state :=
    with_failing s (if fail then n :: failing s else filter (fun m => negb (m =? n)) (failing s)).

  Definition job_step (s : state) (n : name) (k : nat) : state :=
    match split_job n k (jobs s) with
    | None => s
    | Some (pre, j, post) =>
        let keep (p : jpc) (s' : state) := with_jobs s' (pre ++ set_pc j p :: post) in
        let done (s' : state) := with_jobs s' (pre ++ post) in
        match jkd j, jpc_ j with
        | JRenew, Queued => if lock_held (jobs s) n then s else keep Locked s
        | JRenew, Locked =>
            (* one attempt of renewCert's retried function, under the lock *)
            match stored (store s) n with
            | None => s                                 (* load error: retried *)
            | Some st =>
                if cdue st then
                  if is_failing s n then with_failed s (n :: failed s)   (* Issue error: retried *)
                  else keep Reload (issue s n)
                else keep Reload s                       (* "appears to have been renewed already" *)
            end
        | JRenew, Reload =>
            match jold j with
            | Some old => done (with_cache s (reload_one (store s) (cache s) old))
            | None => done s
            end
        | JObtain, Queued =>
            (* obtainCert's precheck; storage has it => CacheManagedCertificate right away *)
            match stored (store s) n with
            | Some st => done (with_cache s (cache_add st (cache s)))
            | None => if lock_held (jobs s) n then s else keep Locked s
            end
        | JObtain, Locked =>
            match stored (store s) n with
            | Some _ => keep Reload s                    (* "certificate already exists in storage" *)
            | None => if is_failing s n then with_failed s (n :: failed s) else keep Reload (issue s n)
            end
        | JObtain, Reload =>
            match stored (store s) n with
            | Some st => done (with_cache s (cache_add st (cache s)))
            | None => done s
            end
        end
    end.

  (** manageOne. A synchronous call that would have to wait for the issuance lock (held by a
      background job in its retry loop) is modelled as not taking place. *)
  Definition manage (s : state) (n : name) (async : bool) : state :=
    if od n then s
    else if managed_for n (cache s) then s
    else
      match stored (store s) n with
      | None =>
          if async then with_jobs s (jobs s ++ [Job n JObtain None Queued])
          else if lock_held (jobs s) n then s
          else if is_failing s n then with_err (with_failed s (n :: failed s)) true
          else
            let s1 := issue s n in
            match stored (store s1) n with
            | Some c => with_cache s1 (cache_add c (cache s1))
            | None => s1
            end
      | Some st =>
          let s0 := with_cache s (cache_add st (cache s)) in
          if cdue st then
            if async then with_jobs s0 (submit_renew (jobs s0) n st)
            else if lock_held (jobs s) n then s
            else if is_failing s n then with_err (with_failed s0 (n :: failed s0)) true
            else
              let s1 := issue s0 n in
              with_cache s1 (reload_one (store s1) (cache s1) st)
          else s0
      end.

  Definition step (s : state) (e : event) : state :=
    let s := with_err s false in
    match e with
    | PassScan p => pass_scan s p
    | PassAct p => pass_act s p
    | ExtRenew n rest => ext_renew s n rest
    | SetIssuer n f => set_issuer s n f
    | JobStep n k => job_step s n k
    | Manage n a => manage s n a
    end.

  Definition run (s : state) (h : list event) : state := fold_left step h s.
End Model.

(** ** observation (what the harness reads off the implementation after every event) *)
Fixpoint insert_by {A} (key : A -> nat) (x : A) (l : list A) : list A :=
  match l with
  | [] => [x]
  | y :: r => if key x <=? key y then x :: l else y :: insert_by key x r
  end.
Definition sort_by {A} (key : A -> nat) (l : list A) : list A := fold_right (insert_by key) [] l.

Definition job_code (j : job) : nat :=
  jname j * 6 + (match jkd j with JObtain => 0 | JRenew => 3 end) +
  (match jpc_ j with Queued => 0 | Locked => 1 | Reload => 2 end).

Record obs := Obs {
  o_cache : list cert;            (* cache entries sorted by identity *)
  o_store : list (option cert);   (* per name 0..k-1: the stored bundle *)
  o_index : list (list nat);      (* per name: identities in the name index, sorted *)
  o_served : list (option nat);   (* per name: the certificate served when exactly one answers *)
  o_issued : list nat;            (* per name: successful Issue calls so far *)
  o_failed : list nat;            (* per name: failed Issue calls so far *)
  o_jobs : list nat;              (* job codes, sorted *)
  o_err : bool
}.

Definition served (n : name) (l : list cert) : option nat :=
  match resolve n l with [c] => Some (cid c) | _ => None end.

Definition index_ids (n : name) (l : list cert) : list nat :=
  sort_by (fun x => x) (map cid (resolve n l)).

Definition observe (k : nat) (s : state) : obs :=
  let U := seq 0 k in
  Obs (sort_by cid (cache s))
      (map (stored (store s)) U)
      (map (fun n => index_ids n (cache s)) U)
      (map (fun n => served n (cache s)) U)
      (map (fun n => count_occ Nat.eq_dec (issued s) n) U)
      (map (fun n => count_occ Nat.eq_dec (failed s) n) U)
      (sort_by (fun x => x) (map job_code (jobs s)))
      (lasterr s).
