(** C05 — basic lemmas about the maintenance model ([Maintain.Model]) and the definition of
    well-formed states. *)
From Coq Require Import List Arith Bool Lia.
From CM Require Import Maintain.Model Maintain.Spec.
Import ListNotations.

(** * Basic reflection *)
Lemma list_nat_eqb_eq a b : list_nat_eqb a b = true <-> a = b.
Proof.
  revert b; induction a as [|x a IH]; intros [|y b]; cbn; split; try congruence; try discriminate; auto.
  - rewrite andb_true_iff, Nat.eqb_eq, IH. intros [-> ->]; reflexivity.
  - intros H; injection H as -> ->. rewrite Nat.eqb_refl. cbn. apply IH. reflexivity.
Qed.

Lemma cert_eqb_eq a b : cert_eqb a b = true <-> a = b.
Proof.
  destruct a as [i h r d m], b as [i' h' r' d' m']; unfold cert_eqb; cbn.
  rewrite !andb_true_iff, !Nat.eqb_eq, list_nat_eqb_eq, !eqb_true_iff.
  split; [intros [[[[-> ->] ->] ->] ->]; reflexivity | intros H; injection H; intros; subst; auto].
Qed.

Lemma cert_eqb_refl a : cert_eqb a a = true.
Proof. apply cert_eqb_eq; reflexivity. Qed.

Lemma mem_cert_In c l : mem_cert c l = true <-> In c l.
Proof.
  unfold mem_cert; rewrite existsb_exists; split.
  - intros (x & Hx & E); apply cert_eqb_eq in E; subst; auto.
  - intros H; exists c; split; auto using cert_eqb_refl.
Qed.

(** * Storage *)
Lemma stored_In st n c : stored st n = Some c -> In (n, c) st.
Proof.
  unfold stored. destruct (find (fun p => fst p =? n) st) as [[m x]|] eqn:F; [|discriminate].
  intros H; injection H as ->. apply find_some in F as [Hin E]. cbn in E.
  apply Nat.eqb_eq in E; subst; exact Hin.
Qed.

Lemma stored_In_snd st n c : stored st n = Some c -> In c (map snd st).
Proof. intros H; apply stored_In in H. apply (in_map snd) in H; exact H. Qed.

Lemma stored_cons_eq st n c : stored ((n, c) :: st) n = Some c.
Proof. unfold stored; cbn. rewrite Nat.eqb_refl; reflexivity. Qed.

Lemma stored_cons_neq st n m c : n <> m -> stored ((n, c) :: st) m = stored st m.
Proof. intros H; unfold stored; cbn. destruct (Nat.eqb_spec n m); [contradiction|reflexivity]. Qed.

Lemma stored_fresh_cons_eq st n c : stored_fresh ((n, c) :: st) n = negb (cdue c).
Proof. unfold stored_fresh; rewrite stored_cons_eq; reflexivity. Qed.

Lemma stored_fresh_cons_neq st n m c : n <> m -> stored_fresh ((n, c) :: st) m = stored_fresh st m.
Proof. intros H; unfold stored_fresh; rewrite stored_cons_neq by exact H; reflexivity. Qed.

(** * Cache operations *)
Lemma has_id_true i l : has_id i l = true <-> exists c, In c l /\ cid c = i.
Proof.
  unfold has_id; rewrite existsb_exists; split; intros (c & H & E); exists c; split; auto;
    apply Nat.eqb_eq; exact E.
Qed.

Lemma In_cache_add x c l : In x (cache_add c l) -> In x l \/ x = c.
Proof.
  unfold cache_add; destruct (has_id (cid c) l); auto.
  rewrite in_app_iff; cbn; intuition.
Qed.

Lemma In_cache_add_l x c l : In x l -> In x (cache_add c l).
Proof. unfold cache_add; destruct (has_id (cid c) l); auto. rewrite in_app_iff; auto. Qed.

Lemma In_cache_add_new c l :
  (forall x, In x l -> cid x = cid c -> x = c) -> In c (cache_add c l).
Proof.
  intros U. unfold cache_add. destruct (has_id (cid c) l) eqn:H.
  - apply has_id_true in H as (x & Hx & E). rewrite <- (U x Hx E); exact Hx.
  - rewrite in_app_iff; cbn; auto.
Qed.

Lemma In_cache_remove x c l : In x (cache_remove c l) <-> In x l /\ cid x <> cid c.
Proof.
  unfold cache_remove; rewrite filter_In, negb_true_iff, Nat.eqb_neq; reflexivity.
Qed.

Lemma In_reload_one x st ca old :
  In x (reload_one st ca old) -> In x ca \/ In x (map snd st).
Proof.
  unfold reload_one. destruct (stored st (chead old)) as [new|] eqn:S; auto.
  unfold cache_replace; intros H. apply In_cache_add in H as [H | ->].
  - apply In_cache_remove in H; tauto.
  - right; eapply stored_In_snd; eauto.
Qed.

Lemma reload_one_keeps x st ca old :
  In x ca -> cid x <> cid old -> In x (reload_one st ca old).
Proof.
  intros H N. unfold reload_one. destruct (stored st (chead old)); auto.
  apply In_cache_add_l, In_cache_remove; auto.
Qed.

Lemma In_fold_reload x st olds ca :
  In x (fold_left (reload_one st) olds ca) -> In x ca \/ In x (map snd st).
Proof.
  revert ca; induction olds as [|o r IH]; cbn; intros ca H; auto.
  apply IH in H as [H|H]; auto. apply In_reload_one in H; tauto.
Qed.

Lemma fold_reload_keeps x st olds ca :
  In x ca -> (forall o, In o olds -> cid x <> cid o) -> In x (fold_left (reload_one st) olds ca).
Proof.
  revert ca; induction olds as [|o r IH]; cbn; intros ca H N; auto.
  apply IH; [apply reload_one_keeps; auto | intros; apply N; auto].
Qed.

Lemma In_resolve x n l : In x (resolve n l) <-> In x l /\ has_name n x = true.
Proof. unfold resolve; apply filter_In. Qed.

Lemma has_name_In n c : has_name n c = true <-> In n (cnames c).
Proof.
  unfold has_name; rewrite existsb_exists; split.
  - intros (m & H & E); apply Nat.eqb_eq in E; subst; auto.
  - intros H; exists n; split; auto using Nat.eqb_refl.
Qed.

(** * Jobs *)
Lemma split_job_spec n k js pre j post :
  split_job n k js = Some (pre, j, post) -> js = pre ++ j :: post /\ jname j = n.
Proof.
  revert k pre; induction js as [|x r IH]; cbn; intros k pre H; [discriminate|].
  destruct (Nat.eqb_spec (jname x) n) as [E|E].
  - destruct k as [|k'].
    + injection H as <- <- <-; auto.
    + destruct (split_job n k' r) as [[[a y] b]|] eqn:S; [|discriminate].
      injection H as <- <- <-. apply IH in S as [-> ?]; auto.
  - destruct (split_job n k r) as [[[a y] b]|] eqn:S; [|discriminate].
    injection H as <- <- <-. apply IH in S as [-> ?]; auto.
Qed.

Lemma take_pass_spec p ps q rest :
  take_pass p ps = Some (q, rest) ->
  pid q = p /\ exists a b, ps = a ++ q :: b /\ rest = a ++ b.
Proof.
  revert rest; induction ps as [|x r IH]; cbn; intros rest H; [discriminate|].
  destruct (Nat.eqb_spec (pid x) p) as [E|E].
  - injection H as <- <-. split; auto. exists [], r; auto.
  - destruct (take_pass p r) as [[y r']|] eqn:T; [|discriminate].
    injection H as <- <-. destruct (IH _ eq_refl) as (P & a & b & -> & ->).
    split; auto. exists (x :: a), b; auto.
Qed.

Lemma job_olds_app a b : job_olds (a ++ b) = job_olds a ++ job_olds b.
Proof. unfold job_olds; apply flat_map_app. Qed.

Lemma pass_certs_app a b : pass_certs (a ++ b) = pass_certs a ++ pass_certs b.
Proof. unfold pass_certs; apply flat_map_app. Qed.

Lemma job_olds_set_pc j p : job_olds [set_pc j p] = job_olds [j].
Proof. reflexivity. Qed.

Lemma In_submit_renew_olds c js n old :
  In c (job_olds (submit_renew js n old)) -> In c (job_olds js) \/ c = old.
Proof.
  unfold submit_renew. destruct (existsb _ js); auto.
  rewrite job_olds_app, in_app_iff; cbn; intuition.
Qed.

Lemma In_fold_submit_olds c olds js :
  In c (job_olds (fold_left (fun js old => submit_renew js (chead old) old) olds js)) ->
  In c (job_olds js) \/ In c olds.
Proof.
  revert js; induction olds as [|o r IH]; cbn; intros js H; auto.
  apply IH in H as [H|H]; auto. apply In_submit_renew_olds in H; intuition.
Qed.

Ltac comp :=
  cbn [store cache jobs passes failing issued failed next lasterr
       with_store with_cache with_jobs with_passes with_failing with_failed with_err] in *.

Section Proofs.
  Variable od : name -> bool.
  Variable idue : bool.

  Notation step := (step od idue).
  Notation run := (run od idue).
  Notation eligible := (eligible od).

  (** ** Certificates present in a state *)
  Definition InSt (s : state) (c : cert) : Prop := In c (all_certs s).

  Lemma InSt_iff s c :
    InSt s c <-> In c (cache s) \/ In c (map snd (store s)) \/
                 In c (pass_certs (passes s)) \/ In c (job_olds (jobs s)).
  Proof. unfold InSt, all_certs; rewrite !in_app_iff; tauto. Qed.

  Lemma InSt_cache s c : In c (cache s) -> InSt s c.
  Proof. rewrite InSt_iff; auto. Qed.
  Lemma InSt_store s c : In c (map snd (store s)) -> InSt s c.
  Proof. rewrite InSt_iff; auto. Qed.
  Lemma InSt_stored s n c : stored (store s) n = Some c -> InSt s c.
  Proof. intros H; apply InSt_store; eapply stored_In_snd; eauto. Qed.
  Lemma InSt_pass s c : In c (pass_certs (passes s)) -> InSt s c.
  Proof. rewrite InSt_iff; auto. Qed.
  Lemma InSt_job s c : In c (job_olds (jobs s)) -> InSt s c.
  Proof. rewrite InSt_iff; auto. Qed.

  Lemma In_pass_certs c ps : In c (pass_certs ps) <-> exists q, In q ps /\ In c (preload q ++ prenew q).
  Proof. unfold pass_certs; rewrite in_flat_map; reflexivity. Qed.

  Lemma In_job_olds c js : In c (job_olds js) <-> exists j, In j js /\ jold j = Some c.
  Proof.
    unfold job_olds; rewrite in_flat_map; split; intros (j & H & E); exists j; split; auto.
    - destruct (jold j); cbn in E; [destruct E as [->|[]]; reflexivity | contradiction].
    - rewrite E; cbn; auto.
  Qed.

  (** ** Well-formed states *)
  Record WF (s : state) : Prop := {
    wf_lt : forall c, InSt s c -> cid c < next s;
    wf_uniq : forall c1 c2, InSt s c1 -> InSt s c2 -> cid c1 = cid c2 -> c1 = c2;
    wf_store : forall n c, In (n, c) (store s) -> chead c = n /\ cman c = true;
    wf_pass : forall q c, In q (passes s) -> In c (preload q ++ prenew q) -> eligible c = true;
    wf_pass_fresh : forall q c, In q (passes s) -> In c (preload q) ->
                                stored_fresh (store s) (chead c) = true;
    wf_jobs : forall j, In j (jobs s) -> job_ok od j = true;
    wf_renew1 : forall n, length (filter (is_renew_for n) (jobs s)) <= 1;
    wf_lock1 : forall n, length (filter (is_locked_for n) (jobs s)) <= 1
  }.

  Lemma wf_stored s n c : WF s -> stored (store s) n = Some c -> chead c = n /\ cman c = true.
  Proof. intros W H; apply (wf_store s W); apply stored_In; exact H. Qed.

  Lemma wf_job_old s j old :
    WF s -> In j (jobs s) -> jold j = Some old ->
    jkd j = JRenew /\ chead old = jname j /\ eligible old = true.
  Proof.
    intros W Hj E. pose proof (wf_jobs s W j Hj) as K. unfold job_ok in K. rewrite E in K.
    destruct (jkd j); [discriminate|]. apply andb_true_iff in K as [K1 K2].
    apply Nat.eqb_eq in K1; auto.
  Qed.

  Lemma wf_job_renew s j :
    WF s -> In j (jobs s) -> jkd j = JRenew ->
    exists old, jold j = Some old /\ chead old = jname j /\ eligible old = true.
  Proof.
    intros W Hj E. pose proof (wf_jobs s W j Hj) as K. unfold job_ok in K. rewrite E in K.
    destruct (jold j) as [old|]; [|discriminate]. apply andb_true_iff in K as [K1 K2].
    apply Nat.eqb_eq in K1; eauto.
  Qed.

  (** every certificate the model is about to take out of the cache is eligible *)
  Lemma eligible_parts c : eligible c = true -> cman c = true /\ od (chead c) = false /\ cdue c = true.
  Proof.
    unfold Model.eligible; rewrite !andb_true_iff, negb_true_iff; tauto.
  Qed.
End Proofs.
